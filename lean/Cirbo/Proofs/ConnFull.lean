import Cirbo.Proofs.ConnSem
import Cirbo.Proofs.Passes
import Cirbo.Model.Miter
/-!
# Left connection: the full result (gates, inputs, outputs, blocks) — C10, used by C13
-/
namespace Cirbo
open GateType Circuit

/-- the left loop only appends: gates (with their input labels), nothing else -/
theorem connLoop_struct {other : Circuit} {m : Dict Label} {pre : String} :
    ∀ (order : List Label) (st0 st : ConnSt),
      order.foldl (connStep other m pre false) (.ok st0) = .ok st →
      ∃ extra : List Gate, st.c.gates = st0.c.gates ++ extra ∧ st.c.outputs = st0.c.outputs ∧
        st.c.blocks = st0.c.blocks ∧
        st.c.inputs = st0.c.inputs ++ (extra.filter (fun g => g.ty = INPUT)).map (·.label) ∧
        (st0.c.labels.Nodup → st.c.labels.Nodup) := by
  intro order
  induction order with
  | nil => intro st0 st h; simp at h; subst h; exact ⟨[], by simp, rfl, rfl, by simp, fun h => h⟩
  | cons cur rest ih =>
    intro st0 st h
    simp only [List.foldl_cons] at h
    cases hs : connStep other m pre false (.ok st0) cur with
    | error e => rw [hs, foldl_connStep_error] at h; cases h
    | ok st1 =>
      rw [hs] at h
      obtain ⟨ex2, g2, o2, b2, i2, n2⟩ := ih st1 st h
      unfold connStep at hs
      simp only at hs
      cases hf : other.find? cur with
      | none => simp [hf] at hs
      | some g =>
        simp only [hf] at hs
        split at hs
        · cases hm : mapLabels (Dict.set st0.o2n cur (pre ++ cur)) g.ops with
          | error e => simp [hm] at hs
          | ok ops =>
            simp only [hm] at hs
            cases ha : st0.c.addGate ⟨pre ++ cur, g.ty, ops⟩ with
            | error e => simp [ha] at hs
            | ok c1 =>
              simp only [ha, Except.ok.injEq] at hs
              subst hs
              obtain ⟨hfresh, _, hg1, hi1, ho1, hb1, _⟩ := addGate_fields ha
              simp only at g2 o2 b2 i2 n2
              refine ⟨⟨pre ++ cur, g.ty, ops⟩ :: ex2, by rw [g2, hg1]; simp, o2.trans ho1, b2.trans hb1, ?_, ?_⟩
              · rw [i2, hi1]
                by_cases ht : g.ty = INPUT <;> simp [ht, List.filter_cons]
              · intro hnd0
                apply n2
                unfold Circuit.labels
                rw [hg1, labels_append]
                refine List.nodup_append.mpr ⟨hnd0, by simp, ?_⟩
                intro a ha b hb
                simp only [List.mem_singleton] at hb
                subst hb
                intro e; subst e
                exact hfresh ha
        · simp only [Bool.false_eq_true, if_false, Except.ok.injEq] at hs
          subst hs
          exact ⟨ex2, g2, o2, b2, i2, n2⟩

/-- `mapLabels` is `map` of the lookup function when it succeeds -/
theorem mapLabels_eq_map {m : Dict Label} {ls r : List Label} (h : mapLabels m ls = .ok r) :
    r = ls.map (fun l => (Dict.get? m l).getD l) := by
  have := mapLabels_spec m ls r h
  clear h
  induction this with
  | nil => rfl
  | cons h1 _ ih => simp [h1, ih]

def bstepFn (o2n : Dict Label) (pre : String) : R Circuit → Block → R Circuit := fun acc b => match acc with
  | .error e => .error e
  | .ok cc =>
    let nb := pre ++ b.name
    if cc.blocks.any (fun x => x.name == nb) then .error "CircuitValidationError" else
    match mapLabels o2n b.inputs, mapLabels o2n b.gates, mapLabels o2n b.outputs with
    | .ok i, .ok g, .ok o => .ok { cc with blocks := cc.blocks ++ [⟨nb, i, g, o⟩] }
    | _, _, _ => .error "Py:KeyError"

theorem bfold_error (o2n : Dict Label) (pre : String) (e : String) :
    ∀ (bs : List Block), bs.foldl (bstepFn o2n pre) (.error e) = .error e := by
  intro bs; induction bs with
  | nil => rfl
  | cons a t ih => simpa [bstepFn] using ih

theorem bfold_fields (o2n : Dict Label) (pre : String) : ∀ (bs : List Block) (cc c3 : Circuit),
    bs.foldl (bstepFn o2n pre) (.ok cc) = .ok c3 →
    c3.gates = cc.gates ∧ c3.inputs = cc.inputs ∧ c3.outputs = cc.outputs ∧ ∃ mb, c3.blocks = cc.blocks ++ mb := by
  intro bs
  induction bs with
  | nil => intro cc c3 h; simp at h; subst h; exact ⟨rfl, rfl, rfl, [], by simp⟩
  | cons b r ih =>
    intro cc c3 h
    simp only [List.foldl_cons] at h
    cases hs : bstepFn o2n pre (.ok cc) b with
    | error e => rw [hs, bfold_error] at h; cases h
    | ok c1 =>
      rw [hs] at h
      obtain ⟨a1, a2, a3, mb, a4⟩ := ih c1 c3 h
      unfold bstepFn at hs
      simp only at hs
      split at hs
      · cases hs
      · split at hs
        · rename_i bi bg bo _ _ _
          simp only [Except.ok.injEq] at hs
          subst hs
          exact ⟨a1, a2, a3, ⟨pre ++ b.name, bi, bg, bo⟩ :: mb, by rw [a4]; simp⟩
        · cases hs

/-- everything the tail of `connect_circuit` does -/
theorem connFinish_spec {c other c' : Circuit} {st : ConnSt} {thisC otherC : List Label} {name : Label}
    {pre : String} (h : connFinish c other st thisC otherC name pre = .ok c') :
    let φ := fun l => (Dict.get? st.o2n l).getD l
    c'.gates = st.c.gates ∧
    c'.outputs = st.c.outputs.filter (fun o => !thisC.contains o) ++ (other.outputs.filter (fun o => !otherC.contains o)).map φ ∧
    c'.inputs = c.inputs.filter (fun i => ((st.c.find? i).map (·.ty)) == some INPUT) ++
      (other.inputs.filter (fun i => !otherC.contains i)).map φ ∧
    ∃ mb, (name = "" → c'.blocks = st.c.blocks ++ mb) ∧
      (name ≠ "" → c'.blocks =
        (if (st.c.blocks ++ mb).any (fun x => x.name == name)
         then (st.c.blocks ++ mb).map (fun x => if x.name == name then ⟨name, other.inputs.map φ, st.forBlock, other.outputs.map φ⟩ else x)
         else (st.c.blocks ++ mb) ++ [⟨name, other.inputs.map φ, st.forBlock, other.outputs.map φ⟩])) := by
  intro φ
  have hgates := connFinish_gates h
  unfold connFinish at h
  simp only at h
  split at h
  · cases h
  · rename_i outs2 ho
    split at h
    · cases h
    · rename_i c1 hso
      split at h
      · cases h
      · rename_i ins2 hi
        split at h
        · cases h
        · split at h
          · cases h
          · rename_i c2 hsi
            split at h
            · cases h
            · rename_i c3 hb0
              have hb : other.blocks.foldl (bstepFn st.o2n pre) (.ok c2) = .ok c3 := hb0
              obtain ⟨_, b2, b3, mb, b4⟩ := bfold_fields _ _ _ _ _ hb
              obtain ⟨o1, i1⟩ := setOutputs_outputs hso
              obtain ⟨i2, o2⟩ := setInputs_inputs hsi
              have hfind : ∀ i, c1.find? i = st.c.find? i := by
                intro i; unfold Circuit.find?; rw [setOutputs_gates hso]
              have hbl1 : c1.blocks = st.c.blocks := by
                unfold setOutputs at hso
                split at hso
                · cases hso
                · simp only [Except.ok.injEq] at hso; subst hso; rfl
              have hbl2 : c2.blocks = c1.blocks := by
                unfold setInputs at hsi
                split at hsi
                · cases hsi
                · split at hsi
                  · cases hsi
                  · split at hsi
                    · cases hsi
                    · simp only [Except.ok.injEq] at hsi; subst hsi; rfl
              have eo : outs2 = (other.outputs.filter (fun o => !otherC.contains o)).map φ := mapLabels_eq_map ho
              have ei : ins2 = (other.inputs.filter (fun i => !otherC.contains i)).map φ := mapLabels_eq_map hi
              have hc3o : c3.outputs = st.c.outputs.filter (fun o => !thisC.contains o) ++ (other.outputs.filter (fun o => !otherC.contains o)).map φ := by
                rw [b3, o2, o1, eo]
              have hc3i : c3.inputs = c.inputs.filter (fun i => ((st.c.find? i).map (·.ty)) == some INPUT) ++
                  (other.inputs.filter (fun i => !otherC.contains i)).map φ := by
                rw [b2, i2, ei]
                congr 1
                apply List.filter_congr
                intro i _; rw [hfind]
              have hc3b : c3.blocks = st.c.blocks ++ mb := by rw [b4, hbl2, hbl1]
              by_cases hn : name = ""
              · subst hn
                simp only [beq_self_eq_true, if_true, Except.ok.injEq] at h
                subst h
                exact ⟨hgates, hc3o, hc3i, mb, fun _ => hc3b, fun hne => absurd rfl hne⟩
              · have hn' : (name == "") = false := by simpa using hn
                simp only [hn', Bool.false_eq_true, if_false] at h
                cases hmi : mapLabels st.o2n other.inputs with
                | error e => simp [hmi] at h
                | ok bi =>
                  cases hmo : mapLabels st.o2n other.outputs with
                  | error e => simp [hmi, hmo] at h
                  | ok bo =>
                    simp only [hmi, hmo] at h
                    have ebi : bi = other.inputs.map φ := mapLabels_eq_map hmi
                    have ebo : bo = other.outputs.map φ := mapLabels_eq_map hmo
                    refine ⟨hgates, ?_, ?_, mb, fun he => absurd he hn, fun _ => ?_⟩
                    · split at h <;> (simp only [Except.ok.injEq] at h; subst h; exact hc3o)
                    · split at h <;> (simp only [Except.ok.injEq] at h; subst h; exact hc3i)
                    · rw [← hc3b, ← ebi, ← ebo]
                      split at h <;> (rename_i hany; simp only [Except.ok.injEq] at h; subst h; simp [hany])

abbrev connMapping (thisC otherC : List Label) : Dict Label :=
  (otherC.zip thisC).foldl (fun m p => Dict.set m p.1 p.2) ([] : Dict Label)
abbrev connPre (name : Label) (addP : Bool) : String := if name != "" && addP then name ++ "@" else ""

/-- the successful run of a left connection, step by step -/
theorem connect_left_unfold {c other c' : Circuit} {thisC otherC : List Label} {name : Label} {addP : Bool}
    (h : c.connectCircuit other thisC otherC false name addP = .ok c') :
    ∃ order st, other.topSort true = .ok order ∧
      order.foldl (connStep other (connMapping thisC otherC) (connPre name addP) false)
        (.ok ⟨c, connMapping thisC otherC, []⟩) = .ok st ∧
      connFinish c other st thisC otherC name (connPre name addP) = .ok c' ∧
      c.blocks.any (fun b => b.name == name) = false ∧
      nodupL otherC = true ∧ thisC.length = otherC.length ∧
      (∀ l ∈ otherC, (other.find? l).map (·.ty) = some INPUT) ∧
      (∀ l ∈ thisC, l ∈ c.labels) := by
  unfold connectCircuit at h
  simp only [Bool.false_eq_true, if_false] at h
  split at h
  · cases h
  · rename_i hblk
    cases hc1 : c.checkGatesExist thisC with
    | error e => simp [hc1] at h
    | ok u1 =>
      simp only [hc1] at h
      cases hc2 : other.checkGatesExist otherC with
      | error e => simp [hc2] at h
      | ok u2 =>
        simp only [hc2] at h
        split at h
        · cases h
        · rename_i hnd
          split at h
          · cases h
          · rename_i hlen
            split at h
            · cases h
            · rename_i hty
              cases hts : other.topSort true with
              | cyclic => simp [hts] at h
              | ok order =>
                simp only [hts] at h
                split at h
                · cases h
                · rename_i st hfold
                  refine ⟨order, st, rfl, hfold, h, by simpa using hblk, by simpa using hnd, by simpa using hlen, ?_, ?_⟩
                  · intro l hl
                    simp only [List.any_eq_true, bne_iff_ne, ne_eq, not_exists, not_and, Decidable.not_not] at hty
                    exact hty l hl
                  · intro l hl
                    exact checkGatesExist_ok hc1 l hl

theorem get?_zipFoldC_notin : ∀ (ps : List (Label × Label)) (m : Dict Label) (k : Label), k ∉ ps.map (·.1) →
    Dict.get? (ps.foldl (fun m p => Dict.set m p.1 p.2) m) k = Dict.get? m k := by
  intro ps
  induction ps with
  | nil => intro m k _; rfl
  | cons p t ih =>
    intro m k hk
    simp only [List.map_cons, List.mem_cons, not_or] at hk
    simp only [List.foldl_cons]
    rw [ih _ k hk.2, Dict.get?_set]
    simp [hk.1]

theorem get?_zipFoldC_mem : ∀ (ps : List (Label × Label)) (m : Dict Label), (ps.map (·.1)).Nodup →
    ∀ p ∈ ps, Dict.get? (ps.foldl (fun m p => Dict.set m p.1 p.2) m) p.1 = some p.2 := by
  intro ps
  induction ps with
  | nil => intro m _ p hp; cases hp
  | cons q t ih =>
    intro m hnd p hp
    simp only [List.map_cons, List.nodup_cons] at hnd
    simp only [List.foldl_cons]
    rcases List.mem_cons.mp hp with rfl | hp
    · rw [get?_zipFoldC_notin t _ _ hnd.1, Dict.get?_set]; simp
    · exact ih _ hnd.2 p hp

theorem nodupL_iff : ∀ (l : List Label), nodupL l = true ↔ l.Nodup := by
  intro l
  induction l with
  | nil => simp [nodupL]
  | cons x r ih => simp [nodupL, ih, List.nodup_cons]

/-- the connectors of `other`, read through the renaming, are the base gates they were identified with -/
theorem map_connectors {thisC otherC : List Label} {φ : Label → Label} (hnd : otherC.Nodup)
    (hlen : thisC.length = otherC.length)
    (hφ : ∀ l x, Dict.get? (connMapping thisC otherC) l = some x → φ l = x) : otherC.map φ = thisC := by
  have hkeys : (otherC.zip thisC).map (·.1) = otherC := by
    rw [List.map_fst_zip]; omega
  have hvals : (otherC.zip thisC).map (·.2) = thisC := by
    rw [List.map_snd_zip]; omega
  have : (otherC.zip thisC).map (fun p => φ p.1) = (otherC.zip thisC).map (·.2) := by
    apply List.map_congr_left
    intro p hp
    exact hφ p.1 p.2 (get?_zipFoldC_mem _ _ (by rw [hkeys]; exact hnd) p hp)
  rw [← hvals, ← this]
  conv => lhs; rw [← hkeys]
  rw [List.map_map]; rfl

theorem find_map_replace {α} (p : α → Bool) (nb : α) (hnb : p nb = true) : ∀ (l : List α), l.any p = true →
    (l.map (fun x => if p x then nb else x)).find? p = some nb := by
  intro l
  induction l with
  | nil => intro h; simp at h
  | cons x t ih =>
    intro h
    simp only [List.map_cons]
    by_cases hx : p x = true
    · simp [hx, hnb]
    · simp only [hx, Bool.false_eq_true, if_false]
      rw [List.find?_cons_of_neg (by simpa using hx)]
      apply ih
      simpa [hx] using h

theorem find_map_other {α} (p q : α → Bool) (nb : α) (hq : q nb = false) (hpq : ∀ x, p x = true → q x = false) :
    ∀ (l : List α), (l.map (fun x => if p x then nb else x)).find? q = l.find? q := by
  intro l
  induction l with
  | nil => rfl
  | cons x t ih =>
    simp only [List.map_cons]
    by_cases hx : p x = true
    · simp only [hx, if_true]
      rw [List.find?_cons_of_neg (by simp [hq]), List.find?_cons_of_neg (by simp [hpq x hx]), ih]
    · simp only [hx, Bool.false_eq_true, if_false]
      by_cases hqx : q x = true
      · simp [hqx]
      · rw [List.find?_cons_of_neg (by simpa using hqx), List.find?_cons_of_neg (by simpa using hqx), ih]

/-- **left connection, in full**: the renaming `φ` of the attached circuit's labels gives at once the
function of the attached gates, the kept base gates, the interface lists of the result, the block that
records the attached circuit, and the survival of the older blocks -/
theorem connect_left_full {c other c' : Circuit} {thisC otherC : List Label} {name : Label} {addP : Bool}
    (hwo : WFG other) (h : c.connectCircuit other thisC otherC false name addP = .ok c') :
    ∃ φ : Label → Label,
      (∀ b v, IsValB c' b v → IsValB other (v ∘ φ) (v ∘ φ)) ∧
      otherC.map φ = thisC ∧
      (∀ g ∈ other.gates, g.label ∉ otherC → φ g.label = connPre name addP ++ g.label) ∧
      (∃ extra, c'.gates = c.gates ++ extra) ∧
      (∀ g ∈ other.gates, g.label ∉ otherC → (⟨φ g.label, g.ty, g.ops.map φ⟩ : Gate) ∈ c'.gates) ∧
      (c.labels.Nodup → c'.labels.Nodup) ∧
      c'.outputs = c.outputs.filter (fun o => !thisC.contains o) ++ (other.outputs.filter (fun o => !otherC.contains o)).map φ ∧
      c'.inputs = c.inputs.filter (fun i => ((c'.find? i).map (·.ty)) == some INPUT) ++
        (other.inputs.filter (fun i => !otherC.contains i)).map φ ∧
      (name ≠ "" → ∃ fb, c'.getBlock name = .ok ⟨name, other.inputs.map φ, fb, other.outputs.map φ⟩) ∧
      (∀ n b, n ≠ name → c.getBlock n = .ok b → c'.getBlock n = .ok b) := by
  obtain ⟨order, st, hts, hfold, hfin, hblk, hnd, hlen, hty, _⟩ := connect_left_unfold h
  obtain ⟨order', ho1, hperm, hord⟩ := topSort_inv_spec hwo
  rw [hts] at ho1
  cases ho1
  have hndo : order.Nodup := hperm.nodup_iff.mpr hwo.nodup
  obtain ⟨hinv, _⟩ := connLoop_sem order [] ⟨c, _, []⟩ st (by simpa using hndo)
    (by
      intro cur hcur g hf o ho p q hpq
      obtain ⟨hgm, hgl⟩ := find_some_mem hf
      exact hord p cur q (by simpa using hpq) g hgm hgl o ho)
    ⟨by intro cur hc; simp at hc, fun _ _ h => h⟩ hfold
  simp only [List.nil_append] at hinv
  obtain ⟨extra, sg, so, sb, si, snd⟩ := connLoop_struct order _ st hfold
  simp only at sg so sb si snd
  obtain ⟨fg, fo, fi, mb, fb1, fb2⟩ := connFinish_spec hfin
  -- a label outside the connectors is not in the mapping
  have hnm : ∀ l, l ∉ otherC → Dict.contains (connMapping thisC otherC) l = false := by
    intro l hl
    cases hcm : Dict.contains (connMapping thisC otherC) l with
    | false => rfl
    | true =>
      exfalso
      rcases contains_zipFold _ _ _ hcm with h1 | h1
      · simp [Dict.contains, Dict.get?] at h1
      · obtain ⟨p, hp, hpe⟩ := List.mem_map.mp h1
        exact hl (hpe ▸ (List.of_mem_zip hp).1)
  have hφ2 : ∀ l x, Dict.get? (connMapping thisC otherC) l = some x → (Dict.get? st.o2n l).getD l = x := by
    intro l x hl; simp [hinv.mapped l x hl]
  refine ⟨fun l => (Dict.get? st.o2n l).getD l, ?_, map_connectors ((nodupL_iff _).mp hnd) hlen hφ2, ?_,
    ⟨extra, by rw [fg, sg]⟩, ?_, ?_, ?_, ?_, ?_, ?_⟩
  · intro b v hv g hgm
    by_cases ht : g.ty = INPUT
    · simp [ht]
    · simp only [ht, if_false]
      have hfg := find_of_mem hwo.nodup hgm
      have hin : g.label ∈ order := hperm.mem_iff.mpr (mem_labels_of_mem hgm)
      have hgn : g.label ∉ otherC := by
        intro hm
        have := hty g.label hm
        rw [hfg] at this
        simp at this
        exact ht this
      obtain ⟨e1, ops', e2, e3⟩ := hinv.added g.label hin g hfg (hnm _ hgn)
      have hv' := hv _ (fg ▸ e3)
      simp only [ht, if_false] at hv'
      have hmap : g.ops.map (v ∘ fun l => (Dict.get? st.o2n l).getD l) = ops'.map v :=
        all2_map_eq (fun a b hab => by simp [Function.comp, hab]) e2
      rw [hmap, hv']
      simp [Function.comp, e1]
  · intro g hgm hgn
    have hfg := find_of_mem hwo.nodup hgm
    have hin : g.label ∈ order := hperm.mem_iff.mpr (mem_labels_of_mem hgm)
    simp [(hinv.added g.label hin g hfg (hnm _ hgn)).1]
  · intro g hgm hgn
    have hfg := find_of_mem hwo.nodup hgm
    have hin : g.label ∈ order := hperm.mem_iff.mpr (mem_labels_of_mem hgm)
    obtain ⟨e1, ops', e2, e3⟩ := hinv.added g.label hin g hfg (hnm _ hgn)
    have hmap : g.ops.map (fun l => (Dict.get? st.o2n l).getD l) = ops' := by
      have := all2_map_eq (f := fun l => (Dict.get? st.o2n l).getD l) (g := id)
        (fun a b (hab : Dict.get? st.o2n a = some b) => by simp [hab]) e2
      simpa using this
    rw [fg, hmap]
    simpa [e1] using e3
  · intro hnd0
    unfold Circuit.labels at hnd0 ⊢
    rw [fg]
    exact snd hnd0
  · rw [fo, so]
  · rw [fi]
    congr 1
    apply List.filter_congr
    intro i _
    unfold Circuit.find?; rw [fg]
  · intro hn
    refine ⟨st.forBlock, ?_⟩
    unfold Circuit.getBlock
    rw [fb2 hn]
    by_cases hany : (st.c.blocks ++ mb).any (fun x => x.name == name) = true
    · simp only [hany, if_true]
      rw [find_map_replace (fun x : Block => x.name == name) _ (by simp) _ hany]
    · simp only [hany, Bool.false_eq_true, if_false]
      rw [List.find?_append]
      have : (st.c.blocks ++ mb).find? (fun x => x.name == name) = none := by
        apply List.find?_eq_none.mpr
        intro x hx hxe
        exact hany (List.any_eq_true.mpr ⟨x, hx, hxe⟩)
      rw [this]; simp
  · intro n b hne hgb
    unfold Circuit.getBlock at hgb ⊢
    cases hf : c.blocks.find? (fun x => x.name == n) with
    | none => simp [hf] at hgb
    | some b0 =>
      simp only [hf, Except.ok.injEq] at hgb
      subst hgb
      have hpre : (st.c.blocks ++ mb).find? (fun x => x.name == n) = some b0 := by
        rw [sb, List.find?_append, hf]; rfl
      by_cases hn : name = ""
      · rw [fb1 hn, hpre]
      · rw [fb2 hn]
        by_cases hany : (st.c.blocks ++ mb).any (fun x => x.name == name) = true
        · simp only [hany, if_true]
          rw [find_map_other (fun x : Block => x.name == name) (fun x : Block => x.name == n) _
            (by simpa using fun e : name = n => hne e.symm)
            (by intro x hx; simp only [beq_iff_eq] at hx; simpa [hx] using fun e : name = n => hne e.symm), hpre]
        · simp only [hany, Bool.false_eq_true, if_false]
          rw [List.find?_append, hpre]; rfl

end Cirbo
