import Cirbo.Proofs.ConnRightWfs
import Cirbo.Model.Wrappers
/-!
# `Block.into_circuit` after a connection: the recorded block, extracted, computes the attached circuit
-/
namespace Cirbo
open GateType Circuit

theorem rawAddGate_gates (n : Circuit) (g : Gate) :
    (n.rawAddGate g).gates = if n.hasGate g.label then n.gates.map (replG g) else n.gates ++ [g] := by
  unfold rawAddGate
  have hg : (g.ops.foldl (fun c o => c.addUser o g.label) n).gates = n.gates := (foldl_addUser_gates _ _ _).1
  have hh : (g.ops.foldl (fun c o => c.addUser o g.label) n).hasGate g.label = n.hasGate g.label := by
    unfold hasGate; rw [hg]
  simp only [hh, hg]
  split
  · unfold replG; rfl
  · rfl

theorem mem_rawAddGate_self (n : Circuit) (g : Gate) : g ∈ (n.rawAddGate g).gates := by
  rw [rawAddGate_gates]
  split
  · rename_i h
    exact mem_replG_self (by simpa [Circuit.labels] using (hasGate_iff n g.label).mp h)
  · simp

theorem mem_rawAddGate_other (n : Circuit) (g x : Gate) (hx : x ∈ n.gates) (hne : x.label ≠ g.label) :
    x ∈ (n.rawAddGate g).gates := by
  rw [rawAddGate_gates]
  split
  · exact mem_map_replG hx hne
  · simp [hx]

theorem rawAddGate_inputs (n : Circuit) (g : Gate) :
    (n.rawAddGate g).inputs = if g.ty = INPUT then n.inputs ++ [g.label] else n.inputs := by
  unfold rawAddGate
  have hi : (g.ops.foldl (fun c o => c.addUser o g.label) n).inputs = n.inputs := (foldl_addUser_gates _ _ _).2.1
  simp only [hi]

theorem intoInputs_inputs : ∀ (ins : List Label) (n : Circuit),
    (ins.foldl (fun n i => n.rawAddGate ⟨i, INPUT, []⟩) n).inputs = n.inputs ++ ins := by
  intro ins
  induction ins with
  | nil => intro n; simp
  | cons i r ih => intro n; simp only [List.foldl_cons]; rw [ih, rawAddGate_inputs]; simp

theorem intoFold_error (c : Circuit) (e : String) : ∀ (ls : List Label), ls.foldl (intoStep c) (.error e) = .error e := by
  intro ls; induction ls with
  | nil => rfl
  | cons a b ih => simpa [intoStep] using ih

/-- copying the block's gates: every label is found in the owner, its gate ends up in the new circuit
(labels distinct), and non-INPUT gates leave the input list alone -/
theorem intoFold_spec (c : Circuit) : ∀ (ls : List Label) (n E : Circuit), ls.Nodup →
    ls.foldl (intoStep c) (.ok n) = .ok E →
    (∀ l ∈ ls, ∃ g, c.find? l = some g ∧ g ∈ E.gates) ∧
    (∀ x ∈ n.gates, x.label ∉ ls → x ∈ E.gates) ∧
    ((∀ l ∈ ls, ∀ g, c.find? l = some g → g.ty ≠ INPUT) → E.inputs = n.inputs) := by
  intro ls
  induction ls with
  | nil => intro n E _ h; simp at h; subst h; exact ⟨(by intro l hl; cases hl), fun x hx _ => hx, fun _ => rfl⟩
  | cons l r ih =>
    intro n E hnd h
    simp only [List.foldl_cons] at h
    have hnd' := List.nodup_cons.mp hnd
    cases hf : c.find? l with
    | none =>
      simp only [intoStep, hf] at h
      rw [intoFold_error] at h; cases h
    | some g =>
      simp only [intoStep, hf] at h
      obtain ⟨hgm, hgl⟩ := find_some_mem hf
      obtain ⟨i1, i2, i3⟩ := ih (n.rawAddGate g) E hnd'.2 h
      refine ⟨?_, ?_, ?_⟩
      · intro l' hl'
        rcases List.mem_cons.mp hl' with rfl | hl'
        · exact ⟨g, hf, i2 g (mem_rawAddGate_self n g) (by rw [hgl]; exact hnd'.1)⟩
        · exact i1 l' hl'
      · intro x hx hxn
        have h1 : x.label ≠ g.label := by rw [hgl]; intro e; exact hxn (by simp [e])
        exact i2 x (mem_rawAddGate_other n g x hx h1) (fun hm => hxn (by simp [hm]))
      · intro hty
        rw [i3 (fun l' hl' => hty l' (by simp [hl'])), rawAddGate_inputs, if_neg (hty l (by simp) g hf)]

theorem intoCircuit_spec {c E : Circuit} {b : Block} (hnd : b.gates.Nodup) (h : c.intoCircuit b = .ok E) :
    (∀ l ∈ b.gates, ∃ g, c.find? l = some g ∧ g ∈ E.gates) ∧ E.outputs = b.outputs ∧
    ((∀ l ∈ b.gates, ∀ g, c.find? l = some g → g.ty ≠ INPUT) → E.inputs = b.inputs) := by
  unfold intoCircuit at h
  simp only at h
  split at h
  · cases h
  · rename_i c2 hc2
    split at h
    · cases h
    · rename_i c3 hso
      split at h
      · simp only [Except.ok.injEq] at h
        subst h
        obtain ⟨i1, _, i3⟩ := intoFold_spec c b.gates _ c2 hnd hc2
        have hg3 := setOutputs_gates hso
        have ho3 : c3.outputs = b.outputs := by
          unfold setOutputs at hso
          split at hso
          · cases hso
          · simp only [Except.ok.injEq] at hso; subst hso; rfl
        have hi3 : c3.inputs = c2.inputs := by
          unfold setOutputs at hso
          split at hso
          · cases hso
          · simp only [Except.ok.injEq] at hso; subst hso; rfl
        refine ⟨fun l hl => ?_, ho3, fun hty => ?_⟩
        · obtain ⟨g, h1, h2⟩ := i1 l hl
          exact ⟨g, h1, by rw [hg3]; exact h2⟩
        · rw [hi3, i3 hty, intoInputs_inputs]; rfl
      · cases h

/-- what the loop records for the new block (either direction): the copies of the non-INPUT
non-connector gates and, in the right direction, the base inputs re-wired to non-INPUT connectors -/
theorem connLoop_forB {other : Circuit} {m : Dict Label} {pre : String} {right : Bool} :
    ∀ (order : List Label) (st0 st : ConnSt), st0.forBlock.Nodup →
      order.foldl (connStep other m pre right) (.ok st0) = .ok st →
      st.forBlock.Nodup ∧
      (∀ k, Dict.contains m k = true → Dict.get? st.o2n k = Dict.get? st0.o2n k) ∧
      (∀ x, x ∈ st.forBlock ↔ x ∈ st0.forBlock ∨ ∃ cur ∈ order, ∃ g, other.find? cur = some g ∧ g.ty ≠ INPUT ∧
        ((Dict.contains m cur = false ∧ x = pre ++ cur) ∨
         (Dict.contains m cur = true ∧ right = true ∧ Dict.get? st0.o2n cur = some x))) := by
  intro order
  induction order with
  | nil =>
    intro st0 st hnd h
    simp at h; subst h
    exact ⟨hnd, fun _ _ => rfl, fun x => ⟨fun hx => Or.inl hx, fun hx => by
      rcases hx with hx | ⟨cur, hc, _⟩
      · exact hx
      · cases hc⟩⟩
  | cons cur rest ih =>
    intro st0 st hnd h
    simp only [List.foldl_cons] at h
    cases hs : connStep other m pre right (.ok st0) cur with
    | error e => rw [hs, foldl_connStep_error] at h; cases h
    | ok st1 =>
      rw [hs] at h
      -- one step
      have key : st1.forBlock.Nodup ∧ (∀ k, Dict.contains m k = true → Dict.get? st1.o2n k = Dict.get? st0.o2n k) ∧
          (∀ x, x ∈ st1.forBlock ↔ x ∈ st0.forBlock ∨ ∃ g, other.find? cur = some g ∧ g.ty ≠ INPUT ∧
            ((Dict.contains m cur = false ∧ x = pre ++ cur) ∨
             (Dict.contains m cur = true ∧ right = true ∧ Dict.get? st0.o2n cur = some x))) := by
        unfold connStep at hs
        simp only at hs
        cases hf : other.find? cur with
        | none => simp [hf] at hs
        | some g =>
          simp only [hf] at hs
          split at hs
          · rename_i hnm
            have hnm' : Dict.contains m cur = false := by simpa using hnm
            cases hm : mapLabels (Dict.set st0.o2n cur (pre ++ cur)) g.ops with
            | error e => simp [hm] at hs
            | ok ops =>
              simp only [hm] at hs
              cases ha : st0.c.addGate ⟨pre ++ cur, g.ty, ops⟩ with
              | error e => simp [ha] at hs
              | ok c1 =>
                simp only [ha, Except.ok.injEq] at hs
                subst hs
                refine ⟨?_, ?_, ?_⟩
                · simp only
                  split
                  · rename_i hc
                    simp only [Bool.and_eq_true, bne_iff_ne, ne_eq, Bool.not_eq_true', List.contains_eq_mem, decide_eq_false_iff_not] at hc
                    exact List.nodup_append.mpr ⟨hnd, by simp, by
                      intro a ha' b hb; simp only [List.mem_singleton] at hb; subst hb
                      intro e; exact hc.2 (e ▸ ha')⟩
                  · exact hnd
                · intro k hk
                  simp only
                  rw [Dict.get?_set, if_neg (by intro e; subst e; rw [hnm'] at hk; cases hk)]
                · intro x
                  simp only
                  by_cases ht : g.ty = INPUT
                  · have : (g.ty != INPUT) = false := by simp [ht]
                    simp only [this, Bool.false_and, Bool.false_eq_true, if_false]
                    constructor
                    · exact fun hx => Or.inl hx
                    · rintro (hx | ⟨g', hg', hgt, _⟩)
                      · exact hx
                      · cases hg'; exact absurd ht hgt
                  · have htb : (g.ty != INPUT) = true := by simpa using ht
                    by_cases hcon : st0.forBlock.contains (pre ++ cur) = true
                    · simp only [htb, hcon, Bool.not_true, Bool.and_false, Bool.false_eq_true, if_false]
                      constructor
                      · exact fun hx => Or.inl hx
                      · rintro (hx | ⟨g', hg', _, hcase⟩)
                        · exact hx
                        · rcases hcase with ⟨_, rfl⟩ | ⟨h1, _⟩
                          · simpa using hcon
                          · rw [hnm'] at h1; cases h1
                    · have hcf : st0.forBlock.contains (pre ++ cur) = false := by simpa using hcon
                      simp only [htb, hcf, Bool.not_false, Bool.and_self, if_true, List.mem_append, List.mem_singleton]
                      constructor
                      · rintro (hx | rfl)
                        · exact Or.inl hx
                        · exact Or.inr ⟨g, rfl, ht, Or.inl ⟨hnm', rfl⟩⟩
                      · rintro (hx | ⟨g', hg', _, hcase⟩)
                        · exact Or.inl hx
                        · rcases hcase with ⟨_, rfl⟩ | ⟨h1, _⟩
                          · exact Or.inr rfl
                          · rw [hnm'] at h1; cases h1
          · rename_i hnm
            have hcm : Dict.contains m cur = true := by simpa using hnm
            split at hs
            · rename_i hr
              cases hgo : Dict.get? st0.o2n cur with
              | none => simp [hgo] at hs
              | some lbl =>
                simp only [hgo] at hs
                cases hm : mapLabels st0.o2n g.ops with
                | error e => simp [hm] at hs
                | ok ops =>
                  simp only [hm, Except.ok.injEq] at hs
                  subst hs
                  refine ⟨?_, fun _ _ => rfl, ?_⟩
                  · simp only
                    split
                    · rename_i hc
                      simp only [Bool.and_eq_true, bne_iff_ne, ne_eq, Bool.not_eq_true', List.contains_eq_mem, decide_eq_false_iff_not] at hc
                      exact List.nodup_append.mpr ⟨hnd, by simp, by
                        intro a ha' b hb; simp only [List.mem_singleton] at hb; subst hb
                        intro e; exact hc.2 (e ▸ ha')⟩
                    · exact hnd
                  · intro x
                    simp only
                    by_cases ht : g.ty = INPUT
                    · have : (g.ty != INPUT) = false := by simp [ht]
                      simp only [this, Bool.false_and, Bool.false_eq_true, if_false]
                      constructor
                      · exact fun hx => Or.inl hx
                      · rintro (hx | ⟨g', hg', hgt, _⟩)
                        · exact hx
                        · cases hg'; exact absurd ht hgt
                    · have htb : (g.ty != INPUT) = true := by simpa using ht
                      by_cases hcon : st0.forBlock.contains lbl = true
                      · simp only [htb, hcon, Bool.not_true, Bool.and_false, Bool.false_eq_true, if_false]
                        constructor
                        · exact fun hx => Or.inl hx
                        · rintro (hx | ⟨g', hg', _, hcase⟩)
                          · exact hx
                          · rcases hcase with ⟨h1, _⟩ | ⟨_, _, h3⟩
                            · rw [hcm] at h1; cases h1
                            · cases h3; simpa using hcon
                      · have hcf : st0.forBlock.contains lbl = false := by simpa using hcon
                        simp only [htb, hcf, Bool.not_false, Bool.and_self, if_true, List.mem_append, List.mem_singleton]
                        constructor
                        · rintro (hx | rfl)
                          · exact Or.inl hx
                          · exact Or.inr ⟨g, rfl, ht, Or.inr ⟨hcm, hr, rfl⟩⟩
                        · rintro (hx | ⟨g', hg', _, hcase⟩)
                          · exact Or.inl hx
                          · rcases hcase with ⟨h1, _⟩ | ⟨_, _, h3⟩
                            · rw [hcm] at h1; cases h1
                            · cases h3; exact Or.inr rfl
            · rename_i hr
              simp only [Except.ok.injEq] at hs
              subst hs
              refine ⟨hnd, fun _ _ => rfl, fun x => ⟨fun hx => Or.inl hx, ?_⟩⟩
              rintro (hx | ⟨g', hg', _, hcase⟩)
              · exact hx
              · rcases hcase with ⟨h1, _⟩ | ⟨_, h2, _⟩
                · rw [hcm] at h1; cases h1
                · exact absurd h2 hr
      obtain ⟨k1, k2, k3⟩ := key
      obtain ⟨r1, r2, r3⟩ := ih st1 st k1 h
      refine ⟨r1, fun k hk => (r2 k hk).trans (k2 k hk), ?_⟩
      intro x
      rw [r3 x, k3 x]
      constructor
      · rintro ((hx | ⟨g, hg⟩) | ⟨c2, hc2, g, hg, hgt, hcase⟩)
        · exact Or.inl hx
        · exact Or.inr ⟨cur, by simp, g, hg⟩
        · refine Or.inr ⟨c2, by simp [hc2], g, hg, hgt, ?_⟩
          rcases hcase with hc | ⟨h1, h2, h3⟩
          · exact Or.inl hc
          · exact Or.inr ⟨h1, h2, by rw [← k2 c2 h1]; exact h3⟩
      · rintro (hx | ⟨c2, hc2, g, hg, hgt, hcase⟩)
        · exact Or.inl (Or.inl hx)
        · rcases List.mem_cons.mp hc2 with rfl | hc2
          · exact Or.inl (Or.inr ⟨g, hg, hgt, hcase⟩)
          · refine Or.inr ⟨c2, hc2, g, hg, hgt, ?_⟩
            rcases hcase with hc | ⟨h1, h2, h3⟩
            · exact Or.inl hc
            · exact Or.inr ⟨h1, h2, by rw [k2 c2 h1]; exact h3⟩

/-- the named block recorded by the tail of `connect_circuit` -/
theorem connFinish_block {c other c' : Circuit} {st : ConnSt} {thisC otherC : List Label} {name : Label}
    {pre : String} (h : connFinish c other st thisC otherC name pre = .ok c') (hn : name ≠ "") :
    c'.getBlock name = .ok ⟨name, other.inputs.map (fun l => (Dict.get? st.o2n l).getD l), st.forBlock,
      other.outputs.map (fun l => (Dict.get? st.o2n l).getD l)⟩ := by
  obtain ⟨_, _, _, mb, _, fb2⟩ := connFinish_spec h
  unfold Circuit.getBlock
  rw [fb2 hn]
  by_cases hany : (st.c.blocks ++ mb).any (fun x => x.name == name) = true
  · simp only [hany, if_true]
    rw [find_map_replace (fun x : Block => x.name == name) _ (by simp) _ hany]
  · simp only [hany, Bool.false_eq_true, if_false]
    rw [List.find?_append]
    have : (st.c.blocks ++ mb).find? (fun x => x.name == name) = none := by
      apply List.find?_eq_none.mpr
      intro x hx hxe
      exact hany (List.any_eq_true.mpr ⟨x, hx, hxe⟩)
    rw [this]; simp

/-- extraction, abstractly: if the block lists exactly the images of the attached circuit's non-INPUT
gates and these images are gates of the owner, the extracted circuit satisfies the attached circuit's
gate equations through the renaming and has its interface -/
theorem extract_sem {c' other E : Circuit} {φ : Label → Label} {fb : List Label} {name : Label}
    (hnd : fb.Nodup) (hndc : c'.labels.Nodup)
    (hsub : ∀ x ∈ fb, ∃ g ∈ other.gates, g.ty ≠ INPUT ∧ x = φ g.label)
    (hmem : ∀ g ∈ other.gates, g.ty ≠ INPUT → φ g.label ∈ fb ∧ (⟨φ g.label, g.ty, g.ops.map φ⟩ : Gate) ∈ c'.gates)
    (h : c'.intoCircuit ⟨name, other.inputs.map φ, fb, other.outputs.map φ⟩ = .ok E) :
    (∀ b v, IsValB E b v → IsValB other (v ∘ φ) (v ∘ φ)) ∧
    E.inputs = other.inputs.map φ ∧ E.outputs = other.outputs.map φ := by
  obtain ⟨i1, i2, i3⟩ := intoCircuit_spec hnd h
  refine ⟨?_, ?_, i2⟩
  · intro b v hv g hgm
    by_cases ht : g.ty = INPUT
    · simp [ht]
    · simp only [ht, if_false]
      obtain ⟨m1, m2⟩ := hmem g hgm ht
      obtain ⟨g', hf', hE⟩ := i1 _ m1
      have := find_of_mem hndc m2
      simp only at this
      rw [this] at hf'
      cases hf'
      have hv' := hv _ hE
      simp only [ht, if_false] at hv'
      rw [List.map_map] at hv'
      exact hv'
  · apply i3
    intro l hl g hf
    obtain ⟨g0, hg0, ht0, rfl⟩ := hsub l hl
    have := find_of_mem hndc (hmem g0 hg0 ht0).2
    simp only at this
    rw [this] at hf
    cases hf
    exact ht0

theorem ops_map_of_all2 {o2n : Dict Label} {ops ops' : List Label}
    (e2 : All2 (fun l x => Dict.get? o2n l = some x) ops ops') :
    ops.map (fun l => (Dict.get? o2n l).getD l) = ops' := by
  have := all2_map_eq (f := fun l => (Dict.get? o2n l).getD l) (g := id)
    (fun a b (hab : Dict.get? o2n a = some b) => by simp [hab]) e2
  simpa using this

/-- **re-extraction, left direction**: after a named left connection, `get_block(name).into_circuit()`
(whenever it returns) is a circuit whose inputs and outputs are the attached circuit's, renamed, and
every valuation of it is — through the renaming — a valuation of the attached circuit -/
theorem extract_left {c other c' E : Circuit} {thisC otherC : List Label} {name : Label} {addP : Bool}
    (hwo : WFG other) (hndc : c.labels.Nodup)
    (h : c.connectCircuit other thisC otherC false name addP = .ok c') (hn : name ≠ "")
    (hE : c'.blockIntoCircuit name = .ok E) :
    ∃ φ : Label → Label,
      (∀ l x, Dict.get? (connMapping thisC otherC) l = some x → φ l = x) ∧
      (∀ g ∈ other.gates, g.label ∉ otherC → φ g.label = connPre name addP ++ g.label) ∧
      (∀ b v, IsValB E b v → IsValB other (v ∘ φ) (v ∘ φ)) ∧
      E.inputs = other.inputs.map φ ∧ E.outputs = other.outputs.map φ := by
  obtain ⟨order, st, hts, hfold, hfin, hblk, hnd, hlen, hty, _⟩ := connect_left_unfold h
  obtain ⟨order', ho1, hperm, hord⟩ := topSort_inv_spec hwo
  rw [hts] at ho1
  cases ho1
  have hndo : order.Nodup := hperm.nodup_iff.mpr hwo.nodup
  obtain ⟨hinv, _⟩ := connLoop_sem order [] ⟨c, _, []⟩ st (by simpa using hndo)
    (by
      intro cur hcur g hf o ho p q hpq
      obtain ⟨hgm, hgl⟩ := find_some_mem hf
      exact hord p cur q (by simpa using hpq) g hgm hgl o ho)
    ⟨by intro cur hc; simp at hc, fun _ _ h => h⟩ hfold
  simp only [List.nil_append] at hinv
  obtain ⟨extra, sg, so, sb, si, snd⟩ := connLoop_struct order _ st hfold
  obtain ⟨f1, _, f3⟩ := connLoop_forB order _ st (by simp) hfold
  simp only [List.not_mem_nil, false_or] at f3
  have hg := connFinish_gates hfin
  have hndc' : c'.labels.Nodup := by
    unfold Circuit.labels; rw [hg]; exact snd hndc
  have hnm : ∀ l, l ∉ otherC → Dict.contains (connMapping thisC otherC) l = false := by
    intro l hl
    cases hcm : Dict.contains (connMapping thisC otherC) l with
    | false => rfl
    | true =>
      exfalso
      rcases contains_zipFold _ _ _ hcm with h1 | h1
      · simp [Dict.contains, Dict.get?] at h1
      · obtain ⟨p, hp, hpe⟩ := List.mem_map.mp h1
        exact hl (hpe ▸ (List.of_mem_zip hp).1)
  have hnotC : ∀ g ∈ other.gates, g.ty ≠ INPUT → g.label ∉ otherC := by
    intro g hgm ht hm
    have := hty g.label hm
    rw [find_of_mem hwo.nodup hgm] at this
    simp at this
    exact ht this
  have hblock := connFinish_block hfin hn
  unfold blockIntoCircuit at hE
  rw [hblock] at hE
  simp only at hE
  refine ⟨fun l => (Dict.get? st.o2n l).getD l, fun l x hl => by simp [hinv.mapped l x hl], ?_, ?_⟩
  · intro g hgm hgn
    have hfg := find_of_mem hwo.nodup hgm
    have hin : g.label ∈ order := hperm.mem_iff.mpr (mem_labels_of_mem hgm)
    simp [(hinv.added g.label hin g hfg (hnm _ hgn)).1]
  · refine extract_sem f1 hndc' ?_ ?_ hE
    · intro x hx
      obtain ⟨cur, hcur, g, hfg, ht, hcase⟩ := (f3 x).mp hx
      obtain ⟨hgm, hgl⟩ := find_some_mem hfg
      rcases hcase with ⟨hcm, rfl⟩ | ⟨_, hr, _⟩
      · refine ⟨g, hgm, ht, ?_⟩
        have := (hinv.added cur hcur g hfg hcm).1
        rw [hgl]; simp [this]
      · cases hr
    · intro g hgm ht
      have hfg := find_of_mem hwo.nodup hgm
      have hin : g.label ∈ order := hperm.mem_iff.mpr (mem_labels_of_mem hgm)
      have hcm := hnm _ (hnotC g hgm ht)
      obtain ⟨e1, ops', e2, e3⟩ := hinv.added g.label hin g hfg hcm
      have hφ : (Dict.get? st.o2n g.label).getD g.label = connPre name addP ++ g.label := by simp [e1]
      refine ⟨(f3 _).mpr ⟨g.label, hin, g, hfg, ht, Or.inl ⟨hcm, hφ⟩⟩, ?_⟩
      rw [hg, ops_map_of_all2 e2, hφ]; exact e3

/-- **re-extraction, right direction** (with the re-wired connectors recorded in the block) -/
theorem extract_right {c other c' E : Circuit} {thisC otherC : List Label} {name : Label} {addP : Bool}
    (hw : WFS c) (hwo : WFS other)
    (h : c.connectCircuit other thisC otherC true name addP = .ok c') (hn : name ≠ "")
    (hE : c'.blockIntoCircuit name = .ok E) :
    ∃ φ : Label → Label,
      (∀ l x, Dict.get? (connMapping thisC otherC) l = some x → φ l = x) ∧
      (∀ g ∈ other.gates, Dict.contains (connMapping thisC otherC) g.label = false → φ g.label = connPre name addP ++ g.label) ∧
      (∀ b v, IsValB E b v → IsValB other (v ∘ φ) (v ∘ φ)) ∧
      E.inputs = other.inputs.map φ ∧ E.outputs = other.outputs.map φ := by
  have hndc' : c'.labels.Nodup := (connectRight_wfs hw hwo h).nodup
  obtain ⟨order, st, hts, hfold, hfin, _, hnd, hlen, hty, hex, _⟩ := connect_right_unfold h
  have hwg := hwo.toWFG
  obtain ⟨order', ho1, hperm, hord⟩ := topSort_inv_spec hwg
  rw [hts] at ho1
  cases ho1
  have hndo : order.Nodup := hperm.nodup_iff.mpr hwo.nodup
  have hndt : thisC.Nodup := (nodupL_iff _).mp hnd
  have hmz : ∀ k x, Dict.get? (connMapping thisC otherC) k = some x → (k, x) ∈ otherC.zip thisC := by
    intro k x hk
    rcases get?_zipFold_mem_zip _ _ k x hk with h1 | h1
    · exact h1
    · simp [Dict.get?] at h1
  have hinv := connLoopR_sem (c := c) (pre := connPre name addP)
    (fun k1 k2 x h1 h2 => zip_snd_inj otherC thisC k1 k2 x hndt (hmz _ _ h1) (hmz _ _ h2))
    (fun k x hk => hex x (List.of_mem_zip (hmz k x hk)).2)
    order [] ⟨c, _, []⟩ st (by simpa using hndo)
    (by
      intro cur hcur g hf o ho p q hpq
      obtain ⟨hgm, hgl⟩ := find_some_mem hf
      exact hord p cur q (by simpa using hpq) g hgm hgl o ho)
    ⟨by intro cur hc; simp at hc, by intro cur hc; simp at hc, fun _ _ h => h, fun _ h => h, fun _ h _ => h, rfl, rfl⟩ hfold
  simp only [List.nil_append] at hinv
  obtain ⟨f1, _, f3⟩ := connLoop_forB order _ st (by simp) hfold
  simp only [List.not_mem_nil, false_or] at f3
  have hg := connFinish_gates hfin
  have hblock := connFinish_block hfin hn
  unfold blockIntoCircuit at hE
  rw [hblock] at hE
  simp only at hE
  refine ⟨fun l => (Dict.get? st.o2n l).getD l, fun l x hl => by simp [hinv.mapped l x hl], ?_, ?_⟩
  · intro g hgm hnm
    have hfg := find_of_mem hwo.nodup hgm
    have hin : g.label ∈ order := hperm.mem_iff.mpr (mem_labels_of_mem hgm)
    simp [(hinv.added g.label hin g hfg hnm).1]
  · refine extract_sem f1 hndc' ?_ ?_ hE
    · intro x hx
      obtain ⟨cur, hcur, g, hfg, ht, hcase⟩ := (f3 x).mp hx
      obtain ⟨hgm, hgl⟩ := find_some_mem hfg
      refine ⟨g, hgm, ht, ?_⟩
      rcases hcase with ⟨hcm, rfl⟩ | ⟨_, _, hx2⟩
      · have := (hinv.added cur hcur g hfg hcm).1
        rw [hgl]; simp [this]
      · rw [hgl]; simp [hinv.mapped _ _ hx2]
    · intro g hgm ht
      have hfg := find_of_mem hwo.nodup hgm
      have hin : g.label ∈ order := hperm.mem_iff.mpr (mem_labels_of_mem hgm)
      cases hcm : Dict.get? (connMapping thisC otherC) g.label with
      | none =>
        have hnm : Dict.contains (connMapping thisC otherC) g.label = false := by simp [Dict.contains, hcm]
        obtain ⟨e1, _, ops', e2, e3⟩ := hinv.added g.label hin g hfg hnm
        have hφ : (Dict.get? st.o2n g.label).getD g.label = connPre name addP ++ g.label := by simp [e1]
        refine ⟨(f3 _).mpr ⟨g.label, hin, g, hfg, ht, Or.inl ⟨hnm, hφ⟩⟩, ?_⟩
        rw [hg, ops_map_of_all2 e2, hφ]; exact e3
      | some lbl =>
        have hc : Dict.contains (connMapping thisC otherC) g.label = true := by simp [Dict.contains, hcm]
        obtain ⟨ops', e2, e3⟩ := hinv.conn g.label hin g hfg lbl hcm
        have hφ : (Dict.get? st.o2n g.label).getD g.label = lbl := by simp [hinv.mapped _ _ hcm]
        refine ⟨(f3 _).mpr ⟨g.label, hin, g, hfg, ht, Or.inr ⟨hc, trivial, by rw [hφ]; exact hcm⟩⟩, ?_⟩
        rw [hg, ops_map_of_all2 e2, hφ]; exact e3

end Cirbo
