import Cirbo.Proofs.FuncSym
/-!
# The enumeration order of `all inputs` is binary counting; index-based queries of `TruthTable` (C12)
-/
namespace Cirbo
namespace FRep

/-- the input vector number `k` of `n` inputs: the binary digits of `k`, most significant first -/
def bitsBE (n k : Nat) : List Bool := (List.range n).map (fun i => k.testBit (n - i - 1))

theorem allInputs_length : ∀ n, (allInputs n).length = 2 ^ n := by
  intro n
  induction n with
  | zero => simp [allInputs]
  | succ n ih => simp only [allInputs, List.length_append, List.length_map, ih]; rw [Nat.pow_succ]; omega

theorem bitsBE_succ (n k : Nat) : bitsBE (n + 1) k = k.testBit n :: (List.range n).map (fun i => k.testBit (n - i - 1)) := by
  unfold bitsBE
  rw [List.range_succ_eq_map]
  simp only [List.map_cons, List.map_map, Nat.add_sub_cancel, Nat.sub_zero]
  congr 1
  apply List.map_congr_left
  intro i _
  simp only [Function.comp]
  congr 1
  omega

theorem allInputs_get : ∀ (n k : Nat), k < 2 ^ n → (allInputs n)[k]? = some (bitsBE n k) := by
  intro n
  induction n with
  | zero => intro k hk; have : k = 0 := by simpa using hk
            subst this; simp [allInputs, bitsBE]
  | succ n ih =>
    intro k hk
    simp only [allInputs]
    rw [bitsBE_succ]
    by_cases hlt : k < 2 ^ n
    · rw [List.getElem?_append_left (by simp [allInputs_length, hlt]), List.getElem?_map, ih k hlt]
      simp only [Option.map_some, Option.some.injEq, List.cons.injEq]
      refine ⟨(Nat.testBit_lt_two_pow hlt).symm, rfl⟩
    · have hge : 2 ^ n ≤ k := Nat.le_of_not_lt hlt
      rw [List.getElem?_append_right (by simp [allInputs_length, hge]), List.length_map, allInputs_length,
        List.getElem?_map, ih (k - 2 ^ n) (by rw [Nat.pow_succ] at hk; omega)]
      simp only [Option.map_some, Option.some.injEq, List.cons.injEq]
      have hk' : k = 2 ^ n + (k - 2 ^ n) := by omega
      constructor
      · rw [hk', Nat.testBit_two_pow_add_eq]
        have : (k - 2 ^ n).testBit n = false := Nat.testBit_lt_two_pow (by rw [Nat.pow_succ] at hk; omega)
        simp [this]
      · unfold bitsBE
        apply List.map_congr_left
        intro i hi
        have hi' := List.mem_range.mp hi
        conv => rhs; rw [hk']
        rw [Nat.testBit_two_pow_add_gt (by omega)]

theorem bitsBE_length (n k : Nat) : (bitsBE n k).length = n := by simp [bitsBE]

theorem bitsBE_getD (n k i : Nat) (hi : i < n) : (bitsBE n k).getD i false = getBitValue k i n := by
  unfold bitsBE getBitValue
  simp [List.getD_eq_getElem?_getD, List.getElem?_map, List.getElem?_range hi]

/-- every input vector is the one numbered by its canonical index -/
theorem exists_index (n : Nat) (x : List Bool) (hx : x.length = n) : ∃ k, k < 2 ^ n ∧ bitsBE n k = x := by
  have hm : x ∈ allInputs n := (mem_allInputs x n).mpr hx
  obtain ⟨k, hk, hke⟩ := List.getElem_of_mem hm
  rw [allInputs_length] at hk
  refine ⟨k, hk, ?_⟩
  have := allInputs_get n k hk
  rw [List.getElem?_eq_getElem (by rw [allInputs_length]; exact hk)] at this
  simp only [Option.some.injEq] at this
  rw [← this, hke]

/-- **`get_truth_table` ordering**: column `k` of output `o` is the value at the input vector whose
bits are the binary digits of `k` (first input most significant) -/
theorem row_get (F : FRep) (o k : Nat) (hk : k < 2 ^ F.n) : (F.row o)[k]? = some (F.evAt (bitsBE F.n k) o) := by
  unfold row
  rw [List.getElem?_map, allInputs_get F.n k hk]; rfl

theorem row_length (F : FRep) (o : Nat) : (F.row o).length = 2 ^ F.n := by simp [row, allInputs_length]

/-- **`TruthTable.is_output_equal_to_input(_negation)`** (index arithmetic on the stored row) is the
generic definition -/
theorem equalInputT_iff (F : FRep) (o i : Nat) (hi : i < F.n) (negate : Bool) :
    F.equalInputT o i negate = true ↔ ∀ x, x.length = F.n → F.evAt x o = xor negate (x.getD i false) := by
  unfold equalInputT
  rw [List.all_eq_true]
  constructor
  · intro h x hx
    obtain ⟨k, hk, rfl⟩ := exists_index F.n x hx
    have hrow := row_get F o k hk
    have hm : (F.evAt (bitsBE F.n k) o, k) ∈ (F.row o).zipIdx := by
      rw [List.mem_zipIdx_iff_getElem?]; simpa using hrow
    have := h _ hm
    simp only [beq_iff_eq] at this
    rw [this, bitsBE_getD _ _ _ hi]
  · intro h p hp
    obtain ⟨v, k⟩ := p
    rw [List.mem_zipIdx_iff_getElem?] at hp
    simp only [Nat.zero_add] at hp
    have hk : k < 2 ^ F.n := by
      rcases Nat.lt_or_ge k (2 ^ F.n) with h1 | h1
      · exact h1
      · rw [List.getElem?_eq_none (by rw [row_length]; exact h1)] at hp; cases hp
    rw [row_get F o k hk] at hp
    simp only [Option.some.injEq] at hp
    simp only [beq_iff_eq]
    rw [← hp, h _ (bitsBE_length _ _), bitsBE_getD _ _ _ hi]

theorem equalInputT_agrees (F : FRep) (o i : Nat) (hi : i < F.n) :
    F.equalInputT o i false = F.equalInput o i ∧ F.equalInputT o i true = F.equalInputNeg o i := by
  constructor
  · have h1 := equalInputT_iff F o i hi false
    have h2 := equalInput_iff F o i
    simp only [Bool.false_xor] at h1
    cases ha : F.equalInputT o i false <;> cases hb : F.equalInput o i
    · rfl
    · exact absurd (h1.mpr (h2.mp hb)) (by rw [ha]; simp)
    · exact absurd (h2.mpr (h1.mp ha)) (by rw [hb]; simp)
    · rfl
  · have h1 := equalInputT_iff F o i hi true
    have h2 := equalInputNeg_iff F o i
    simp only [Bool.true_xor] at h1
    cases ha : F.equalInputT o i true <;> cases hb : F.equalInputNeg o i
    · rfl
    · exact absurd (h1.mpr (h2.mp hb)) (by rw [ha]; simp)
    · exact absurd (h2.mpr (h1.mp ha)) (by rw [hb]; simp)
    · rfl

end FRep
end Cirbo
