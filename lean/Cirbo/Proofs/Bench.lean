import Cirbo.Model.Bench
/-! # Bench printer/parser lemmas (C11) -/
namespace Cirbo
open GateType

/-- bench identifiers: non-empty, none of the characters the parser gives a meaning to -/
def identChar (ch : Char) : Bool :=
  ch != ' ' && ch != '(' && ch != ')' && ch != ',' && ch != '=' && ch != '#' && ch != '\n'

def IsIdent (s : Str) : Prop := s ≠ [] ∧ ∀ ch ∈ s, identChar ch = true

theorem IsIdent.not_mem {s : Str} (h : IsIdent s) {c : Char} (hc : identChar c = false) : c ∉ s := by
  intro hm; have := h.2 c hm; rw [hc] at this; cases this

/-! ### keywords: what the printer writes is what the parser dispatches on -/

theorem keyword_roundtrip (ty : GateType) (h : ty ≠ INPUT) :
    gateTypeOfKeyword (upperS (printedKeyword ty)) = some ty ∧
    upperS ((printedKeyword ty).take 3) ≠ strOf "VDD" ∧
    (∀ ch ∈ printedKeyword ty, ch ≠ '(' ∧ ch ≠ ')' ∧ ch ≠ ' ' ∧ ch ≠ '=') := by
  cases ty <;> first | exact absurd rfl h | decide

/-! ### line classification -/

theorem toUpper_ne_paren (ch : Char) (h : ch ≠ '(') : ch.toUpper ≠ '(' := by
  unfold Char.toUpper
  split
  · rename_i hr
    intro e
    have hv := congrArg (fun c => c.val.toNat) e
    simp only [UInt32.toNat_add] at hv
    have h1 : 97 ≤ ch.val.toNat := by
      have := UInt32.le_iff_toNat_le.mp hr.1; simpa using this
    have h2 : ch.val.toNat ≤ 122 := by
      have := UInt32.le_iff_toNat_le.mp hr.2; simpa using this
    have hx : ('A'.val - 'a'.val).toNat = 4294967264 := by decide
    rw [hx] at hv
    have : ('('.val).toNat = 40 := by decide
    rw [this] at hv
    omega
  · exact h

theorem prefix_of_append_sep {p a r : Str} {c : Char} (hc : c ∉ p) (h : p.isPrefixOf (a ++ c :: r) = true) :
    p.isPrefixOf a = true := by
  induction p generalizing a with
  | nil => simp
  | cons x p' ih =>
    cases a with
    | nil =>
      simp only [List.nil_append, List.isPrefixOf, Bool.and_eq_true, beq_iff_eq] at h
      exact absurd h.1 (by intro e; exact hc (by simp [e]))
    | cons y a' =>
      simp only [List.cons_append, List.isPrefixOf, Bool.and_eq_true] at h ⊢
      exact ⟨h.1, ih (fun hm => hc (by simp [hm])) h.2⟩

theorem mem_of_isPrefixOf {p a : Str} (h : p.isPrefixOf a = true) : ∀ ch ∈ p, ch ∈ a := by
  induction p generalizing a with
  | nil => intro ch hch; cases hch
  | cons x p' ih =>
    cases a with
    | nil => simp [List.isPrefixOf] at h
    | cons y a' =>
      simp only [List.isPrefixOf, Bool.and_eq_true, beq_iff_eq] at h
      intro ch hch
      simp only [List.mem_cons] at hch ⊢
      rcases hch with rfl | hch
      · exact Or.inl h.1
      · exact Or.inr (ih h.2 ch hch)

theorem upperS_append (a b : Str) : upperS (a ++ b) = upperS a ++ upperS b := by simp [upperS]

/-- a printed gate line whose label is an identifier is never mistaken for a comment, a blank line
or an INPUT/OUTPUT declaration (whatever follows the label, whatever the label's spelling —
`input_x`, `OUTPUTS`, `Input` …) -/
theorem gate_line_classified {lab tail : Str} (h : IsIdent lab) :
    let line := lab ++ ' ' :: tail
    line.isEmpty = false ∧ line ≠ ['\n'] ∧ line.head? ≠ some '#' ∧
    (strOf "INPUT(").isPrefixOf (upperS line) = false ∧
    (strOf "OUTPUT(").isPrefixOf (upperS line) = false := by
  intro line
  obtain ⟨c0, r0, hl⟩ : ∃ c0 r0, lab = c0 :: r0 := by
    cases lab with
    | nil => exact absurd rfl h.1
    | cons a b => exact ⟨a, b, rfl⟩
  have hc0 := h.2 c0 (by simp [hl])
  have noparen : ∀ p : Str, '(' ∈ p → ' ' ∉ p → p.isPrefixOf (upperS line) = false := by
    intro p hp hsp
    cases hpre : p.isPrefixOf (upperS line) with
    | false => rfl
    | true =>
      exfalso
      have e : upperS line = upperS lab ++ ' ' :: upperS tail := by
        simp [line, upperS]
      rw [e] at hpre
      have := mem_of_isPrefixOf (prefix_of_append_sep hsp hpre) '(' hp
      simp only [upperS, List.mem_map] at this
      obtain ⟨ch, hch, hup⟩ := this
      have hne : ch ≠ '(' := by
        intro e2; have := h.2 ch hch; rw [e2] at this; revert this; decide
      exact toUpper_ne_paren ch hne hup
  refine ⟨by simp [line, hl], ?_, ?_, noparen _ (by decide) (by decide), noparen _ (by decide) (by decide)⟩
  · intro e
    simp only [line, hl, List.cons_append, List.cons.injEq] at e
    have := e.2
    cases r0 <;> simp at this
  · simp only [line, hl, List.cons_append, List.head?_cons, ne_eq, Option.some.injEq]
    intro e; rw [e] at hc0; revert hc0; decide

/-! ### operand lists: `split(',')` + `strip(' ')` undo `', '.join` -/

theorem splitOn_no_sep {sep : Char} {a : Str} (h : sep ∉ a) : splitOn sep a = [a] := by
  induction a with
  | nil => rfl
  | cons ch r ih =>
    have h1 : ch ≠ sep := fun e => h (by simp [e])
    have h2 : sep ∉ r := fun hm => h (by simp [hm])
    simp [splitOn, h1, ih h2]

theorem splitOn_append_sep {sep : Char} {a b : Str} (h : sep ∉ a) :
    splitOn sep (a ++ sep :: b) = a :: splitOn sep b := by
  induction a with
  | nil => simp [splitOn]
  | cons ch r ih =>
    have h1 : ch ≠ sep := fun e => h (by simp [e])
    have h2 : sep ∉ r := fun hm => h (by simp [hm])
    simp [splitOn, h1, ih h2]

theorem dropWhile_ident {set : Str} {s : Str} (h : ∀ c0 r, s = c0 :: r → set.contains c0 = false) :
    s.dropWhile (fun ch => set.contains ch) = s := by
  cases s with
  | nil => rfl
  | cons c0 r =>
    have hc := h c0 r rfl
    simp only [List.dropWhile_cons, hc, Bool.false_eq_true, if_false]

/-- stripping a set of characters from a word that neither starts nor ends with one of them -/
theorem stripSet_id {set : Str} {s : Str} (h : ∀ ch ∈ s, set.contains ch = false) : stripSet set s = s := by
  unfold stripSet
  rw [dropWhile_ident (s := s) (fun c0 r e => h c0 (by rw [e]; simp))]
  rw [dropWhile_ident (s := s.reverse) (fun c0 r e => h c0 (by
    have : c0 ∈ s.reverse := by rw [e]; simp
    simpa using this))]
  simp

theorem stripSet_lead_space {s : Str} (h : ∀ ch ∈ s, ch ≠ ' ') : stripSet [' '] (' ' :: s) = s := by
  unfold stripSet
  have h' : ∀ ch ∈ s, ([' '] : Str).contains ch = false := by
    intro ch hch; simp [h ch hch]
  have e1 : (' ' :: s).dropWhile (fun ch => ([' '] : Str).contains ch) = s := by
    rw [List.dropWhile_cons]
    have : ([' '] : Str).contains ' ' = true := by decide
    simp only [this, if_true]
    exact dropWhile_ident (fun c0 r e => h' c0 (by rw [e]; simp))
  rw [e1, dropWhile_ident (s := s.reverse) (fun c0 r e => h' c0 (by
    have : c0 ∈ s.reverse := by rw [e]; simp
    simpa using this))]
  simp

theorem ident_no_space {s : Str} (h : IsIdent s) : ∀ ch ∈ s, ch ≠ ' ' := by
  intro ch hch e; have := h.2 ch hch; rw [e] at this; revert this; decide
theorem ident_no_comma {s : Str} (h : IsIdent s) : ',' ∉ s := h.not_mem (by decide)

theorem split_join_operands (o : Str) (ops : List Str) (ho : IsIdent o) (hops : ∀ x ∈ ops, IsIdent x) :
    (splitOn ',' (joinWith sepCS (o :: ops))).map (stripSet [' ']) = o :: ops := by
  induction ops generalizing o with
  | nil =>
    simp only [joinWith, splitOn_no_sep (ident_no_comma ho), List.map_cons, List.map_nil]
    rw [stripSet_id (fun ch hch => by simp [ident_no_space ho ch hch])]
  | cons o' r ih =>
    have ho' := hops o' (by simp)
    have e : joinWith sepCS (o :: o' :: r) = o ++ ',' :: (' ' :: joinWith sepCS (o' :: r)) := by
      simp [joinWith, sepCS]
    rw [e, splitOn_append_sep (ident_no_comma ho)]
    simp only [List.map_cons]
    rw [stripSet_id (fun ch hch => by simp [ident_no_space ho ch hch])]
    -- the next piece starts with the space of ", "
    have ih' := ih o' ho' (fun x hx => hops x (by simp [hx]))
    -- splitOn of (' ' :: rest) puts the space in front of the first piece
    cases hs : splitOn ',' (joinWith sepCS (o' :: r)) with
    | nil => rw [hs] at ih'; simp at ih'
    | cons x xs =>
      have hne : (' ' : Char) ≠ ',' := by decide
      have hsp : splitOn ',' (' ' :: joinWith sepCS (o' :: r)) = (' ' :: x) :: xs := by
        simp [splitOn, hne, hs]
      rw [hsp]
      rw [hs] at ih'
      simp only [List.map_cons, List.cons.injEq] at ih' ⊢
      refine ⟨trivial, ?_, ih'.2⟩
      -- x, stripped, is o'; hence ' ' :: x stripped is o' as well
      have hx : stripSet [' '] x = o' := ih'.1
      -- x = o' itself (first piece of the split of an identifier followed by ',' or end)
      have hxo : x = o' := by
        cases r with
        | nil =>
          simp only [joinWith, splitOn_no_sep (ident_no_comma ho')] at hs
          exact (List.cons.inj hs).1.symm
        | cons o2 r2 =>
          have e2 : joinWith sepCS (o' :: o2 :: r2) = o' ++ ',' :: (' ' :: joinWith sepCS (o2 :: r2)) := by
            simp [joinWith, sepCS]
          rw [e2, splitOn_append_sep (ident_no_comma ho')] at hs
          exact (List.cons.inj hs).1.symm
      rw [hxo]
      exact stripSet_lead_space (ident_no_space ho')

/-! ### the composed gate-line theorem -/

theorem findIdx_append_cons {c : Char} {a r : Str} (h : c ∉ a) : findIdx c (a ++ c :: r) = some a.length := by
  unfold findIdx
  rw [List.idxOf_append]
  simp [h]

theorem dropWhile_pad {p : Char → Bool} {pre s : Str} (hpre : ∀ ch ∈ pre, p ch = true)
    (hs : ∀ c0 r, s = c0 :: r → p c0 = false) : (pre ++ s).dropWhile p = s := by
  induction pre with
  | nil =>
    cases s with
    | nil => rfl
    | cons c0 r => simp only [List.nil_append, List.dropWhile_cons, hs c0 r rfl, Bool.false_eq_true, if_false]
  | cons x pre' ih =>
    simp only [List.cons_append, List.dropWhile_cons, hpre x (by simp), if_true]
    exact ih (fun ch hch => hpre ch (by simp [hch]))

/-- `strip`: padding made of characters of the set is removed on both sides of a non-empty word
that neither starts nor ends with such a character -/
theorem stripSet_pad {set pre post s : Str} (hne : s ≠ []) (hpre : ∀ ch ∈ pre, set.contains ch = true)
    (hpost : ∀ ch ∈ post, set.contains ch = true)
    (hhead : ∀ c0 r, s = c0 :: r → set.contains c0 = false)
    (hlast : ∀ c0 r, s.reverse = c0 :: r → set.contains c0 = false) :
    stripSet set (pre ++ s ++ post) = s := by
  unfold stripSet
  have h1 : (pre ++ s ++ post).dropWhile (fun ch => set.contains ch) = s ++ post := by
    rw [List.append_assoc]
    apply dropWhile_pad hpre
    intro c0 r e
    cases s with
    | nil => exact absurd rfl hne
    | cons a t => simp only [List.cons_append, List.cons.injEq] at e; exact e.1 ▸ hhead a t rfl
  rw [h1, List.reverse_append]
  have h2 : (post.reverse ++ s.reverse).dropWhile (fun ch => set.contains ch) = s.reverse := by
    apply dropWhile_pad
    · intro ch hch; exact hpost ch (by simpa using hch)
    · exact hlast
  rw [h2, List.reverse_reverse]

theorem contains_space_false {ch : Char} (h : ch ≠ ' ') : ([' '] : Str).contains ch = false := by
  simp [h]
theorem contains_space_true : ([' '] : Str).contains ' ' = true := by decide

theorem kw_facts0 (ty : GateType) (h : ty ≠ INPUT) :
    2 ≤ (printedKeyword ty).length ∧ upperS ((printedKeyword ty ++ ['(']).take 3) ≠ strOf "VDD" := by
  cases ty <;> first | exact absurd rfl h | (constructor <;> decide)

theorem kw_facts (ty : GateType) (h : ty ≠ INPUT) (rest : Str) :
    printedKeyword ty ≠ [] ∧ upperS ((printedKeyword ty ++ '(' :: rest).take 3) ≠ strOf "VDD" := by
  obtain ⟨h1, h2⟩ := kw_facts0 ty h
  refine ⟨by intro e; rw [e] at h1; simp at h1, ?_⟩
  have : (printedKeyword ty ++ '(' :: rest).take 3 = (printedKeyword ty ++ ['(']).take 3 := by
    rw [List.take_append, List.take_append]
    congr 1
    have : 3 - (printedKeyword ty).length ≤ 1 := by omega
    rcases Nat.le_one_iff_eq_zero_or_eq_one.mp this with e | e <;> simp [e]
  rw [this]; exact h2

theorem join_cons_cons (sep o o' : Str) (r : List Str) :
    joinWith sep (o :: o' :: r) = o ++ sep ++ joinWith sep (o' :: r) := rfl

theorem join_chars (ops : List Str) : ∀ ch ∈ joinWith sepCS ops,
    (∃ o ∈ ops, ch ∈ o) ∨ ch = ',' ∨ ch = ' ' := by
  induction ops with
  | nil => intro ch h; cases h
  | cons o r ih =>
    cases r with
    | nil => intro ch h; exact Or.inl ⟨o, by simp, by simpa [joinWith] using h⟩
    | cons o' r' =>
      intro ch h
      rw [join_cons_cons] at h
      simp only [List.mem_append] at h
      rcases h with (h | h) | h
      · exact Or.inl ⟨o, by simp, h⟩
      · right; simp [sepCS] at h; rcases h with h | h <;> simp [h]
      · rcases ih ch h with ⟨x, hx, hc⟩ | h'
        · exact Or.inl ⟨x, by simp [hx], hc⟩
        · exact Or.inr h'

theorem join_head (o : Str) (r : List Str) : ∃ rest, joinWith sepCS (o :: r) = o ++ rest := by
  cases r with
  | nil => exact ⟨[], by simp [joinWith]⟩
  | cons o' r' => exact ⟨sepCS ++ joinWith sepCS (o' :: r'), by rw [join_cons_cons]; simp⟩

theorem join_last (o : Str) (r : List Str) :
    ∃ z pre, z ∈ o :: r ∧ joinWith sepCS (o :: r) = pre ++ z := by
  induction r generalizing o with
  | nil => exact ⟨o, [], by simp, by simp [joinWith]⟩
  | cons o' r' ih =>
    obtain ⟨z, pre, hz, e⟩ := ih o'
    exact ⟨z, o ++ sepCS ++ pre, by simp at hz ⊢; exact Or.inr hz, by rw [join_cons_cons, e]; simp⟩

/-- **A printed gate line parses back to the gate**: for every non-INPUT gate whose label and
operands are identifiers and whose arity the parser's handlers accept, with or without the line
terminator. -/
theorem parseLine_formatGate (c : Circuit) (g : Gate) (hty : g.ty ≠ INPUT)
    (hl : IsIdent g.label.toList) (hops : ∀ o ∈ g.ops, IsIdent o.toList)
    (har : parserArityOk g.ty g.ops.length = true) (nl : Str) (hnl : nl = [] ∨ nl = ['\n']) :
    parseLine c (formatGate g ++ nl) = .ok (c.rawAddGate g) := by
  -- notation
  generalize hlab : g.label.toList = lab at hl
  generalize hkw : printedKeyword g.ty = kw
  generalize hargs : joinWith sepCS (g.ops.map String.toList) = args
  have hopsI : ∀ x ∈ g.ops.map String.toList, IsIdent x := by
    intro x hx; obtain ⟨o, ho, rfl⟩ := List.mem_map.mp hx; exact hops o ho
  obtain ⟨hkw1, hkw2, hkwc⟩ := keyword_roundtrip g.ty hty
  rw [hkw] at hkw1 hkw2 hkwc
  obtain ⟨hkwne, hvdd⟩ := kw_facts g.ty hty (args ++ ')' :: nl)
  rw [hkw] at hkwne hvdd
  have hnlc : ∀ ch ∈ nl, ch = '\n' := by
    rcases hnl with rfl | rfl <;> simp
  -- the line
  have hline : formatGate g ++ nl = lab ++ ' ' :: ('=' :: ' ' :: (kw ++ '(' :: (args ++ ')' :: nl))) := by
    simp only [formatGate, hty, if_false, hlab, hkw, hargs, List.append_assoc, List.cons_append,
      List.nil_append]
  rw [hline]
  obtain ⟨hc1, hc2, hc3, hc4, hc5⟩ := gate_line_classified (tail := '=' :: ' ' :: (kw ++ '(' :: (args ++ ')' :: nl))) hl
  unfold parseLine
  have hcond : ((lab ++ ' ' :: ('=' :: ' ' :: (kw ++ '(' :: (args ++ ')' :: nl)))).isEmpty
      || (lab ++ ' ' :: ('=' :: ' ' :: (kw ++ '(' :: (args ++ ')' :: nl))) == ['\n'])
      || (lab ++ ' ' :: ('=' :: ' ' :: (kw ++ '(' :: (args ++ ')' :: nl)))).head? == some '#') = false := by
    simp only [hc1, Bool.false_or, Bool.or_eq_false_iff]
    exact ⟨by simpa using hc2, by simpa using hc3⟩
  simp only [hcond, Bool.false_eq_true, if_false, hc4, hc5]
  -- position of '='
  have heq : findIdx '=' (lab ++ ' ' :: ('=' :: ' ' :: (kw ++ '(' :: (args ++ ')' :: nl)))) = some (lab.length + 1) := by
    have : lab ++ ' ' :: ('=' :: ' ' :: (kw ++ '(' :: (args ++ ')' :: nl)))
        = (lab ++ [' ']) ++ '=' :: (' ' :: (kw ++ '(' :: (args ++ ')' :: nl))) := by simp
    rw [this, findIdx_append_cons]
    · simp
    · simp only [List.mem_append, List.mem_singleton, not_or]
      exact ⟨hl.not_mem (by decide), by decide⟩
  simp only [heq]
  have htake : (lab ++ ' ' :: ('=' :: ' ' :: (kw ++ '(' :: (args ++ ')' :: nl)))).take (lab.length + 1) = lab ++ [' '] := by
    have : lab ++ ' ' :: ('=' :: ' ' :: (kw ++ '(' :: (args ++ ')' :: nl)))
        = (lab ++ [' ']) ++ '=' :: (' ' :: (kw ++ '(' :: (args ++ ')' :: nl))) := by simp
    rw [this]; exact List.take_left' (by simp)
  have hdrop : (lab ++ ' ' :: ('=' :: ' ' :: (kw ++ '(' :: (args ++ ')' :: nl)))).drop (lab.length + 1 + 1)
      = ' ' :: (kw ++ '(' :: (args ++ ')' :: nl)) := by
    have : lab ++ ' ' :: ('=' :: ' ' :: (kw ++ '(' :: (args ++ ')' :: nl)))
        = (lab ++ [' ', '=']) ++ ' ' :: (kw ++ '(' :: (args ++ ')' :: nl)) := by simp
    rw [this]; exact List.drop_left' (by simp)
  rw [htake, hdrop]
  -- `out`
  have hout : stripSet [' '] (lab ++ [' ']) = lab := by
    have := stripSet_pad (set := [' ']) (pre := []) (post := [' ']) (s := lab) hl.1
      (by intro ch h; cases h) (by intro ch h; simp at h; subst h; decide)
      (fun c0 r e => contains_space_false (ident_no_space hl c0 (by rw [e]; simp)))
      (fun c0 r e => contains_space_false (ident_no_space hl c0 (by
        have : c0 ∈ lab.reverse := by rw [e]; simp
        simpa using this)))
    simpa using this
  rw [hout]
  -- `body`
  obtain ⟨k0, kr, hk0⟩ : ∃ k0 kr, kw = k0 :: kr := by
    cases kw with
    | nil => exact absurd rfl hkwne
    | cons a b => exact ⟨a, b, rfl⟩
  have hbody : stripSet [' '] (' ' :: (kw ++ '(' :: (args ++ ')' :: nl))) = kw ++ '(' :: (args ++ ')' :: nl) := by
    have := stripSet_pad (set := [' ']) (pre := [' ']) (post := []) (s := kw ++ '(' :: (args ++ ')' :: nl))
      (by rw [hk0]; simp)
      (by intro ch h; simp at h; subst h; decide) (by intro ch h; cases h)
      (fun c0 r e => by
        rw [hk0] at e; simp only [List.cons_append, List.cons.injEq] at e
        exact contains_space_false (e.1 ▸ (hkwc k0 (by rw [hk0]; simp)).2.2.1))
      (fun c0 r e => by
        have hc : c0 = ')' ∨ c0 = '\n' := by
          rcases hnl with rfl | rfl
          · simp only [List.reverse_append, List.reverse_cons, List.reverse_nil, List.nil_append,
              List.cons_append, List.singleton_append] at e
            left; exact ((List.cons.inj e).1).symm
          · simp only [List.reverse_append, List.reverse_cons, List.reverse_nil, List.nil_append,
              List.cons_append, List.singleton_append] at e
            right; exact ((List.cons.inj e).1).symm
        rcases hc with rfl | rfl <;> decide)
    simpa using this
  rw [hbody]
  have hvdd' : (upperS ((kw ++ '(' :: (args ++ ')' :: nl)).take 3) == strOf "VDD") = false := by
    simpa using hvdd
  simp only [hvdd', Bool.false_eq_true, if_false]
  -- parentheses
  have hargs_chars : ∀ ch ∈ args, ch ≠ ')' ∧ ch ≠ '(' := by
    intro ch hch
    rw [← hargs] at hch
    rcases join_chars _ ch hch with ⟨o, ho, hc⟩ | rfl | rfl
    · have := (hopsI o ho).2 ch hc
      constructor <;> (intro e; rw [e] at this; revert this; decide)
    · constructor <;> decide
    · constructor <;> decide
  have hl_idx : findIdx '(' (kw ++ '(' :: (args ++ ')' :: nl)) = some kw.length :=
    findIdx_append_cons (fun hm => (hkwc '(' hm).1 rfl)
  have hr_idx : findIdx ')' (kw ++ '(' :: (args ++ ')' :: nl)) = some (kw.length + 1 + args.length) := by
    have : kw ++ '(' :: (args ++ ')' :: nl) = (kw ++ '(' :: args) ++ ')' :: nl := by simp
    rw [this, findIdx_append_cons]
    · simp; omega
    · simp only [List.mem_append, List.mem_cons, not_or]
      exact ⟨fun hm => (hkwc ')' hm).2.1 rfl, by decide, fun hm => (hargs_chars ')' hm).1 rfl⟩
  simp only [hl_idx, hr_idx]
  have htk : (kw ++ '(' :: (args ++ ')' :: nl)).take kw.length = kw := List.take_left' rfl
  have htr : ((kw ++ '(' :: (args ++ ')' :: nl)).take (kw.length + 1 + args.length)).drop (kw.length + 1) = args := by
    have : kw ++ '(' :: (args ++ ')' :: nl) = (kw ++ '(' :: args) ++ ')' :: nl := by simp
    rw [this, List.take_left' (by simp; omega)]
    have : kw ++ '(' :: args = (kw ++ ['(']) ++ args := by simp
    rw [this]; exact List.drop_left' (by simp)
  rw [htk, htr]
  have hkws : stripSet [' '] kw = kw :=
    stripSet_id (fun ch hch => contains_space_false (hkwc ch hch).2.2.1)
  rw [hkws, hkw1]
  simp only
  -- operands
  have hlabel : String.ofList lab = g.label := by rw [← hlab]; exact String.ofList_toList
  cases hops0 : g.ops with
  | nil =>
    have hargs0 : args = [] := by rw [← hargs, hops0]; rfl
    rw [hargs0]
    have hconst : g.ty = ALWAYS_TRUE ∨ g.ty = ALWAYS_FALSE := by
      rw [hops0] at har
      cases hgt : g.ty <;> simp [hgt, parserArityOk] at har ⊢
    have hs : stripSet [' '] ([] : Str) = [] := rfl
    simp only [hs, splitOn, List.map_cons, List.map_nil]
    rcases hconst with hc | hc <;> (simp [hc, parserArityOk]; congr 1; cases g; simp_all)
  | cons o r =>
    rw [hops0] at hopsI har hargs
    simp only [List.map_cons] at hopsI hargs
    have hoI : IsIdent o.toList := hopsI _ (by simp)
    have hrI : ∀ x ∈ r.map String.toList, IsIdent x := fun x hx => hopsI x (by simp [hx])
    -- args is not padded
    have hargs_strip : stripSet [' '] args = args := by
      obtain ⟨rest, hrest⟩ := join_head o.toList (r.map String.toList)
      obtain ⟨z, pre, hz, hzl⟩ := join_last o.toList (r.map String.toList)
      rw [hargs] at hrest hzl
      have hzI : IsIdent z := hopsI z (by simpa using hz)
      obtain ⟨a0, ar, ha0⟩ : ∃ a0 ar, o.toList = a0 :: ar := by
        cases h : o.toList with
        | nil => exact absurd h hoI.1
        | cons a b => exact ⟨a, b, rfl⟩
      have := stripSet_pad (set := [' ']) (pre := []) (post := []) (s := args)
        (by rw [hrest, ha0]; simp) (by intro ch h; cases h) (by intro ch h; cases h)
        (fun c0 t e => by
          rw [hrest, ha0] at e; simp only [List.cons_append, List.cons.injEq] at e
          exact contains_space_false (e.1 ▸ ident_no_space hoI a0 (by rw [ha0]; simp)))
        (fun c0 t e => by
          rw [hzl, List.reverse_append] at e
          obtain ⟨z0, zr, hz0⟩ : ∃ z0 zr, z.reverse = z0 :: zr := by
            cases h : z.reverse with
            | nil => exact absurd (by simpa using h) hzI.1
            | cons a b => exact ⟨a, b, rfl⟩
          rw [hz0] at e; simp only [List.cons_append, List.cons.injEq] at e
          have : z0 ∈ z := by
            have : z0 ∈ z.reverse := by rw [hz0]; simp
            simpa using this
          exact contains_space_false (e.1 ▸ ident_no_space hzI z0 this))
      simpa using this
    rw [hargs_strip]
    have hsplit := split_join_operands o.toList (r.map String.toList) hoI hrI
    rw [hargs] at hsplit
    have hoperands : (splitOn ',' args).map (fun a => String.ofList (stripSet [' '] a)) = o :: r := by
      have : (splitOn ',' args).map (fun a => String.ofList (stripSet [' '] a))
          = ((splitOn ',' args).map (stripSet [' '])).map String.ofList := by
        rw [List.map_map]; rfl
      rw [this, hsplit]
      simp [String.ofList_toList]
    rw [hoperands]
    have hfilter : (o :: r).filter (fun x => x != "") = o :: r := by
      apply List.filter_eq_self.mpr
      intro x hx
      have hxI : IsIdent x.toList := hopsI x.toList (by
        simp only [List.mem_cons, List.mem_map] at hx ⊢
        rcases hx with rfl | hx
        · exact Or.inl rfl
        · exact Or.inr ⟨x, hx, rfl⟩)
      have : x ≠ "" := by
        intro e; rw [e] at hxI; exact hxI.1 rfl
      simpa using this
    simp only [hfilter, ite_self, har, if_true]
    congr 1
    cases g
    simp_all

/-! ### declaration lines -/

theorem ident_not_in_decl_set {s : Str} (h : IsIdent s) : ∀ ch ∈ s, ([')', ' ', '\n'] : Str).contains ch = false := by
  intro ch hch
  have := h.2 ch hch
  have h1 : ch ≠ ')' := by intro e; rw [e] at this; revert this; decide
  have h2 : ch ≠ ' ' := by intro e; rw [e] at this; revert this; decide
  have h3 : ch ≠ '\n' := by intro e; rw [e] at this; revert this; decide
  simp [h1, h2, h3]

theorem strip_decl {lab nl : Str} (h : IsIdent lab) (hnl : nl = [] ∨ nl = ['\n']) :
    stripSet [')', ' ', '\n'] (lab ++ ')' :: nl) = lab := by
  have := stripSet_pad (set := [')', ' ', '\n']) (pre := []) (post := ')' :: nl) (s := lab) h.1
    (by intro ch hc; cases hc)
    (by rcases hnl with rfl | rfl <;> (intro ch hc; simp at hc; rcases hc with rfl | rfl <;> decide) <;> skip)
    (fun c0 r e => ident_not_in_decl_set h c0 (by rw [e]; simp))
    (fun c0 r e => ident_not_in_decl_set h c0 (by
      have : c0 ∈ lab.reverse := by rw [e]; simp
      simpa using this))
  simpa using this

/-- `INPUT(label)` lines parse to an INPUT gate with that label -/
theorem parseLine_input (c : Circuit) (l : Label) (hl : IsIdent l.toList) (nl : Str)
    (hnl : nl = [] ∨ nl = ['\n']) :
    parseLine c (['I', 'N', 'P', 'U', 'T', '('] ++ l.toList ++ ')' :: nl) = .ok (c.rawAddGate ⟨l, INPUT, []⟩) := by
  unfold parseLine
  have e : ['I', 'N', 'P', 'U', 'T', '('] ++ l.toList ++ ')' :: nl
      = 'I' :: 'N' :: 'P' :: 'U' :: 'T' :: '(' :: (l.toList ++ ')' :: nl) := by simp
  rw [e]
  have hpre : (strOf "INPUT(").isPrefixOf (upperS ('I' :: 'N' :: 'P' :: 'U' :: 'T' :: '(' :: (l.toList ++ ')' :: nl))) = true := by
    simp [upperS, strOf, List.isPrefixOf]
  have hdrop : ('I' :: 'N' :: 'P' :: 'U' :: 'T' :: '(' :: (l.toList ++ ')' :: nl)).drop 6 = l.toList ++ ')' :: nl := rfl
  have hcond : (('I' :: 'N' :: 'P' :: 'U' :: 'T' :: '(' :: (l.toList ++ ')' :: nl)).isEmpty
      || ('I' :: 'N' :: 'P' :: 'U' :: 'T' :: '(' :: (l.toList ++ ')' :: nl)) == ['\n']
      || ('I' :: 'N' :: 'P' :: 'U' :: 'T' :: '(' :: (l.toList ++ ')' :: nl)).head? == some '#') = false := by
    simp
  have hs : strOf ") \n" = [')', ' ', '\n'] := by decide
  simp only [hcond, Bool.false_eq_true, if_false, hpre, if_true, hdrop, hs, strip_decl hl hnl,
    String.ofList_toList]

/-- `OUTPUT(label)` lines append the label to the outputs -/
theorem parseLine_output (c : Circuit) (l : Label) (hl : IsIdent l.toList) (nl : Str)
    (hnl : nl = [] ∨ nl = ['\n']) :
    parseLine c (['O', 'U', 'T', 'P', 'U', 'T', '('] ++ l.toList ++ ')' :: nl)
      = .ok { c with outputs := c.outputs ++ [l] } := by
  unfold parseLine
  have e : ['O', 'U', 'T', 'P', 'U', 'T', '('] ++ l.toList ++ ')' :: nl
      = 'O' :: 'U' :: 'T' :: 'P' :: 'U' :: 'T' :: '(' :: (l.toList ++ ')' :: nl) := by simp
  rw [e]
  have hnin : (strOf "INPUT(").isPrefixOf (upperS ('O' :: 'U' :: 'T' :: 'P' :: 'U' :: 'T' :: '(' :: (l.toList ++ ')' :: nl))) = false := by
    simp [upperS, strOf, List.isPrefixOf]
  have hpre : (strOf "OUTPUT(").isPrefixOf (upperS ('O' :: 'U' :: 'T' :: 'P' :: 'U' :: 'T' :: '(' :: (l.toList ++ ')' :: nl))) = true := by
    simp [upperS, strOf, List.isPrefixOf]
  have hdrop : ('O' :: 'U' :: 'T' :: 'P' :: 'U' :: 'T' :: '(' :: (l.toList ++ ')' :: nl)).drop 7 = l.toList ++ ')' :: nl := rfl
  have hcond : (('O' :: 'U' :: 'T' :: 'P' :: 'U' :: 'T' :: '(' :: (l.toList ++ ')' :: nl)).isEmpty
      || ('O' :: 'U' :: 'T' :: 'P' :: 'U' :: 'T' :: '(' :: (l.toList ++ ')' :: nl)) == ['\n']
      || ('O' :: 'U' :: 'T' :: 'P' :: 'U' :: 'T' :: '(' :: (l.toList ++ ')' :: nl)).head? == some '#') = false := by
    simp
  have hs : strOf ") \n" = [')', ' ', '\n'] := by decide
  simp only [hcond, Bool.false_eq_true, if_false, hnin, hpre, if_true, hdrop, hs, strip_decl hl hnl,
    String.ofList_toList]

end Cirbo
