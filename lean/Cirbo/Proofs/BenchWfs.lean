import Cirbo.Proofs.Convert
import Cirbo.Proofs.RemoveGate
/-!
# `into_bench` keeps the C02 invariant (C14): users index, acyclicity, blocks
-/
namespace Cirbo
open GateType Circuit

/-- how often `l` is an operand of the gate(s) named `u` -/
def contrib (G : List Gate) (l u : Label) : Nat := ((G.filter (fun g => g.label = u)).map (fun g => g.ops.count l)).sum

theorem contrib_append (G H : List Gate) (l u : Label) : contrib (G ++ H) l u = contrib G l u + contrib H l u := by
  simp [contrib, List.filter_append, List.map_append, List.sum_append]

theorem contrib_nil (l u : Label) : contrib [] l u = 0 := rfl

theorem contrib_single (g : Gate) (l u : Label) : contrib [g] l u = if g.label = u then g.ops.count l else 0 := by
  unfold contrib
  by_cases h : g.label = u <;> simp [List.filter_cons, h]

theorem contrib_not_label {G : List Gate} {u : Label} (h : u ∉ G.map (·.label)) (l : Label) : contrib G l u = 0 := by
  unfold contrib
  have : G.filter (fun g => g.label = u) = [] := by
    apply List.filter_eq_nil_iff.mpr
    intro g hg
    simp only [decide_eq_true_eq]
    intro e
    exact h (List.mem_map.mpr ⟨g, hg, e⟩)
  rw [this]; rfl

theorem contrib_of_mem {G : List Gate} (hnd : (G.map (·.label)).Nodup) {g : Gate} (hg : g ∈ G) (l : Label) :
    contrib G l g.label = g.ops.count l := by
  induction G with
  | nil => cases hg
  | cons x t ih =>
    simp only [List.map_cons, List.nodup_cons] at hnd
    have : x :: t = [x] ++ t := rfl
    rw [this, contrib_append, contrib_single]
    rcases List.mem_cons.mp hg with rfl | hg
    · simp only [if_true]
      rw [contrib_not_label hnd.1]; simp
    · have hne : x.label ≠ g.label := fun e => hnd.1 (e ▸ List.mem_map.mpr ⟨g, hg, rfl⟩)
      simp only [hne, if_false, Nat.zero_add]
      exact ih hnd.2 hg

/-- the users part of the invariant, as one equation -/
theorem users_count_of_wfs {c : Circuit} (hw : WFS c) (l u : Label) : (c.usersOf l).count u = contrib c.gates l u := by
  by_cases hu : u ∈ c.labels
  · obtain ⟨g, hg, hgl⟩ : ∃ g ∈ c.gates, g.label = u := by simpa [Circuit.labels] using hu
    rw [← hgl, contrib_of_mem hw.nodup hg]
    exact hw.usersC l g hg
  · rw [contrib_not_label hu]
    exact List.count_eq_zero.mpr (fun hm => hu (hw.usersL l u hm))

theorem users_of_count {c : Circuit} (hnd : c.labels.Nodup)
    (h : ∀ l u, (c.usersOf l).count u = contrib c.gates l u) :
    (∀ l s, s ∈ c.usersOf l → s ∈ c.labels) ∧ (∀ l, ∀ g ∈ c.gates, (c.usersOf l).count g.label = g.ops.count l) := by
  constructor
  · intro l s hs
    apply Classical.byContradiction
    intro hn
    have := h l s
    rw [contrib_not_label hn] at this
    exact (List.count_eq_zero.mp this) hs
  · intro l g hg
    rw [h l g.label, contrib_of_mem hnd hg]

theorem contrib_replG {G : List Gate} (hnd : (G.map (·.label)).Nodup) {g g' : Gate} (hg : g ∈ G) (hgl : g'.label = g.label)
    (l u : Label) : contrib (G.map (replG g')) l u = if u = g.label then g'.ops.count l else contrib G l u := by
  induction G with
  | nil => cases hg
  | cons x t ih =>
    simp only [List.map_cons, List.nodup_cons] at hnd
    have e1 : List.map (replG g') (x :: t) = [replG g' x] ++ t.map (replG g') := rfl
    have e2 : x :: t = [x] ++ t := rfl
    rw [e1, contrib_append, contrib_single]
    conv => rhs; rw [e2, contrib_append, contrib_single]
    rcases List.mem_cons.mp hg with hgx | hg
    · -- the head is the replaced gate; the tail is untouched
      subst hgx
      have hx : replG g' g = g' := by simp [replG, hgl]
      have htail : t.map (replG g') = t := by
        conv => rhs; rw [← List.map_id t]
        apply List.map_congr_left
        intro y hy
        have : y.label ≠ g'.label := fun e => hnd.1 (List.mem_map.mpr ⟨y, hy, e.trans hgl⟩)
        simp [replG, this]
      rw [hx, htail]
      by_cases hu : u = g.label
      · subst hu
        simp only [hgl, if_true]
        rw [contrib_not_label hnd.1]; simp
      · have h1 : ¬ g'.label = u := fun e => hu (e.symm.trans hgl)
        have h2 : ¬ g.label = u := fun e => hu e.symm
        simp [hu, h1, h2]
    · have hxne : x.label ≠ g.label := fun e => hnd.1 (e ▸ List.mem_map.mpr ⟨g, hg, rfl⟩)
      have hx : replG g' x = x := by simp [replG, hgl, hxne]
      rw [hx, ih hnd.2 hg]
      by_cases hu : u = g.label
      · have : ¬ x.label = u := fun e => hxne (e.trans hu)
        simp only [hu, if_true]
        have h3 : ¬ x.label = g.label := hxne
        simp [h3]
      · simp [hu]

/-- **rewiring one gate keeps the invariant**: the gate `g` is replaced by `g'` (same label, any
non-INPUT type and operands), fresh non-INPUT helper gates `H` are appended, and the users index counts
exactly the operand occurrences of the new netlist -/
theorem wfs_of_rewire {c c' : Circuit} (hw : WFS c) {g g' : Gate} (hg : g ∈ c.gates) (hgl : g'.label = g.label)
    (hgty : g.ty ≠ INPUT) (hg'ty : g'.ty ≠ INPUT) (H : List Gate)
    (hfresh : (c.labels ++ H.map (·.label)).Nodup) (hHty : ∀ h ∈ H, h.ty ≠ INPUT)
    (hgates : c'.gates = c.gates.map (replG g') ++ H)
    (hin : c'.inputs = c.inputs) (hout : c'.outputs = c.outputs)
    (hcl1 : ∀ o ∈ g'.ops, o ∈ c'.labels) (hcl2 : ∀ h ∈ H, ∀ o ∈ h.ops, o ∈ c'.labels)
    (hrank : ∃ r' : Label → Nat, ∀ x ∈ c'.gates, ∀ o ∈ x.ops, r' o < r' x.label)
    (husers : ∀ l u, (c'.usersOf l).count u = contrib c'.gates l u)
    (hblocks : ∀ b ∈ c'.blocks, (∀ l ∈ b.gates, l ∈ c'.labels) ∧ (∀ l ∈ b.inputs, l ∈ c'.labels)) : WFS c' := by
  have hlab : c'.labels = c.labels ++ H.map (·.label) := by
    unfold Circuit.labels; rw [hgates, List.map_append, labels_map_replG]
  have hnd' : c'.labels.Nodup := hlab ▸ hfresh
  have hsub : ∀ l ∈ c.labels, l ∈ c'.labels := fun l hl => by rw [hlab]; exact List.mem_append_left _ hl
  obtain ⟨uL, uC⟩ := users_of_count hnd' husers
  -- a gate of the result is an untouched old gate, the new `g'`, or a helper
  have hcases : ∀ x ∈ c'.gates, (x ∈ c.gates ∧ x.label ≠ g.label) ∨ x = g' ∨ x ∈ H := by
    intro x hx
    rw [hgates] at hx
    rcases List.mem_append.mp hx with hx | hx
    · obtain ⟨y, hy, rfl⟩ := List.mem_map.mp hx
      unfold replG
      by_cases e : y.label = g'.label
      · right; left; simp [e]
      · left; simp only [beq_iff_eq, e, if_false]; exact ⟨hy, fun e2 => e (e2.trans hgl.symm)⟩
    · exact Or.inr (Or.inr hx)
  have hold : ∀ y ∈ c.gates, y.label ≠ g.label → y ∈ c'.gates := by
    intro y hy hne
    rw [hgates]
    apply List.mem_append_left
    refine List.mem_map.mpr ⟨y, hy, ?_⟩
    unfold replG
    have : ¬ y.label = g'.label := fun e => hne (e.trans hgl)
    simp [this]
  refine ⟨hnd', ?_, hrank, hin ▸ hw.inputsNodup, ?_, ?_, uL, uC, hblocks, ?_⟩
  · intro x hx o ho
    rcases hcases x hx with ⟨h1, _⟩ | rfl | h3
    · exact hsub o (hw.closed x h1 o ho)
    · exact hcl1 o ho
    · exact hcl2 x h3 o ho
  · intro l
    rw [hin]
    constructor
    · intro hl
      obtain ⟨y, hy, hyl, hty⟩ := (hw.inputsOK l).mp hl
      have hne : y.label ≠ g.label := by
        intro e
        have := find_label hw.nodup hy
        rw [e, find_label hw.nodup hg] at this
        exact hgty ((Option.some.inj this) ▸ hty)
      exact ⟨y, hold y hy hne, hyl, hty⟩
    · rintro ⟨x, hx, hxl, hty⟩
      rcases hcases x hx with ⟨h1, _⟩ | rfl | h3
      · exact (hw.inputsOK l).mpr ⟨x, h1, hxl, hty⟩
      · exact absurd hty hg'ty
      · exact absurd hty (hHty x h3)
  · intro o ho
    rw [hout] at ho
    exact hsub o (hw.outputsOK o ho)
  · intro x hx hty
    rcases hcases x hx with ⟨h1, _⟩ | rfl | h3
    · exact hw.inputOps x h1 hty
    · exact absurd hty hg'ty
    · exact absurd hty (hHty x h3)

theorem count_usersOf_addUser (c : Circuit) (x w l u : Label) :
    ((c.addUser x w).usersOf l).count u = (c.usersOf l).count u + (if l = x ∧ u = w then 1 else 0) := by
  rw [usersOf_addUser]
  by_cases hl : l = x
  · simp only [hl, if_true, true_and, List.count_append, List.count_cons, List.count_nil]
    by_cases hu : u = w
    · simp [hu]
    · have : (w == u) = false := by simpa using fun e : w = u => hu e.symm
      simp [hu, this]
  · simp [hl]

theorem count_usersOf_removeUser (c : Circuit) (x w l u : Label) :
    ((c.removeUser x w).usersOf l).count u = (c.usersOf l).count u - (if l = x ∧ u = w then 1 else 0) := by
  rw [usersOf_removeUser]
  by_cases hl : l = x
  · simp only [hl, if_true, true_and, List.count_erase]
    by_cases hu : u = w
    · simp [hu]
    · have : (w == u) = false := by simpa using fun e : w = u => hu e.symm
      simp [hu, this]
  · simp [hl]

theorem removeUser_blocks (c : Circuit) (l u : Label) : (c.removeUser l u).blocks = c.blocks := by
  unfold removeUser; split
  · rfl
  · split <;> rfl

theorem addUser_blocks (c : Circuit) (l u : Label) : (c.addUser l u).blocks = c.blocks := by
  unfold addUser; split <;> rfl

theorem setGate_blocks (c : Circuit) (g : Gate) : (c.setGate g).blocks = c.blocks := rfl
theorem setGate_usersOf (c : Circuit) (g : Gate) (l : Label) : (c.setGate g).usersOf l = c.usersOf l := rfl

theorem count_pair (l x y : Label) : [x, y].count l = (if x = l then 1 else 0) + (if y = l then 1 else 0) := by
  simp only [List.count_cons, List.count_nil, beq_iff_eq]
  omega

theorem count_single (l x : Label) : [x].count l = (if x = l then 1 else 0) := by
  simp [List.count_cons]

/-- `_convert_liff/_riff/_lnot/_rnot` keep the invariant -/
theorem convDrop_wfs {c c' : Circuit} {g : Gate} {k k' : Nat} {dropIdx : Nat} {newTy : GateType}
    (hw : WFS c) (hg : g ∈ c.gates) (hgty : g.ty ≠ INPUT) (hnty : newTy ≠ INPUT)
    {x y : Label} (hops : g.ops = [x, y]) (hd : dropIdx = 0 ∨ dropIdx = 1)
    (h : c.convDrop g k dropIdx newTy = .ok (c', k')) : WFS c' := by
  unfold convDrop at h
  simp only [hops, List.getElem?_cons_zero, List.getElem?_cons_succ, Except.ok.injEq, Prod.mk.injEq] at h
  obtain ⟨hc', _⟩ := h
  subst hc'
  obtain ⟨r, hrk⟩ := hw.rank
  have hxl : x ∈ c.labels := hw.closed g hg x (by rw [hops]; simp)
  have hyl : y ∈ c.labels := hw.closed g hg y (by rw [hops]; simp)
  have hgates : ((c.removeUser (if dropIdx = 0 then x else y) g.label).setGate
      ⟨g.label, newTy, [if dropIdx = 0 then y else x]⟩).gates
      = c.gates.map (replG ⟨g.label, newTy, [if dropIdx = 0 then y else x]⟩) ++ [] := by
    rw [(setGate_fields _ _).1, (removeUser_gates _ _ _).1]; simp
  have hlab' : ((c.removeUser (if dropIdx = 0 then x else y) g.label).setGate
      ⟨g.label, newTy, [if dropIdx = 0 then y else x]⟩).labels = c.labels := by
    unfold Circuit.labels; rw [hgates, List.append_nil, labels_map_replG]
  apply wfs_of_rewire hw hg (g' := ⟨g.label, newTy, [if dropIdx = 0 then y else x]⟩) rfl hgty hnty []
    (by simpa using hw.nodup) (by intro h hh; cases hh) hgates
  · rw [(setGate_fields _ _).2.1]; exact (removeUser_gates _ _ _).2.1
  · rw [(setGate_fields _ _).2.2]; exact (removeUser_gates _ _ _).2.2
  · intro o ho
    rw [hlab']
    simp only [List.mem_singleton] at ho
    subst ho
    split <;> assumption
  · intro h hh; cases hh
  · refine ⟨r, ?_⟩
    intro z hz o ho
    rw [hgates, List.append_nil] at hz
    obtain ⟨z0, hz0, rfl⟩ := List.mem_map.mp hz
    unfold replG at ho ⊢
    by_cases e : z0.label = g.label
    · simp only [e, beq_self_eq_true, if_true] at ho ⊢
      simp only [List.mem_singleton] at ho
      subst ho
      split
      · exact hrk g hg y (by rw [hops]; simp)
      · exact hrk g hg x (by rw [hops]; simp)
    · have : (z0.label == g.label) = false := by simpa using e
      simp only [this, Bool.false_eq_true, if_false] at ho ⊢
      exact hrk z0 hz0 o ho
  · -- the users index
    intro l u
    show ((c.removeUser (if dropIdx = 0 then x else y) g.label).usersOf l).count u = _
    rw [count_usersOf_removeUser, users_count_of_wfs hw, hgates, List.append_nil,
      contrib_replG (g' := ⟨g.label, newTy, [if dropIdx = 0 then y else x]⟩) hw.nodup hg rfl]
    by_cases hu : u = g.label
    · subst hu
      rw [contrib_of_mem hw.nodup hg, hops]
      simp only [if_true, and_true, count_pair, count_single]
      rcases hd with rfl | rfl
      · simp only [if_true]
        by_cases h1 : x = l <;> by_cases h2 : y = l <;> simp [h1, h2, eq_comm]
      · simp only [Nat.one_ne_zero, if_false]
        by_cases h1 : x = l <;> by_cases h2 : y = l <;> simp [h1, h2, eq_comm]
    · simp [hu]
  · intro b hb
    have hb' : b ∈ c.blocks := by
      rw [setGate_blocks, removeUser_blocks] at hb; exact hb
    rw [hlab']
    exact hw.blocksOK b hb'

theorem addToBlocks_usersOf (c : Circuit) (a b l : Label) : (c.addToBlocks a b).usersOf l = c.usersOf l := rfl

theorem count_replicate_label (n : Nat) (a u : Label) : (List.replicate n a).count u = if a = u then n else 0 := by
  by_cases h : a = u
  · subst h; simp
  · have : (a == u) = false := by simpa using h
    simp [List.count_replicate, h, this]

/-- `_convert_lt/_leq/_gt/_geq` keep the invariant -/
theorem convNeg_wfs {c c' : Circuit} {g : Gate} {k k' : Nat} {tag : String} {negIdx : Nat} {newTy : GateType}
    (hw : WFS c) (hg : g ∈ c.gates) (hgty : g.ty ≠ INPUT) (hnty : newTy ≠ INPUT)
    {x y : Label} (hops : g.ops = [x, y]) (hd : negIdx = 0 ∨ negIdx = 1)
    (h : c.convNeg g k tag negIdx newTy = .ok (c', k')) : WFS c' := by
  unfold convNeg at h
  simp only [hops, List.getElem?_cons_zero, List.getElem?_cons_succ] at h
  generalize hnew : convLabel tag g k = new at h
  generalize htgt : (if negIdx = 0 then x else y) = target at h
  generalize hops' : (if negIdx = 0 then [new, y] else [x, new]) = ops' at h
  cases ha : c.addGate ⟨new, NOT, [target]⟩ with
  | error e => simp [ha] at h
  | ok c1 =>
    simp only [ha, Except.ok.injEq, Prod.mk.injEq] at h
    obtain ⟨hc', _⟩ := h
    subst hc'
    obtain ⟨hfresh, hopsIn, hg1, hi1, ho1, hb1, hu1⟩ := addGate_fields ha
    simp only at hfresh hopsIn hi1 hu1
    obtain ⟨r, hrk⟩ := hw.rank
    have hxl : x ∈ c.labels := hw.closed g hg x (by rw [hops]; simp)
    have hyl : y ∈ c.labels := hw.closed g hg y (by rw [hops]; simp)
    have htl : target ∈ c.labels := hopsIn target (by simp)
    have hgl : g.label ∈ c.labels := mem_labels_of_mem hg
    have hnx : new ≠ x := fun e => hfresh (e ▸ hxl)
    have hny : new ≠ y := fun e => hfresh (e ▸ hyl)
    have hng : new ≠ g.label := fun e => hfresh (e ▸ hgl)
    have hnt : new ≠ target := fun e => hfresh (e ▸ htl)
    have hgates : (((c1.removeUser target g.label).addUser new g.label).setGate ⟨g.label, newTy, ops'⟩ |>.addToBlocks g.label new).gates
        = c.gates.map (replG ⟨g.label, newTy, ops'⟩) ++ [⟨new, NOT, [target]⟩] := by
      rw [(addToBlocks_fields _ _ _).1, (setGate_fields _ _).1, (addUser_gates _ _ _).1, (removeUser_gates _ _ _).1, hg1,
        List.map_append]
      simp [replG, hng]
    have hlab' : (((c1.removeUser target g.label).addUser new g.label).setGate ⟨g.label, newTy, ops'⟩ |>.addToBlocks g.label new).labels
        = c.labels ++ [new] := by
      unfold Circuit.labels; rw [hgates, List.map_append, labels_map_replG]; rfl
    apply wfs_of_rewire hw hg (g' := ⟨g.label, newTy, ops'⟩) rfl hgty hnty [⟨new, NOT, [target]⟩]
      (by
        simp only [List.map_cons, List.map_nil]
        refine List.nodup_append.mpr ⟨hw.nodup, by simp, ?_⟩
        intro a ham b hb e
        simp only [List.mem_singleton] at hb
        subst hb; subst e; exact hfresh ham)
      (by intro h hh; simp only [List.mem_singleton] at hh; subst hh; intro e; cases e) hgates
    · rw [(addToBlocks_fields _ _ _).2.1, (setGate_fields _ _).2.1, (addUser_gates _ _ _).2.1, (removeUser_gates _ _ _).2.1, hi1]
      simp
    · rw [(addToBlocks_fields _ _ _).2.2, (setGate_fields _ _).2.2, (addUser_gates _ _ _).2.2, (removeUser_gates _ _ _).2.2, ho1]
    · intro o ho
      rw [hlab']
      simp only at ho
      rw [← hops'] at ho
      rcases hd with rfl | rfl
      · simp only [if_true, List.mem_cons, List.mem_nil_iff, or_false] at ho
        rcases ho with rfl | rfl
        · simp
        · exact List.mem_append_left _ hyl
      · simp only [Nat.one_ne_zero, if_false, List.mem_cons, List.mem_nil_iff, or_false] at ho
        rcases ho with rfl | rfl
        · exact List.mem_append_left _ hxl
        · simp
    · intro h hh o ho
      simp only [List.mem_singleton] at hh; subst hh
      simp only [List.mem_singleton] at ho; subst ho
      rw [hlab']; exact List.mem_append_left _ htl
    · -- a rank for the new netlist
      have htg : r target < r g.label := by
        rw [← htgt]
        split
        · exact hrk g hg x (by rw [hops]; simp)
        · exact hrk g hg y (by rw [hops]; simp)
      let R : Label → Nat := fun l => if l = new then 2 * r target + 1 else 2 * r l
      have Rnew : R new = 2 * r target + 1 := by simp [R]
      have Rold : ∀ l, l ∈ c.labels → R l = 2 * r l := by
        intro l hl
        have : ¬ l = new := fun e => hfresh (e ▸ hl)
        simp [R, this]
      refine ⟨R, ?_⟩
      intro z hz o ho
      rw [hgates] at hz
      rcases List.mem_append.mp hz with hz | hz
      · obtain ⟨z0, hz0, rfl⟩ := List.mem_map.mp hz
        unfold replG at ho ⊢
        by_cases e : z0.label = g.label
        · simp only [e, beq_self_eq_true, if_true] at ho ⊢
          rw [Rold _ hgl]
          have hrx := hrk g hg x (by rw [hops]; simp)
          have hry := hrk g hg y (by rw [hops]; simp)
          have hmem : o = new ∨ o = x ∨ o = y := by
            rw [← hops'] at ho
            rcases hd with rfl | rfl
            · simp only [if_true, List.mem_cons, List.mem_nil_iff, or_false] at ho
              rcases ho with h | h
              · exact Or.inl h
              · exact Or.inr (Or.inr h)
            · simp only [Nat.one_ne_zero, if_false, List.mem_cons, List.mem_nil_iff, or_false] at ho
              rcases ho with h | h
              · exact Or.inr (Or.inl h)
              · exact Or.inl h
          rcases hmem with rfl | rfl | rfl
          · rw [Rnew]; omega
          · rw [Rold _ hxl]; omega
          · rw [Rold _ hyl]; omega
        · have : (z0.label == g.label) = false := by simpa using e
          simp only [this, Bool.false_eq_true, if_false] at ho ⊢
          rw [Rold _ (hw.closed z0 hz0 o ho), Rold _ (mem_labels_of_mem hz0)]
          have := hrk z0 hz0 o ho
          omega
      · simp only [List.mem_singleton] at hz; subst hz
        simp only [List.mem_singleton] at ho; subst ho
        rw [Rnew, Rold _ htl]
        omega
    · -- the users index
      intro l u
      rw [addToBlocks_usersOf, setGate_usersOf, count_usersOf_addUser, count_usersOf_removeUser, hu1,
        List.count_append, count_replicate_label, users_count_of_wfs hw, hgates, contrib_append,
        contrib_replG (g' := ⟨g.label, newTy, ops'⟩) hw.nodup hg rfl, contrib_single]
      simp only [count_single]
      have hcn : contrib c.gates l new = 0 := contrib_not_label hfresh l
      by_cases hu : u = g.label
      · subst hu
        rw [contrib_of_mem hw.nodup hg, hops, count_pair]
        simp only [hng, if_false, and_true, if_true, Nat.add_zero]
        rw [← hops', ← htgt]
        have hxn : ¬ x = new := fun e => hnx e.symm
        have hyn : ¬ y = new := fun e => hny e.symm
        rcases hd with rfl | rfl
        · simp only [if_true, count_pair]
          by_cases h1 : x = l
          · subst h1
            simp [hxn, hnx]
          · have h1' : ¬ l = x := fun e => h1 e.symm
            by_cases h3 : new = l
            · subst h3; simp [h1, h1', hyn]
            · have h3' : ¬ l = new := fun e => h3 e.symm
              simp [h1, h1', h3, h3']
        · simp only [Nat.one_ne_zero, if_false, count_pair]
          by_cases h2 : y = l
          · subst h2
            simp [hyn, hny]
          · have h2' : ¬ l = y := fun e => h2 e.symm
            by_cases h3 : new = l
            · subst h3; simp [h2, h2', hxn]
            · have h3' : ¬ l = new := fun e => h3 e.symm
              simp [h2, h2', h3, h3']
      · by_cases hun : u = new
        · subst hun
          simp [hu, hcn, hng]
        · have : ¬ new = u := fun e => hun e.symm
          simp [hu, this]
    · -- blocks
      intro b hb
      rw [hlab']
      unfold addToBlocks at hb
      simp only at hb
      obtain ⟨b0, hb0, rfl⟩ := List.mem_map.mp hb
      have hb0' : b0 ∈ c.blocks := by
        rw [setGate_blocks, addUser_blocks, removeUser_blocks, hb1] at hb0; exact hb0
      obtain ⟨h1, h2⟩ := hw.blocksOK b0 hb0'
      split
      · refine ⟨?_, fun l hl => List.mem_append_left _ (h2 l hl)⟩
        intro l hl
        simp only [List.mem_append, List.mem_singleton] at hl
        rcases hl with hl | rfl
        · exact List.mem_append_left _ (h1 l hl)
        · simp
      · exact ⟨fun l hl => List.mem_append_left _ (h1 l hl), fun l hl => List.mem_append_left _ (h2 l hl)⟩

theorem foldl_removeUser_blocks (ops : List Label) (c : Circuit) (u : Label) :
    (ops.foldl (fun cc o => cc.removeUser o u) c).blocks = c.blocks := by
  induction ops generalizing c with
  | nil => rfl
  | cons o t ih => simp only [List.foldl_cons]; rw [ih, removeUser_blocks]

/-- `_convert_always_true/_false` keep the invariant -/
theorem convConst_wfs {c c' : Circuit} {g : Gate} {k k' : Nat} {tag : String} {newTy : GateType}
    (hw : WFS c) (hg : g ∈ c.gates) (hgty : g.ty ≠ INPUT) (hnty : newTy ≠ INPUT)
    (h : c.convConst g k tag newTy = .ok (c', k')) : WFS c' := by
  unfold convConst at h
  cases hfi : c.inputs[0]? with
  | none => simp [hfi] at h
  | some first =>
    simp only [hfi] at h
    generalize hnew : convLabel tag g k = new at h
    cases ha : c.addGate ⟨new, NOT, [first]⟩ with
    | error e => simp [ha] at h
    | ok c1 =>
      simp only [ha, Except.ok.injEq, Prod.mk.injEq] at h
      obtain ⟨hc', _⟩ := h
      subst hc'
      obtain ⟨hfresh, hopsIn, hg1, hi1, ho1, hb1, hu1⟩ := addGate_fields ha
      simp only at hfresh hopsIn hi1 hu1
      obtain ⟨r, hrk⟩ := hw.rank
      have hfin : first ∈ c.inputs := List.mem_of_getElem? hfi
      obtain ⟨gf, hgf, hgfl, hgft⟩ := (hw.inputsOK first).mp hfin
      have hfl : first ∈ c.labels := hgfl ▸ mem_labels_of_mem hgf
      have hgl : g.label ∈ c.labels := mem_labels_of_mem hg
      have hng : new ≠ g.label := fun e => hfresh (e ▸ hgl)
      have hnf : new ≠ first := fun e => hfresh (e ▸ hfl)
      have hfg : first ≠ g.label := by
        intro e
        have := find_label hw.nodup hgf
        rw [hgfl, e, find_label hw.nodup hg] at this
        exact hgty ((Option.some.inj this) ▸ hgft)
      have hgates : (((((g.ops.foldl (fun cc o => cc.removeUser o g.label) c1).addUser first g.label).addUser new g.label).setGate
          ⟨g.label, newTy, [first, new]⟩).addToBlocks g.label new).gates
          = c.gates.map (replG ⟨g.label, newTy, [first, new]⟩) ++ [⟨new, NOT, [first]⟩] := by
        rw [(addToBlocks_fields _ _ _).1, (setGate_fields _ _).1, (addUser_gates _ _ _).1, (addUser_gates _ _ _).1,
          (foldl_removeUser_gates _ _ _).1, hg1, List.map_append]
        simp [replG, hng]
      have hlab' : (((((g.ops.foldl (fun cc o => cc.removeUser o g.label) c1).addUser first g.label).addUser new g.label).setGate
          ⟨g.label, newTy, [first, new]⟩).addToBlocks g.label new).labels = c.labels ++ [new] := by
        unfold Circuit.labels; rw [hgates, List.map_append, labels_map_replG]; rfl
      apply wfs_of_rewire hw hg (g' := ⟨g.label, newTy, [first, new]⟩) rfl hgty hnty [⟨new, NOT, [first]⟩]
        (by
          simp only [List.map_cons, List.map_nil]
          refine List.nodup_append.mpr ⟨hw.nodup, by simp, ?_⟩
          intro a ham b hb e
          simp only [List.mem_singleton] at hb
          subst hb; subst e; exact hfresh ham)
        (by intro h hh; simp only [List.mem_singleton] at hh; subst hh; intro e; cases e) hgates
      · rw [(addToBlocks_fields _ _ _).2.1, (setGate_fields _ _).2.1, (addUser_gates _ _ _).2.1, (addUser_gates _ _ _).2.1,
          (foldl_removeUser_gates _ _ _).2.1, hi1]
        simp
      · rw [(addToBlocks_fields _ _ _).2.2, (setGate_fields _ _).2.2, (addUser_gates _ _ _).2.2, (addUser_gates _ _ _).2.2,
          (foldl_removeUser_gates _ _ _).2.2, ho1]
      · intro o ho
        rw [hlab']
        simp only [List.mem_cons, List.mem_nil_iff, or_false] at ho
        rcases ho with rfl | rfl
        · exact List.mem_append_left _ hfl
        · simp
      · intro h hh o ho
        simp only [List.mem_singleton] at hh; subst hh
        simp only [List.mem_singleton] at ho; subst ho
        rw [hlab']; exact List.mem_append_left _ hfl
      · -- rank: the input first, its negation next, everything else shifted above
        let R : Label → Nat := fun l => if l = first then 0 else if l = new then 1 else r l + 2
        have Rf : R first = 0 := by simp [R]
        have Rn : R new = 1 := by simp [R, hnf]
        have Ro : ∀ l, l ≠ first → l ≠ new → R l = r l + 2 := by intro l h1 h2; simp [R, h1, h2]
        have Rle : ∀ l, l ≠ new → R l ≤ r l + 2 := by
          intro l h2
          by_cases h1 : l = first
          · rw [h1, Rf]; omega
          · rw [Ro l h1 h2]; omega
        refine ⟨R, ?_⟩
        intro z hz o ho
        rw [hgates] at hz
        rcases List.mem_append.mp hz with hz | hz
        · obtain ⟨z0, hz0, rfl⟩ := List.mem_map.mp hz
          unfold replG at ho ⊢
          by_cases e : z0.label = g.label
          · simp only [e, beq_self_eq_true, if_true] at ho ⊢
            rw [Ro _ (fun e2 => hfg e2.symm) (fun e2 => hng e2.symm)]
            simp only [List.mem_cons, List.mem_nil_iff, or_false] at ho
            rcases ho with rfl | rfl
            · rw [Rf]; omega
            · rw [Rn]; omega
          · have : (z0.label == g.label) = false := by simpa using e
            simp only [this, Bool.false_eq_true, if_false] at ho ⊢
            have hol : o ∈ c.labels := hw.closed z0 hz0 o ho
            have hzl : z0.label ∈ c.labels := mem_labels_of_mem hz0
            have hzn : z0.label ≠ new := fun e2 => hfresh (e2 ▸ hzl)
            have hon : o ≠ new := fun e2 => hfresh (e2 ▸ hol)
            have hzf : z0.label ≠ first := by
              intro e2
              have := find_label hw.nodup hz0
              rw [e2, ← hgfl, find_label hw.nodup hgf] at this
              have hz0e : z0 = gf := (Option.some.inj this).symm
              rw [hz0e, hw.inputOps gf hgf hgft] at ho
              cases ho
            rw [Ro _ hzf hzn]
            have := Rle o hon
            have := hrk z0 hz0 o ho
            omega
        · simp only [List.mem_singleton] at hz; subst hz
          simp only [List.mem_singleton] at ho; subst ho
          rw [Rn, Rf]; omega
      · -- the users index
        intro l u
        rw [addToBlocks_usersOf, setGate_usersOf, count_usersOf_addUser, count_usersOf_addUser,
          usersOf_foldl_removeUser, count_eraseN, hu1, List.count_append, count_replicate_label,
          users_count_of_wfs hw, hgates, contrib_append,
          contrib_replG (g' := ⟨g.label, newTy, [first, new]⟩) hw.nodup hg rfl, contrib_single]
        simp only [count_single, count_pair]
        have hcn : contrib c.gates l new = 0 := contrib_not_label hfresh l
        by_cases hu : u = g.label
        · subst hu
          rw [contrib_of_mem hw.nodup hg]
          have hfn : ¬ first = new := fun e => hnf e.symm
          simp only [hng, if_false, and_true, if_true, Nat.add_zero]
          by_cases h1 : first = l
          · subst h1
            simp [hfn, hnf]
          · have h1' : ¬ l = first := fun e => h1 e.symm
            by_cases h3 : new = l
            · subst h3; simp [h1, h1']
            · have h3' : ¬ l = new := fun e => h3 e.symm
              simp [h1, h1', h3, h3']
        · by_cases hun : u = new
          · subst hun
            simp [hu, hcn]
          · have : ¬ new = u := fun e => hun e.symm
            simp [hu, this]
      · -- blocks
        intro b hb
        rw [hlab']
        unfold addToBlocks at hb
        simp only at hb
        obtain ⟨b0, hb0, rfl⟩ := List.mem_map.mp hb
        have hb0' : b0 ∈ c.blocks := by
          rw [setGate_blocks, addUser_blocks, addUser_blocks, foldl_removeUser_blocks, hb1] at hb0; exact hb0
        obtain ⟨h1, h2⟩ := hw.blocksOK b0 hb0'
        split
        · refine ⟨?_, fun l hl => List.mem_append_left _ (h2 l hl)⟩
          intro l hl
          simp only [List.mem_append, List.mem_singleton] at hl
          rcases hl with hl | rfl
          · exact List.mem_append_left _ (h1 l hl)
          · simp
        · exact ⟨fun l hl => List.mem_append_left _ (h1 l hl), fun l hl => List.mem_append_left _ (h2 l hl)⟩

theorem mem_map_replG_of_ne {G : List Gate} {g' g2 : Gate} (h : g2 ∈ G) (hne : g2.label ≠ g'.label) :
    g2 ∈ G.map (replG g') := by
  refine List.mem_map.mpr ⟨g2, h, ?_⟩
  simp [replG, hne]

/-- a conversion leaves every other gate alone -/
theorem convertGate_stay {c c1 : Circuit} {g : Gate} {k k1 : Nat} (h : c.convertGate g k = .ok (c1, k1)) :
    ∀ g2 ∈ c.gates, g2.label ≠ g.label → g2 ∈ c1.gates := by
  intro g2 hg2 hne
  unfold convertGate at h
  have negC : ∀ (tag : String) (idx : Nat) (ty : GateType), convNeg c g k tag idx ty = .ok (c1, k1) → g2 ∈ c1.gates := by
    intro tag idx ty hh
    obtain ⟨x, y, _, _, _, _, hgs, _⟩ := convNeg_gates hh
    rw [hgs]; exact mem_map_replG_of_ne (List.mem_append_left _ hg2) hne
  have dropC : ∀ (idx : Nat) (ty : GateType), convDrop c g k idx ty = .ok (c1, k1) → g2 ∈ c1.gates := by
    intro idx ty hh
    obtain ⟨x, y, _, _, hgs, _⟩ := convDrop_gates hh
    rw [hgs]; exact mem_map_replG_of_ne hg2 hne
  have constC : ∀ (tag : String) (ty : GateType), convConst c g k tag ty = .ok (c1, k1) → g2 ∈ c1.gates := by
    intro tag ty hh
    obtain ⟨f, _, _, _, hgs, _⟩ := convConst_gates hh
    rw [hgs]; exact mem_map_replG_of_ne (List.mem_append_left _ hg2) hne
  split at h
  · exact negC _ _ _ h
  · exact negC _ _ _ h
  · exact negC _ _ _ h
  · exact negC _ _ _ h
  · exact dropC _ _ h
  · exact dropC _ _ h
  · exact dropC _ _ h
  · exact dropC _ _ h
  · exact constC _ _ h
  · exact constC _ _ h
  · simp only [Except.ok.injEq, Prod.mk.injEq] at h; rw [← h.1]; exact hg2

theorem ops_pair_of_arity {g : Gate} (h : g.ops.length = 2) : ∃ x y, g.ops = [x, y] := by
  rcases hg : g.ops with _ | ⟨a, _ | ⟨b, _ | ⟨d, r⟩⟩⟩ <;> rw [hg] at h <;> simp at h
  exact ⟨a, b, rfl⟩

/-- **one gate conversion keeps the invariant** -/
theorem convertGate_wfs {c c1 : Circuit} {g : Gate} {k k1 : Nat} (hw : WFS c) (hg : g ∈ c.gates)
    (har : g.ty ≠ INPUT → arityOk g.ty g.ops.length = true) (h : c.convertGate g k = .ok (c1, k1)) : WFS c1 := by
  unfold convertGate at h
  have two : g.ty ≠ INPUT → arityOk g.ty g.ops.length = true → (∀ n, arityOk g.ty n = (n == 2)) → ∃ x y, g.ops = [x, y] := by
    intro hne ha hall
    rw [hall] at ha
    exact ops_pair_of_arity (by simpa using ha)
  split at h
  · rename_i ht
    obtain ⟨x, y, hxy⟩ := two (by rw [ht]; decide) (har (by rw [ht]; decide)) (by rw [ht]; intro n; rfl)
    exact convNeg_wfs hw hg (by rw [ht]; decide) (by decide) hxy (Or.inl rfl) h
  · rename_i ht
    obtain ⟨x, y, hxy⟩ := two (by rw [ht]; decide) (har (by rw [ht]; decide)) (by rw [ht]; intro n; rfl)
    exact convNeg_wfs hw hg (by rw [ht]; decide) (by decide) hxy (Or.inl rfl) h
  · rename_i ht
    obtain ⟨x, y, hxy⟩ := two (by rw [ht]; decide) (har (by rw [ht]; decide)) (by rw [ht]; intro n; rfl)
    exact convNeg_wfs hw hg (by rw [ht]; decide) (by decide) hxy (Or.inr rfl) h
  · rename_i ht
    obtain ⟨x, y, hxy⟩ := two (by rw [ht]; decide) (har (by rw [ht]; decide)) (by rw [ht]; intro n; rfl)
    exact convNeg_wfs hw hg (by rw [ht]; decide) (by decide) hxy (Or.inr rfl) h
  · rename_i ht
    obtain ⟨x, y, hxy⟩ := two (by rw [ht]; decide) (har (by rw [ht]; decide)) (by rw [ht]; intro n; rfl)
    exact convDrop_wfs hw hg (by rw [ht]; decide) (by decide) hxy (Or.inr rfl) h
  · rename_i ht
    obtain ⟨x, y, hxy⟩ := two (by rw [ht]; decide) (har (by rw [ht]; decide)) (by rw [ht]; intro n; rfl)
    exact convDrop_wfs hw hg (by rw [ht]; decide) (by decide) hxy (Or.inl rfl) h
  · rename_i ht
    obtain ⟨x, y, hxy⟩ := two (by rw [ht]; decide) (har (by rw [ht]; decide)) (by rw [ht]; intro n; rfl)
    exact convDrop_wfs hw hg (by rw [ht]; decide) (by decide) hxy (Or.inr rfl) h
  · rename_i ht
    obtain ⟨x, y, hxy⟩ := two (by rw [ht]; decide) (har (by rw [ht]; decide)) (by rw [ht]; intro n; rfl)
    exact convDrop_wfs hw hg (by rw [ht]; decide) (by decide) hxy (Or.inl rfl) h
  · rename_i ht
    exact convConst_wfs hw hg (by rw [ht]; decide) (by decide) h
  · rename_i ht
    exact convConst_wfs hw hg (by rw [ht]; decide) (by decide) h
  · simp only [Except.ok.injEq, Prod.mk.injEq] at h; rw [← h.1]; exact hw

theorem intoBench_fold_wfs : ∀ (todo : List Gate) (cur : Circuit) (k : Nat) (c' : Circuit) (k' : Nat),
    WFS cur → (todo.map (·.label)).Nodup → (∀ g ∈ todo, g ∈ cur.gates) →
    (∀ g ∈ todo, g.ty ≠ INPUT → arityOk g.ty g.ops.length = true) →
    todo.foldl convStep (.ok (cur, k)) = .ok (c', k') → WFS c' := by
  intro todo
  induction todo with
  | nil =>
    intro cur k c' k' hw _ _ _ h
    simp only [List.foldl_nil, Except.ok.injEq, Prod.mk.injEq] at h
    rw [← h.1]; exact hw
  | cons g rest ih =>
    intro cur k c' k' hw hnd hin har h
    simp only [List.foldl_cons] at h
    have hstep : convStep (.ok (cur, k)) g = cur.convertGate g k := rfl
    rw [hstep] at h
    cases hc : cur.convertGate g k with
    | error e =>
      rw [hc] at h
      exfalso
      have : ∀ (l : List Gate), l.foldl convStep (.error e) = .error e := by
        intro l; induction l with
        | nil => rfl
        | cons a r ih2 => simpa [convStep] using ih2
      rw [this] at h; cases h
    | ok p =>
      obtain ⟨c1, k1⟩ := p
      rw [hc] at h
      simp only [List.map_cons, List.nodup_cons] at hnd
      have hg := hin g (by simp)
      have hw1 := convertGate_wfs hw hg (har g (by simp)) hc
      have hin1 : ∀ g2 ∈ rest, g2 ∈ c1.gates := by
        intro g2 hg2
        apply convertGate_stay hc g2 (hin g2 (by simp [hg2]))
        intro e
        exact hnd.1 (List.mem_map.mpr ⟨g2, hg2, e⟩)
      exact ih c1 k1 c' k' hw1 hnd.2 hin1 (fun g2 hg2 => har g2 (by simp [hg2])) h

/-- **`into_bench` keeps the whole C02 invariant**: operands and outputs exist, the users index is the
inverse operand multiset (after the manual `_remove_user`/`_add_user` edits), inputs, acyclicity, and
every block still names existing gates (helper gates are added to the blocks of the gate they serve) -/
theorem intoBench_wfs {c c' : Circuit} {k k' : Nat} (hw : WFS c)
    (har : ∀ g ∈ c.gates, g.ty ≠ INPUT → arityOk g.ty g.ops.length = true)
    (h : c.intoBench k = .ok (c', k')) : WFS c' := by
  unfold intoBench at h
  exact intoBench_fold_wfs c.gates c k c' k' hw (by simpa [Circuit.labels] using hw.nodup) (fun g hg => hg) har h

end Cirbo
