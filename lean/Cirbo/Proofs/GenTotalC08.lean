import Cirbo.Proofs.GenTotalArith
import Cirbo.Proofs.GenTotalMul1
import Cirbo.Proofs.GenTotalMul2
import Cirbo.Proofs.GenTotalWallace
/-!
# Totality of the multipliers and squarers (C08): the hypotheses of GenTotalMul1/Mul2 discharged
-/
namespace Cirbo
open GateType Circuit

theorem m2_hSub : m2_HSub := fun a b st P K hinv hk ha hb hna hnb => ca_ok_addSubTwoNumbers hinv hk ha hb hna hnb
theorem m2_hProgFold : m2_HProgFold := fun f J => ca_ok_progFold_gen (f := f) J
theorem m2_hPpRows : m2_HPpRows := fun a b st P K hinv hk ha hb =>
  (m1_ok_ppRows (a := a) b [] st P K hinv hk ha hb (by intro l hl; cases hl) (by intro r hr; cases hr)).mono
    (fun r s ⟨i, k, _⟩ => ⟨i, k, trivial⟩)
theorem m2_hMulPow2M1Core : m2_HMulPow2M1Core := fun a b st P K hinv hk ha hb hab h1 =>
  (m1_ok_mulPow2M1Core hinv hk ha hb (m2_ne_nil_of_length h1) (m2_ne_nil_of_length (by omega))).mono
    (fun r s ⟨i, k, _⟩ => ⟨i, k, trivial⟩)

theorem ok_addMulKaratsuba {a b : List Label} {be : Bool} {st : GSt} {P K : List Label} (hinv : Inv st P) (hk : Kn st K)
    (ha : ∀ l ∈ a, l ∈ K) (hb : ∀ l ∈ b, l ∈ K) (h1 : 1 ≤ max a.length b.length) :
    Ok (addMulKaratsuba a b be) st
      (GPost P K id (fun r => r.length = a.length + b.length - (if a.length == 1 || b.length == 1 then 1 else 0))) :=
  m2_ok_addMulKaratsuba m2_hMulPow2M1Core m2_hSub hinv hk ha hb h1
theorem ok_addMulKaratsubaEff {a b : List Label} {be : Bool} {st : GSt} {P K : List Label} (hinv : Inv st P) (hk : Kn st K)
    (ha : ∀ l ∈ a, l ∈ K) (hb : ∀ l ∈ b, l ∈ K) (h1 : 1 ≤ max a.length b.length) :
    Ok (addMulKaratsubaEff a b be) st
      (GPost P K id (fun r => r.length = a.length + b.length - (if a.length == 1 || b.length == 1 then 1 else 0))) :=
  m2_ok_addMulKaratsubaEff m2_hPpRows m2_hSub hinv hk ha hb h1
theorem ok_addMulDadda {a b : List Label} {be : Bool} {st : GSt} {P K : List Label} (hinv : Inv st P) (hk : Kn st K)
    (ha : ∀ l ∈ a, l ∈ K) (hb : ∀ l ∈ b, l ∈ K) (hn : 1 ≤ a.length) (hm : 1 ≤ b.length) :
    Ok (addMulDadda a b be) st (GPost P K id (fun r => r.length =
      if (a.length == 1 || b.length == 1) then a.length + b.length - 1 else a.length + b.length)) :=
  m2_ok_addMulDadda m2_hProgFold hinv hk ha hb hn hm

theorem m1_hKaratsuba : m1_HKaratsuba (fun a b r => r.length = a.length + b.length - (if a.length == 1 || b.length == 1 then 1 else 0)) :=
  fun a b be _ _ _ hinv hk ha hb hna _ =>
    ok_addMulKaratsuba (be := be) hinv hk ha hb (by have := List.length_pos_iff.mpr hna; omega)

/-- **`add_square` returns** -/
theorem ok_addSquare {x : List Label} {be : Bool} {st : GSt} {P K : List Label} (hinv : Inv st P) (hk : Kn st K)
    (hx : ∀ l ∈ x, l ∈ K) (hne : x ≠ []) : Ok (addSquare x be) st (GPost P K id (fun r => r ≠ [])) :=
  m1_ok_addSquare m1_hKaratsuba (fun a b r hna hnb h => by
    intro e
    have h1 := List.length_pos_iff.mpr hna
    have h2 := List.length_pos_iff.mpr hnb
    rw [e] at h
    simp only [List.length_nil] at h
    split at h <;> omega) (be := be) hinv hk hx hne

end Cirbo
