import Cirbo.Proofs.GenTotalW2
import Cirbo.Proofs.GenTotalC09
/-!
# "The generator returns": the user-facing form of the totality contracts

`Returns p st S`: run from `st`, the program returns a result of shape `S` — or stops because the 128-bit
space of random labels is exhausted (the one failure no argument check can exclude; see `Model/Gen.lean`).
-/
namespace Cirbo
open GateType Circuit

def Returns {α} (p : Prog α) (st : GSt) (S : α → Prop) : Prop :=
  (∃ a st', p.run st = .ok (a, st') ∧ S a) ∨ p.run st = .error "LabelSpaceExhausted"

theorem returns_of_ok {α} {p : Prog α} {st : GSt} {P K : List Label} {lab : α → List Label} {S : α → Prop}
    (h : Ok p st (GPost P K lab S)) : Returns p st S := by
  rcases h with ⟨a, st', h1, _, _, h2⟩ | h
  · exact Or.inl ⟨a, st', h1, h2⟩
  · exact Or.inr h

/-- the labels of the circuit are known gates -/
theorem kn_labels (st : GSt) : Kn st st.c.labels := fun _ h => h

end Cirbo
