import Cirbo.Proofs.RrgIdem
import Cirbo.Proofs.DfsOrder
import Cirbo.Proofs.MdgPost
import Cirbo.Proofs.MegPost
import Cirbo.Proofs.MuoPost
/-!
# The passes return (C03/C18: totality on well-formed circuits)
-/
namespace Cirbo
open Circuit GateType

/-- `dfs` / `bfs` return on every circuit satisfying the C02 invariant (no arity assumption) -/
theorem traverse_ok_wfs {c : Circuit} (h : WFS c) (bfs inverse : Bool) (start : Option (List Label))
    (hstart : ∀ q, start = some q → ∀ x ∈ q, x ∈ c.labels) (tu : Bool) :
    ∃ log, traverse c bfs inverse start tu false = .ok log := by
  unfold traverse
  split
  · exact ⟨_, rfl⟩
  · simp only
    have hcl : ∀ l x, x ∈ (if inverse then c.usersOf else c.opsOf) l → x ∈ c.labels := by
      intro l x hx
      cases inverse
      · simp only [Bool.false_eq_true, if_false] at hx
        by_cases hl : l ∈ c.labels
        · obtain ⟨g, hg, hgl⟩ : ∃ g ∈ c.gates, g.label = l := by simpa [Circuit.labels] using hl
          rw [← hgl, opsOf_gate h.nodup hg] at hx
          exact h.closed g hg x hx
        · rw [opsOf_not_mem hl] at hx; cases hx
      · simp only [if_true] at hx
        exact h.usersL l x hx
    have hq0 : ∀ x ∈ start.getD (if inverse then c.inputs else c.outputs), x ∈ c.labels := by
      intro x hx
      cases start with
      | some q => exact hstart q rfl x hx
      | none =>
        simp only [Option.getD_none] at hx
        cases inverse
        · simp only [Bool.false_eq_true, if_false] at hx; exact h.outputsOK x hx
        · simp only [if_true] at hx
          obtain ⟨g, hg, hgl, _⟩ := (h.inputsOK x).mp hx
          rw [← hgl]; exact mem_labels_of_mem hg
    obtain ⟨s', hs'⟩ := trLoop_ok h.nodup (bfs := bfs) hcl
      (2 * ((start.getD (if inverse then c.inputs else c.outputs)).length + c.gates.length
        + totalDeg c (if inverse then c.usersOf else c.opsOf)) + 2)
      ⟨start.getD (if inverse then c.inputs else c.outputs), fun _ => .unv, []⟩
      (by
        simp only [potential, unvWeight_init, totalDeg, foldl_add_eq_sum]
        have : c.labels.length = c.gates.length := by simp [Circuit.labels]
        omega) hq0
    rw [hs']
    simp only
    cases tu
    · exact ⟨_, rfl⟩
    · obtain ⟨order, ho, _⟩ := topSort_inv_spec h.toWFG
      simp only [if_true, ho]
      exact ⟨_, rfl⟩

/-- emplacing gates of `c` in an order in which operands come first (and without repetition) succeeds -/
theorem emplaceAll_ok (c : Circuit) (f : Label → Label) : ∀ (ls : List Label) (init : Circuit),
    (init.labels ++ ls).Nodup → (∀ l ∈ ls, l ∈ c.labels) →
    (∀ e1 l e2, ls = e1 ++ l :: e2 → ∀ g, c.find? l = some g → ∀ x ∈ g.ops, f x ∈ init.labels ++ e1) →
    ∃ n, emplaceAll c ls f init = .ok n := by
  intro ls
  induction ls with
  | nil => intro init _ _ _; exact ⟨init, rfl⟩
  | cons l r ih =>
    intro init hnd hl hops
    rw [emplaceAll_eq]
    simp only [List.foldl_cons]
    obtain ⟨g0, hg0, hgl0⟩ : ∃ g ∈ c.gates, g.label = l := by simpa [Circuit.labels] using hl l (by simp)
    cases hf : c.find? l with
    | none =>
      exfalso
      unfold Circuit.find? at hf
      have := List.find?_eq_none.mp hf g0 hg0
      simp [hgl0] at this
    | some g =>
      obtain ⟨hgm, hgl⟩ := find_some_mem hf
      have hnd' := List.nodup_append.mp hnd
      have hfresh : init.hasGate g.label = false := by
        cases hh : init.hasGate g.label with
        | false => rfl
        | true =>
          exfalso
          have := (hasGate_iff' init g.label).mp hh
          exact hnd'.2.2 g.label this l (by simp) hgl
      have hopsIn : ∀ o ∈ g.ops.map f, init.hasGate o = true := by
        intro o ho
        obtain ⟨x, hx, rfl⟩ := List.mem_map.mp ho
        have := hops [] l r rfl g hf x hx
        simp only [List.append_nil] at this
        exact (hasGate_iff' init _).mpr this
      have hadd : ∃ n1, init.addGate ⟨g.label, g.ty, g.ops.map f⟩ = .ok n1 := by
        unfold addGate checkGatesExist
        simp only [hfresh, Bool.false_eq_true, if_false]
        have : (g.ops.map f).all init.hasGate = true := List.all_eq_true.mpr hopsIn
        simp [this]
      obtain ⟨n1, hn1⟩ := hadd
      have hstep : emplaceStep c f (.ok init) l = .ok n1 := by
        unfold emplaceStep; simp only [hf]; exact hn1
      rw [hstep]
      obtain ⟨_, _, hg1, _⟩ := addGate_fields hn1
      have hlab1 : n1.labels = init.labels ++ [l] := by
        unfold Circuit.labels; rw [hg1]; simp [hgl]
      have := ih n1 (by rw [hlab1]; simpa using hnd) (fun x hx => hl x (by simp [hx])) (by
        intro e1 x e2 hr gx hfx y hy
        have := hops (l :: e1) x e2 (by rw [hr]; rfl) gx hfx y hy
        rw [hlab1]; simpa using this)
      rw [emplaceAll_eq] at this
      exact this

theorem addInputs_ok : ∀ (ls : List Label) (n : Circuit), (n.labels ++ ls).Nodup → ∃ n', n.addInputs ls = .ok n' := by
  intro ls
  induction ls with
  | nil => intro n _; exact ⟨n, rfl⟩
  | cons i r ih =>
    intro n hnd
    have hnd' := List.nodup_append.mp hnd
    have hfresh : n.hasGate i = false := by
      cases hh : n.hasGate i with
      | false => rfl
      | true => exact absurd rfl (hnd'.2.2 i ((hasGate_iff' n i).mp hh) i (by simp))
    have hadd : ∃ n1, n.addGate ⟨i, INPUT, []⟩ = .ok n1 := by
      unfold addGate checkGatesExist
      simp [hfresh]
    obtain ⟨n1, hn1⟩ := hadd
    obtain ⟨_, _, hg1, _⟩ := addGate_fields hn1
    have hlab1 : n1.labels = n.labels ++ [i] := by unfold Circuit.labels; rw [hg1]; simp
    obtain ⟨n', hn'⟩ := ih n1 (by rw [hlab1]; simpa using hnd)
    exact ⟨n', by simp only [addInputs, hn1, hn']⟩

theorem setOutputs_ok {n : Circuit} {outs : List Label} (h : ∀ o ∈ outs, o ∈ n.labels) :
    ∃ n', n.setOutputs outs = .ok n' := by
  unfold setOutputs checkGatesExist
  have : outs.all n.hasGate = true := List.all_eq_true.mpr (fun o ho => (hasGate_iff' n o).mpr (h o ho))
  simp [this]

theorem setInputs_go_ok (n : Circuit) (hnd : n.labels.Nodup) : ∀ (ins acc : List Label), (acc ++ ins).Nodup →
    (∀ i ∈ ins, ∃ g ∈ n.gates, g.label = i ∧ g.ty = INPUT) → ∃ new, setInputs.go n ins acc = .ok new := by
  intro ins
  induction ins with
  | nil => intro acc _ _; exact ⟨acc, rfl⟩
  | cons i r ih =>
    intro acc hn h
    obtain ⟨g, hg, hgl, hty⟩ := h i (by simp)
    have hf : n.find? i = some g := hgl ▸ find_label hnd hg
    have hni : acc.contains i = false := by
      cases hc : acc.contains i with
      | false => rfl
      | true =>
        exfalso
        have := (List.nodup_append.mp hn).2.2 i (by simpa using hc) i (by simp)
        exact this rfl
    unfold setInputs.go
    simp only [hf, hty, hni]
    simp only [bne_self_eq_false, Bool.or_self, Bool.false_eq_true, if_false]
    exact ih (acc ++ [i]) (by simpa using hn) (fun x hx => h x (by simp [hx]))

theorem setInputs_ok {n : Circuit} (hnd : n.labels.Nodup) {ins : List Label} (hins : ins.Nodup)
    (h1 : ∀ i ∈ ins, ∃ g ∈ n.gates, g.label = i ∧ g.ty = INPUT)
    (h2 : ∀ g ∈ n.gates, g.ty = INPUT → g.label ∈ ins) : ∃ n', n.setInputs ins = .ok n' := by
  unfold setInputs checkGatesExist
  have hall : ins.all n.hasGate = true := by
    apply List.all_eq_true.mpr
    intro i hi
    obtain ⟨g, hg, hgl, _⟩ := h1 i hi
    exact (hasGate_iff' n i).mpr (hgl ▸ mem_labels_of_mem hg)
  simp only [hall, if_true]
  have hany : n.gates.any (fun g => g.ty == INPUT && !ins.contains g.label) = false := by
    apply List.any_eq_false.mpr
    intro g hg
    by_cases ht : g.ty = INPUT
    · simp [ht, h2 g hg ht]
    · simp [ht]
  simp only [hany, Bool.false_eq_true, if_false]
  obtain ⟨new, hnew⟩ := setInputs_go_ok n hnd ins [] (by simpa using hins) h1
  rw [hnew]
  exact ⟨_, rfl⟩

theorem reach_labels {c : Circuit} (hw : WFS c) {start : List Label} (hs : ∀ o ∈ start, o ∈ c.labels) {l : Label}
    (h : Reach c.opsOf start l) : l ∈ c.labels := by
  induction h with
  | base hm => exact hs _ hm
  | @step u l' _ hm ih =>
    obtain ⟨g, hg, hgl⟩ : ∃ g ∈ c.gates, g.label = u := by simpa [Circuit.labels] using ih
    rw [← hgl, opsOf_gate hw.nodup hg] at hm
    exact hw.closed g hg l' hm

/-- **`RemoveRedundantGates` returns** on every well-formed circuit, with and without input removal -/
theorem rrg_total {allow : Bool} {c : Circuit} (hw : WFS c) : ∃ c', rrg allow c = .ok c' := by
  obtain ⟨log, hlog⟩ := traverse_ok_wfs hw false false (some c.outputs)
    (fun q hq x hx => by cases hq; exact hw.outputsOK x hx) false
  -- what the exit list looks like
  have hE : (exits log).Nodup ∧ (∀ l ∈ exits log, l ∈ c.labels) ∧
      (∀ e1 l e2, exits log = e1 ++ l :: e2 → ∀ x ∈ c.opsOf l, x ∈ e1) ∧ (∀ o ∈ c.outputs, o ∈ exits log) := by
    by_cases hne : c.gates = []
    · have : log = [] := by
        unfold traverse at hlog
        simp only [hne, List.isEmpty_nil, if_true, Except.ok.injEq] at hlog
        exact hlog.symm
      subst this
      refine ⟨by simp [exits], by intro l hl; simp [exits] at hl, by intro e1 l e2 he; simp [exits] at he, ?_⟩
      intro o ho
      have := hw.outputsOK o ho
      simp [Circuit.labels, hne] at this
    · obtain ⟨h1, h2, _⟩ := dfs_exits_exact false (some c.outputs) false false hne hlog
      simp only [Bool.false_eq_true, if_false, Option.getD_some] at h2
      exact ⟨h1, fun l hl => reach_labels hw hw.outputsOK ((h2 l).mp hl),
        dfs_operands_first hw.nodup hw.rank (some c.outputs) false false hlog,
        fun o ho => (h2 o).mpr (.base ho)⟩
  obtain ⟨hEnd, hElab, hEpost, hEout⟩ := hE
  obtain ⟨n1, hn1⟩ := emplaceAll_ok c id (exits log) Circuit.empty
    (by simpa [Circuit.labels, Circuit.empty] using hEnd) hElab
    (by
      intro e1 l e2 he g hf x hx
      simp only [Circuit.labels, Circuit.empty, List.map_nil, List.nil_append, id]
      have : c.opsOf l = g.ops := by simp [Circuit.opsOf, hf]
      exact hEpost e1 l e2 he x (this ▸ hx))
  obtain ⟨gs, g1, g2, g3, _, _, g6⟩ := emplaceAll_id_spec c _ _ _ hn1
  simp only [Circuit.empty, List.nil_append] at g1 g6
  have hlab1 : n1.labels = exits log := by unfold Circuit.labels; rw [g1]; exact g2
  -- the missing inputs
  have hmiss : ∃ n2 missing, (if allow then Except.ok n1 else n1.addInputs (c.inputs.filter (fun i => !n1.hasGate i))) = .ok n2 ∧
      n2.gates = gs ++ missing.map (fun i => (⟨i, INPUT, []⟩ : Gate)) ∧ n2.inputs = n1.inputs ++ missing ∧
      (∀ i ∈ missing, i ∈ c.inputs ∧ i ∉ n1.labels) ∧ missing.Nodup := by
    cases allow
    · have hnd : (n1.labels ++ c.inputs.filter (fun i => !n1.hasGate i)).Nodup := by
        refine List.nodup_append.mpr ⟨hlab1 ▸ hEnd, hw.inputsNodup.sublist List.filter_sublist, ?_⟩
        intro a ha b hb e
        subst e
        have := (List.mem_filter.mp hb).2
        rw [(hasGate_iff' n1 a).mpr ha] at this
        cases this
      obtain ⟨n2, hn2⟩ := addInputs_ok _ n1 hnd
      obtain ⟨a1, a2, _⟩ := addInputs_spec _ _ _ hn2
      refine ⟨n2, _, by simpa using hn2, by rw [a1, g1], a2, ?_, hw.inputsNodup.sublist List.filter_sublist⟩
      intro i hi
      obtain ⟨h1, h2⟩ := List.mem_filter.mp hi
      refine ⟨h1, fun hm => ?_⟩
      rw [(hasGate_iff' n1 i).mpr hm] at h2; cases h2
    · exact ⟨n1, [], rfl, by simp [g1], by simp, (by intro i hi; cases hi), by simp⟩
  obtain ⟨n2, missing, hn2, hg2, hi2, hmissP, hmissND⟩ := hmiss
  have hlab2 : n2.labels = exits log ++ missing := by
    unfold Circuit.labels; rw [hg2]
    simp only [List.map_append, g2, List.map_map]
    congr 1
    exact map_label_inputGates missing
  have hnd2 : n2.labels.Nodup := by
    rw [hlab2]
    refine List.nodup_append.mpr ⟨hEnd, hmissND, ?_⟩
    intro a ha b hb e
    subst e
    exact (hmissP a hb).2 (hlab1 ▸ ha)
  -- the input gates of n2
  have hInGate : ∀ i ∈ n2.inputs, ∃ g ∈ n2.gates, g.label = i ∧ g.ty = INPUT := by
    intro i hi
    rw [hi2, g6] at hi
    rcases List.mem_append.mp hi with hi | hi
    · obtain ⟨g, hg, rfl⟩ := List.mem_map.mp hi
      obtain ⟨hgm, hty⟩ := List.mem_filter.mp hg
      exact ⟨g, by rw [hg2]; simp [hgm], rfl, by simpa using hty⟩
    · exact ⟨⟨i, INPUT, []⟩, by rw [hg2]; simp [hi], rfl, rfl⟩
  have hGateIn : ∀ g ∈ n2.gates, g.ty = INPUT → g.label ∈ c.inputs ∧ g.label ∈ n2.inputs := by
    intro g hg hty
    rw [hg2] at hg
    rcases List.mem_append.mp hg with hg | hg
    · refine ⟨(hw.inputsOK g.label).mpr ⟨g, g3 g hg, rfl, hty⟩, ?_⟩
      rw [hi2, g6]
      exact List.mem_append_left _ (List.mem_map.mpr ⟨g, List.mem_filter.mpr ⟨hg, by simp [hty]⟩, rfl⟩)
    · obtain ⟨i, hi, rfl⟩ := List.mem_map.mp hg
      exact ⟨(hmissP i hi).1, by rw [hi2]; simp [hi]⟩
  obtain ⟨n3, hn3⟩ := setInputs_ok hnd2 (ins := c.inputs.filter (fun i => n2.inputs.contains i))
    (hw.inputsNodup.sublist List.filter_sublist)
    (by
      intro i hi
      have := (List.mem_filter.mp hi).2
      exact hInGate i (by simpa using this))
    (by
      intro g hg hty
      obtain ⟨h1, h2⟩ := hGateIn g hg hty
      exact List.mem_filter.mpr ⟨h1, by simpa using h2⟩)
  have hlab3 : n3.labels = n2.labels := by unfold Circuit.labels; rw [setInputs_gates hn3]
  obtain ⟨c', hc'⟩ := setOutputs_ok (n := n3) (outs := c.outputs) (by
    intro o ho
    rw [hlab3, hlab2]
    exact List.mem_append_left _ (hEout o ho))
  refine ⟨c', ?_⟩
  unfold rrg
  rw [hlog]
  simp only [hookLabels_false, hn1, hn2, hn3]
  exact hc'

/-! ## the full hook order used by the merging passes: exits, then the unreached gates topologically -/

def NoUnv (log : List Ev) : Prop := ∀ e ∈ log, ∀ l, e ≠ Ev.unvisited l

theorem trStep_nounv {c : Circuit} {bfs ab : Bool} {next : Label → List Label} {s s' : TrSt}
    (inv : NoUnv s.log) (hs : trStep c bfs ab next s = .next s') : NoUnv s'.log := by
  unfold trStep at hs
  cases hh : (if bfs then s.queue.head? else s.queue.getLast?) with
  | none => simp [hh] at hs
  | some cur =>
    simp only [hh] at hs
    split at hs
    · cases hs
    · cases hst : s.st cur with
      | unv =>
        simp only [hst] at hs
        split at hs
        · cases hs
        · have key : NoUnv (s.log ++ ([Ev.enter cur] ++ (next cur).map (fun x => Ev.discover x (setSt s.st cur .ent x)) ++ [Ev.yield cur])) := by
            intro e he l
            simp only [List.mem_append, List.mem_singleton, List.mem_map] at he
            rcases he with he | ((he | ⟨x, _, he⟩) | he)
            · exact inv e he l
            · subst he; simp
            · subst he; simp
            · subst he; simp
          cases bfs
          · simp only [Bool.false_eq_true, if_false, StepRes.next.injEq] at hs; subst hs; exact key
          · simp only [if_true, StepRes.next.injEq] at hs; subst hs; exact key
      | ent =>
        simp only [hst, StepRes.next.injEq] at hs
        subst hs
        intro e he l
        simp only [List.mem_append, List.mem_singleton] at he
        rcases he with he | he
        · exact inv e he l
        · subst he; simp
      | vis =>
        simp only [hst, StepRes.next.injEq] at hs
        subst hs; exact inv

theorem trLoop_nounv {c : Circuit} {bfs ab : Bool} {next : Label → List Label} :
    ∀ fuel (s s' : TrSt), NoUnv s.log → trLoop c bfs ab next fuel s = .ok s' → NoUnv s'.log
  | 0, s, s', _, h => by simp [trLoop] at h
  | fuel+1, s, s', inv, h => by
    unfold trLoop at h
    cases hs : trStep c bfs ab next s with
    | finished => simp only [hs, Except.ok.injEq] at h; subst h; exact inv
    | error e => simp [hs] at h
    | next s1 => simp only [hs] at h; exact trLoop_nounv fuel s1 s' (trStep_nounv inv hs) h

theorem hookLabels_append (a b : List Ev) (w : Bool) : hookLabels (a ++ b) w = hookLabels a w ++ hookLabels b w := by
  simp [hookLabels, List.filterMap_append]

theorem hookLabels_nounv {log : List Ev} (h : NoUnv log) : hookLabels log true = exits log := by
  induction log with
  | nil => rfl
  | cons e t ih =>
    have ht : NoUnv t := fun x hx l => h x (by simp [hx]) l
    have he := h e (by simp)
    have := ih ht
    unfold hookLabels exits at this ⊢
    simp only [List.filterMap_cons]
    cases e with
    | unvisited l => exact absurd rfl (he l)
    | exit l => simp only; exact congrArg (l :: ·) this
    | enter l => simp only; exact this
    | discover l st => simp only; exact this
    | yield l => simp only; exact this
    | done => simp only; exact this

theorem hookLabels_unv (ls : List Label) : hookLabels (ls.map Ev.unvisited) true = ls := by
  induction ls with
  | nil => rfl
  | cons l t ih => simp only [List.map_cons, hookLabels, List.filterMap_cons, if_true] at ih ⊢; rw [ih]

theorem unvisiteds_nounv {log : List Ev} (h : NoUnv log) : unvisiteds log = [] := by
  unfold unvisiteds
  apply List.filterMap_eq_nil_iff.mpr
  intro e he
  cases e with
  | unvisited l => exact absurd rfl (h _ he l)
  | _ => rfl

/-- the hooks of a traversal with `unvisited_hook`: first the exits, then the unvisited gates -/
theorem hookLabels_true_eq {c : Circuit} {bfs inverse : Bool} {start : Option (List Label)} {tsu ab : Bool}
    {log : List Ev} (h : traverse c bfs inverse start tsu ab = .ok log) :
    hookLabels log true = exits log ++ unvisiteds log := by
  unfold traverse at h
  split at h
  · simp only [Except.ok.injEq] at h; subst h; rfl
  · simp only at h
    split at h
    · cases h
    · rename_i s hl
      have hn := trLoop_nounv _ _ _ (by intro e he; cases he) hl
      have key : ∀ (L : List Label) (lg : List Ev), lg = s.log ++ L.map Ev.unvisited ++ [Ev.done] →
          hookLabels lg true = exits lg ++ unvisiteds lg := by
        intro L lg hlg
        subst hlg
        rw [exits_tail, hookLabels_append, hookLabels_append, hookLabels_nounv hn, hookLabels_unv,
          unvisiteds_append, unvisiteds_append, unvisiteds_nounv hn, unvisiteds_map]
        simp [hookLabels, unvisiteds]
      cases tsu
      · simp only [Bool.false_eq_true, if_false, Except.ok.injEq] at h
        exact key _ log h.symm
      · simp only [if_true] at h
        split at h
        · cases h
        · simp only [Except.ok.injEq] at h
          exact key _ log h.symm

theorem split_unique_of_nodup {α} {L a b a' b' : List α} {l : α} (hnd : L.Nodup) (h1 : L = a ++ l :: b)
    (h2 : L = a' ++ l :: b') : a = a' ∧ b = b' := by
  have n1 : l ∉ b := by
    rw [h1] at hnd
    have := (List.nodup_append.mp hnd).2.1
    exact (List.nodup_cons.mp this).1
  have n2 : l ∉ b' := by
    rw [h2] at hnd
    have := (List.nodup_append.mp hnd).2.1
    exact (List.nodup_cons.mp this).1
  exact last_occ_unique (h1.symm.trans h2) n1 n2

/-- **the order in which the merging passes rebuild a circuit**: every gate exactly once, each after
all of its operands (reachable gates in DFS post-order, then the others in topological order) -/
theorem full_order {c : Circuit} (hw : WFS c) {log : List Ev}
    (h : traverse c false false (some c.outputs) true = .ok log) :
    (hookLabels log true).Nodup ∧ (∀ l, l ∈ hookLabels log true ↔ l ∈ c.labels) ∧
    ∀ e1 l e2, hookLabels log true = e1 ++ l :: e2 → ∀ x ∈ c.opsOf l, x ∈ e1 := by
  by_cases hne : c.gates = []
  · have : log = [] := by
      unfold traverse at h
      simp only [hne, List.isEmpty_nil, if_true, Except.ok.injEq] at h
      exact h.symm
    subst this
    refine ⟨by simp [hookLabels], ?_, by intro e1 l e2 he; simp [hookLabels] at he⟩
    intro l; simp [hookLabels, Circuit.labels, hne]
  · obtain ⟨hEnd, hEreach, _⟩ := dfs_exits_exact false (some c.outputs) true false hne h
    obtain ⟨_, _, order, hts, unreached, hunr, hU⟩ := traverse_reach_exact false false (some c.outputs) true false hne h
    simp only [Bool.false_eq_true, if_false, Option.getD_some, if_true] at hEreach hunr hts
    have hpost := dfs_operands_first hw.nodup hw.rank (some c.outputs) true false h
    obtain ⟨order', ho', hperm, hbefore⟩ := topSort_inv_spec hw.toWFG
    rw [hts] at ho'; cases ho'
    have hondp : order.Nodup := hperm.nodup_iff.mpr hw.nodup
    have hL := hookLabels_true_eq h
    have hUnd : (unvisiteds log).Nodup := by rw [hU]; exact hondp.filter _
    have hdisj : ∀ a ∈ exits log, ∀ b ∈ unvisiteds log, a ≠ b := by
      intro a ha b hb e
      subst e
      rw [hU] at hb
      have := (List.mem_filter.mp hb).2
      exact (hunr a).mp this ((hEreach a).mp ha)
    have hLnd : (hookLabels log true).Nodup := by
      rw [hL]; exact List.nodup_append.mpr ⟨hEnd, hUnd, hdisj⟩
    have hmem : ∀ l, l ∈ hookLabels log true ↔ l ∈ c.labels := by
      intro l
      rw [hL, List.mem_append, hU, List.mem_filter]
      constructor
      · rintro (hl | ⟨hl, _⟩)
        · exact reach_labels hw hw.outputsOK ((hEreach l).mp hl)
        · exact hperm.mem_iff.mp hl
      · intro hl
        by_cases hr : Reach c.opsOf c.outputs l
        · exact Or.inl ((hEreach l).mpr hr)
        · exact Or.inr ⟨hperm.mem_iff.mpr hl, (hunr l).mpr hr⟩
    refine ⟨hLnd, hmem, ?_⟩
    -- it is enough to exhibit one split per gate
    have hex : ∀ l ∈ hookLabels log true, ∃ e1 e2, hookLabels log true = e1 ++ l :: e2 ∧ ∀ x ∈ c.opsOf l, x ∈ e1 := by
      intro l hl
      rw [hL] at hl
      rcases List.mem_append.mp hl with hl | hl
      · obtain ⟨a, b, hab⟩ := List.append_of_mem hl
        exact ⟨a, b ++ unvisiteds log, by rw [hL, hab]; simp, hpost a l b hab⟩
      · obtain ⟨a, b, hab⟩ := List.append_of_mem hl
        refine ⟨exits log ++ a, b, by rw [hL, hab]; simp, ?_⟩
        intro x hx
        by_cases hr : Reach c.opsOf c.outputs x
        · exact List.mem_append_left _ ((hEreach x).mpr hr)
        · apply List.mem_append_right
          -- `x` precedes `l` in the topological order and is unreached as well
          have hlo : l ∈ order := by rw [hU] at hl; exact (List.mem_filter.mp hl).1
          obtain ⟨pre, post, hpp⟩ := List.append_of_mem hlo
          have hlu : unreached l = true := by rw [hU] at hl; exact (List.mem_filter.mp hl).2
          have hfil : unvisiteds log = pre.filter unreached ++ l :: post.filter unreached := by
            rw [hU, hpp, List.filter_append, List.filter_cons, hlu]; rfl
          obtain ⟨ea, _⟩ := split_unique_of_nodup hUnd hab hfil
          rw [ea]
          obtain ⟨g, hg, hgl⟩ : ∃ g ∈ c.gates, g.label = l := by
            simpa [Circuit.labels] using hperm.mem_iff.mp hlo
          have hxo : x ∈ g.ops := by rw [← hgl, opsOf_gate hw.nodup hg] at hx; exact hx
          exact List.mem_filter.mpr ⟨hbefore pre l post hpp g hg hgl x hxo, (hunr x).mpr hr⟩
    intro e1 l e2 he x hx
    obtain ⟨a, b, hab, hops⟩ := hex l (by rw [he]; simp)
    obtain ⟨ea, _⟩ := split_unique_of_nodup hLnd he hab
    rw [ea]; exact hops x hx

/-! ## MergeDuplicateGates returns -/

theorem mapR_ok {α β} (f : α → R β) : ∀ (l : List α), (∀ x ∈ l, ∃ y, f x = .ok y) → ∃ ys, mapR f l = .ok ys := by
  intro l
  induction l with
  | nil => intro _; exact ⟨[], rfl⟩
  | cons x t ih =>
    intro h
    obtain ⟨y, hy⟩ := h x (by simp)
    obtain ⟨ys, hys⟩ := ih (fun z hz => h z (by simp [hz]))
    exact ⟨y :: ys, by simp [mapR, hy, hys]⟩

theorem mdgNewName_ok {st : MdgSt} {o : Label} (h : o ∈ st.n.labels) : ∃ d, mdgNewName st o = .ok d := by
  unfold mdgNewName
  cases hf : st.n.find? o with
  | none =>
    exfalso
    obtain ⟨g, hg, hgl⟩ : ∃ g ∈ st.n.gates, g.label = o := by simpa [Circuit.labels] using h
    unfold Circuit.find? at hf
    have := List.find?_eq_none.mp hf g hg
    simp [hgl] at this
  | some g =>
    simp only
    split <;> exact ⟨_, rfl⟩

/-- the rebuild loop of MergeDuplicateGates succeeds on any list in which operands come first -/
theorem mdgFold_ok {c : Circuit} (hw : WFS c) : ∀ (ls : List Label) (st : MdgSt),
    SInv st.n.gates st.sigs → (st.n.labels ++ ls).Nodup → (∀ l ∈ ls, l ∈ c.labels) →
    (∀ e1 l e2, ls = e1 ++ l :: e2 → ∀ x ∈ c.opsOf l, x ∈ st.n.labels ++ e1) →
    ∃ st', ls.foldl (mdgStep c) (.ok st) = .ok st' ∧ st'.n.labels = st.n.labels ++ ls := by
  intro ls
  induction ls with
  | nil => intro st _ _ _ _; exact ⟨st, rfl, by simp⟩
  | cons l r ih =>
    intro st inv hnd hl hops
    simp only [List.foldl_cons]
    obtain ⟨g, hg, hgl⟩ : ∃ g ∈ c.gates, g.label = l := by simpa [Circuit.labels] using hl l (by simp)
    have hf : c.find? l = some g := hgl ▸ find_label hw.nodup hg
    have hnd' := List.nodup_append.mp hnd
    have hfreshL : l ∉ st.n.labels := fun hm => hnd'.2.2 l hm l (by simp) rfl
    have hstep : ∃ st1, mdgStep c (.ok st) l = .ok st1 ∧ st1.n.labels = st.n.labels ++ [l] := by
      unfold mdgStep
      simp only [hf]
      by_cases ht : g.ty = INPUT
      · simp only [ht, if_true]
        obtain ⟨n', hn'⟩ := addInputs_ok [g.label] st.n (by
          refine List.nodup_append.mpr ⟨hnd'.1, by simp, ?_⟩
          intro a ha b hb e
          simp only [List.mem_singleton] at hb
          subst hb; subst e
          exact hfreshL (hgl ▸ ha))
        rw [hn']
        obtain ⟨a1, _, _⟩ := addInputs_spec _ _ _ hn'
        refine ⟨_, rfl, ?_⟩
        simp only [Circuit.labels, a1, List.map_append, List.map_cons, List.map_nil, hgl]
      · simp only [ht, if_false]
        have hopsIn : ∀ o ∈ g.ops, o ∈ st.n.labels := by
          intro o ho
          have := hops [] l r rfl o (by rw [← hgl, opsOf_gate hw.nodup hg]; exact ho)
          simpa using this
        obtain ⟨ops, hops'⟩ := mapR_ok (mdgNewName st) g.ops (fun o ho => mdgNewName_ok (hopsIn o ho))
        rw [hops']
        simp only
        have hcan := mapR_canon inv _ _ hops'
        have hfresh : st.n.hasGate g.label = false := by
          cases hh : st.n.hasGate g.label with
          | false => rfl
          | true => exact absurd ((hasGate_iff' _ _).mp hh) (hgl ▸ hfreshL)
        have hall : ops.all st.n.hasGate = true :=
          List.all_eq_true.mpr (fun d hd => (hasGate_iff' _ _).mpr (by
            have := (hcan d hd).1
            simpa [Circuit.labels] using this))
        have hadd : ∃ n', st.n.addGate ⟨g.label, g.ty, ops⟩ = .ok n' := by
          unfold addGate checkGatesExist
          simp [hfresh, hall]
        obtain ⟨n', hn'⟩ := hadd
        rw [hn']
        obtain ⟨_, _, hg1, _⟩ := addGate_fields hn'
        refine ⟨_, rfl, ?_⟩
        simp only [Circuit.labels, hg1, List.map_append, List.map_cons, List.map_nil, hgl]
    obtain ⟨st1, hs1, hlab1⟩ := hstep
    rw [hs1]
    obtain ⟨st', hst', hlab'⟩ := ih st1 (mdgStep_sinv inv hs1) (by rw [hlab1]; simpa using hnd)
      (fun x hx => hl x (by simp [hx])) (by
        intro e1 x e2 hr y hy
        have := hops (l :: e1) x e2 (by rw [hr]; rfl) y hy
        rw [hlab1]; simpa using this)
    exact ⟨st', hst', by rw [hlab', hlab1]; simp⟩

/-- **`MergeDuplicateGates` returns** on every well-formed circuit -/
theorem mdg_total {c : Circuit} (hw : WFS c) : ∃ c', mdg c = .ok c' := by
  obtain ⟨log, hlog⟩ := traverse_ok_wfs hw false false (some c.outputs)
    (fun q hq x hx => by cases hq; exact hw.outputsOK x hx) true
  obtain ⟨hLnd, hLmem, hLord⟩ := full_order hw hlog
  have inv0 : SInv (Circuit.empty).gates ([] : Sigs) :=
    ⟨by simp [Circuit.empty], by intro g hg; simp [Circuit.empty] at hg, by intro s d h; simp at h,
     by intro g hg; simp [Circuit.empty] at hg⟩
  obtain ⟨st, hst, hlab⟩ := mdgFold_ok hw (hookLabels log true) ⟨Circuit.empty, []⟩ inv0
    (by simpa [Circuit.labels, Circuit.empty] using hLnd) (fun l hl => (hLmem l).mp hl)
    (by intro e1 l e2 he x hx; simpa [Circuit.labels, Circuit.empty] using hLord e1 l e2 he x hx)
  simp only [Circuit.labels, Circuit.empty, List.map_nil, List.nil_append] at hlab
  have hlabm : ∀ l, l ∈ st.n.labels ↔ l ∈ c.labels := by
    intro l; unfold Circuit.labels; rw [hlab]; exact hLmem l
  obtain ⟨w1, sh1⟩ := mdgFold_wfs hw.inputOps _ _ _ ⟨wfs_empty, by intro g hg; simp [Circuit.empty] at hg⟩ hst
  -- inputs
  obtain ⟨n2, hn2⟩ := setInputs_ok w1.nodup (ins := c.inputs) hw.inputsNodup
    (by
      intro i hi
      obtain ⟨g, hg, hgl, hty⟩ := (hw.inputsOK i).mp hi
      obtain ⟨g', hg', hgl'⟩ : ∃ g' ∈ st.n.gates, g'.label = i := by
        have := (hlabm i).mpr (hgl ▸ mem_labels_of_mem hg)
        simpa [Circuit.labels] using this
      obtain ⟨g0, hg0, e1, e2, _⟩ := sh1 g' hg'
      have : g0 = g := by
        have h1 := find_label hw.nodup hg0
        have h2 := find_label hw.nodup hg
        rw [← e1, hgl', ← hgl] at h1
        rw [h1] at h2; exact Option.some.inj h2
      subst this
      exact ⟨g', hg', hgl', e2.trans hty⟩)
    (by
      intro g' hg' hty'
      obtain ⟨g0, hg0, e1, e2, _⟩ := sh1 g' hg'
      rw [e1]
      exact (hw.inputsOK g0.label).mpr ⟨g0, hg0, rfl, e2 ▸ hty'⟩)
  have hg2 : n2.gates = st.n.gates := setInputs_gates hn2
  have inv := mdgFold_sinv (c := c) _ ⟨Circuit.empty, []⟩ st inv0 hst
  have inv2 : SInv (MdgSt.mk n2 st.sigs).n.gates (MdgSt.mk n2 st.sigs).sigs := by simp only; rw [hg2]; exact inv
  obtain ⟨outs, houts⟩ := mapR_ok (mdgNewName ⟨n2, st.sigs⟩) c.outputs (fun o ho => mdgNewName_ok (by
    show o ∈ n2.labels
    unfold Circuit.labels; rw [hg2]
    exact (hlabm o).mpr (hw.outputsOK o ho)))
  have hcan := mapR_canon inv2 _ _ houts
  obtain ⟨c', hc'⟩ := setOutputs_ok (n := n2) (outs := outs) (fun o ho => by
    have := (hcan o ho).1
    simpa [Circuit.labels] using this)
  refine ⟨c', ?_⟩
  unfold mdg
  rw [hlog]
  simp only [hst, hn2, houts]
  exact hc'

/-! ## MergeEquivalentGates returns -/

theorem mapM_except_ok {α β} (f : α → Except String β) : ∀ (l : List α), (∀ x ∈ l, ∃ y, f x = .ok y) →
    ∃ ys, l.mapM f = .ok ys := by
  intro l
  induction l with
  | nil => intro _; exact ⟨[], rfl⟩
  | cons x t ih =>
    intro h
    obtain ⟨y, hy⟩ := h x (by simp)
    obtain ⟨ys, hys⟩ := ih (fun z hz => h z (by simp [hz]))
    refine ⟨y :: ys, ?_⟩
    rw [List.mapM_cons, hy, hys]; rfl

theorem gatesTruthTable_ok {c : Circuit} (hu : WFU c) : ∃ gtt, gatesTruthTable c = .ok gtt := by
  unfold gatesTruthTable
  simp only [bind, Except.bind]
  obtain ⟨fulls, hf⟩ := mapM_except_ok (fun bs => evalFull c ((c.inputs.zip (bs.map V3.ofBool)).foldl (fun d p => d.set p.1 p.2) []))
    (allInputs c.inputs.length) (fun bs _ => by
      obtain ⟨d, hd, _⟩ := evalFull_spec hu ((c.inputs.zip (bs.map V3.ofBool)).foldl (fun d p => d.set p.1 p.2) [])
      exact ⟨d, hd⟩)
  rw [hf]
  exact ⟨_, rfl⟩

theorem megGroups_ok {c : Circuit} (hu : WFU c) : ∃ groups, megGroups c = .ok groups := by
  obtain ⟨gtt, hg⟩ := gatesTruthTable_ok hu
  unfold megGroups
  rw [hg]
  exact ⟨_, rfl⟩

theorem megName_labels {groups : Dict Nat} {keep : Keep} {L : List Label} (hk : ∀ p ∈ keep, p.2 ∈ L) {l : Label}
    (hl : l ∈ L) : (megName groups keep l).1 ∈ L ∧ ∀ p ∈ (megName groups keep l).2, p.2 ∈ L := by
  unfold megName
  cases hg : groups.get? l with
  | none => exact ⟨hl, hk⟩
  | some gid =>
    simp only
    cases hlk : keep.lookup gid with
    | some r => exact ⟨hk (gid, r) (lookup_mem hlk), hk⟩
    | none =>
      refine ⟨hl, ?_⟩
      intro p hp
      rcases List.mem_append.mp hp with hp | hp
      · exact hk p hp
      · simp only [List.mem_singleton] at hp; subst hp; exact hl

theorem megNames_labels {groups : Dict Nat} {L : List Label} : ∀ (ls : List Label) (keep : Keep),
    (∀ p ∈ keep, p.2 ∈ L) → (∀ l ∈ ls, l ∈ L) →
    (∀ x ∈ (megNames groups keep ls).1, x ∈ L) ∧ ∀ p ∈ (megNames groups keep ls).2, p.2 ∈ L := by
  intro ls
  induction ls with
  | nil => intro keep hk _; exact ⟨(by intro x hx; cases hx), hk⟩
  | cons l r ih =>
    intro keep hk hl
    obtain ⟨a1, a2⟩ := megName_labels (groups := groups) hk (hl l (by simp))
    obtain ⟨b1, b2⟩ := ih (megName groups keep l).2 a2 (fun x hx => hl x (by simp [hx]))
    simp only [megNames]
    refine ⟨?_, b2⟩
    intro x hx
    rcases List.mem_cons.mp hx with rfl | hx
    · exact a1
    · exact b1 x hx

theorem megFold_ok {c : Circuit} (hw : WFS c) (groups : Dict Nat) : ∀ (ls : List Label) (st : Circuit × Keep),
    (∀ p ∈ st.2, p.2 ∈ st.1.labels) → (st.1.labels ++ ls).Nodup → (∀ l ∈ ls, l ∈ c.labels) →
    (∀ e1 l e2, ls = e1 ++ l :: e2 → ∀ x ∈ c.opsOf l, x ∈ st.1.labels ++ e1) →
    (∀ g' ∈ st.1.gates, ∃ g ∈ c.gates, g'.label = g.label ∧ g'.ty = g.ty) →
    ∃ st', ls.foldl (megStep c groups) (.ok st) = .ok st' ∧ st'.1.labels = st.1.labels ++ ls ∧
      (∀ p ∈ st'.2, p.2 ∈ st'.1.labels) ∧ (∀ g' ∈ st'.1.gates, ∃ g ∈ c.gates, g'.label = g.label ∧ g'.ty = g.ty) := by
  intro ls
  induction ls with
  | nil => intro st hk _ _ _ hsh; exact ⟨st, rfl, by simp, hk, hsh⟩
  | cons l r ih =>
    intro st hk hnd hl hops hsh
    obtain ⟨n, keep⟩ := st
    simp only [List.foldl_cons]
    obtain ⟨g, hg, hgl⟩ : ∃ g ∈ c.gates, g.label = l := by simpa [Circuit.labels] using hl l (by simp)
    have hf : c.find? l = some g := hgl ▸ find_label hw.nodup hg
    have hnd' := List.nodup_append.mp hnd
    have hfreshL : l ∉ n.labels := fun hm => hnd'.2.2 l hm l (by simp) rfl
    have hopsIn : ∀ o ∈ g.ops, o ∈ n.labels := by
      intro o ho
      have := hops [] l r rfl o (by rw [← hgl, opsOf_gate hw.nodup hg]; exact ho)
      simpa using this
    obtain ⟨hn1, hn2⟩ := megNames_labels (groups := groups) g.ops keep hk hopsIn
    have hfresh : n.hasGate g.label = false := by
      cases hh : n.hasGate g.label with
      | false => rfl
      | true => exact absurd ((hasGate_iff' _ _).mp hh) (hgl ▸ hfreshL)
    have hall : (megNames groups keep g.ops).1.all n.hasGate = true :=
      List.all_eq_true.mpr (fun d hd => (hasGate_iff' _ _).mpr (hn1 d hd))
    have hadd : ∃ n', n.addGate ⟨g.label, g.ty, (megNames groups keep g.ops).1⟩ = .ok n' := by
      unfold addGate checkGatesExist
      simp [hfresh, hall]
    obtain ⟨n', hn'⟩ := hadd
    obtain ⟨_, _, hg1, _⟩ := addGate_fields hn'
    have hlab1 : n'.labels = n.labels ++ [l] := by
      simp only [Circuit.labels, hg1, List.map_append, List.map_cons, List.map_nil, hgl]
    have hstep : megStep c groups (.ok (n, keep)) l = .ok (n', (megNames groups keep g.ops).2) := by
      unfold megStep
      simp only [hf]
      cases hm : megNames groups keep g.ops with
      | mk ops k2 =>
        rw [hm] at hn'
        simp only [hn']
    rw [hstep]
    obtain ⟨st', hst', hlab', hk', hsh'⟩ := ih (n', (megNames groups keep g.ops).2)
      (fun p hp => by rw [hlab1]; exact List.mem_append_left _ (hn2 p hp))
      (by rw [hlab1]; simpa using hnd) (fun x hx => hl x (by simp [hx]))
      (by
        intro e1 x e2 hr y hy
        have := hops (l :: e1) x e2 (by rw [hr]; rfl) y hy
        rw [hlab1]; simpa using this)
      (by
        intro g' hg'
        rw [hg1] at hg'
        rcases List.mem_append.mp hg' with hg' | hg'
        · exact hsh g' hg'
        · simp only [List.mem_singleton] at hg'; subst hg'
          exact ⟨g, hg, rfl, rfl⟩)
    exact ⟨st', hst', by rw [hlab', hlab1]; simp, hk', hsh'⟩

/-- **`MergeEquivalentGates` returns** on every well-formed circuit with accepted arities -/
theorem meg_total {c : Circuit} (hw : WFS c) (har : ArOK c) : ∃ c', meg c = .ok c' := by
  have hu := WFU.ofWFS hw har
  obtain ⟨groups, hgr⟩ := megGroups_ok hu
  obtain ⟨log, hlog⟩ := traverse_ok_wfs hw false false (some c.outputs)
    (fun q hq x hx => by cases hq; exact hw.outputsOK x hx) true
  obtain ⟨hLnd, hLmem, hLord⟩ := full_order hw hlog
  obtain ⟨st, hst, hlab, hk, hsh⟩ := megFold_ok hw groups (hookLabels log true) (Circuit.empty, [])
    (by intro p hp; cases hp) (by simpa [Circuit.labels, Circuit.empty] using hLnd) (fun l hl => (hLmem l).mp hl)
    (by intro e1 l e2 he x hx; simpa [Circuit.labels, Circuit.empty] using hLord e1 l e2 he x hx)
    (by intro g hg; simp [Circuit.empty] at hg)
  obtain ⟨n1, keep⟩ := st
  simp only [Circuit.labels, Circuit.empty, List.map_nil, List.nil_append] at hlab
  have hlabm : ∀ l, l ∈ n1.labels ↔ l ∈ c.labels := by
    intro l; unfold Circuit.labels; rw [hlab]; exact hLmem l
  have hnd1 : n1.labels.Nodup := by unfold Circuit.labels; rw [hlab]; exact hLnd
  obtain ⟨n2, hn2⟩ := setInputs_ok hnd1 (ins := c.inputs) hw.inputsNodup
    (by
      intro i hi
      obtain ⟨g, hg, hgl, hty⟩ := (hw.inputsOK i).mp hi
      obtain ⟨g', hg', hgl'⟩ : ∃ g' ∈ n1.gates, g'.label = i := by
        have := (hlabm i).mpr (hgl ▸ mem_labels_of_mem hg)
        simpa [Circuit.labels] using this
      obtain ⟨g0, hg0, e1, e2⟩ := hsh g' hg'
      have : g0 = g := by
        have h1 := find_label hw.nodup hg0
        have h2 := find_label hw.nodup hg
        rw [← e1, hgl', ← hgl] at h1
        rw [h1] at h2; exact Option.some.inj h2
      subst this
      exact ⟨g', hg', hgl', e2.trans hty⟩)
    (by
      intro g' hg' hty'
      obtain ⟨g0, hg0, e1, e2⟩ := hsh g' hg'
      rw [e1]
      exact (hw.inputsOK g0.label).mpr ⟨g0, hg0, rfl, e2 ▸ hty'⟩)
  have hlab2 : n2.labels = n1.labels := by unfold Circuit.labels; rw [setInputs_gates hn2]
  obtain ⟨o1, _⟩ := megNames_labels (groups := groups) (L := n1.labels) c.outputs keep hk
    (fun o ho => (hlabm o).mpr (hw.outputsOK o ho))
  obtain ⟨c', hc'⟩ := setOutputs_ok (n := n2) (outs := (megNames groups keep c.outputs).1)
    (fun o ho => by rw [hlab2]; exact o1 o ho)
  refine ⟨c', ?_⟩
  unfold meg
  rw [hgr]
  simp only [hlog, hst, hn2]
  exact hc'

/-! ## MergeUnaryOperators returns -/

/-- `p` is a strict transitive operand of `l` -/
inductive TOp (c : Circuit) : Label → Label → Prop
  | one {l p} : p ∈ c.opsOf l → TOp c l p
  | more {l o p} : o ∈ c.opsOf l → TOp c o p → TOp c l p

theorem unaryOperand_some {g : Gate} (hn : isNotLike g.ty = true ∨ isIffLike g.ty = true)
    (har : arityOk g.ty g.ops.length = true) : ∃ o, unaryOperand g = some o := by
  unfold unaryOperand
  obtain ⟨l, ty, ops⟩ := g
  simp only at hn har ⊢
  rcases ops with _ | ⟨a, _ | ⟨b, r⟩⟩
  · cases ty <;> simp [isNotLike, isIffLike, arityOk] at hn har
  · cases ty <;> simp [isNotLike, isIffLike, arityOk] at hn har ⊢
  · split <;> simp

structure TInvM (c : Circuit) (m : MuoMaps) : Prop where
  even : ∀ l p, Dict.get? m.even l = some p → TOp c l p
  odd : ∀ l p, Dict.get? m.odd l = some p → TOp c l p
  iff : ∀ l p, Dict.get? m.iff l = some p → TOp c l p

theorem muoStep_total {c : Circuit} (har : ArOK c) {m : MuoMaps} {l : Label} (hl : l ∈ c.labels)
    (hnd : c.labels.Nodup) (inv : TInvM c m) : ∃ m', muoStep c (.ok m) l = .ok m' ∧ TInvM c m' := by
  obtain ⟨g, hg, hgl⟩ : ∃ g ∈ c.gates, g.label = l := by simpa [Circuit.labels] using hl
  have hf : c.find? l = some g := hgl ▸ find_label hnd hg
  have hops : c.opsOf l = g.ops := by simp [Circuit.opsOf, hf]
  unfold muoStep
  simp only [hf]
  have hAr : ∀ (h : isNotLike g.ty = true ∨ isIffLike g.ty = true), arityOk g.ty g.ops.length = true := by
    intro h
    have := har g hg
    have hne : g.ty ≠ INPUT := by
      intro e; rw [e] at h; simp [isNotLike, isIffLike] at h
    simpa [hne] using this
  by_cases hn : isNotLike g.ty = true
  · simp only [hn, if_true]
    obtain ⟨o, ho⟩ := unaryOperand_some (Or.inl hn) (hAr (Or.inl hn))
    have hol : o ∈ c.opsOf l := hops ▸ unaryOperand_mem ho
    rw [ho]
    refine ⟨_, rfl, ?_, ?_, inv.iff⟩
    · intro x p hx
      cases hod : Dict.get? m.odd o with
      | none => simp only [hod] at hx; exact inv.even x p hx
      | some q =>
        simp only [hod, Dict.get?_set] at hx
        by_cases e : x = l
        · simp only [e, if_true, Option.some.injEq] at hx; subst hx
          rw [e]; exact .more hol (inv.odd o _ hod)
        · simp only [e, if_false] at hx; exact inv.even x p hx
    · intro x p hx
      simp only [Dict.get?_set] at hx
      by_cases e : x = l
      · simp only [e, if_true, Option.some.injEq] at hx; subst hx
        rw [e]
        cases hev : Dict.get? m.even o with
        | none => simpa using TOp.one hol
        | some q => simpa using TOp.more hol (inv.even o q hev)
      · simp only [e, if_false] at hx; exact inv.odd x p hx
  · simp only [hn, Bool.false_eq_true, if_false]
    by_cases hi : isIffLike g.ty = true
    · simp only [hi, if_true]
      obtain ⟨o, ho⟩ := unaryOperand_some (Or.inr hi) (hAr (Or.inr hi))
      have hol : o ∈ c.opsOf l := hops ▸ unaryOperand_mem ho
      rw [ho]
      refine ⟨_, rfl, inv.even, inv.odd, ?_⟩
      intro x p hx
      simp only [Dict.get?_set] at hx
      by_cases e : x = l
      · simp only [e, if_true, Option.some.injEq] at hx; subst hx
        rw [e]
        cases hev : Dict.get? m.iff o with
        | none => simpa using TOp.one hol
        | some q => simpa using TOp.more hol (inv.iff o q hev)
      · simp only [e, if_false] at hx; exact inv.iff x p hx
    · simp only [hi, Bool.false_eq_true, if_false]
      exact ⟨m, rfl, inv⟩

theorem muoMaps_total {c : Circuit} (har : ArOK c) (hnd : c.labels.Nodup) : ∀ (order : List Label) (m : MuoMaps),
    (∀ l ∈ order, l ∈ c.labels) → TInvM c m → ∃ m', order.foldl (muoStep c) (.ok m) = .ok m' ∧ TInvM c m' := by
  intro order
  induction order with
  | nil => intro m _ inv; exact ⟨m, rfl, inv⟩
  | cons l r ih =>
    intro m hl inv
    obtain ⟨m1, h1, inv1⟩ := muoStep_total har (hl l (by simp)) hnd inv
    simp only [List.foldl_cons, h1]
    exact ih m1 (fun x hx => hl x (by simp [hx])) inv1

/-- `x` comes before `l` in the list -/
def Before (L : List Label) (x l : Label) : Prop := ∃ e1 e2, L = e1 ++ l :: e2 ∧ x ∈ e1

theorem before_trans {L : List Label} (hnd : L.Nodup) {x y l : Label} (h1 : Before L x y) (h2 : Before L y l) :
    Before L x l := by
  obtain ⟨a, b, hab, hy⟩ := h2
  obtain ⟨a', b', hab', hx⟩ := h1
  obtain ⟨a1, a2, ha⟩ := List.append_of_mem hy
  have e : L = a1 ++ y :: (a2 ++ l :: b) := by rw [hab, ha]; simp
  obtain ⟨e1, _⟩ := split_unique_of_nodup hnd hab' e
  exact ⟨a, b, hab, by rw [ha]; exact List.mem_append_left _ (e1 ▸ hx)⟩

theorem before_of_top {c : Circuit} {L : List Label} (hnd : L.Nodup)
    (hmem : ∀ l, l ∈ L ↔ l ∈ c.labels)
    (hord : ∀ e1 l e2, L = e1 ++ l :: e2 → ∀ x ∈ c.opsOf l, x ∈ e1) {l p : Label} (h : TOp c l p) : Before L p l := by
  induction h with
  | @one l p hp =>
    have hl : l ∈ L := by
      apply (hmem l).mpr
      apply Classical.byContradiction
      intro hn
      rw [opsOf_not_mem hn] at hp; cases hp
    obtain ⟨a, b, hab⟩ := List.append_of_mem hl
    exact ⟨a, b, hab, hord a l b hab p hp⟩
  | @more l o p ho _ ih =>
    have hl : l ∈ L := by
      apply (hmem l).mpr
      apply Classical.byContradiction
      intro hn
      rw [opsOf_not_mem hn] at ho; cases ho
    obtain ⟨a, b, hab⟩ := List.append_of_mem hl
    exact before_trans hnd ih ⟨a, b, hab, hord a l b hab o ho⟩

theorem muoRemap_cases {c : Circuit} {m : MuoMaps} (inv : TInvM c m) (x : Label) :
    muoRemap c m x = x ∨ TOp c x (muoRemap c m x) := by
  unfold muoRemap
  cases hf : c.find? x with
  | none => exact Or.inl rfl
  | some g =>
    simp only
    split
    · cases he : Dict.get? m.even x with
      | none => exact Or.inl rfl
      | some p => exact Or.inr (by simpa using inv.even x p he)
    · split
      · cases he : Dict.get? m.iff x with
        | none => exact Or.inl rfl
        | some p => exact Or.inr (by simpa using inv.iff x p he)
      · exact Or.inl rfl

/-- **`MergeUnaryOperators` returns** on every well-formed circuit with accepted arities -/
theorem muo_total {c : Circuit} (hw : WFS c) (har : ArOK c) : ∃ c', muo c = .ok c' := by
  obtain ⟨order, hts, hperm, _⟩ := topSort_inv_spec hw.toWFG
  obtain ⟨m, hm, minv⟩ := muoMaps_total har hw.nodup order ⟨[], [], []⟩ (fun l hl => hperm.mem_iff.mp hl)
    ⟨by intro l p h; simp [Dict.get?] at h, by intro l p h; simp [Dict.get?] at h, by intro l p h; simp [Dict.get?] at h⟩
  obtain ⟨log, hlog⟩ := traverse_ok_wfs hw false false (some c.outputs)
    (fun q hq x hx => by cases hq; exact hw.outputsOK x hx) true
  obtain ⟨hLnd, hLmem, hLord⟩ := full_order hw hlog
  have hbef : ∀ {l p}, TOp c l p → Before (hookLabels log true) p l := before_of_top hLnd hLmem hLord
  obtain ⟨n1, hn1⟩ := emplaceAll_ok c (muoRemap c m) (hookLabels log true) Circuit.empty
    (by simpa [Circuit.labels, Circuit.empty] using hLnd) (fun l hl => (hLmem l).mp hl)
    (by
      intro e1 l e2 he g hf x hx
      simp only [Circuit.labels, Circuit.empty, List.map_nil, List.nil_append]
      have hxo : x ∈ c.opsOf l := by simp [Circuit.opsOf, hf, hx]
      have hx1 : x ∈ e1 := hLord e1 l e2 he x hxo
      rcases muoRemap_cases minv x with e | ht
      · rw [e]; exact hx1
      · obtain ⟨a1, a2, ha⟩ := List.append_of_mem hx1
        obtain ⟨b1, b2, hb, hp⟩ := hbef ht
        have e' : hookLabels log true = a1 ++ x :: (a2 ++ l :: e2) := by rw [he, ha]; simp
        obtain ⟨e1', _⟩ := split_unique_of_nodup hLnd hb e'
        rw [ha]; exact List.mem_append_left _ (e1' ▸ hp))
  obtain ⟨gs, g1, g2, g3, _, _, _⟩ := emplaceAll_spec c _ _ _ _ hn1
  simp only [Circuit.empty, List.nil_append] at g1
  have hlab1 : n1.labels = hookLabels log true := by unfold Circuit.labels; rw [g1]; exact g2
  have hlabm : ∀ l, l ∈ n1.labels ↔ l ∈ c.labels := by intro l; rw [hlab1]; exact hLmem l
  obtain ⟨n2, hn2⟩ := setInputs_ok (hlab1 ▸ hLnd) (ins := c.inputs) hw.inputsNodup
    (by
      intro i hi
      obtain ⟨g, hg, hgl, hty⟩ := (hw.inputsOK i).mp hi
      obtain ⟨g', hg', hgl'⟩ : ∃ g' ∈ n1.gates, g'.label = i := by
        have := (hlabm i).mpr (hgl ▸ mem_labels_of_mem hg)
        simpa [Circuit.labels] using this
      obtain ⟨g0, hg0, rfl⟩ := g3 g' (g1 ▸ hg')
      simp only at hgl'
      have : g0 = g := by
        have h1 := find_label hw.nodup hg0
        have h2 := find_label hw.nodup hg
        rw [hgl', ← hgl] at h1
        rw [h1] at h2; exact Option.some.inj h2
      subst this
      exact ⟨_, hg', hgl', hty⟩)
    (by
      intro g' hg' hty'
      obtain ⟨g0, hg0, rfl⟩ := g3 g' (g1 ▸ hg')
      exact (hw.inputsOK g0.label).mpr ⟨g0, hg0, rfl, hty'⟩)
  have hlab2 : n2.labels = n1.labels := by unfold Circuit.labels; rw [setInputs_gates hn2]
  obtain ⟨c', hc'⟩ := setOutputs_ok (n := n2) (outs := c.outputs.map (muoRemap c m)) (by
    intro o' ho'
    obtain ⟨o, ho, rfl⟩ := List.mem_map.mp ho'
    rw [hlab2, hlab1]
    rcases muoRemap_cases minv o with e | ht
    · rw [e]; exact (hLmem o).mpr (hw.outputsOK o ho)
    · obtain ⟨b1, b2, hb, hp⟩ := hbef ht
      rw [hb]; exact List.mem_append_left _ hp)
  refine ⟨c', ?_⟩
  unfold muo
  rw [hts]
  simp only
  rw [muoMaps_eq, hm]
  simp only [hlog, hn1, hn2]
  exact hc'

/-! ## pipelines return -/

theorem transform1_total {t : Tr} (ht : Proved t) {c : Circuit} (hw : WFS c) (har : ArOK c) :
    ∃ c', transform1 t c = .ok c' := by
  cases t with
  | rrg a => exact rrg_total hw
  | muo => exact muo_total hw har
  | mdg => exact mdg_total hw
  | meg => exact meg_total hw har
  | comp ts => exact absurd ht id

theorem runSeq_total : ∀ (ts : List Tr) {c : Circuit}, WFS c → ArOK c → (∀ t ∈ ts, Proved t) →
    ∃ c', runSeq (.ok c) ts = .ok c' := by
  intro ts
  induction ts with
  | nil => intro c _ _ _; exact ⟨c, rfl⟩
  | cons t r ih =>
    intro c hw har hts
    obtain ⟨c1, h1⟩ := transform1_total (hts t (by simp)) hw har
    have p := transform1_preserves (hts t (by simp)) hw har h1
    obtain ⟨c', hc'⟩ := ih p.wfs (p.ar har) (fun x hx => hts x (by simp [hx]))
    refine ⟨c', ?_⟩
    show runSeq (trStepR (.ok c) t) r = .ok c'
    simp only [trStepR, h1]
    exact hc'

/-- **every pipeline and cleanup returns** on a well-formed circuit with accepted arities -/
theorem pipeline_total (ts : List Tr) {c : Circuit} (hw : WFS c) (har : ArOK c) :
    ∃ c', applyTransformers c ts = .ok c' := by
  rw [applyTransformers_def]
  exact runSeq_total _ hw har (fun t ht => linearizeList_proved ts t (mem_reduceIdem _ _ _ ht))

theorem cleanup_total {c : Circuit} (heavy : Bool) (hw : WFS c) (har : ArOK c) : ∃ c', cleanup c heavy = .ok c' := by
  unfold cleanup
  exact pipeline_total _ hw har

end Cirbo
