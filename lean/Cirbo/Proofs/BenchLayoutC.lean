import Cirbo.Proofs.BenchLayoutB
/-!
# Bench lines in any layout — part C: every accepted line form as a statement (`LineSem`)
-/
namespace Cirbo
open GateType

theorem Sp.no_nl {s : Str} (h : Sp s) : '\n' ∉ s := by
  intro hm; have := h _ hm; revert this; decide

def gateLine (sp0 lab sp1 sp2 kw sp3 A T : Str) : Str :=
  sp0 ++ lab ++ sp1 ++ '=' :: (sp2 ++ kw ++ sp3 ++ '(' :: (A ++ ')' :: T))

theorem gate_layout_sem (g : Gate) (hty : g.ty ≠ INPUT)
    (hl : IsIdent g.label.toList) (hops : ∀ o ∈ g.ops, IsIdent o.toList)
    (har : parserArityOk g.ty g.ops.length = true)
    {sp0 sp1 sp2 sp3 kw A T : Str} (h0 : Sp sp0) (h1 : Sp sp1) (h2 : Sp sp2) (h3 : Sp sp3)
    (hkw : gateTypeOfKeyword (upperS kw) = some g.ty) (hA : ArgsLayout g.ops A) (hT : '\n' ∉ T) :
    LineSem (gateLine sp0 g.label.toList sp1 sp2 kw sp3 A T) (Stmt.gate g).apply := by
  refine ⟨?_, ?_⟩
  · unfold gateLine
    obtain ⟨_, hkc, _⟩ := keyword_accept hkw
    have hAc := argsLayout_chars hA hops
    simp only [List.mem_append, List.mem_cons, not_or]
    refine ⟨⟨⟨h0.no_nl, hl.not_mem (by decide)⟩, h1.no_nl⟩, by decide,
      ⟨⟨h2.no_nl, fun hm => (hkc _ hm).2.2.2 rfl⟩, h3.no_nl⟩, by decide, fun hm => (hAc _ hm).2.2 rfl, by decide, hT⟩
  · intro c nl _
    have e : gateLine sp0 g.label.toList sp1 sp2 kw sp3 A T ++ nl
        = sp0 ++ g.label.toList ++ sp1 ++ '=' :: (sp2 ++ kw ++ sp3 ++ '(' :: (A ++ ')' :: (T ++ nl))) := by
      unfold gateLine; simp
    rw [e]
    exact parseLine_gate_layout c g hty hl hops har h0 h1 h2 h3 hkw hA

theorem declPad_nl {p nl : Str} (h : DeclPad p) (hnl : nl = [] ∨ nl = ['\n']) : DeclPad (p ++ nl) := by
  intro ch hch
  rcases List.mem_append.mp hch with h1 | h1
  · exact h ch h1
  · rcases hnl with rfl | rfl
    · cases h1
    · simp only [List.mem_singleton] at h1; subst h1; decide

theorem upper_no_nl {kw K : Str} (hk : upperS kw = K) (hK : '\n' ∉ K) : '\n' ∉ kw := by
  intro hm
  apply hK
  rw [← hk]
  have : ('\n' : Char).toUpper = '\n' := by decide
  rw [← this]
  exact List.mem_map_of_mem hm

theorem input_layout_sem (l : Label) (hl : IsIdent l.toList) {kw p1 p2 : Str}
    (hk : upperS kw = strOf "INPUT(") (h1 : DeclPad p1) (h2 : DeclPad p2) (n1 : '\n' ∉ p1) (n2 : '\n' ∉ p2) :
    LineSem (kw ++ p1 ++ l.toList ++ p2) (Stmt.gate ⟨l, INPUT, []⟩).apply := by
  refine ⟨?_, ?_⟩
  · simp only [List.mem_append, not_or]
    exact ⟨⟨⟨upper_no_nl hk (by decide), n1⟩, hl.not_mem (by decide)⟩, n2⟩
  · intro c nl hnl
    rw [List.append_assoc]
    exact parseLine_input_layout c l hl hk h1 (declPad_nl h2 hnl)

theorem output_layout_sem (l : Label) (hl : IsIdent l.toList) {kw p1 p2 : Str}
    (hk : upperS kw = strOf "OUTPUT(") (h1 : DeclPad p1) (h2 : DeclPad p2) (n1 : '\n' ∉ p1) (n2 : '\n' ∉ p2) :
    LineSem (kw ++ p1 ++ l.toList ++ p2) (Stmt.output l).apply := by
  refine ⟨?_, ?_⟩
  · simp only [List.mem_append, not_or]
    exact ⟨⟨⟨upper_no_nl hk (by decide), n1⟩, hl.not_mem (by decide)⟩, n2⟩
  · intro c nl hnl
    rw [List.append_assoc]
    exact parseLine_output_layout c l hl hk h1 (declPad_nl h2 hnl)

theorem vdd_layout_sem (l : Label) (hl : IsIdent l.toList)
    {sp0 sp1 sp2 v T : Str} (h0 : Sp sp0) (h1 : Sp sp1) (h2 : Sp sp2) (hv : upperS v = strOf "VDD") (hT : '\n' ∉ T) :
    LineSem (sp0 ++ l.toList ++ sp1 ++ '=' :: (sp2 ++ v ++ T)) (Stmt.gate ⟨l, ALWAYS_TRUE, []⟩).apply := by
  refine ⟨?_, ?_⟩
  · simp only [List.mem_append, List.mem_cons, not_or]
    exact ⟨⟨⟨h0.no_nl, hl.not_mem (by decide)⟩, h1.no_nl⟩, by decide, ⟨h2.no_nl, upper_no_nl hv (by decide)⟩, hT⟩
  · intro c nl _
    have e : sp0 ++ l.toList ++ sp1 ++ '=' :: (sp2 ++ v ++ T) ++ nl
        = sp0 ++ l.toList ++ sp1 ++ '=' :: (sp2 ++ v ++ (T ++ nl)) := by simp
    rw [e]
    exact parseLine_vdd_layout c l hl h0 h1 h2 hv

theorem comment_sem {rest : Str} (h : '\n' ∉ rest) : LineSem ('#' :: rest) Stmt.skip.apply := by
  refine ⟨by simp only [List.mem_cons, not_or]; exact ⟨by decide, h⟩, ?_⟩
  intro c nl _
  exact parseLine_comment c (rest ++ nl)

theorem blank_line_sem : LineSem [] Stmt.skip.apply := blank_sem

end Cirbo
