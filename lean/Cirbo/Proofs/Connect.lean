import Cirbo.Proofs.Frame
/-! # connect_circuit (left direction): the base circuit keeps its function (C10, C13) -/
namespace Cirbo
open GateType Circuit

theorem mapLabels_length (m : Dict Label) : ∀ (ls : List Label) (r : List Label),
    mapLabels m ls = .ok r → r.length = ls.length := by
  intro ls
  unfold mapLabels
  suffices ∀ (ls : List Label) (acc r : List Label),
      ls.foldl (fun (acc : R (List Label)) l => match acc with
        | .error e => .error e
        | .ok r => match Dict.get? m l with
          | none => .error "Py:KeyError"
          | some x => .ok (r ++ [x])) (.ok acc) = .ok r → r.length = acc.length + ls.length by
    intro r h; simpa using this ls [] r h
  intro ls
  induction ls with
  | nil => intro acc r h; simp at h; subst h; simp
  | cons l t ih =>
    intro acc r h
    simp only [List.foldl_cons] at h
    cases hg : Dict.get? m l with
    | none =>
      simp only [hg] at h
      have : ∀ (xs : List Label), xs.foldl (fun (acc : R (List Label)) l => match acc with
        | .error e => .error e
        | .ok r => match Dict.get? m l with
          | none => .error "Py:KeyError"
          | some x => .ok (r ++ [x])) (.error "Py:KeyError") = .error "Py:KeyError" := by
        intro xs; induction xs with
        | nil => rfl
        | cons a b ih2 => simpa using ih2
      rw [this] at h; cases h
    | some x =>
      simp only [hg] at h
      have := ih (acc ++ [x]) r h
      simp at this ⊢; omega

theorem connStep_error (other : Circuit) (m : Dict Label) (pre : String) (right : Bool) (e : String) (l : Label) :
    connStep other m pre right (.error e) l = .error e := rfl

theorem foldl_connStep_error (other : Circuit) (m : Dict Label) (pre : String) (right : Bool) (e : String) :
    ∀ (xs : List Label), xs.foldl (connStep other m pre right) (.error e) = .error e := by
  intro xs; induction xs with
  | nil => rfl
  | cons a b ih => simpa [connStep_error] using ih

/-- the left-direction loop only ever *adds* gates -/
theorem connLoop_left_frame {c other : Circuit} {m : Dict Label} {pre : String} {b v : Label → Bool}
    (har : ∀ g ∈ other.gates, if g.ty = INPUT then True else arityOk g.ty g.ops.length = true) :
    ∀ (order : List Label) (st0 st : ConnSt) (b0 v0 : Label → Bool), Extends c st0.c b v b0 v0 →
      order.foldl (connStep other m pre false) (.ok st0) = .ok st →
      ∃ b' v', Extends c st.c b v b' v' := by
  intro order
  induction order with
  | nil => intro st0 st b0 v0 he h; simp at h; subst h; exact ⟨b0, v0, he⟩
  | cons cur rest ih =>
    intro st0 st b0 v0 he h
    simp only [List.foldl_cons] at h
    cases hs : connStep other m pre false (.ok st0) cur with
    | error e => rw [hs, foldl_connStep_error] at h; cases h
    | ok st1 =>
      rw [hs] at h
      -- what did the step do?
      unfold connStep at hs
      simp only at hs
      cases hf : other.find? cur with
      | none => simp [hf] at hs
      | some g =>
        simp only [hf] at hs
        obtain ⟨hgm, _⟩ := find_some_mem hf
        split at hs
        · -- a gate of `other` that is not a connector: added under its new label
          cases hm : mapLabels (Dict.set st0.o2n cur (pre ++ cur)) g.ops with
          | error e => simp [hm] at hs
          | ok ops =>
            simp only [hm] at hs
            cases ha : st0.c.addGate ⟨pre ++ cur, g.ty, ops⟩ with
            | error e => simp [ha] at hs
            | ok c1 =>
              simp only [ha, Except.ok.injEq] at hs
              subst hs
              have hlen := mapLabels_length _ _ _ hm
              have harg : if (⟨pre ++ cur, g.ty, ops⟩ : Gate).ty = INPUT then True
                  else arityOk (⟨pre ++ cur, g.ty, ops⟩ : Gate).ty (⟨pre ++ cur, g.ty, ops⟩ : Gate).ops.length = true := by
                have := har g hgm
                simpa [hlen] using this
              obtain ⟨b1, v1, he1, _⟩ := addGate_frame he ha harg false
              exact ih _ st b1 v1 he1 h
        · -- a connector (input of `other` identified with a base gate): nothing is added
          simp only [Bool.false_eq_true, if_false, Except.ok.injEq] at hs
          subst hs
          exact ih _ st b0 v0 he h

theorem setOutputs_gates {c c' : Circuit} {o : List Label} (h : c.setOutputs o = .ok c') : c'.gates = c.gates := by
  unfold setOutputs at h
  split at h
  · cases h
  · simp only [Except.ok.injEq] at h; subst h; rfl

theorem setInputs_gates {c c' : Circuit} {i : List Label} (h : c.setInputs i = .ok c') : c'.gates = c.gates := by
  unfold setInputs at h
  split at h
  · cases h
  · split at h
    · cases h
    · split at h
      · cases h
      · simp only [Except.ok.injEq] at h; subst h; rfl

theorem connFinish_gates {c other c' : Circuit} {st : ConnSt} {thisC otherC : List Label} {name : Label}
    {pre : String} (h : connFinish c other st thisC otherC name pre = .ok c') : c'.gates = st.c.gates := by
  unfold connFinish at h
  simp only at h
  split at h
  · cases h
  · split at h
    · cases h
    · rename_i c1 hso
      split at h
      · cases h
      · split at h
        · cases h
        · split at h
          · cases h
          · rename_i c2 hsi
            have hbl : ∀ (bs : List Block) (cc c3 : Circuit),
                bs.foldl (fun (acc : R Circuit) (b : Block) => match acc with
                  | .error e => .error e
                  | .ok cc =>
                    if cc.blocks.any (fun x => x.name == pre ++ b.name) then .error "CircuitValidationError" else
                    match mapLabels st.o2n b.inputs, mapLabels st.o2n b.gates, mapLabels st.o2n b.outputs with
                    | .ok i, .ok g, .ok o => .ok { cc with blocks := cc.blocks ++ [⟨pre ++ b.name, i, g, o⟩] }
                    | _, _, _ => .error "Py:KeyError") (.ok cc) = .ok c3 → c3.gates = cc.gates := by
              intro bs
              induction bs with
              | nil => intro cc c3 hh; simp at hh; subst hh; rfl
              | cons b r ih =>
                intro cc c3 hh
                simp only [List.foldl_cons] at hh
                split at hh
                · -- error is sticky
                  exfalso
                  have : ∀ (xs : List Block) (e : String), xs.foldl (fun (acc : R Circuit) (b : Block) => match acc with
                      | .error e => .error e
                      | .ok cc =>
                        if cc.blocks.any (fun x => x.name == pre ++ b.name) then .error "CircuitValidationError" else
                        match mapLabels st.o2n b.inputs, mapLabels st.o2n b.gates, mapLabels st.o2n b.outputs with
                        | .ok i, .ok g, .ok o => .ok { cc with blocks := cc.blocks ++ [⟨pre ++ b.name, i, g, o⟩] }
                        | _, _, _ => .error "Py:KeyError") (.error e) = .error e := by
                    intro xs e; induction xs with
                    | nil => rfl
                    | cons a t ih2 => simpa using ih2
                  rw [this] at hh; cases hh
                · split at hh
                  · exact (ih _ c3 hh).trans rfl
                  · exfalso
                    have : ∀ (xs : List Block) (e : String), xs.foldl (fun (acc : R Circuit) (b : Block) => match acc with
                        | .error e => .error e
                        | .ok cc =>
                          if cc.blocks.any (fun x => x.name == pre ++ b.name) then .error "CircuitValidationError" else
                          match mapLabels st.o2n b.inputs, mapLabels st.o2n b.gates, mapLabels st.o2n b.outputs with
                          | .ok i, .ok g, .ok o => .ok { cc with blocks := cc.blocks ++ [⟨pre ++ b.name, i, g, o⟩] }
                          | _, _, _ => .error "Py:KeyError") (.error e) = .error e := by
                      intro xs e; induction xs with
                      | nil => rfl
                      | cons a t ih2 => simpa using ih2
                    rw [this] at hh; cases hh
            split at h
            · cases h
            · rename_i c3 hb3
              have e3 : c3.gates = c2.gates := hbl _ _ _ hb3
              have e2 := setInputs_gates hsi
              have e1 := setOutputs_gates hso
              split at h
              · simp only [Except.ok.injEq] at h; subst h; rw [e3, e2, e1]
              · split at h
                · split at h <;> (simp only [Except.ok.injEq] at h; subst h; simp [e3, e2, e1])
                · cases h

/-- **Left connection / extension / side-by-side addition keep the base circuit's function**:
whenever `connect_circuit(other, this_connectors, other_connectors, right_connect=False, …)` (hence
`connect_left`, `extend_circuit`, `add_circuit`) returns, every valuation of the base under `b`
extends to a valuation of the result that agrees with it on every base gate; only gates are added. -/
theorem connect_left_frame {c other c' : Circuit} {thisC otherC : List Label} {name : Label} {addP : Bool}
    (h : c.connectCircuit other thisC otherC false name addP = .ok c')
    (hcl : ∀ g ∈ c.gates, ∀ o ∈ g.ops, o ∈ c.labels)
    (har : ∀ g ∈ other.gates, if g.ty = INPUT then True else arityOk g.ty g.ops.length = true)
    {b v : Label → Bool} (hv : IsValB c b v) :
    ∃ b' v', IsValB c' b' v' ∧ (∀ l ∈ c.labels, v' l = v l) ∧ (∀ l ∈ c.labels, b' l = b l) ∧
      (∀ l ∈ c.labels, l ∈ c'.labels) := by
  unfold connectCircuit at h
  simp only [Bool.false_eq_true, if_false] at h
  split at h
  · cases h
  · cases hc1 : c.checkGatesExist thisC with
    | error e => simp [hc1] at h
    | ok u1 =>
      simp only [hc1] at h
      cases hc2 : other.checkGatesExist otherC with
      | error e => simp [hc2] at h
      | ok u2 =>
        simp only [hc2] at h
        split at h
        · cases h
        · split at h
          · cases h
          · split at h
            · cases h
            · cases hts : other.topSort true with
              | cyclic => simp [hts] at h
              | ok order =>
                simp only [hts] at h
                split at h
                · cases h
                · rename_i st hfold
                  obtain ⟨b', v', he⟩ := connLoop_left_frame har order ⟨c, _, []⟩ st b v (Extends.refl hv hcl) hfold
                  have hg := connFinish_gates h
                  have hlab : c'.labels = st.c.labels := by unfold labels; rw [hg]
                  refine ⟨b', v', ?_, he.agreeV, he.agreeB, fun l hl => hlab ▸ he.sub l hl⟩
                  intro g hgm
                  rw [hg] at hgm
                  exact he.val g hgm

/-! ### the final stage of the miter -/

theorem any_map_xor (v : Label → Bool) : ∀ (ps : List (Label × Label × Label)),
    (∀ p ∈ ps, v p.1 = xor (v p.2.1) (v p.2.2)) →
    ((ps.map (fun p => v p.1)).any id = true ↔ ∃ p ∈ ps, v p.2.1 ≠ v p.2.2) := by
  intro ps
  induction ps with
  | nil => intro _; simp
  | cons p r ih =>
    intro h
    have h1 := h p (by simp)
    have h2 := ih (fun q hq => h q (by simp [hq]))
    simp only [List.map_cons, List.any_cons, id, Bool.or_eq_true, h2, List.mem_cons, exists_eq_or_imp]
    rw [h1]
    cases v p.2.1 <;> cases v p.2.2 <;> simp

/-- **the miter's comparison stage**: in any circuit that contains gates `x_i = XOR(l_i, r_i)` and
the final gate `out = OR(x_0, …, x_{m-1})` for m ≥ 2, or `out = IFF(x_0)` for m = 1, every
valuation gives `out` the value True exactly when some pair `(l_i, r_i)` differs. -/
theorem miter_stage {c : Circuit} {b v : Label → Bool} (hv : IsValB c b v)
    (ps : List (Label × Label × Label)) (out : Label)
    (hx : ∀ p ∈ ps, (⟨p.1, XOR, [p.2.1, p.2.2]⟩ : Gate) ∈ c.gates)
    (hout : (⟨out, if ps.length = 1 then IFF else OR, ps.map (·.1)⟩ : Gate) ∈ c.gates)
    (hm : 1 ≤ ps.length) :
    v out = true ↔ ∃ p ∈ ps, v p.2.1 ≠ v p.2.2 := by
  have hxs : ∀ p ∈ ps, v p.1 = xor (v p.2.1) (v p.2.2) := by
    intro p hp
    have := hv _ (hx p hp)
    simp [bfun, xorAll] at this
    exact this.symm
  rw [← any_map_xor v ps hxs]
  have ho := hv _ hout
  by_cases h1 : ps.length = 1
  · simp only [h1, if_true] at ho
    obtain ⟨p, hp⟩ : ∃ p, ps = [p] := by
      rcases ps with _ | ⟨p, _ | ⟨q, r⟩⟩ <;> simp at h1
      exact ⟨p, rfl⟩
    subst hp
    simp [bfun] at ho
    simp [ho]
  · simp only [h1, if_false] at ho
    rcases ps with _ | ⟨p, _ | ⟨q, r⟩⟩
    · simp at hm
    · simp at h1
    · simp [bfun] at ho
      rw [← ho]; simp [List.any_cons]

end Cirbo
