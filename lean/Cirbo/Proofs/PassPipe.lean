import Cirbo.Proofs.PassMuo
import Cirbo.Proofs.PassMdg
import Cirbo.Proofs.PassMeg
/-!
# Pipelines of simplification passes preserve function and interface
-/
namespace Cirbo
open GateType Circuit

/-- what C03 promises about one application of a pass -/
structure Preserves (c c' : Circuit) : Prop where
  wfs : WFS c'
  inputs : c'.inputs.Sublist c.inputs
  outputs : c'.outputs.length = c.outputs.length
  ar : ArOK c → ArOK c'
  /-- never more gates than the argument -/
  size : c'.gates.length ≤ c.gates.length
  val : ∀ b v, IsValB c b v → IsValB c' b v ∧ c'.outputs.map v = c.outputs.map v

theorem Preserves.refl {c : Circuit} (hw : WFS c) : Preserves c c :=
  ⟨hw, List.Sublist.refl _, rfl, fun h => h, Nat.le_refl _, fun _ _ hv => ⟨hv, rfl⟩⟩

theorem Preserves.trans {a b c : Circuit} (h1 : Preserves a b) (h2 : Preserves b c) : Preserves a c :=
  ⟨h2.wfs, h2.inputs.trans h1.inputs, h2.outputs.trans h1.outputs, fun h => h2.ar (h1.ar h), Nat.le_trans h2.size h1.size, fun bb v hv => by
    obtain ⟨v1, o1⟩ := h1.val bb v hv
    obtain ⟨v2, o2⟩ := h2.val bb v v1
    exact ⟨v2, o2.trans o1⟩⟩

theorem rrg_preserves {a : Bool} {c c' : Circuit} (hw : WFS c) (h : rrg a c = .ok c') : Preserves c c' := by
  obtain ⟨w, hsub, hval, ho, hi, _, hsz, _⟩ := rrg_spec hw h
  exact ⟨w, by rw [hi]; exact List.filter_sublist, by rw [ho], fun ha g hg => ha g (hsub g hg), hsz,
    fun b v hv => ⟨hval b v hv, by rw [ho]⟩⟩

/-- a circuit whose (distinct) labels are labels of another has no more gates -/
theorem size_of_shape {c c' : Circuit} (hnd' : c'.labels.Nodup) (sh : SameShape c c') :
    c'.gates.length ≤ c.gates.length := by
  have hsub : c'.labels ⊆ c.labels := by
    intro l hl
    obtain ⟨g', hg', hgl⟩ : ∃ g ∈ c'.gates, g.label = l := by simpa [Circuit.labels] using hl
    obtain ⟨g, hg, e, _⟩ := sh g' hg'
    rw [← hgl, e]; exact mem_labels_of_mem hg
  have := List.Nodup.length_le_of_subset hnd' hsub
  simpa [Circuit.labels] using this

theorem muo_preserves {c c' : Circuit} (hw : WFS c) (h : muo c = .ok c') : Preserves c c' := by
  obtain ⟨w, hi, ho, sh, hval⟩ := muo_spec hw h
  exact ⟨w, by rw [hi]; exact List.Sublist.refl _, ho, arOK_of_shape sh, size_of_shape w.nodup sh, hval⟩

theorem mdg_preserves {c c' : Circuit} (hw : WFS c) (h : mdg c = .ok c') : Preserves c c' := by
  obtain ⟨w, hi, ho, sh, hval⟩ := mdg_spec hw h
  exact ⟨w, by rw [hi]; exact List.Sublist.refl _, ho, arOK_of_shape sh, size_of_shape w.nodup sh, hval⟩

theorem meg_preserves {c c' : Circuit} (hw : WFS c) (har : ArOK c) (h : meg c = .ok c') : Preserves c c' := by
  obtain ⟨w, hi, ho, sh, hval⟩ := meg_spec' hw har h
  exact ⟨w, by rw [hi]; exact List.Sublist.refl _, ho, arOK_of_shape sh, size_of_shape w.nodup sh, hval⟩

/-- the four passes (compositions are flattened by linearisation before they run) -/
def Proved : Tr → Prop
  | .rrg _ => True
  | .muo => True
  | .mdg => True
  | .meg => True
  | .comp _ => False

theorem transform1_preserves {t : Tr} (ht : Proved t) {c c' : Circuit} (hw : WFS c) (har : ArOK c)
    (h : transform1 t c = .ok c') : Preserves c c' := by
  cases t with
  | rrg a => exact rrg_preserves hw h
  | muo => exact muo_preserves hw h
  | mdg => exact mdg_preserves hw h
  | meg => exact meg_preserves hw har h
  | comp ts => exact absurd ht id

theorem runSeq_preserves : ∀ (ts : List Tr) {c c' : Circuit}, WFS c → ArOK c → (∀ t ∈ ts, Proved t) →
    runSeq (.ok c) ts = .ok c' → Preserves c c' := by
  intro ts
  induction ts with
  | nil => intro c c' hw _ _ h; cases h; exact .refl hw
  | cons t r ih =>
    intro c c' hw har hts h
    have h' : runSeq (trStepR (.ok c) t) r = .ok c' := h
    cases h1 : trStepR (.ok c) t with
    | error e => rw [h1, runSeq_error] at h'; cases h'
    | ok c1 =>
      rw [h1] at h'
      have p1 := transform1_preserves (hts t (by simp)) hw har (show transform1 t c = .ok c1 from h1)
      exact p1.trans (ih p1.wfs (p1.ar har) (fun t ht => hts t (by simp [ht])) h')

theorem mem_reduceIdem : ∀ (ts : List Tr) (prev : Option Tr) (t : Tr), t ∈ reduceIdem prev ts → t ∈ ts := by
  intro ts
  induction ts with
  | nil => intro prev t h; simp [reduceIdem] at h
  | cons x r ih =>
    intro prev t h
    cases prev with
    | none =>
      simp only [reduceIdem, List.mem_cons] at h
      rcases h with rfl | h
      · simp
      · exact List.mem_cons_of_mem _ (ih _ _ h)
    | some p =>
      simp only [reduceIdem] at h
      split at h
      · exact List.mem_cons_of_mem _ (ih _ _ h)
      · simp only [List.mem_cons] at h
        rcases h with rfl | h
        · simp
        · exact List.mem_cons_of_mem _ (ih _ _ h)

/-- `apply_transformers` (hence `Transformer.transform`, the pipe operator and `cleanup` light) over
passes whose theorems are proved: same function, same interface, invariant kept -/
theorem applyTransformers_preserves (ts : List Tr) {c c' : Circuit} (hw : WFS c) (har : ArOK c)
    (hts : ∀ t ∈ linearize.linearizeList ts, Proved t) (h : applyTransformers c ts = .ok c') : Preserves c c' := by
  rw [applyTransformers_def] at h
  exact runSeq_preserves _ hw har (fun t ht => hts t (mem_reduceIdem _ _ _ ht)) h

mutual
/-- linearisation only produces the four passes -/
theorem linearize_proved : ∀ t : Tr, ∀ x ∈ linearize t, Proved x
  | .rrg a => by intro x hx; simp [linearize] at hx; subst hx; trivial
  | .muo => by intro x hx; simp [linearize] at hx; rcases hx with rfl | rfl <;> trivial
  | .mdg => by intro x hx; simp [linearize] at hx; rcases hx with rfl | rfl <;> trivial
  | .meg => by intro x hx; simp [linearize] at hx; rcases hx with rfl | rfl <;> trivial
  | .comp ts => by intro x hx; simp only [linearize] at hx; exact linearizeList_proved ts x hx
theorem linearizeList_proved : ∀ ts : List Tr, ∀ x ∈ linearize.linearizeList ts, Proved x
  | [] => by intro x hx; simp [linearize.linearizeList] at hx
  | t :: r => by
    intro x hx
    simp only [linearize.linearizeList, List.mem_append] at hx
    rcases hx with hx | hx
    · exact linearize_proved t x hx
    · exact linearizeList_proved r x hx
end

/-- **every pipeline** — any list of passes and nested compositions -/
theorem pipeline_preserves (ts : List Tr) {c c' : Circuit} (hw : WFS c) (har : ArOK c)
    (h : applyTransformers c ts = .ok c') : Preserves c c' :=
  applyTransformers_preserves ts hw har (linearizeList_proved ts) h

/-- `cleanup(circuit, use_heavy=…)`, light and heavy -/
theorem cleanup_preserves {c c' : Circuit} {heavy : Bool} (hw : WFS c) (har : ArOK c) (h : cleanup c heavy = .ok c') :
    Preserves c c' := by
  unfold cleanup at h
  exact pipeline_preserves _ hw har h

end Cirbo
