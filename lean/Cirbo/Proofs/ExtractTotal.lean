import Cirbo.Proofs.BlockExtract
/-!
# `Block.into_circuit` returns on the block recorded by a named connection

`Cirbo/Proofs/BlockExtract.lean` proves what the extracted circuit is *whenever* `into_circuit` returns.
Here: for the block recorded by `connect_circuit(..., name=…)` (either direction) it does return.
The error branches of `intoCircuit` are
* `intoStep`: a block gate label that is not a gate of the owner (`GateDoesntExistError`),
* `set_outputs`: a block output that is not a gate of the new circuit (`CircuitValidationError`),
* the closing `check_gates_exist`: an operand of a copied gate that was not copied and is not a block
  input (`CircuitValidationError`);
(`_emplace_gate` checks nothing, so repeated block inputs raise nothing, and there is no cycle check).
-/
namespace Cirbo
open GateType Circuit

/-! ### `_emplace_gate`: which gates and labels the result has -/

theorem et_rawAddGate_mem (n : Circuit) (g x : Gate) (hx : x ∈ (n.rawAddGate g).gates) : x ∈ n.gates ∨ x = g := by
  rw [rawAddGate_gates] at hx
  split at hx
  · obtain ⟨y, hy, rfl⟩ := List.mem_map.mp hx
    unfold replG
    split
    · exact Or.inr rfl
    · exact Or.inl hy
  · rcases List.mem_append.mp hx with h | h
    · exact Or.inl h
    · exact Or.inr (by simpa using h)

theorem et_rawAddGate_labels (n : Circuit) (g : Gate) (l : Label) (hl : l ∈ n.labels) :
    l ∈ (n.rawAddGate g).labels := by
  obtain ⟨x, hx, rfl⟩ := List.mem_map.mp hl
  by_cases hne : x.label = g.label
  · rw [hne]; exact mem_labels_of_mem (mem_rawAddGate_self n g)
  · exact mem_labels_of_mem (mem_rawAddGate_other n g x hx hne)

/-- the block inputs as INPUT gates: every listed label is a gate, every gate has no operands -/
theorem et_intoInputs : ∀ (ins : List Label) (n : Circuit),
    (∀ x ∈ n.gates, x.ops = []) →
    (∀ x ∈ (ins.foldl (fun n i => n.rawAddGate ⟨i, INPUT, []⟩) n).gates, x.ops = []) ∧
    (∀ l, l ∈ n.labels ∨ l ∈ ins → l ∈ (ins.foldl (fun n i => n.rawAddGate ⟨i, INPUT, []⟩) n).labels) := by
  intro ins
  induction ins with
  | nil => intro n h; exact ⟨h, fun l hl => by simpa using hl⟩
  | cons i r ih =>
    intro n h
    simp only [List.foldl_cons]
    have h1 : ∀ x ∈ (n.rawAddGate ⟨i, INPUT, []⟩).gates, x.ops = [] := by
      intro x hx
      rcases et_rawAddGate_mem _ _ _ hx with hx | rfl
      · exact h x hx
      · rfl
    obtain ⟨a, b⟩ := ih _ h1
    refine ⟨a, fun l hl => b l ?_⟩
    rcases hl with hl | hl
    · exact Or.inl (et_rawAddGate_labels _ _ _ hl)
    · rcases List.mem_cons.mp hl with rfl | hl
      · exact Or.inl (mem_labels_of_mem (mem_rawAddGate_self n ⟨l, INPUT, []⟩))
      · exact Or.inr hl

/-- copying the block gates never fails when every listed label is a gate of the owner; every gate of
the result is an old one or the owner's gate of a listed label; old and listed labels are gates -/
theorem et_intoFold_total (c : Circuit) (G : Gate → Prop) : ∀ (ls : List Label) (n : Circuit),
    (∀ l ∈ ls, ∃ g, c.find? l = some g ∧ G g) → (∀ x ∈ n.gates, G x) →
    ∃ E, ls.foldl (intoStep c) (.ok n) = .ok E ∧ (∀ x ∈ E.gates, G x) ∧
      (∀ l, l ∈ n.labels ∨ l ∈ ls → l ∈ E.labels) := by
  intro ls
  induction ls with
  | nil => intro n _ hn; exact ⟨n, rfl, hn, fun l hl => by simpa using hl⟩
  | cons l r ih =>
    intro n hls hn
    obtain ⟨g, hf, hG⟩ := hls l (by simp)
    obtain ⟨_, hgl⟩ := find_some_mem hf
    have h1 : ∀ x ∈ (n.rawAddGate g).gates, G x := by
      intro x hx
      rcases et_rawAddGate_mem _ _ _ hx with hx | rfl
      · exact hn x hx
      · exact hG
    obtain ⟨E, hE, a, b⟩ := ih (n.rawAddGate g) (fun l' hl' => hls l' (by simp [hl'])) h1
    refine ⟨E, ?_, a, fun l' hl' => b l' ?_⟩
    · simp only [List.foldl_cons, intoStep, hf]
      exact hE
    · rcases hl' with hl' | hl'
      · exact Or.inl (et_rawAddGate_labels _ _ _ hl')
      · rcases List.mem_cons.mp hl' with rfl | hl'
        · exact Or.inl (hgl ▸ mem_labels_of_mem (mem_rawAddGate_self n g))
        · exact Or.inr hl'

/-- **extraction returns, abstractly**: the same description of the block as `extract_sem` uses (the block
lists exactly the images of the attached circuit's non-INPUT gates, and these images are gates of the
owner with renamed operands), plus the attached circuit's own closure facts (operands and outputs are
gates, INPUT gates are listed as inputs) -/
theorem et_intoCircuit_total_abs {c' other : Circuit} {φ : Label → Label} {fb : List Label} {name : Label}
    (hndc : c'.labels.Nodup)
    (hclosed : ∀ g ∈ other.gates, ∀ o ∈ g.ops, o ∈ other.labels)
    (hinp : ∀ g ∈ other.gates, g.ty = INPUT → g.label ∈ other.inputs)
    (hout : ∀ o ∈ other.outputs, o ∈ other.labels)
    (hsub : ∀ x ∈ fb, ∃ g ∈ other.gates, g.ty ≠ INPUT ∧ x = φ g.label)
    (hmem : ∀ g ∈ other.gates, g.ty ≠ INPUT → φ g.label ∈ fb ∧ (⟨φ g.label, g.ty, g.ops.map φ⟩ : Gate) ∈ c'.gates) :
    ∃ E, c'.intoCircuit ⟨name, other.inputs.map φ, fb, other.outputs.map φ⟩ = .ok E := by
  -- the property of gates kept along the way: operands are images of labels of `other`
  let G : Gate → Prop := fun x => ∀ o ∈ x.ops, ∃ o' ∈ other.labels, o = φ o'
  obtain ⟨a1, b1⟩ := et_intoInputs (other.inputs.map φ) Circuit.empty (by intro x hx; cases hx)
  obtain ⟨c2, hc2, a2, b2⟩ := et_intoFold_total c' G fb
    ((other.inputs.map φ).foldl (fun n i => n.rawAddGate ⟨i, INPUT, []⟩) Circuit.empty)
    (by
      intro l hl
      obtain ⟨g, hgm, ht, rfl⟩ := hsub l hl
      have hf := find_of_mem hndc (hmem g hgm ht).2
      simp only at hf
      refine ⟨_, hf, ?_⟩
      intro o ho
      simp only [List.mem_map] at ho
      obtain ⟨o', ho', rfl⟩ := ho
      exact ⟨o', hclosed g hgm o' ho', rfl⟩)
    (by intro x hx o ho; rw [a1 x hx] at ho; cases ho)
  -- every image of a label of `other` is a gate of the copy
  have hlab : ∀ o ∈ other.labels, φ o ∈ c2.labels := by
    intro o ho
    obtain ⟨g, hgm, rfl⟩ := List.mem_map.mp ho
    by_cases ht : g.ty = INPUT
    · exact b2 _ (Or.inl (b1 _ (Or.inr (List.mem_map.mpr ⟨g.label, hinp g hgm ht, rfl⟩))))
    · exact b2 _ (Or.inr (hmem g hgm ht).1)
  have hso : c2.checkGatesExist (other.outputs.map φ) = .ok () := by
    unfold checkGatesExist
    rw [if_pos]
    simp only [List.all_eq_true, List.mem_map]
    rintro l ⟨o, ho, rfl⟩
    exact (hasGate_iff c2 _).mpr (hlab o (hout o ho))
  refine ⟨{ c2 with outputs := other.outputs.map φ }, ?_⟩
  unfold intoCircuit
  simp only [hc2, setOutputs, hso]
  rw [if_pos]
  simp only [List.all_eq_true]
  intro x hx o ho
  obtain ⟨o', ho', rfl⟩ := a2 x hx o ho
  exact (hasGate_iff _ _).mpr (hlab o' ho')

/-! ### the block a named connection records (the derivations of `extract_left` / `extract_right`,
without the hypothesis that the extraction returned) -/

theorem et_left_block {c other c' : Circuit} {thisC otherC : List Label} {name : Label} {addP : Bool}
    (hwo : WFG other) (hndc : c.labels.Nodup)
    (h : c.connectCircuit other thisC otherC false name addP = .ok c') (hn : name ≠ "") :
    ∃ (φ : Label → Label) (fb : List Label),
      c'.getBlock name = .ok ⟨name, other.inputs.map φ, fb, other.outputs.map φ⟩ ∧
      fb.Nodup ∧ c'.labels.Nodup ∧
      (∀ x ∈ fb, ∃ g ∈ other.gates, g.ty ≠ INPUT ∧ x = φ g.label) ∧
      (∀ g ∈ other.gates, g.ty ≠ INPUT → φ g.label ∈ fb ∧ (⟨φ g.label, g.ty, g.ops.map φ⟩ : Gate) ∈ c'.gates) := by
  obtain ⟨order, st, hts, hfold, hfin, hblk, hnd, hlen, hty, _⟩ := connect_left_unfold h
  obtain ⟨order', ho1, hperm, hord⟩ := topSort_inv_spec hwo
  rw [hts] at ho1
  cases ho1
  have hndo : order.Nodup := hperm.nodup_iff.mpr hwo.nodup
  obtain ⟨hinv, _⟩ := connLoop_sem order [] ⟨c, _, []⟩ st (by simpa using hndo)
    (by
      intro cur hcur g hf o ho p q hpq
      obtain ⟨hgm, hgl⟩ := find_some_mem hf
      exact hord p cur q (by simpa using hpq) g hgm hgl o ho)
    ⟨by intro cur hc; simp at hc, fun _ _ h => h⟩ hfold
  simp only [List.nil_append] at hinv
  obtain ⟨extra, sg, so, sb, si, snd⟩ := connLoop_struct order _ st hfold
  obtain ⟨f1, _, f3⟩ := connLoop_forB order _ st (by simp) hfold
  simp only [List.not_mem_nil, false_or] at f3
  have hg := connFinish_gates hfin
  have hndc' : c'.labels.Nodup := by
    unfold Circuit.labels; rw [hg]; exact snd hndc
  have hnm : ∀ l, l ∉ otherC → Dict.contains (connMapping thisC otherC) l = false := by
    intro l hl
    cases hcm : Dict.contains (connMapping thisC otherC) l with
    | false => rfl
    | true =>
      exfalso
      rcases contains_zipFold _ _ _ hcm with h1 | h1
      · simp [Dict.contains, Dict.get?] at h1
      · obtain ⟨p, hp, hpe⟩ := List.mem_map.mp h1
        exact hl (hpe ▸ (List.of_mem_zip hp).1)
  have hnotC : ∀ g ∈ other.gates, g.ty ≠ INPUT → g.label ∉ otherC := by
    intro g hgm ht hm
    have := hty g.label hm
    rw [find_of_mem hwo.nodup hgm] at this
    simp at this
    exact ht this
  refine ⟨fun l => (Dict.get? st.o2n l).getD l, st.forBlock, connFinish_block hfin hn, f1, hndc', ?_, ?_⟩
  · intro x hx
    obtain ⟨cur, hcur, g, hfg, ht, hcase⟩ := (f3 x).mp hx
    obtain ⟨hgm, hgl⟩ := find_some_mem hfg
    rcases hcase with ⟨hcm, rfl⟩ | ⟨_, hr, _⟩
    · refine ⟨g, hgm, ht, ?_⟩
      have := (hinv.added cur hcur g hfg hcm).1
      rw [hgl]; simp [this]
    · cases hr
  · intro g hgm ht
    have hfg := find_of_mem hwo.nodup hgm
    have hin : g.label ∈ order := hperm.mem_iff.mpr (mem_labels_of_mem hgm)
    have hcm := hnm _ (hnotC g hgm ht)
    obtain ⟨e1, ops', e2, e3⟩ := hinv.added g.label hin g hfg hcm
    have hφ : (Dict.get? st.o2n g.label).getD g.label = connPre name addP ++ g.label := by simp [e1]
    refine ⟨(f3 _).mpr ⟨g.label, hin, g, hfg, ht, Or.inl ⟨hcm, hφ⟩⟩, ?_⟩
    dsimp only
    rw [hg, ops_map_of_all2 e2, hφ]; exact e3

theorem et_right_block {c other c' : Circuit} {thisC otherC : List Label} {name : Label} {addP : Bool}
    (hw : WFS c) (hwo : WFS other)
    (h : c.connectCircuit other thisC otherC true name addP = .ok c') (hn : name ≠ "") :
    ∃ (φ : Label → Label) (fb : List Label),
      c'.getBlock name = .ok ⟨name, other.inputs.map φ, fb, other.outputs.map φ⟩ ∧
      fb.Nodup ∧ c'.labels.Nodup ∧
      (∀ x ∈ fb, ∃ g ∈ other.gates, g.ty ≠ INPUT ∧ x = φ g.label) ∧
      (∀ g ∈ other.gates, g.ty ≠ INPUT → φ g.label ∈ fb ∧ (⟨φ g.label, g.ty, g.ops.map φ⟩ : Gate) ∈ c'.gates) := by
  have hndc' : c'.labels.Nodup := (connectRight_wfs hw hwo h).nodup
  obtain ⟨order, st, hts, hfold, hfin, _, hnd, hlen, hty, hex, _⟩ := connect_right_unfold h
  have hwg := hwo.toWFG
  obtain ⟨order', ho1, hperm, hord⟩ := topSort_inv_spec hwg
  rw [hts] at ho1
  cases ho1
  have hndo : order.Nodup := hperm.nodup_iff.mpr hwo.nodup
  have hndt : thisC.Nodup := (nodupL_iff _).mp hnd
  have hmz : ∀ k x, Dict.get? (connMapping thisC otherC) k = some x → (k, x) ∈ otherC.zip thisC := by
    intro k x hk
    rcases get?_zipFold_mem_zip _ _ k x hk with h1 | h1
    · exact h1
    · simp [Dict.get?] at h1
  have hinv := connLoopR_sem (c := c) (pre := connPre name addP)
    (fun k1 k2 x h1 h2 => zip_snd_inj otherC thisC k1 k2 x hndt (hmz _ _ h1) (hmz _ _ h2))
    (fun k x hk => hex x (List.of_mem_zip (hmz k x hk)).2)
    order [] ⟨c, _, []⟩ st (by simpa using hndo)
    (by
      intro cur hcur g hf o ho p q hpq
      obtain ⟨hgm, hgl⟩ := find_some_mem hf
      exact hord p cur q (by simpa using hpq) g hgm hgl o ho)
    ⟨by intro cur hc; simp at hc, by intro cur hc; simp at hc, fun _ _ h => h, fun _ h => h, fun _ h _ => h, rfl, rfl⟩ hfold
  simp only [List.nil_append] at hinv
  obtain ⟨f1, _, f3⟩ := connLoop_forB order _ st (by simp) hfold
  simp only [List.not_mem_nil, false_or] at f3
  have hg := connFinish_gates hfin
  refine ⟨fun l => (Dict.get? st.o2n l).getD l, st.forBlock, connFinish_block hfin hn, f1, hndc', ?_, ?_⟩
  · intro x hx
    obtain ⟨cur, hcur, g, hfg, ht, hcase⟩ := (f3 x).mp hx
    obtain ⟨hgm, hgl⟩ := find_some_mem hfg
    refine ⟨g, hgm, ht, ?_⟩
    rcases hcase with ⟨hcm, rfl⟩ | ⟨_, _, hx2⟩
    · have := (hinv.added cur hcur g hfg hcm).1
      rw [hgl]; simp [this]
    · rw [hgl]; simp [hinv.mapped _ _ hx2]
  · intro g hgm ht
    have hfg := find_of_mem hwo.nodup hgm
    have hin : g.label ∈ order := hperm.mem_iff.mpr (mem_labels_of_mem hgm)
    cases hcm : Dict.get? (connMapping thisC otherC) g.label with
    | none =>
      have hnm : Dict.contains (connMapping thisC otherC) g.label = false := by simp [Dict.contains, hcm]
      obtain ⟨e1, _, ops', e2, e3⟩ := hinv.added g.label hin g hfg hnm
      have hφ : (Dict.get? st.o2n g.label).getD g.label = connPre name addP ++ g.label := by simp [e1]
      refine ⟨(f3 _).mpr ⟨g.label, hin, g, hfg, ht, Or.inl ⟨hnm, hφ⟩⟩, ?_⟩
      dsimp only
      rw [hg, ops_map_of_all2 e2, hφ]; exact e3
    | some lbl =>
      have hc : Dict.contains (connMapping thisC otherC) g.label = true := by simp [Dict.contains, hcm]
      obtain ⟨ops', e2, e3⟩ := hinv.conn g.label hin g hfg lbl hcm
      have hφ : (Dict.get? st.o2n g.label).getD g.label = lbl := by simp [hinv.mapped _ _ hcm]
      refine ⟨(f3 _).mpr ⟨g.label, hin, g, hfg, ht, Or.inr ⟨hc, trivial, by dsimp only; rw [hφ]; exact hcm⟩⟩, ?_⟩
      dsimp only
      rw [hg, ops_map_of_all2 e2, hφ]; exact e3

/-! ### the theorems -/

/-- **`get_block(name).into_circuit()` returns after a named left connection** -/
theorem et_intoCircuit_total_left {c other c' : Circuit} {thisC otherC : List Label} {name : Label} {addP : Bool}
    (hw : WFS c) (hwo : WFS other)
    (h : c.connectCircuit other thisC otherC false name addP = .ok c') (hname : name ≠ "") :
    ∃ b ex, c'.getBlock name = .ok b ∧ c'.intoCircuit b = .ok ex := by
  obtain ⟨φ, fb, hb, _, hndc', hsub, hmem⟩ := et_left_block hwo.toWFG hw.nodup h hname
  obtain ⟨E, hE⟩ := et_intoCircuit_total_abs (name := name) hndc' hwo.closed
    (fun g hg ht => (hwo.inputsOK g.label).mpr ⟨g, hg, rfl, ht⟩) hwo.outputsOK hsub hmem
  exact ⟨_, E, hb, hE⟩

/-- **… and after a named right connection** -/
theorem et_intoCircuit_total_right {c other c' : Circuit} {thisC otherC : List Label} {name : Label} {addP : Bool}
    (hw : WFS c) (hwo : WFS other)
    (h : c.connectCircuit other thisC otherC true name addP = .ok c') (hname : name ≠ "") :
    ∃ b ex, c'.getBlock name = .ok b ∧ c'.intoCircuit b = .ok ex := by
  obtain ⟨φ, fb, hb, _, hndc', hsub, hmem⟩ := et_right_block hw hwo h hname
  obtain ⟨E, hE⟩ := et_intoCircuit_total_abs (name := name) hndc' hwo.closed
    (fun g hg ht => (hwo.inputsOK g.label).mpr ⟨g, hg, rfl, ht⟩) hwo.outputsOK hsub hmem
  exact ⟨_, E, hb, hE⟩

theorem et_blockIntoCircuit_of {c' : Circuit} {name : Label} {b : Block} {ex : Circuit}
    (hb : c'.getBlock name = .ok b) (he : c'.intoCircuit b = .ok ex) : c'.blockIntoCircuit name = .ok ex := by
  unfold blockIntoCircuit; rw [hb]; exact he

/-- total correctness, left: the extraction returns a circuit with the attached circuit's renamed
interface, every valuation of which is (through the renaming) a valuation of the attached circuit -/
theorem et_block_extraction_left_total {c other c' : Circuit} {thisC otherC : List Label} {name : Label} {addP : Bool}
    (hw : WFS c) (hwo : WFS other)
    (h : c.connectCircuit other thisC otherC false name addP = .ok c') (hname : name ≠ "") :
    ∃ E, c'.blockIntoCircuit name = .ok E ∧ ∃ φ : Label → Label,
      (∀ l x, Dict.get? (connMapping thisC otherC) l = some x → φ l = x) ∧
      (∀ g ∈ other.gates, g.label ∉ otherC → φ g.label = connPre name addP ++ g.label) ∧
      (∀ b v, IsValB E b v → IsValB other (v ∘ φ) (v ∘ φ)) ∧
      E.inputs = other.inputs.map φ ∧ E.outputs = other.outputs.map φ := by
  obtain ⟨b, E, hb, hE⟩ := et_intoCircuit_total_left hw hwo h hname
  have hE' := et_blockIntoCircuit_of hb hE
  exact ⟨E, hE', extract_left hwo.toWFG hw.nodup h hname hE'⟩

/-- total correctness, right -/
theorem et_block_extraction_right_total {c other c' : Circuit} {thisC otherC : List Label} {name : Label} {addP : Bool}
    (hw : WFS c) (hwo : WFS other)
    (h : c.connectCircuit other thisC otherC true name addP = .ok c') (hname : name ≠ "") :
    ∃ E, c'.blockIntoCircuit name = .ok E ∧ ∃ φ : Label → Label,
      (∀ l x, Dict.get? (connMapping thisC otherC) l = some x → φ l = x) ∧
      (∀ g ∈ other.gates, Dict.contains (connMapping thisC otherC) g.label = false → φ g.label = connPre name addP ++ g.label) ∧
      (∀ b v, IsValB E b v → IsValB other (v ∘ φ) (v ∘ φ)) ∧
      E.inputs = other.inputs.map φ ∧ E.outputs = other.outputs.map φ := by
  obtain ⟨b, E, hb, hE⟩ := et_intoCircuit_total_right hw hwo h hname
  have hE' := et_blockIntoCircuit_of hb hE
  exact ⟨E, hE', extract_right hw hwo h hname hE'⟩

#print axioms et_intoCircuit_total_left
#print axioms et_intoCircuit_total_right
#print axioms et_block_extraction_left_total
#print axioms et_block_extraction_right_total

end Cirbo
