import Cirbo.Proofs.GenDadda
/-!
# `add_sum_pow2_m1` and the column loops built on it
-/
namespace Cirbo
open GateType

def rowsSum (v : Label → Bool) (rows : List (List Label)) : Nat := (rows.map (valLE v)).sum
def rowsTail (v : Label → Bool) (rows : List (List Label)) : Nat := rowsSum v (rows.map List.tail)

theorem rowsSum_nil (v) : rowsSum v [] = 0 := rfl
theorem rowsSum_cons (v r rs) : rowsSum v (r :: rs) = valLE v r + rowsSum v rs := by simp [rowsSum]
theorem rowsSum_append (v a b) : rowsSum v (a ++ b) = rowsSum v a + rowsSum v b := by simp [rowsSum]
theorem rowsTail_append (v a b) : rowsTail v (a ++ b) = rowsTail v a + rowsTail v b := by
  simp [rowsTail, rowsSum_append]

theorem rowsSum_heads_tails (v : Label → Bool) (rows : List (List Label)) :
    rowsSum v rows = cnt v (rows.filterMap (·.head?)) + 2 * rowsSum v (rows.map List.tail) := by
  induction rows with
  | nil => rfl
  | cons r rs ih =>
    cases r with
    | nil => simp only [List.filterMap_cons, List.head?_nil, List.map_cons, List.tail_nil, rowsSum_cons, valLE, ih]; omega
    | cons x t =>
      simp only [List.filterMap_cons, List.head?_cons, List.map_cons, List.tail_cons, rowsSum_cons, valLE, cnt_cons, ih]; omega

theorem rowsSum_all_empty (v : Label → Bool) (rows : List (List Label)) (h : rows.all (·.isEmpty) = true) :
    rowsSum v rows = 0 := by
  induction rows with
  | nil => rfl
  | cons r rs ih =>
    simp only [List.all_cons, Bool.and_eq_true, List.isEmpty_iff] at h
    rw [rowsSum_cons, h.1, ih h.2]; rfl

/-- `zip_longest` + `filter(None)`: the columns carry the same total as the rows -/
theorem colsVal_transposeRagged (v : Label → Bool) : ∀ (fuel : Nat) (rows : List (List Label)),
    (∀ r ∈ rows, r.length < fuel) → colsVal v (transposeRagged rows fuel) = rowsSum v rows := by
  intro fuel
  induction fuel with
  | zero =>
    intro rows h
    cases rows with
    | nil => rfl
    | cons r rs => exact absurd (h r (by simp)) (by omega)
  | succ fuel ih =>
    intro rows h
    unfold transposeRagged
    split
    · rename_i he; rw [rowsSum_all_empty v rows he]; rfl
    · rename_i hne
      rw [colsVal, ih, ← rowsSum_heads_tails]
      intro r hr
      obtain ⟨r', hr', rfl⟩ := List.mem_map.mp hr
      have := h r' hr'
      -- some row is non-empty, so `fuel ≥ 1`
      have hf : 1 ≤ fuel := by
        rcases Nat.eq_zero_or_pos fuel with h0 | h0
        · exfalso; apply hne; rw [List.all_eq_true]; intro r2 hr2
          have := h r2 hr2
          rw [List.isEmpty_iff]; exact List.eq_nil_of_length_eq_zero (by omega)
        · exact h0
      rw [List.length_tail]; omega

theorem le_foldl_max (l : List Nat) : ∀ (a : Nat), (a ≤ l.foldl max a) ∧ ∀ x ∈ l, x ≤ l.foldl max a := by
  induction l with
  | nil => intro a; simp
  | cons y r ih =>
    intro a
    simp only [List.foldl_cons, List.mem_cons]
    obtain ⟨h1, h2⟩ := ih (max a y)
    refine ⟨by omega, ?_⟩
    rintro x (rfl | hx)
    · omega
    · exact h2 x hx

/-- the state of the chunk loops of `add_sum_pow2_m1` -/
structure P2Inv (v : Label → Bool) (ins labels : List Label) (out : List (List Label)) : Prop where
  pot : cnt v labels + 2 * rowsTail v out = cnt v ins
  ne : ∀ r ∈ out, r ≠ []
  same : out = [] → labels = ins
  link : out ≠ [] → ∃ r0 rest, out.getLast? = some (r0 :: rest) ∧ labels.getLast? = some r0
  pos : 1 ≤ labels.length

theorem cnt_take_drop (v : Label → Bool) (l : List Label) (i : Nat) : cnt v l = cnt v (l.take i) + cnt v (l.drop i) := by
  conv => lhs; rw [← List.take_append_drop i l, cnt_append]

theorem sem_pow2Chunk {v : Label → Bool} {basis : BasisArg} {i : Nat} {ins : List Label} : ∀ (fuel : Nat) (labels : List Label)
    (out : List (List Label)) (labels' : List Label) (out' : List (List Label)),
    Sem (pow2Chunk basis i fuel labels out) v (labels', out') → P2Inv v ins labels out →
    P2Inv v ins labels' out' ∧ labels'.length < i := by
  intro fuel
  induction fuel with
  | zero =>
    intro labels out labels' out' h hinv
    simp only [pow2Chunk] at h
    split at h
    · exact absurd h sem_fail
    · rename_i hlt
      simp only [sem_pure, Prod.mk.injEq] at h
      obtain ⟨rfl, rfl⟩ := h
      exact ⟨hinv, by omega⟩
  | succ fuel ih =>
    intro labels out labels' out' h hinv
    simp only [pow2Chunk] at h
    split at h
    · rename_i hge
      simp only [sem_bind] at h
      obtain ⟨r, hr, h⟩ := h
      split at h
      · rename_i r0 rest
        have hv := sem_addSumNBits hr
        simp only [revIf, Bool.false_eq_true, if_false, valLE] at hv
        refine ih _ _ _ _ h ⟨?_, ?_, ?_, ?_, ?_⟩
        · have := hinv.pot
          rw [cnt_take_drop v labels i] at this
          rw [rowsTail_append]
          simp only [cnt_append, cnt_cons, cnt_nil, rowsTail, List.map_cons, List.map_nil, List.tail_cons,
            rowsSum_cons, rowsSum_nil] at this ⊢
          omega
        · intro r' hr'
          rcases List.mem_append.mp hr' with h1 | h1
          · exact hinv.ne r' h1
          · simp only [List.mem_singleton] at h1; subst h1; simp
        · intro he; simp at he
        · intro _; exact ⟨r0, rest, by simp, by simp⟩
        · simp
      · exact absurd h sem_fail
    · rename_i hlt
      simp only [sem_pure, Prod.mk.injEq] at h
      obtain ⟨rfl, rfl⟩ := h
      exact ⟨hinv, by omega⟩

theorem sem_pow2Pass {v : Label → Bool} {basis : BasisArg} {ins labels labels' : List Label} {out out' : List (List Label)}
    (h : Sem (pow2Pass basis labels out) v (labels', out')) (hinv : P2Inv v ins labels out) :
    P2Inv v ins labels' out' ∧ labels'.length < 3 := by
  simp only [pow2Pass, sem_bind] at h
  obtain ⟨⟨l1, o1⟩, h1, ⟨l2, o2⟩, h2, ⟨l3, o3⟩, h3, h4⟩ := h
  obtain ⟨i1, _⟩ := sem_pow2Chunk _ _ _ _ _ h1 hinv
  obtain ⟨i2, _⟩ := sem_pow2Chunk _ _ _ _ _ h2 i1
  obtain ⟨i3, _⟩ := sem_pow2Chunk _ _ _ _ _ h3 i2
  exact sem_pow2Chunk _ _ _ _ _ h4 i3

theorem colsVal_map_revIf (v : Label → Bool) (cols : List (List Label)) (be : Bool) :
    colsVal v (cols.map (fun col => revIf col be)) = colsVal v cols := by
  induction cols with
  | nil => rfl
  | cons c r ih =>
    simp only [List.map_cons, colsVal, ih]
    cases be <;> simp [revIf, cnt_reverse]

/-- **`add_sum_pow2_m1`**: the returned columns (column `j` has weight `2^j`) carry exactly the
number of true inputs, and the weight-1 column is a single bit -/
theorem sem_addSumPow2M1 {v : Label → Bool} {ins : List Label} {be : Bool} {basis : BasisArg} {out : List (List Label)}
    (h : Sem (addSumPow2M1 ins be basis) v out) :
    colsVal v out = cnt v ins ∧ ∃ z rest, out = [z] :: rest := by
  unfold addSumPow2M1 at h
  split at h
  · exact absurd h sem_fail
  · rename_i x xs
    split at h
    · exact absurd h sem_fail
    · rename_i bs _
      split at h
      · rw [sem_pure] at h; subst h
        exact ⟨by simp [colsVal, cnt], x, [], rfl⟩
      · rename_i hxs
        simp only [sem_bind] at h
        obtain ⟨⟨l1, o1⟩, hp, ⟨lf, o2⟩, hm, h⟩ := h
        have hinit : P2Inv v (x :: xs) (x :: xs) [] :=
          ⟨by simp [rowsTail, rowsSum], by simp, fun _ => rfl, fun h => absurd rfl h, by simp⟩
        have h1 : P2Inv v (x :: xs) l1 o1 ∧ l1.length < 3 := by
          split at hp
          · exact sem_pow2Pass hp hinit
          · rename_i hle
            simp only [sem_pure, Prod.mk.injEq] at hp
            obtain ⟨rfl, rfl⟩ := hp
            exact ⟨hinit, by simp at hle ⊢; omega⟩
        obtain ⟨i1, hl1⟩ := h1
        -- after the optional half adder: a single label, linked to the last row
        have h2 : ∃ z, P2Inv v (x :: xs) [z] o2 ∧ o2 ≠ [] := by
          split at hm
          · rename_i a b heq
            have hl1e : l1 = [a, b] := heq
            subst hl1e
            simp only [sem_bind, sem_pure, Prod.mk.injEq] at hm
            obtain ⟨r, hr, rfl, rfl⟩ := hm
            have hs : ∃ x' y' s c, [a, b] = [x', y'] ∧ r = [s, c] ∧ bv v s + 2 * bv v c = bv v x' + bv v y' := by
              cases bs
              · exact sem_addSum2 hr
              · exact sem_addSum2Aig hr
            obtain ⟨x', y', s, c, hin, rfl, hv⟩ := hs
            cases hin
            refine ⟨s, ⟨?_, ?_, ?_, ?_, ?_⟩, by simp⟩
            · have := i1.pot
              rw [rowsTail_append]
              simp only [cnt_cons, cnt_nil, rowsTail, List.map_cons, List.map_nil, List.tail_cons,
                rowsSum_cons, rowsSum_nil, valLE, List.headD_cons] at this ⊢
              omega
            · intro r' hr'
              rcases List.mem_append.mp hr' with h1 | h1
              · exact i1.ne r' h1
              · simp only [List.mem_singleton] at h1; subst h1; simp
            · intro he; simp at he
            · intro _; exact ⟨s, [c], by simp, by simp⟩
            · simp
          · rename_i hnot
            simp only [sem_pure, Prod.mk.injEq] at hm
            obtain ⟨rfl, rfl⟩ := hm
            have hlen1 : lf.length = 1 := by
              have := i1.pos
              rcases Nat.lt_or_ge lf.length 2 with h2 | h2
              · omega
              · exfalso
                match lf, hl1, h2 with
                | [a, b], _, _ => exact hnot a b rfl
            match lf, hlen1 with
            | [z], _ =>
              refine ⟨z, i1, ?_⟩
              intro he
              have := i1.same he
              cases this
              exact hxs rfl
        obtain ⟨z, i2, hne2⟩ := h2
        obtain ⟨r0, rest0, hlast, hz⟩ := i2.link hne2
        simp only [List.getLast?_singleton, Option.some.injEq] at hz
        subst hz
        obtain ⟨init, hinit2⟩ := List.getLast?_eq_some_iff.mp hlast
        -- unfold one step of the transposition
        have hnotall : ¬ (o2.all (·.isEmpty) = true) := by
          rw [hinit2]; simp
        generalize hfu : (o2.map (·.length)).foldl max 0 = mx at h
        have hmx : ∀ r ∈ o2, r.length ≤ mx := by
          intro r hr
          rw [← hfu]
          exact (le_foldl_max _ 0).2 _ (List.mem_map_of_mem hr)
        rw [transposeRagged, if_neg hnotall] at h
        simp only [] at h
        have hheads : (o2.filterMap (·.head?)).getLast? = some z := by
          rw [hinit2, List.filterMap_append]; simp
        rw [hheads] at h
        simp only [sem_pure] at h
        subst h
        refine ⟨?_, z, (transposeRagged (o2.map List.tail) mx).map (fun col => revIf col be), by cases be <;> simp [revIf]⟩
        have hrest := colsVal_transposeRagged v mx (o2.map List.tail) (by
          intro r hr
          obtain ⟨r', hr', rfl⟩ := List.mem_map.mp hr
          have := hmx r' hr'
          have := i2.ne r' hr'
          cases r' with
          | nil => exact absurd rfl this
          | cons _ _ => simp at *; omega)
        have hpot := i2.pot
        rw [colsVal_map_revIf, colsVal, hrest]
        simp only [rowsTail, cnt_cons, cnt_nil] at hpot ⊢
        exact hpot

theorem valLE_mul_lt' (v : Label → Bool) (a b : List Label) : valLE v a * valLE v b < 2 ^ (a.length + b.length) := by
  rw [Nat.pow_add]; exact Nat.mul_lt_mul'' (valLE_lt v a) (valLE_lt v b)

/-! ## the column loop of `add_mul_pow2_m1` / `add_square_pow2_m1` -/

theorem colsVal_drop (v : Label → Bool) : ∀ (c : List (List Label)) (d : Nat),
    colsVal v (c.drop d) = cnt v (c.getD d []) + 2 * colsVal v (c.drop (d + 1)) := by
  intro c
  induction c with
  | nil => intro d; simp [colsVal, cnt]
  | cons x r ih =>
    intro d
    cases d with
    | zero => simp [colsVal]
    | succ d => simpa using ih d

def headBit (v : Label → Bool) (o : List (List Label)) : Nat :=
  match o with
  | (x :: _) :: _ => bv v x
  | _ => 0

def headsVal (v : Label → Bool) : List (List (List Label)) → Nat
  | [] => 0
  | o :: r => headBit v o + 2 * headsVal v r

theorem headsVal_append (v : Label → Bool) (a b : List (List (List Label))) :
    headsVal v (a ++ b) = headsVal v a + 2 ^ a.length * headsVal v b := by
  induction a with
  | nil => simp [headsVal]
  | cons x r ih => simp only [List.cons_append, headsVal, ih, List.length_cons, Nat.pow_succ]; rw [Nat.mul_add]; ac_rfl

/-- bits of `out[j]` with weight `≥ i`, in units of `2^i` -/
def hiSum (v : Label → Bool) (i : Nat) (l : List (List (List Label) × Nat)) : Nat :=
  (l.map (fun p => colsVal v (p.1.drop (i - p.2)))).sum

/-- bits of weight exactly `i` -/
def carr (v : Label → Bool) (i : Nat) (l : List (List (List Label) × Nat)) : Nat :=
  (l.map (fun p => cnt v (p.1.getD (i - p.2) []))).sum

theorem hiSum_step (v : Label → Bool) (i : Nat) : ∀ (l : List (List (List Label) × Nat)), (∀ p ∈ l, p.2 ≤ i) →
    hiSum v i l = carr v i l + 2 * hiSum v (i + 1) l := by
  intro l
  induction l with
  | nil => intro _; rfl
  | cons p r ih =>
    intro h
    have hp := h p (by simp)
    have := ih (fun q hq => h q (by simp [hq]))
    simp only [hiSum, carr, List.map_cons, List.sum_cons] at this ⊢
    rw [colsVal_drop v p.1 (i - p.2), this, show i + 1 - p.2 = i - p.2 + 1 by omega]
    omega

theorem cnt_flatten_map {α} (v : Label → Bool) (F : α → List Label) (l : List α) :
    cnt v (l.map F).flatten = (l.map (fun x => cnt v (F x))).sum := by
  induction l with
  | nil => rfl
  | cons x r ih => simp [cnt_append, ih]

theorem cnt_carriedInto (v : Label → Bool) (out : List (List (List Label))) (i : Nat) (h : out.length ≤ i) :
    cnt v (carriedInto out i) = carr v i out.zipIdx := by
  unfold carriedInto carr
  rw [cnt_flatten_map]
  congr 1
  apply List.map_congr_left
  rintro ⟨oj, j⟩ hp
  rw [List.mem_zipIdx_iff_getElem?] at hp
  simp only [Nat.zero_add] at hp
  have hj : j < out.length := (List.getElem?_eq_some_iff.mp hp).1
  simp only
  split
  · rfl
  · rename_i hc
    simp only [Bool.and_eq_true, decide_eq_true_eq, not_and, Nat.not_lt] at hc
    have := hc (by omega)
    rw [List.getD_eq_getElem?_getD, List.getElem?_eq_none (by omega)]
    rfl

def wcnt (v : Label → Bool) (own : Nat → List Label) (idx : List Nat) : Nat :=
  (idx.map (fun w => 2 ^ w * cnt v (own w))).sum

theorem sem_pow2Columns {v : Label → Bool} {own : Nat → List Label} {basis : BasisArg} :
    ∀ (idx : List Nat) (out out' : List (List (List Label))) (s : Nat),
    idx = List.range' s idx.length → out.length = s → (∀ o ∈ out, ∃ z rest, o = [z] :: rest) →
    Sem (pow2Columns own basis idx out) v out' →
    out'.length = s + idx.length ∧ (∀ o ∈ out', ∃ z rest, o = [z] :: rest) ∧
    headsVal v out' + 2 ^ (s + idx.length) * hiSum v (s + idx.length) out'.zipIdx =
      headsVal v out + 2 ^ s * hiSum v s out.zipIdx + wcnt v own idx := by
  intro idx
  induction idx with
  | nil =>
    intro out out' s _ hl hs h
    simp only [pow2Columns, sem_pure] at h
    subst h
    exact ⟨by simpa using hl, hs, by simp [wcnt]⟩
  | cons i r ih =>
    intro out out' s hidx hl hs h
    simp only [List.length_cons, List.range'_succ, List.cons.injEq] at hidx
    obtain ⟨rfl, hr⟩ := hidx
    -- the new entry `o`
    have key : ∃ o, Sem (pow2Columns own basis r (out ++ [o])) v out' ∧ (∃ z rest, o = [z] :: rest) ∧
        colsVal v o = cnt v (own i) + carr v i out.zipIdx := by
      simp only [pow2Columns] at h
      split at h
      · rename_i x hx
        refine ⟨[[x]], h, ⟨x, [], rfl⟩, ?_⟩
        rw [← cnt_carriedInto v out i (by omega), ← cnt_append, hx]
        simp [colsVal, cnt]
      · simp only [sem_bind] at h
        obtain ⟨o, ho, h⟩ := h
        obtain ⟨e1, e2⟩ := sem_addSumPow2M1 ho
        refine ⟨o, h, e2, ?_⟩
        rw [e1, cnt_append, cnt_carriedInto v out i (by omega)]
    obtain ⟨o, ho, ⟨z, rest, rfl⟩, hval⟩ := key
    obtain ⟨l1, l2, l3⟩ := ih (out ++ [[z] :: rest]) out' (i + 1) hr (by simp [hl])
      (by
        intro o' ho'
        rcases List.mem_append.mp ho' with h1 | h1
        · exact hs o' h1
        · simp only [List.mem_singleton] at h1; exact ⟨z, rest, h1⟩) ho
    refine ⟨by rw [l1]; simp; omega, l2, ?_⟩
    have e : i + 1 + r.length = i + (r.length + 1) := by omega
    rw [List.length_cons, ← e, l3]
    have hstep := hiSum_step v i out.zipIdx (by
      rintro ⟨oj, j⟩ hp
      rw [List.mem_zipIdx_iff_getElem?] at hp
      simp only [Nat.zero_add] at hp
      have hj : j < out.length := (List.getElem?_eq_some_iff.mp hp).1
      simp only; omega)
    rw [headsVal_append, List.zipIdx_append, hl]
    simp only [hiSum, List.map_append, List.sum_append, List.zipIdx_cons, List.zipIdx_nil, List.map_cons, List.map_nil,
      List.sum_cons, List.sum_nil, Nat.zero_add, Nat.add_zero, hl, Nat.add_sub_cancel_left, List.drop_one, List.tail_cons,
      headsVal, headBit, wcnt, Nat.mul_zero] at hstep ⊢
    simp only [colsVal, cnt_cons, cnt_nil, Nat.add_zero] at hval
    rw [Nat.pow_succ]
    generalize (List.map (fun p => colsVal v (List.drop (i - p.2) p.1)) out.zipIdx).sum = H0 at *
    generalize (List.map (fun p => colsVal v (List.drop (i + 1 - p.2) p.1)) out.zipIdx).sum = H1 at *
    generalize carr v i out.zipIdx = C at *
    generalize colsVal v rest = R at *
    generalize cnt v (own i) = O at *
    generalize 2 ^ i = T at *
    subst hstep
    have : bv v z = O + C - 2 * R := by omega
    have h1 : T * (C + 2 * H1) = T * C + 2 * (T * H1) := by rw [Nat.mul_add]; ac_rfl
    have h2 : T * 2 * (H1 + R) = 2 * (T * H1) + 2 * (T * R) := by rw [Nat.mul_add]; ac_rfl
    have h3 : T * O + T * C = T * bv v z + 2 * (T * R) := by
      rw [← Nat.mul_add, ← hval, Nat.mul_add]; ac_rfl
    rw [h1, h2]
    omega

/-! ## sums over `range` (anti-diagonal re-summation) -/

def sumR (N : Nat) (f : Nat → Nat) : Nat := ((List.range N).map f).sum

theorem sumR_zero (f : Nat → Nat) : sumR 0 f = 0 := rfl
theorem sumR_succ (N : Nat) (f : Nat → Nat) : sumR (N + 1) f = sumR N f + f N := by
  simp [sumR, List.range_succ]
theorem sumR_succ' (N : Nat) (f : Nat → Nat) : sumR (N + 1) f = f 0 + sumR N (fun i => f (i + 1)) := by
  simp [sumR, List.range_succ_eq_map, List.map_map, Function.comp_def]
theorem sumR_congr {N : Nat} {f g : Nat → Nat} (h : ∀ i, i < N → f i = g i) : sumR N f = sumR N g := by
  induction N with
  | zero => rfl
  | succ N ih => rw [sumR_succ, sumR_succ, ih (fun i hi => h i (by omega)), h N (by omega)]
theorem sumR_add (N : Nat) (f g : Nat → Nat) : sumR N (fun i => f i + g i) = sumR N f + sumR N g := by
  induction N with
  | zero => rfl
  | succ N ih => rw [sumR_succ, sumR_succ, sumR_succ, ih]; omega
theorem sumR_mul (N : Nat) (c : Nat) (f : Nat → Nat) : sumR N (fun i => c * f i) = c * sumR N f := by
  induction N with
  | zero => rfl
  | succ N ih => rw [sumR_succ, sumR_succ, ih, Nat.mul_add]
theorem sumR_const_zero (N : Nat) : sumR N (fun _ => 0) = 0 := by
  induction N with
  | zero => rfl
  | succ N ih => rw [sumR_succ, ih]
theorem sumR_swap (N M : Nat) (g : Nat → Nat → Nat) :
    sumR N (fun w => sumR M (fun i => g i w)) = sumR M (fun i => sumR N (fun w => g i w)) := by
  induction N with
  | zero => simp only [sumR_zero]; rw [sumR_const_zero]
  | succ N ih =>
    rw [sumR_succ, ih]
    have : (fun i => sumR (N + 1) (fun w => g i w)) = (fun i => sumR N (fun w => g i w) + g i N) := by
      funext i; rw [sumR_succ]
    rw [this, sumR_add]
theorem sumR_zero_ext {f : Nat → Nat} {a : Nat} (h : ∀ i, a ≤ i → f i = 0) : ∀ (d : Nat), sumR (a + d) f = sumR a f := by
  intro d
  induction d with
  | zero => rfl
  | succ d ih => rw [← Nat.add_assoc, sumR_succ, ih, h (a + d) (by omega)]; rfl
theorem sumR_shift (i K : Nat) (G : Nat → Nat) : sumR (i + K) (fun w => if i ≤ w then G (w - i) else 0) = sumR K G := by
  induction K with
  | zero =>
    have : sumR i (fun w => if i ≤ w then G (w - i) else 0) = sumR i (fun _ => 0) := by
      apply sumR_congr
      intro w hw
      rw [if_neg (by omega)]
    rw [Nat.add_zero, this, sumR_const_zero]; rfl
  | succ K ih =>
    rw [← Nat.add_assoc, sumR_succ, ih, sumR_succ, if_pos (by omega), Nat.add_sub_cancel_left]

theorem valLE_sumR (v : Label → Bool) : ∀ (r : List Label), valLE v r = sumR r.length (fun j => 2 ^ j * bv v (r.getD j PH)) := by
  intro r
  induction r with
  | nil => rfl
  | cons x r ih =>
    rw [List.length_cons, sumR_succ']
    simp only [valLE, List.getD_cons_zero, List.getD_cons_succ, Nat.pow_zero, Nat.one_mul, Nat.pow_succ]
    rw [ih, ← sumR_mul]
    congr 1
    apply sumR_congr; intro j _; rw [Nat.mul_comm (2 ^ j) 2, Nat.mul_assoc]

theorem rowsVal_sumR (v : Label → Bool) : ∀ (rows : List (List Label)),
    rowsVal v rows = sumR rows.length (fun i => 2 ^ i * valLE v (rows.getD i [])) := by
  intro rows
  induction rows with
  | nil => rfl
  | cons x r ih =>
    rw [List.length_cons, sumR_succ']
    simp only [rowsVal, List.getD_cons_zero, List.getD_cons_succ, Nat.pow_zero, Nat.one_mul, Nat.pow_succ]
    rw [ih, ← sumR_mul]
    congr 1
    apply sumR_congr; intro j _; rw [Nat.mul_comm (2 ^ j) 2, Nat.mul_assoc]

theorem cnt_filter_map (v : Label → Bool) (p : Nat → Bool) (F : Nat → Label) (l : List Nat) :
    cnt v ((l.filter p).map F) = (l.map (fun i => if p i then bv v (F i) else 0)).sum := by
  induction l with
  | nil => rfl
  | cons x r ih =>
    simp only [List.filter_cons, List.map_cons, List.sum_cons]
    split
    · simp [cnt_cons, ih]
    · simp [ih]

/-- the operand bits of weight `w` of the partial-product matrix -/
def mulOwn (rows : List (List Label)) (n m : Nat) (w : Nat) : List Label :=
  ((List.range (w + 1)).filter (fun j => j < m && w - j < n)).map (fun j => (rows.getD j []).getD (w - j) PH)

/-- summing the anti-diagonals of the partial-product matrix gives `Σ 2^i·row_i` -/
theorem antidiag_sum (v : Label → Bool) (rows : List (List Label)) (n : Nat) (hrows : ∀ r ∈ rows, r.length = n) :
    sumR (n + rows.length) (fun w => 2 ^ w * cnt v (mulOwn rows n rows.length w)) = rowsVal v rows := by
  generalize hm : rows.length = m
  let f : Nat → Nat → Nat := fun i j => bv v ((rows.getD i []).getD j PH)
  let g : Nat → Nat → Nat := fun i w => if i ≤ w then (if w - i < n then 2 ^ w * f i (w - i) else 0) else 0
  have hB : ∀ w, 2 ^ w * cnt v (mulOwn rows n m w) = sumR m (fun i => g i w) := by
    intro w
    unfold mulOwn
    rw [cnt_filter_map]
    change 2 ^ w * sumR (w + 1) (fun i => if (decide (i < m) && decide (w - i < n)) = true then f i (w - i) else 0) = _
    rw [← sumR_mul]
    let e : Nat → Nat := fun i => if i < m ∧ i ≤ w ∧ w - i < n then 2 ^ w * f i (w - i) else 0
    have h1 : sumR (w + 1) (fun i => 2 ^ w * (if (decide (i < m) && decide (w - i < n)) = true then f i (w - i) else 0)) = sumR (w + 1) e := by
      apply sumR_congr; intro i hi
      simp only [e, Bool.and_eq_true, decide_eq_true_eq]
      by_cases h1 : i < m ∧ w - i < n
      · rw [if_pos h1, if_pos ⟨h1.1, by omega, h1.2⟩]
      · rw [if_neg h1, if_neg (fun h => h1 ⟨h.1, h.2.2⟩), Nat.mul_zero]
    have h2 : sumR m (fun i => g i w) = sumR m e := by
      apply sumR_congr; intro i hi
      simp only [g, e]
      by_cases h1 : i ≤ w
      · by_cases h2 : w - i < n
        · rw [if_pos h1, if_pos h2, if_pos ⟨hi, h1, h2⟩]
        · rw [if_pos h1, if_neg h2, if_neg (fun h => h2 h.2.2)]
      · rw [if_neg h1, if_neg (fun h => h1 h.2.1)]
    rw [h1, h2]
    have z1 : ∀ i, w + 1 ≤ i → e i = 0 := fun i hi => by simp only [e]; rw [if_neg (by omega)]
    have z2 : ∀ i, m ≤ i → e i = 0 := fun i hi => by simp only [e]; rw [if_neg (by omega)]
    rcases Nat.le_total (w + 1) m with hle | hle
    · obtain ⟨d, rfl⟩ := Nat.exists_eq_add_of_le hle
      exact (sumR_zero_ext z1 d).symm
    · obtain ⟨d, hd⟩ := Nat.exists_eq_add_of_le hle
      rw [hd]; exact sumR_zero_ext z2 d
  rw [sumR_congr (fun w _ => hB w), sumR_swap, rowsVal_sumR, hm]
  apply sumR_congr
  intro i hi
  have hrow : (rows.getD i []).length = n := by
    apply hrows
    rw [List.getD_eq_getElem?_getD, List.getElem?_eq_getElem (by omega)]
    exact List.getElem_mem _
  rw [valLE_sumR, hrow, ← sumR_mul]
  let G : Nat → Nat := fun j => if j < n then 2 ^ (i + j) * f i j else 0
  have h1 : sumR (n + m) (fun w => g i w) = sumR (i + (n + m - i)) (fun w => if i ≤ w then G (w - i) else 0) := by
    rw [show i + (n + m - i) = n + m by omega]
    apply sumR_congr; intro w _
    simp only [g, G]
    by_cases h1 : i ≤ w
    · rw [if_pos h1, if_pos h1, show i + (w - i) = w by omega]
    · rw [if_neg h1, if_neg h1]
  rw [h1, sumR_shift]
  obtain ⟨d, hd⟩ := Nat.exists_eq_add_of_le (show n ≤ n + m - i by omega)
  rw [hd, sumR_zero_ext (fun j hj => by simp only [G]; rw [if_neg (by omega)]) d]
  apply sumR_congr; intro j hj
  simp only [G, f]
  rw [if_pos hj, Nat.pow_add, Nat.mul_assoc]

def fbStep (acc : Prog (List Label)) (o : List (List Label)) : Prog (List Label) := do
  let l ← acc
  match o with
  | (x :: _) :: _ => pure (l ++ [x])
  | _ => .fail "Py:IndexError"

theorem sem_fbFold {v : Label → Bool} : ∀ (c : List (List (List Label))) (acc : Prog (List Label)) (out : List Label),
    Sem (c.foldl fbStep acc) v out →
    ∃ l0 hs, Sem acc v l0 ∧ out = l0 ++ hs ∧ hs.length = c.length ∧ valLE v hs = headsVal v c := by
  intro c
  induction c with
  | nil => intro acc out h; exact ⟨out, [], h, by simp, rfl, rfl⟩
  | cons o t ih =>
    intro acc out h
    simp only [List.foldl_cons] at h
    obtain ⟨l1, hs, h1, e, hlen, hval⟩ := ih _ out h
    simp only [fbStep, sem_bind] at h1
    obtain ⟨l0, hl0, hm⟩ := h1
    split at hm
    · rename_i x c r
      simp only [sem_pure] at hm
      subst hm
      exact ⟨l0, x :: hs, hl0, by rw [e]; simp, by simp [hlen], by simp [valLE, headsVal, headBit, hval]⟩
    · exact absurd hm sem_fail

theorem sem_firstBits {v : Label → Bool} {c : List (List (List Label))} {out : List Label} (h : Sem (firstBits c) v out) :
    out.length = c.length ∧ valLE v out = headsVal v c := by
  have h' : Sem (c.foldl fbStep (pure [])) v out := h
  obtain ⟨l0, hs, h0, e, hl, hv⟩ := sem_fbFold c _ out h'
  rw [sem_pure] at h0
  subst h0
  simp only [List.nil_append] at e
  subst e
  exact ⟨hl, hv⟩

theorem rowsVal_heads (v : Label → Bool) : ∀ {c : List (List Label)} {hs : List Label},
    All2 (fun col x => ∃ rest, col = x :: rest) c hs → (∀ r ∈ c, r.length = 1) → rowsVal v c = valLE v hs := by
  intro c hs h
  induction h with
  | nil => intro _; rfl
  | @cons col x t ts hx _ ih =>
    intro hlen
    obtain ⟨rest, rfl⟩ := hx
    have h0 := hlen (x :: rest) (by simp)
    simp only [List.length_cons] at h0
    have : rest = [] := List.eq_nil_of_length_eq_zero (by omega)
    subst this
    simp only [rowsVal, valLE]
    rw [ih (fun r hr => hlen r (by simp [hr]))]
    omega

theorem wcnt_range' (v : Label → Bool) (own : Nat → List Label) (N : Nat) :
    2 ^ 0 * cnt v (own 0) + wcnt v own (List.range' 1 N) = sumR (N + 1) (fun w => 2 ^ w * cnt v (own w)) := by
  rw [sumR_succ']
  congr 1
  simp only [wcnt, sumR, List.range'_eq_map_range, List.map_map, Function.comp_def]
  congr 1
  apply List.map_congr_left
  intro w _
  rw [Nat.add_comm 1 w]

/-- **`add_mul_pow2_m1`** on little-endian operands of any widths: the result is `a·b` -/
theorem sem_mulPow2M1Core {v : Label → Bool} {a b out : List Label} (h : Sem (mulPow2M1Core a b) v out) :
    valLE v out = valLE v a * valLE v b ∧
      out.length = (if a.length = 1 then b.length else if b.length = 1 then a.length else a.length + b.length) := by
  simp only [mulPow2M1Core, sem_bind] at h
  obtain ⟨rows, hr, h⟩ := h
  obtain ⟨rows', e1, e2, e3, e4, e5⟩ := sem_ppRows _ _ _ hr
  simp only [List.nil_append] at e1; subst e1
  by_cases h1 : a.length = 1
  · simp only [h1, beq_self_eq_true, if_true] at h
    rw [if_pos h1]
    have h' : Sem (heads rows) v out := h
    have hall := sem_heads h'
    refine ⟨?_, by rw [← all2_length hall, e2]⟩
    rw [← e4, rowsVal_heads v hall (fun r hr => by rw [e3 r hr, h1])]
  · have hbeq : (a.length == 1) = false := by simpa using h1
    simp only [hbeq, Bool.false_eq_true, if_false] at h
    rw [if_neg h1]
    by_cases h2 : b.length = 1
    · simp only [h2, beq_self_eq_true, if_true] at h
      rw [if_pos h2]
      match rows, e2, e3, e4 with
      | [r0], _, e3, e4 =>
        simp only [sem_pure] at h
        subst h
        refine ⟨?_, e3 _ (by simp)⟩
        rw [← e4]; simp [rowsVal]
      | [], e2, _, _ => simp [h2] at e2
      | _ :: _ :: _, e2, _, _ => simp [h2] at e2
    · have hbeq2 : (b.length == 1) = false := by simpa using h2
      simp only [hbeq2, Bool.false_eq_true, if_false] at h
      rw [if_neg h2]
      split at h
      · rename_i c00 r0 rs
        simp only [sem_bind] at h
        obtain ⟨cols, hc, hf⟩ := h
        have hn : 1 ≤ a.length := by
          have := e3 (c00 :: r0) (by simp); simp at this; omega
        have hm : 1 ≤ b.length := by rw [← e2]; simp
        generalize hN : a.length + b.length = N at *
        have hc' : Sem (pow2Columns (mulOwn ((c00 :: r0) :: rs) a.length b.length) (.enum .xaig) ((List.range N).drop 1) [[[c00]]]) v cols := hc
        have hidx : (List.range N).drop 1 = List.range' 1 (N - 1) := by
          rw [List.range_eq_range', List.drop_range']
        rw [hidx] at hc'
        obtain ⟨l1, _, l3⟩ := sem_pow2Columns _ _ _ 1 (by simp) (by simp) (by
          intro o ho; simp only [List.mem_singleton] at ho; exact ⟨c00, [], ho⟩) hc'
        obtain ⟨f1, f2⟩ := sem_firstBits hf
        simp only [List.length_range'] at l1 l3
        have hN1 : 1 + (N - 1) = N := by omega
        rw [hN1] at l1 l3
        have hown0 : mulOwn ((c00 :: r0) :: rs) a.length b.length 0 = [c00] := by
          unfold mulOwn
          have : (List.range (0 + 1)).filter (fun j => decide (j < b.length) && decide (0 - j < a.length)) = [0] := by
            simp [List.range_succ]; omega
          rw [this]; rfl
        have hw := wcnt_range' v (mulOwn ((c00 :: r0) :: rs) a.length b.length) (N - 1)
        rw [show N - 1 + 1 = N by omega, hown0] at hw
        have hanti := antidiag_sum v ((c00 :: r0) :: rs) a.length e3
        rw [e2, hN] at hanti
        rw [hanti, e4] at hw
        simp only [headsVal, headBit, hiSum, List.zipIdx_cons, List.zipIdx_nil, List.map_cons, List.map_nil, List.sum_cons,
          List.sum_nil, Nat.sub_zero, List.drop_one, List.tail_cons, colsVal, Nat.mul_zero, Nat.add_zero, cnt_cons, cnt_nil,
          Nat.pow_zero, Nat.one_mul] at l3 hw
        have hlt := valLE_lt v out
        rw [f1, l1] at hlt
        have hprod := valLE_mul_lt' v a b
        rw [hN] at hprod
        rw [f2]
        refine ⟨?_, by rw [f1, l1]⟩
        rw [← f2] at l3 ⊢
        generalize (List.map (fun p => colsVal v (List.drop (N - p.2) p.1)) cols.zipIdx).sum = K at l3
        cases K with
        | zero => omega
        | succ K =>
          exfalso
          have : 2 ^ N ≤ 2 ^ N * (K + 1) := Nat.le_mul_of_pos_right _ (by omega)
          omega
      · exact absurd h sem_fail

theorem baseSpec_mulPow2M1' : ∀ (v : Label → Bool) (a b out : List Label), a.length = b.length → 1 ≤ a.length →
    Sem (mulPow2M1Core a b) v out →
    valLE v out = valLE v a * valLE v b ∧ out.length = if a.length = 1 then 1 else 2 * a.length := by
  intro v a b out hab ha h
  obtain ⟨h1, h2⟩ := sem_mulPow2M1Core h
  refine ⟨h1, ?_⟩
  rw [h2]
  split
  · omega
  · rw [if_neg (by omega)]; omega

end Cirbo
