import Cirbo.Proofs.RemoveGate
import Cirbo.Proofs.ConnFull
import Cirbo.Proofs.Rename
import Cirbo.Proofs.RemoveBlock
/-!
# More public mutators keep the C02 invariant: copy, make_block_from_slice, left connections
-/
namespace Cirbo
open GateType Circuit

/-! ## copy -/

def copyStep (c : Circuit) : R Circuit → Label → R Circuit := fun acc l => match acc with
  | .error e => .error e
  | .ok n => match c.find? l with
    | none => .error "GateDoesntExistError"
    | some g => n.addGate g

theorem copyFold_error (c : Circuit) (e : String) : ∀ (ls : List Label), ls.foldl (copyStep c) (.error e) = .error e := by
  intro ls; induction ls with
  | nil => rfl
  | cons a t ih => simpa [copyStep] using ih

theorem copyFold_wfs {c : Circuit} (hio : ∀ g ∈ c.gates, g.ty = INPUT → g.ops = []) :
    ∀ (ls : List Label) (n n' : Circuit), WFS n → ls.foldl (copyStep c) (.ok n) = .ok n' → WFS n' := by
  intro ls
  induction ls with
  | nil => intro n n' hw h; simp at h; subst h; exact hw
  | cons l r ih =>
    intro n n' hw h
    simp only [List.foldl_cons] at h
    cases hs : copyStep c (.ok n) l with
    | error e => rw [hs, copyFold_error] at h; cases h
    | ok n1 =>
      rw [hs] at h
      unfold copyStep at hs
      simp only at hs
      cases hf : c.find? l with
      | none => simp [hf] at hs
      | some g =>
        simp only [hf] at hs
        exact ih n1 n' (addGate_wfs hw (hio g (find_some_mem hf).1) hs) h

def blockStep : R Circuit → Block → R Circuit := fun acc b => match acc with
  | .error e => .error e
  | .ok n => n.makeBlock b.name b.gates b.outputs (some b.inputs)

theorem blockFold_error (e : String) : ∀ (bs : List Block), bs.foldl blockStep (.error e) = .error e := by
  intro bs; induction bs with
  | nil => rfl
  | cons a t ih => simpa [blockStep] using ih

theorem blockFold_wfs : ∀ (bs : List Block) (n n' : Circuit), WFS n → bs.foldl blockStep (.ok n) = .ok n' → WFS n' := by
  intro bs
  induction bs with
  | nil => intro n n' hw h; simp at h; subst h; exact hw
  | cons b r ih =>
    intro n n' hw h
    simp only [List.foldl_cons] at h
    cases hs : blockStep (.ok n) b with
    | error e => rw [hs, blockFold_error] at h; cases h
    | ok n1 => rw [hs] at h; exact ih n1 n' (makeBlock_wfs (name := b.name) (gs := b.gates) (outs := b.outputs) (ins := some b.inputs) hw hs) h

/-- **`copy.copy(circuit)`** of a well-formed circuit is well formed -/
theorem copy_wfs {c c' : Circuit} (hw : WFS c) (h : c.copy = .ok c') : WFS c' := by
  unfold Circuit.copy at h
  split at h
  · cases h
  · rename_i order _
    simp only at h
    split at h
    · cases h
    · rename_i n1 h1'
      have h1 : order.foldl (copyStep c) (.ok Circuit.empty) = .ok n1 := h1'
      have w1 := copyFold_wfs hw.inputOps order _ _ wfs_empty h1
      split at h
      · cases h
      · rename_i n2 h2
        have w2 := setInputs_wfs w1 h2
        split at h
        · cases h
        · rename_i n3 h3
          have w3 := setOutputs_wfs w2 h3
          have h4 : c.blocks.foldl blockStep (.ok n3) = .ok c' := h
          exact blockFold_wfs c.blocks n3 c' w3 h4

/-- **`make_block_from_slice`** keeps the invariant -/
theorem makeBlockFromSlice_wfs {c c' : Circuit} {name : Label} {ins outs : List Label} (hw : WFS c)
    (h : c.makeBlockFromSlice name ins outs = .ok c') : WFS c' := by
  unfold makeBlockFromSlice at h
  split at h
  · cases h
  · split at h
    · cases h
    · split at h
      · cases h
      · simp only at h
        split at h
        · cases h
        · exact makeBlock_wfs hw h

/-! ## left connections -/

theorem wfs_blocks {c : Circuit} (hw : WFS c) (bs : List Block)
    (hb : ∀ b ∈ bs, (∀ l ∈ b.gates, l ∈ c.labels) ∧ (∀ l ∈ b.inputs, l ∈ c.labels)) :
    WFS { c with blocks := bs } :=
  ⟨hw.nodup, hw.closed, hw.rank, hw.inputsNodup, hw.inputsOK, hw.outputsOK, hw.usersL, hw.usersC, hb, hw.inputOps⟩

theorem get?_zipFold_some : ∀ (ps : List (Label × Label)) (m : Dict Label) (l x : Label),
    Dict.get? (ps.foldl (fun m p => Dict.set m p.1 p.2) m) l = some x → Dict.get? m l = some x ∨ (l, x) ∈ ps := by
  intro ps
  induction ps with
  | nil => intro m l x h; exact Or.inl h
  | cons p t ih =>
    intro m l x h
    simp only [List.foldl_cons] at h
    rcases ih _ l x h with h1 | h1
    · rw [Dict.get?_set] at h1
      by_cases e : l = p.1
      · simp only [e, if_true, Option.some.injEq] at h1
        right; subst h1; rw [e]; simp
      · simp only [e, if_false] at h1; exact Or.inl h1
    · exact Or.inr (List.mem_cons_of_mem _ h1)

structure ConnKInv (st : ConnSt) : Prop where
  wfs : WFS st.c
  vals : ∀ l x, Dict.get? st.o2n l = some x → x ∈ st.c.labels
  forB : ∀ x ∈ st.forBlock, x ∈ st.c.labels

theorem mapLabels_mem {m : Dict Label} {ls r : List Label} (h : mapLabels m ls = .ok r) :
    ∀ x ∈ r, ∃ l, Dict.get? m l = some x := by
  have := mapLabels_spec m ls r h
  clear h
  induction this with
  | nil => intro x hx; cases hx
  | cons h1 _ ih =>
    intro x hx
    rcases List.mem_cons.mp hx with rfl | hx
    · exact ⟨_, h1⟩
    · exact ih x hx

theorem connStep_kinv {other : Circuit} (hio : ∀ g ∈ other.gates, g.ty = INPUT → g.ops = [])
    {m : Dict Label} {pre : String} {st st' : ConnSt} {cur : Label}
    (inv : ConnKInv st) (hs : connStep other m pre false (.ok st) cur = .ok st') : ConnKInv st' := by
  unfold connStep at hs
  simp only at hs
  cases hf : other.find? cur with
  | none => simp [hf] at hs
  | some g =>
    simp only [hf] at hs
    split at hs
    · cases hm : mapLabels (Dict.set st.o2n cur (pre ++ cur)) g.ops with
      | error e => simp [hm] at hs
      | ok ops =>
        simp only [hm] at hs
        cases ha : st.c.addGate ⟨pre ++ cur, g.ty, ops⟩ with
        | error e => simp [ha] at hs
        | ok c1 =>
          simp only [ha, Except.ok.injEq] at hs
          subst hs
          have hgi : (⟨pre ++ cur, g.ty, ops⟩ : Gate).ty = INPUT → (⟨pre ++ cur, g.ty, ops⟩ : Gate).ops = [] := by
            intro ht
            have := hio g (find_some_mem hf).1 ht
            have hl := mapLabels_length _ _ _ hm
            rw [this] at hl
            exact List.length_eq_zero_iff.mp hl
          obtain ⟨_, _, hg1, _⟩ := addGate_fields ha
          have hlab : ∀ x, x ∈ st.c.labels → x ∈ c1.labels := by
            intro x hx; unfold Circuit.labels at hx ⊢; rw [hg1]; simp [hx]
          have hnew : pre ++ cur ∈ c1.labels := by unfold Circuit.labels; rw [hg1]; simp
          refine ⟨addGate_wfs inv.wfs hgi ha, ?_, ?_⟩
          · intro l x hl
            simp only at hl
            rw [Dict.get?_set] at hl
            by_cases e : l = cur
            · simp only [e, if_true, Option.some.injEq] at hl; subst hl; exact hnew
            · simp only [e, if_false] at hl; exact hlab x (inv.vals l x hl)
          · intro x hx
            simp only at hx
            split at hx
            · rcases List.mem_append.mp hx with hx | hx
              · exact hlab x (inv.forB x hx)
              · simp only [List.mem_singleton] at hx; subst hx; exact hnew
            · exact hlab x (inv.forB x hx)
    · simp only [Bool.false_eq_true, if_false, Except.ok.injEq] at hs
      subst hs; exact inv

theorem connLoop_kinv {other : Circuit} (hio : ∀ g ∈ other.gates, g.ty = INPUT → g.ops = [])
    {m : Dict Label} {pre : String} : ∀ (order : List Label) (st0 st : ConnSt), ConnKInv st0 →
      order.foldl (connStep other m pre false) (.ok st0) = .ok st → ConnKInv st := by
  intro order
  induction order with
  | nil => intro st0 st hi h; simp at h; subst h; exact hi
  | cons cur rest ih =>
    intro st0 st hi h
    simp only [List.foldl_cons] at h
    cases hs : connStep other m pre false (.ok st0) cur with
    | error e => rw [hs, foldl_connStep_error] at h; cases h
    | ok st1 => rw [hs] at h; exact ih st1 st (connStep_kinv hio hi hs) h

theorem bfold_wfs {o2n : Dict Label} {pre : String} {L : List Label}
    (hv : ∀ l x, Dict.get? o2n l = some x → x ∈ L) :
    ∀ (bs : List Block) (cc c3 : Circuit), WFS cc → cc.labels = L →
      bs.foldl (bstepFn o2n pre) (.ok cc) = .ok c3 → WFS c3 ∧ c3.labels = L := by
  intro bs
  induction bs with
  | nil => intro cc c3 hw hl h; simp at h; subst h; exact ⟨hw, hl⟩
  | cons b r ih =>
    intro cc c3 hw hl h
    simp only [List.foldl_cons] at h
    cases hs : bstepFn o2n pre (.ok cc) b with
    | error e => rw [hs, bfold_error] at h; cases h
    | ok c1 =>
      rw [hs] at h
      unfold bstepFn at hs
      simp only at hs
      split at hs
      · cases hs
      · split at hs
        · rename_i bi bg bo hi hg ho
          simp only [Except.ok.injEq] at hs
          subst hs
          refine ih _ c3 (wfs_blocks hw (cc.blocks ++ [⟨pre ++ b.name, bi, bg, bo⟩]) ?_) hl h
          intro b' hb'
          rcases List.mem_append.mp hb' with hb' | hb'
          · exact hw.blocksOK b' hb'
          · simp only [List.mem_singleton] at hb'; subst hb'
            constructor
            · intro l hlm
              obtain ⟨l0, h0⟩ := mapLabels_mem hg l hlm
              rw [hl]; exact hv l0 l h0
            · intro l hlm
              obtain ⟨l0, h0⟩ := mapLabels_mem hi l hlm
              rw [hl]; exact hv l0 l h0
        · cases hs

/-- **every left connection keeps the invariant**: `connect_circuit(right_connect=False)`, hence
`connect_left`, `extend_circuit` and `add_circuit` -/
theorem connectLeft_wfs {c other c' : Circuit} {thisC otherC : List Label} {name : Label} {addP : Bool}
    (hw : WFS c) (hwo : WFS other) (h : c.connectCircuit other thisC otherC false name addP = .ok c') : WFS c' := by
  obtain ⟨order, st, _, hfold, hfin, _, _, _, _, hthis⟩ := connect_left_unfold h
  have k0 : ConnKInv ⟨c, connMapping thisC otherC, []⟩ := by
    refine ⟨hw, ?_, by intro x hx; cases hx⟩
    intro l x hl
    rcases get?_zipFold_some _ _ l x hl with h1 | h1
    · simp [Dict.get?] at h1
    · exact hthis x (List.of_mem_zip h1).2
  have kinv := connLoop_kinv hwo.inputOps order _ st k0 hfold
  -- the tail
  unfold connFinish at hfin
  simp only at hfin
  split at hfin
  · cases hfin
  · split at hfin
    · cases hfin
    · rename_i c1 hso
      have w1 := setOutputs_wfs kinv.wfs hso
      split at hfin
      · cases hfin
      · split at hfin
        · cases hfin
        · split at hfin
          · cases hfin
          · rename_i c2 hsi
            have w2 := setInputs_wfs w1 hsi
            have hl2 : c2.labels = st.c.labels := by
              unfold Circuit.labels; rw [setInputs_gates hsi, setOutputs_gates hso]
            split at hfin
            · cases hfin
            · rename_i c3 hb0
              have hb : other.blocks.foldl (bstepFn st.o2n (connPre name addP)) (.ok c2) = .ok c3 := hb0
              obtain ⟨w3, hl3⟩ := bfold_wfs (L := st.c.labels) kinv.vals other.blocks c2 c3 w2 hl2 hb
              split at hfin
              · simp only [Except.ok.injEq] at hfin; subst hfin; exact w3
              · split at hfin
                · rename_i bi bo hmi hmo
                  have hnb : (∀ l ∈ st.forBlock, l ∈ c3.labels) ∧ (∀ l ∈ bi, l ∈ c3.labels) := by
                    constructor
                    · intro l hl; rw [hl3]; exact kinv.forB l hl
                    · intro l hl
                      obtain ⟨l0, h0⟩ := mapLabels_mem hmi l hl
                      rw [hl3]; exact kinv.vals l0 l h0
                  split at hfin
                  · simp only [Except.ok.injEq] at hfin; subst hfin
                    apply wfs_blocks w3
                    intro b hb'
                    obtain ⟨b0, hb0', rfl⟩ := List.mem_map.mp hb'
                    split
                    · exact hnb
                    · exact w3.blocksOK b0 hb0'
                  · simp only [Except.ok.injEq] at hfin; subst hfin
                    apply wfs_blocks w3
                    intro b hb'
                    rcases List.mem_append.mp hb' with hb' | hb'
                    · exact w3.blocksOK b hb'
                    · simp only [List.mem_singleton] at hb'; subst hb'; exact hnb
                · cases hfin

end Cirbo
