import Cirbo.Spec.Cnf
import Cirbo.Spec.Bool
import Cirbo.Model.Tseytin
import Cirbo.Generated.TseytinTemplates
/-!
# Every Tseytin clause template is exact, at every accepted arity (C05, C01)
-/
namespace Cirbo
open GateType

/-! ### generated templates = model templates (finite, arity ≤ 4) -/

theorem gen_templates_eq_model (ty : GateType) (k : Nat) (hk : k ≤ 4) (hty : ty ≠ INPUT) :
    Gen.tsTemplate ty k = tsTemplate ty (Int.ofNat (k + 1)) ((List.range k).map (fun i => Int.ofNat (i + 1))) := by
  have : k = 0 ∨ k = 1 ∨ k = 2 ∨ k = 3 ∨ k = 4 := by omega
  rcases this with rfl | rfl | rfl | rfl | rfl <;> cases ty <;> first | exact absurd rfl hty | decide

/-! ### AND / OR families -/

variable (σ : Nat → Bool)

theorem all_pairs (lits : List Int) (f : Int → Int) (c : Int) :
    (lits.map (fun l => [f l, c])).all (clauseSat σ)
      = (litVal σ c || lits.all (fun l => litVal σ (f l))) := by
  induction lits with
  | nil => simp
  | cons a r ih =>
    simp only [List.map_cons, List.all_cons, ih, clauseSat, List.any_cons, List.any_nil, Bool.or_false]
    cases litVal σ c <;> cases litVal σ (f a) <;> simp

theorem any_map_lits (lits : List Int) (f : Int → Int) :
    (lits.map f).any (litVal σ) = lits.any (fun l => litVal σ (f l)) := by
  induction lits with
  | nil => rfl
  | cons a r ih => simp [List.any_cons, ih]

theorem all_neg (lits : List Int) (h : ∀ l ∈ lits, l ≠ 0) :
    lits.any (fun l => litVal σ (-l)) = !(lits.map (litVal σ)).all id := by
  induction lits with
  | nil => rfl
  | cons a r ih =>
    have ha := litVal_neg σ (h a (by simp))
    have := ih (fun l hl => h l (by simp [hl]))
    simp only [List.any_cons, List.map_cons, List.all_cons, this, ha, id]
    cases litVal σ a <;> simp

theorem all_neg' (lits : List Int) (h : ∀ l ∈ lits, l ≠ 0) :
    lits.all (fun l => litVal σ (-l)) = !(lits.map (litVal σ)).any id := by
  induction lits with
  | nil => rfl
  | cons a r ih =>
    have ha := litVal_neg σ (h a (by simp))
    have := ih (fun l hl => h l (by simp [hl]))
    simp only [List.all_cons, List.map_cons, List.any_cons, this, ha, id]
    cases litVal σ a <;> simp

theorem all_id (lits : List Int) : lits.all (fun l => litVal σ l) = (lits.map (litVal σ)).all id := by
  induction lits with
  | nil => rfl
  | cons a r ih => simp only [List.all_cons, List.map_cons, ih, id]

theorem any_id (lits : List Int) : lits.any (fun l => litVal σ l) = (lits.map (litVal σ)).any id := by
  induction lits with
  | nil => rfl
  | cons a r ih => simp only [List.any_cons, List.map_cons, ih, id]

theorem and_template (top : Int) (lits : List Int) (ht : top ≠ 0) (h : ∀ l ∈ lits, l ≠ 0) :
    cnfSat σ (lits.map (fun l => [l, -top]) ++ [top :: lits.map (fun l => -l)])
      = (litVal σ top == (lits.map (litVal σ)).all id) := by
  rw [cnfSat_append]
  simp only [cnfSat, all_pairs σ lits (fun l => l) (-top), List.all_cons, List.all_nil, Bool.and_true,
    clauseSat, List.any_cons, any_map_lits, all_neg σ lits h, litVal_neg σ ht, all_id]
  cases litVal σ top <;> cases (lits.map (litVal σ)).all id <;> rfl

theorem nand_template (top : Int) (lits : List Int) (ht : top ≠ 0) (h : ∀ l ∈ lits, l ≠ 0) :
    cnfSat σ (lits.map (fun l => [l, top]) ++ [(-top) :: lits.map (fun l => -l)])
      = (litVal σ top == !(lits.map (litVal σ)).all id) := by
  rw [cnfSat_append]
  simp only [cnfSat, all_pairs σ lits (fun l => l) top, List.all_cons, List.all_nil, Bool.and_true,
    clauseSat, List.any_cons, any_map_lits, all_neg σ lits h, litVal_neg σ ht, all_id]
  cases litVal σ top <;> cases (lits.map (litVal σ)).all id <;> rfl

theorem or_template (top : Int) (lits : List Int) (ht : top ≠ 0) (h : ∀ l ∈ lits, l ≠ 0) :
    cnfSat σ (lits.map (fun l => [-l, top]) ++ [(-top) :: lits])
      = (litVal σ top == (lits.map (litVal σ)).any id) := by
  rw [cnfSat_append]
  simp only [cnfSat, all_pairs σ lits (fun l => -l) top, List.all_cons, List.all_nil, Bool.and_true,
    clauseSat, List.any_cons, all_neg' σ lits h, litVal_neg σ ht]
  have : lits.any (litVal σ) = (lits.map (litVal σ)).any id := any_id σ lits
  rw [this]
  cases litVal σ top <;> cases (lits.map (litVal σ)).any id <;> rfl

theorem nor_template (top : Int) (lits : List Int) (ht : top ≠ 0) (h : ∀ l ∈ lits, l ≠ 0) :
    cnfSat σ (lits.map (fun l => [-l, -top]) ++ [top :: lits])
      = (litVal σ top == !(lits.map (litVal σ)).any id) := by
  rw [cnfSat_append]
  simp only [cnfSat, all_pairs σ lits (fun l => -l) (-top), List.all_cons, List.all_nil, Bool.and_true,
    clauseSat, List.any_cons, all_neg' σ lits h, litVal_neg σ ht]
  have : lits.any (litVal σ) = (lits.map (litVal σ)).any id := any_id σ lits
  rw [this]
  cases litVal σ top <;> cases (lits.map (litVal σ)).any id <;> rfl

/-! ### parity (XOR / NXOR) -/

theorem mem_tfProduct (vals : List Bool) : ∀ k, vals ∈ tfProduct k ↔ vals.length = k := by
  induction vals with
  | nil =>
    intro k
    cases k with
    | zero => simp [tfProduct]
    | succ n => simp [tfProduct]
  | cons b r ih =>
    intro k
    cases k with
    | zero => simp [tfProduct]
    | succ n =>
      simp only [tfProduct, List.mem_append, List.mem_map, List.cons.injEq, List.length_cons,
        Nat.add_right_cancel_iff]
      constructor
      · rintro (⟨x, hx, _, rfl⟩ | ⟨x, hx, _, rfl⟩) <;> exact (ih n).mp hx
      · intro h
        cases b
        · right; exact ⟨r, (ih n).mpr h, rfl, rfl⟩
        · left; exact ⟨r, (ih n).mpr h, rfl, rfl⟩

/-- the operand part of the clause for `vals` is falsified exactly by the assignment `vals` -/
theorem zip_part (lits : List Int) (h : ∀ l ∈ lits, l ≠ 0) : ∀ vals : List Bool,
    vals.length = lits.length →
    (((lits.zip vals).map (fun p => if p.2 then -p.1 else p.1)).any (litVal σ) = false
      ↔ vals = lits.map (litVal σ)) := by
  induction lits with
  | nil => intro vals hl; cases vals <;> simp at hl ⊢
  | cons a r ih =>
    intro vals hl
    cases vals with
    | nil => simp at hl
    | cons b bs =>
      have ha := litVal_neg σ (h a (by simp))
      have := ih (fun l hl => h l (by simp [hl])) bs (by simpa using hl)
      simp only [List.zip_cons_cons, List.map_cons, List.any_cons, Bool.or_eq_false_iff, this,
        List.cons.injEq]
      cases b <;> cases hla : litVal σ a <;> simp [ha, hla]

theorem parityOf_cons (acc : Bool) (vals : List Bool) :
    vals.foldl xor acc = xor acc (xorAll vals) := by
  induction vals generalizing acc with
  | nil => simp [xorAll]
  | cons b r ih => simp only [List.foldl_cons, ih, xorAll]; cases acc <;> cases b <;> simp

theorem parityOf_eq (vals : List Bool) : parityOf vals = xorAll vals := by
  unfold parityOf; rw [parityOf_cons]; simp

theorem parity_template (top : Int) (lits : List Int) (negate : Bool) (ht : top ≠ 0)
    (h : ∀ l ∈ lits, l ≠ 0) :
    cnfSat σ (parityClauses top lits negate) = true
      ↔ litVal σ top = (xorAll (lits.map (litVal σ)) != negate) := by
  unfold parityClauses cnfSat
  rw [List.all_eq_true]
  constructor
  · intro hall
    have hm : lits.map (litVal σ) ∈ tfProduct lits.length := (mem_tfProduct _ _).mpr (by simp)
    have := hall _ (List.mem_map.mpr ⟨_, hm, rfl⟩)
    unfold clauseSat at this
    rw [List.any_append] at this
    have hz := (zip_part σ lits h (lits.map (litVal σ)) (by simp)).mpr rfl
    rw [hz, parityOf_eq] at this
    simp only [Bool.false_or, List.any_cons, List.any_nil, Bool.or_false] at this
    cases hP : (xorAll (lits.map (litVal σ)) != negate) with
    | true => simpa [hP] using this
    | false =>
      simp only [hP, Bool.false_eq_true, if_false, litVal_neg σ ht] at this
      simpa using this
  · intro heq cl hcl
    obtain ⟨vals, hv, rfl⟩ := List.mem_map.mp hcl
    have hlen := (mem_tfProduct _ _).mp hv
    unfold clauseSat
    rw [List.any_append]
    by_cases hvals : vals = lits.map (litVal σ)
    · subst hvals
      rw [parityOf_eq]
      simp only [List.any_cons, List.any_nil, Bool.or_false, Bool.or_eq_true]
      right
      cases hP : (xorAll (lits.map (litVal σ)) != negate) with
      | true => simpa [hP] using heq
      | false =>
        simp only [Bool.false_eq_true, if_false, litVal_neg σ ht, heq, hP]; rfl
    · have : ((lits.zip vals).map (fun p => if p.2 then -p.1 else p.1)).any (litVal σ) ≠ false :=
        fun e => hvals ((zip_part σ lits h vals hlen).mp e)
      simp only [Bool.not_eq_false] at this
      simp [this]

/-! ### the main template theorem -/

theorem beq_iff_some_eq (x y : Bool) : ((x == y) = true) ↔ some y = some x := by
  cases x <;> cases y <;> simp

/-- **Exactness of every clause template at every accepted arity**: for a gate of type `ty`
with literal `top` over operand literals `lits`, the emitted clauses hold under `σ` exactly when
`top` carries the gate's Boolean function of its operands. -/
theorem tsTemplate_exact (ty : GateType) (top : Int) (lits : List Int) (ht : top ≠ 0)
    (h : ∀ l ∈ lits, l ≠ 0) (hty : ty ≠ INPUT) (har : arityOk ty lits.length = true) :
    ∃ cls, tsTemplate ty top lits = some cls ∧
      ∀ σ, cnfSat σ cls = true ↔ bfun ty (lits.map (litVal σ)) = some (litVal σ top) := by
  cases ty
  case INPUT => exact absurd rfl hty
  case ALWAYS_TRUE =>
    refine ⟨_, rfl, fun σ => ?_⟩
    simp only [cnfSat, clauseSat, List.all_cons, List.any_cons, List.all_nil, List.any_nil, bfun]
    cases litVal σ top <;> simp
  case ALWAYS_FALSE =>
    refine ⟨_, rfl, fun σ => ?_⟩
    simp only [cnfSat, clauseSat, List.all_cons, List.any_cons, List.all_nil, List.any_nil, bfun,
      litVal_neg σ ht]
    cases litVal σ top <;> simp
  case AND =>
    rcases lits with _ | ⟨a, _ | ⟨b, r⟩⟩ <;> simp [arityOk] at har
    refine ⟨_, rfl, fun σ => ?_⟩
    rw [and_template σ top _ ht h, beq_iff_some_eq]; simp [bfun, eq_comm]
  case NAND =>
    rcases lits with _ | ⟨a, _ | ⟨b, r⟩⟩ <;> simp [arityOk] at har
    refine ⟨_, rfl, fun σ => ?_⟩
    rw [nand_template σ top _ ht h, beq_iff_some_eq]; simp [bfun, eq_comm]
  case OR =>
    rcases lits with _ | ⟨a, _ | ⟨b, r⟩⟩ <;> simp [arityOk] at har
    refine ⟨_, rfl, fun σ => ?_⟩
    rw [or_template σ top _ ht h, beq_iff_some_eq]; simp [bfun, eq_comm]
  case NOR =>
    rcases lits with _ | ⟨a, _ | ⟨b, r⟩⟩ <;> simp [arityOk] at har
    refine ⟨_, rfl, fun σ => ?_⟩
    rw [nor_template σ top _ ht h, beq_iff_some_eq]; simp [bfun, eq_comm]
  case XOR =>
    rcases lits with _ | ⟨a, _ | ⟨b, r⟩⟩ <;> simp [arityOk] at har
    refine ⟨_, rfl, fun σ => ?_⟩
    rw [parity_template σ top _ false ht h]; simp [bfun, eq_comm]
  case NXOR =>
    rcases lits with _ | ⟨a, _ | ⟨b, r⟩⟩ <;> simp [arityOk] at har
    refine ⟨_, rfl, fun σ => ?_⟩
    rw [parity_template σ top _ true ht h]; simp [bfun, eq_comm]
  case NOT =>
    rcases lits with _ | ⟨a, _ | ⟨b, r⟩⟩ <;> simp [arityOk] at har
    refine ⟨_, rfl, fun σ => ?_⟩
    have ha := litVal_neg σ (h a (by simp)); have ht' := litVal_neg σ ht
    simp only [cnfSat, clauseSat, List.all_cons, List.any_cons, List.all_nil, List.any_nil, ha, ht',
      List.map, bfun]
    cases litVal σ a <;> cases litVal σ top <;> simp
  case IFF =>
    rcases lits with _ | ⟨a, _ | ⟨b, r⟩⟩ <;> simp [arityOk] at har
    refine ⟨_, rfl, fun σ => ?_⟩
    have ha := litVal_neg σ (h a (by simp)); have ht' := litVal_neg σ ht
    simp only [cnfSat, clauseSat, List.all_cons, List.any_cons, List.all_nil, List.any_nil, ha, ht',
      List.map, bfun]
    cases litVal σ a <;> cases litVal σ top <;> simp
  all_goals
    rcases lits with _ | ⟨a, _ | ⟨b, _ | ⟨c, r⟩⟩⟩ <;> simp [arityOk] at har
    refine ⟨_, rfl, fun σ => ?_⟩
    have ha := litVal_neg σ (h a (by simp)); have hb := litVal_neg σ (h b (by simp))
    have ht' := litVal_neg σ ht
    simp only [cnfSat, clauseSat, List.all_cons, List.any_cons, List.all_nil, List.any_nil, ha, hb, ht',
      List.map, bfun]
    cases litVal σ a <;> cases litVal σ b <;> cases litVal σ top <;> simp

end Cirbo
