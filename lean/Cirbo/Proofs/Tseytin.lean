import Cirbo.Proofs.TseytinTemplates
import Cirbo.Proofs.Graph
/-!
# `tseytin_transformation` is exact (C05)
Invariant over the literal allocation / recursion, then the semantic theorem by rank induction.
-/
namespace Cirbo
open GateType

def litD (lits : Dict Nat) (l : Label) : Nat := (lits.get? l).getD 0

/-- the constraint the clauses of gate `g` express under `σ` -/
def GateOK (lits : Dict Nat) (σ : Nat → Bool) (g : Gate) : Prop :=
  bfun g.ty (g.ops.map (fun o => σ (litD lits o))) = some (σ (litD lits g.label))

structure TsInv (c : Circuit) (st : TsSt) (us : List Nat) : Prop where
  range : ∀ l k, st.lits.get? l = some k → 1 ≤ k ∧ k ≤ st.next
  inj : ∀ l l' k, st.lits.get? l = some k → st.lits.get? l' = some k → l = l'
  keys : ∀ l k, st.lits.get? l = some k → l ∈ c.labels
  inputs : ∀ i ∈ c.inputs, (st.lits.get? i).isSome = true
  encOps : ∀ g ∈ c.gates, g.ty ≠ INPUT → (st.lits.get? g.label).isSome = true →
    ∀ o ∈ g.ops, (st.lits.get? o).isSome = true
  sem : ∀ σ, cnfSat σ st.cnf = true ↔
    (∀ g ∈ c.gates, g.ty ≠ INPUT → (st.lits.get? g.label).isSome = true → GateOK st.lits σ g) ∧
    ∀ u ∈ us, σ u = true

def Ext (st st' : TsSt) : Prop :=
  (∀ l k, st.lits.get? l = some k → st'.lits.get? l = some k) ∧ st.next ≤ st'.next

theorem Ext.refl (st : TsSt) : Ext st st := ⟨fun _ _ h => h, Nat.le_refl _⟩
theorem Ext.trans {a b c : TsSt} (h1 : Ext a b) (h2 : Ext b c) : Ext a c :=
  ⟨fun l k h => h2.1 l k (h1.1 l k h), Nat.le_trans h1.2 h2.2⟩

def PGSpec (c : Circuit) (pg : Label → TsSt → Except String (TsSt × Nat)) : Prop :=
  ∀ l st st' k us, TsInv c st us → pg l st = .ok (st', k) →
    TsInv c st' us ∧ Ext st st' ∧ st'.lits.get? l = some k

theorem processOps_spec {c : Circuit} {pg : Label → TsSt → Except String (TsSt × Nat)}
    (hpg : PGSpec c pg) : ∀ (ops : List Label) (st st' : TsSt) (ks : List Nat) (us : List Nat),
    TsInv c st us → processOps pg ops st = .ok (st', ks) →
      TsInv c st' us ∧ Ext st st' ∧ ops.map (fun o => st'.lits.get? o) = ks.map some := by
  intro ops
  induction ops with
  | nil =>
    intro st st' ks us inv h
    simp only [processOps, Except.ok.injEq, Prod.mk.injEq] at h
    obtain ⟨rfl, rfl⟩ := h
    exact ⟨inv, Ext.refl _, rfl⟩
  | cons o r ih =>
    intro st st' ks us inv h
    unfold processOps at h
    cases h1 : pg o st with
    | error e => simp [h1] at h
    | ok p1 =>
      obtain ⟨st1, k⟩ := p1
      simp only [h1] at h
      cases h2 : processOps pg r st1 with
      | error e => simp [h2] at h
      | ok p2 =>
        obtain ⟨st2, ks'⟩ := p2
        simp only [h2, Except.ok.injEq, Prod.mk.injEq] at h
        obtain ⟨rfl, rfl⟩ := h
        obtain ⟨inv1, e1, g1⟩ := hpg o st st1 k us inv h1
        obtain ⟨inv2, e2, g2⟩ := ih st1 st2 ks' us inv1 h2
        refine ⟨inv2, e1.trans e2, ?_⟩
        simp only [List.map_cons, g2, e2.1 o k g1]

theorem map_get?_litD {lits : Dict Nat} {ops : List Label} {ks : List Nat}
    (h : ops.map (fun o => lits.get? o) = ks.map some) : ops.map (litD lits) = ks := by
  induction ops generalizing ks with
  | nil => cases ks <;> simp at h ⊢
  | cons o r ih =>
    cases ks with
    | nil => simp at h
    | cons k ks' =>
      simp only [List.map_cons, List.cons.injEq] at h ⊢
      exact ⟨by simp [litD, h.1], ih h.2⟩

theorem map_get?_isSome {lits : Dict Nat} {ops : List Label} {ks : List Nat}
    (h : ops.map (fun o => lits.get? o) = ks.map some) : ∀ o ∈ ops, ∃ k ∈ ks, lits.get? o = some k := by
  induction ops generalizing ks with
  | nil => intro o ho; cases ho
  | cons a r ih =>
    cases ks with
    | nil => simp at h
    | cons k ks' =>
      simp only [List.map_cons, List.cons.injEq] at h
      intro o ho
      simp only [List.mem_cons] at ho
      rcases ho with rfl | ho
      · exact ⟨k, by simp, h.1⟩
      · obtain ⟨k', hk', e⟩ := ih h.2 o ho
        exact ⟨k', by simp [hk'], e⟩

/-- the template clauses for gate `g` with literals read from `lits` express `GateOK` -/
theorem template_gateOK {lits : Dict Nat} {g : Gate} {top : Nat} {ks : List Nat} {cls : Cnf}
    (hty : g.ty ≠ INPUT) (har : arityOk g.ty g.ops.length = true)
    (hops : g.ops.map (fun o => lits.get? o) = ks.map some) (htop : lits.get? g.label = some top)
    (hpos : 1 ≤ top) (hkpos : ∀ k ∈ ks, 1 ≤ k)
    (ht : tsTemplate g.ty (Int.ofNat top) (ks.map Int.ofNat) = some cls) (σ : Nat → Bool) :
    cnfSat σ cls = true ↔ GateOK lits σ g := by
  have hlen : ks.length = g.ops.length := by
    have := congrArg List.length hops; simpa using this.symm
  obtain ⟨cls', h1, h2⟩ := tsTemplate_exact g.ty (Int.ofNat top) (ks.map Int.ofNat)
    (by simp; omega) (by
      intro l hl
      obtain ⟨k, hk, rfl⟩ := List.mem_map.mp hl
      have := hkpos k hk; simp; omega) hty (by simpa [hlen] using har)
  rw [ht] at h1; cases h1
  rw [h2 σ]
  unfold GateOK
  have e1 : (ks.map Int.ofNat).map (litVal σ) = g.ops.map (fun o => σ (litD lits o)) := by
    have hk := map_get?_litD hops
    rw [← hk, List.map_map, List.map_map]
    apply List.map_congr_left
    intro o ho
    obtain ⟨k, hk', e⟩ := map_get?_isSome hops o ho
    simp only [Function.comp, litD, e, Option.getD_some]
    exact litVal_ofNat σ (hkpos k hk')
  have e2 : litVal σ (Int.ofNat top) = σ (litD lits g.label) := by
    simp only [litD, htop, Option.getD_some]; exact litVal_ofNat σ hpos
  rw [e1, e2]

theorem gateOK_congr {lits lits' : Dict Nat} {σ : Nat → Bool} {g : Gate}
    (h1 : lits'.get? g.label = lits.get? g.label) (h2 : ∀ o ∈ g.ops, lits'.get? o = lits.get? o) :
    GateOK lits' σ g ↔ GateOK lits σ g := by
  unfold GateOK
  have : g.ops.map (fun o => σ (litD lits' o)) = g.ops.map (fun o => σ (litD lits o)) := by
    apply List.map_congr_left; intro o ho; simp [litD, h2 o ho]
  rw [this]; simp [litD, h1]

theorem processGate_spec {c : Circuit} (h : WF c) : ∀ fuel, PGSpec c (processGate c fuel) := by
  intro fuel
  induction fuel with
  | zero => intro l st st' k us _ hp; simp [processGate] at hp
  | succ fuel ih =>
    intro l st st' k us inv hp
    unfold processGate at hp
    cases hl : st.lits.get? l with
    | some k0 =>
      simp only [hl, Except.ok.injEq, Prod.mk.injEq] at hp
      obtain ⟨rfl, rfl⟩ := hp
      exact ⟨inv, Ext.refl _, hl⟩
    | none =>
      simp only [hl] at hp
      cases hf : c.find? l with
      | none => simp [hf] at hp
      | some g =>
        simp only [hf] at hp
        obtain ⟨hg, hgl⟩ := find_some_mem hf
        cases hops : processOps (processGate c fuel) g.ops st with
        | error e => simp [hops] at hp
        | ok p1 =>
          obtain ⟨st1, ks⟩ := p1
          simp only [hops] at hp
          obtain ⟨inv1, e1, hks⟩ := processOps_spec ih g.ops st st1 ks us inv hops
          have hty : g.ty ≠ INPUT := by
            intro hty
            have : l ∈ c.inputs := (h.inputsOK l).mpr ⟨g, hg, hgl, hty⟩
            have := inv.inputs l this
            simp [hl] at this
          have har : arityOk g.ty g.ops.length = true := by
            have := h.arity g hg; simpa [hty] using this
          have hkpos : ∀ k ∈ ks, 1 ≤ k := by
            intro k hk
            have hlen : ks.length = g.ops.length := by
              have := congrArg List.length hks; simpa using this.symm
            obtain ⟨i, hi, rfl⟩ := List.mem_iff_getElem.mp hk
            have hio : i < g.ops.length := by omega
            have : st1.lits.get? g.ops[i] = some ks[i] := by
              have := congrArg (fun l => l[i]?) hks
              simp [hio, hi] at this
              exact this
            exact (inv1.range _ _ this).1
          cases hl1 : st1.lits.get? l with
          | some k0 =>
            simp only [hl1] at hp
            split at hp
            · cases hp
            · rename_i cls ht0
              have ht : tsTemplate g.ty (Int.ofNat k0) (ks.map Int.ofNat) = some cls := ht0
              simp only [Except.ok.injEq, Prod.mk.injEq] at hp
              obtain ⟨rfl, rfl⟩ := hp
              have hk0 := (inv1.range l k0 hl1).1
              have htg := template_gateOK hty har hks (hgl ▸ hl1) hk0 hkpos ht
              refine ⟨⟨inv1.range, inv1.inj, inv1.keys, inv1.inputs, inv1.encOps, ?_⟩, e1, hl1⟩
              intro σ
              rw [cnfSat_append, Bool.and_eq_true, inv1.sem σ, htg σ]
              constructor
              · rintro ⟨h1, _⟩; exact h1
              · intro h1
                exact ⟨h1, h1.1 g hg hty (by rw [hgl, hl1]; rfl)⟩
          | none =>
            simp only [hl1] at hp
            split at hp
            · cases hp
            · rename_i cls ht0
              have ht : tsTemplate g.ty (Int.ofNat (st1.next + 1)) (ks.map Int.ofNat) = some cls := ht0
              simp only [Except.ok.injEq, Prod.mk.injEq] at hp
              obtain ⟨rfl, rfl⟩ := hp
              -- facts about the extended literal map
              have hget : ∀ x, (st1.lits.set l (st1.next + 1)).get? x
                  = if x = l then some (st1.next + 1) else st1.lits.get? x := fun x => Dict.get?_set _ _ _ _
              have hopsne : ∀ o ∈ g.ops, o ≠ l := by
                intro o ho e
                obtain ⟨k', _, e'⟩ := map_get?_isSome hks o ho
                rw [e, hl1] at e'; cases e'
              have hks' : g.ops.map (fun o => (st1.lits.set l (st1.next + 1)).get? o) = ks.map some := by
                rw [← hks]; apply List.map_congr_left
                intro o ho; rw [hget]; simp [hopsne o ho]
              have htg := template_gateOK (lits := st1.lits.set l (st1.next + 1)) hty har hks'
                (by rw [hget]; simp [hgl]) (by omega) hkpos ht
              refine ⟨⟨?_, ?_, ?_, ?_, ?_, ?_⟩, ⟨?_, ?_⟩, by rw [hget]; simp⟩
              · intro x k hx
                rw [hget] at hx
                by_cases hxl : x = l
                · simp [hxl] at hx; subst hx; exact ⟨by omega, Nat.le_refl _⟩
                · simp [hxl] at hx
                  have := inv1.range x k hx; exact ⟨this.1, by simp; omega⟩
              · intro x y k hx hy
                rw [hget] at hx hy
                by_cases hxl : x = l <;> by_cases hyl : y = l
                · rw [hxl, hyl]
                · simp [hxl] at hx; simp [hyl] at hy
                  have := (inv1.range y k hy).2; omega
                · simp [hxl] at hx; simp [hyl] at hy
                  have := (inv1.range x k hx).2; omega
                · simp [hxl] at hx; simp [hyl] at hy
                  exact inv1.inj x y k hx hy
              · intro x k hx
                rw [hget] at hx
                by_cases hxl : x = l
                · subst hxl; rw [← hgl]; exact mem_labels_of_mem hg
                · simp [hxl] at hx; exact inv1.keys x k hx
              · intro i hi
                rw [hget]
                by_cases hil : i = l
                · simp [hil]
                · simp [hil, inv1.inputs i hi]
              · intro g' hg' hty' henc o ho
                rw [hget] at henc ⊢
                by_cases hol : o = l
                · simp [hol]
                · simp only [hol, if_false]
                  by_cases hgl' : g'.label = l
                  · have : g' = g := gate_unique h.nodup hg' hg (hgl'.trans hgl.symm)
                    subst this
                    obtain ⟨k', _, e'⟩ := map_get?_isSome hks o ho
                    simp [e']
                  · simp only [hgl', if_false] at henc
                    exact inv1.encOps g' hg' hty' henc o ho
              · intro σ
                rw [cnfSat_append, Bool.and_eq_true, inv1.sem σ, htg σ]
                constructor
                · rintro ⟨⟨h1, h2⟩, h3⟩
                  refine ⟨?_, h2⟩
                  intro g' hg' hty' henc
                  by_cases hgl' : g'.label = l
                  · have : g' = g := gate_unique h.nodup hg' hg (hgl'.trans hgl.symm)
                    subst this; exact h3
                  · rw [hget] at henc
                    simp only [hgl', if_false] at henc
                    have hne : ∀ o ∈ g'.ops, o ≠ l := by
                      intro o ho e
                      have := inv1.encOps g' hg' hty' henc o ho
                      rw [e, hl1] at this; cases this
                    rw [gateOK_congr (lits := st1.lits) (by rw [hget]; simp [hgl'])
                      (fun o ho => by rw [hget]; simp [hne o ho])]
                    exact h1 g' hg' hty' henc
                · rintro ⟨h1, h2⟩
                  refine ⟨⟨?_, h2⟩, ?_⟩
                  · intro g' hg' hty' henc
                    have hgl' : g'.label ≠ l := by
                      intro e; rw [e, hl1] at henc; cases henc
                    have hne : ∀ o ∈ g'.ops, o ≠ l := by
                      intro o ho e
                      have := inv1.encOps g' hg' hty' henc o ho
                      rw [e, hl1] at this; cases this
                    rw [← gateOK_congr (lits' := st1.lits.set l (st1.next + 1)) (lits := st1.lits)
                      (by rw [hget]; simp [hgl']) (fun o ho => by rw [hget]; simp [hne o ho])]
                    exact h1 g' hg' hty' (by rw [hget]; simp [hgl', henc])
                  · exact h1 g hg hty (by rw [hget]; simp [hgl])
              · intro x k hx
                rw [hget]
                by_cases hxl : x = l
                · subst hxl; rw [e1.1 x k hx] at hl1; cases hl1
                · simp [hxl, e1.1 x k hx]
              · have := e1.2; simp; omega

/-! ### literal allocation for the inputs -/

def tsInitStep (st : TsSt) (i : Label) : TsSt :=
  match st.lits.get? i with
  | some _ => st
  | none => ⟨st.lits.set i (st.next + 1), st.next + 1, st.cnf⟩

structure InitP (done : List Label) (st : TsSt) : Prop where
  cnf : st.cnf = []
  next : st.next = done.length
  idx : ∀ j (hj : j < done.length), st.lits.get? done[j] = some (j + 1)
  keys : ∀ l k, st.lits.get? l = some k → l ∈ done

theorem tsInit_fold (rest : List Label) : ∀ (done : List Label) (st : TsSt), (done ++ rest).Nodup →
    InitP done st → InitP (done ++ rest) (rest.foldl tsInitStep st) := by
  induction rest with
  | nil => intro done st _ hp; simpa using hp
  | cons i r ih =>
    intro done st hnd hp
    have hi : i ∉ done := by
      have := (List.nodup_append.mp hnd).2.2
      intro hm; exact this i hm i (by simp) rfl
    have hnone : st.lits.get? i = none := by
      cases hx : st.lits.get? i with
      | none => rfl
      | some k => exact absurd (hp.keys i k hx) hi
    have hstep : tsInitStep st i = ⟨st.lits.set i (st.next + 1), st.next + 1, st.cnf⟩ := by
      simp [tsInitStep, hnone]
    have hnd' : ((done ++ [i]) ++ r).Nodup := by simpa using hnd
    have := ih (done ++ [i]) (tsInitStep st i) hnd' (by
      rw [hstep]
      refine ⟨hp.cnf, by simp [hp.next], ?_, ?_⟩
      · intro j hj
        simp only [Dict.get?_set]
        by_cases hjd : j < done.length
        · have e : (done ++ [i])[j] = done[j] := by simp [List.getElem_append_left, hjd]
          rw [e]
          have hne : done[j] ≠ i := fun e' => hi (e' ▸ List.getElem_mem hjd)
          simp [hne, hp.idx j hjd]
        · have hj' : j = done.length := by simp at hj; omega
          subst hj'
          simp [hp.next]
      · intro l k hl
        simp only [Dict.get?_set] at hl
        by_cases hli : l = i
        · simp [hli]
        · simp only [hli, if_false] at hl
          simp [hp.keys l k hl])
    simpa using this

theorem tsInit_spec {c : Circuit} (h : WF c) :
    TsInv c (tsInit c) [] ∧ (∀ j (hj : j < c.inputs.length), (tsInit c).lits.get? c.inputs[j] = some (j + 1)) := by
  have hP : InitP c.inputs (tsInit c) := by
    have := tsInit_fold c.inputs [] ⟨[], 0, []⟩ (by simpa using h.inputsNodup)
      ⟨rfl, rfl, by intro j hj; simp at hj, by intro l k hl; simp [Dict.get?] at hl⟩
    have e : tsInit c = c.inputs.foldl tsInitStep ⟨[], 0, []⟩ := rfl
    rw [e]; simpa using this
  have hfun : ∀ l k, (tsInit c).lits.get? l = some k → ∃ j, ∃ hj : j < c.inputs.length, c.inputs[j] = l ∧ k = j + 1 := by
    intro l k hl
    obtain ⟨j, hj, e⟩ := List.mem_iff_getElem.mp (hP.keys l k hl)
    refine ⟨j, hj, e, ?_⟩
    have := hP.idx j hj
    rw [e, hl] at this; exact Option.some.inj this
  refine ⟨⟨?_, ?_, ?_, ?_, ?_, ?_⟩, hP.idx⟩
  · intro l k hl
    obtain ⟨j, hj, _, rfl⟩ := hfun l k hl
    rw [hP.next]; omega
  · intro l l' k hl hl'
    obtain ⟨j, hj, e, hk⟩ := hfun l k hl
    obtain ⟨j', hj', e', hk'⟩ := hfun l' k hl'
    have : j = j' := by omega
    subst this; rw [← e, ← e']
  · intro l k hl
    obtain ⟨g, hg, hgl, _⟩ := (h.inputsOK l).mp (hP.keys l k hl)
    exact hgl ▸ mem_labels_of_mem hg
  · intro i hi
    obtain ⟨j, hj, e⟩ := List.mem_iff_getElem.mp hi
    rw [← e, hP.idx j hj]; rfl
  · intro g hg hty henc
    obtain ⟨k, hk⟩ := Option.isSome_iff_exists.mp henc
    obtain ⟨g', hg', hgl', hty'⟩ := (h.inputsOK g.label).mp (hP.keys _ k hk)
    have : g' = g := gate_unique h.nodup hg' hg hgl'
    subst this; exact absurd hty' hty
  · intro σ
    rw [hP.cnf]
    simp only [cnfSat, List.all_nil, true_iff]
    refine ⟨?_, by intro u hu; cases hu⟩
    intro g hg hty henc
    obtain ⟨k, hk⟩ := Option.isSome_iff_exists.mp henc
    obtain ⟨g', hg', hgl', hty'⟩ := (h.inputsOK g.label).mp (hP.keys _ k hk)
    have : g' = g := gate_unique h.nodup hg' hg hgl'
    subst this; exact absurd hty' hty

/-! ### the output loop -/

theorem tsOutputs_spec {c : Circuit} (h : WF c) : ∀ (outs : List Nat) (st st' : TsSt) (us : List Nat),
    TsInv c st us → tsOutputs c outs st = .ok st' →
    ∃ ks, TsInv c st' (us ++ ks) ∧ Ext st st' ∧
      outs.map (fun i => (c.outputs[i]?).bind (fun o => st'.lits.get? o)) = ks.map some := by
  intro outs
  induction outs with
  | nil =>
    intro st st' us inv ho
    simp only [tsOutputs, Except.ok.injEq] at ho; subst ho
    exact ⟨[], by simpa using inv, Ext.refl _, rfl⟩
  | cons i r ih =>
    intro st st' us inv ho
    unfold tsOutputs at ho
    cases hoi : c.outputs[i]? with
    | none => simp [hoi] at ho
    | some o =>
      simp only [hoi] at ho
      cases hp : processGate c (c.gates.length + 1) o st with
      | error e => simp [hp] at ho
      | ok p =>
        obtain ⟨st1, k⟩ := p
        simp only [hp] at ho
        obtain ⟨inv1, e1, g1⟩ := processGate_spec h _ o st st1 k us inv hp
        have hk := (inv1.range o k g1).1
        have inv1' : TsInv c ⟨st1.lits, st1.next, st1.cnf ++ [[Int.ofNat k]]⟩ (us ++ [k]) := by
          refine ⟨inv1.range, inv1.inj, inv1.keys, inv1.inputs, inv1.encOps, ?_⟩
          intro σ
          rw [cnfSat_append, Bool.and_eq_true, inv1.sem σ]
          simp only [cnfSat, clauseSat, List.all_cons, List.all_nil, List.any_cons, List.any_nil,
            Bool.or_false, Bool.and_true, litVal_ofNat σ hk, List.mem_append, List.mem_singleton]
          constructor
          · rintro ⟨⟨a, b⟩, d⟩
            exact ⟨a, fun u hu => hu.elim (b u) (fun e => e ▸ d)⟩
          · rintro ⟨a, b⟩
            exact ⟨⟨a, fun u hu => b u (Or.inl hu)⟩, b k (Or.inr rfl)⟩
        obtain ⟨ks, inv2, e2, hm⟩ := ih _ st' (us ++ [k]) inv1' ho
        refine ⟨k :: ks, by simpa using inv2, ?_, ?_⟩
        · exact e1.trans ⟨e2.1, e2.2⟩
        · simp only [List.map_cons, hm, hoi, Option.bind_some, List.cons.injEq, and_true]
          exact e2.1 o k g1

/-! ### the semantic theorem -/

theorem tseytin_result {c : Circuit} (h : WF c) (outs : Option (List Nat)) {cnf : Cnf} {lits : Dict Nat}
    (ht : tseytin c outs = .ok (cnf, lits)) :
    ∃ ks n, TsInv c ⟨lits, n, cnf⟩ ks ∧
      (∀ j (hj : j < c.inputs.length), lits.get? c.inputs[j] = some (j + 1)) ∧
      (outs.getD (List.range c.outputs.length)).map
        (fun i => (c.outputs[i]?).bind (fun o => lits.get? o)) = ks.map some := by
  unfold tseytin at ht
  cases ho : tsOutputs c (outs.getD (List.range c.outputs.length)) (tsInit c) with
  | error e => simp [ho] at ht
  | ok st =>
    simp only [ho, Except.ok.injEq, Prod.mk.injEq] at ht
    obtain ⟨rfl, rfl⟩ := ht
    obtain ⟨inv0, hin⟩ := tsInit_spec h
    obtain ⟨ks, inv, ext, hm⟩ := tsOutputs_spec h _ _ st [] inv0 ho
    refine ⟨ks, st.next, by simpa using inv, ?_, hm⟩
    intro j hj; exact ext.1 _ _ (hin j hj)

theorem map_some_fwd {α β} (L : List α) (F : α → Option β) (ks : List β)
    (h : L.map F = ks.map some) : ∀ i ∈ L, ∃ k ∈ ks, F i = some k := by
  induction L generalizing ks with
  | nil => intro i hi; cases hi
  | cons a r ih =>
    cases ks with
    | nil => simp at h
    | cons k ks' =>
      simp only [List.map_cons, List.cons.injEq] at h
      intro i hi
      simp only [List.mem_cons] at hi
      rcases hi with rfl | hi
      · exact ⟨k, by simp, h.1⟩
      · obtain ⟨k', hk', e⟩ := ih ks' h.2 i hi
        exact ⟨k', by simp [hk'], e⟩

theorem map_some_bwd {α β} (L : List α) (F : α → Option β) (ks : List β)
    (h : L.map F = ks.map some) : ∀ k ∈ ks, ∃ i ∈ L, F i = some k := by
  induction L generalizing ks with
  | nil => cases ks <;> simp at h ⊢
  | cons a r ih =>
    cases ks with
    | nil => intro k hk; cases hk
    | cons k0 ks' =>
      simp only [List.map_cons, List.cons.injEq] at h
      intro k hk
      simp only [List.mem_cons] at hk
      rcases hk with rfl | hk
      · exact ⟨a, by simp, h.1⟩
      · obtain ⟨i, hi, e⟩ := ih ks' h.2 k hk
        exact ⟨i, by simp [hi], e⟩

/-- values of encoded gates are forced: rank induction over the local gate constraints -/
theorem forced_values {c : Circuit} (h : WF c) {st : TsSt} {us : List Nat} (inv : TsInv c st us)
    {b vB : Label → Bool} (hB : IsValB c b vB) {σ : Nat → Bool}
    (hin : ∀ i ∈ c.inputs, σ (litD st.lits i) = b i)
    (hg : ∀ g ∈ c.gates, g.ty ≠ INPUT → (st.lits.get? g.label).isSome = true → GateOK st.lits σ g) :
    ∀ g ∈ c.gates, (st.lits.get? g.label).isSome = true → σ (litD st.lits g.label) = vB g.label := by
  apply rank_induction h.closed h.rank
    (fun g => (st.lits.get? g.label).isSome = true → σ (litD st.lits g.label) = vB g.label)
  intro g hgm ih henc
  have hv := hB g hgm
  by_cases hty : g.ty = INPUT
  · simp only [hty, if_true] at hv
    rw [hv]; exact hin _ ((h.inputsOK g.label).mpr ⟨g, hgm, rfl, hty⟩)
  · simp only [hty, if_false] at hv
    have hok := hg g hgm hty henc
    unfold GateOK at hok
    have : g.ops.map (fun o => σ (litD st.lits o)) = g.ops.map vB := by
      apply List.map_congr_left
      intro o ho
      obtain ⟨go, hgo, hgol⟩ := gate_of_label (h.closed g hgm o ho)
      have := ih o ho go hgo hgol (by rw [hgol]; exact inv.encOps g hgm hty henc o ho)
      rwa [hgol] at this
    rw [this, hv] at hok
    exact (Option.some.inj hok).symm

/-- **Exactness of the reduction** -/
theorem tseytin_exact {c : Circuit} (h : WF c) (outs : Option (List Nat)) {cnf : Cnf} {lits : Dict Nat}
    (ht : tseytin c outs = .ok (cnf, lits)) (b vB : Label → Bool) (hB : IsValB c b vB) :
    -- (1) the i-th input is variable i+1
    (∀ j (hj : j < c.inputs.length), lits.get? c.inputs[j] = some (j + 1)) ∧
    -- (2) for every σ that gives the input variables the values `b`: σ satisfies the CNF iff it gives
    --     every encoded gate its evaluated value and all selected outputs evaluate to True
    (∀ σ, (∀ i ∈ c.inputs, σ (litD lits i) = b i) →
      (cnfSat σ cnf = true ↔
        (∀ g ∈ c.gates, (lits.get? g.label).isSome = true → σ (litD lits g.label) = vB g.label) ∧
        (∀ i ∈ outs.getD (List.range c.outputs.length), ∀ o, c.outputs[i]? = some o → vB o = true))) ∧
    -- (3) hence: CNF ∧ input assignment is satisfiable iff all selected outputs are True
    ((∃ σ, (∀ i ∈ c.inputs, σ (litD lits i) = b i) ∧ cnfSat σ cnf = true) ↔
      (∀ i ∈ outs.getD (List.range c.outputs.length), ∀ o, c.outputs[i]? = some o → vB o = true)) := by
  obtain ⟨ks, n, inv, hinl, hout⟩ := tseytin_result h outs ht
  -- every selected index names an encoded output whose literal is in ks, and conversely
  have hsel : ∀ i ∈ outs.getD (List.range c.outputs.length), ∀ o, c.outputs[i]? = some o →
      ∃ k ∈ ks, lits.get? o = some k := by
    intro i hi o ho
    obtain ⟨k, hk, e⟩ := map_some_fwd _ _ _ hout i hi
    rw [ho] at e; exact ⟨k, hk, e⟩
  have hks : ∀ k ∈ ks, ∃ i ∈ outs.getD (List.range c.outputs.length), ∃ o, c.outputs[i]? = some o ∧
      lits.get? o = some k := by
    intro k hk
    obtain ⟨i, hi, e⟩ := map_some_bwd _ _ _ hout k hk
    cases hoi : c.outputs[i]? with
    | none => rw [hoi] at e; cases e
    | some o => rw [hoi] at e; exact ⟨i, hi, o, hoi, e⟩
  have hmain : ∀ σ, (∀ i ∈ c.inputs, σ (litD lits i) = b i) →
      (cnfSat σ cnf = true ↔
        (∀ g ∈ c.gates, (lits.get? g.label).isSome = true → σ (litD lits g.label) = vB g.label) ∧
        (∀ i ∈ outs.getD (List.range c.outputs.length), ∀ o, c.outputs[i]? = some o → vB o = true)) := by
    intro σ hin
    rw [inv.sem σ]
    constructor
    · rintro ⟨hg, hu⟩
      have hf := forced_values h inv hB hin hg
      refine ⟨hf, ?_⟩
      intro i hi o ho
      obtain ⟨k, hk, e⟩ := hsel i hi o ho
      obtain ⟨g, hgm, hgl⟩ := gate_of_label (inv.keys o k e)
      have := hf g hgm (by rw [hgl, e]; rfl)
      rw [hgl] at this
      rw [← this]; simp only [litD, e, Option.getD_some]; exact hu k hk
    · rintro ⟨hf, ho⟩
      constructor
      · intro g hgm hty henc
        unfold GateOK
        have hv := hB g hgm
        simp only [hty, if_false] at hv
        have : g.ops.map (fun o => σ (litD lits o)) = g.ops.map vB := by
          apply List.map_congr_left
          intro o hoo
          obtain ⟨go, hgo, hgol⟩ := gate_of_label (h.closed g hgm o hoo)
          have := hf go hgo (by rw [hgol]; exact inv.encOps g hgm hty henc o hoo)
          rwa [hgol] at this
        rw [this, hv, hf g hgm henc]
      · intro k hk
        obtain ⟨i, hi, o, hoo, e⟩ := hks k hk
        obtain ⟨g, hgm, hgl⟩ := gate_of_label (inv.keys o k e)
        have := hf g hgm (by rw [hgl, e]; rfl)
        rw [hgl] at this
        simp only [litD, e, Option.getD_some] at this
        rw [this]; exact ho i hi o hoo
  refine ⟨hinl, hmain, ?_⟩
  constructor
  · rintro ⟨σ, hin, hs⟩; exact ((hmain σ hin).mp hs).2
  · intro ho
    -- the canonical extension: variable k carries the value of the gate it encodes
    let σ : Nat → Bool := fun k => c.labels.any (fun l => lits.get? l == some k && vB l)
    have hσ : ∀ l k, lits.get? l = some k → σ k = vB l := by
      intro l k hl
      have hlL := inv.keys l k hl
      show c.labels.any (fun l' => lits.get? l' == some k && vB l') = vB l
      cases hv : vB l with
      | true =>
        rw [List.any_eq_true]
        exact ⟨l, hlL, by simp [hl, hv]⟩
      | false =>
        rw [List.any_eq_false]
        intro l' _ hc
        simp only [Bool.and_eq_true, beq_iff_eq] at hc
        have := inv.inj l' l k hc.1 hl
        rw [this, hv] at hc; exact absurd hc.2 (by simp)
    have hin : ∀ i ∈ c.inputs, σ (litD lits i) = b i := by
      intro i hi
      obtain ⟨k, hk⟩ := Option.isSome_iff_exists.mp (inv.inputs i hi)
      obtain ⟨g, hgm, hgl, hty⟩ := (h.inputsOK i).mp hi
      have hv := hB g hgm
      simp only [hty, if_true] at hv
      simp only [litD, hk, Option.getD_some]
      rw [hσ i k hk, ← hgl, hv]
    refine ⟨σ, hin, (hmain σ hin).mpr ⟨?_, ho⟩⟩
    intro g hgm henc
    obtain ⟨k, hk⟩ := Option.isSome_iff_exists.mp henc
    simp only [litD, hk, Option.getD_some]
    exact hσ _ k hk

end Cirbo
