import Cirbo.Proofs.GenTotalB
import Cirbo.Model.Gen2
/-!
# Totality of `add_div_mod` and `add_sqrt` (and of their loops)

The contracts of `add_subtract_with_compare` and `add_sum_two_numbers` (other lists) are hypotheses
(`dd_HSubCmp`, `dd_HSumOne`), to be discharged at integration.
-/
namespace Cirbo
open GateType Circuit

/-! ## contracts taken as hypotheses -/

/-- `add_subtract_with_compare` (little-endian call) on two non-empty operands that are gates: returns the
difference, as wide as the wider operand, and the final borrow -/
def dd_HSubCmp : Prop :=
  ∀ (a b : List Label) (st : GSt) (P K : List Label), Inv st P → Kn st K → (∀ l ∈ a, l ∈ K) → (∀ l ∈ b, l ∈ K) →
    a ≠ [] → b ≠ [] →
    Ok (addSubtractWithCompare a b false) st (GPost P K (fun r => r.1 ++ [r.2]) (fun r => r.1.length = max a.length b.length))

/-- `add_sum_two_numbers(circuit, a, [u])` (little-endian call), `a` non-empty: one more bit than `a` -/
def dd_HSumOne : Prop :=
  ∀ (a : List Label) (u : Label) (st : GSt) (P K : List Label), Inv st P → Kn st K → (∀ l ∈ a, l ∈ K) → u ∈ K → a ≠ [] →
    Ok (addSumTwoNumbers a [u] false) st (GPost P K id (fun r => r.length = a.length + 1))

/-! ## the loops of `div_mod.py` -/

theorem dd_ok_muxLoop {sel : Label} : ∀ (subs xs acc : List Label) (st : GSt) (P K : List Label), Inv st P → Kn st K →
    sel ∈ K → (∀ l ∈ subs, l ∈ K) → (∀ l ∈ xs, l ∈ K) → (∀ l ∈ acc, l ∈ K) →
    Ok (muxLoop sel subs xs acc) st (GPost P K id (fun r => r.length = acc.length + xs.length)) := by
  intro subs
  induction subs with
  | nil =>
    intro xs acc st P K hinv hk hs _ hx ha
    unfold muxLoop
    exact Ok.pure ⟨hinv, fun l hl => hk l (by kmem), by simp⟩
  | cons s subs ih =>
    intro xs acc st P K hinv hk hs hsub hx ha
    cases xs with
    | nil =>
      unfold muxLoop
      exact Ok.pure ⟨hinv, fun l hl => hk l (by kmem), by simp⟩
    | cons x xs =>
      unfold muxLoop
      apply Ok.stepK (okK_emitTT hinv hk (by decide) hs (hsub s (by simp))); intro g1 s1 i1 k1 _
      apply Ok.stepK (okK_emitTT i1 k1 (by decide) (by kmem) (by kmem)); intro g2 s2 i2 k2 _
      apply Ok.stepK (okK_emitTT i2 k2 (by decide) (by kmem) (by kmem)); intro g3 s3 i3 k3 _
      refine (ih xs (acc ++ [g3]) s3 P (K ++ [g1] ++ [g2] ++ [g3]) i3 k3 (by kmem) (by intro l hl; kmem)
        (by intro l hl; kmem) (by intro l hl; kmem)).mono ?_
      intro r s4 ⟨i4, k4, h4⟩
      refine ⟨i4, k4.mono (by intro l hl; kmem), ?_⟩
      simp only [List.length_append, List.length_cons, List.length_nil] at h4 ⊢
      omega

/-- `prefLoop`: every index of the list is a position of `b`, the running list is not empty -/
theorem dd_ok_prefLoop {b : List Label} : ∀ (idx : List Nat) (pref : List Label) (st : GSt) (P K : List Label), Inv st P →
    Kn st K → (∀ l ∈ b, l ∈ K) → (∀ l ∈ pref, l ∈ K) → pref ≠ [] → (∀ i ∈ idx, i < b.length) →
    Ok (prefLoop b idx pref) st (GPost P K id (fun r => r.length = pref.length + idx.length)) := by
  intro idx
  induction idx with
  | nil =>
    intro pref st P K hinv hk hb hp _ _
    unfold prefLoop
    exact Ok.pure ⟨hinv, fun l hl => hk l (by kmem), by simp⟩
  | cons i r ih =>
    intro pref st P K hinv hk hb hp hne hidx
    unfold prefLoop
    have hi : i < b.length := hidx i (by simp)
    cases hg : pref.getLast? with
    | none => exact absurd (List.getLast?_eq_none_iff.mp hg) hne
    | some p =>
      have hpm : p ∈ pref := List.mem_of_getLast? hg
      have hbi : b[i]? = some b[i] := List.getElem?_eq_getElem hi
      simp only [hbi]
      apply Ok.stepK (okK_emitTT hinv hk (by decide) (hp p hpm) (hb _ (List.getElem_mem hi))); intro g s1 i1 k1 _
      refine (ih (pref ++ [g]) s1 P (K ++ [g]) i1 k1 (by intro l hl; kmem) (by intro l hl; kmem) (by simp)
        (fun j hj => hidx j (by simp [hj]))).mono ?_
      intro res s2 ⟨i2, k2, h2⟩
      refine ⟨i2, k2.mono (by intro l hl; kmem), ?_⟩
      simp only [List.length_append, List.length_cons, List.length_nil] at h2 ⊢
      omega

theorem dd_ok_andAll {m : Label} : ∀ (xs acc : List Label) (st : GSt) (P K : List Label), Inv st P → Kn st K →
    m ∈ K → (∀ l ∈ xs, l ∈ K) → (∀ l ∈ acc, l ∈ K) →
    Ok (andAll m xs acc) st (GPost P K id (fun r => r.length = acc.length + xs.length)) := by
  intro xs
  induction xs with
  | nil =>
    intro acc st P K hinv hk _ _ ha
    unfold andAll
    exact Ok.pure ⟨hinv, fun l hl => hk l (by kmem), by simp⟩
  | cons x r ih =>
    intro acc st P K hinv hk hm hx ha
    unfold andAll
    apply Ok.stepK (okK_emitTT hinv hk (by decide) (hx x (by simp)) hm); intro g s1 i1 k1 _
    refine (ih (acc ++ [g]) s1 P (K ++ [g]) i1 k1 (by kmem) (by intro l hl; kmem) (by intro l hl; kmem)).mono ?_
    intro res s2 ⟨i2, k2, h2⟩
    refine ⟨i2, k2.mono (by intro l hl; kmem), ?_⟩
    simp only [List.length_append, List.length_cons, List.length_nil] at h2 ⊢
    omega

/-! ## `for i in range(a + len - 1, a - 1, -1)`: a descending loop with an invariant indexed by the next index -/

theorem dd_ok_progFold_desc {σ : Type} {f : σ → Nat → Prog σ} (J : Nat → σ → GSt → Prop) :
    ∀ (len a : Nat) (s : σ) (st : GSt), J (a + len) s st →
    (∀ i s st, a ≤ i → i < a + len → J (i + 1) s st → Ok (f s i) st (J i)) →
    Ok (progFold (List.range' a len).reverse s f) st (J a) := by
  intro len
  induction len with
  | zero =>
    intro a s st h0 _
    simp only [List.range'_zero, List.reverse_nil, progFold]
    exact Ok.ret h0
  | succ len ih =>
    intro a s st h0 hstep
    rw [List.range'_concat, List.reverse_append]
    simp only [List.reverse_cons, List.reverse_nil, List.nil_append, List.cons_append, Nat.one_mul, progFold]
    apply Ok.bind (hstep (a + len) s st (by omega) (by omega) h0)
    intro s1 st1 h1
    exact ih a s1 st1 h1 (fun i s st hi1 hi2 hp => hstep i s st hi1 (by omega) hp)

theorem dd_drop_set (l : List Label) (i : Nat) (x : Label) (h : i < l.length) : (l.set i x).drop i = x :: l.drop (i + 1) := by
  induction l generalizing i with
  | nil => simp at h
  | cons y r ih =>
    cases i with
    | zero => simp
    | succ i => simp only [List.set_cons_succ, List.drop_succ_cons]; exact ih i (by simpa using h)

/-! ## `add_div_mod` -/

/-- the body of the main loop of `add_div_mod` (shift `i ≥ 1`) -/
def dd_divStep (b0 pref : List Label) (n : Nat) (st : List Label × List Label) (i : Nat) : Prog (List Label × List Label) := do
  let (result, now) := st
  match pref[i - 1]? with
  | none => .fail "Py:IndexError"
  | some prov => do
    let m := n - i
    let (subRes, per) ← addSubtractWithCompare (now.drop (n - m)) (b0.take m) false
    let ri ← emitTT prov per t1000
    let hi ← muxLoop ri subRes (now.drop (n - m)) []
    pure (result.set i ri, now.take (n - m) ++ hi)

/-- the invariant of the main loop: the quotient bits of the shifts already done (`≥ i`) and the running
remainder are gates; both lists keep the width `n` -/
def dd_DivInv (P K : List Label) (n : Nat) (i : Nat) (s : List Label × List Label) (st : GSt) : Prop :=
  Inv st P ∧ Kn st K ∧ Kn st (s.1.drop i) ∧ Kn st s.2 ∧ s.1.length = n ∧ s.2.length = n

theorem dd_ok_divStep (hsc : dd_HSubCmp) {b0 pref : List Label} {n : Nat} {P K : List Label} (hbl : b0.length = n)
    (hb : ∀ l ∈ b0, l ∈ K) (hp : ∀ l ∈ pref, l ∈ K) (hpl : n - 1 ≤ pref.length)
    (i : Nat) (s : List Label × List Label) (st : GSt) (h1 : 1 ≤ i) (h2 : i < n)
    (hJ : dd_DivInv P K n (i + 1) s st) : Ok (dd_divStep b0 pref n s i) st (dd_DivInv P K n i) := by
  obtain ⟨result, now⟩ := s
  obtain ⟨hinv, hk, hkr, hkn, hrl, hnl⟩ := hJ
  simp only at hkr hkn hrl hnl
  unfold dd_divStep
  simp only
  have hpi : pref[i - 1]? = some pref[i - 1] := List.getElem?_eq_getElem (by omega)
  simp only [hpi]
  have hnm : n - (n - i) = i := by omega
  simp only [hnm]
  -- everything known so far
  have hk0 : Kn st (K ++ result.drop (i + 1) ++ now) := by
    intro l hl
    rcases List.mem_append.mp hl with hl | hl
    · rcases List.mem_append.mp hl with hl | hl
      · exact hk l hl
      · exact hkr l hl
    · exact hkn l hl
  apply Ok.stepK (hsc (now.drop i) (b0.take (n - i)) st P _ hinv hk0
    (by intro l hl; have := List.mem_of_mem_drop hl; kmem)
    (by intro l hl; have := hb l (List.mem_of_mem_take hl); kmem)
    (by intro e; have := congrArg List.length e; simp only [List.length_drop, List.length_nil] at this; omega)
    (by intro e; have := congrArg List.length e; simp only [List.length_take, List.length_nil] at this; omega))
  intro r s1 i1 k1 hr
  obtain ⟨subRes, per⟩ := r
  simp only at k1 hr ⊢
  apply Ok.stepK (okK_emitTT i1 k1 (by decide) (by have := hp _ (List.getElem_mem (show i - 1 < pref.length by omega)); kmem) (by kmem))
  intro ri s2 i2 k2 _
  apply Ok.stepK (dd_ok_muxLoop subRes (now.drop i) [] s2 P _ i2 k2 (by kmem) (by intro l hl; kmem)
    (by intro l hl; have := List.mem_of_mem_drop hl; kmem) (by intro l hl; cases hl))
  intro hi s3 i3 k3 h3
  apply Ok.ret
  refine ⟨i3, k3.mono (by intro l hl; kmem), ?_, ?_, by simp [hrl], ?_⟩
  · simp only
    rw [dd_drop_set _ _ _ (by omega)]
    exact k3.mono (by intro l hl; kmem)
  · simp only
    refine k3.mono ?_
    intro l hl
    rcases List.mem_append.mp hl with hl | hl
    · have := List.mem_of_mem_take hl; kmem
    · kmem
  · simp only [List.length_append, List.length_take, List.length_drop, List.length_nil] at h3 ⊢
    omega

/-- **`add_div_mod` returns**: both operands are gates, of the same width `≥ 1`; the quotient and the remainder have
that width -/
theorem dd_ok_addDivMod (hsc : dd_HSubCmp) {a b : List Label} {be : Bool} {st : GSt} {P K : List Label}
    (hinv : Inv st P) (hk : Kn st K) (ha : ∀ l ∈ a, l ∈ K) (hb : ∀ l ∈ b, l ∈ K)
    (hlen : a.length = b.length) (hpos : 1 ≤ a.length) :
    Ok (addDivMod a b be) st (GPost P K (fun r => r.1 ++ r.2) (fun r => r.1.length = a.length ∧ r.2.length = a.length)) := by
  unfold addDivMod
  simp only []
  have ha0 : ∀ l ∈ revIf a be, l ∈ K := fun l hl => ha l (mem_revIf.mp hl)
  have hb0 : ∀ l ∈ revIf b be, l ∈ K := fun l hl => hb l (mem_revIf.mp hl)
  have hla : (revIf a be).length = a.length := length_revIf_t _ _
  have hlb : (revIf b be).length = b.length := length_revIf_t _ _
  generalize revIf a be = a0 at *
  generalize revIf b be = b0 at *
  have hab : a0.length = b0.length := by omega
  rw [if_neg (by simp [hab])]
  generalize hn : a0.length = n at *
  cases hg : b0.getLast? with
  | none =>
    have := List.getLast?_eq_none_iff.mp hg
    subst this
    simp at hab; omega
  | some bTop =>
    simp only
    have hbT : bTop ∈ b0 := List.mem_of_getLast? hg
    -- the OR-prefixes of the divisor
    apply Ok.stepK (dd_ok_prefLoop (b := b0) _ [bTop] st P K hinv hk hb0 (by intro l hl; have := hb0 _ hbT; kmem) (by simp)
      (by
        intro i hi
        have := List.mem_range.mp (List.mem_of_mem_drop (List.mem_reverse.mp hi))
        omega))
    intro pref s1 i1 k1 hpl
    simp only [id, List.length_cons, List.length_nil, List.length_reverse, List.length_drop, List.length_range] at k1 hpl
    -- the main loop
    have hidx : (List.range n).drop 1 = List.range' 1 (n - 1) := by
      rw [List.range_eq_range', List.drop_range']
    rw [hidx]
    have hinit : dd_DivInv P (K ++ pref) n (1 + (n - 1)) (List.replicate n Gen.placeholderStr, a0) s1 := by
      refine ⟨i1, k1, ?_, k1.mono (by intro l hl; have := ha0 l hl; kmem), by simp, hn⟩
      simp only
      rw [List.drop_of_length_le (by simp; omega)]
      intro l hl; cases hl
    apply Ok.bind (dd_ok_progFold_desc (f := dd_divStep b0 pref n) (dd_DivInv P (K ++ pref) n) (n - 1) 1 _ s1 hinit
      (fun i s st' h1 h2 hJ => dd_ok_divStep hsc hab.symm (by intro l hl; have := hb0 l hl; kmem) (by intro l hl; kmem)
        (by omega) i s st' h1 (by omega) hJ))
    intro s s2 hJ
    obtain ⟨result, now⟩ := s
    obtain ⟨i2, k2, hkr, hkn, hrl, hnl⟩ := hJ
    simp only at hkr hkn hrl hnl ⊢
    have hk2 : Kn s2 (K ++ pref ++ result.drop 1 ++ now) := by
      intro l hl
      rcases List.mem_append.mp hl with hl | hl
      · rcases List.mem_append.mp hl with hl | hl
        · exact k2 l hl
        · exact hkr l hl
      · exact hkn l hl
    -- the last subtraction (shift 0)
    apply Ok.stepK (hsc now b0 s2 P _ i2 hk2 (by intro l hl; kmem) (by intro l hl; have := hb0 l hl; kmem)
      (by intro e; subst e; simp at hnl; omega) (by intro e; subst e; simp at hab; omega))
    intro r s3 i3 k3 _
    obtain ⟨subRes, per⟩ := r
    simp only at k3 ⊢
    apply Ok.stepK (okK_emitTT i3 k3 (by decide) (by kmem) (by kmem))
    intro r0 s4 i4 k4 _
    apply Ok.stepK (dd_ok_muxLoop subRes now [] s4 P _ i4 k4 (by kmem) (by intro l hl; kmem) (by intro l hl; kmem)
      (by intro l hl; cases hl))
    intro now1 s5 i5 k5 h5
    simp only [id, List.length_nil, Nat.zero_add] at k5 h5
    have hres1 : ∀ l ∈ result.set 0 r0, l = r0 ∨ l ∈ result.drop 1 := by
      intro l hl
      have := dd_drop_set result 0 r0 (by omega)
      rw [List.drop_zero] at this
      rw [this] at hl
      simpa using hl
    cases hg2 : pref.getLast? with
    | none =>
      have := List.getLast?_eq_none_iff.mp hg2
      subst this
      simp only [List.length_nil] at hpl
      omega
    | some p =>
      have hpm : p ∈ pref := List.mem_of_getLast? hg2
      match b0, hab, hb0 with
      | [], hab, _ => simp at hab; omega
      | bLow :: bt, _, hb0 =>
        simp only
        apply Ok.stepK (okK_emitTT i5 k5 (by decide) (by kmem) (by have := hb0 bLow (by simp); kmem))
        intro nz s6 i6 k6 _
        apply Ok.stepK (dd_ok_andAll (result.set 0 r0) [] s6 P _ i6 k6 (by kmem)
          (by intro l hl; have := hres1 l hl; kmem) (by intro l hl; cases hl))
        intro result2 s7 i7 k7 h7
        apply Ok.stepK (dd_ok_andAll now1 [] s7 P _ i7 k7 (by kmem) (by intro l hl; kmem) (by intro l hl; cases hl))
        intro now2 s8 i8 k8 h8
        apply Ok.ret
        refine ⟨i8, k8.mono ?_, ?_, ?_⟩
        · intro l hl
          simp only [List.mem_append, mem_revIf] at hl
          kmem
        · simp only [length_revIf_t]
          simp only [List.length_nil, List.length_set] at h7
          omega
        · simp only [length_revIf_t]
          simp only [List.length_nil] at h8
          omega

/-! ## the loop of `sqrt.py` -/

/-- `selLoop`: the list of new bits must be at least as long as the slice that is overwritten
(`new[i - off]` for every `i` of the slice) -/
theorem dd_ok_selLoop {per : Label} : ∀ (xs nws acc : List Label) (st : GSt) (P K : List Label), Inv st P → Kn st K →
    per ∈ K → (∀ l ∈ nws, l ∈ K) → (∀ l ∈ xs, l ∈ K) → (∀ l ∈ acc, l ∈ K) → xs.length ≤ nws.length →
    Ok (selLoop per nws xs acc) st (GPost P K id (fun r => r.length = acc.length + xs.length)) := by
  intro xs
  induction xs with
  | nil =>
    intro nws acc st P K hinv hk _ _ _ ha _
    unfold selLoop
    cases nws <;> exact Ok.pure ⟨hinv, fun l hl => hk l (by kmem), by simp⟩
  | cons x xs ih =>
    intro nws acc st P K hinv hk hp hn hx ha hlen
    cases nws with
    | nil => simp at hlen
    | cons nw nws =>
      unfold selLoop
      apply Ok.stepK (okK_emitTT hinv hk (by decide) hp (hn nw (by simp))); intro g1 s1 i1 k1 _
      apply Ok.stepK (okK_emitTT i1 k1 (by decide) (by kmem) (by kmem)); intro g2 s2 i2 k2 _
      apply Ok.stepK (okK_emitTT i2 k2 (by decide) (by kmem) (by kmem)); intro g3 s3 i3 k3 _
      refine (ih nws (acc ++ [g3]) s3 P (K ++ [g1] ++ [g2] ++ [g3]) i3 k3 (by kmem) (by intro l hl; kmem)
        (by intro l hl; kmem) (by intro l hl; kmem) (by simp only [List.length_cons] at hlen; omega)).mono ?_
      intro r s4 ⟨i4, k4, h4⟩
      refine ⟨i4, k4.mono (by intro l hl; kmem), ?_⟩
      simp only [List.length_append, List.length_cons, List.length_nil] at h4 ⊢
      omega

/-! ## `add_sqrt` -/

/-- the body of the loop of `add_sqrt` -/
def dd_sqrtStep (zero uno : Label) (st : List Label × List Label) (s : Nat) : Prog (List Label × List Label) := do
  let (x, c) := st
  let sm0 ← addSumTwoNumbers (c.drop (2 * s)) [uno] false
  let sm := sm0.dropLast
  let (subRes, per) ← addSubtractWithCompare (x.drop (2 * s)) sm false
  let xhi ← selLoop per subRes (x.drop (2 * s)) []
  let x' := x.take (2 * s) ++ xhi
  let c1 := c.drop 1 ++ [zero]
  let sm1 ← addSumTwoNumbers (c1.drop (2 * s)) [uno] false
  let chi ← selLoop per sm1.dropLast (c1.drop (2 * s)) []
  pure (x', c1.take (2 * s) ++ chi)

/-- the invariant of the loop: the remainder `x` and the root `c` are gates, of the (even) width `n` -/
def dd_SqrtInv (P K : List Label) (n : Nat) (_ : Nat) (s : List Label × List Label) (st : GSt) : Prop :=
  Inv st P ∧ Kn st K ∧ Kn st s.1 ∧ Kn st s.2 ∧ s.1.length = n ∧ s.2.length = n

theorem dd_ok_sqrtStep (hsc : dd_HSubCmp) (hso : dd_HSumOne) {zero uno : Label} {n : Nat} {P K : List Label}
    (hz : zero ∈ K) (hu : uno ∈ K) (i : Nat) (s : List Label × List Label) (st : GSt) (hi : 2 * i + 2 ≤ n)
    (hJ : dd_SqrtInv P K n (i + 1) s st) : Ok (dd_sqrtStep zero uno s i) st (dd_SqrtInv P K n i) := by
  obtain ⟨x, c⟩ := s
  obtain ⟨hinv, hk, hkx, hkc, hxl, hcl⟩ := hJ
  simp only at hkx hkc hxl hcl
  unfold dd_sqrtStep
  simp only
  have hk0 : Kn st (K ++ x ++ c) := by
    intro l hl
    rcases List.mem_append.mp hl with hl | hl
    · rcases List.mem_append.mp hl with hl | hl
      · exact hk l hl
      · exact hkx l hl
    · exact hkc l hl
  -- `sm = (c[2s:] + 1)[:-1]`
  apply Ok.stepK (hso (c.drop (2 * i)) uno st P _ hinv hk0 (by intro l hl; have := List.mem_of_mem_drop hl; kmem) (by kmem)
    (by intro e; have := congrArg List.length e; simp only [List.length_drop, List.length_nil] at this; omega))
  intro sm0 s1 i1 k1 h1
  simp only [id, List.length_drop] at k1 h1
  have hsm : ∀ l ∈ sm0.dropLast, l ∈ sm0 := fun l hl => List.dropLast_subset _ hl
  -- the trial subtraction
  apply Ok.stepK (hsc (x.drop (2 * i)) sm0.dropLast s1 P _ i1 k1 (by intro l hl; have := List.mem_of_mem_drop hl; kmem)
    (by intro l hl; have := hsm l hl; kmem)
    (by intro e; have := congrArg List.length e; simp only [List.length_drop, List.length_nil] at this; omega)
    (by intro e; have := congrArg List.length e; simp only [List.length_dropLast, List.length_nil] at this; omega))
  intro r s2 i2 k2 h2
  obtain ⟨subRes, per⟩ := r
  simp only [List.length_drop, List.length_dropLast] at k2 h2 ⊢
  apply Ok.stepK (dd_ok_selLoop (x.drop (2 * i)) subRes [] s2 P _ i2 k2 (by kmem) (by intro l hl; kmem)
    (by intro l hl; have := List.mem_of_mem_drop hl; kmem) (by intro l hl; cases hl)
    (by simp only [List.length_drop]; omega))
  intro xhi s3 i3 k3 h3
  simp only [id, List.length_drop, List.length_nil] at k3 h3
  -- `c = c[1:] + [ZERO]`
  have hc1 : ∀ l ∈ c.drop 1 ++ [zero], l ∈ c ∨ l = zero := by
    intro l hl
    rcases List.mem_append.mp hl with hl | hl
    · exact Or.inl (List.mem_of_mem_drop hl)
    · exact Or.inr (by simpa using hl)
  have hc1l : (c.drop 1 ++ [zero]).length = n := by
    simp only [List.length_append, List.length_drop, List.length_cons, List.length_nil]; omega
  generalize c.drop 1 ++ [zero] = c1 at hc1 hc1l ⊢
  apply Ok.stepK (hso (c1.drop (2 * i)) uno s3 P _ i3 k3
    (by intro l hl; have := hc1 l (List.mem_of_mem_drop hl); kmem) (by kmem)
    (by intro e; have := congrArg List.length e; simp only [List.length_drop, List.length_nil] at this; omega))
  intro sm1 s4 i4 k4 h4
  simp only [id, List.length_drop] at k4 h4
  have hsm1 : ∀ l ∈ sm1.dropLast, l ∈ sm1 := fun l hl => List.dropLast_subset _ hl
  apply Ok.stepK (dd_ok_selLoop (c1.drop (2 * i)) sm1.dropLast [] s4 P _ i4 k4 (by kmem) (by intro l hl; have := hsm1 l hl; kmem)
    (by intro l hl; have := hc1 l (List.mem_of_mem_drop hl); kmem) (by intro l hl; cases hl)
    (by simp only [List.length_drop, List.length_dropLast]; omega))
  intro chi s5 i5 k5 h5
  simp only [id, List.length_drop, List.length_nil] at k5 h5
  apply Ok.ret
  refine ⟨i5, k5.mono (by intro l hl; kmem), ?_, ?_, ?_, ?_⟩
  · simp only
    refine k5.mono ?_
    intro l hl
    rcases List.mem_append.mp hl with hl | hl
    · have := List.mem_of_mem_take hl; kmem
    · kmem
  · simp only
    refine k5.mono ?_
    intro l hl
    rcases List.mem_append.mp hl with hl | hl
    · have := hc1 l (List.mem_of_mem_take hl); kmem
    · kmem
  · simp only [List.length_append, List.length_take]; omega
  · simp only [List.length_append, List.length_take]; omega

/-- the loop of `add_sqrt` on an operand of even width `n = 2 * half` -/
theorem dd_ok_sqrtLoop (hsc : dd_HSubCmp) (hso : dd_HSumOne) {zero uno : Label} {n half : Nat} {x1 : List Label} {st : GSt}
    {P K : List Label} (hinv : Inv st P) (hk : Kn st K) (hz : zero ∈ K) (hu : uno ∈ K) (hx : ∀ l ∈ x1, l ∈ K)
    (hxl : x1.length = n) (hn : n = 2 * half) :
    Ok (progFold (List.range half).reverse (x1, List.replicate n zero) (dd_sqrtStep zero uno)) st
      (GPost P K (fun r => r.2) (fun r => r.2.length = n)) := by
  rw [List.range_eq_range']
  have hinit : dd_SqrtInv P K n (0 + half) (x1, List.replicate n zero) st :=
    ⟨hinv, hk, fun l hl => hk l (hx l hl), fun l hl => hk l (by rw [List.eq_of_mem_replicate hl]; exact hz), hxl, by simp⟩
  refine (dd_ok_progFold_desc (f := dd_sqrtStep zero uno) (dd_SqrtInv P K n) half 0 _ st hinit
    (fun i s st' _ h2 hJ => dd_ok_sqrtStep hsc hso hz hu i s st' (by omega) hJ)).mono ?_
  intro r s1 ⟨i1, k1, _, kc, _, hcl⟩
  refine ⟨i1, ?_, hcl⟩
  intro l hl
  rcases List.mem_append.mp hl with hl | hl
  · exact k1 l hl
  · exact kc l hl

/-- **`add_sqrt` returns**: the operand is a non-empty list of gates; the root has `⌈width / 2⌉` bits -/
theorem dd_ok_addSqrt (hsc : dd_HSubCmp) (hso : dd_HSumOne) {ins : List Label} {be : Bool} {st : GSt} {P K : List Label}
    (hinv : Inv st P) (hk : Kn st K) (hi : ∀ l ∈ ins, l ∈ K) (hpos : 1 ≤ ins.length) :
    Ok (addSqrt ins be) st (GPost P K id (fun r => r.length = (ins.length + 1) / 2)) := by
  unfold addSqrt
  simp only []
  have hx0 : ∀ l ∈ revIf ins be, l ∈ K := fun l hl => hi l (mem_revIf.mp hl)
  have hl0 : (revIf ins be).length = ins.length := length_revIf_t _ _
  generalize revIf ins be = x0 at *
  match x0, hx0, hl0 with
  | [], _, hl0 => simp at hl0; omega
  | first :: rest, hx0, hl0 =>
    simp only
    generalize hxe : first :: rest = x0 at *
    have hf : first ∈ K := hx0 first (by rw [← hxe]; simp)
    apply Ok.stepK (okK_emitTT hinv hk (by decide) hf hf); intro zero s1 i1 k1 _
    apply Ok.stepK (okK_emitTT i1 k1 (by decide) (by kmem) (by kmem)); intro uno s2 i2 k2 _
    cases hodd : (x0.length % 2 == 1) with
    | true =>
      simp only [↓reduceIte]
      have hodd' : x0.length % 2 = 1 := by simpa using hodd
      apply Ok.stepK (dd_ok_sqrtLoop hsc hso (half := x0.length / 2 + 1) i2 k2 (by kmem) (by kmem)
        (by intro l hl; rcases List.mem_append.mp hl with hl | hl
            · have := hx0 l hl; kmem
            · kmem)
        (by simp) (by omega))
      intro r s3 i3 k3 h3
      obtain ⟨xf, c⟩ := r
      simp only at k3 h3 ⊢
      apply Ok.ret
      refine ⟨i3, k3.mono ?_, ?_⟩
      · intro l hl
        simp only [id, List.mem_append, mem_revIf] at hl
        rcases hl with hl | hl
        · kmem
        · have := List.mem_of_mem_take hl; kmem
      · simp only [length_revIf_t, List.length_take]; omega
    | false =>
      simp only [Bool.false_eq_true, ↓reduceIte, Nat.add_zero]
      have hodd' : x0.length % 2 = 0 := by
        have : ¬ x0.length % 2 = 1 := by simpa using hodd
        omega
      apply Ok.stepK (dd_ok_sqrtLoop hsc hso (half := x0.length / 2) i2 k2 (by kmem) (by kmem)
        (by intro l hl; have := hx0 l hl; kmem) rfl (by omega))
      intro r s3 i3 k3 h3
      obtain ⟨xf, c⟩ := r
      simp only at k3 h3 ⊢
      apply Ok.ret
      refine ⟨i3, k3.mono ?_, ?_⟩
      · intro l hl
        simp only [id, List.mem_append, mem_revIf] at hl
        rcases hl with hl | hl
        · kmem
        · have := List.mem_of_mem_take hl; kmem
      · simp only [length_revIf_t, List.length_take]; omega

end Cirbo
