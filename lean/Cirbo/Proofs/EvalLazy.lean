import Cirbo.Proofs.Eval
/-!
# The demand-driven evaluator (`evaluate_circuit`): partial correctness

Whenever the explicit-stack loop returns, every gate it assigned carries the valuation's value,
every requested output has been assigned, and untouched gates are `Undefined`.
(Termination within the model's fuel is exercised by the correspondence run, not proved here.)
-/
namespace Cirbo
open GateType

structure LInv (c : Circuit) (a v : Label → V3) (need s : List Label) (d : Asg) : Prop where
  inp : ∀ g ∈ c.gates, g.ty = INPUT → d.get? g.label = some (a g.label)
  ev : ∀ g ∈ c.gates, g.ty ≠ INPUT → ∀ x, d.get? g.label = some x → x = v g.label
  stk : ∀ l ∈ s, ∃ g ∈ c.gates, g.label = l ∧ g.ty ≠ INPUT
  need : ∀ l ∈ need, l ∈ s ∨ (d.get? l).isSome = true

theorem mapM_get?_eq (d : Asg) (ops : List Label) (vals : List V3)
    (h : ops.mapM (fun o => d.get? o) = some vals) :
    vals = ops.map (valOf d) ∧ ∀ o ∈ ops, (d.get? o).isSome = true := by
  induction ops generalizing vals with
  | nil => simp at h; subst h; simp
  | cons o r ih =>
    rw [List.mapM_cons] at h
    cases ho : d.get? o with
    | none => simp [ho] at h
    | some x =>
      cases hr : r.mapM (fun o => d.get? o) with
      | none => simp [ho, hr] at h
      | some vs =>
        simp [ho, hr] at h
        obtain ⟨e1, e2⟩ := ih vs hr
        subst h
        refine ⟨by simp [valOf, ho, e1], ?_⟩
        intro y hy
        simp only [List.mem_cons] at hy
        rcases hy with rfl | hy
        · simp [ho]
        · exact e2 y hy

theorem mem_dropLast_of_ne_last {α} [DecidableEq α] {xs : List α} {x y : α} (hx : x ∈ xs)
    (hl : xs.getLast? = some y) (hne : x ≠ y) : x ∈ xs.dropLast := by
  obtain ⟨ys, hys⟩ := List.getLast?_eq_some_iff.mp hl
  subst hys
  simp only [List.mem_append, List.mem_singleton] at hx
  rcases hx with hx | hx
  · simpa using hx
  · exact absurd hx hne

theorem lazyStep_inv {c : Circuit} (h : WF c) {a v : Label → V3} (hv : IsVal3 c a v)
    {need s s' : List Label} {d d' : Asg} (inv : LInv c a v need s d)
    (hs : lazyStep c s d = .ok (s', d')) : LInv c a v need s' d' := by
  unfold lazyStep at hs
  cases hq : s.getLast? with
  | none => simp [hq] at hs; obtain ⟨rfl, rfl⟩ := hs; exact inv
  | some top =>
    have htop : top ∈ s := List.mem_of_getLast? hq
    obtain ⟨g, hg, hgl, hty⟩ := inv.stk top htop
    have hfind : c.find? top = some g := hgl ▸ find_label h.nodup hg
    simp only [hq, hfind] at hs
    have hpushed : ∀ o ∈ g.ops.filter (fun o => !d.contains o),
        ∃ go ∈ c.gates, go.label = o ∧ go.ty ≠ INPUT := by
      intro o ho
      simp only [List.mem_filter, Bool.not_eq_eq_eq_not, Bool.not_true] at ho
      obtain ⟨go, hgo, hgol⟩ := gate_of_label (h.closed g hg o ho.1)
      refine ⟨go, hgo, hgol, ?_⟩
      intro hto
      have := inv.inp go hgo hto
      rw [hgol] at this
      simp [Dict.contains, this] at ho
    split at hs
    · rename_i hlast
      cases hev : evalGate g d with
      | error e => simp [hev] at hs
      | ok r =>
        simp only [hev, Except.ok.injEq, Prod.mk.injEq] at hs
        obtain ⟨rfl, rfl⟩ := hs
        -- the computed value is the valuation's value
        have hr : r = v g.label := by
          unfold evalGate at hev
          simp only [hty, if_false] at hev
          cases hm : g.ops.mapM (fun o => d.get? o) with
          | none => simp [hm] at hev
          | some vals =>
            simp only [hm] at hev
            cases ha : applyOp g.ty vals with
            | none => simp [ha] at hev
            | some r' =>
              simp only [ha, Except.ok.injEq] at hev
              subst hev
              obtain ⟨e1, e2⟩ := mapM_get?_eq d g.ops vals hm
              have hvals : vals = g.ops.map v := by
                rw [e1]
                apply map_congr_mem
                intro o ho
                obtain ⟨x, hx⟩ := Option.isSome_iff_exists.mp (e2 o ho)
                obtain ⟨go, hgo, hgol⟩ := gate_of_label (h.closed g hg o ho)
                subst hgol
                by_cases hto : go.ty = INPUT
                · have h1 := inv.inp go hgo hto
                  have h2 := hv go hgo
                  simp only [hto, if_true] at h2
                  simp [valOf, h1, h2]
                · have := inv.ev go hgo hto x hx
                  simp [valOf, hx, this]
              have h2 := hv g hg
              simp only [hty, if_false] at h2
              rw [hvals, h2] at ha
              exact (Option.some.inj ha).symm
        refine ⟨?_, ?_, ?_, ?_⟩
        · intro g' hg' hty'
          have hne : g'.label ≠ g.label := by
            intro e
            have : g' = g := gate_unique h.nodup hg' hg e
            subst this; exact hty hty'
          rw [Dict.get?_set]; simp [hne, inv.inp g' hg' hty']
        · intro g' hg' hty' x hx
          rw [Dict.get?_set] at hx
          by_cases e : g'.label = g.label
          · have : g' = g := gate_unique h.nodup hg' hg e
            subst this
            simp at hx; rw [← hx, hr]
          · simp [e] at hx; exact inv.ev g' hg' hty' x hx
        · intro l hl
          have hl' := List.dropLast_subset _ hl
          simp only [List.mem_append] at hl'
          rcases hl' with hl' | hl'
          · exact inv.stk l hl'
          · exact hpushed l hl'
        · intro l hl
          by_cases e : l = g.label
          · right; rw [Dict.get?_set]; simp [e]
          · rcases inv.need l hl with hin | hin
            · left
              exact mem_dropLast_of_ne_last (by simp [hin]) hlast e
            · right; rw [Dict.get?_set]; simp [e, hin]
    · simp only [Except.ok.injEq, Prod.mk.injEq] at hs
      obtain ⟨rfl, rfl⟩ := hs
      refine ⟨inv.inp, inv.ev, ?_, ?_⟩
      · intro l hl
        simp only [List.mem_append] at hl
        rcases hl with hl | hl
        · exact inv.stk l hl
        · exact hpushed l hl
      · intro l hl
        rcases inv.need l hl with hin | hin
        · left; simp [hin]
        · right; exact hin

theorem lazyLoop_inv {c : Circuit} (h : WF c) {a v : Label → V3} (hv : IsVal3 c a v)
    {need : List Label} : ∀ fuel (s : List Label) (d dfin : Asg), LInv c a v need s d →
      lazyLoop c fuel s d = .ok dfin → LInv c a v need [] dfin
  | 0, s, d, dfin, inv, hl => by
    unfold lazyLoop at hl
    by_cases he : s.isEmpty
    · simp [he] at hl; subst hl
      have : s = [] := by simpa using he
      subst this; exact inv
    · simp [he] at hl
  | fuel+1, s, d, dfin, inv, hl => by
    unfold lazyLoop at hl
    by_cases he : s.isEmpty
    · simp [he] at hl; subst hl
      have : s = [] := by simpa using he
      subst this; exact inv
    · simp only [he, Bool.false_eq_true, if_false] at hl
      cases hs : lazyStep c s d with
      | error e => simp [hs] at hl
      | ok p =>
        obtain ⟨s', d'⟩ := p
        simp only [hs] at hl
        exact lazyLoop_inv h hv fuel s' d' dfin (lazyStep_inv h hv inv hs) hl

/-- **`evaluate_circuit`, partial correctness.**  On a well-formed circuit, with an assignment
on inputs only, if the call returns then (1) every gate carries either the valuation's value or
`Undefined` (never a wrong defined value), (2) every requested output carries the valuation's
value, (3) every gate has an entry. -/
theorem evalLazy_sound {c : Circuit} (h : WF c) (asg : Asg) (outs : Option (List Label))
    (hasg : ∀ g ∈ c.gates, g.ty ≠ INPUT → asg.get? g.label = none)
    (houts : ∀ o ∈ outs.getD c.outputs, o ∈ c.labels)
    {v : Label → V3} (hv : IsVal3 c (asgFun asg) v) {d : Asg}
    (hd : evalLazy c asg outs = .ok d) :
    (∀ g ∈ c.gates, d.get? g.label = some (v g.label) ∨ d.get? g.label = some V3.U) ∧
    (∀ o ∈ outs.getD c.outputs, d.get? o = some (v o)) := by
  unfold evalLazy at hd
  simp only at hd
  generalize hneed : (outs.getD c.outputs).filter (fun o => !c.inputs.contains o) = need at hd
  cases hl : lazyLoop c (2 * (need.length + totalArity c) + 2) need (initAsg c asg) with
  | error e => simp [hl] at hd
  | ok d1 =>
    simp only [hl, Except.ok.injEq] at hd
    have hinp0 : ∀ g ∈ c.gates, g.ty = INPUT →
        (initAsg c asg).get? g.label = some (asgFun asg g.label) := by
      intro g hg hty
      rw [initAsg_get?]
      have : g.label ∈ c.inputs := (h.inputsOK g.label).mpr ⟨g, hg, rfl, hty⟩
      simp [this]
    have inv0 : LInv c (asgFun asg) v need need (initAsg c asg) := by
      refine ⟨hinp0, ?_, ?_, fun l hl => Or.inl hl⟩
      · intro g hg hty x hx
        rw [initAsg_get?] at hx
        have hni : g.label ∉ c.inputs := by
          intro hin
          obtain ⟨g', hg', hgl', hty'⟩ := (h.inputsOK g.label).mp hin
          have : g' = g := gate_unique h.nodup hg' hg hgl'
          subst this; exact hty hty'
        simp [hni, hasg g hg hty] at hx
      · intro l hl
        rw [← hneed] at hl
        simp only [List.mem_filter, Bool.not_eq_eq_eq_not, Bool.not_true, List.contains_eq_mem,
          decide_eq_false_iff_not] at hl
        obtain ⟨g, hg, hgl⟩ := gate_of_label (houts l hl.1)
        refine ⟨g, hg, hgl, ?_⟩
        intro hty
        exact hl.2 ((h.inputsOK l).mpr ⟨g, hg, hgl, hty⟩)
    have inv := lazyLoop_inv h hv _ _ _ _ inv0 hl
    have hget : ∀ l, d.get? l = if l ∈ c.labels then some ((d1.get? l).getD V3.U) else d1.get? l := by
      intro l; rw [← hd]; exact foldl_setDefault_get? _ _ _
    constructor
    · intro g hg
      rw [hget]
      simp only [mem_labels_of_mem hg, if_true]
      cases hx : d1.get? g.label with
      | none => right; rfl
      | some x =>
        left
        by_cases hty : g.ty = INPUT
        · have h1 := inv.inp g hg hty
          have h2 := hv g hg
          simp only [hty, if_true] at h2
          rw [hx] at h1; simp at h1; simp [h1, h2]
        · simp [inv.ev g hg hty x hx]
    · intro o ho
      have hoL := houts o ho
      obtain ⟨g, hg, hgl⟩ := gate_of_label hoL
      rw [hget]; simp only [hoL, if_true]
      by_cases hty : g.ty = INPUT
      · have h1 := inv.inp g hg hty
        have h2 := hv g hg
        simp only [hty, if_true] at h2
        rw [hgl] at h1 h2; simp [h1, h2]
      · have hin : o ∈ need := by
          rw [← hneed]
          simp only [List.mem_filter, Bool.not_eq_eq_eq_not, Bool.not_true, List.contains_eq_mem,
            decide_eq_false_iff_not]
          refine ⟨ho, ?_⟩
          intro hi
          obtain ⟨g', hg', hgl', hty'⟩ := (h.inputsOK o).mp hi
          have : g' = g := gate_unique h.nodup hg' hg (hgl'.trans hgl.symm)
          subst this; exact hty hty'
        rcases inv.need o hin with hc | hc
        · cases hc
        · obtain ⟨x, hx⟩ := Option.isSome_iff_exists.mp hc
          have := inv.ev g hg hty x (hgl ▸ hx)
          simp [hx, this, hgl]

end Cirbo
