import Cirbo.Model.SynthCircuit
import Cirbo.Proofs.Synth
import Cirbo.Proofs.GenSum
/-!
# The circuit returned by exact synthesis computes the requested table
-/
namespace Cirbo
namespace Synth
open GateType Circuit

theorem inputFold_error (e : String) : ∀ (l : List Nat), l.foldl inputStep (.error e) = .error e := by
  intro l; induction l with
  | nil => rfl
  | cons a b ih => simpa [inputStep] using ih

theorem internalFold_error (sp : Spec) (sol : Sol) (e : String) : ∀ (l : List Nat), l.foldl (internalStep sp sol) (.error e) = .error e := by
  intro l; induction l with
  | nil => rfl
  | cons a b ih => simpa [internalStep] using ih

theorem outputFold_error (sol : Sol) (e : String) : ∀ (l : List Nat), l.foldl (outputStep sol) (.error e) = .error e := by
  intro l; induction l with
  | nil => rfl
  | cons a b ih => simpa [outputStep] using ih

theorem inputFold_spec : ∀ (l : List Nat) (c0 c : Circuit), l.foldl inputStep (.ok c0) = .ok c →
    (∀ x ∈ c0.gates, x ∈ c.gates) ∧ (∀ i ∈ l, (⟨toString i, INPUT, []⟩ : Gate) ∈ c.gates) ∧
    c.inputs = c0.inputs ++ l.map toString ∧ c.outputs = c0.outputs := by
  intro l
  induction l with
  | nil => intro c0 c h; simp at h; subst h; simp
  | cons i r ih =>
    intro c0 c h
    simp only [List.foldl_cons] at h
    cases ha : c0.addGate ⟨toString i, INPUT, []⟩ with
    | error e => simp only [inputStep, ha] at h; rw [inputFold_error] at h; cases h
    | ok c1 =>
      simp only [inputStep, ha] at h
      obtain ⟨_, _, hg, hi, ho, _⟩ := addGate_fields ha
      obtain ⟨i1, i2, i3, i4⟩ := ih c1 c h
      refine ⟨fun x hx => i1 x (by rw [hg]; simp [hx]), ?_, ?_, by rw [i4, ho]⟩
      · intro j hj
        rcases List.mem_cons.mp hj with rfl | hj
        · exact i1 _ (by rw [hg]; simp)
        · exact i2 j hj
      · rw [i3, hi]; simp

theorem internalFold_spec (sp : Spec) (sol : Sol) : ∀ (l : List Nat) (c0 c : Circuit),
    l.foldl (internalStep sp sol) (.ok c0) = .ok c →
    (∀ x ∈ c0.gates, x ∈ c.gates) ∧ (∀ g ∈ l, ∃ gt, synthGate sp sol g = some gt ∧ gt ∈ c.gates) ∧
    c.inputs = c0.inputs ∧ c.outputs = c0.outputs := by
  intro l
  induction l with
  | nil => intro c0 c h; simp at h; subst h; simp
  | cons g r ih =>
    intro c0 c h
    simp only [List.foldl_cons] at h
    cases hs : synthGate sp sol g with
    | none => simp only [internalStep, hs] at h; rw [internalFold_error] at h; cases h
    | some gt =>
      cases ha : c0.addGate gt with
      | error e => simp only [internalStep, hs, ha] at h; rw [internalFold_error] at h; cases h
      | ok c1 =>
        simp only [internalStep, hs, ha] at h
        obtain ⟨_, _, hg, hi, ho, _⟩ := addGate_fields ha
        obtain ⟨i1, i2, i3, i4⟩ := ih c1 c h
        have hty : gt.ty ≠ INPUT := by
          unfold synthGate at hs
          split at hs
          · cases hs
          · rename_i ty hty
            simp only [Option.some.injEq] at hs
            subst hs
            simp only
            intro e
            subst e
            revert hty
            cases sol.op g false false <;> cases sol.op g false true <;> cases sol.op g true false <;>
              cases sol.op g true true <;> simp [Gen.synthTtType]
        refine ⟨fun x hx => i1 x (by rw [hg]; simp [hx]), ?_, by rw [i3, hi, if_neg hty], by rw [i4, ho]⟩
        intro j hj
        rcases List.mem_cons.mp hj with rfl | hj
        · exact ⟨gt, hs, i1 _ (by rw [hg]; simp)⟩
        · exact i2 j hj

theorem outputFold_spec (sol : Sol) : ∀ (l : List Nat) (c0 c : Circuit), l.foldl (outputStep sol) (.ok c0) = .ok c →
    c.gates = c0.gates ∧ c.inputs = c0.inputs ∧ c.outputs = c0.outputs ++ l.map (fun h => "s" ++ toString (sol.out h)) := by
  intro l
  induction l with
  | nil => intro c0 c h; simp at h; subst h; simp
  | cons hh r ih =>
    intro c0 c h
    simp only [List.foldl_cons] at h
    cases hm : c0.markAsOutput ("s" ++ toString (sol.out hh)) with
    | error e => simp only [outputStep, hm] at h; rw [outputFold_error] at h; cases h
    | ok c1 =>
      simp only [outputStep, hm] at h
      unfold markAsOutput at hm
      split at hm
      · simp only [Except.ok.injEq] at hm
        subst hm
        obtain ⟨i1, i2, i3⟩ := ih _ c h
        exact ⟨i1, i2, by rw [i3]; simp⟩
      · cases hm

/-- **the returned `Circuit` computes the solution**: whenever the circuit is built from a solution
with proper predecessors, its inputs are `0 … n-1`, its outputs the gates `s<out h>`, and under every
valuation whose inputs carry row `t`, gate `g` has the value the solution's evaluation gives it -/
theorem solToCircuit_spec {sp : Spec} {sol : Sol} {c : Circuit}
    (hpred : ∀ g, sp.n ≤ g → g < sp.n + sp.N → (sol.pred g).1 < (sol.pred g).2 ∧ (sol.pred g).2 < g)
    (h : solToCircuit sp sol = .ok c) :
    c.inputs = (List.range sp.n).map toString ∧
    c.outputs = (List.range sp.m).map (fun h => "s" ++ toString (sol.out h)) ∧
    ∀ (b v : Label → Bool) (t : Nat), IsValB c b v → (∀ i, i < sp.n → b (toString i) = inputBit sp i t) →
      ∀ g, g < sp.n + sp.N → v (synthLabel sp g) = eval sp sol t g := by
  unfold solToCircuit at h
  cases h1 : (List.range sp.n).foldl inputStep (.ok Circuit.empty) with
  | error e => rw [h1, internalFold_error, outputFold_error] at h; cases h
  | ok c1 =>
    rw [h1] at h
    cases h2 : (internal sp).foldl (internalStep sp sol) (.ok c1) with
    | error e => rw [h2, outputFold_error] at h; cases h
    | ok c2 =>
      rw [h2] at h
      obtain ⟨_, a2, a3, a4⟩ := inputFold_spec _ _ _ h1
      obtain ⟨b1, b2, b3, b4⟩ := internalFold_spec sp sol _ _ _ h2
      obtain ⟨d1, d2, d3⟩ := outputFold_spec sol _ _ _ h
      refine ⟨by rw [d2, b3, a3]; rfl, by rw [d3, b4, a4]; rfl, ?_⟩
      intro b v t hv hb g
      induction g using Nat.strongRecOn with
      | ind g ih =>
        intro hg
        by_cases hin : g < sp.n
        · rw [eval_input sp sol t g hin]
          have hm : (⟨toString g, INPUT, []⟩ : Gate) ∈ c.gates := by
            rw [d1]; exact b1 _ (a2 g (by simpa using hin))
          have := hv _ hm
          simp only [if_true] at this
          unfold synthLabel
          rw [if_pos hin, this, hb g hin]
        · obtain ⟨p1, p2⟩ := hpred g (by omega) hg
          obtain ⟨gt, hs, hgm⟩ := b2 g (mem_internal.mpr ⟨by omega, hg⟩)
          unfold synthGate at hs
          split at hs
          · cases hs
          · rename_i ty hty
            simp only [Option.some.injEq] at hs
            subst hs
            have hnot : ty ≠ INPUT := by
              intro e; subst e
              revert hty
              cases sol.op g false false <;> cases sol.op g false true <;> cases sol.op g true false <;>
                cases sol.op g true true <;> simp [Gen.synthTtType]
            have := hv _ (by rw [d1]; exact hgm)
            simp only [hnot, if_false, List.map_cons, List.map_nil] at this
            rw [ih _ (by omega) (by omega), ih _ p2 (by omega)] at this
            have htt : bfun ty [eval sp sol t (sol.pred g).1, eval sp sol t (sol.pred g).2] =
                some (sol.op g (eval sp sol t (sol.pred g).1) (eval sp sol t (sol.pred g).2)) := by
              revert hty
              cases h00 : sol.op g false false <;> cases h01 : sol.op g false true <;> cases h10 : sol.op g true false <;>
                cases h11 : sol.op g true true <;> simp only [Gen.synthTtType, Option.some.injEq] <;> intro e <;> subst e <;>
                cases hx : eval sp sol t (sol.pred g).1 <;> cases hy : eval sp sol t (sol.pred g).2 <;> simp [h00, h01, h10, h11] <;> rfl
            rw [htt] at this
            rw [eval_eq sp sol t g (by omega) p2, if_neg hin]
            unfold synthLabel
            rw [if_neg hin]
            exact (Option.some.inj this).symm

end Synth
end Cirbo
