import Cirbo.Proofs.ReplaceWfs
import Cirbo.Proofs.EvalCor
/-!
# `replace_subcircuit` with a replacement that agrees with the slice keeps the function (C19)
-/
namespace Cirbo
open GateType Circuit

/-- valuations also transport backwards along a renaming -/
theorem renamed_val_back {c c' : Circuit} {old new : Label} (hr : Renamed c c' old new)
    {b' v' : Label → Bool} (hv : IsValB c' b' v') : IsValB c (b' ∘ rho old new) (v' ∘ rho old new) := by
  intro y hy
  have hm : renG old new y ∈ c'.gates := (hr.gates _).mpr ⟨y, hy, rfl⟩
  have := hv _ hm
  simp only [renG] at this
  by_cases ht : y.ty = INPUT
  · simpa [ht] using this
  · simp only [ht, if_false, List.map_map] at this ⊢
    exact this

/-- the renaming prologue, semantically: valuations of the original and of the renamed circuit
correspond along `f` (new ↦ old names) and `σ` (old ↦ new names), and `σ` realises the mappings -/
theorem renFold_sem : ∀ (ps : List (Label × Label)) (cc c1 : Circuit), WFS cc → (ps.map (·.1)).Nodup →
    (∀ k ∈ ps.map (·.1), k ∈ cc.labels) → ps.foldl renStep (.ok cc) = .ok c1 →
    ∃ f σ : Label → Label,
      (∀ b v, IsValB cc b v → IsValB c1 (b ∘ f) (v ∘ f) ∧ c1.outputs.map (v ∘ f) = cc.outputs.map v) ∧
      c1.inputs.map f = cc.inputs ∧
      (∀ b1 v1, IsValB c1 b1 v1 → IsValB cc (b1 ∘ σ) (v1 ∘ σ)) ∧
      (∀ p ∈ ps, σ p.1 = p.2) ∧ (∀ l, l ∉ ps.map (·.1) → σ l = l) ∧
      c1.inputs = cc.inputs.map σ ∧ (∀ a b, a ∈ cc.labels → b ∈ cc.labels → σ a = σ b → a = b) := by
  intro ps
  induction ps with
  | nil =>
    intro cc c1 hw _ _ h
    simp at h; subst h
    exact ⟨id, id, fun b v hv => ⟨hv, rfl⟩, by simp, fun b v hv => hv, by simp, by simp, by simp,
      fun a b _ _ h => h⟩
  | cons p rest ih =>
    obtain ⟨k, v⟩ := p
    intro cc c1 hw hnd hk h
    simp only [List.map_cons, List.nodup_cons] at hnd
    simp only [List.foldl_cons] at h
    by_cases hkv : k = v
    · subst hkv
      have hs : renStep (.ok cc) (k, k) = .ok cc := by simp [renStep]
      rw [hs] at h
      obtain ⟨f, σ, h1, h2, h3, h4, h5, h6, h7⟩ := ih cc c1 hw hnd.2 (fun x hx => hk x (by simp [hx])) h
      refine ⟨f, σ, h1, h2, h3, ?_, ?_, h6, h7⟩
      · intro p hp
        rcases List.mem_cons.mp hp with e | hp
        · subst e; exact h5 k hnd.1
        · exact h4 p hp
      · intro l hl
        simp only [List.map_cons, List.mem_cons, not_or] at hl
        exact h5 l hl.2
    · have hs : renStep (.ok cc) (k, v) = cc.renameGate k v := by simp [renStep, hkv]
      rw [hs] at h
      cases hr : cc.renameGate k v with
      | error e => rw [hr, renFold_error] at h; cases h
      | ok cc' =>
        rw [hr] at h
        obtain ⟨hren, hkin, hvnot⟩ := renameGate_renamed hw hr
        have hw' := renameGate_wfs hw hr
        obtain ⟨lab1, _⟩ := renamed_labels hren
        have keep : ∀ l ∈ cc.labels, l ≠ k → l ∈ cc'.labels := by
          intro l hl hne
          have := lab1 l hl
          simpa [rho, hne] using this
        have hk' : ∀ x ∈ rest.map (·.1), x ∈ cc'.labels := by
          intro x hx
          exact keep x (hk x (by simp [hx])) (fun e => hnd.1 (e ▸ hx))
        have hvk : v ∉ rest.map (·.1) := fun hm => hvnot (hk v (by simp [hm]))
        obtain ⟨f, σ, h1, h2, h3, h4, h5, h6, h7⟩ := ih cc' c1 hw' hnd.2 hk' h
        have hne : ∀ l ∈ cc.labels, l ≠ v := fun l hl e => hvnot (e ▸ hl)
        refine ⟨rhoInv k v ∘ f, σ ∘ rho k v, ?_, ?_, ?_, ?_, ?_, ?_, ?_⟩
        · intro b vv hv
          obtain ⟨a1, a2⟩ := renamed_val hw hvnot hren hv
          obtain ⟨b1, b2⟩ := h1 _ _ a1
          exact ⟨b1, by rw [← a2, ← b2]; rfl⟩
        · rw [← List.map_map, h2, hren.inputs, List.map_map]
          have : ∀ l ∈ cc.inputs, (rhoInv k v ∘ rho k v) l = l := by
            intro l hl
            obtain ⟨g, hg, hgl, _⟩ := (hw.inputsOK l).mp hl
            have : l ≠ v := fun e => hvnot (by rw [← e, ← hgl]; exact mem_labels_of_mem hg)
            simp only [Function.comp, rhoInv_rho this]
          rw [List.map_congr_left this]; simp
        · intro b1 v1 hv1
          exact renamed_val_back hren (h3 b1 v1 hv1)
        · intro p hp
          rcases List.mem_cons.mp hp with e | hp
          · subst e
            simp only [Function.comp, rho, if_true]
            exact h5 v hvk
          · have hne : p.1 ≠ k := fun e => hnd.1 (by rw [← e]; exact List.mem_map_of_mem hp)
            simp only [Function.comp, rho, hne, if_false]
            exact h4 p hp
        · intro l hl
          simp only [List.map_cons, List.mem_cons, not_or] at hl
          simp only [Function.comp, rho, hl.1, if_false]
          exact h5 l hl.2
        · rw [h6, hren.inputs, List.map_map]
        · intro a b ha hb hab
          simp only [Function.comp] at hab
          have := h7 _ _ (lab1 a ha) (lab1 b hb) hab
          exact rho_inj (hne a ha) (hne b hb) this

/-- **the semantic heart of `replace_subcircuit`**: if on every valuation of the circuit the
replacement, fed the values at the slice inputs, produces the values at the slice outputs, then
every valuation of the circuit extends to one of the result with the same values at the outputs -/
theorem replace_core_sem {c2 c3 c4 c6 sub : Circuit} {S imV omV order : List Label}
    (hw : WFS c2) (hsu : WFU sub) (inv : RBInv c2 c3 S)
    (hno : ∀ g ∈ S, g ∈ omV ∨ ∀ u ∈ c2.usersOf g, u ∈ S)
    (houts : ∀ o ∈ c2.outputs, o ∈ S → o ∈ omV)
    (hperm : order.Perm sub.labels)
    (hsubI : ∀ g ∈ sub.gates, g.ty = INPUT → imV.contains g.label = true)
    (himv : ∀ i ∈ imV, ∃ g ∈ sub.gates, g.label = i ∧ g.ty = INPUT)
    (hadd : order.foldl (addStepR sub imV) (.ok c3) = .ok c4)
    (hc6 : c6 = (omV.foldl (collectOuter c2 S) []).foldl addUsersStep { c4 with outputs := c2.outputs })
    (hequiv : ∀ b1 v1 bs vs, IsValB c2 b1 v1 → IsValB sub bs vs → (∀ i ∈ imV, vs i = v1 i) →
      ∀ o ∈ omV, vs o = v1 o)
    {b v1 : Label → Bool} (hv : IsValB c2 b v1) :
    ∃ v', IsValB c6 b v' ∧ c6.outputs.map v' = c2.outputs.map v1 := by
  have hgm : ∀ g, g ∈ c3.gates ↔ g ∈ c2.gates ∧ g.label ∉ S := by
    intro g; rw [inv.gates, List.mem_filter]; simp
  have hlab : ∀ l, l ∈ c3.labels ↔ l ∈ c2.labels ∧ l ∉ S := by
    intro l
    unfold Circuit.labels
    simp only [List.mem_map]
    constructor
    · rintro ⟨g, hg, rfl⟩; exact ⟨⟨g, ((hgm g).mp hg).1, rfl⟩, ((hgm g).mp hg).2⟩
    · rintro ⟨⟨g, hg, rfl⟩, hn⟩; exact ⟨g, (hgm g).mpr ⟨hg, hn⟩, rfl⟩
  have hnd3 : c3.labels.Nodup := by
    unfold Circuit.labels; rw [inv.gates]
    exact (List.Nodup.sublist ((List.filter_sublist).map _) hw.nodup)
  obtain ⟨added, ainv⟩ := addStepR_inv hsubI order [] c3 c4 [] (ainv_init sub imV hnd3) hadd
  simp only [List.nil_append] at ainv
  obtain ⟨f1, _, f3, _, _⟩ := addUsersFold_fields (omV.foldl (collectOuter c2 S) []) { c4 with outputs := c2.outputs }
  rw [← hc6] at f1 f3
  simp only at f1 f3
  -- labels of the old part and of the added part are disjoint
  have hnd4 : (c3.labels ++ added.map (·.label)).Nodup := by
    rw [← labels_append_gates ainv.gates]; exact ainv.nodup
  have hdisj : ∀ l, l ∈ c3.labels → l ∉ added.map (·.label) := by
    intro l h1 h2
    exact (List.nodup_append.mp hnd4).2.2 l h1 l h2 rfl
  -- the replacement evaluated on the values at the slice inputs
  obtain ⟨vs, hvs⟩ := valB_exists hsu v1
  have hvsI : ∀ i ∈ imV, vs i = v1 i := by
    intro i hi
    obtain ⟨g, hg, hgl, hty⟩ := himv i hi
    have := hvs g hg
    simp only [hty, if_true] at this
    rw [hgl] at this; exact this
  have hvsO : ∀ o ∈ omV, vs o = v1 o := hequiv b v1 v1 vs hv hvs hvsI
  -- a label of the old circuit that came back is a slice output
  have hcame : ∀ l, l ∈ c2.labels → l ∈ added.map (·.label) → l ∈ S := by
    intro l h1 h2
    by_cases hS : l ∈ S
    · exact hS
    · exact absurd h2 (hdisj l ((hlab l).mpr ⟨h1, hS⟩))
  refine ⟨fun l => if l ∈ added.map (·.label) then vs l else v1 l, ?_, ?_⟩
  · intro g hg
    rw [f1, ainv.gates] at hg
    rcases List.mem_append.mp hg with hg | hg
    · -- a gate of the old circuit
      obtain ⟨h1, h2⟩ := (hgm g).mp hg
      have hgl : g.label ∉ added.map (·.label) := hdisj _ (mem_labels_of_mem hg)
      have := hv g h1
      by_cases hty : g.ty = INPUT
      · simp only [hty, if_true, hgl, if_false] at this ⊢; exact this
      · simp only [hty, if_false, hgl] at this ⊢
        have hops : g.ops.map (fun l => if l ∈ added.map (·.label) then vs l else v1 l) = g.ops.map v1 := by
          apply List.map_congr_left
          intro o ho
          by_cases hoa : o ∈ added.map (·.label)
          · simp only [hoa, if_true]
            have hoS : o ∈ S := hcame o (hw.closed g h1 o ho) hoa
            have huse : g.label ∈ c2.usersOf o := by
              have := hw.usersC o g h1
              have hpos : 0 < g.ops.count o := List.count_pos_iff.mpr ho
              exact List.count_pos_iff.mp (by omega)
            rcases hno o hoS with h3 | h3
            · exact hvsO o h3
            · exact absurd (h3 _ huse) h2
          · simp only [hoa, if_false]
        rw [hops]; exact this
    · -- a gate of the replacement
      obtain ⟨hgs, hgi⟩ := ainv.fromSub g hg
      have hgl : g.label ∈ added.map (·.label) := List.mem_map_of_mem hg
      have hty : g.ty ≠ INPUT := ainv.noInput g hg
      have := hvs g hgs
      simp only [hty, if_false, hgl, if_true] at this ⊢
      have hops : g.ops.map (fun l => if l ∈ added.map (·.label) then vs l else v1 l) = g.ops.map vs := by
        apply List.map_congr_left
        intro o ho
        by_cases hoa : o ∈ added.map (·.label)
        · simp only [hoa, if_true]
        · simp only [hoa, if_false]
          have hol : o ∈ sub.labels := hsu.closed g hgs o ho
          have hoo : o ∈ order := hperm.mem_iff.mpr hol
          have hoi : imV.contains o = true := by
            cases hc : imV.contains o with
            | true => rfl
            | false => exact absurd (ainv.cover o hoo hc) hoa
          exact (hvsI o (by simpa using hoi)).symm
      rw [hops]; exact this
  · rw [f3]
    apply List.map_congr_left
    intro o ho
    by_cases hoa : o ∈ added.map (·.label)
    · simp only [hoa, if_true]
      exact hvsO o (houts o ho (hcame o (hw.outputsOK o ho) hoa))
    · simp only [hoa, if_false]

/-- on every valuation of the circuit the replacement, fed the values at the slice inputs,
produces the values at the slice outputs ("functionally equivalent under the given input/output
correspondence" — only on the value combinations that actually occur, so replacements that differ
on don't-cares qualify) -/
def SliceAgrees (c sub : Circuit) (im om : List (Label × Label)) : Prop :=
  ∀ b v bs vs, IsValB c b v → IsValB sub bs vs → (∀ p ∈ im, vs p.2 = v p.1) → ∀ p ∈ om, vs p.2 = v p.1

/-- **`replace_subcircuit` by an agreeing replacement keeps the truth table.** If no slice output is
a circuit input, then whenever the call returns there is a relabelling `f` of the result's inputs
onto the original inputs (position by position: `c'.inputs.map f = c.inputs`) such that every
valuation of the original under `b` yields a valuation of the result under `b ∘ f` with the same
values at the outputs, position by position. -/
theorem replaceSubcircuit_sem {c sub c' : Circuit} {im om : List (Label × Label)} {ctr ctr' : Nat}
    (hw : WFS c) (hsu : WFU sub) (hsb : ∀ b ∈ sub.blocks, (∀ l ∈ b.gates, l ∈ sub.labels) ∧ (∀ l ∈ b.inputs, l ∈ sub.labels))
    (hik : (im.map (·.1)).Nodup) (hok : (om.map (·.1)).Nodup)
    (hag : SliceAgrees c sub im om) (hnoin : ∀ p ∈ om, p.1 ∉ c.inputs)
    (h : c.replaceSubcircuit sub im om ctr = .ok (c', ctr')) :
    WFS c' ∧ ∃ f : Label → Label, c'.inputs.map f = c.inputs ∧
      ∀ b v, IsValB c b v → ∃ v', IsValB c' (b ∘ f) v' ∧ c'.outputs.map v' = c.outputs.map v := by
  have hs : WFS sub := WFS.ofWFU hsu hsb
  obtain ⟨c1, c2, c3, c4, gs, order, F⟩ := replaceSubcircuit_facts hw hs hik hok h
  refine ⟨replace_core F.w2 F.inv F.omvND F.sOut F.omvI F.noUsers F.outs F.subO F.subI F.add F.hc6 F.cyc, ?_⟩
  obtain ⟨f, σ, h1, h2, h3, h4, _, h6, h7⟩ := renFold_sem (im ++ om) c c1 hw F.keysND F.keysIn F.ren
  have hg21 : c2.gates = c1.gates := by rw [F.hc2]
  have hval21 : ∀ b v, IsValB c2 b v ↔ IsValB c1 b v := by
    intro b v; unfold IsValB; rw [hg21]
  -- agreement, at the level of the renamed circuit
  have hequiv : ∀ b1 v1 bs vs, IsValB c2 b1 v1 → IsValB sub bs vs → (∀ i ∈ im.map (·.2), vs i = v1 i) →
      ∀ o ∈ om.map (·.2), vs o = v1 o := by
    intro b1 v1 bs vs hv1 hvs hin o ho
    obtain ⟨p, hp, rfl⟩ := List.mem_map.mp ho
    have hv := h3 b1 v1 ((hval21 b1 v1).mp hv1)
    have := hag (b1 ∘ σ) (v1 ∘ σ) bs vs hv hvs (by
      intro q hq
      simp only [Function.comp, h4 q (List.mem_append_left _ hq)]
      exact hin q.2 (List.mem_map_of_mem hq)) p hp
    simpa only [Function.comp, h4 p (List.mem_append_right _ hp)] using this
  -- the input list survives
  have hin1 : c2.inputs = c1.inputs := by rw [F.hc2]
  have hkeep : ∀ i ∈ c2.inputs, gs.contains i = false := by
    intro i hi
    cases hc : gs.contains i with
    | false => rfl
    | true =>
      exfalso
      have hig : i ∈ gs := by simpa using hc
      rcases F.sliceNI i hig with h5 | ⟨og, hog, hty⟩
      · obtain ⟨p, hp, hpi⟩ := List.mem_map.mp h5
        rw [hin1, h6] at hi
        obtain ⟨l, hl, hli⟩ := List.mem_map.mp hi
        have hl' : l ∈ c.labels := by
          obtain ⟨g, hg, hgl, _⟩ := (hw.inputsOK l).mp hl
          rw [← hgl]; exact mem_labels_of_mem hg
        have hpk : p.1 ∈ c.labels := F.keysIn p.1 (List.mem_map_of_mem (List.mem_append_right _ hp))
        have : l = p.1 := h7 l p.1 hl' hpk (by rw [hli, h4 p (List.mem_append_right _ hp), hpi])
        exact hnoin p hp (this ▸ hl)
      · rw [hin1] at hi
        obtain ⟨g, hg, hgl, hgt⟩ := (F.w1.inputsOK i).mp hi
        have := find_label F.w1.nodup hg
        rw [hgl, hog] at this
        exact hty ((Option.some.inj this) ▸ hgt)
  have hnd3 : c3.labels.Nodup := by
    unfold Circuit.labels; rw [F.inv.gates]
    exact (List.Nodup.sublist ((List.filter_sublist).map _) F.w2.nodup)
  obtain ⟨added, ainv⟩ := addStepR_inv F.subI order [] c3 c4 [] (ainv_init sub _ hnd3) F.add
  obtain ⟨_, f2, _, _, _⟩ := addUsersFold_fields ((om.map (·.2)).foldl (collectOuter c2 gs) []) { c4 with outputs := c2.outputs }
  rw [← F.hc6] at f2
  simp only at f2
  have hin' : c'.inputs = c1.inputs := by
    rw [f2, ainv.inputs, F.inv.inputs, ← hin1]
    apply List.filter_eq_self.mpr
    intro i hi
    have := hkeep i hi
    simp only [List.contains_eq_mem, decide_eq_false_iff_not] at this
    simpa using this
  refine ⟨f, by rw [hin', h2], ?_⟩
  intro b v hv
  obtain ⟨a1, a2⟩ := h1 b v hv
  obtain ⟨v', b1, b2⟩ := replace_core_sem F.w2 hsu F.inv F.noUsers F.outs F.perm F.subI F.imvIn F.add F.hc6 hequiv
    ((hval21 _ _).mpr a1)
  refine ⟨v', b1, ?_⟩
  rw [b2, ← a2, F.hc2]

end Cirbo
