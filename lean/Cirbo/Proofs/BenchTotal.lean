import Cirbo.Proofs.Convert
import Cirbo.Proofs.BenchWfs
/-!
# Totality and error range of `into_bench` (C14)

`bt_intoBench_total`: on a well-formed circuit with at least one input, whose comparison / L*R* gates
have at least two operands and whose gate labels do not collide with the helper labels that the run
draws from the uuid counter, the conversion returns.  `bt_intoBench_ok_iff` shows that these conditions
are exactly the ones under which it returns; `bt_intoBench_error_*` describe the errors.
-/
namespace Cirbo
open GateType Circuit

/-! ### the labels drawn by a run -/

/-- the tag of the helper gate created for a gate of this type (`none`: no helper gate, no uuid drawn) -/
def bt_tag : GateType → Option String
  | .LT => some "LT"
  | .LEQ => some "LEQ"
  | .GT => some "GT"
  | .GEQ => some "GEQ"
  | .ALWAYS_TRUE => some "ALWAYS_TRUE"
  | .ALWAYS_FALSE => some "ALWAYS_FALSE"
  | _ => none

/-- the constants: rewritten with the first input of the circuit -/
def bt_isConst : GateType → Bool
  | .ALWAYS_TRUE | .ALWAYS_FALSE => true
  | _ => false

/-- the eight types whose converter reads `operands[0]` and `operands[1]` -/
def bt_isBin : GateType → Bool
  | .LT | .LEQ | .GT | .GEQ | .LIFF | .RIFF | .LNOT | .RNOT => true
  | _ => false

/-- the helper labels that `into_bench` draws when it walks over `todo` with the counter at `k`
(one uuid per comparison gate and per constant, in storage order) -/
def bt_drawn : List Gate → Nat → List Label
  | [], _ => []
  | g :: r, k =>
    match bt_tag g.ty with
    | some t => convLabel t g k :: bt_drawn r (k + 1)
    | none => bt_drawn r k

def bt_tags : List String := ["LT", "LEQ", "GT", "GEQ", "ALWAYS_TRUE", "ALWAYS_FALSE"]

theorem bt_tag_mem {ty : GateType} {t : String} (h : bt_tag ty = some t) : t ∈ bt_tags := by
  cases ty <;> simp [bt_tag] at h <;> subst h <;> simp [bt_tags]

theorem bt_hex32_length (n : Nat) : (hex32 n).toList.length = 32 := by
  simp [hex32]

/-- a generated label determines the label of the gate it was generated for (the uuid part has a fixed
width of 32 characters and no tag is a prefix of another one followed by `_for_`) -/
theorem bt_convLabel_inj {t1 t2 : String} (h1 : t1 ∈ bt_tags) (h2 : t2 ∈ bt_tags) {g1 g2 : Gate} {k1 k2 : Nat}
    (h : convLabel t1 g1 k1 = convLabel t2 g2 k2) : g1.label = g2.label := by
  have hl := congrArg String.toList h
  unfold convLabel at hl
  simp only [String.toList_append] at hl
  have key : g1.label.toList ++ (hex32 k1).toList = g2.label.toList ++ (hex32 k2).toList := by
    simp only [bt_tags, List.mem_cons, List.mem_nil_iff, or_false] at h1 h2
    rcases h1 with rfl | rfl | rfl | rfl | rfl | rfl <;> rcases h2 with rfl | rfl | rfl | rfl | rfl | rfl <;>
      revert hl <;> simp
  have := List.append_inj' key (by rw [bt_hex32_length, bt_hex32_length])
  exact String.toList_inj.mp this.1

theorem bt_drawn_cons (g : Gate) (r : List Gate) (k : Nat) :
    bt_drawn (g :: r) k = bt_drawn [g] k ++ bt_drawn r (k + (bt_drawn [g] k).length) := by
  simp only [bt_drawn]
  cases bt_tag g.ty <;> simp

theorem bt_drawn_mem : ∀ (todo : List Gate) (k : Nat) (l : Label), l ∈ bt_drawn todo k →
    ∃ g ∈ todo, ∃ t k', bt_tag g.ty = some t ∧ l = convLabel t g k' ∧ k ≤ k' ∧ k' < k + todo.length := by
  intro todo
  induction todo with
  | nil => intro k l h; cases h
  | cons g r ih =>
    intro k l h
    simp only [bt_drawn] at h
    cases ht : bt_tag g.ty with
    | none =>
      rw [ht] at h
      obtain ⟨g', hg', t, k', a, b, c1, c2⟩ := ih k l h
      exact ⟨g', List.mem_cons_of_mem _ hg', t, k', a, b, c1, by simp only [List.length_cons]; omega⟩
    | some t =>
      rw [ht] at h
      simp only [List.mem_cons] at h
      rcases h with rfl | h
      · exact ⟨g, List.mem_cons_self, t, k, ht, rfl, Nat.le_refl _, by simp only [List.length_cons]; omega⟩
      · obtain ⟨g', hg', t', k', a, b, c1, c2⟩ := ih (k + 1) l h
        exact ⟨g', List.mem_cons_of_mem _ hg', t', k', a, b, by omega, by simp only [List.length_cons]; omega⟩

/-- the labels drawn for gates with distinct labels are distinct (whatever the counter values) -/
theorem bt_drawn_nodup : ∀ (todo : List Gate) (k : Nat), (todo.map (·.label)).Nodup → (bt_drawn todo k).Nodup := by
  intro todo
  induction todo with
  | nil => intro k _; simp [bt_drawn]
  | cons g r ih =>
    intro k hnd
    simp only [List.map_cons, List.nodup_cons] at hnd
    simp only [bt_drawn]
    cases ht : bt_tag g.ty with
    | none => exact ih k hnd.2
    | some t =>
      simp only [List.nodup_cons]
      refine ⟨?_, ih (k + 1) hnd.2⟩
      intro hm
      obtain ⟨g', hg', t', k', a, b, _, _⟩ := bt_drawn_mem r (k + 1) _ hm
      have := bt_convLabel_inj (bt_tag_mem ht) (bt_tag_mem a) b
      exact hnd.1 (List.mem_map.mpr ⟨g', hg', this.symm⟩)

/-! ### one step returns -/

theorem bt_addGate_ok {c : Circuit} {g : Gate} (h1 : g.label ∉ c.labels) (h2 : ∀ o ∈ g.ops, o ∈ c.labels) :
    c.addGate g = .ok (c.rawAddGate g) := by
  unfold addGate checkGatesExist
  have h0 : c.hasGate g.label = false := (hasGate_false_iff _ _).mpr h1
  have h3 : g.ops.all c.hasGate = true := List.all_eq_true.mpr (fun o ho => (hasGate_iff _ _).mpr (h2 o ho))
  simp [h0, h3]

theorem bt_ops_two {g : Gate} (h : 2 ≤ g.ops.length) : ∃ x y r, g.ops = x :: y :: r := by
  rcases hg : g.ops with _ | ⟨a, _ | ⟨b, r⟩⟩ <;> rw [hg] at h <;> simp at h
  exact ⟨a, b, r, rfl⟩

theorem bt_convNeg_ok {cur : Circuit} {g : Gate} {k : Nat} (tag : String) (idx : Nat) (ty : GateType)
    (har : 2 ≤ g.ops.length) (hcl : ∀ o ∈ g.ops, o ∈ cur.labels) (hfr : convLabel tag g k ∉ cur.labels) :
    ∃ c1, cur.convNeg g k tag idx ty = .ok (c1, k + 1) ∧ c1.inputs = cur.inputs ∧
      c1.labels = cur.labels ++ [convLabel tag g k] := by
  obtain ⟨x, y, r, hops⟩ := bt_ops_two har
  have hx : x ∈ cur.labels := hcl x (by rw [hops]; simp)
  have hy : y ∈ cur.labels := hcl y (by rw [hops]; simp)
  have h : ∃ c1, cur.convNeg g k tag idx ty = .ok (c1, k + 1) := by
    unfold convNeg
    simp only [hops, List.getElem?_cons_zero, List.getElem?_cons_succ]
    rw [bt_addGate_ok (g := ⟨convLabel tag g k, NOT, [if idx = 0 then x else y]⟩) hfr
      (by intro o ho; simp only [List.mem_singleton] at ho; subst ho; split <;> assumption)]
    exact ⟨_, rfl⟩
  obtain ⟨c1, h⟩ := h
  obtain ⟨_, _, _, _, _, _, hgs, hins, _⟩ := convNeg_gates h
  refine ⟨c1, h, hins, ?_⟩
  unfold Circuit.labels
  rw [hgs, labels_map_replG]; simp

theorem bt_convDrop_ok {cur : Circuit} {g : Gate} {k : Nat} (idx : Nat) (ty : GateType)
    (har : 2 ≤ g.ops.length) :
    ∃ c1, cur.convDrop g k idx ty = .ok (c1, k) ∧ c1.inputs = cur.inputs ∧ c1.labels = cur.labels := by
  obtain ⟨x, y, r, hops⟩ := bt_ops_two har
  have h : ∃ c1, cur.convDrop g k idx ty = .ok (c1, k) := by
    unfold convDrop
    simp only [hops, List.getElem?_cons_zero, List.getElem?_cons_succ]
    exact ⟨_, rfl⟩
  obtain ⟨c1, h⟩ := h
  obtain ⟨_, _, _, _, hgs, hins, _⟩ := convDrop_gates h
  refine ⟨c1, h, hins, ?_⟩
  unfold Circuit.labels
  rw [hgs, labels_map_replG]

theorem bt_convConst_ok {cur : Circuit} {g : Gate} {k : Nat} (tag : String) (ty : GateType)
    {f : Label} (hf : cur.inputs[0]? = some f) (hfl : f ∈ cur.labels) (hfr : convLabel tag g k ∉ cur.labels) :
    ∃ c1, cur.convConst g k tag ty = .ok (c1, k + 1) ∧ c1.inputs = cur.inputs ∧
      c1.labels = cur.labels ++ [convLabel tag g k] := by
  have h : ∃ c1, cur.convConst g k tag ty = .ok (c1, k + 1) := by
    unfold convConst
    simp only [hf]
    rw [bt_addGate_ok (g := ⟨convLabel tag g k, NOT, [f]⟩) hfr
      (by intro o ho; simp only [List.mem_singleton] at ho; subst ho; exact hfl)]
    exact ⟨_, rfl⟩
  obtain ⟨c1, h⟩ := h
  obtain ⟨_, _, _, _, hgs, hins, _⟩ := convConst_gates h
  refine ⟨c1, h, hins, ?_⟩
  unfold Circuit.labels
  rw [hgs, labels_map_replG]; simp

theorem bt_convConst_noInput {cur : Circuit} {g : Gate} {k : Nat} (tag : String) (ty : GateType)
    (h : cur.inputs = []) : cur.convConst g k tag ty = .error "GateDoesntExistError" := by
  unfold convConst; simp [h]

/-- **one `convert_gate` call returns** as soon as: a comparison / L*R* gate has two operands, the operands
exist, the drawn label (if one is drawn) is not a gate label, and for a constant the circuit has a first
input that is a gate.  The counter advances by the number of drawn labels, the inputs stay and the drawn
label is the only new gate label. -/
theorem bt_step_ok {cur : Circuit} {g : Gate} {k : Nat}
    (har : bt_isBin g.ty = true → 2 ≤ g.ops.length)
    (hcl : ∀ o ∈ g.ops, o ∈ cur.labels)
    (hfr : ∀ l ∈ bt_drawn [g] k, l ∉ cur.labels)
    (hin : bt_isConst g.ty = true → ∃ f, cur.inputs[0]? = some f ∧ f ∈ cur.labels) :
    ∃ c1, cur.convertGate g k = .ok (c1, k + (bt_drawn [g] k).length) ∧ c1.inputs = cur.inputs ∧
      c1.labels = cur.labels ++ bt_drawn [g] k := by
  unfold convertGate
  cases hty : g.ty <;> simp only [hty, bt_isBin, bt_isConst, bt_drawn, bt_tag, List.mem_singleton, forall_eq,
    List.length_cons, List.length_nil, Nat.zero_add, Nat.add_zero, List.append_nil, forall_const,
    List.not_mem_nil, false_imp_iff, Bool.false_eq_true] at har hfr hin ⊢
  case INPUT | AND | IFF | NAND | NOR | NOT | NXOR | OR | XOR => exact ⟨cur, rfl, rfl, rfl⟩
  case LT => exact bt_convNeg_ok _ _ _ har hcl hfr
  case LEQ => exact bt_convNeg_ok _ _ _ har hcl hfr
  case GT => exact bt_convNeg_ok _ _ _ har hcl hfr
  case GEQ => exact bt_convNeg_ok _ _ _ har hcl hfr
  case LIFF => exact bt_convDrop_ok _ _ har
  case RIFF => exact bt_convDrop_ok _ _ har
  case LNOT => exact bt_convDrop_ok _ _ har
  case RNOT => exact bt_convDrop_ok _ _ har
  case ALWAYS_TRUE => obtain ⟨f, h1, h2⟩ := hin; exact bt_convConst_ok _ _ h1 h2 hfr
  case ALWAYS_FALSE => obtain ⟨f, h1, h2⟩ := hin; exact bt_convConst_ok _ _ h1 h2 hfr

/-! ### the loop -/

theorem bt_fold_error (e : String) : ∀ (l : List Gate), l.foldl convStep (.error e) = .error e := by
  intro l
  induction l with
  | nil => rfl
  | cons a r ih => simpa [convStep] using ih

theorem bt_isConst_iff (ty : GateType) : bt_isConst ty = true ↔ ty = ALWAYS_TRUE ∨ ty = ALWAYS_FALSE := by
  cases ty <;> simp [bt_isConst]

theorem bt_convertGate_noInput {cur : Circuit} {g : Gate} {k : Nat} (hc : bt_isConst g.ty = true)
    (h : cur.inputs = []) : cur.convertGate g k = .error "GateDoesntExistError" := by
  unfold convertGate
  rcases (bt_isConst_iff _).mp hc with hty | hty <;> simp only [hty] <;> exact bt_convConst_noInput _ _ h

/-- the loop of `into_bench` over the rest `todo` of the snapshot, from an intermediate circuit `cur`:
it returns if `cur` has an input or no constant is left, and raises `GateDoesntExistError` otherwise -/
theorem bt_fold : ∀ (todo : List Gate) (cur : Circuit) (k : Nat),
    (∀ g ∈ todo, bt_isBin g.ty = true → 2 ≤ g.ops.length) →
    (∀ g ∈ todo, ∀ o ∈ g.ops, o ∈ cur.labels) →
    (∀ l ∈ bt_drawn todo k, l ∉ cur.labels) →
    (bt_drawn todo k).Nodup →
    (∀ f, cur.inputs[0]? = some f → f ∈ cur.labels) →
    ((cur.inputs ≠ [] ∨ ∀ g ∈ todo, bt_isConst g.ty = false) →
        ∃ c' k', todo.foldl convStep (.ok (cur, k)) = .ok (c', k')) ∧
    (cur.inputs = [] → (∃ g ∈ todo, bt_isConst g.ty = true) →
        todo.foldl convStep (.ok (cur, k)) = .error "GateDoesntExistError") := by
  intro todo
  induction todo with
  | nil =>
    intro cur k _ _ _ _ _
    exact ⟨fun _ => ⟨cur, k, rfl⟩, fun _ h => by obtain ⟨g, hg, _⟩ := h; cases hg⟩
  | cons g rest ih =>
    intro cur k har hcl hfr hnd hinp
    simp only [List.foldl_cons]
    have hstep : convStep (.ok (cur, k)) g = cur.convertGate g k := rfl
    rw [hstep]
    by_cases hbad : bt_isConst g.ty = true ∧ cur.inputs = []
    · -- a constant and no input: the documented error
      rw [bt_convertGate_noInput hbad.1 hbad.2, bt_fold_error]
      refine ⟨?_, fun _ _ => rfl⟩
      rintro (h | h)
      · exact absurd hbad.2 h
      · have := h g List.mem_cons_self
        rw [hbad.1] at this; cases this
    · rw [bt_drawn_cons] at hfr hnd
      have hin1 : bt_isConst g.ty = true → ∃ f, cur.inputs[0]? = some f ∧ f ∈ cur.labels := by
        intro hc
        have hne : cur.inputs ≠ [] := fun e => hbad ⟨hc, e⟩
        cases hi : cur.inputs with
        | nil => exact absurd hi hne
        | cons f r => exact ⟨f, rfl, hinp f (by rw [hi]; rfl)⟩
      obtain ⟨c1, hc1, hins, hlab⟩ := bt_step_ok (cur := cur) (g := g) (k := k)
        (har g List.mem_cons_self) (hcl g List.mem_cons_self)
        (fun l hl => hfr l (List.mem_append_left _ hl)) hin1
      rw [hc1]
      have hnd' := List.nodup_append.mp hnd
      obtain ⟨ih1, ih2⟩ := ih c1 (k + (bt_drawn [g] k).length)
        (fun g2 hg2 => har g2 (List.mem_cons_of_mem _ hg2))
        (fun g2 hg2 o ho => by rw [hlab]; exact List.mem_append_left _ (hcl g2 (List.mem_cons_of_mem _ hg2) o ho))
        (fun l hl => by
          rw [hlab]
          intro hm
          rcases List.mem_append.mp hm with hm | hm
          · exact hfr l (List.mem_append_right _ hl) hm
          · exact hnd'.2.2 l hm l hl rfl)
        hnd'.2.1
        (fun f hf => by rw [hlab]; rw [hins] at hf; exact List.mem_append_left _ (hinp f hf))
      rw [hins] at ih1 ih2
      refine ⟨fun h => ih1 ?_, fun h0 h => ih2 h0 ?_⟩
      · rcases h with h | h
        · exact Or.inl h
        · exact Or.inr (fun g2 hg2 => h g2 (List.mem_cons_of_mem _ hg2))
      · obtain ⟨g2, hg2, hc2⟩ := h
        rcases List.mem_cons.mp hg2 with rfl | hg2
        · exact absurd ⟨hc2, h0⟩ hbad
        · exact ⟨g2, hg2, hc2⟩

/-- the facts about the start of the loop that come from the invariant -/
theorem bt_start {c : Circuit} (hw : WFS c) (ctr : Nat) :
    (∀ g ∈ c.gates, ∀ o ∈ g.ops, o ∈ c.labels) ∧ (bt_drawn c.gates ctr).Nodup ∧
    (∀ f, c.inputs[0]? = some f → f ∈ c.labels) := by
  refine ⟨hw.closed, bt_drawn_nodup _ _ (by simpa [Circuit.labels] using hw.nodup), ?_⟩
  intro f hf
  obtain ⟨g, hg, rfl, _⟩ := (hw.inputsOK f).mp (List.mem_of_getElem? hf)
  exact mem_labels_of_mem hg

/-- **`into_bench` returns** on every well-formed circuit with at least one input in which every
comparison gate (LT, LEQ, GT, GEQ) and every L*/R* gate (LIFF, RIFF, LNOT, RNOT) has at least two operands
and no gate is named like one of the helper gates this run creates (`bt_drawn`: for the i-th gate that
needs a helper, `new_gate_<TYPE>_for_<label><uuid number ctr+i>`). -/
theorem bt_intoBench_total {c : Circuit} {ctr : Nat} (hw : WFS c) (hin : c.inputs ≠ [])
    (har : ∀ g ∈ c.gates, bt_isBin g.ty = true → 2 ≤ g.ops.length)
    (hfr : ∀ l ∈ bt_drawn c.gates ctr, l ∉ c.labels) :
    ∃ c' ctr', c.intoBench ctr = .ok (c', ctr') := by
  obtain ⟨a, b, d⟩ := bt_start hw ctr
  exact (bt_fold c.gates c ctr har a hfr b d).1 (Or.inl hin)

/-- the same without inputs, when there is no constant gate -/
theorem bt_intoBench_total_noConst {c : Circuit} {ctr : Nat} (hw : WFS c)
    (hnc : ∀ g ∈ c.gates, g.ty ≠ ALWAYS_TRUE ∧ g.ty ≠ ALWAYS_FALSE)
    (har : ∀ g ∈ c.gates, bt_isBin g.ty = true → 2 ≤ g.ops.length)
    (hfr : ∀ l ∈ bt_drawn c.gates ctr, l ∉ c.labels) :
    ∃ c' ctr', c.intoBench ctr = .ok (c', ctr') := by
  obtain ⟨a, b, d⟩ := bt_start hw ctr
  refine (bt_fold c.gates c ctr har a hfr b d).1 (Or.inr ?_)
  intro g hg
  cases hc : bt_isConst g.ty with
  | false => rfl
  | true =>
    rcases (bt_isConst_iff _).mp hc with h | h
    · exact absurd h (hnc g hg).1
    · exact absurd h (hnc g hg).2

/-- **the documented error**: a well-formed circuit without inputs that contains a constant gate makes
`into_bench` raise `GateDoesntExistError` (under the same arity and label conditions, without which an
earlier gate of the storage order may raise first, see `bt_intoBench_error_range`) -/
theorem bt_intoBench_noInput_error {c : Circuit} {ctr : Nat} (hw : WFS c) (hin : c.inputs = [])
    (hconst : ∃ g ∈ c.gates, g.ty = ALWAYS_TRUE ∨ g.ty = ALWAYS_FALSE)
    (har : ∀ g ∈ c.gates, bt_isBin g.ty = true → 2 ≤ g.ops.length)
    (hfr : ∀ l ∈ bt_drawn c.gates ctr, l ∉ c.labels) :
    c.intoBench ctr = .error "GateDoesntExistError" := by
  obtain ⟨a, b, d⟩ := bt_start hw ctr
  obtain ⟨g, hg, hc⟩ := hconst
  exact (bt_fold c.gates c ctr har a hfr b d).2 hin ⟨g, hg, (bt_isConst_iff _).mpr hc⟩

/-! ### which error, and the converse: the conditions are necessary -/

theorem bt_addGate_clash {c : Circuit} {g : Gate} (h : g.label ∈ c.labels) :
    c.addGate g = .error "CircuitValidationError" := by
  unfold addGate
  simp [(hasGate_iff _ _).mpr h]

theorem bt_ops_short {g : Gate} (h : g.ops.length < 2) : g.ops[1]? = none := by
  simp only [List.getElem?_eq_none_iff]; omega

theorem bt_convNeg_index {cur : Circuit} {g : Gate} {k : Nat} (tag : String) (idx : Nat) (ty : GateType)
    (h : g.ops.length < 2) : cur.convNeg g k tag idx ty = .error "Py:IndexError" := by
  unfold convNeg
  rw [bt_ops_short h]
  cases g.ops[0]? <;> rfl

theorem bt_convDrop_index {cur : Circuit} {g : Gate} {k : Nat} (idx : Nat) (ty : GateType)
    (h : g.ops.length < 2) : cur.convDrop g k idx ty = .error "Py:IndexError" := by
  unfold convDrop
  rw [bt_ops_short h]
  cases g.ops[0]? <;> rfl

theorem bt_convNeg_clash {cur : Circuit} {g : Gate} {k : Nat} (tag : String) (idx : Nat) (ty : GateType)
    (har : 2 ≤ g.ops.length) (h : convLabel tag g k ∈ cur.labels) :
    cur.convNeg g k tag idx ty = .error "CircuitValidationError" := by
  obtain ⟨x, y, r, hops⟩ := bt_ops_two har
  unfold convNeg
  simp only [hops, List.getElem?_cons_zero, List.getElem?_cons_succ]
  rw [bt_addGate_clash (g := ⟨convLabel tag g k, NOT, [if idx = 0 then x else y]⟩) h]

theorem bt_convConst_clash {cur : Circuit} {g : Gate} {k : Nat} (tag : String) (ty : GateType)
    {f : Label} (hf : cur.inputs[0]? = some f) (h : convLabel tag g k ∈ cur.labels) :
    cur.convConst g k tag ty = .error "CircuitValidationError" := by
  unfold convConst
  simp only [hf]
  rw [bt_addGate_clash (g := ⟨convLabel tag g k, NOT, [f]⟩) h]

theorem bt_convertGate_index {cur : Circuit} {g : Gate} {k : Nat} (hb : bt_isBin g.ty = true)
    (h : g.ops.length < 2) : cur.convertGate g k = .error "Py:IndexError" := by
  unfold convertGate
  cases hty : g.ty <;> simp only [hty, bt_isBin, Bool.false_eq_true] at hb ⊢ <;>
    first | exact bt_convNeg_index _ _ _ h | exact bt_convDrop_index _ _ h

theorem bt_convertGate_clash {cur : Circuit} {g : Gate} {k : Nat}
    (har : bt_isBin g.ty = true → 2 ≤ g.ops.length)
    (hin : bt_isConst g.ty = true → ∃ f, cur.inputs[0]? = some f)
    (h : ∃ l ∈ bt_drawn [g] k, l ∈ cur.labels) : cur.convertGate g k = .error "CircuitValidationError" := by
  obtain ⟨l, hl, hm⟩ := h
  unfold convertGate
  cases hty : g.ty <;> simp only [hty, bt_isBin, bt_isConst, bt_drawn, bt_tag, List.mem_singleton,
    List.not_mem_nil, forall_const, Bool.false_eq_true] at har hin hl ⊢
  case LT => subst hl; exact bt_convNeg_clash _ _ _ har hm
  case LEQ => subst hl; exact bt_convNeg_clash _ _ _ har hm
  case GT => subst hl; exact bt_convNeg_clash _ _ _ har hm
  case GEQ => subst hl; exact bt_convNeg_clash _ _ _ har hm
  case ALWAYS_TRUE => subst hl; obtain ⟨f, hf⟩ := hin; exact bt_convConst_clash _ _ hf hm
  case ALWAYS_FALSE => subst hl; obtain ⟨f, hf⟩ := hin; exact bt_convConst_clash _ _ hf hm

/-- the outcome of one `convert_gate` call, completely -/
theorem bt_step_cases {cur : Circuit} {g : Gate} {k : Nat}
    (hcl : ∀ o ∈ g.ops, o ∈ cur.labels) (hinp : ∀ f, cur.inputs[0]? = some f → f ∈ cur.labels) :
    (∃ c1, cur.convertGate g k = .ok (c1, k + (bt_drawn [g] k).length) ∧ c1.inputs = cur.inputs ∧
      c1.labels = cur.labels ++ bt_drawn [g] k ∧ (bt_isBin g.ty = true → 2 ≤ g.ops.length) ∧
      (∀ l ∈ bt_drawn [g] k, l ∉ cur.labels) ∧ (bt_isConst g.ty = true → cur.inputs ≠ [])) ∨
    (cur.convertGate g k = .error "GateDoesntExistError" ∧ bt_isConst g.ty = true ∧ cur.inputs = []) ∨
    (cur.convertGate g k = .error "CircuitValidationError" ∧ ∃ l ∈ bt_drawn [g] k, l ∈ cur.labels) ∨
    (cur.convertGate g k = .error "Py:IndexError" ∧ bt_isBin g.ty = true ∧ g.ops.length < 2) := by
  by_cases h1 : bt_isConst g.ty = true ∧ cur.inputs = []
  · exact Or.inr (Or.inl ⟨bt_convertGate_noInput h1.1 h1.2, h1.1, h1.2⟩)
  by_cases h2 : bt_isBin g.ty = true ∧ g.ops.length < 2
  · exact Or.inr (Or.inr (Or.inr ⟨bt_convertGate_index h2.1 h2.2, h2.1, h2.2⟩))
  have har : bt_isBin g.ty = true → 2 ≤ g.ops.length := by
    intro hb
    apply Classical.byContradiction
    intro hn
    exact h2 ⟨hb, by omega⟩
  have hne : bt_isConst g.ty = true → cur.inputs ≠ [] := fun hc e => h1 ⟨hc, e⟩
  have hin0 : bt_isConst g.ty = true → ∃ f, cur.inputs[0]? = some f := by
    intro hc
    cases hi : cur.inputs with
    | nil => exact absurd hi (hne hc)
    | cons f r => exact ⟨f, rfl⟩
  by_cases h3 : ∃ l ∈ bt_drawn [g] k, l ∈ cur.labels
  · exact Or.inr (Or.inr (Or.inl ⟨bt_convertGate_clash har hin0 h3, h3⟩))
  have hfr : ∀ l ∈ bt_drawn [g] k, l ∉ cur.labels := fun l hl hm => h3 ⟨l, hl, hm⟩
  obtain ⟨c1, a, b, d⟩ := bt_step_ok (cur := cur) (g := g) (k := k) har hcl hfr
    (fun hc => by obtain ⟨f, hf⟩ := hin0 hc; exact ⟨f, hf, hinp f hf⟩)
  exact Or.inl ⟨c1, a, b, d, har, hfr, hne⟩

/-- the outcome of the loop, completely: it returns exactly when the three conditions hold, and each
error has its own cause -/
theorem bt_fold_cases : ∀ (todo : List Gate) (cur : Circuit) (k : Nat),
    (∀ g ∈ todo, ∀ o ∈ g.ops, o ∈ cur.labels) →
    (bt_drawn todo k).Nodup →
    (∀ f, cur.inputs[0]? = some f → f ∈ cur.labels) →
    ((∃ c' k', todo.foldl convStep (.ok (cur, k)) = .ok (c', k')) ∧
      (∀ g ∈ todo, bt_isBin g.ty = true → 2 ≤ g.ops.length) ∧
      (∀ l ∈ bt_drawn todo k, l ∉ cur.labels) ∧
      (cur.inputs = [] → ∀ g ∈ todo, bt_isConst g.ty = false)) ∨
    (todo.foldl convStep (.ok (cur, k)) = .error "GateDoesntExistError" ∧ cur.inputs = [] ∧
      ∃ g ∈ todo, bt_isConst g.ty = true) ∨
    (todo.foldl convStep (.ok (cur, k)) = .error "CircuitValidationError" ∧
      ∃ l ∈ bt_drawn todo k, l ∈ cur.labels) ∨
    (todo.foldl convStep (.ok (cur, k)) = .error "Py:IndexError" ∧
      ∃ g ∈ todo, bt_isBin g.ty = true ∧ g.ops.length < 2) := by
  intro todo
  induction todo with
  | nil =>
    intro cur k _ _ _
    exact Or.inl ⟨⟨cur, k, rfl⟩, fun g hg => (by cases hg), fun l hl => (by cases hl),
      fun _ g hg => (by cases hg)⟩
  | cons g rest ih =>
    intro cur k hcl hnd hinp
    simp only [List.foldl_cons]
    have hstep : convStep (.ok (cur, k)) g = cur.convertGate g k := rfl
    rw [hstep, bt_drawn_cons]
    rw [bt_drawn_cons] at hnd
    have hnd' := List.nodup_append.mp hnd
    rcases bt_step_cases (cur := cur) (g := g) (k := k) (hcl g List.mem_cons_self) hinp with
      ⟨c1, hc1, hins, hlab, s1, s2, s3⟩ | ⟨he, x1, x2⟩ | ⟨he, x1⟩ | ⟨he, x1, x2⟩
    · rw [hc1]
      have hsub : ∀ l ∈ cur.labels, l ∈ c1.labels := fun l hl => by rw [hlab]; exact List.mem_append_left _ hl
      rcases ih c1 (k + (bt_drawn [g] k).length)
        (fun g2 hg2 o ho => hsub o (hcl g2 (List.mem_cons_of_mem _ hg2) o ho))
        hnd'.2.1
        (fun f hf => by rw [hins] at hf; exact hsub f (hinp f hf)) with
        ⟨r1, r2, r3, r4⟩ | ⟨r1, r2, r3⟩ | ⟨r1, r2⟩ | ⟨r1, r2⟩
      · refine Or.inl ⟨r1, ?_, ?_, ?_⟩
        · intro g2 hg2
          rcases List.mem_cons.mp hg2 with rfl | hg2
          · exact s1
          · exact r2 g2 hg2
        · intro l hl
          rcases List.mem_append.mp hl with hl | hl
          · exact s2 l hl
          · exact fun hm => r3 l hl (hsub l hm)
        · intro h0 g2 hg2
          rcases List.mem_cons.mp hg2 with rfl | hg2
          · cases hc : bt_isConst g2.ty with
            | false => rfl
            | true => exact absurd h0 (s3 hc)
          · exact r4 (hins.trans h0) g2 hg2
      · obtain ⟨g2, hg2, hc2⟩ := r3
        exact Or.inr (Or.inl ⟨r1, hins ▸ r2, g2, List.mem_cons_of_mem _ hg2, hc2⟩)
      · obtain ⟨l, hl, hm⟩ := r2
        rw [hlab] at hm
        rcases List.mem_append.mp hm with hm | hm
        · exact Or.inr (Or.inr (Or.inl ⟨r1, l, List.mem_append_right _ hl, hm⟩))
        · exact absurd rfl (hnd'.2.2 l hm l hl)
      · obtain ⟨g2, hg2, hb2⟩ := r2
        exact Or.inr (Or.inr (Or.inr ⟨r1, g2, List.mem_cons_of_mem _ hg2, hb2⟩))
    · rw [he, bt_fold_error]
      exact Or.inr (Or.inl ⟨rfl, x2, g, List.mem_cons_self, x1⟩)
    · rw [he, bt_fold_error]
      obtain ⟨l, hl, hm⟩ := x1
      exact Or.inr (Or.inr (Or.inl ⟨rfl, l, List.mem_append_left _ hl, hm⟩))
    · rw [he, bt_fold_error]
      exact Or.inr (Or.inr (Or.inr ⟨rfl, g, List.mem_cons_self, x1, x2⟩))

/-- **the three conditions are exactly what `into_bench` needs**: on a well-formed circuit the conversion
returns if and only if (1) there is an input or no constant gate, (2) every comparison / L*R* gate has at
least two operands, (3) none of the helper labels drawn by this run is already a gate label -/
theorem bt_intoBench_ok_iff {c : Circuit} {ctr : Nat} (hw : WFS c) :
    (∃ c' ctr', c.intoBench ctr = .ok (c', ctr')) ↔
      ((c.inputs = [] → ∀ g ∈ c.gates, bt_isConst g.ty = false) ∧
       (∀ g ∈ c.gates, bt_isBin g.ty = true → 2 ≤ g.ops.length) ∧
       (∀ l ∈ bt_drawn c.gates ctr, l ∉ c.labels)) := by
  obtain ⟨a, b, d⟩ := bt_start hw ctr
  constructor
  · rintro ⟨c', k', h⟩
    unfold intoBench at h
    rcases bt_fold_cases c.gates c ctr a b d with ⟨_, r2, r3, r4⟩ | ⟨r1, _⟩ | ⟨r1, _⟩ | ⟨r1, _⟩
    · exact ⟨r4, r2, r3⟩
    all_goals (rw [r1] at h; cases h)
  · rintro ⟨h1, h2, h3⟩
    refine (bt_fold c.gates c ctr h2 a h3 b d).1 ?_
    by_cases hi : c.inputs = []
    · exact Or.inr (h1 hi)
    · exact Or.inl hi

/-- **error range**: on a well-formed circuit `into_bench` raises only
* `GateDoesntExistError` — then the circuit has no inputs and contains a constant gate (documented),
* `CircuitValidationError` — then a helper label drawn by this run is already a gate label,
* Python's `IndexError` — then a comparison / L*R* gate has fewer than two operands. -/
theorem bt_intoBench_error_range {c : Circuit} {ctr : Nat} {e : String} (hw : WFS c)
    (h : c.intoBench ctr = .error e) :
    (e = "GateDoesntExistError" ∧ c.inputs = [] ∧ ∃ g ∈ c.gates, g.ty = ALWAYS_TRUE ∨ g.ty = ALWAYS_FALSE) ∨
    (e = "CircuitValidationError" ∧ ∃ l ∈ bt_drawn c.gates ctr, l ∈ c.labels) ∨
    (e = "Py:IndexError" ∧ ∃ g ∈ c.gates, bt_isBin g.ty = true ∧ g.ops.length < 2) := by
  obtain ⟨a, b, d⟩ := bt_start hw ctr
  unfold intoBench at h
  rcases bt_fold_cases c.gates c ctr a b d with ⟨⟨c', k', r1⟩, _⟩ | ⟨r1, r2, g, hg, hc⟩ | ⟨r1, r2⟩ | ⟨r1, r2⟩
  · rw [r1] at h; cases h
  · rw [r1] at h; cases h
    exact Or.inl ⟨rfl, r2, g, hg, (bt_isConst_iff _).mp hc⟩
  · rw [r1] at h; cases h
    exact Or.inr (Or.inl ⟨rfl, r2⟩)
  · rw [r1] at h; cases h
    exact Or.inr (Or.inr ⟨rfl, r2⟩)

/-- under the arity and label conditions only the documented error is left -/
theorem bt_intoBench_error_documented {c : Circuit} {ctr : Nat} {e : String} (hw : WFS c)
    (har : ∀ g ∈ c.gates, bt_isBin g.ty = true → 2 ≤ g.ops.length)
    (hfr : ∀ l ∈ bt_drawn c.gates ctr, l ∉ c.labels)
    (h : c.intoBench ctr = .error e) :
    e = "GateDoesntExistError" ∧ c.inputs = [] ∧ ∃ g ∈ c.gates, g.ty = ALWAYS_TRUE ∨ g.ty = ALWAYS_FALSE := by
  rcases bt_intoBench_error_range hw h with r | ⟨_, l, hl, hm⟩ | ⟨_, g, hg, hb, hlt⟩
  · exact r
  · exact absurd hm (hfr l hl)
  · have := har g hg hb; omega

/-! ### corollaries with the usual hypotheses -/

/-- accepted arities (the hypothesis of the C14 theorems) give the two operands -/
theorem bt_arity_of_arityOk {c : Circuit}
    (har : ∀ g ∈ c.gates, g.ty ≠ INPUT → arityOk g.ty g.ops.length = true) :
    ∀ g ∈ c.gates, bt_isBin g.ty = true → 2 ≤ g.ops.length := by
  intro g hg hb
  have := har g hg (by intro e; rw [e] at hb; cases hb)
  cases hty : g.ty <;> rw [hty] at hb this <;> simp [bt_isBin, arityOk] at hb this <;> omega

/-- a label condition that does not mention the order of the gates: no gate is named
`new_gate_<TYPE>_for_<label of a gate><32 hex digits of k>` for a counter value `k` this run can reach -/
theorem bt_fresh_of_simple {c : Circuit} {ctr : Nat}
    (h : ∀ g ∈ c.gates, ∀ t ∈ bt_tags, ∀ k, ctr ≤ k → k < ctr + c.gates.length → convLabel t g k ∉ c.labels) :
    ∀ l ∈ bt_drawn c.gates ctr, l ∉ c.labels := by
  intro l hl
  obtain ⟨g, hg, t, k', ht, rfl, h1, h2⟩ := bt_drawn_mem _ _ _ hl
  exact h g hg t (bt_tag_mem ht) k' h1 h2

/-- **total correctness of `into_bench`**: for every well-formed circuit with at least one input, accepted
arities and no gate named like a helper gate of this run, the conversion returns, the result is well
formed, and every valuation of the original extends to the result, agreeing on all original gates, with
the same inputs and outputs and only bench-basis gate types -/
theorem bt_intoBench_total_correct {c : Circuit} {ctr : Nat} (hw : WFS c) (hin : c.inputs ≠ [])
    (har : ∀ g ∈ c.gates, g.ty ≠ INPUT → arityOk g.ty g.ops.length = true)
    (hfr : ∀ l ∈ bt_drawn c.gates ctr, l ∉ c.labels) :
    ∃ c' ctr', c.intoBench ctr = .ok (c', ctr') ∧ WFS c' ∧
      ∀ b v, IsValB c b v → ∃ v', IsValB c' b v' ∧ (∀ l ∈ c.labels, v' l = v l) ∧ c'.inputs = c.inputs ∧
        c'.outputs = c.outputs ∧ NL c' ∧ (∀ g ∈ c'.gates, benchTy g.ty = true) := by
  obtain ⟨c', k', h⟩ := bt_intoBench_total hw hin (bt_arity_of_arityOk har) hfr
  refine ⟨c', k', h, intoBench_wfs hw har h, ?_⟩
  intro b v hv
  have hnl : NL c := ⟨hw.nodup, hw.closed, fun g hg => by
    by_cases e : g.ty = INPUT
    · simp only [e, if_true]; exact hw.inputOps g hg e
    · simp only [e, if_false]; exact har g hg e⟩
  exact intoBench_sem hnl hv h

/-! ### witnesses: each failure is reached by a well-formed circuit -/

/-- `LT` with one operand: accepted by `add_gate` (no arity check), well formed -/
def bt_exIdx : Circuit :=
  { gates := [⟨"x", INPUT, []⟩, ⟨"g", GateType.LT, ["x"]⟩], inputs := ["x"], outputs := ["g"],
    users := [("x", ["g"])], blocks := [] }

theorem bt_exIdx_wfs : WFS bt_exIdx := by
  refine ⟨by decide, by decide, ⟨fun l => if l = "g" then 1 else 0, by decide⟩, by decide, ?_, by decide, ?_, ?_,
    by decide, by decide⟩
  · intro l
    simp [bt_exIdx, eq_comm]
  · intro l s hs
    by_cases hl : l = "x"
    · subst hl
      have : bt_exIdx.usersOf "x" = ["g"] := by decide
      rw [this] at hs; simp at hs; subst hs; decide
    · have : bt_exIdx.usersOf l = [] := by
        have hb : (l == "x") = false := by simpa using hl
        simp [Circuit.usersOf, bt_exIdx, List.lookup, hb]
      rw [this] at hs; cases hs
  · intro l
    by_cases hl : l = "x"
    · subst hl; decide
    · have : bt_exIdx.usersOf l = [] := by
        have hb : (l == "x") = false := by simpa using hl
        simp [Circuit.usersOf, bt_exIdx, List.lookup, hb]
      rw [this]
      intro g hg
      simp [bt_exIdx] at hg
      rcases hg with rfl | rfl <;> simp [hl, eq_comm]

/-- a well-formed circuit with an input on which the model reaches Python's `IndexError` -/
theorem bt_exIdx_error : bt_exIdx.intoBench 0 = .error "Py:IndexError" := by rfl

/-- accepted arities, two inputs, and a gate that carries the name of the helper gate for `g` with uuid
number 0 -/
def bt_exClash : Circuit :=
  { gates := [⟨"x", INPUT, []⟩, ⟨"y", INPUT, []⟩, ⟨"g", GateType.LT, ["x", "y"]⟩,
      ⟨"new_gate_LT_for_g00000000000000000000000000000000", AND, ["x", "y"]⟩],
    inputs := ["x", "y"], outputs := ["g"],
    users := [("x", ["g", "new_gate_LT_for_g00000000000000000000000000000000"]),
              ("y", ["g", "new_gate_LT_for_g00000000000000000000000000000000"])], blocks := [] }

theorem bt_exClash_wfs : WFS bt_exClash := by
  refine ⟨by decide, by decide, ⟨fun l => if l = "x" ∨ l = "y" then 0 else 1, by decide⟩, by decide, ?_,
    by decide, ?_, ?_, by decide, by decide⟩
  · intro l
    simp [bt_exClash, eq_comm]
  · intro l s hs
    by_cases hx : l = "x"
    · subst hx
      have : bt_exClash.usersOf "x" = ["g", "new_gate_LT_for_g00000000000000000000000000000000"] := by decide
      rw [this] at hs; simp at hs; rcases hs with rfl | rfl <;> decide
    by_cases hy : l = "y"
    · subst hy
      have : bt_exClash.usersOf "y" = ["g", "new_gate_LT_for_g00000000000000000000000000000000"] := by decide
      rw [this] at hs; simp at hs; rcases hs with rfl | rfl <;> decide
    · have : bt_exClash.usersOf l = [] := by
        have hb1 : (l == "x") = false := by simpa using hx
        have hb2 : (l == "y") = false := by simpa using hy
        simp [Circuit.usersOf, bt_exClash, List.lookup, hb1, hb2]
      rw [this] at hs; cases hs
  · intro l
    by_cases hx : l = "x"
    · subst hx; decide
    by_cases hy : l = "y"
    · subst hy; decide
    · have : bt_exClash.usersOf l = [] := by
        have hb1 : (l == "x") = false := by simpa using hx
        have hb2 : (l == "y") = false := by simpa using hy
        simp [Circuit.usersOf, bt_exClash, List.lookup, hb1, hb2]
      rw [this]
      intro g hg
      simp [bt_exClash] at hg
      rcases hg with rfl | rfl | rfl | rfl <;> simp [hx, hy, eq_comm]

theorem bt_exClash_arity : ∀ g ∈ bt_exClash.gates, g.ty ≠ INPUT → arityOk g.ty g.ops.length = true := by decide

/-- with the uuid counter at 0 the drawn label exists already: `CircuitValidationError` -/
theorem bt_exClash_error : bt_exClash.intoBench 0 = .error "CircuitValidationError" := by rfl

/-- with the counter at 1 the hypotheses of `bt_intoBench_total_correct` hold (they are satisfiable) -/
theorem bt_exClash_ok : ∃ c' ctr', bt_exClash.intoBench 1 = .ok (c', ctr') :=
  bt_intoBench_total bt_exClash_wfs (by decide) (bt_arity_of_arityOk bt_exClash_arity) (by decide)

/-- the documented error: no inputs and a constant -/
def bt_exNoIn : Circuit :=
  { gates := [⟨"t", ALWAYS_TRUE, []⟩], inputs := [], outputs := ["t"], users := [], blocks := [] }

theorem bt_exNoIn_error : bt_exNoIn.intoBench 0 = .error "GateDoesntExistError" := by rfl

/-- without inputs, a non-constant gate earlier in the storage order can raise first (here `LT` without
operands, accepted by `add_gate`) -/
def bt_exNoIn2 : Circuit :=
  { gates := [⟨"a", GateType.LT, []⟩, ⟨"t", ALWAYS_TRUE, []⟩], inputs := [], outputs := ["t"], users := [],
    blocks := [] }

theorem bt_exNoIn2_error : bt_exNoIn2.intoBench 0 = .error "Py:IndexError" := by rfl

#print axioms bt_intoBench_total
#print axioms bt_intoBench_total_noConst
#print axioms bt_intoBench_noInput_error
#print axioms bt_intoBench_ok_iff
#print axioms bt_intoBench_error_range
#print axioms bt_intoBench_error_documented
#print axioms bt_intoBench_total_correct
#print axioms bt_exIdx_wfs
#print axioms bt_exClash_wfs
#print axioms bt_exClash_ok

end Cirbo
