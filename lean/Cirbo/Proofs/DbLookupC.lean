import Cirbo.Proofs.DbLookup
/-!
# The completions of a table with don't-cares: exactly the fully defined tables that agree with it
-/
namespace Cirbo
namespace Norm

theorem nodup_map_of_inj' {α β} {f : α → β} (hf : ∀ a b, f a = f b → a = b) : ∀ (l : List α), l.Nodup → (l.map f).Nodup := by
  intro l
  induction l with
  | nil => intro _; simp
  | cons x r ih =>
    intro h
    simp only [List.nodup_cons, List.map_cons, List.mem_map] at h ⊢
    exact ⟨fun ⟨y, hy, e⟩ => h.1 (hf _ _ e ▸ hy), ih h.2⟩

def E (t : List Row) (i j : Nat) : Bool := (t.getD i []).getD j false

theorem getD_set_rows (t : List Row) (i : Nat) (r : Row) (k : Nat) :
    (t.set i r).getD k [] = if k = i ∧ i < t.length then r else t.getD k [] := by
  simp only [List.getD_eq_getElem?_getD, List.getElem?_set]
  by_cases h : i = k
  · subst h
    by_cases hi : i < t.length
    · simp [hi]
    · simp [hi]
  · have : ¬ (k = i ∧ i < t.length) := fun hh => h hh.1.symm
    simp [h, this]

theorem E_set (t : List Row) (i j : Nat) (b : Bool) (hi : i < t.length) (hj : j < (t.getD i []).length) (a c : Nat) :
    E (t.set i ((t.getD i []).set j b)) a c = if a = i ∧ c = j then b else E t a c := by
  unfold E
  rw [getD_set_rows]
  by_cases ha : a = i
  · subst ha
    simp only [true_and, hi, if_true]
    simp only [List.getD_eq_getElem?_getD, List.getElem?_set]
    by_cases hc : j = c
    · subst hc
      simp only [List.getD_eq_getElem?_getD] at hj
      simp [hj]
    · have : ¬ (c = j) := fun e => hc e.symm
      simp [hc, this]
  · have : ¬ (a = i ∧ i < t.length) := fun h => ha h.1
    have h2 : ¬ (a = i ∧ c = j) := fun h => ha h.1
    simp [this, h2]

theorem shape_set (t : List Row) (i j : Nat) (b : Bool) :
    (t.set i ((t.getD i []).set j b)).length = t.length ∧
    ∀ k, ((t.set i ((t.getD i []).set j b)).getD k []).length = (t.getD k []).length := by
  refine ⟨by simp, ?_⟩
  intro k
  rw [getD_set_rows]
  split
  · rename_i h; rw [h.1]; simp
  · rfl

/-- what `substitute` does, cell by cell -/
theorem substitute_spec : ∀ (pos : List (Nat × Nat)) (vals : List Bool) (t : List Row), pos.Nodup →
    vals.length = pos.length → (∀ p ∈ pos, p.1 < t.length ∧ p.2 < (t.getD p.1 []).length) →
    ((substitute t pos vals).length = t.length ∧ ∀ k, ((substitute t pos vals).getD k []).length = (t.getD k []).length) ∧
    (∀ k (h1 : k < pos.length) (h2 : k < vals.length), E (substitute t pos vals) pos[k].1 pos[k].2 = vals[k]) ∧
    (∀ a c, (a, c) ∉ pos → E (substitute t pos vals) a c = E t a c) := by
  intro pos
  induction pos with
  | nil =>
    intro vals t _ hl _
    have : vals = [] := List.eq_nil_of_length_eq_zero (by simpa using hl)
    subst this
    exact ⟨⟨rfl, fun _ => rfl⟩, fun k h1 _ => absurd h1 (by simp), fun _ _ _ => rfl⟩
  | cons p rest ih =>
    intro vals t hnd hl hin
    cases vals with
    | nil => simp at hl
    | cons v vs =>
      simp only [List.nodup_cons] at hnd
      obtain ⟨hp1, hp2⟩ := hin p (by simp)
      have hshape := shape_set t p.1 p.2 v
      have hsub : substitute t (p :: rest) (v :: vs) = substitute (t.set p.1 ((t.getD p.1 []).set p.2 v)) rest vs := by
        simp [substitute]
      rw [hsub]
      obtain ⟨⟨s1, s2⟩, i2, i3⟩ := ih vs (t.set p.1 ((t.getD p.1 []).set p.2 v)) hnd.2 (by simpa using hl) (by
        intro q hq
        obtain ⟨q1, q2⟩ := hin q (by simp [hq])
        rw [hshape.1, hshape.2]; exact ⟨q1, q2⟩)
      refine ⟨⟨by rw [s1, hshape.1], fun k => by rw [s2, hshape.2]⟩, ?_, ?_⟩
      · intro k h1 h2
        cases k with
        | zero =>
          simp only [List.getElem_cons_zero]
          rw [i3 p.1 p.2 (by intro hm; exact hnd.1 hm), E_set t p.1 p.2 v hp1 hp2]
          simp
        | succ k' =>
          simp only [List.getElem_cons_succ]
          exact i2 k' (by simpa using h1) (by simpa using h2)
      · intro a c hac
        simp only [List.mem_cons, not_or] at hac
        rw [i3 a c hac.2, E_set t p.1 p.2 v hp1 hp2]
        have : ¬ (a = p.1 ∧ c = p.2) := fun h => hac.1 (by rw [h.1, h.2])
        simp [this]

theorem rows_ext (t1 t2 : List Row) (hl : t1.length = t2.length) (hr : ∀ i, (t1.getD i []).length = (t2.getD i []).length)
    (he : ∀ i j, i < t1.length → j < (t1.getD i []).length → E t1 i j = E t2 i j) : t1 = t2 := by
  apply List.ext_getElem hl
  intro i h1 h2
  have e1 : t1.getD i [] = t1[i] := by simp [List.getD_eq_getElem?_getD, h1]
  have e2 : t2.getD i [] = t2[i] := by simp [List.getD_eq_getElem?_getD, h2]
  have hri := hr i
  rw [e1, e2] at hri
  apply List.ext_getElem hri
  intro j g1 g2
  have := he i j h1 (by rw [e1]; exact g1)
  unfold E at this
  rw [e1, e2] at this
  simpa [List.getD_eq_getElem?_getD, g1, g2] using this

theorem mem_allSubs : ∀ (k : Nat) (l : List Bool), l.length = k → l ∈ allSubs k := by
  intro k
  induction k with
  | zero => intro l h; have : l = [] := List.eq_nil_of_length_eq_zero h; subst this; simp [allSubs]
  | succ n ih =>
    intro l h
    cases l with
    | nil => simp at h
    | cons b r =>
      have hr := ih r (by simpa using h)
      simp only [allSubs, List.mem_append, List.mem_map]
      cases b with
      | false => exact Or.inl ⟨r, hr, rfl⟩
      | true => exact Or.inr ⟨r, hr, rfl⟩

theorem length_of_mem_allSubs : ∀ (k : Nat) (l : List Bool), l ∈ allSubs k → l.length = k := by
  intro k
  induction k with
  | zero => intro l h; simp [allSubs] at h; subst h; rfl
  | succ n ih =>
    intro l h
    simp only [allSubs, List.mem_append, List.mem_map] at h
    rcases h with ⟨r, hr, rfl⟩ | ⟨r, hr, rfl⟩ <;> simp [ih r hr]

/-! ## the don't-care positions -/

theorem mem_undefinedPositions (tt : List (List TEntry)) (i j : Nat) :
    (i, j) ∈ undefinedPositions tt ↔ (tt.getD i [])[j]? = some none := by
  unfold undefinedPositions
  simp only [List.mem_flatten, List.mem_map]
  constructor
  · rintro ⟨l, ⟨⟨row, i'⟩, hri, rfl⟩, hm⟩
    simp only [List.mem_map, List.mem_filter] at hm
    obtain ⟨⟨e, j'⟩, ⟨hej, hnone⟩, hp⟩ := hm
    simp only [Prod.mk.injEq] at hp
    obtain ⟨rfl, rfl⟩ := hp
    rw [List.mem_zipIdx_iff_getElem?] at hri hej
    simp only at hri hej
    rw [List.getD_eq_getElem?_getD, hri]
    simp only [Option.getD_some]
    rw [hej]
    cases e with
    | none => rfl
    | some b => simp at hnone
  · intro h
    have hi : i < tt.length := by
      rcases Nat.lt_or_ge i tt.length with h1 | h1
      · exact h1
      · rw [List.getD_eq_getElem?_getD, List.getElem?_eq_none h1] at h; simp at h
    have hrow : tt[i]? = some (tt.getD i []) := by
      rw [List.getD_eq_getElem?_getD, List.getElem?_eq_getElem hi]; simp
    refine ⟨_, ⟨(tt.getD i [], i), ?_, rfl⟩, ?_⟩
    · rw [List.mem_zipIdx_iff_getElem?]; exact hrow
    · simp only [List.mem_map, List.mem_filter]
      refine ⟨(none, j), ⟨?_, rfl⟩, rfl⟩
      rw [List.mem_zipIdx_iff_getElem?]; exact h

theorem zipIdx_map_getElem {α β} (l : List α) (f : α × Nat → β) (k : Nat) (h : k < (l.zipIdx.map f).length) :
    (l.zipIdx.map f)[k] = f (l[k]'(by simpa using h), k) := by
  simp

theorem undefinedPositions_nodup (tt : List (List TEntry)) : (undefinedPositions tt).Nodup := by
  unfold undefinedPositions
  rw [List.nodup_iff_pairwise_ne, List.pairwise_flatten]
  constructor
  · intro l hl
    obtain ⟨⟨row, i⟩, _, rfl⟩ := List.mem_map.mp hl
    rw [← List.nodup_iff_pairwise_ne]
    -- the second components are distinct indices of the row
    have hnd : ((row.zipIdx.filter (fun (ej : TEntry × Nat) => ej.1.isNone)).map (·.2)).Nodup := by
      have : (row.zipIdx.map (·.2)).Nodup := by
        have e : row.zipIdx.map (·.2) = List.range' 0 row.length := by simp [List.zipIdx_eq_zip_range', List.map_snd_zip]
        rw [e]; exact List.nodup_range'
      exact List.Nodup.sublist ((List.filter_sublist).map _) this
    have e2 : (row.zipIdx.filter (fun (ej : TEntry × Nat) => ej.1.isNone)).map (fun ej => (i, ej.2)) =
        ((row.zipIdx.filter (fun (ej : TEntry × Nat) => ej.1.isNone)).map (·.2)).map (fun j => (i, j)) := by
      rw [List.map_map]; rfl
    rw [e2]
    exact nodup_map_of_inj' (fun a b e => by simpa using e) _ hnd
  · rw [List.pairwise_iff_getElem]
    intro a b ha hb hab x hx y hy e
    rw [zipIdx_map_getElem] at hx hy
    simp only [List.mem_map] at hx hy
    obtain ⟨p, _, rfl⟩ := hx
    obtain ⟨q, _, e2⟩ := hy
    rw [← e2] at e
    simp only [Prod.mk.injEq] at e
    omega

/-! ## the completions are exactly the full tables that agree with the defined entries -/

/-- a full table that has the shape of the model and its defined entries -/
def Agrees (tt : List (List TEntry)) (t : List Row) : Prop :=
  t.length = tt.length ∧ (∀ i, (t.getD i []).length = (tt.getD i []).length) ∧
  ∀ i j b, (tt.getD i [])[j]? = some (some b) → E t i j = b

theorem baseTable_shape (tt : List (List TEntry)) :
    (baseTable tt).length = tt.length ∧ ∀ i, ((baseTable tt).getD i []).length = (tt.getD i []).length := by
  unfold baseTable
  refine ⟨by simp, ?_⟩
  intro i
  simp only [List.getD_eq_getElem?_getD, List.getElem?_map]
  cases tt[i]? <;> simp

theorem baseTable_E (tt : List (List TEntry)) (i j : Nat) (e : TEntry) (h : (tt.getD i [])[j]? = some e) :
    E (baseTable tt) i j = e.getD false := by
  unfold E baseTable
  simp only [List.getD_eq_getElem?_getD, List.getElem?_map] at h ⊢
  cases hr : tt[i]? with
  | none => rw [hr] at h; simp at h
  | some r =>
    rw [hr] at h
    simp only [Option.getD_some] at h
    simp [h]

theorem pos_in_bounds (tt : List (List TEntry)) (t : List Row) (hl : t.length = tt.length)
    (hr : ∀ i, (t.getD i []).length = (tt.getD i []).length) :
    ∀ p ∈ undefinedPositions tt, p.1 < t.length ∧ p.2 < (t.getD p.1 []).length := by
  intro p hp
  obtain ⟨i, j⟩ := p
  rw [mem_undefinedPositions] at hp
  have hj : j < (tt.getD i []).length := by
    rcases Nat.lt_or_ge j (tt.getD i []).length with h | h
    · exact h
    · rw [List.getElem?_eq_none h] at hp; simp at hp
  refine ⟨?_, by rw [hr]; exact hj⟩
  rw [hl]
  rcases Nat.lt_or_ge i tt.length with h | h
  · exact h
  · rw [List.getD_eq_getElem?_getD, List.getElem?_eq_none h] at hj; simp at hj

/-- every table that is looked up is a full table of the model's shape and has the model's defined entries -/
theorem completions_sound (tt : List (List TEntry)) (t : List Row) (h : t ∈ completions tt) : Agrees tt t := by
  unfold completions at h
  obtain ⟨vals, hv, rfl⟩ := List.mem_map.mp h
  have hlen := length_of_mem_allSubs _ _ hv
  obtain ⟨hbl, hbr⟩ := baseTable_shape tt
  obtain ⟨⟨hs1, hs2⟩, _, hs4⟩ := substitute_spec (undefinedPositions tt) vals (baseTable tt)
    (undefinedPositions_nodup tt) hlen (pos_in_bounds tt _ hbl hbr)
  refine ⟨by rw [hs1, hbl], fun i => by rw [hs2, hbr], ?_⟩
  intro i j b hb
  have hni : (i, j) ∉ undefinedPositions tt := by
    rw [mem_undefinedPositions, hb]; simp
  rw [hs4 i j hni, baseTable_E tt i j _ hb]; rfl

/-- and every such table is looked up -/
theorem completions_complete (tt : List (List TEntry)) (t : List Row) (h : Agrees tt t) : t ∈ completions tt := by
  obtain ⟨hl, hr, he⟩ := h
  unfold completions
  refine List.mem_map.mpr ⟨(undefinedPositions tt).map (fun p => E t p.1 p.2), mem_allSubs _ _ (by simp), ?_⟩
  obtain ⟨hbl, hbr⟩ := baseTable_shape tt
  obtain ⟨⟨hs1, hs2⟩, hs3, hs4⟩ := substitute_spec (undefinedPositions tt)
    ((undefinedPositions tt).map (fun p => E t p.1 p.2)) (baseTable tt)
    (undefinedPositions_nodup tt) (by simp) (pos_in_bounds tt _ hbl hbr)
  apply rows_ext
  · rw [hs1, hbl, hl]
  · intro i; rw [hs2, hbr, hr]
  · intro i j hi hj
    rw [hs2, hbr] at hj
    by_cases hm : (i, j) ∈ undefinedPositions tt
    · obtain ⟨k, hk, hke⟩ := List.getElem_of_mem hm
      have := hs3 k hk (by simpa using hk)
      rw [hke] at this
      rw [this]
      simp [hke]
    · rw [hs4 i j hm]
      have hje : (tt.getD i [])[j]? = some ((tt.getD i [])[j]) := List.getElem?_eq_getElem hj
      cases hv : (tt.getD i [])[j] with
      | none => rw [hv] at hje; exact absurd ((mem_undefinedPositions tt i j).mpr hje) hm
      | some b =>
        rw [hv] at hje
        rw [baseTable_E tt i j _ hje, he i j b hje]; rfl

theorem mem_completions_iff (tt : List (List TEntry)) (t : List Row) : t ∈ completions tt ↔ Agrees tt t :=
  ⟨completions_sound tt t, completions_complete tt t⟩

/-- **the lookup with don't-cares**: the circuit returned is the stored circuit of a full table that agrees
with every defined entry, no stored circuit of any agreeing full table is smaller, and nothing is returned
only when no agreeing full table is stored -/
theorem lookupDC_correct {γ} (lookup : List Row → Option γ) (size : γ → Nat) (tt : List (List TEntry)) :
    (∀ r, lookupDC lookup size tt = some r →
      (∃ t, Agrees tt t ∧ lookup t = some r) ∧ ∀ t, Agrees tt t → ∀ c, lookup t = some c → size r ≤ size c) ∧
    (lookupDC lookup size tt = none ↔ ∀ t, Agrees tt t → lookup t = none) := by
  obtain ⟨h1, h2⟩ := lookupDC_spec lookup size tt
  constructor
  · intro r hr
    obtain ⟨⟨t, ht, hl⟩, hmin⟩ := h1 r hr
    exact ⟨⟨t, completions_sound tt t ht, hl⟩, fun t' ha c hc => hmin t' (completions_complete tt t' ha) c hc⟩
  · rw [h2]
    exact ⟨fun h t ha => h t (completions_complete tt t ha), fun h t ht => h t (completions_sound tt t ht)⟩

/-- with a lookup of full tables that returns only circuits computing the table asked for, the circuit
returned for a model with don't-cares computes a table that has every defined entry of the model -/
theorem lookupDC_computes {γ} (lookup : List Row → Option γ) (size : γ → Nat) (Computes : γ → List Row → Prop)
    (hlookup : ∀ t r, lookup t = some r → Computes r t) (tt : List (List TEntry)) (r : γ)
    (h : lookupDC lookup size tt = some r) :
    ∃ t, Computes r t ∧ t.length = tt.length ∧ (∀ i, (t.getD i []).length = (tt.getD i []).length) ∧
      ∀ i j b, (tt.getD i [])[j]? = some (some b) → (t.getD i []).getD j false = b := by
  obtain ⟨⟨t, ha, hl⟩, _⟩ := (lookupDC_correct lookup size tt).1 r h
  exact ⟨t, hlookup t r hl, ha.1, ha.2.1, ha.2.2⟩

example : completions [[some true, none], [none, some false]] =
    [[[true, false], [false, false]], [[true, false], [true, false]], [[true, true], [false, false]], [[true, true], [true, false]]] := by decide

end Norm
end Cirbo
