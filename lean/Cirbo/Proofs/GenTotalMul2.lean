import Cirbo.Proofs.GenTotalW2
import Cirbo.Proofs.GenKara
import Cirbo.Proofs.GenDadda
/-!
# Totality of the Karatsuba and Dadda multipliers (`multiplication.py`)

`add_mul_karatsuba`, `add_mul_karatsuba_with_efficient_sum` (MulMode.KARATSUBA), `add_mul_dadda` and their helper
programs return on operands that are gates of the circuit (or stop because the label space is exhausted).

* Karatsuba: at least one operand non-empty; the fuel `|a| + |b| + 2` exceeds the wider operand, and every recursive
  call is on operands of width `⌈n/2⌉ + 1 < n` (`n ≥ 18` there) — `m2_ok_karaCore`.
* Dadda: both operands non-empty; thresholds `di ≥ 2` (so the popped bits exist), strictly decreasing (so the fuel
  `n + m + 4 ≥ di` is enough), no column that holds a bit is ever emptied, and the top column gets its bit.
* Two shape facts are obtained by a *value* argument along the bridge `m2_run_sem` (every run that returns has a `Sem`
  witness under a valuation extending any valuation of the start circuit): with all operand bits 1 the product
  `(2^n-1)(2^m-1) ≥ 2^(n+m-1)` needs the top bit, hence the weighted sum of `last_step_sum_with_new_powers_sum` has
  `≥ 2n` result bits (`m2_weighted_len`) and the top Dadda column is not empty (`m2_dadda_top`).

Hypotheses (contracts from other lists, discharged at integration): `m2_HSub` (add_sub_two_numbers), `m2_HPpRows`
(ppRows), `m2_HMulPow2M1Core` (add_mul_pow2_m1), `m2_HProgFold` (progFold).
-/
namespace Cirbo
open GateType Circuit

/-! ## bridge: a run that returns has a `Sem` witness, under a valuation that extends any given valuation of the
labels of the start circuit.  (Shape facts proved over `Sem` hold of the result of every run; value facts proved over
`Sem` can be used with a valuation chosen on the operands.) -/

theorem m2_labels_of_gates {c c' : Circuit} (h : c'.gates = c.gates) : c'.labels = c.labels := by
  unfold Circuit.labels; rw [h]

theorem m2_run_sem {α} (p : Prog α) : ∀ {st : GSt} {a : α} {st' : GSt}, p.run st = .ok (a, st') →
    ∀ v0 : Label → Bool, ∃ v, (∀ l ∈ st.c.labels, v l = v0 l) ∧ Sem p v a := by
  induction p with
  | pure a =>
    intro st a' st' h v0
    simp only [Prog.run, Except.ok.injEq, Prod.mk.injEq] at h
    obtain ⟨rfl, _⟩ := h
    exact ⟨v0, fun _ _ => rfl, .pure⟩
  | fresh r k ih =>
    intro st a st' h v0
    simp only [Prog.run] at h
    split at h
    · cases h
    · rename_i l ctr' _
      obtain ⟨v, h1, h2⟩ := ih l h v0
      exact ⟨v, h1, .fresh l h2⟩
  | add g ok k ih =>
    intro st a st' h v0
    simp only [Prog.run] at h
    split at h
    · cases h
    · rename_i c' hc
      obtain ⟨hfresh, hops, hg, _⟩ := addGate_fields hc
      have har : arityOk g.ty g.ops.length = true := by
        simp only [tyOk, Bool.and_eq_true] at ok; exact ok.2
      obtain ⟨x, hx⟩ := bfun_isSome_of_arityOk g.ty (g.ops.map v0) (by simpa using har)
      obtain ⟨v, h1, h2⟩ := ih h (updV v0 g.label x)
      have hlab : c'.labels = st.c.labels ++ [g.label] := by
        unfold Circuit.labels; rw [hg]; simp
      have hv : ∀ l ∈ st.c.labels, v l = v0 l := by
        intro l hl
        have hne : l ≠ g.label := fun e => hfresh (e ▸ hl)
        rw [h1 l (by show l ∈ c'.labels; rw [hlab]; simp [hl])]
        simp [updV, hne]
      refine ⟨v, hv, .add ?_ h2⟩
      have hmap : g.ops.map v = g.ops.map v0 := by
        apply List.map_congr_left; intro o ho
        exact hv o (hops o ho)
      rw [hmap, hx, h1 g.label (by show g.label ∈ c'.labels; rw [hlab]; simp)]
      simp [updV]
  | mark l k ih =>
    intro st a st' h v0
    simp only [Prog.run] at h
    split at h
    · cases h
    · rename_i c' hc
      obtain ⟨hg, _⟩ := markAsOutput_fields hc
      obtain ⟨v, h1, h2⟩ := ih h v0
      exact ⟨v, fun l hl => h1 l (by show l ∈ c'.labels; rw [m2_labels_of_gates hg]; exact hl), .mark h2⟩
  | fail e => intro st a st' h; simp [Prog.run] at h

/-- the result of a run has a `Sem` witness under a valuation that agrees with `v0` on the labels of the start circuit -/
theorem m2_Ok_withSem {α} {p : Prog α} {st : GSt} {Q : α → GSt → Prop} (hp : Ok p st Q) (v0 : Label → Bool) :
    Ok p st (fun a st' => Q a st' ∧ ∃ v, (∀ l ∈ st.c.labels, v l = v0 l) ∧ Sem p v a) := by
  rcases hp with ⟨a, st', h1, h2⟩ | h
  · exact Or.inl ⟨a, st', h1, h2, m2_run_sem p h1 v0⟩
  · exact Or.inr h

theorem m2_Ok_assoc {α β γ} {p : Prog α} {f : α → Prog β} {g : β → Prog γ} {st : GSt} {R : γ → GSt → Prop}
    (h : Ok ((p >>= f) >>= g) st R) : Ok (p >>= fun a => f a >>= g) st R := by
  unfold Ok at h ⊢
  have e : (p >>= fun a => f a >>= g).run st = ((p >>= f) >>= g).run st := by
    rw [run_bind, run_bind, run_bind]
    cases p.run st with
    | error e => rfl
    | ok r => obtain ⟨a, s⟩ := r; simp only; rw [run_bind]
  rw [e]; exact h


/-! ## Karatsuba -/

def m2_karaBig (base : List Label → List Label → Prog (List Label)) (fuel outSize : Nat) (la lb' : List Label) :
    Prog (List Label) := do
  let n := la.length
  let mid := n / 2
  let hiA := la.drop mid
  let loA := la.take mid
  let hiB := lb'.drop mid
  let loB := lb'.take mid
  let ac ← (if smallSize (n - mid) then base hiA hiB else karaCore base fuel hiA hiB)
  let bd ← (if smallSize mid then base loA loB else karaCore base fuel loA loB)
  let aSumB ← addSumTwoNumbers hiA loA false
  let cSumD ← addSumTwoNumbers hiB loB false
  let big ← (if smallSize aSumB.length then base aSumB cSumD else karaCore base fuel aSumB cSumD)
  let acSumBd ← addSumTwoNumbers ac bd false
  let resMid ← addSubTwoNumbers big acSumBd false
  let res ← addSumTwoNumbersWithShift mid bd resMid false
  let fin ← addSumTwoNumbersWithShift (2 * mid) res ac false
  pure (fin.take outSize)

def m2_karaPad (la lb : List Label) : Prog (List Label) :=
  if la.length == lb.length then pure lb else
    match la with
    | a0 :: _ => padZeros a0 (la.length - lb.length) lb
    | [] => .fail "Py:IndexError"

def m2_karaBody (base : List Label → List Label → Prog (List Label)) (fuel outSize : Nat) (la lb : List Label) :
    Prog (List Label) := do
  let n := la.length
  let lb' ← m2_karaPad la lb
  if smallSize n then do
    let r ← base la lb'
    pure (r.take outSize)
  else m2_karaBig base fuel outSize la lb'

def m2_outSize (a b : List Label) : Nat := a.length + b.length - (if a.length == 1 || b.length == 1 then 1 else 0)

theorem m2_karaCore_lt {base} {fuel : Nat} {a b : List Label} (h : a.length < b.length) :
    karaCore base (fuel + 1) a b = m2_karaBody base fuel (m2_outSize a b) b a := by
  unfold karaCore
  simp only [h, if_true]
  rfl

theorem m2_karaCore_ge {base} {fuel : Nat} {a b : List Label} (h : ¬ a.length < b.length) :
    karaCore base (fuel + 1) a b = m2_karaBody base fuel (m2_outSize a b) a b := by
  unfold karaCore
  simp only [h, if_false]
  rfl

theorem m2_ok_padZeros {a0 : Label} : ∀ (k : Nat) (b : List Label) (st : GSt) (P K : List Label), Inv st P → Kn st K →
    a0 ∈ K → (∀ l ∈ b, l ∈ K) →
    Ok (padZeros a0 k b) st (GPost P K id (fun r => r.length = b.length + k)) := by
  intro k
  induction k with
  | zero =>
    intro b st P K hinv hk _ hb
    unfold padZeros
    exact Ok.pure ⟨hinv, fun l hl => hk l (by kmem), rfl⟩
  | succ k ih =>
    intro b st P K hinv hk h0 hb
    unfold padZeros
    apply Ok.stepK (okK_emitTT hinv hk (by decide) h0 h0); intro z s1 i1 k1 _
    refine (ih (b ++ [z]) s1 P (K ++ [z]) i1 k1 (by kmem) (by intro l hl; kmem)).mono ?_
    intro r s2 ⟨i2, k2, h2⟩
    refine ⟨i2, k2.mono (by intro l hl; kmem), ?_⟩
    simp only [List.length_append, List.length_singleton] at h2; omega

/-- contract of a base multiplier (used below the recursion threshold): equal widths `k ≥ 1` -/
def m2_Base (base : List Label → List Label → Prog (List Label)) : Prop :=
  ∀ (a b : List Label) (st : GSt) (P K : List Label), Inv st P → Kn st K → (∀ l ∈ a, l ∈ K) → (∀ l ∈ b, l ∈ K) →
    a.length = b.length → 1 ≤ a.length →
    Ok (base a b) st (GPost P K id (fun r => r.length = if a.length = 1 then 1 else 2 * a.length))

/-- contract of `add_sub_two_numbers` (agent C: `ca_ok_addSubTwoNumbers`) -/
def m2_HSub : Prop :=
  ∀ (a b : List Label) (st : GSt) (P K : List Label), Inv st P → Kn st K → (∀ l ∈ a, l ∈ K) → (∀ l ∈ b, l ∈ K) →
    a ≠ [] → b ≠ [] → Ok (addSubTwoNumbers a b false) st (GPost P K id (fun r => r.length = a.length))

def m2_KaraIH (base : List Label → List Label → Prog (List Label)) (fuel : Nat) : Prop :=
  ∀ (a b : List Label) (st : GSt) (P K : List Label), Inv st P → Kn st K → (∀ l ∈ a, l ∈ K) → (∀ l ∈ b, l ∈ K) →
    1 ≤ max a.length b.length → max a.length b.length < fuel →
    Ok (karaCore base fuel a b) st (GPost P K id (fun r => r.length = m2_outSize a b))

theorem m2_ok_karaSub {base} (hb : m2_Base base) {fuel : Nat} (ih : m2_KaraIH base fuel) {p q : List Label} {st : GSt}
    {P K : List Label} (hinv : Inv st P) (hk : Kn st K) (hp : ∀ l ∈ p, l ∈ K) (hq : ∀ l ∈ q, l ∈ K)
    (hpq : p.length = q.length) (h2 : 2 ≤ p.length) (hf : p.length < fuel) :
    Ok (if smallSize p.length then base p q else karaCore base fuel p q) st
      (GPost P K id (fun r => r.length = 2 * p.length)) := by
  split
  · refine (hb p q st P K hinv hk hp hq hpq (by omega)).mono ?_
    intro r s ⟨i, k, h⟩
    refine ⟨i, k, ?_⟩
    rw [if_neg (by omega)] at h; exact h
  · refine (ih p q st P K hinv hk hp hq (by omega) (by omega)).mono ?_
    intro r s ⟨i, k, h⟩
    refine ⟨i, k, ?_⟩
    unfold m2_outSize at h
    have e1 : (p.length == 1) = false := by simp; omega
    have e2 : (q.length == 1) = false := by simp; omega
    dsimp only at h ⊢
    rw [h, e1, e2]; simp; omega

theorem m2_ne_nil_of_length {l : List Label} (h : 1 ≤ l.length) : l ≠ [] := by
  intro e; subst e; simp at h

theorem m2_ok_karaBig {base} (hb : m2_Base base) (hsub : m2_HSub) {fuel : Nat} (ih : m2_KaraIH base fuel)
    {outSize : Nat} {la lb' : List Label} {st : GSt} {P K : List Label} (hinv : Inv st P) (hk : Kn st K)
    (ha : ∀ l ∈ la, l ∈ K) (hb' : ∀ l ∈ lb', l ∈ K) (hlen : lb'.length = la.length) (h18 : 18 ≤ la.length)
    (hf : la.length ≤ fuel) (hos : outSize ≤ 2 * la.length) :
    Ok (m2_karaBig base fuel outSize la lb') st (GPost P K id (fun r => r.length = outSize)) := by
  unfold m2_karaBig
  dsimp only
  generalize hmid : la.length / 2 = mid
  have hmid1 : 9 ≤ mid := by omega
  have hmid2 : 2 * mid ≤ la.length := by omega
  have hmid3 : la.length ≤ 2 * mid + 1 := by omega
  have lhiA : (la.drop mid).length = la.length - mid := List.length_drop
  have lloA : (la.take mid).length = mid := by rw [List.length_take]; omega
  have lhiB : (lb'.drop mid).length = la.length - mid := by rw [List.length_drop, hlen]
  have lloB : (lb'.take mid).length = mid := by rw [List.length_take]; omega
  have hhiA : ∀ l ∈ la.drop mid, l ∈ K := fun l hl => ha l (List.mem_of_mem_drop hl)
  have hloA : ∀ l ∈ la.take mid, l ∈ K := fun l hl => ha l (List.mem_of_mem_take hl)
  have hhiB : ∀ l ∈ lb'.drop mid, l ∈ K := fun l hl => hb' l (List.mem_of_mem_drop hl)
  have hloB : ∀ l ∈ lb'.take mid, l ∈ K := fun l hl => hb' l (List.mem_of_mem_take hl)
  -- ac
  have hAC := m2_ok_karaSub hb ih hinv hk hhiA hhiB (by rw [lhiA, lhiB]) (by omega) (by omega)
  rw [lhiA] at hAC
  apply Ok.stepK hAC; intro ac s1 i1 k1 lac
  simp only [id] at k1
  -- bd
  have hBD := m2_ok_karaSub hb ih i1 k1 (p := la.take mid) (q := lb'.take mid) (by intro l hl; have := hloA l hl; kmem)
    (by intro l hl; have := hloB l hl; kmem) (by rw [lloA, lloB]) (by omega) (by omega)
  rw [lloA] at hBD
  apply Ok.stepK hBD; intro bd s2 i2 k2 lbd
  simp only [id] at k2
  -- a + b, c + d
  apply Ok.stepK (ok_addSumTwoNumbers (be := false) i2 k2 (a := la.drop mid) (b := la.take mid)
    (by intro l hl; have := hhiA l hl; kmem) (by intro l hl; have := hloA l hl; kmem)
    (m2_ne_nil_of_length (by omega)) (m2_ne_nil_of_length (by omega)))
  intro aSumB s3 i3 k3 lsa
  simp only [id] at k3
  apply Ok.stepK (ok_addSumTwoNumbers (be := false) i3 k3 (a := lb'.drop mid) (b := lb'.take mid)
    (by intro l hl; have := hhiB l hl; kmem) (by intro l hl; have := hloB l hl; kmem)
    (m2_ne_nil_of_length (by omega)) (m2_ne_nil_of_length (by omega)))
  intro cSumD s4 i4 k4 lsc
  simp only [id] at k4
  rw [lhiA, lloA] at lsa
  rw [lhiB, lloB] at lsc
  -- big
  have hBIG := m2_ok_karaSub hb ih i4 k4 (p := aSumB) (q := cSumD) (by intro l hl; kmem) (by intro l hl; kmem)
    (by omega) (by omega) (by omega)
  apply Ok.stepK hBIG; intro big s5 i5 k5 lbig
  simp only [id] at k5
  -- ac + bd
  apply Ok.stepK (ok_addSumTwoNumbers (be := false) i5 k5 (a := ac) (b := bd) (by intro l hl; kmem) (by intro l hl; kmem)
    (m2_ne_nil_of_length (by omega)) (m2_ne_nil_of_length (by omega)))
  intro acSumBd s6 i6 k6 ls2
  simp only [id] at k6
  -- big - (ac + bd)
  apply Ok.stepK (hsub big acSumBd s6 P _ i6 k6 (by intro l hl; kmem) (by intro l hl; kmem)
    (m2_ne_nil_of_length (by omega)) (m2_ne_nil_of_length (by omega)))
  intro resMid s7 i7 k7 lrm
  simp only [id] at k7
  -- bd + resMid << mid
  apply Ok.stepK (ok_addSumTwoNumbersWithShift (shift := mid) (be := false) i7 k7 (a := bd) (b := resMid)
    (by intro l hl; kmem) (by intro l hl; kmem) (fun h => by omega) (fun _ => m2_ne_nil_of_length (by omega)))
  intro res s8 i8 k8 ⟨_, lres⟩
  simp only [id] at k8
  have lres' := lres (by omega)
  -- res + ac << 2 mid
  apply Ok.stepK (ok_addSumTwoNumbersWithShift (shift := 2 * mid) (be := false) i8 k8 (a := res) (b := ac)
    (by intro l hl; kmem) (by intro l hl; kmem) (fun h => by omega) (fun _ => m2_ne_nil_of_length (by omega)))
  intro fin s9 i9 k9 ⟨_, lfin⟩
  simp only [id] at k9
  have lfin' := lfin (by omega)
  refine Ok.ret ⟨i9, k9.mono ?_, ?_⟩
  · intro l hl
    have hl' : l ∈ K ∨ l ∈ fin.take outSize := by simpa using hl
    rcases hl' with h | h
    · kmem
    · have := List.mem_of_mem_take h; kmem
  · dsimp only; rw [List.length_take]; omega

theorem m2_ok_karaPad {la lb : List Label} {st : GSt} {P K : List Label} (hinv : Inv st P) (hk : Kn st K)
    (ha : ∀ l ∈ la, l ∈ K) (hlb : ∀ l ∈ lb, l ∈ K) (hle : lb.length ≤ la.length) (h1 : 1 ≤ la.length) :
    Ok (m2_karaPad la lb) st (GPost P K id (fun r => r.length = la.length)) := by
  unfold m2_karaPad
  split
  · rename_i he
    exact Ok.ret ⟨hinv, fun l hl => hk l (by kmem), (by simpa using he : la.length = lb.length).symm⟩
  · match la, h1, ha, hle with
    | a0 :: t, _, ha, hle =>
      refine (m2_ok_padZeros (a0 := a0) _ lb st P K hinv hk (ha a0 (by simp)) hlb).mono ?_
      intro r s ⟨i, k, h⟩
      refine ⟨i, k, ?_⟩
      dsimp only at h ⊢
      omega

theorem m2_ok_karaBody {base} (hb : m2_Base base) (hsub : m2_HSub) {fuel : Nat} (ih : m2_KaraIH base fuel)
    {outSize : Nat} {la lb : List Label} {st : GSt} {P K : List Label} (hinv : Inv st P) (hk : Kn st K)
    (ha : ∀ l ∈ la, l ∈ K) (hlb : ∀ l ∈ lb, l ∈ K) (hle : lb.length ≤ la.length) (h1 : 1 ≤ la.length)
    (hf : la.length ≤ fuel) (hos : outSize ≤ if la.length = 1 then 1 else 2 * la.length) :
    Ok (m2_karaBody base fuel outSize la lb) st (GPost P K id (fun r => r.length = outSize)) := by
  unfold m2_karaBody
  dsimp only
  apply Ok.stepK (m2_ok_karaPad hinv hk ha hlb hle h1); intro lb' s1 i1 k1 hl'
  simp only [id] at k1
  split
  · apply Ok.stepK (hb la lb' s1 P _ i1 k1 (by intro l hl; have := ha l hl; kmem) (by intro l hl; kmem) hl'.symm h1)
    intro r s2 i2 k2 hr
    simp only [id] at k2
    refine Ok.ret ⟨i2, k2.mono ?_, ?_⟩
    · intro l hl
      have hl' : l ∈ K ∨ l ∈ r.take outSize := by simpa using hl
      rcases hl' with h | h
      · kmem
      · have := List.mem_of_mem_take h; kmem
    · dsimp only; rw [List.length_take, hr]; omega
  · rename_i hsm
    have h18 := not_small (by simpa using hsm)
    refine (m2_ok_karaBig hb hsub ih i1 k1 (by intro l hl; have := ha l hl; kmem) (by intro l hl; kmem) hl' h18 hf
      (by rw [if_neg (by omega)] at hos; exact hos)).mono ?_
    intro r s2 ⟨i2, k2, h2⟩
    exact ⟨i2, k2.mono (by intro l hl; kmem), h2⟩

/-- **`karaCore` returns** (both Karatsuba variants): at least one operand is non-empty, and the fuel exceeds the wider
operand (every recursive call is on operands of width `⌈n/2⌉ + 1 < n`, as `n ≥ 18` there) -/
theorem m2_ok_karaCore {base} (hb : m2_Base base) (hsub : m2_HSub) : ∀ (fuel : Nat), m2_KaraIH base fuel := by
  intro fuel
  induction fuel with
  | zero => intro a b st P K _ _ _ _ _ hf; omega
  | succ fuel ih =>
    intro a b st P K hinv hk ha hbK h1 hf
    have hos : m2_outSize a b ≤ if max a.length b.length = 1 then 1 else 2 * max a.length b.length := by
      unfold m2_outSize
      by_cases hm : max a.length b.length = 1
      · rw [if_pos hm]
        have : (a.length == 1 || b.length == 1) = true := by
          simp only [Bool.or_eq_true, beq_iff_eq]; omega
        rw [if_pos this]; omega
      · rw [if_neg hm]; omega
    by_cases h : a.length < b.length
    · rw [m2_karaCore_lt h]
      have e : max a.length b.length = b.length := by omega
      rw [e] at hos
      exact m2_ok_karaBody hb hsub ih hinv hk hbK ha (by omega) (by omega) (by omega) hos
    · rw [m2_karaCore_ge h]
      have e : max a.length b.length = a.length := by omega
      rw [e] at hos
      exact m2_ok_karaBody hb hsub ih hinv hk ha hbK (by omega) (by omega) (by omega) hos


/-! ## arithmetic: the product of two all-ones operands needs the top bit -/

theorem m2_valLE_true (v : Label → Bool) : ∀ (a : List Label), (∀ l ∈ a, v l = true) → valLE v a + 1 = 2 ^ a.length := by
  intro a
  induction a with
  | nil => intro _; simp [valLE]
  | cons x t ih =>
    intro h
    have hx : bv v x = 1 := by simp [bv, h x (by simp)]
    have := ih (fun l hl => h l (by simp [hl]))
    simp only [valLE, List.length_cons, Nat.pow_succ, hx]
    omega

theorem m2_rowsVal_true (v : Label → Bool) (n : Nat) : ∀ (rows : List (List Label)),
    (∀ r ∈ rows, r.length = n ∧ ∀ l ∈ r, v l = true) → rowsVal v rows + (2 ^ n - 1) = (2 ^ n - 1) * 2 ^ rows.length := by
  intro rows
  induction rows with
  | nil => intro _; simp [rowsVal]
  | cons r rs ih =>
    intro h
    have hr := h r (by simp)
    have h1 := m2_valLE_true v r hr.2
    rw [hr.1] at h1
    have h2 := ih (fun r' hr' => h r' (by simp [hr']))
    simp only [rowsVal, List.length_cons, Nat.pow_succ]
    rw [← Nat.mul_assoc, ← h2]
    omega

theorem m2_ones_prod {n m : Nat} (hn : 2 ≤ n) (hm : 2 ≤ m) : 2 ^ (n + m - 1) + (2 ^ n - 1) ≤ (2 ^ n - 1) * 2 ^ m := by
  obtain ⟨n', rfl⟩ : ∃ n', n = n' + 1 := ⟨n - 1, by omega⟩
  obtain ⟨m', rfl⟩ : ∃ m', m = m' + 1 := ⟨m - 1, by omega⟩
  have hA : 2 ≤ 2 ^ n' := by
    calc 2 = 2 ^ 1 := rfl
      _ ≤ 2 ^ n' := Nat.pow_le_pow_right (by omega) (by omega)
  have hB : 2 ≤ 2 ^ m' := by
    calc 2 = 2 ^ 1 := rfl
      _ ≤ 2 ^ m' := Nat.pow_le_pow_right (by omega) (by omega)
  have e : n' + 1 + (m' + 1) - 1 = (n' + m') + 1 := by omega
  rw [e, Nat.pow_succ, Nat.pow_succ, Nat.pow_succ, Nat.pow_add]
  generalize 2 ^ n' = A at *
  generalize 2 ^ m' = B at *
  have h1 : 2 * B ≤ A * B := Nat.mul_le_mul_right B hA
  have h2 : A * 2 ≤ A * B := Nat.mul_le_mul_left A hB
  have e2 : (A * 2 - 1 + 1) * (B * 2) = (A * 2 - 1) * (B * 2) + B * 2 := Nat.succ_mul _ _
  have e3 : A * 2 - 1 + 1 = A * 2 := by omega
  rw [e3] at e2
  have e4 : A * 2 * (B * 2) = 4 * (A * B) := by
    rw [Nat.mul_assoc, Nat.mul_left_comm 2 B 2, ← Nat.mul_assoc]; omega
  rw [e4] at e2
  omega


/-! ## folds of programs -/

theorem m2_ok_foldl {σ β : Type} (f : σ → β → Prog σ) (J : List β → σ → GSt → Prop)
    (hstep : ∀ x r s st, J (x :: r) s st → Ok (f s x) st (J r)) :
    ∀ (xs : List β) (acc : Prog σ) (st : GSt), Ok acc st (J xs) →
      Ok (xs.foldl (fun acc x => acc >>= fun s => f s x) acc) st (J []) := by
  intro xs
  induction xs with
  | nil => intro acc st h; exact h
  | cons x t ih =>
    intro acc st h
    simp only [List.foldl_cons]
    exact ih _ st (Ok.bind h (fun s st' hs => hstep x t s st' hs))

/-- `[col[0] for col in c]`: returns iff no column is empty; the state is not touched -/
theorem m2_ok_headsFold (c : List (List Label)) (st : GSt) (hne : ∀ col ∈ c, col ≠ []) :
    Ok (c.foldl headStep (pure [])) st (fun r st' => st' = st ∧ r.length = c.length ∧ ∀ l ∈ r, l ∈ c.flatten) := by
  have h := m2_ok_foldl (σ := List Label) (β := List Label)
    (fun l col => match col with
      | x :: _ => pure (l ++ [x])
      | [] => .fail "Py:IndexError")
    (fun r l st' => st' = st ∧ (∀ col ∈ r, col ≠ [] ∧ ∀ x ∈ col, x ∈ c.flatten) ∧ l.length + r.length = c.length ∧
      ∀ x ∈ l, x ∈ c.flatten)
    (by
      intro col r l st' ⟨e, h1, h2, h3⟩
      have hc := h1 col (by simp)
      match col, hc with
      | x :: t, hc =>
        refine Ok.ret ⟨e, fun col' hc' => h1 col' (by simp [hc']), ?_, ?_⟩
        · simp only [List.length_append, List.length_cons, List.length_nil] at h2 ⊢; omega
        · intro y hy
          rcases List.mem_append.mp hy with hy | hy
          · exact h3 y hy
          · simp only [List.mem_singleton] at hy; subst hy; exact hc.2 y (by simp)
      | [], hc => exact absurd rfl hc.1)
    c (pure []) st (Ok.ret ⟨rfl, fun col hc => ⟨hne col hc, fun x hx => List.mem_flatten.mpr ⟨col, hc, hx⟩⟩, by simp, by simp⟩)
  refine Ok.mono h ?_
  intro r st' ⟨e, _, h2, h3⟩
  exact ⟨e, by simpa using h2, h3⟩

theorem m2_ok_heads (c : List (List Label)) (st : GSt) (hne : ∀ col ∈ c, col ≠ []) :
    Ok (heads c) st (fun r st' => st' = st ∧ r.length = c.length ∧ ∀ l ∈ r, l ∈ c.flatten) :=
  m2_ok_headsFold c st hne


/-! ## `last_step_sum_with_new_powers_sum` -/

/-- the partial-product rows (agent E1's list): the labels of the rows are gates.  The shape of the rows is not
needed here: it is read off the `Sem` witness (`sem_ppRows`). -/
def m2_HPpRows : Prop :=
  ∀ (a b : List Label) (st : GSt) (P K : List Label), Inv st P → Kn st K → (∀ l ∈ a, l ∈ K) → (∀ l ∈ b, l ∈ K) →
    Ok (ppRows a b []) st (GPost P K (fun r => r.flatten) (fun _ => True))

theorem m2_mem_ppWeighted {rows : List (List Label)} {x : Nat × Label} (h : x ∈ ppWeighted rows) : x.2 ∈ rows.flatten := by
  simp only [ppWeighted, List.mem_flatten, List.mem_map] at h
  obtain ⟨l, ⟨⟨row, i⟩, hri, rfl⟩, hp⟩ := h
  obtain ⟨⟨y, j⟩, hxj, rfl⟩ := List.mem_map.mp hp
  rw [List.mem_zipIdx_iff_getElem?] at hri hxj
  exact List.mem_flatten.mpr ⟨row, List.mem_of_getElem? hri, List.mem_of_getElem? hxj⟩

/-- the weighted sum of the partial products of two `n`-bit operands, `n ≥ 2`, has at least `2n` result bits: its
levels are `0, 1, …` without gaps, and under the valuation "every operand bit is 1" its value `(2^n-1)^2` needs `2n` bits -/
theorem m2_weighted_len {rows : List (List Label)} {res : List (Nat × Label)} {n : Nat} {v : Label → Bool} (hn : 2 ≤ n)
    (hlen : rows.length = n) (hrows : ∀ r ∈ rows, r.length = n) (hv : ∀ l ∈ rows.flatten, v l = true)
    (hw : Sem (addSumWeighted (ppWeighted rows) (.enum .xaig)) v res) : n + n ≤ res.length := by
  obtain ⟨w1, _⟩ := sem_addSumWeighted hw
  have hlev := sem_addSumWeighted_levels hw (ppWeighted_gapless rows n (by omega) hrows)
  have hpos := wsum_positional v res 0 (by rw [hlev, List.range_eq_range'])
  simp only [Nat.pow_zero, Nat.one_mul] at hpos
  have hlt := valLE_lt v (res.map (·.2))
  rw [← hpos, w1, wsum_ppWeighted, List.length_map] at hlt
  have hval := m2_rowsVal_true v n rows (fun r hr => ⟨hrows r hr, fun l hl => hv l (List.mem_flatten.mpr ⟨r, hr, hl⟩)⟩)
  rw [hlen] at hval
  have hprod := m2_ones_prod hn hn
  rcases Nat.lt_or_ge res.length (n + n) with hlt2 | hge
  · exfalso
    have : 2 ^ res.length ≤ 2 ^ (n + n - 1) := Nat.pow_le_pow_right (by omega) (by omega)
    omega
  · exact hge

/-- **`last_step_sum_with_new_powers_sum` returns**: a one-bit operand, or equal widths `≥ 2` (for different widths
`≥ 2` the code raises `IndexError`: it indexes the `m × n` matrix as `n × m`) -/
theorem m2_ok_lastStepCore (hpp : m2_HPpRows) {a0 b0 : List Label} {st : GSt} {P K : List Label} (hinv : Inv st P)
    (hk : Kn st K) (ha : ∀ l ∈ a0, l ∈ K) (hb : ∀ l ∈ b0, l ∈ K)
    (hsh : a0.length = 1 ∨ b0.length = 1 ∨ (a0.length = b0.length ∧ 2 ≤ a0.length)) :
    Ok (lastStepCore a0 b0) st (GPost P K id (fun r => r.length =
      if a0.length = 1 then b0.length else if b0.length = 1 then a0.length else a0.length + b0.length)) := by
  unfold lastStepCore
  dsimp only
  apply Ok.bind (m2_Ok_withSem (hpp a0 b0 st P K hinv hk ha hb) (fun _ => true))
  intro rows s1 ⟨⟨i1, k1, _⟩, v1, _, hsem⟩
  obtain ⟨rows', e1, e2, e3, _, _⟩ := sem_ppRows _ _ _ hsem
  simp only [List.nil_append] at e1; subst e1
  dsimp only at k1
  by_cases h1 : a0.length = 1
  · simp only [h1, beq_self_eq_true, if_true]
    refine (m2_ok_headsFold rows s1 (fun col hc => m2_ne_nil_of_length (by rw [e3 col hc, h1]; omega))).mono ?_
    intro r s2 ⟨e, hl, hm⟩
    subst e
    exact ⟨i1, fun l hl' => k1 l (by
      rcases List.mem_append.mp hl' with h | h
      · exact List.mem_append_left _ h
      · exact List.mem_append_right _ (hm l h)), by dsimp only; rw [hl, e2]⟩
  · have hbeq : (a0.length == 1) = false := by simpa using h1
    simp only [hbeq, Bool.false_eq_true, if_false, h1]
    by_cases h2 : b0.length = 1
    · simp only [h2, beq_self_eq_true, if_true]
      match rows, e2, e3, k1 with
      | [r0], _, e3, k1 =>
        exact Ok.pure ⟨i1, fun l hl' => k1 l (by simpa using hl'), e3 r0 (by simp)⟩
      | [], e2, _, _ => simp [h2] at e2
      | _ :: _ :: _, e2, _, _ => simp [h2] at e2
    · have hbeq2 : (b0.length == 1) = false := by simpa using h2
      have hab : a0.length = b0.length ∧ 2 ≤ a0.length := by
        rcases hsh with h | h | h
        · exact absurd h h1
        · exact absurd h h2
        · exact h
      have hne : (a0.length != b0.length) = false := by simp [hab.1]
      simp only [hbeq2, hne, Bool.false_eq_true, if_false, h2]
      have hrne : ppWeighted rows ≠ [] := by
        match rows, e2, e3 with
        | [], e2, _ => simp at e2; omega
        | [] :: _, _, e3 => have := e3 [] (by simp); simp at this; omega
        | (x :: t) :: rs, _, _ => simp [ppWeighted]
      apply Ok.bind (m2_Ok_withSem (ok_addSumWeighted (b := .xaig) i1 k1 rfl hrne
        (fun x hx => List.mem_append_right _ (m2_mem_ppWeighted hx))) (fun _ => true))
      intro res s2 ⟨⟨i2, k2, _⟩, v, hv, hw⟩
      have hlen := m2_weighted_len (n := a0.length) hab.2 (by rw [e2, hab.1]) e3
        (fun l hl => hv l (k1 l (List.mem_append_right _ hl))) hw
      have hnl : ¬ res.length < a0.length + b0.length := by omega
      simp only [hnl, if_false]
      refine Ok.ret ⟨i2, fun l hl' => k2 l ?_, ?_⟩
      · rcases List.mem_append.mp hl' with h | h
        · exact List.mem_append_left _ (List.mem_append_left _ h)
        · refine List.mem_append_right _ ?_
          simp only [id, List.mem_map] at h ⊢
          obtain ⟨x, hx, rfl⟩ := h
          exact ⟨x, List.mem_of_mem_take hx, rfl⟩
      · dsimp only; rw [List.length_map, List.length_take]; omega

/-- `last_step_sum_with_new_powers_sum` is a base multiplier for the Karatsuba recursion -/
theorem m2_base_lastStep (hpp : m2_HPpRows) : m2_Base lastStepCore := by
  intro a b st P K hinv hk ha hb hab h1
  refine (m2_ok_lastStepCore hpp hinv hk ha hb (by omega)).mono ?_
  intro r s ⟨i, k, h⟩
  refine ⟨i, k, ?_⟩
  dsimp only at h ⊢
  rw [h]
  by_cases e1 : a.length = 1
  · rw [if_pos e1, if_pos e1]; omega
  · rw [if_neg e1, if_neg e1, if_neg (by omega)]; omega


/-! ## `add_mul_karatsuba`, `add_mul_karatsuba_with_efficient_sum` -/

/-- `add_mul_pow2_m1` on little-endian operands of the same width `≥ 1` (agent E1: `m1_ok_mulPow2M1Core`): the result
labels are gates.  The result width is read off the `Sem` witness (`sem_mulPow2M1Core`). -/
def m2_HMulPow2M1Core : Prop :=
  ∀ (a b : List Label) (st : GSt) (P K : List Label), Inv st P → Kn st K → (∀ l ∈ a, l ∈ K) → (∀ l ∈ b, l ∈ K) →
    a.length = b.length → 1 ≤ a.length → Ok (mulPow2M1Core a b) st (GPost P K id (fun _ => True))

theorem m2_base_mulPow2M1 (h : m2_HMulPow2M1Core) : m2_Base mulPow2M1Core := by
  intro a b st P K hinv hk ha hb hab h1
  refine (m2_Ok_withSem (h a b st P K hinv hk ha hb hab h1) (fun _ => true)).mono ?_
  intro r s ⟨⟨i, k, _⟩, v, _, hsem⟩
  refine ⟨i, k, ?_⟩
  dsimp only
  rw [(sem_mulPow2M1Core hsem).2]
  by_cases e1 : a.length = 1
  · rw [if_pos e1, if_pos e1]; omega
  · rw [if_neg e1, if_neg e1, if_neg (by omega)]; omega

theorem m2_ok_karaTop {base} (hb : m2_Base base) (hsub : m2_HSub) {a b : List Label} {be : Bool} {st : GSt}
    {P K : List Label} (hinv : Inv st P) (hk : Kn st K) (ha : ∀ l ∈ a, l ∈ K) (hbK : ∀ l ∈ b, l ∈ K)
    (h1 : 1 ≤ max a.length b.length) :
    Ok (do let r ← karaCore base (a.length + b.length + 2) (revIf a be) (revIf b be); pure (revIf r be)) st
      (GPost P K id (fun r => r.length = a.length + b.length - (if a.length == 1 || b.length == 1 then 1 else 0))) := by
  apply Ok.stepK (m2_ok_karaCore hb hsub _ (revIf a be) (revIf b be) st P K hinv hk
    (fun l hl => ha l (mem_revIf.mp hl)) (fun l hl => hbK l (mem_revIf.mp hl))
    (by rw [length_revIf_t, length_revIf_t]; exact h1) (by rw [length_revIf_t, length_revIf_t]; omega))
  intro r s1 i1 k1 hr
  refine Ok.ret ⟨i1, k1.mono (by intro l hl; simp only [id, List.mem_append, mem_revIf] at hl ⊢; exact hl), ?_⟩
  dsimp only
  unfold m2_outSize at hr
  rw [length_revIf_t, hr, length_revIf_t, length_revIf_t]

/-- **`add_mul_karatsuba` returns**: the operands are gates of the circuit and at least one of them is non-empty
(widths may differ; an empty operand is padded with constant-false bits).  Result: `|a| + |b|` labels of gates, one less
when an operand is a single bit.  The fuel `|a| + |b| + 2` of the model is never exhausted. -/
theorem m2_ok_addMulKaratsuba (hbase : m2_HMulPow2M1Core) (hsub : m2_HSub) {a b : List Label} {be : Bool} {st : GSt}
    {P K : List Label} (hinv : Inv st P) (hk : Kn st K) (ha : ∀ l ∈ a, l ∈ K) (hb : ∀ l ∈ b, l ∈ K)
    (h1 : 1 ≤ max a.length b.length) :
    Ok (addMulKaratsuba a b be) st
      (GPost P K id (fun r => r.length = a.length + b.length - (if a.length == 1 || b.length == 1 then 1 else 0))) :=
  m2_ok_karaTop (m2_base_mulPow2M1 hbase) hsub hinv hk ha hb h1

/-- **`add_mul_karatsuba_with_efficient_sum` (MulMode.KARATSUBA) returns**, same preconditions -/
theorem m2_ok_addMulKaratsubaEff (hpp : m2_HPpRows) (hsub : m2_HSub) {a b : List Label} {be : Bool} {st : GSt}
    {P K : List Label} (hinv : Inv st P) (hk : Kn st K) (ha : ∀ l ∈ a, l ∈ K) (hb : ∀ l ∈ b, l ∈ K)
    (h1 : 1 ≤ max a.length b.length) :
    Ok (addMulKaratsubaEff a b be) st
      (GPost P K id (fun r => r.length = a.length + b.length - (if a.length == 1 || b.length == 1 then 1 else 0))) :=
  m2_ok_karaTop (m2_base_lastStep hpp) hsub hinv hk ha hb h1


/-! ## Dadda: column matrices -/

theorem m2_mem_flatten_getD {c : List (List Label)} {l : Label} : l ∈ c.flatten ↔ ∃ k, l ∈ c.getD k [] := by
  constructor
  · intro h
    obtain ⟨col, hc, hl⟩ := List.mem_flatten.mp h
    obtain ⟨k, hk, e⟩ := List.getElem_of_mem hc
    refine ⟨k, ?_⟩
    rw [List.getD_eq_getElem?_getD, List.getElem?_eq_getElem hk]
    simpa [e] using hl
  · rintro ⟨k, hk⟩
    rcases Nat.lt_or_ge k c.length with h | h
    · rw [List.getD_eq_getElem?_getD, List.getElem?_eq_getElem h] at hk
      exact List.mem_flatten.mpr ⟨c[k], List.getElem_mem h, by simpa using hk⟩
    · rw [getD_ge_length c k h] at hk; cases hk

theorem m2_colApp_getD (x : Label) : ∀ (c : List (List Label)) (i k : Nat),
    (colApp c i x).getD k [] = if k = i ∧ i < c.length then c.getD k [] ++ [x] else c.getD k [] := by
  intro c
  induction c with
  | nil => intro i k; simp [colApp]
  | cons col rest ih =>
    intro i k
    cases i with
    | zero =>
      cases k with
      | zero => simp [colApp]
      | succ k => simp [colApp]
    | succ i =>
      cases k with
      | zero => simp [colApp]
      | succ k =>
        simp only [colApp, List.getD_cons_succ, List.length_cons]
        rw [ih i k]
        by_cases h : k = i ∧ i < rest.length
        · rw [if_pos h, if_pos (by omega)]
        · rw [if_neg h, if_neg (by omega)]

theorem m2_set_getD (c : List (List Label)) (i k : Nat) (x : List Label) (hi : i < c.length) :
    (c.set i x).getD k [] = if k = i then x else c.getD k [] := by
  by_cases h : k = i
  · subst h; rw [if_pos rfl]; exact getD_set_self c k x hi
  · rw [if_neg h]; exact getD_set_ne c i k x h

/-- one reduction step of a Dadda column: the matrix keeps its width, no non-empty column becomes empty, and the only
new labels are the outputs of the counter -/
theorem m2_step_shape (c : List (List Label)) (i width : Nat) (hi : i < c.length) (new : List Label) (g2 : Label)
    (hne : new ≠ []) :
    (if i + 1 < width then colAppend (c.set i new) (i + 1) g2 else c.set i new).length = c.length ∧
    (∀ k, c.getD k [] ≠ [] → (if i + 1 < width then colAppend (c.set i new) (i + 1) g2 else c.set i new).getD k [] ≠ []) ∧
    (∀ l ∈ (if i + 1 < width then colAppend (c.set i new) (i + 1) g2 else c.set i new).flatten,
      l ∈ c.flatten ∨ l ∈ new ∨ l = g2) := by
  have hget : ∀ k, (if i + 1 < width then colAppend (c.set i new) (i + 1) g2 else c.set i new).getD k [] =
      (if k = i then new else c.getD k []) ++ (if i + 1 < width ∧ k = i + 1 ∧ i + 1 < c.length then [g2] else []) := by
    intro k
    by_cases hw : i + 1 < width
    · simp only [hw, if_true, true_and]
      rw [colAppend_colApp, m2_colApp_getD, List.length_set, m2_set_getD c i k new hi]
      by_cases h : k = i + 1 ∧ i + 1 < c.length
      · rw [if_pos h, if_pos h]
      · rw [if_neg h, if_neg h]; simp
    · simp only [hw, if_false, false_and, List.append_nil]
      exact m2_set_getD c i k new hi
  refine ⟨?_, ?_, ?_⟩
  · split
    · rw [colAppend_colApp, colApp_length, List.length_set]
    · rw [List.length_set]
  · intro k hk
    rw [hget k]
    by_cases h : k = i
    · rw [if_pos h]; intro e; exact hne (List.append_eq_nil_iff.mp e).1
    · rw [if_neg h]; intro e; exact hk (List.append_eq_nil_iff.mp e).1
  · intro l hl
    obtain ⟨k, hk⟩ := m2_mem_flatten_getD.mp hl
    rw [hget k] at hk
    rcases List.mem_append.mp hk with h | h
    · by_cases e : k = i
      · rw [if_pos e] at h; exact Or.inr (Or.inl h)
      · rw [if_neg e] at h; exact Or.inl (m2_mem_flatten_getD.mpr ⟨k, h⟩)
    · split at h
      · simp only [List.mem_singleton] at h; exact Or.inr (Or.inr h)
      · cases h


/-- the shape every Dadda step keeps: the width, and the non-empty columns -/
def m2_Keeps (c r : List (List Label)) : Prop := r.length = c.length ∧ ∀ k, c.getD k [] ≠ [] → r.getD k [] ≠ []

theorem m2_Keeps.refl (c : List (List Label)) : m2_Keeps c c := ⟨rfl, fun _ h => h⟩
theorem m2_Keeps.trans {a b c : List (List Label)} (h1 : m2_Keeps a b) (h2 : m2_Keeps b c) : m2_Keeps a c :=
  ⟨h2.1.trans h1.1, fun k h => h2.2 k (h1.2 k h)⟩

/-- **`while len(c[i]) >= di`** (one column): for a threshold `di ≥ 2` the popped bits exist (two for `len = di`, three
for `len > di ≥ 2`), so no `IndexError`; any fuel (the model stops silently when the fuel is used up) -/
theorem m2_ok_daddaColumn {di i width : Nat} (hdi : 2 ≤ di) : ∀ (fuel : Nat) (c : List (List Label)) (st : GSt)
    (P K : List Label), Inv st P → Kn st K → (∀ l ∈ c.flatten, l ∈ K) → i < c.length →
    Ok (daddaColumn di i width fuel c) st (GPost P K (fun r => r.flatten) (m2_Keeps c)) := by
  intro fuel
  induction fuel with
  | zero =>
    intro c st P K hinv hk hc _
    unfold daddaColumn
    exact Ok.pure ⟨hinv, fun l hl => hk l (by
      rcases List.mem_append.mp hl with h | h
      · exact h
      · exact hc l h), m2_Keeps.refl c⟩
  | succ fuel ih =>
    intro c st P K hinv hk hc hi
    have hcol : ∀ l ∈ c.getD i [], l ∈ K := fun l hl => hc l (m2_mem_flatten_getD.mpr ⟨i, hl⟩)
    unfold daddaColumn
    simp only
    by_cases hge : (c.getD i []).length ≥ di
    · simp only [hge, if_true]
      by_cases heq : ((c.getD i []).length == di) = true
      · simp only [heq, if_true]
        cases hcl : c.getD i [] with
        | nil => rw [hcl] at hge; simp at hge; omega
        | cons x t =>
          cases t with
          | nil => rw [hcl] at hge; simp at hge; omega
          | cons y rest =>
            rw [hcl] at hcol
            simp only
            apply Ok.stepK (ok_addSum2 hinv hk (hcol x (by simp)) (hcol y (by simp))); intro r s1 i1 k1 hr
            apply ok_pair2_bind hr; intro g1 g2 e2
            subst e2
            simp only [id] at k1
            obtain ⟨q1, q2, q3⟩ := m2_step_shape c i width hi (rest ++ [g1]) g2 (by simp)
            refine (ih _ s1 P (K ++ [g1, g2]) i1 k1 ?_ (by rw [q1]; exact hi)).mono ?_
            · intro l hl
              rcases q3 l hl with h | h | h
              · exact List.mem_append_left _ (hc l h)
              · rcases List.mem_append.mp h with h | h
                · exact List.mem_append_left _ (hcol l (by simp [h]))
                · simp only [List.mem_singleton] at h; subst h; simp
              · subst h; simp
            · intro out s2 ⟨i2, k2, h2⟩
              refine ⟨i2, k2.mono (by intro l hl; kmem), m2_Keeps.trans ⟨q1, q2⟩ h2⟩
      · simp only [heq, Bool.false_eq_true, if_false]
        have hgt : di < (c.getD i []).length := by
          have : (c.getD i []).length ≠ di := by simpa using heq
          omega
        cases hcl : c.getD i [] with
        | nil => rw [hcl] at hgt; simp at hgt
        | cons x t =>
          cases t with
          | nil => rw [hcl] at hgt; simp at hgt; omega
          | cons y t2 =>
            cases t2 with
            | nil => rw [hcl] at hgt; simp at hgt; omega
            | cons z rest =>
              rw [hcl] at hcol
              simp only
              apply Ok.stepK (ok_addSum3 hinv hk (hcol x (by simp)) (hcol y (by simp)) (hcol z (by simp)))
              intro r s1 i1 k1 hr
              apply ok_pair2_bind hr; intro g1 g2 e2
              subst e2
              simp only [id] at k1
              obtain ⟨q1, q2, q3⟩ := m2_step_shape c i width hi (rest ++ [g1]) g2 (by simp)
              refine (ih _ s1 P (K ++ [g1, g2]) i1 k1 ?_ (by rw [q1]; exact hi)).mono ?_
              · intro l hl
                rcases q3 l hl with h | h | h
                · exact List.mem_append_left _ (hc l h)
                · rcases List.mem_append.mp h with h | h
                  · exact List.mem_append_left _ (hcol l (by simp [h]))
                  · simp only [List.mem_singleton] at h; subst h; simp
                · subst h; simp
              · intro out s2 ⟨i2, k2, h2⟩
                refine ⟨i2, k2.mono (by intro l hl; kmem), m2_Keeps.trans ⟨q1, q2⟩ h2⟩
    · simp only [hge, if_false]
      exact Ok.pure ⟨hinv, fun l hl => hk l (by
        rcases List.mem_append.mp hl with h | h
        · exact h
        · exact hc l h), m2_Keeps.refl c⟩


/-- the invariant rule for `progFold` on column matrices (agent C: `ca_ok_progFold_gen` at `σ = List (List Label)`) -/
def m2_HProgFold : Prop :=
  ∀ (f : List (List Label) → Nat → Prog (List (List Label))) (J : List Nat → List (List Label) → GSt → Prop)
    (xs : List Nat) (s : List (List Label)) (st : GSt),
    (∀ i r s st, (∃ pre, pre ++ i :: r = xs) → J (i :: r) s st → Ok (f s i) st (J r)) → J xs s st →
    Ok (progFold xs s f) st (J [])

/-- one stage (`for i in range(1, n + m)`) with threshold `di ≥ 2` -/
theorem m2_ok_daddaStage (hpf : m2_HProgFold) {di width : Nat} (hdi : 2 ≤ di) {c : List (List Label)} {st : GSt}
    {P K : List Label} (hinv : Inv st P) (hk : Kn st K) (hc : ∀ l ∈ c.flatten, l ∈ K) (hw : c.length = width) :
    Ok (daddaStage di width c) st (GPost P K (fun r => r.flatten) (m2_Keeps c)) := by
  unfold daddaStage
  refine hpf _ (fun _ cc st' => Inv st' P ∧ Kn st' (K ++ cc.flatten) ∧ m2_Keeps c cc) _ c st ?_
    ⟨hinv, fun l hl => hk l (by
      rcases List.mem_append.mp hl with h | h
      · exact h
      · exact hc l h), m2_Keeps.refl c⟩
  intro i r cc st' ⟨pre, e⟩ ⟨i1, k1, h1⟩
  have hi : i < width := by
    have : i ∈ (List.range width).drop 1 := by rw [← e]; simp
    exact List.mem_range.mp (List.mem_of_mem_drop this)
  refine (m2_ok_daddaColumn hdi _ cc st' P (K ++ cc.flatten) i1 k1 (fun l hl => List.mem_append_right _ hl)
    (by rw [h1.1, hw]; exact hi)).mono ?_
  intro out s2 ⟨i2, k2, h2⟩
  exact ⟨i2, k2.mono (by intro l hl; kmem), m2_Keeps.trans h1 h2⟩

theorem m2_daddaStart_ge : ∀ (fuel di k : Nat), 2 ≤ di → 2 ≤ daddaStart fuel di k := by
  intro fuel
  induction fuel with
  | zero => intro di k h; simpa [daddaStart] using h
  | succ fuel ih =>
    intro di k h
    unfold daddaStart
    split
    · exact ih _ _ (by omega)
    · exact h

theorem m2_daddaStart_le : ∀ (fuel di k B : Nat), di ≤ B → k ≤ B → daddaStart fuel di k ≤ B := by
  intro fuel
  induction fuel with
  | zero => intro di k B h _; simpa [daddaStart] using h
  | succ fuel ih =>
    intro di k B h hk
    unfold daddaStart
    split
    · exact ih _ _ _ (by omega) hk
    · exact h

/-- **the stages `while di != 1`**: the thresholds decrease strictly (`di → (2 di + 2) / 3 < di` for `di ≥ 3`, `2 → 1`),
so a fuel `≥ di` is never exhausted -/
theorem m2_ok_daddaStages (hpf : m2_HProgFold) {width : Nat} : ∀ (fuel di : Nat) (c : List (List Label)) (st : GSt)
    (P K : List Label), Inv st P → Kn st K → (∀ l ∈ c.flatten, l ∈ K) → c.length = width → 1 ≤ di → di ≤ fuel →
    Ok (daddaStages width fuel di c) st (GPost P K (fun r => r.flatten) (m2_Keeps c)) := by
  intro fuel
  induction fuel with
  | zero => intro di c st P K _ _ _ _ h1 h2; omega
  | succ fuel ih =>
    intro di c st P K hinv hk hc hw h1 hf
    unfold daddaStages
    by_cases hd1 : (di == 1) = true
    · simp only [hd1, if_true]
      exact Ok.ret ⟨hinv, fun l hl => hk l (by
        rcases List.mem_append.mp hl with h | h
        · exact h
        · exact hc l h), m2_Keeps.refl c⟩
    · simp only [hd1, Bool.false_eq_true, if_false]
      have hd2 : 2 ≤ di := by
        have : di ≠ 1 := by simpa using hd1
        omega
      apply Ok.stepK (m2_ok_daddaStage hpf hd2 hinv hk hc hw); intro c1 s1 i1 k1 h1'
      refine (ih _ c1 s1 P (K ++ c1.flatten) i1 k1 (fun l hl => List.mem_append_right _ hl) (h1'.1.trans hw) ?_ ?_).mono ?_
      · split <;> omega
      · split
        · omega
        · rename_i h2
          have : di ≠ 2 := by simpa using h2
          omega
      · intro out s2 ⟨i2, k2, h2⟩
        exact ⟨i2, k2.mono (by intro l hl; kmem), m2_Keeps.trans h1' h2⟩


/-! ## Dadda: the partial-product columns -/

theorem m2_mem_colAppend {c : List (List Label)} {i : Nat} {x l : Label} (h : l ∈ (colAppend c i x).flatten) :
    l ∈ c.flatten ∨ l = x := by
  obtain ⟨k, hk⟩ := m2_mem_flatten_getD.mp h
  rw [colAppend_colApp, m2_colApp_getD] at hk
  split at hk
  · rcases List.mem_append.mp hk with h | h
    · exact Or.inl (m2_mem_flatten_getD.mpr ⟨k, h⟩)
    · simp only [List.mem_singleton] at h; exact Or.inr h
  · exact Or.inl (m2_mem_flatten_getD.mpr ⟨k, hk⟩)

/-- `c[i + j].append(AND(a[j], b[i]))`: the labels of the columns are gates (the shape of the columns is read off the
`Sem` witness, `sem_ppColumns`) -/
theorem m2_ok_ppColumns {a : List Label} : ∀ (bz : List (Label × Nat)) (c : List (List Label)) (st : GSt)
    (P K : List Label), Inv st P → Kn st K → (∀ l ∈ a, l ∈ K) → (∀ x ∈ bz, x.1 ∈ K) → (∀ l ∈ c.flatten, l ∈ K) →
    Ok (ppColumns a bz c) st (GPost P K (fun r => r.flatten) (fun _ => True)) := by
  intro bz
  induction bz with
  | nil =>
    intro c st P K hinv hk _ _ hc
    unfold ppColumns
    exact Ok.pure ⟨hinv, fun l hl => hk l (by
      rcases List.mem_append.mp hl with h | h
      · exact h
      · exact hc l h), trivial⟩
  | cons bi r ih =>
    intro c st P K hinv hk ha hbz hc
    obtain ⟨bi, i⟩ := bi
    have hbi : bi ∈ K := hbz (bi, i) (by simp)
    have hrow : Ok (a.zipIdx.foldl (rowStep bi i) (pure c)) st (fun cc st' => Inv st' P ∧ Kn st' (K ++ cc.flatten)) := by
      have h := m2_ok_foldl (σ := List (List Label)) (β := Label × Nat)
        (fun cc aj => do
          let g ← emitTT aj.1 bi t0001
          pure (colAppend cc (i + aj.2) g))
        (fun r cc st' => Inv st' P ∧ Kn st' (K ++ cc.flatten) ∧ ∀ x ∈ r, x.1 ∈ K)
        (by
          intro x r cc st' ⟨i1, k1, h1⟩
          apply Ok.stepK (okK_emitTT i1 k1 (by decide) (List.mem_append_left _ (h1 x (by simp)))
            (List.mem_append_left _ hbi)); intro g s2 i2 k2 _
          refine Ok.ret ⟨i2, fun l hl => k2 l ?_, fun y hy => h1 y (by simp [hy])⟩
          rcases List.mem_append.mp hl with h | h
          · exact List.mem_append_left _ (List.mem_append_left _ h)
          · rcases m2_mem_colAppend h with h | h
            · exact List.mem_append_left _ (List.mem_append_right _ h)
            · subst h; simp)
        a.zipIdx (pure c) st (Ok.ret ⟨hinv, fun l hl => hk l (by
            rcases List.mem_append.mp hl with h | h
            · exact h
            · exact hc l h), fun x hx => by
              rw [List.mem_zipIdx_iff_getElem?] at hx
              exact ha _ (List.mem_of_getElem? hx)⟩)
      exact Ok.mono h (fun cc st' ⟨i1, k1, _⟩ => ⟨i1, k1⟩)
    unfold ppColumns
    apply Ok.bind hrow
    intro c1 s1 ⟨i1, k1⟩
    refine (ih c1 s1 P (K ++ c1.flatten) i1 k1 (fun l hl => List.mem_append_left _ (ha l hl))
      (fun x hx => List.mem_append_left _ (hbz x (by simp [hx]))) (fun l hl => List.mem_append_right _ hl)).mono ?_
    intro out s2 ⟨i2, k2, _⟩
    exact ⟨i2, k2.mono (by intro l hl; kmem), trivial⟩

theorem m2_rowsCover_pos {n m k : Nat} (hn : 1 ≤ n) (hm : 1 ≤ m) (hk : k + 1 < n + m) : 1 ≤ rowsCover 0 m n k := by
  unfold rowsCover
  apply List.length_pos_of_mem (a := min k (m - 1))
  rw [List.mem_filter]
  refine ⟨List.mem_range'_1.mpr (by omega), ?_⟩
  simp only [decide_eq_true_eq]
  omega

/-! ## Dadda: the top column gets a bit (value argument) -/

theorem m2_cnt_le_one (v : Label → Bool) (col : List Label) (h : col.length ≤ 1) : cnt v col ≤ 1 := by
  match col, h with
  | [], _ => simp [cnt]
  | [x], _ => simp only [cnt_cons, cnt_nil]; unfold bv; cases v x <;> simp
  | _ :: _ :: _, h => simp at h

theorem m2_colsVal_bound (v : Label → Bool) : ∀ (c : List (List Label)), (∀ col ∈ c, col.length ≤ 1) →
    colsVal v c < 2 ^ c.length := by
  intro c
  induction c with
  | nil => intro _; simp [colsVal]
  | cons col t ih =>
    intro h
    have h1 := m2_cnt_le_one v col (h col (by simp))
    have h2 := ih (fun x hx => h x (by simp [hx]))
    simp only [colsVal, List.length_cons, Nat.pow_succ]
    omega

theorem m2_colsVal_bound_last (v : Label → Bool) : ∀ (c : List (List Label)), (∀ col ∈ c, col.length ≤ 1) → c ≠ [] →
    c.getD (c.length - 1) [] = [] → colsVal v c < 2 ^ (c.length - 1) := by
  intro c
  induction c with
  | nil => intro _ h; exact absurd rfl h
  | cons col t ih =>
    intro h _ hl
    cases t with
    | nil =>
      simp only [List.length_cons, List.length_nil, Nat.zero_add, Nat.sub_self, List.getD_cons_zero] at hl
      subst hl
      simp [colsVal, cnt]
    | cons d t' =>
      have h1 := m2_cnt_le_one v col (h col (by simp))
      have e : (col :: d :: t').length - 1 = ((d :: t').length - 1) + 1 := by simp
      rw [e, List.getD_cons_succ] at hl
      have h2 := ih (fun x hx => h x (by simp [hx])) (by simp) hl
      rw [e]
      simp only [colsVal, Nat.pow_succ] at h2 ⊢
      omega


theorem m2_getD_mem {c : List (List Label)} {col : List Label} (h : col ∈ c) : ∃ k, k < c.length ∧ c.getD k [] = col := by
  obtain ⟨k, hk, e⟩ := List.getElem_of_mem h
  exact ⟨k, hk, by rw [List.getD_eq_getElem?_getD, List.getElem?_eq_getElem hk]; simpa using e⟩

/-- after the Dadda stages the top column `n + m - 1` holds a bit (`n, m ≥ 2`): the stages keep the value of the matrix
modulo `2^(n+m)` and leave at most one bit per column; with every operand bit 1 the value `(2^n-1)(2^m-1) ≥ 2^(n+m-1)`
does not fit below the top column -/
theorem m2_dadda_top {A B : List Label} {v : Label → Bool} (hn : 2 ≤ A.length) (hm : 2 ≤ B.length)
    (hvA : ∀ l ∈ A, v l = true) (hvB : ∀ l ∈ B, v l = true) {fuel di : Nat} (hdi : 2 ≤ di) {c' : List (List Label)}
    (hsem : Sem (ppColumns A B.zipIdx (List.replicate (A.length + B.length) []) >>=
      fun c => daddaStages (A.length + B.length) fuel di c) v c') :
    c'.getD (A.length + B.length - 1) [] ≠ [] := by
  rw [sem_bind] at hsem
  obtain ⟨c, hc, hst⟩ := hsem
  obtain ⟨cl, cv, ch⟩ := sem_ppColumns B 0 _ c hc (by intro _; simp; omega)
  simp only [List.length_replicate, colsVal_replicate_nil, Nat.zero_add, Nat.pow_zero, Nat.one_mul] at cl cv ch
  have chk0 : (c.getD 0 []).length ≤ 1 := by
    rw [ch 0]
    have : (List.replicate (A.length + B.length) ([] : List Label)).getD 0 [] = [] := by
      simp only [List.getD_eq_getElem?_getD]
      rw [List.getElem?_replicate]; split <;> rfl
    rw [this]
    have := rowsCover_col0 B.length A.length
    simpa using this
  obtain ⟨l2, ⟨K, k2⟩, z0, p2⟩ := sem_daddaStages _ _ c c' hst cl (by omega) (fun e => by omega)
  have hsingle : ∀ col ∈ c', col.length ≤ 1 := by
    intro col hcol
    obtain ⟨k, hk, e⟩ := m2_getD_mem hcol
    rw [← e]
    cases k with
    | zero => rw [z0]; exact chk0
    | succ k => have := p2 (k + 1) (by omega) (by rw [← l2]; exact hk); omega
  intro hempty
  have hne : c' ≠ [] := by intro e; rw [e] at l2; simp at l2; omega
  have hb := m2_colsVal_bound_last v c' hsingle hne (by rw [l2]; exact hempty)
  rw [l2] at hb
  have hA := m2_valLE_true v A hvA
  have hB := m2_valLE_true v B hvB
  have hprod := m2_ones_prod hn hm
  have hlt := valLE_mul_lt v A B
  have hmul : valLE v A * (valLE v B + 1) = valLE v A * valLE v B + valLE v A := Nat.mul_succ _ _
  rw [hB] at hmul
  have hX : 2 ^ A.length - 1 = valLE v A := by omega
  rw [hX] at hprod
  rw [cv] at k2
  have hpow : 2 ^ (A.length + B.length) = 2 ^ (A.length + B.length - 1) * 2 := by
    rw [← Nat.pow_succ]; congr 1; omega
  cases K with
  | zero => omega
  | succ K =>
    have : 2 ^ (A.length + B.length) ≤ 2 ^ (A.length + B.length) * (K + 1) := Nat.le_mul_of_pos_right _ (by omega)
    omega

/-- **`add_mul_dadda` returns**: both operands are gates of the circuit and non-empty (widths may differ).
Result: `n + m` labels of gates (`n + m - 1` when an operand is a single bit).  The fuel `n + m + 4` of the stage loop
is never exhausted (`di ≤ max 2 (min n m)`), every popped bit exists, and every column of the final matrix is
non-empty (`c[i].popleft()` for `i < n + m`). -/
theorem m2_ok_addMulDadda (hpf : m2_HProgFold) {a b : List Label} {be : Bool} {st : GSt} {P K : List Label}
    (hinv : Inv st P) (hk : Kn st K) (ha : ∀ l ∈ a, l ∈ K) (hb : ∀ l ∈ b, l ∈ K) (hn : 1 ≤ a.length) (hm : 1 ≤ b.length) :
    Ok (addMulDadda a b be) st (GPost P K id (fun r => r.length =
      if (a.length == 1 || b.length == 1) then a.length + b.length - 1 else a.length + b.length)) := by
  unfold addMulDadda
  dsimp only
  have hA : ∀ l ∈ revIf a be, l ∈ K := fun l hl => ha l (mem_revIf.mp hl)
  have hB : ∀ l ∈ revIf b be, l ∈ K := fun l hl => hb l (mem_revIf.mp hl)
  rw [← length_revIf_t a be] at hn
  rw [← length_revIf_t b be] at hm
  rw [← length_revIf_t a be, ← length_revIf_t b be]
  generalize revIf a be = A at *
  generalize revIf b be = B at *
  have hBz : ∀ x ∈ B.zipIdx, x.1 ∈ K := by
    intro x hx
    rw [List.mem_zipIdx_iff_getElem?] at hx
    exact hB _ (List.mem_of_getElem? hx)
  have hinit : ∀ l ∈ (List.replicate (A.length + B.length) ([] : List Label)).flatten, l ∈ K := by
    intro l hl
    obtain ⟨col, hc, hl'⟩ := List.mem_flatten.mp hl
    rw [(List.mem_replicate.mp hc).2] at hl'; cases hl'
  have hPP := m2_ok_ppColumns (a := A) B.zipIdx _ st P K hinv hk hA hBz hinit
  -- shape of the partial-product columns
  have hshape : ∀ {v c}, Sem (ppColumns A B.zipIdx (List.replicate (A.length + B.length) [])) v c →
      c.length = A.length + B.length ∧ ∀ k, k + 1 < A.length + B.length → c.getD k [] ≠ [] := by
    intro v c hsem
    obtain ⟨cl, _, ch⟩ := sem_ppColumns B 0 _ c hsem (by intro _; simp; omega)
    simp only [List.length_replicate] at cl
    refine ⟨cl, fun k hk => ?_⟩
    have := ch k
    have hpos := m2_rowsCover_pos hn hm (by omega : k + 1 < A.length + B.length)
    intro e
    rw [e] at this
    simp only [List.length_nil] at this
    omega
  by_cases hsp : (A.length == 1 || B.length == 1) = true
  · simp only [hsp, if_true]
    apply Ok.bind (m2_Ok_withSem hPP (fun _ => true))
    intro c s1 ⟨⟨i1, k1, _⟩, v, _, hsem⟩
    obtain ⟨cl, cne⟩ := hshape hsem
    have hcols : ∀ col ∈ c.take (B.length + A.length - 1), col ≠ [] := by
      intro col hcol
      obtain ⟨k, hk, e⟩ := m2_getD_mem hcol
      rw [List.length_take] at hk
      rw [getD_take_lt c _ k (by omega)] at e
      rw [← e]; exact cne k (by omega)
    apply Ok.bind (m2_ok_heads _ s1 hcols)
    intro h s2 ⟨e, hl, hmem⟩
    subst e
    refine Ok.ret ⟨i1, fun l hl' => k1 l ?_, ?_⟩
    · rcases List.mem_append.mp hl' with h' | h'
      · exact List.mem_append_left _ h'
      · refine List.mem_append_right _ ?_
        have := hmem l (mem_revIf.mp h')
        obtain ⟨col, hc, hl2⟩ := List.mem_flatten.mp this
        exact List.mem_flatten.mpr ⟨col, List.mem_of_mem_take hc, hl2⟩
    · dsimp only; rw [length_revIf_t, hl, List.length_take, cl]; omega
  · simp only [hsp, Bool.false_eq_true, if_false]
    have hn2 : 2 ≤ A.length ∧ 2 ≤ B.length := by
      simp only [Bool.or_eq_true, beq_iff_eq, not_or] at hsp; omega
    have hdi2 := m2_daddaStart_ge (A.length + B.length) 2 (min A.length B.length) (Nat.le_refl 2)
    have hdiB := m2_daddaStart_le (A.length + B.length) 2 (min A.length B.length) (A.length + B.length + 4)
      (by omega) (by omega)
    generalize daddaStart (A.length + B.length) 2 (min A.length B.length) = di at hdi2 hdiB ⊢
    apply m2_Ok_assoc
    have hcomp : Ok (ppColumns A B.zipIdx (List.replicate (A.length + B.length) []) >>=
        fun c => daddaStages (A.length + B.length) (A.length + B.length + 4) di c) st
        (fun c' st' => Inv st' P ∧ Kn st' (K ++ c'.flatten) ∧ c'.length = A.length + B.length ∧
          ∀ k, k + 1 < A.length + B.length → c'.getD k [] ≠ []) := by
      apply Ok.bind (m2_Ok_withSem hPP (fun _ => true))
      intro c s1 ⟨⟨i1, k1, _⟩, v, _, hsem⟩
      obtain ⟨cl, cne⟩ := hshape hsem
      refine (m2_ok_daddaStages hpf _ di c s1 P (K ++ c.flatten) i1 k1 (fun l hl => List.mem_append_right _ hl) cl
        (by omega) hdiB).mono ?_
      intro c' s2 ⟨i2, k2, h2⟩
      exact ⟨i2, k2.mono (by intro l hl; kmem), h2.1.trans cl, fun k hk => h2.2 k (cne k hk)⟩
    apply Ok.bind (m2_Ok_withSem hcomp (fun _ => true))
    intro c' s1 ⟨⟨i1, k1, cl, cne⟩, v, hv, hsem⟩
    have htop := m2_dadda_top hn2.1 hn2.2 (fun l hl => hv l (hk l (hA l hl))) (fun l hl => hv l (hk l (hB l hl))) hdi2 hsem
    have hcols : ∀ col ∈ c', col ≠ [] := by
      intro col hcol
      obtain ⟨k, hk', e⟩ := m2_getD_mem hcol
      rw [← e]
      by_cases hk2 : k + 1 < A.length + B.length
      · exact cne k hk2
      · have : k = A.length + B.length - 1 := by omega
        rw [this]; exact htop
    apply Ok.bind (m2_ok_heads _ s1 hcols)
    intro h s2 ⟨e, hl, hmem⟩
    subst e
    refine Ok.ret ⟨i1, fun l hl' => k1 l ?_, ?_⟩
    · rcases List.mem_append.mp hl' with h' | h'
      · exact List.mem_append_left _ h'
      · exact List.mem_append_right _ (hmem l (mem_revIf.mp h'))
    · dsimp only; rw [length_revIf_t, hl, cl]


/-! ## corollaries: contract form of `heads`, explicit statement for `karaCore`, and "the column loop ends by its test,
not by its fuel" (shape facts of the `Sem` layer transported along the bridge) -/

theorem m2_ok_headsK {c : List (List Label)} {st : GSt} {P K : List Label} (hinv : Inv st P) (hk : Kn st K)
    (hc : ∀ l ∈ c.flatten, l ∈ K) (hne : ∀ col ∈ c, col ≠ []) :
    Ok (heads c) st (GPost P K id (fun r => r.length = c.length)) := by
  refine (m2_ok_heads c st hne).mono ?_
  intro r s ⟨e, hl, hm⟩
  subst e
  exact ⟨hinv, fun l hl' => hk l (by
    rcases List.mem_append.mp hl' with h | h
    · exact h
    · exact hc l (hm l h)), hl⟩

/-- `m2_ok_karaCore` with its statement spelled out -/
theorem m2_ok_karaCore' {base} (hb : m2_Base base) (hsub : m2_HSub) {fuel : Nat} {a b : List Label} {st : GSt}
    {P K : List Label} (hinv : Inv st P) (hk : Kn st K) (ha : ∀ l ∈ a, l ∈ K) (hbK : ∀ l ∈ b, l ∈ K)
    (h1 : 1 ≤ max a.length b.length) (hf : max a.length b.length < fuel) :
    Ok (karaCore base fuel a b) st (GPost P K id (fun r => r.length =
      a.length + b.length - (if a.length == 1 || b.length == 1 then 1 else 0))) :=
  m2_ok_karaCore hb hsub fuel a b st P K hinv hk ha hbK h1 hf

/-- the column loop with the fuel its caller passes (`len(c[i]) + 1`) ends because `len(c[i]) < di` -/
theorem m2_ok_daddaColumn_done {di i width : Nat} (hdi : 2 ≤ di) {fuel : Nat} {c : List (List Label)} {st : GSt}
    {P K : List Label} (hinv : Inv st P) (hk : Kn st K) (hc : ∀ l ∈ c.flatten, l ∈ K) (hi : i < c.length)
    (hw : c.length = width) :
    Ok (daddaColumn di i width fuel c) st (GPost P K (fun r => r.flatten)
      (fun r => m2_Keeps c r ∧ ((c.getD i []).length < fuel → (r.getD i []).length < di))) := by
  refine (m2_Ok_withSem (m2_ok_daddaColumn hdi fuel c st P K hinv hk hc hi) (fun _ => true)).mono ?_
  intro r s ⟨⟨i1, k1, h1⟩, v, _, hsem⟩
  exact ⟨i1, k1, h1, (sem_daddaColumn hdi fuel c r hsem hi hw).2.2.2.2⟩

/-- after a stage every column but the first is below the threshold -/
theorem m2_ok_daddaStage_done (hpf : m2_HProgFold) {di width : Nat} (hdi : 2 ≤ di) {c : List (List Label)} {st : GSt}
    {P K : List Label} (hinv : Inv st P) (hk : Kn st K) (hc : ∀ l ∈ c.flatten, l ∈ K) (hw : c.length = width) :
    Ok (daddaStage di width c) st (GPost P K (fun r => r.flatten)
      (fun r => m2_Keeps c r ∧ ∀ k, 1 ≤ k → k < width → (r.getD k []).length < di)) := by
  refine (m2_Ok_withSem (m2_ok_daddaStage hpf hdi hinv hk hc hw) (fun _ => true)).mono ?_
  intro r s ⟨⟨i1, k1, h1⟩, v, _, hsem⟩
  exact ⟨i1, k1, h1, (sem_daddaStage hdi hsem hw).2.2.2⟩

/-- after the stages every column but the first holds at most one bit -/
theorem m2_ok_daddaStages_done (hpf : m2_HProgFold) {width fuel di : Nat} {c : List (List Label)} {st : GSt}
    {P K : List Label} (hinv : Inv st P) (hk : Kn st K) (hc : ∀ l ∈ c.flatten, l ∈ K) (hw : c.length = width)
    (h2 : 2 ≤ di) (hf : di ≤ fuel) :
    Ok (daddaStages width fuel di c) st (GPost P K (fun r => r.flatten)
      (fun r => m2_Keeps c r ∧ ∀ k, 1 ≤ k → k < width → (r.getD k []).length < 2)) := by
  refine (m2_Ok_withSem (m2_ok_daddaStages hpf fuel di c st P K hinv hk hc hw (by omega) hf) (fun _ => true)).mono ?_
  intro r s ⟨⟨i1, k1, h1⟩, v, _, hsem⟩
  exact ⟨i1, k1, h1, (sem_daddaStages fuel di c r hsem hw (by omega) (fun e => by omega)).2.2.2⟩

end Cirbo
