import Cirbo.Proofs.GenTotal
/-!
# Totality, second layer: the invariant about pending labels and the contract of a generator

`Inv st P`: the labels `P` were drawn but are not gates yet.  `GPost P K lab S`: the postcondition every
generator meets — the caller's pending labels `P` are still pending, every label of the caller's list `K` of
known gates is still a gate, the labels returned (`lab a`) are gates, and the result has the shape `S`.
-/
namespace Cirbo
open GateType Circuit

structure Inv (st : GSt) (P : List Label) : Prop where
  nd : P.Nodup
  pend : ∀ d ∈ P, d ∉ st.c.labels ∧ ∃ j, j < st.ctr ∧ j < 16 ^ 32 ∧ d = newLabel j

theorem Inv.nil (st : GSt) : Inv st [] := ⟨List.nodup_nil, fun d hd => by cases hd⟩

/-- drawing a label: it is pending afterwards, different from every pending label -/
theorem Ok.fresh_inv {α} {r : List Label} {k : Label → Prog α} {st : GSt} {P : List Label} {Q : α → GSt → Prop}
    (hinv : Inv st P)
    (h : ∀ l st', st'.c = st.c → st.ctr ≤ st'.ctr → Inv st' (l :: P) → l ∉ r → Ok (k l) st' Q) :
    Ok (Prog.fresh r k) st Q := by
  apply Ok.fresh
  intro l ctr' hl hr hlt hle ⟨j, hj1, hj2, hj3⟩
  refine h l ⟨st.c, ctr'⟩ rfl (Nat.le_of_lt hlt) ⟨?_, ?_⟩ hr
  · refine List.nodup_cons.mpr ⟨?_, hinv.nd⟩
    intro hm
    obtain ⟨_, j', hj', hj'2, e⟩ := hinv.pend l hm
    have := newLabel_inj (by omega) hj'2 (hj3.symm.trans e)
    omega
  · intro d hd
    rcases List.mem_cons.mp hd with rfl | hd
    · exact ⟨hl, j, hj2, by omega, hj3⟩
    · obtain ⟨a, j', hj', hj'2, e⟩ := hinv.pend d hd
      exact ⟨a, j', by simp only; omega, hj'2, e⟩

/-- adding a gate whose label is not a gate yet (pending or given) over known operands -/
theorem Ok.add_inv {α} {g : Gate} {ok : tyOk g.ty g.ops.length = true} {k : Prog α} {st : GSt} {P : List Label}
    {Q : α → GSt → Prop} (hinv : Inv st P) (hl : g.label ∉ st.c.labels) (ho : ∀ o ∈ g.ops, o ∈ st.c.labels)
    (h : ∀ st', st'.c.labels = st.c.labels ++ [g.label] → st'.ctr = st.ctr → Inv st' (P.erase g.label) → Ok k st' Q) :
    Ok (Prog.add g ok k) st Q := by
  apply Ok.add hl ho
  refine h _ (labels_rawAddGate hl) rfl ⟨hinv.nd.erase _, ?_⟩
  intro d hd
  have hdP : d ∈ P := List.mem_of_mem_erase hd
  have hne : d ≠ g.label := fun e => by
    subst e; exact (List.Nodup.mem_erase_iff hinv.nd).mp hd |>.1 rfl
  obtain ⟨a, j, hj, hj2, e⟩ := hinv.pend d hdP
  refine ⟨?_, j, hj, hj2, e⟩
  rw [labels_rawAddGate hl]
  simp only [List.mem_append, List.mem_singleton, not_or]
  exact ⟨a, hne⟩

/-- marking a known label -/
theorem Ok.mark_inv {α} {l : Label} {k : Prog α} {st : GSt} {P : List Label} {Q : α → GSt → Prop}
    (hinv : Inv st P) (hl : l ∈ st.c.labels)
    (h : ∀ st', st'.c.labels = st.c.labels → st'.ctr = st.ctr → Inv st' P → Ok k st' Q) : Ok (Prog.mark l k) st Q := by
  apply Ok.mark hl
  exact h _ rfl rfl ⟨hinv.nd, hinv.pend⟩

theorem Ok.fail_never {α} {e : String} {st : GSt} {Q : α → GSt → Prop} (h : False) : Ok (Prog.fail e : Prog α) st Q := h.elim

/-- **`emit`**: a fresh gate over known operands -/
theorem ok_emit {ty : GateType} {ops : List Label} {ok : tyOk ty ops.length = true} {st : GSt} {P : List Label}
    (hinv : Inv st P) (ho : ∀ o ∈ ops, o ∈ st.c.labels) :
    Ok (emit ty ops ok) st (fun l st' => st'.c.labels = st.c.labels ++ [l] ∧ st.ctr ≤ st'.ctr ∧ Inv st' P) := by
  unfold emit
  apply Ok.fresh_inv hinv
  intro l st1 hc hctr hinv1 _
  have hl : l ∉ st1.c.labels := (hinv1.pend l (by simp)).1
  apply Ok.add_inv hinv1 hl (by rw [hc]; exact ho)
  intro st2 hlab hctr2 hinv2
  apply Ok.pure
  refine ⟨by rw [hlab, hc], by omega, ?_⟩
  have : (l :: P).erase l = P := by simp
  rw [this] at hinv2
  exact hinv2

/-! ### contracts over a list of known labels -/

/-- every label of `K` is a gate of the circuit -/
def Kn (st : GSt) (K : List Label) : Prop := ∀ l ∈ K, l ∈ st.c.labels

/-- the contract of a generator: the caller's pending labels stay pending, what was known stays known, the
returned labels are known, and the result has the shape `S` -/
def GPost {α} (P K : List Label) (lab : α → List Label) (S : α → Prop) : α → GSt → Prop :=
  fun a st' => Inv st' P ∧ Kn st' (K ++ lab a) ∧ S a

theorem Kn.mono {st : GSt} {K K' : List Label} (h : Kn st K) (hs : ∀ l ∈ K', l ∈ K) : Kn st K' := fun l hl => h l (hs l hl)

theorem Ok.stepK {α β} {p : Prog α} {f : α → Prog β} {st : GSt} {P K : List Label} {lab : α → List Label} {S : α → Prop}
    {R : β → GSt → Prop} (hp : Ok p st (GPost P K lab S))
    (hf : ∀ a st', Inv st' P → Kn st' (K ++ lab a) → S a → Ok (f a) st' R) : Ok (p >>= f) st R :=
  Ok.bind hp (fun a st' h => hf a st' h.1 h.2.1 h.2.2)

theorem okK_emit {ty : GateType} {ops : List Label} {ok : tyOk ty ops.length = true} {st : GSt} {P K : List Label}
    (hinv : Inv st P) (hk : Kn st K) (ho : ∀ o ∈ ops, o ∈ K) :
    Ok (emit ty ops ok) st (GPost P K (fun l => [l]) (fun _ => True)) := by
  refine (ok_emit hinv (fun o h => hk o (ho o h))).mono ?_
  intro l st' ⟨h1, _, h3⟩
  refine ⟨h3, ?_, trivial⟩
  intro x hx
  rw [h1]
  rcases List.mem_append.mp hx with hx | hx
  · exact List.mem_append_left _ (hk x hx)
  · exact List.mem_append_right _ hx

theorem okK_emitTT {x y : Label} {op : TT} {st : GSt} {P K : List Label} (hinv : Inv st P) (hk : Kn st K)
    (hop : (Gen.ttType op.1 op.2.1 op.2.2.1 op.2.2.2).isSome = true)
    (hx : x ∈ K) (hy : y ∈ K) : Ok (emitTT x y op) st (GPost P K (fun l => [l]) (fun _ => True)) := by
  unfold emitTT
  split
  · rename_i h; rw [h] at hop; cases hop
  · exact okK_emit hinv hk (by intro o ho; simp only [List.mem_cons, List.not_mem_nil, or_false] at ho; rcases ho with rfl | rfl <;> assumption)

/-- membership side goals of the contracts -/
macro "kmem" : tactic => `(tactic| (simp only [List.mem_append, List.mem_cons, List.mem_singleton, List.not_mem_nil, or_false, false_or, List.append_assoc, id] at * <;> grind))

theorem ok_addSum2 {x1 x2 : Label} {st : GSt} {P K : List Label} (hinv : Inv st P) (hk : Kn st K) (h1 : x1 ∈ K) (h2 : x2 ∈ K) :
    Ok (addSum2 [x1, x2]) st (GPost P K id (fun a => a.length = 2)) := by
  unfold addSum2
  apply Ok.stepK (okK_emitTT hinv hk (by decide) h1 h2); intro g1 s1 i1 k1 _
  apply Ok.stepK (okK_emitTT i1 k1 (by decide) (by kmem) (by kmem)); intro g2 s2 i2 k2 _
  exact Ok.ret ⟨i2, k2.mono (by intro l hl; kmem), rfl⟩

theorem ok_addSum3 {x1 x2 x3 : Label} {st : GSt} {P K : List Label} (hinv : Inv st P) (hk : Kn st K)
    (h1 : x1 ∈ K) (h2 : x2 ∈ K) (h3 : x3 ∈ K) :
    Ok (addSum3 [x1, x2, x3]) st (GPost P K id (fun a => a.length = 2)) := by
  unfold addSum3
  apply Ok.stepK (okK_emitTT hinv hk (by decide) h1 h2); intro g1 s1 i1 k1 _
  apply Ok.stepK (okK_emitTT i1 k1 (by decide) (by kmem) (by kmem)); intro g2 s2 i2 k2 _
  apply Ok.stepK (okK_emitTT i2 k2 (by decide) (by kmem) (by kmem)); intro g3 s3 i3 k3 _
  apply Ok.stepK (okK_emitTT i3 k3 (by decide) (by kmem) (by kmem)); intro g4 s4 i4 k4 _
  apply Ok.stepK (okK_emitTT i4 k4 (by decide) (by kmem) (by kmem)); intro g5 s5 i5 k5 _
  exact Ok.ret ⟨i5, k5.mono (by intro l hl; kmem), rfl⟩

/-! ### a loop with fuel: `reduce3`, `reduce2`, `levelsSimple`, `add_sum_n_bits_easy` (template) -/

/-- a three-input block that returns two labels -/
def Blk3 (blk3 : List Label → Prog (List Label)) : Prop :=
  ∀ (a b c : Label) (st : GSt) (P K : List Label), Inv st P → Kn st K → a ∈ K → b ∈ K → c ∈ K →
    Ok (blk3 [a, b, c]) st (GPost P K id (fun r => r.length = 2))

def Blk2 (blk2 : List Label → Prog (List Label)) : Prop :=
  ∀ (a b : Label) (st : GSt) (P K : List Label), Inv st P → Kn st K → a ∈ K → b ∈ K →
    Ok (blk2 [a, b]) st (GPost P K id (fun r => r.length = 2))

theorem blk3_addSum3 : Blk3 addSum3 := fun _ _ _ _ _ _ hinv hk h1 h2 h3 => ok_addSum3 hinv hk h1 h2 h3
theorem blk2_addSum2 : Blk2 addSum2 := fun _ _ _ _ _ hinv hk h1 h2 => ok_addSum2 hinv hk h1 h2

theorem ok_pair2_bind {β} {l : List Label} {f : Label × Label → Prog β} {st : GSt} {R : β → GSt → Prop} (hl : l.length = 2)
    (h : ∀ x y, l = [x, y] → Ok (f (x, y)) st R) : Ok (pair2 l >>= f) st R := by
  match l, hl with
  | [x, y], _ => exact h x y rfl

/-- `reduce3` with enough fuel: at most two labels stay, the same parity class, carries appended -/
theorem ok_reduce3 {blk3 : List Label → Prog (List Label)} (hb : Blk3 blk3) : ∀ (fuel : Nat) (nowR next : List Label)
    (st : GSt) (P K : List Label), Inv st P → Kn st K → (∀ l ∈ nowR, l ∈ K) → (∀ l ∈ next, l ∈ K) → nowR.length ≤ fuel →
    Ok (reduce3 blk3 fuel nowR next) st (GPost P K (fun r => r.1 ++ r.2)
      (fun r => r.1.length ≤ 2 ∧ (nowR ≠ [] → r.1 ≠ []) ∧ r.1.length + 2 * r.2.length = nowR.length + 2 * next.length)) := by
  intro fuel
  induction fuel with
  | zero =>
    intro nowR next st P K hinv hk hn hx hf
    have : nowR = [] := List.eq_nil_of_length_eq_zero (by omega)
    subst this
    unfold reduce3
    exact Ok.pure ⟨hinv, fun l hl => hk l (by kmem), by simp, fun h => h, rfl⟩
  | succ n ih =>
    intro nowR next st P K hinv hk hn hx hf
    match nowR, hn, hf with
    | a :: b :: c :: rest, hn, hf =>
      unfold reduce3
      apply Ok.stepK (hb a b c st P K hinv hk (hn a (by simp)) (hn b (by simp)) (hn c (by simp))); intro r s1 i1 k1 hr
      apply ok_pair2_bind hr; intro x y e2
      subst e2
      simp only [id] at k1
      have hk1 : Kn s1 K := k1.mono (by intro l hl; kmem)
      refine (ih (x :: rest) (next ++ [y]) s1 P (K ++ [x, y]) i1 k1 (by intro l hl; kmem) (by intro l hl; kmem)
        (by simp only [List.length_cons] at hf ⊢; omega)).mono ?_
      intro res s2 ⟨i2, k2, h1, h2, h3⟩
      refine ⟨i2, k2.mono (by intro l hl; kmem), h1, fun _ => h2 (by simp), ?_⟩
      simp only [List.length_cons, List.length_append, List.length_nil] at h3 ⊢
      omega
    | [], _, _ =>
      unfold reduce3
      exact Ok.pure ⟨hinv, fun l hl => hk l (by kmem), by simp, fun h => h, rfl⟩
    | [a], hn, _ =>
      unfold reduce3
      exact Ok.pure ⟨hinv, fun l hl => hk l (by kmem), by simp, fun _ => by simp, rfl⟩
    | [a, b], hn, _ =>
      unfold reduce3
      exact Ok.pure ⟨hinv, fun l hl => hk l (by kmem), by simp, fun _ => by simp, rfl⟩

theorem ok_reduce2 {blk2 : List Label → Prog (List Label)} (hb : Blk2 blk2) (nowR next : List Label)
    (st : GSt) (P K : List Label) (hinv : Inv st P) (hk : Kn st K) (hn : ∀ l ∈ nowR, l ∈ K) (hx : ∀ l ∈ next, l ∈ K)
    (hlen : nowR.length ≤ 2) :
    Ok (reduce2 blk2 nowR next) st (GPost P K (fun r => r.1 ++ r.2)
      (fun r => r.1.length ≤ 1 ∧ (nowR ≠ [] → r.1 ≠ []) ∧ r.1.length + r.2.length = nowR.length + next.length)) := by
  rcases nowR with _ | ⟨a, _ | ⟨b, _ | ⟨c, rest⟩⟩⟩
  · unfold reduce2
    exact Ok.pure ⟨hinv, fun l hl => hk l (by kmem), by simp, fun h => h, rfl⟩
  · unfold reduce2
    exact Ok.pure ⟨hinv, fun l hl => hk l (by kmem), by simp, fun _ => by simp, rfl⟩
  · unfold reduce2
    apply Ok.stepK (hb a b st P K hinv hk (hn a (by simp)) (hn b (by simp))); intro r s1 i1 k1 hr
    apply ok_pair2_bind hr; intro x y e2
    subst e2
    simp only [id] at k1
    refine Ok.ret ⟨i1, k1.mono (by intro l hl; kmem), by simp, fun _ => by simp, ?_⟩
    show [x].length + (next ++ [y]).length = [a, b].length + next.length
    simp only [List.length_cons, List.length_append, List.length_nil]; omega
  · simp only [List.length_cons] at hlen; omega

theorem ok_firstOfRev {nowR : List Label} {st : GSt} {Q : Label → GSt → Prop} (hne : nowR ≠ [])
    (h : ∀ x, x ∈ nowR → Q x st) : Ok (firstOfRev nowR) st Q := by
  unfold firstOfRev
  cases hg : nowR.getLast? with
  | none => exact absurd (List.getLast?_eq_none_iff.mp hg) hne
  | some x => exact Ok.pure (h x (List.mem_of_getLast? hg))

/-- the level loop: every level halves the number of bits, so `fuel > number of bits` is enough -/
theorem ok_levelsSimple {blk3 blk2 : List Label → Prog (List Label)} (h3 : Blk3 blk3) (h2 : Blk2 blk2) :
    ∀ (fuel : Nat) (nowR res : List Label) (st : GSt) (P K : List Label), Inv st P → Kn st K →
      (∀ l ∈ nowR, l ∈ K) → (∀ l ∈ res, l ∈ K) → nowR.length < fuel →
      Ok (levelsSimple blk3 blk2 fuel nowR res) st (GPost P K id (fun _ => True)) := by
  intro fuel
  induction fuel with
  | zero => intro nowR res st P K _ _ _ _ hf; omega
  | succ n ih =>
    intro nowR res st P K hinv hk hn hr hf
    unfold levelsSimple
    by_cases he : nowR.isEmpty = true
    · simp only [he, if_true]
      exact Ok.ret ⟨hinv, fun l hl => hk l (by kmem), trivial⟩
    · simp only [he, Bool.false_eq_true, if_false]
      have hne : nowR ≠ [] := by intro e; subst e; simp at he
      apply Ok.stepK (ok_reduce3 h3 nowR.length nowR [] st P K hinv hk hn (by intro l hl; cases hl) (Nat.le_refl _))
      intro r1 s1 i1 k1 ⟨a1, a2, a3⟩
      obtain ⟨n1, nx1⟩ := r1
      simp only at k1 a1 a2 a3 ⊢
      apply Ok.stepK (ok_reduce2 h2 n1 nx1 s1 P (K ++ (n1 ++ nx1)) i1 k1 (by intro l hl; kmem) (by intro l hl; kmem) a1)
      intro r2 s2 i2 k2 ⟨b1, b2, b3⟩
      obtain ⟨n2, nx2⟩ := r2
      simp only at k2 b1 b2 b3 ⊢
      apply Ok.bind (ok_firstOfRev (Q := fun x st' => st' = s2 ∧ x ∈ n2) (b2 (a2 hne)) (fun x hx => ⟨rfl, hx⟩))
      intro r s2' ⟨e, hr2⟩
      subst e
      refine (ih nx2.reverse (res ++ [r]) s2' P (K ++ (n1 ++ nx1) ++ (n2 ++ nx2)) i2 k2 (by intro l hl; kmem) (by intro l hl; kmem)
        (by
          have hpos : 0 < n2.length := List.length_pos_iff.mpr (b2 (a2 hne))
          simp only [List.length_nil, Nat.mul_zero, Nat.add_zero] at a3
          rw [List.length_reverse]; omega)).mono ?_
      intro out s3 ⟨i3, k3, _⟩
      exact ⟨i3, k3.mono (by intro l hl; kmem), trivial⟩

theorem mem_revIf {l : List Label} {b : Bool} {x : Label} : x ∈ revIf l b ↔ x ∈ l := by
  unfold revIf; split <;> simp

theorem length_revIf_t (l : List Label) (b : Bool) : (revIf l b).length = l.length := by
  unfold revIf; split <;> simp

/-- **`add_sum_n_bits_easy` returns** on any operands that are gates of the circuit -/
theorem ok_addSumNBitsEasy {ins : List Label} {be : Bool} {st : GSt} {P K : List Label} (hinv : Inv st P) (hk : Kn st K)
    (hi : ∀ l ∈ ins, l ∈ K) : Ok (addSumNBitsEasy ins be) st (GPost P K id (fun _ => True)) := by
  unfold addSumNBitsEasy
  apply Ok.stepK (ok_levelsSimple blk3_addSum3 blk2_addSum2 _ _ [] st P K hinv hk
    (by intro l hl; exact hi l (mem_revIf.mp (List.mem_reverse.mp hl))) (by intro l hl; cases hl) (by simp))
  intro res s1 i1 k1 _
  exact Ok.ret ⟨i1, k1.mono (by intro l hl; simp only [id, List.mem_append, mem_revIf] at hl ⊢; exact hl), trivial⟩

end Cirbo
