import Cirbo.Proofs.PassMdg
import Cirbo.Proofs.RrgIdem
/-!
# Postcondition of MergeDuplicateGates (C18): no two live gates with the same signature
-/
namespace Cirbo
open Circuit GateType

abbrev Sig := GateType × List Label
abbrev Sigs := List (Sig × Label)

/-- `o` is the registered representative of its own signature (vacuous for inputs and non-gates) -/
def Canon (gs : List Gate) (sigs : Sigs) (o : Label) : Prop :=
  ∀ go ∈ gs, go.label = o → go.ty ≠ INPUT → sigs.lookup (signature go.ty go.ops) = some o

structure SInv (gs : List Gate) (sigs : Sigs) : Prop where
  nd : (gs.map (·.label)).Nodup
  reg : ∀ g ∈ gs, g.ty ≠ INPUT → ∃ d, sigs.lookup (signature g.ty g.ops) = some d
  back : ∀ sig d, sigs.lookup sig = some d → ∃ g ∈ gs, g.label = d ∧ g.ty ≠ INPUT ∧ signature g.ty g.ops = sig
  canon : ∀ g ∈ gs, ∀ o ∈ g.ops, o ∈ gs.map (·.label) ∧ Canon gs sigs o

theorem label_inj {gs : List Gate} (hnd : (gs.map (·.label)).Nodup) {a b : Gate} (ha : a ∈ gs) (hb : b ∈ gs)
    (h : a.label = b.label) : a = b := by
  induction gs with
  | nil => cases ha
  | cons x r ih =>
    simp only [List.map_cons, List.nodup_cons, List.mem_map, not_exists, not_and] at hnd
    simp only [List.mem_cons] at ha hb
    rcases ha with rfl | ha <;> rcases hb with rfl | hb
    · rfl
    · exact absurd h.symm (hnd.1 b hb)
    · exact absurd h (hnd.1 a ha)
    · exact ih hnd.2 ha hb

theorem mdgNewName_canon {st : MdgSt} (inv : SInv st.n.gates st.sigs) {o d : Label}
    (h : mdgNewName st o = .ok d) : d ∈ st.n.gates.map (·.label) ∧ Canon st.n.gates st.sigs d := by
  unfold mdgNewName at h
  cases hf : st.n.find? o with
  | none => simp [hf] at h
  | some go =>
    simp only [hf] at h
    obtain ⟨hgm, hgl⟩ := find_some_mem hf
    cases hl : st.sigs.lookup (signature go.ty go.ops) with
    | some x =>
      simp only [hl, Except.ok.injEq] at h; subst h
      obtain ⟨gd, hgd, hgdl, _, hsig⟩ := inv.back _ _ hl
      refine ⟨List.mem_map.mpr ⟨gd, hgd, hgdl⟩, ?_⟩
      intro g' hg' hgl' _
      have := label_inj inv.nd hg' hgd (hgl'.trans hgdl.symm)
      subst this
      rw [hsig]; exact hl
    | none =>
      simp only [hl, Except.ok.injEq] at h; subst h
      refine ⟨List.mem_map.mpr ⟨go, hgm, hgl⟩, ?_⟩
      intro g' hg' hgl' hty
      have := label_inj inv.nd hg' hgm (hgl'.trans hgl.symm)
      subst this
      obtain ⟨d, hd⟩ := inv.reg g' hg' hty
      rw [hd] at hl; cases hl

theorem mapR_canon {st : MdgSt} (inv : SInv st.n.gates st.sigs) : ∀ (ls ds : List Label),
    mapR (mdgNewName st) ls = .ok ds → ∀ d ∈ ds, d ∈ st.n.gates.map (·.label) ∧ Canon st.n.gates st.sigs d := by
  intro ls
  induction ls with
  | nil => intro ds h d hd; simp only [mapR, Except.ok.injEq] at h; subst h; cases hd
  | cons l r ih =>
    intro ds h d hd
    unfold mapR at h
    cases h1 : mdgNewName st l with
    | error e => simp [h1] at h
    | ok y =>
      simp only [h1] at h
      cases h2 : mapR (mdgNewName st) r with
      | error e => simp [h2] at h
      | ok ys =>
        simp only [h2, Except.ok.injEq] at h; subst h
        rcases List.mem_cons.mp hd with rfl | hd
        · exact mdgNewName_canon inv h1
        · exact ih ys h2 d hd

theorem lookup_append_some {α β} [BEq α] {l1 l2 : List (α × β)} {k : α} {v : β} (h : l1.lookup k = some v) :
    (l1 ++ l2).lookup k = some v := by
  rw [List.lookup_append, h]; rfl

theorem mdgStep_sinv {c : Circuit} {st st' : MdgSt} {l : Label}
    (inv : SInv st.n.gates st.sigs) (h : mdgStep c (.ok st) l = .ok st') : SInv st'.n.gates st'.sigs := by
  unfold mdgStep at h
  simp only at h
  cases hf : c.find? l with
  | none => simp [hf] at h
  | some g =>
    simp only [hf] at h
    by_cases ht : g.ty = INPUT
    · simp only [ht, if_true] at h
      cases ha : st.n.addInputs [g.label] with
      | error e => simp [ha] at h
      | ok n' =>
        simp only [ha, Except.ok.injEq] at h; subst h
        obtain ⟨a1, _, _⟩ := addInputs_spec _ _ _ ha
        simp only [List.map_cons, List.map_nil] at a1
        -- the label is new
        have hnew : g.label ∉ st.n.gates.map (·.label) := by
          simp only [addInputs] at ha
          cases hag : st.n.addGate ⟨g.label, INPUT, []⟩ with
          | error e => simp [hag] at ha
          | ok c1 =>
            unfold addGate at hag
            split at hag
            · cases hag
            · rename_i hh
              intro hm
              exact hh ((hasGate_iff' _ _).mpr hm)
        simp only
        rw [a1]
        refine ⟨?_, ?_, ?_, ?_⟩
        · simp only [List.map_append, List.map_cons, List.map_nil]
          exact List.nodup_append.mpr ⟨inv.nd, by simp, by
            intro a ha b hb; simp only [List.mem_singleton] at hb; subst hb; intro e; subst e; exact hnew ha⟩
        · intro x hx hxt
          rcases List.mem_append.mp hx with hx | hx
          · exact inv.reg x hx hxt
          · simp only [List.mem_singleton] at hx; subst hx; exact absurd rfl hxt
        · intro sig d hs
          obtain ⟨gd, hgd, r⟩ := inv.back sig d hs
          exact ⟨gd, List.mem_append_left _ hgd, r⟩
        · intro x hx o ho
          rcases List.mem_append.mp hx with hx | hx
          · obtain ⟨h1, h2⟩ := inv.canon x hx o ho
            refine ⟨by simp only [List.map_append, List.mem_append]; exact Or.inl h1, ?_⟩
            intro go hgo hgol hgot
            rcases List.mem_append.mp hgo with hgo | hgo
            · exact h2 go hgo hgol hgot
            · simp only [List.mem_singleton] at hgo; subst hgo; exact absurd rfl hgot
          · simp only [List.mem_singleton] at hx; subst hx; cases ho
    · simp only [ht, if_false] at h
      cases hm : mapR (mdgNewName st) g.ops with
      | error e => simp [hm] at h
      | ok ops =>
        simp only [hm] at h
        cases ha : st.n.addGate ⟨g.label, g.ty, ops⟩ with
        | error e => simp [ha] at h
        | ok n' =>
          simp only [ha, Except.ok.injEq] at h; subst h
          obtain ⟨_, _, hg1, _⟩ := addGate_fields ha
          have hnew : g.label ∉ st.n.gates.map (·.label) := by
            unfold addGate at ha
            split at ha
            · cases ha
            · rename_i hh
              intro hm
              exact hh ((hasGate_iff' _ _).mpr hm)
          have hops := mapR_canon inv _ _ hm
          simp only
          rw [hg1]
          -- lookups in the old table survive
          have hkeep : ∀ k v, st.sigs.lookup k = some v →
              (if (st.sigs.lookup (signature g.ty ops)).isSome then st.sigs
               else st.sigs ++ [(signature g.ty ops, g.label)]).lookup k = some v := by
            intro k v hk
            split
            · exact hk
            · exact lookup_append_some hk
          have hmono : ∀ d, d ∈ st.n.gates.map (·.label) → Canon st.n.gates st.sigs d →
              Canon (st.n.gates ++ [⟨g.label, g.ty, ops⟩])
                (if (st.sigs.lookup (signature g.ty ops)).isSome then st.sigs
                 else st.sigs ++ [(signature g.ty ops, g.label)]) d := by
            intro d hd hc go hgo hgol hgot
            rcases List.mem_append.mp hgo with hgo | hgo
            · exact hkeep _ _ (hc go hgo hgol hgot)
            · simp only [List.mem_singleton] at hgo; subst hgo
              simp only at hgol; subst hgol; exact absurd hd hnew
          refine ⟨?_, ?_, ?_, ?_⟩
          · simp only [List.map_append, List.map_cons, List.map_nil]
            exact List.nodup_append.mpr ⟨inv.nd, by simp, by
              intro a ha b hb; simp only [List.mem_singleton] at hb; subst hb; intro e; subst e; exact hnew ha⟩
          · intro x hx hxt
            rcases List.mem_append.mp hx with hx | hx
            · obtain ⟨d, hd⟩ := inv.reg x hx hxt
              exact ⟨d, hkeep _ _ hd⟩
            · simp only [List.mem_singleton] at hx; subst hx
              simp only
              cases hl : st.sigs.lookup (signature g.ty ops) with
              | some d => exact ⟨d, by simp [hl]⟩
              | none =>
                refine ⟨g.label, ?_⟩
                simp only [Option.isSome_none, Bool.false_eq_true, if_false]
                rw [List.lookup_append, hl]
                simp [List.lookup_cons]
          · intro sig d hs
            cases hl : st.sigs.lookup (signature g.ty ops) with
            | some d' =>
              simp only [hl, Option.isSome_some, if_true] at hs
              obtain ⟨gd, hgd, r⟩ := inv.back sig d hs
              exact ⟨gd, List.mem_append_left _ hgd, r⟩
            | none =>
              simp only [hl, Option.isSome_none, Bool.false_eq_true, if_false] at hs
              rw [List.lookup_append] at hs
              cases hl2 : st.sigs.lookup sig with
              | some d2 =>
                rw [hl2] at hs
                have hs' : d2 = d := by simpa using hs
                subst hs' 
                obtain ⟨gd, hgd, r⟩ := inv.back sig d2 hl2
                exact ⟨gd, List.mem_append_left _ hgd, r⟩
              | none =>
                rw [hl2] at hs
                simp only [Option.none_or, List.lookup_cons, List.lookup_nil] at hs
                split at hs
                · rename_i heq
                  simp only [Option.some.injEq] at hs; subst hs
                  exact ⟨⟨g.label, g.ty, ops⟩, by simp, rfl, ht, (by simpa using heq : sig = signature g.ty ops).symm⟩
                · cases hs
          · intro x hx o ho
            rcases List.mem_append.mp hx with hx | hx
            · obtain ⟨h1, h2⟩ := inv.canon x hx o ho
              exact ⟨by simp only [List.map_append, List.mem_append]; exact Or.inl h1, hmono o h1 h2⟩
            · simp only [List.mem_singleton] at hx; subst hx
              obtain ⟨h1, h2⟩ := hops o ho
              exact ⟨by simp only [List.map_append, List.mem_append]; exact Or.inl h1, hmono o h1 h2⟩

theorem mdgFold_sinv {c : Circuit} : ∀ (ls : List Label) (st st' : MdgSt),
    SInv st.n.gates st.sigs → ls.foldl (mdgStep c) (.ok st) = .ok st' → SInv st'.n.gates st'.sigs := by
  intro ls
  induction ls with
  | nil => intro st st' hi h; simp only [List.foldl_nil, Except.ok.injEq] at h; subst h; exact hi
  | cons l r ih =>
    intro st st' hi h
    simp only [List.foldl_cons] at h
    cases hs : mdgStep c (.ok st) l with
    | error e => rw [hs, mdgStep_error] at h; cases h
    | ok s1 => rw [hs] at h; exact ih s1 st' (mdgStep_sinv hi hs) h

/-- **MergeDuplicateGates**: among the gates of the result that the outputs depend on, no two
non-input gates have the same signature (type and operands, operands up to order for symmetric types) -/
theorem mdg_no_duplicates {c c' : Circuit} (h : mdg c = .ok c') :
    ∀ g1 ∈ c'.gates, ∀ g2 ∈ c'.gates, Reach c'.opsOf c'.outputs g1.label → Reach c'.opsOf c'.outputs g2.label →
      g1.ty ≠ INPUT → g2.ty ≠ INPUT → signature g1.ty g1.ops = signature g2.ty g2.ops → g1 = g2 := by
  unfold mdg at h
  cases htr : traverse c false false (some c.outputs) true with
  | error e => simp [htr] at h
  | ok log =>
    simp only [htr] at h
    cases hf : (hookLabels log true).foldl (mdgStep c) (.ok ⟨Circuit.empty, []⟩) with
    | error e => simp [hf] at h
    | ok st =>
      simp only [hf] at h
      cases hsi : st.n.setInputs c.inputs with
      | error e => simp [hsi] at h
      | ok n2 =>
        simp only [hsi] at h
        cases hmo : mapR (mdgNewName ⟨n2, st.sigs⟩) c.outputs with
        | error e => simp [hmo] at h
        | ok outs =>
          simp only [hmo] at h
          have inv0 : SInv (Circuit.empty).gates ([] : Sigs) :=
            ⟨by simp [Circuit.empty], by intro g hg; simp [Circuit.empty] at hg, by intro s d h; simp at h,
             by intro g hg; simp [Circuit.empty] at hg⟩
          have inv := mdgFold_sinv (c := c) _ ⟨Circuit.empty, []⟩ st inv0 hf
          have hg2 : n2.gates = st.n.gates := setInputs_gates hsi
          have hgc : c'.gates = st.n.gates := by rw [setOutputs_gates h, hg2]
          obtain ⟨hoc, _⟩ := setOutputs_outputs h
          have inv2 : SInv (MdgSt.mk n2 st.sigs).n.gates (MdgSt.mk n2 st.sigs).sigs := by
            simp only; rw [hg2]; exact inv
          have houts := mapR_canon inv2 _ _ hmo
          simp only [hg2] at houts
          have hnd' : c'.labels.Nodup := by unfold Circuit.labels; rw [hgc]; exact inv.nd
          -- everything reachable is canonical
          have hreach : ∀ l, Reach c'.opsOf c'.outputs l →
              l ∈ st.n.gates.map (·.label) ∧ Canon st.n.gates st.sigs l := by
            intro l hl
            induction hl with
            | base hm => rw [hoc] at hm; exact houts _ hm
            | @step u l' hu hm _ =>
              by_cases hul : u ∈ c'.labels
              · obtain ⟨g', hg', hgl⟩ : ∃ g ∈ c'.gates, g.label = u := by simpa [Circuit.labels] using hul
                rw [← hgl, opsOf_gate hnd' hg'] at hm
                exact inv.canon g' (hgc ▸ hg') l' hm
              · rw [opsOf_not_mem hul] at hm; cases hm
          intro g1 hg1 g2 hg2' hr1 hr2 ht1 ht2 hsig
          rw [hgc] at hg1 hg2'
          have c1 := (hreach _ hr1).2 g1 hg1 rfl ht1
          have c2 := (hreach _ hr2).2 g2 hg2' rfl ht2
          rw [hsig, c2] at c1
          simp only [Option.some.injEq] at c1
          exact label_inj inv.nd hg1 hg2' c1.symm

/-- the same for the pass with its implied `RemoveRedundantGates()`: the final circuit has no two
non-input gates with the same signature at all -/
theorem mdg_rrg_no_duplicates {c c' c'' : Circuit} {allow : Bool} (hw : WFS c) (h : mdg c = .ok c')
    (h2 : rrg allow c' = .ok c'') :
    ∀ g1 ∈ c''.gates, ∀ g2 ∈ c''.gates, g1.ty ≠ INPUT → g2.ty ≠ INPUT →
      signature g1.ty g1.ops = signature g2.ty g2.ops → g1 = g2 := by
  obtain ⟨w', _, _, _, _⟩ := mdg_spec hw h
  obtain ⟨w'', hsub, _, _, _, _, _, hlab⟩ := rrg_spec w' h2
  intro g1 hg1 g2 hg2 ht1 ht2 hsig
  have hg1' := hsub g1 hg1
  have hg2' := hsub g2 hg2
  have hne : c'.gates ≠ [] := by intro e; rw [e] at hg1'; cases hg1'
  have reach : ∀ g ∈ c''.gates, g.ty ≠ INPUT → Reach c'.opsOf c'.outputs g.label := by
    intro g hg ht
    rcases (hlab hne g.label).mp (mem_labels_of_mem hg) with hr | ⟨_, hin⟩
    · exact hr
    · obtain ⟨gi, hgi, hgil, hgit⟩ := (w'.inputsOK g.label).mp hin
      have := find_label w'.nodup hgi
      rw [hgil, find_label w'.nodup (hsub g hg)] at this
      simp only [Option.some.injEq] at this
      subst this
      exact absurd hgit ht
  exact mdg_no_duplicates h g1 hg1' g2 hg2' (reach g1 hg1 ht1) (reach g2 hg2 ht2) ht1 ht2 hsig

end Cirbo
