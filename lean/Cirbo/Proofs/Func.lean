import Cirbo.Model.Func
/-! # Function protocol queries equal their mathematical definitions (C12) -/
namespace Cirbo
open FRep

/-- `itertools.product((False, True), repeat=n)` enumerates exactly the vectors of length n -/
theorem mem_allInputs (x : List Bool) : ∀ n, x ∈ allInputs n ↔ x.length = n := by
  induction x with
  | nil => intro n; cases n <;> simp [allInputs]
  | cons b r ih =>
    intro n
    cases n with
    | zero => simp [allInputs]
    | succ n =>
      simp only [allInputs, List.mem_append, List.mem_map, List.cons.injEq, List.length_cons,
        Nat.add_right_cancel_iff]
      constructor
      · rintro (⟨y, hy, _, rfl⟩ | ⟨y, hy, _, rfl⟩) <;> exact (ih n).mp hy
      · intro h
        cases b
        · left; exact ⟨r, (ih n).mpr h, rfl, rfl⟩
        · right; exact ⟨r, (ih n).mpr h, rfl, rfl⟩

theorem allInputs_ne_nil (n : Nat) : allInputs n ≠ [] := by
  intro h
  have : List.replicate n false ∈ allInputs n := (mem_allInputs _ n).mpr (by simp)
  rw [h] at this; cases this

/-- generic: "all elements of a non-empty list agree with the first" ⇔ "all pairs agree" -/
theorem all_eq_first_iff {α β} [BEq β] [LawfulBEq β] (f : α → β) (x0 : α) (r : List α) :
    r.all (fun x => f x == f x0) = true ↔ ∀ x ∈ x0 :: r, ∀ y ∈ x0 :: r, f x = f y := by
  rw [List.all_eq_true]
  constructor
  · intro h x hx y hy
    have hf : ∀ z ∈ x0 :: r, f z = f x0 := by
      intro z hz
      simp only [List.mem_cons] at hz
      rcases hz with rfl | hz
      · rfl
      · simpa using h z hz
    rw [hf x hx, hf y hy]
  · intro h x hx
    simpa using h x (by simp [hx]) x0 (by simp)

/-- **is_constant** (Circuit, PyFunction; TruthTable's row scan is the same test per output) -/
theorem isConstant_iff (F : FRep) :
    F.isConstant = true ↔ ∀ x y, x.length = F.n → y.length = F.n → F.ev x = F.ev y := by
  unfold isConstant
  cases h : allInputs F.n with
  | nil => exact absurd h (allInputs_ne_nil _)
  | cons x0 r =>
    simp only
    rw [all_eq_first_iff F.ev]
    constructor
    · intro hh x y hx hy
      exact hh x (h ▸ (mem_allInputs x _).mpr hx) y (h ▸ (mem_allInputs y _).mpr hy)
    · intro hh x hx y hy
      exact hh x y ((mem_allInputs x _).mp (h ▸ hx)) ((mem_allInputs y _).mp (h ▸ hy))

theorem isConstantAt_iff (F : FRep) (o : Nat) :
    F.isConstantAt o = true ↔ ∀ x y, x.length = F.n → y.length = F.n → F.evAt x o = F.evAt y o := by
  unfold isConstantAt
  cases h : allInputs F.n with
  | nil => exact absurd h (allInputs_ne_nil _)
  | cons x0 r =>
    simp only
    rw [all_eq_first_iff (fun x => F.evAt x o)]
    constructor
    · intro hh x y hx hy
      exact hh x (h ▸ (mem_allInputs x _).mpr hx) y (h ▸ (mem_allInputs y _).mpr hy)
    · intro hh x hx y hy
      exact hh x y ((mem_allInputs x _).mp (h ▸ hx)) ((mem_allInputs y _).mp (h ▸ hy))

/-- **is_output_equal_to_input** / negation -/
theorem equalInput_iff (F : FRep) (o i : Nat) :
    F.equalInput o i = true ↔ ∀ x, x.length = F.n → F.evAt x o = x.getD i false := by
  unfold equalInput
  rw [List.all_eq_true]
  constructor
  · intro h x hx; simpa using h x ((mem_allInputs x _).mpr hx)
  · intro h x hx; simpa using h x ((mem_allInputs x _).mp hx)

theorem equalInputNeg_iff (F : FRep) (o i : Nat) :
    F.equalInputNeg o i = true ↔ ∀ x, x.length = F.n → F.evAt x o = !x.getD i false := by
  unfold equalInputNeg
  rw [List.all_eq_true]
  constructor
  · intro h x hx; simpa using h x ((mem_allInputs x _).mpr hx)
  · intro h x hx; simpa using h x ((mem_allInputs x _).mp hx)

/-- **is_dependent_on_input_at**: there are two inputs differing only at position `i` with
different values of output `o` -/
theorem isDependent_iff (F : FRep) (o i : Nat) :
    F.isDependent o i = true ↔
      ∃ x, x.length = F.n - 1 ∧ F.evAt (insertAt x i false) o ≠ F.evAt (insertAt x i true) o := by
  unfold isDependent
  rw [List.any_eq_true]
  constructor
  · rintro ⟨x, hx, h⟩; exact ⟨x, (mem_allInputs x _).mp hx, by simpa using h⟩
  · rintro ⟨x, hx, h⟩; exact ⟨x, (mem_allInputs x _).mpr hx, by simpa using h⟩

theorem significant_iff (F : FRep) (o i : Nat) :
    i ∈ F.significant o ↔ i < F.n ∧ F.isDependent o i = true := by
  simp [significant]

/-! ### monotonicity: the three implementations and the definition -/

/-- the documented notion: along the canonical enumeration the row never goes from `¬inv` back
to `inv` (non-decreasing for inv = false, non-increasing for inv = true) -/
def SortedRow (inv : Bool) : List Bool → Prop
  | [] => True
  | v :: r => (v ≠ inv → ∀ w ∈ r, w ≠ inv) ∧ SortedRow inv r

theorem monoScan_true_iff (inv : Bool) (l : List Bool) :
    monoScan inv true l = true ↔ ∀ w ∈ l, w ≠ inv := by
  induction l with
  | nil => simp [monoScan]
  | cons v r ih =>
    simp only [monoScan, Bool.not_true, Bool.false_and, Bool.false_eq_true, if_false, Bool.true_and,
      List.mem_cons, forall_eq_or_imp]
    by_cases h : v = inv
    · subst h; simp
    · have : (v == inv) = false := by simp [h]
      simp [this, ih, h]

theorem monoScan_false_iff (inv : Bool) (l : List Bool) :
    monoScan inv false l = true ↔ SortedRow inv l := by
  induction l with
  | nil => simp [monoScan, SortedRow]
  | cons v r ih =>
    simp only [monoScan, SortedRow, Bool.not_false, Bool.true_and, Bool.false_and, Bool.false_eq_true,
      if_false]
    by_cases h : v = inv
    · subst h; simp [ih]
    · have h' : (v != inv) = true := by simp [h]
      simp only [h', if_true, monoScan_true_iff]
      constructor
      · intro hh
        refine ⟨fun _ => hh, ?_⟩
        clear ih
        induction r with
        | nil => trivial
        | cons w r' ih2 =>
          refine ⟨fun _ u hu => hh u (by simp [hu]), ih2 (fun u hu => hh u (by simp [hu]))⟩
      · intro hh; exact hh.1 h

theorem changeScan_true_iff (cur : Bool) (l : List Bool) :
    changeScan true cur l = true ↔ ∀ w ∈ l, w = cur := by
  induction l with
  | nil => simp [changeScan]
  | cons v r ih =>
    simp only [changeScan, if_true, List.mem_cons, forall_eq_or_imp]
    by_cases h : v = cur
    · subst h; simp [ih]
    · have : (v != cur) = true := by simp [h]
      simp [this, h]

theorem changeScan_false_iff (inv : Bool) (l : List Bool) :
    changeScan false inv l = true ↔ SortedRow inv l := by
  induction l with
  | nil => simp [changeScan, SortedRow]
  | cons v r ih =>
    simp only [changeScan, SortedRow, Bool.false_eq_true, if_false]
    by_cases h : v = inv
    · subst h; simp [ih]
    · have h' : (v != inv) = true := by simp [h]
      simp only [h', if_true, changeScan_true_iff]
      have hne : ∀ w : Bool, w = !inv ↔ w ≠ inv := by intro w; cases w <;> cases inv <;> simp
      constructor
      · intro hh
        have hh' : ∀ w ∈ r, w ≠ inv := fun w hw => (hne w).mp (hh w hw)
        refine ⟨fun _ => hh', ?_⟩
        clear ih hh
        induction r with
        | nil => trivial
        | cons w r' ih2 =>
          refine ⟨fun _ u hu => hh' u (by simp [hu]), ih2 (fun u hu => hh' u (by simp [hu]))⟩
      · intro hh w hw; exact (hne w).mpr (hh.1 h w hw)

/-- `Circuit.is_monotone_at` and `PyFunction/TruthTable.is_monotone_at` are the same predicate,
namely the documented one -/
theorem isMonotoneAt_agree (F : FRep) (o : Nat) (inv : Bool) :
    F.isMonotoneAtC o inv = F.isMonotoneAtP o inv := by
  have h1 := changeScan_false_iff inv (F.row o)
  have h2 := monoScan_false_iff inv (F.row o)
  unfold isMonotoneAtC isMonotoneAtP
  cases hc : changeScan false inv (F.row o) <;> cases hm : monoScan inv false (F.row o) <;> simp_all

theorem isMonotoneAt_iff (F : FRep) (o : Nat) (inv : Bool) :
    F.isMonotoneAtP o inv = true ↔ SortedRow inv (F.row o) := monoScan_false_iff inv _

/-- `Circuit.is_monotone` = `TruthTable.is_monotone` = every output monotone -/
theorem isMonotone_agree (F : FRep) (inv : Bool) : F.isMonotoneC inv = F.isMonotoneT inv := by
  unfold isMonotoneC isMonotoneT
  congr 1; funext o; exact isMonotoneAt_agree F o inv

theorem isMonotoneT_iff (F : FRep) (inv : Bool) :
    F.isMonotoneT inv = true ↔ ∀ o, o < F.m → SortedRow inv (F.row o) := by
  unfold isMonotoneT
  rw [List.all_eq_true]
  constructor
  · intro h o ho; exact (isMonotoneAt_iff F o inv).mp (h o (List.mem_range.mpr ho))
  · intro h o ho; exact (isMonotoneAt_iff F o inv).mpr (h o (List.mem_range.mp ho))

end Cirbo
