import Cirbo.Model.Mutate2
import Cirbo.Proofs.Graph
/-!
# Structural well-formedness is an invariant of the public mutators (C02)
-/
namespace Cirbo
open GateType Circuit

/-- the C02 invariant: every clause of the property statement (arity is *not* part of it:
`add_gate` accepts any operand count) -/
structure WFS (c : Circuit) : Prop where
  nodup : c.labels.Nodup
  closed : ∀ g ∈ c.gates, ∀ o ∈ g.ops, o ∈ c.labels
  rank : ∃ r : Label → Nat, ∀ g ∈ c.gates, ∀ o ∈ g.ops, r o < r g.label
  inputsNodup : c.inputs.Nodup
  inputsOK : ∀ l, l ∈ c.inputs ↔ ∃ g ∈ c.gates, g.label = l ∧ g.ty = INPUT
  outputsOK : ∀ o ∈ c.outputs, o ∈ c.labels
  usersL : ∀ l s, s ∈ c.usersOf l → s ∈ c.labels
  usersC : ∀ l, ∀ g ∈ c.gates, (c.usersOf l).count g.label = g.ops.count l
  blocksOK : ∀ b ∈ c.blocks, (∀ l ∈ b.gates, l ∈ c.labels) ∧ (∀ l ∈ b.inputs, l ∈ c.labels)
  inputOps : ∀ g ∈ c.gates, g.ty = INPUT → g.ops = []

theorem WFS.ofWFU {c : Circuit} (h : WFU c) (hb : ∀ b ∈ c.blocks, (∀ l ∈ b.gates, l ∈ c.labels) ∧ (∀ l ∈ b.inputs, l ∈ c.labels)) :
    WFS c := ⟨h.nodup, h.closed, h.rank, h.inputsNodup, h.inputsOK, h.outputsOK, h.usersL, h.usersC, hb,
      fun g hg ht => by have := h.arity g hg; simpa [ht] using this⟩

/-! ### users index as a function -/

theorem lookup_eq_get? (d : Dict (List Label)) (l : Label) : List.lookup l d = Dict.get? d l := by
  induction d with
  | nil => rfl
  | cons p r ih =>
    obtain ⟨a, b⟩ := p
    simp only [List.lookup_cons, Dict.get?]
    by_cases h : l = a
    · subst h; simp
    · have : (l == a) = false := by simp [h]
      simp [this, h, ih]

theorem usersOf_eq (c : Circuit) (l : Label) : c.usersOf l = (Dict.get? c.users l).getD [] := by
  unfold usersOf; rw [lookup_eq_get?]

theorem usersOf_addUser (c : Circuit) (x u l : Label) :
    (c.addUser x u).usersOf l = if l = x then c.usersOf l ++ [u] else c.usersOf l := by
  rw [usersOf_eq, usersOf_eq]
  unfold addUser
  cases h : Dict.get? c.users x with
  | none =>
    simp only [Dict.get?_set]
    by_cases hl : l = x
    · subst hl; simp [h]
    · simp [hl]
  | some us =>
    simp only [Dict.get?_set]
    by_cases hl : l = x
    · subst hl; simp [h]
    · simp [hl]

theorem usersOf_foldl_addUser (ops : List Label) (c : Circuit) (u l : Label) :
    (ops.foldl (fun c o => c.addUser o u) c).usersOf l = c.usersOf l ++ List.replicate (ops.count l) u := by
  induction ops generalizing c with
  | nil => simp
  | cons o r ih =>
    simp only [List.foldl_cons, ih, usersOf_addUser, List.count_cons]
    by_cases h : l = o
    · subst h; simp [List.replicate_succ']
      rw [← List.replicate_succ, List.replicate_succ']
    · have : (o == l) = false := by simp [Ne.symm h]
      simp [h, this]

theorem hasGate_iff' (c : Circuit) (l : Label) : c.hasGate l = true ↔ l ∈ c.labels := by
  unfold hasGate labels
  simp only [List.any_eq_true, beq_iff_eq, List.mem_map]

theorem foldl_addUser_fields (ops : List Label) (c : Circuit) (u : Label) :
    let c' := ops.foldl (fun c o => c.addUser o u) c
    c'.gates = c.gates ∧ c'.inputs = c.inputs ∧ c'.outputs = c.outputs ∧ c'.blocks = c.blocks := by
  induction ops generalizing c with
  | nil => simp
  | cons o r ih =>
    simp only [List.foldl_cons]
    obtain ⟨a, b, d, e⟩ := ih (c.addUser o u)
    have h1 : (c.addUser o u).gates = c.gates ∧ (c.addUser o u).inputs = c.inputs ∧
        (c.addUser o u).outputs = c.outputs ∧ (c.addUser o u).blocks = c.blocks := by
      unfold addUser; split <;> simp
    exact ⟨a.trans h1.1, b.trans h1.2.1, d.trans h1.2.2.1, e.trans h1.2.2.2⟩

/-- everything `add_gate` / `emplace_gate` does, on success -/
theorem addGate_fields {c c' : Circuit} {g : Gate} (h : c.addGate g = .ok c') :
    g.label ∉ c.labels ∧ (∀ o ∈ g.ops, o ∈ c.labels) ∧
    c'.gates = c.gates ++ [g] ∧
    c'.inputs = (if g.ty = INPUT then c.inputs ++ [g.label] else c.inputs) ∧
    c'.outputs = c.outputs ∧ c'.blocks = c.blocks ∧
    (∀ l, c'.usersOf l = c.usersOf l ++ List.replicate (g.ops.count l) g.label) := by
  unfold addGate at h
  split at h
  · cases h
  · rename_i hfresh
    split at h
    · cases h
    · rename_i hex
      simp only [Except.ok.injEq] at h
      subst h
      have hfr : c.hasGate g.label = false := by simpa using hfresh
      have hops : ∀ o ∈ g.ops, c.hasGate o = true := by
        unfold checkGatesExist at hex
        split at hex
        · rename_i hall; exact List.all_eq_true.mp hall
        · cases hex
      obtain ⟨a, b, d, e⟩ := foldl_addUser_fields g.ops c g.label
      have hh : (List.foldl (fun c o => c.addUser o g.label) c g.ops).hasGate g.label = false := by
        unfold hasGate at hfr ⊢; rw [a]; exact hfr
      refine ⟨?_, fun o ho => (hasGate_iff' c o).mp (hops o ho), ?_, ?_, ?_, ?_, ?_⟩
      · intro hm; rw [← hasGate_iff', hfr] at hm; cases hm
      · unfold rawAddGate; simp [hh, a]
      · unfold rawAddGate; by_cases ht : g.ty = INPUT <;> simp [ht, b]
      · unfold rawAddGate; simp [d]
      · unfold rawAddGate; simp [e]
      · intro l
        have : (rawAddGate c g).usersOf l = (List.foldl (fun c o => c.addUser o g.label) c g.ops).usersOf l := by
          unfold rawAddGate usersOf; rfl
        rw [this, usersOf_foldl_addUser]

theorem labels_append (gs : List Gate) (g : Gate) : (gs ++ [g]).map (·.label) = gs.map (·.label) ++ [g.label] := by
  simp

/-- the invariant is kept by any step with the field-level effect of `add_gate` -/
theorem wfs_of_addFields {c c' : Circuit} {g : Gate} (hw : WFS c) (hgi : g.ty = INPUT → g.ops = [])
    (hf : g.label ∉ c.labels ∧ (∀ o ∈ g.ops, o ∈ c.labels) ∧
      c'.gates = c.gates ++ [g] ∧
      c'.inputs = (if g.ty = INPUT then c.inputs ++ [g.label] else c.inputs) ∧
      c'.outputs = c.outputs ∧ c'.blocks = c.blocks ∧
      (∀ l, c'.usersOf l = c.usersOf l ++ List.replicate (g.ops.count l) g.label)) : WFS c' := by
  obtain ⟨hfresh, hops, hg, hi, ho, hb, hu⟩ := hf
  have hlab : c'.labels = c.labels ++ [g.label] := by unfold labels; rw [hg]; simp
  have hmem : ∀ x, x ∈ c'.gates ↔ x ∈ c.gates ∨ x = g := by intro x; rw [hg]; simp
  refine ⟨?_, ?_, ?_, ?_, ?_, ?_, ?_, ?_, ?_, ?_⟩
  · rw [hlab, List.nodup_append]
    exact ⟨hw.nodup, by simp, by intro a ha b hb'; simp at hb'; subst hb'; exact fun e => hfresh (e ▸ ha)⟩
  · intro x hx o ho'
    rw [hlab]
    rcases (hmem x).mp hx with hx | rfl
    · simp [hw.closed x hx o ho']
    · simp [hops o ho']
  · obtain ⟨r, hr⟩ := hw.rank
    refine ⟨fun l => if l = g.label then (c.labels.map r).sum + 1 else r l, ?_⟩
    intro x hx o ho'
    rcases (hmem x).mp hx with hx | rfl
    · have h1 : x.label ≠ g.label := fun e => hfresh (e ▸ mem_labels_of_mem hx)
      have h2 : o ≠ g.label := fun e => hfresh (e ▸ hw.closed x hx o ho')
      simp [h1, h2, hr x hx o ho']
    · have h2 : o ≠ x.label := fun e => hfresh (e ▸ hops o ho')
      simp only [h2, if_false, if_true]
      have := le_sum_of_mem r c.labels o (hops o ho')
      omega
  · rw [hi]
    by_cases ht : g.ty = INPUT
    · simp only [ht, if_true]
      rw [List.nodup_append]
      refine ⟨hw.inputsNodup, by simp, ?_⟩
      intro a ha b hb'; simp at hb'; subst hb'
      intro e
      obtain ⟨x, hx, hxl, _⟩ := (hw.inputsOK a).mp ha
      exact hfresh (e ▸ hxl ▸ mem_labels_of_mem hx)
    · simp only [ht, if_false]; exact hw.inputsNodup
  · intro l
    rw [hi]
    constructor
    · intro hl
      by_cases ht : g.ty = INPUT
      · simp only [ht, if_true, List.mem_append, List.mem_singleton] at hl
        rcases hl with hl | rfl
        · obtain ⟨x, hx, e1, e2⟩ := (hw.inputsOK l).mp hl
          exact ⟨x, (hmem x).mpr (Or.inl hx), e1, e2⟩
        · exact ⟨g, (hmem g).mpr (Or.inr rfl), rfl, ht⟩
      · simp only [ht, if_false] at hl
        obtain ⟨x, hx, e1, e2⟩ := (hw.inputsOK l).mp hl
        exact ⟨x, (hmem x).mpr (Or.inl hx), e1, e2⟩
    · rintro ⟨x, hx, e1, e2⟩
      rcases (hmem x).mp hx with hx | rfl
      · have := (hw.inputsOK l).mpr ⟨x, hx, e1, e2⟩
        by_cases ht : g.ty = INPUT <;> simp [ht, this]
      · simp [e2, ← e1]
  · intro o ho'; rw [ho] at ho'; rw [hlab]; simp [hw.outputsOK o ho']
  · intro l s hs
    rw [hu, List.mem_append] at hs
    rw [hlab]
    rcases hs with hs | hs
    · simp [hw.usersL l s hs]
    · simp [(List.mem_replicate.mp hs).2]
  · intro l x hx
    rw [hu, List.count_append, List.count_replicate]
    rcases (hmem x).mp hx with hx | rfl
    · have h1 : x.label ≠ g.label := fun e => hfresh (e ▸ mem_labels_of_mem hx)
      have : (g.label == x.label) = false := by simp [Ne.symm h1]
      simp [hw.usersC l x hx, this]
    · have : (c.usersOf l).count x.label = 0 := by
        apply List.count_eq_zero.mpr
        intro hm; exact hfresh (hw.usersL l _ hm)
      simp [this]
  · intro b hb'
    rw [hb] at hb'
    obtain ⟨b1, b2⟩ := hw.blocksOK b hb'
    rw [hlab]
    exact ⟨fun l hl => by simp [b1 l hl], fun l hl => by simp [b2 l hl]⟩
  · intro x hx ht
    rcases (hmem x).mp hx with hx | rfl
    · exact hw.inputOps x hx ht
    · exact hgi ht


/-- **`add_gate` / `emplace_gate` keep the invariant** -/
theorem addGate_wfs {c c' : Circuit} {g : Gate} (hw : WFS c) (hgi : g.ty = INPUT → g.ops = [])
    (h : c.addGate g = .ok c') : WFS c' := wfs_of_addFields hw hgi (addGate_fields h)

/-! ### interface setters -/

theorem markAsOutput_wfs {c c' : Circuit} {l : Label} (hw : WFS c) (h : c.markAsOutput l = .ok c') : WFS c' := by
  unfold markAsOutput at h
  split at h
  · rename_i hg
    simp only [Except.ok.injEq] at h; subst h
    exact ⟨hw.nodup, hw.closed, hw.rank, hw.inputsNodup, hw.inputsOK,
      by intro o ho; simp only [List.mem_append, List.mem_singleton] at ho
         rcases ho with ho | rfl
         · exact hw.outputsOK o ho
         · exact (hasGate_iff' c _).mp hg,
      hw.usersL, hw.usersC, hw.blocksOK, hw.inputOps⟩
  · cases h

theorem checkGatesExist_ok {c : Circuit} {ls : List Label} (h : c.checkGatesExist ls = .ok ()) :
    ∀ l ∈ ls, l ∈ c.labels := by
  unfold checkGatesExist at h
  split at h
  · rename_i hall; intro l hl; exact (hasGate_iff' c l).mp (List.all_eq_true.mp hall l hl)
  · cases h

theorem setOutputs_wfs {c c' : Circuit} {outs : List Label} (hw : WFS c) (h : c.setOutputs outs = .ok c') : WFS c' := by
  unfold setOutputs at h
  cases hc : c.checkGatesExist outs with
  | error e => simp [hc] at h
  | ok u =>
    simp only [hc, Except.ok.injEq] at h; subst h
    exact ⟨hw.nodup, hw.closed, hw.rank, hw.inputsNodup, hw.inputsOK, checkGatesExist_ok hc,
      hw.usersL, hw.usersC, hw.blocksOK, hw.inputOps⟩

theorem setInputs_go_spec (c : Circuit) : ∀ (ins acc new : List Label), setInputs.go c ins acc = .ok new →
    new = acc ++ ins ∧ (acc.Nodup → new.Nodup) ∧
    ∀ i ∈ ins, ∃ g, c.find? i = some g ∧ g.ty = INPUT := by
  intro ins
  induction ins with
  | nil => intro acc new h; simp [setInputs.go] at h; subst h; simp
  | cons i r ih =>
    intro acc new h
    unfold setInputs.go at h
    cases hf : c.find? i with
    | none => simp [hf] at h
    | some g =>
      simp only [hf] at h
      split at h
      · cases h
      · rename_i hcond
        simp only [Bool.or_eq_true, not_or, Bool.not_eq_true] at hcond
        obtain ⟨e1, e2, e3⟩ := ih (acc ++ [i]) new h
        refine ⟨by simp [e1], ?_, ?_⟩
        · intro hacc
          apply e2
          rw [List.nodup_append]
          refine ⟨hacc, by simp, ?_⟩
          intro a ha b hb; simp at hb; subst hb; intro e; subst e
          have := hcond.2; simp at this; exact this ha
        · intro x hx
          simp only [List.mem_cons] at hx
          rcases hx with rfl | hx
          · exact ⟨g, hf, by simpa using hcond.1⟩
          · exact e3 x hx

theorem setInputs_wfs {c c' : Circuit} {ins : List Label} (hw : WFS c) (h : c.setInputs ins = .ok c') : WFS c' := by
  unfold setInputs at h
  cases hc : c.checkGatesExist ins with
  | error e => simp [hc] at h
  | ok u =>
    simp only [hc] at h
    split at h
    · cases h
    · rename_i hall
      cases hg : setInputs.go c ins [] with
      | error e => simp [hg] at h
      | ok new =>
        simp only [hg, Except.ok.injEq] at h; subst h
        obtain ⟨e1, e2, e3⟩ := setInputs_go_spec c ins [] new hg
        simp only [List.nil_append] at e1
        subst e1
        refine ⟨hw.nodup, hw.closed, hw.rank, e2 (by simp), ?_, hw.outputsOK, hw.usersL, hw.usersC,
          hw.blocksOK, hw.inputOps⟩
        intro l
        constructor
        · intro hl
          obtain ⟨g, hf, ht⟩ := e3 l hl
          obtain ⟨hgm, hgl⟩ := find_some_mem hf
          exact ⟨g, hgm, hgl, ht⟩
        · rintro ⟨g, hgm, hgl, ht⟩
          have hn : ¬ (c.gates.any (fun g => g.ty == INPUT && !new.contains g.label) = true) := hall
          rw [List.any_eq_true] at hn
          by_cases hin : l ∈ new
          · exact hin
          · exfalso; apply hn
            exact ⟨g, hgm, by simp [ht, hgl, hin]⟩

theorem makeBlock_wfs {c c' : Circuit} {name : Label} {gs outs : List Label} {ins : Option (List Label)}
    (hw : WFS c) (h : c.makeBlock name gs outs ins = .ok c') : WFS c' := by
  unfold makeBlock at h
  split at h
  · cases h
  · cases hg : c.checkGatesExist gs with
    | error e => simp [hg] at h
    | ok u =>
      simp only [hg] at h
      cases ho : c.checkGatesExist outs with
      | error e => simp [ho] at h
      | ok u2 =>
        simp only [ho] at h
        have hgL := checkGatesExist_ok hg
        cases ins with
        | some is =>
          simp only at h
          cases hi : c.checkGatesExist is with
          | error e => simp [hi] at h
          | ok u3 =>
            simp only [hi, Except.ok.injEq] at h; subst h
            refine ⟨hw.nodup, hw.closed, hw.rank, hw.inputsNodup, hw.inputsOK, hw.outputsOK, hw.usersL,
              hw.usersC, ?_, hw.inputOps⟩
            intro b hb
            simp only [List.mem_append, List.mem_singleton] at hb
            rcases hb with hb | rfl
            · exact hw.blocksOK b hb
            · exact ⟨hgL, checkGatesExist_ok hi⟩
        | none =>
          simp only [Except.ok.injEq] at h; subst h
          refine ⟨hw.nodup, hw.closed, hw.rank, hw.inputsNodup, hw.inputsOK, hw.outputsOK, hw.usersL,
            hw.usersC, ?_, hw.inputOps⟩
          intro b hb
          simp only [List.mem_append, List.mem_singleton] at hb
          rcases hb with hb | rfl
          · exact hw.blocksOK b hb
          · refine ⟨hgL, ?_⟩
            intro l hl
            simp only [List.mem_flatMap, List.mem_filter] at hl
            obtain ⟨x, hx, hl', _⟩ := hl
            cases hf : c.find? x with
            | none => simp [hf] at hl'
            | some g =>
              simp only [hf, Option.map_some, Option.getD_some] at hl'
              obtain ⟨hgm, _⟩ := find_some_mem hf
              exact hw.closed g hgm l hl'

theorem deleteBlock_wfs {c c' : Circuit} {name : Label} (hw : WFS c) (h : c.deleteBlock name = .ok c') : WFS c' := by
  unfold deleteBlock at h
  split at h
  · simp only [Except.ok.injEq] at h; subst h
    exact ⟨hw.nodup, hw.closed, hw.rank, hw.inputsNodup, hw.inputsOK, hw.outputsOK, hw.usersL, hw.usersC,
      fun b hb => hw.blocksOK b (List.mem_filter.mp hb).1, hw.inputOps⟩
  · cases h

/-! ### ordering -/

theorem orderList_go_perm : ∀ (ordered new oldc : List Label) (new' oldc' : List Label),
    orderList.go ordered new oldc = .ok (new', oldc') → (new' ++ oldc').Perm (new ++ oldc) := by
  intro ordered
  induction ordered with
  | nil => intro new oldc new' oldc' h; simp [orderList.go] at h; obtain ⟨rfl, rfl⟩ := h; exact List.Perm.refl _
  | cons e r ih =>
    intro new oldc new' oldc' h
    unfold orderList.go at h
    split at h
    · rename_i hc
      have := ih _ _ _ _ h
      refine this.trans ?_
      have hmem : e ∈ oldc := by simpa using hc
      have hp : (e :: oldc.erase e).Perm oldc := (List.perm_cons_erase hmem).symm
      calc (new ++ [e] ++ oldc.erase e).Perm (new ++ (e :: oldc.erase e)) := by simp
        _ |>.Perm (new ++ oldc) := List.Perm.append_left new hp
    · cases h

theorem orderList_perm {ordered old l : List Label} (h : orderList ordered old = .ok l) : l.Perm old := by
  unfold orderList at h
  cases hg : orderList.go ordered [] old with
  | error e => simp [hg] at h
  | ok p =>
    obtain ⟨new, oldc⟩ := p
    simp only [hg] at h
    have hp := orderList_go_perm ordered [] old new oldc hg
    simp only [List.nil_append] at hp
    split at h
    · rename_i hlen
      simp only [Except.ok.injEq] at h; subst h
      have hl : new.length = old.length := by simpa using hlen
      have : (new ++ oldc).length = old.length := hp.length_eq
      have : oldc = [] := by
        have : oldc.length = 0 := by simp at this; omega
        exact List.length_eq_zero_iff.mp this
      subst this; simpa using hp
    · simp only [Except.ok.injEq] at h; subst h; exact hp

theorem orderInputs_wfs {c c' : Circuit} {ins : List Label} (hw : WFS c) (h : c.orderInputs ins = .ok c') : WFS c' := by
  unfold orderInputs at h
  cases ho : orderList ins c.inputs with
  | error e => simp [ho] at h
  | ok l =>
    simp only [ho, Except.ok.injEq] at h; subst h
    have hp := orderList_perm ho
    exact ⟨hw.nodup, hw.closed, hw.rank, hp.nodup_iff.mpr hw.inputsNodup,
      fun x => (hp.mem_iff).trans (hw.inputsOK x), hw.outputsOK, hw.usersL, hw.usersC, hw.blocksOK, hw.inputOps⟩

theorem orderOutputs_wfs {c c' : Circuit} {outs : List Label} (hw : WFS c) (h : c.orderOutputs outs = .ok c') : WFS c' := by
  unfold orderOutputs at h
  cases ho : orderList outs c.outputs with
  | error e => simp [ho] at h
  | ok l =>
    simp only [ho, Except.ok.injEq] at h; subst h
    have hp := orderList_perm ho
    exact ⟨hw.nodup, hw.closed, hw.rank, hw.inputsNodup, hw.inputsOK,
      fun o ho' => hw.outputsOK o (hp.mem_iff.mp ho'), hw.usersL, hw.usersC, hw.blocksOK, hw.inputOps⟩

theorem addInputs_wfs : ∀ (ls : List Label) {c c' : Circuit}, WFS c → c.addInputs ls = .ok c' → WFS c' := by
  intro ls
  induction ls with
  | nil => intro c c' hw h; simp [addInputs] at h; subst h; exact hw
  | cons i r ih =>
    intro c c' hw h
    unfold addInputs at h
    cases ha : c.addGate ⟨i, INPUT, []⟩ with
    | error e => simp [ha] at h
    | ok c1 =>
      simp only [ha] at h
      exact ih (addGate_wfs hw (fun _ => rfl) ha) h

/-! ### replace_inputs -/

def constStep (ty : GateType) (acc : R Circuit) (l : Label) : R Circuit :=
  match acc with
  | .error e => .error e
  | .ok c => match c.find? l with
    | none => .error "GateDoesntExistError"
    | some g => if g.ty != INPUT then .error "GateNotInputError"
      else if !c.inputs.contains l then .error "Py:ValueError"
      else .ok { c with gates := c.gates.map (fun x => if x.label == l then ⟨l, ty, []⟩ else x),
                        inputs := c.inputs.erase l }

theorem replaceInputs_eq (c : Circuit) (t f : List Label) :
    c.replaceInputs t f = f.foldl (constStep ALWAYS_FALSE) (t.foldl (constStep ALWAYS_TRUE) (.ok c)) := rfl

theorem constStep_wfs {ty : GateType} (hty : ty ≠ INPUT) {c c' : Circuit} {l : Label} (hw : WFS c)
    (h : constStep ty (.ok c) l = .ok c') : WFS c' := by
  unfold constStep at h
  simp only at h
  cases hf : c.find? l with
  | none => simp [hf] at h
  | some g =>
    simp only [hf] at h
    split at h
    · cases h
    · rename_i hgt
      split at h
      · cases h
      · rename_i hin
        simp only [Except.ok.injEq] at h; subst h
        have hgI : g.ty = INPUT := by simpa using hgt
        obtain ⟨hgm, hgl⟩ := find_some_mem hf
        have hlin : l ∈ c.inputs := by simpa using hin
        have hlab : (c.gates.map (fun x => if x.label == l then (⟨l, ty, []⟩ : Gate) else x)).map (·.label)
            = c.gates.map (·.label) := by
          rw [List.map_map]; apply List.map_congr_left
          intro x _; simp only [Function.comp]
          by_cases e : (x.label == l) = true
          · simp only [e, if_true]; exact (by simpa using e : x.label = l).symm
          · simp [e]
        have hmem : ∀ y, y ∈ c.gates.map (fun x => if x.label == l then (⟨l, ty, []⟩ : Gate) else x) →
            (y ∈ c.gates ∧ y.label ≠ l) ∨ y = ⟨l, ty, []⟩ := by
          intro y hy
          obtain ⟨x, hx, rfl⟩ := List.mem_map.mp hy
          by_cases e : (x.label == l) = true
          · right; simp [e]
          · left; simp only [e, Bool.false_eq_true, if_false]; exact ⟨hx, by simpa using e⟩
        refine ⟨by unfold labels; simp only; rw [hlab]; exact hw.nodup, ?_, ?_, hw.inputsNodup.erase _, ?_,
          by intro o ho; unfold labels; simp only; rw [hlab]; exact hw.outputsOK o ho,
          by intro x s hs; unfold labels; simp only; rw [hlab]; exact hw.usersL x s hs, ?_,
          by intro b hb; unfold labels; simp only; rw [hlab]; exact hw.blocksOK b hb, ?_⟩
        · intro y hy o ho
          unfold labels; simp only; rw [hlab]
          rcases hmem y hy with ⟨hy', _⟩ | rfl
          · exact hw.closed y hy' o ho
          · cases ho
        · obtain ⟨r, hr⟩ := hw.rank
          refine ⟨r, ?_⟩
          intro y hy o ho
          rcases hmem y hy with ⟨hy', _⟩ | rfl
          · exact hr y hy' o ho
          · cases ho
        · intro x
          rw [List.Nodup.mem_erase_iff hw.inputsNodup]
          constructor
          · rintro ⟨hne, hx⟩
            obtain ⟨y, hy, hyl, hyt⟩ := (hw.inputsOK x).mp hx
            refine ⟨y, ?_, hyl, hyt⟩
            apply List.mem_map.mpr
            refine ⟨y, hy, ?_⟩
            have : (y.label == l) = false := by rw [hyl]; simpa using hne
            simp [this]
          · rintro ⟨y, hy, hyl, hyt⟩
            rcases hmem y hy with ⟨hy', hne⟩ | rfl
            · exact ⟨by rw [← hyl]; exact hne, (hw.inputsOK x).mpr ⟨y, hy', hyl, hyt⟩⟩
            · exact absurd hyt hty
        · intro x y hy
          show (usersOf c x).count y.label = _
          rcases hmem y hy with ⟨hy', _⟩ | rfl
          · exact hw.usersC x y hy'
          · have := hw.usersC x g hgm
            rw [hw.inputOps g hgm hgI, hgl] at this
            simpa using this
        · intro y hy hyt
          rcases hmem y hy with ⟨hy', _⟩ | rfl
          · exact hw.inputOps y hy' hyt
          · rfl

theorem constStep_error (ty : GateType) (e : String) (l : Label) : constStep ty (.error e) l = .error e := rfl

theorem foldl_constStep_wfs {ty : GateType} (hty : ty ≠ INPUT) : ∀ (ls : List Label) {c c' : Circuit},
    WFS c → ls.foldl (constStep ty) (.ok c) = .ok c' → WFS c' := by
  intro ls
  induction ls with
  | nil => intro c c' hw h; simp at h; subst h; exact hw
  | cons l r ih =>
    intro c c' hw h
    simp only [List.foldl_cons] at h
    cases hs : constStep ty (.ok c) l with
    | error e =>
      rw [hs] at h
      have : ∀ (xs : List Label), xs.foldl (constStep ty) (.error e) = .error e := by
        intro xs; induction xs with
        | nil => rfl
        | cons a t ih2 => simpa [constStep_error] using ih2
      rw [this] at h; cases h
    | ok c1 => rw [hs] at h; exact ih (constStep_wfs hty hw hs) h

theorem replaceInputs_wfs {c c' : Circuit} {t f : List Label} (hw : WFS c)
    (h : c.replaceInputs t f = .ok c') : WFS c' := by
  rw [replaceInputs_eq] at h
  cases h1 : t.foldl (constStep ALWAYS_TRUE) (.ok c) with
  | error e =>
    rw [h1] at h
    have : ∀ (xs : List Label), xs.foldl (constStep ALWAYS_FALSE) (.error e) = .error e := by
      intro xs; induction xs with
      | nil => rfl
      | cons a t ih2 => simpa [constStep_error] using ih2
    rw [this] at h; cases h
  | ok c1 =>
    rw [h1] at h
    exact foldl_constStep_wfs (by decide) f (foldl_constStep_wfs (by decide) t hw h1) h

/-! ### histories -/

/-- the public mutator calls covered by the invariant theorem -/
inductive MOp
  | addGate (g : Gate)
  | markAsOutput (l : Label)
  | setOutputs (outs : List Label)
  | setInputs (ins : List Label)
  | addInputs (ls : List Label)
  | orderInputs (ins : List Label)
  | orderOutputs (outs : List Label)
  | replaceInputs (t f : List Label)
  | makeBlock (name : Label) (gs outs : List Label) (ins : Option (List Label))
  | deleteBlock (name : Label)

/-- "valid arguments": an INPUT gate is added without operands -/
def MOp.valid : MOp → Prop
  | .addGate g => g.ty = INPUT → g.ops = []
  | _ => True

def runOp (c : Circuit) : MOp → R Circuit
  | .addGate g => c.addGate g
  | .markAsOutput l => c.markAsOutput l
  | .setOutputs o => c.setOutputs o
  | .setInputs i => c.setInputs i
  | .addInputs ls => c.addInputs ls
  | .orderInputs i => c.orderInputs i
  | .orderOutputs o => c.orderOutputs o
  | .replaceInputs t f => c.replaceInputs t f
  | .makeBlock n g o i => c.makeBlock n g o i
  | .deleteBlock n => c.deleteBlock n

/-- a history: every call returns normally -/
def runOps : Circuit → List MOp → R Circuit
  | c, [] => .ok c
  | c, op :: rest => match runOp c op with
    | .error e => .error e
    | .ok c' => runOps c' rest

theorem runOp_wfs {c c' : Circuit} {op : MOp} (hw : WFS c) (hv : op.valid) (h : runOp c op = .ok c') : WFS c' := by
  cases op with
  | addGate g => exact addGate_wfs hw hv h
  | markAsOutput l => exact markAsOutput_wfs hw h
  | setOutputs o => exact setOutputs_wfs hw h
  | setInputs i => exact setInputs_wfs hw h
  | addInputs ls => exact addInputs_wfs ls hw h
  | orderInputs i => exact orderInputs_wfs hw h
  | orderOutputs o => exact orderOutputs_wfs hw h
  | replaceInputs t f => exact replaceInputs_wfs hw h
  | makeBlock n g o i => exact makeBlock_wfs hw h
  | deleteBlock n => exact deleteBlock_wfs hw h

theorem runOps_wfs : ∀ (ops : List MOp) {c c' : Circuit}, WFS c → (∀ op ∈ ops, op.valid) →
    runOps c ops = .ok c' → WFS c' := by
  intro ops
  induction ops with
  | nil => intro c c' hw _ h; simp [runOps] at h; subst h; exact hw
  | cons op rest ih =>
    intro c c' hw hv h
    unfold runOps at h
    cases h1 : runOp c op with
    | error e => simp [h1] at h
    | ok c1 =>
      simp only [h1] at h
      exact ih (runOp_wfs hw (hv op (by simp)) h1) (fun o ho => hv o (by simp [ho])) h

theorem wfs_empty : WFS Circuit.empty := by
  have hg : ∀ g, g ∉ Circuit.empty.gates := by intro g hg; cases hg
  refine ⟨by simp [Circuit.empty, labels], fun g h => absurd h (hg g),
    ⟨fun _ => 0, fun g h => absurd h (hg g)⟩, by simp [Circuit.empty], ?_,
    fun o ho => (by cases ho), ?_, fun l g h => absurd h (hg g), fun b hb => (by cases hb),
    fun g h => absurd h (hg g)⟩
  · intro l; simp [Circuit.empty]
  · intro l s hs; simp [Circuit.empty, usersOf, List.lookup] at hs

theorem WFS.toWFG {c : Circuit} (h : WFS c) : WFG c := ⟨h.nodup, h.closed, h.rank, h.usersL, h.usersC⟩

end Cirbo
