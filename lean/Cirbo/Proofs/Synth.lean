import Cirbo.Model.Synth
/-!
# The exact-synthesis encoding is sound and complete
-/
namespace Cirbo
namespace Synth

def satLit (σ : SVar → Bool) (l : Lit) : Prop := σ l.1 = l.2
def satClause (σ : SVar → Bool) (c : Clause) : Prop := ∃ l ∈ c, satLit σ l
def sat (σ : SVar → Bool) (F : List Clause) : Prop := ∀ c ∈ F, satClause σ c

theorem sat_append {σ} {A B : List Clause} : sat σ (A ++ B) ↔ sat σ A ∧ sat σ B := by
  simp only [sat, List.mem_append]
  constructor
  · intro h; exact ⟨fun c hc => h c (Or.inl hc), fun c hc => h c (Or.inr hc)⟩
  · rintro ⟨h1, h2⟩ c (hc | hc)
    · exact h1 c hc
    · exact h2 c hc

theorem sat_flatMap {α} {σ} {l : List α} {f : α → List Clause} : sat σ (l.flatMap f) ↔ ∀ x ∈ l, sat σ (f x) := by
  simp only [sat, List.mem_flatMap]
  constructor
  · intro h x hx c hc; exact h c ⟨x, hx, hc⟩
  · rintro h c ⟨x, hx, hc⟩; exact h x hx c hc

theorem sat_map {α} {σ} {l : List α} {f : α → Clause} : sat σ (l.map f) ↔ ∀ x ∈ l, satClause σ (f x) := by
  simp only [sat, List.mem_map]
  constructor
  · intro h x hx; exact h _ ⟨x, hx, rfl⟩
  · rintro h c ⟨x, hx, rfl⟩; exact h x hx

/-! ## `pairs` -/

theorem mem_pairs {g a b : Nat} : (a, b) ∈ pairs g ↔ a < b ∧ b < g := by
  simp only [pairs, List.mem_flatMap, List.mem_range, List.mem_map, List.mem_filter, decide_eq_true_eq, Prod.mk.injEq]
  constructor
  · rintro ⟨a', ha', b', ⟨hb', hlt⟩, rfl, rfl⟩; exact ⟨hlt, hb'⟩
  · rintro ⟨h1, h2⟩; exact ⟨a, by omega, b, ⟨h2, h1⟩, rfl, rfl⟩

theorem mem_internal {sp : Spec} {g : Nat} : g ∈ internal sp ↔ sp.n ≤ g ∧ g < sp.n + sp.N := by
  simp only [internal, List.mem_map, List.mem_range]
  constructor
  · rintro ⟨k, hk, rfl⟩; omega
  · rintro ⟨h1, h2⟩; exact ⟨g - sp.n, by omega, by omega⟩

/-! ## exactly-one -/

theorem exactlyOne_sound {σ} {vs : List SVar} (h : sat σ (exactlyOne vs)) :
    ∃ v ∈ vs, σ v = true ∧ ∀ w ∈ vs, σ w = true → w = v := by
  have hpos := h _ (List.mem_cons_self)
  obtain ⟨l, hl, hs⟩ := hpos
  obtain ⟨v, hv, rfl⟩ := List.mem_map.mp hl
  refine ⟨v, hv, hs, ?_⟩
  intro w hw hσw
  apply Classical.byContradiction
  intro hne
  -- v and w sit at two different positions; the clause for that pair is violated
  obtain ⟨i, hi, hiv⟩ := List.getElem_of_mem hv
  obtain ⟨j, hj, hjw⟩ := List.getElem_of_mem hw
  have hij : i ≠ j := by intro e; subst e; rw [hiv] at hjw; exact hne hjw.symm
  have key : ∀ (i j : Nat) (hi : i < vs.length) (hj : j < vs.length), i < j → σ vs[i] = true → σ vs[j] = true → False := by
    intro i j hi hj hlt h1 h2
    have hc : [(vs[i], false), (vs[j], false)] ∈ exactlyOne vs := by
      apply List.mem_cons_of_mem
      rw [List.mem_flatMap]
      refine ⟨(vs[i], i), ?_, ?_⟩
      · rw [List.mem_zipIdx_iff_getElem?]; simp [List.getElem?_eq_getElem hi]
      · rw [List.mem_map]
        refine ⟨vs[j], ?_, rfl⟩
        rw [List.mem_iff_getElem]
        refine ⟨j - (i + 1), by simp; omega, ?_⟩
        simp only [List.getElem_drop]
        congr 1; omega
    obtain ⟨l, hl, hs⟩ := h _ hc
    simp only [List.mem_cons, List.mem_nil_iff, or_false] at hl
    rcases hl with rfl | rfl
    · simp only [satLit] at hs; rw [h1] at hs; cases hs
    · simp only [satLit] at hs; rw [h2] at hs; cases hs
  rcases Nat.lt_or_gt_of_ne hij with hlt | hlt
  · exact key i j hi hj hlt (hiv ▸ hs) (hjw ▸ hσw)
  · exact key j i hj hi hlt (hjw ▸ hσw) (hiv ▸ hs)

theorem exactlyOne_complete {σ} {vs : List SVar} (hnd : vs.Nodup) {v : SVar} (hv : v ∈ vs)
    (hσ : ∀ w ∈ vs, σ w = true ↔ w = v) : sat σ (exactlyOne vs) := by
  intro c hc
  rcases List.mem_cons.mp hc with rfl | hc
  · exact ⟨(v, true), List.mem_map.mpr ⟨v, hv, rfl⟩, (hσ v hv).mpr rfl⟩
  · rw [List.mem_flatMap] at hc
    obtain ⟨⟨x, i⟩, hxi, hc⟩ := hc
    rw [List.mem_map] at hc
    obtain ⟨w, hw, rfl⟩ := hc
    rw [List.mem_zipIdx_iff_getElem?] at hxi
    simp only [Nat.zero_add] at hxi
    have hx : x ∈ vs := List.mem_of_getElem? hxi
    have hw' : w ∈ vs := List.mem_of_mem_drop hw
    -- x ≠ w because they sit at different positions of a duplicate-free list
    have hne : x ≠ w := by
      intro e; subst e
      obtain ⟨k, hk, hkw⟩ := List.getElem_of_mem hw
      simp only [List.getElem_drop] at hkw
      have hlen : i + 1 + k < vs.length := by simp at hk; omega
      have h1 : vs[i + 1 + k]? = some x := by rw [List.getElem?_eq_getElem hlen]; exact congrArg some hkw
      have hi : i < vs.length := (List.getElem?_eq_some_iff.mp hxi).1
      have := (List.getElem?_inj hi hnd).mp (hxi.trans h1.symm)
      omega
    by_cases hxv : x = v
    · refine ⟨(w, false), by simp, ?_⟩
      simp only [satLit]
      cases hσw : σ w with
      | false => rfl
      | true => exact absurd ((hσ w hw').mp hσw) (by rw [← hxv]; exact fun e => hne e.symm)
    · refine ⟨(x, false), by simp, ?_⟩
      simp only [satLit]
      cases hσx : σ x with
      | false => rfl
      | true => exact absurd ((hσ x hx).mp hσx) hxv

/-! ## evaluation of a solution -/

theorem evalUpTo_length (sp : Spec) (sol : Sol) (t k : Nat) : (evalUpTo sp sol t k).length = k := by
  induction k with
  | zero => rfl
  | succ k ih => simp [evalUpTo, ih]

theorem evalUpTo_prefix (sp : Spec) (sol : Sol) (t : Nat) : ∀ (k j : Nat), j < k →
    (evalUpTo sp sol t k).getD j false = (evalUpTo sp sol t (j + 1)).getD j false := by
  intro k
  induction k with
  | zero => intro j h; omega
  | succ k ih =>
    intro j hj
    by_cases hjk : j = k
    · subst hjk; rfl
    · have hlt : j < k := by omega
      rw [← ih j hlt]
      simp only [evalUpTo]
      rw [List.getD_eq_getElem?_getD, List.getElem?_append_left (by rw [evalUpTo_length]; exact hlt),
        ← List.getD_eq_getElem?_getD]

theorem eval_eq (sp : Spec) (sol : Sol) (t g : Nat) (ha : (sol.pred g).1 < g) (hb : (sol.pred g).2 < g) :
    eval sp sol t g = if g < sp.n then inputBit sp g t
      else sol.op g (eval sp sol t (sol.pred g).1) (eval sp sol t (sol.pred g).2) := by
  unfold eval
  have e : evalUpTo sp sol t (g + 1) = evalUpTo sp sol t g ++
      [if g < sp.n then inputBit sp g t else sol.op g ((evalUpTo sp sol t g).getD (sol.pred g).1 false)
        ((evalUpTo sp sol t g).getD (sol.pred g).2 false)] := rfl
  rw [e, List.getD_eq_getElem?_getD, List.getElem?_append_right (by rw [evalUpTo_length]; exact Nat.le_refl _)]
  simp only [evalUpTo_length, Nat.sub_self, List.getElem?_cons_zero, Option.getD_some]
  rw [evalUpTo_prefix sp sol t g _ ha, evalUpTo_prefix sp sol t g _ hb]

theorem eval_input (sp : Spec) (sol : Sol) (t g : Nat) (h : g < sp.n) : eval sp sol t g = inputBit sp g t := by
  unfold eval
  simp only [evalUpTo]
  rw [List.getD_eq_getElem?_getD, List.getElem?_append_right (by rw [evalUpTo_length]; exact Nat.le_refl _)]
  simp [evalUpTo_length, h]

/-! ## soundness -/

/-- constraints the code accepts (`fix_gate` / `forbid_wire` argument checks) -/
def WFCon (sp : Spec) : Con → Prop
  | .fixBoth g a b => sp.n ≤ g ∧ g < sp.n + sp.N ∧ a < b ∧ b < g
  | .fixOne g p => sp.n ≤ g ∧ g < sp.n + sp.N ∧ p < g
  | .fixType g _ _ _ _ => sp.n ≤ g ∧ g < sp.n + sp.N
  | .forbidWire src dst => sp.n ≤ dst ∧ dst < sp.n + sp.N ∧ src < dst

theorem filter_unique {α} [DecidableEq α] {l : List α} (hnd : l.Nodup) {p : α → Bool} {x : α} (hx : x ∈ l) (hp : p x = true)
    (hu : ∀ y ∈ l, p y = true → y = x) : l.filter p = [x] := by
  induction l with
  | nil => cases hx
  | cons a r ih =>
    have hnd' := List.nodup_cons.mp hnd
    rcases List.mem_cons.mp hx with rfl | hxr
    · have : r.filter p = [] := by
        rw [List.filter_eq_nil_iff]
        intro y hy hpy
        have := hu y (by simp [hy]) hpy
        subst this; exact hnd'.1 hy
      simp [List.filter, hp, this]
    · have hpa : p a = false := by
        cases h : p a with
        | false => rfl
        | true =>
          have := hu a (by simp) h
          subst this; exact absurd hxr hnd'.1
      simp only [List.filter, hpa]
      exact ih hnd'.2 hxr (fun y hy => hu y (by simp [hy]))

theorem nodup_map_of_inj {α β} (f : α → β) (hf : ∀ a b, f a = f b → a = b) : ∀ (l : List α), l.Nodup → (l.map f).Nodup := by
  intro l
  induction l with
  | nil => intro _; exact List.nodup_nil
  | cons x r ih =>
    intro h
    have h' := List.nodup_cons.mp h
    rw [List.map_cons, List.nodup_cons]
    refine ⟨?_, ih h'.2⟩
    intro hm
    obtain ⟨y, hy, e⟩ := List.mem_map.mp hm
    have := hf _ _ e; subst this; exact h'.1 hy

theorem nodup_filter {α} (p : α → Bool) : ∀ (l : List α), l.Nodup → (l.filter p).Nodup := by
  intro l
  induction l with
  | nil => intro _; exact List.nodup_nil
  | cons x r ih =>
    intro h
    have h' := List.nodup_cons.mp h
    simp only [List.filter]
    split
    · rw [List.nodup_cons]; exact ⟨fun hm => h'.1 (List.mem_filter.mp hm).1, ih h'.2⟩
    · exact ih h'.2

theorem nodup_flatMap_of {α β} (f : α → List β) : ∀ (l : List α), l.Nodup → (∀ a ∈ l, (f a).Nodup) →
    (∀ a ∈ l, ∀ b ∈ l, a ≠ b → ∀ x ∈ f a, x ∉ f b) → (l.flatMap f).Nodup := by
  intro l
  induction l with
  | nil => intro _ _ _; exact List.nodup_nil
  | cons x r ih =>
    intro h h1 h2
    have h' := List.nodup_cons.mp h
    rw [List.flatMap_cons, List.nodup_append]
    refine ⟨h1 x (by simp), ih h'.2 (fun a ha => h1 a (by simp [ha])) (fun a ha b hb => h2 a (by simp [ha]) b (by simp [hb])), ?_⟩
    intro u hu w hw e
    subst e
    obtain ⟨b, hb, hwb⟩ := List.mem_flatMap.mp hw
    exact h2 x (by simp) b (by simp [hb]) (fun e => h'.1 (e ▸ hb)) u hu hwb

theorem pairs_nodup (g : Nat) : (pairs g).Nodup := by
  unfold pairs
  apply nodup_flatMap_of _ _ List.nodup_range
  · intro a _
    exact nodup_map_of_inj _ (fun b b' h => by simpa using h) _ (nodup_filter _ _ List.nodup_range)
  · intro a _ a' _ hne x hx hx'
    obtain ⟨b, _, rfl⟩ := List.mem_map.mp hx
    obtain ⟨b', _, h⟩ := List.mem_map.mp hx'
    simp only [Prod.mk.injEq] at h
    exact hne h.1.symm

theorem internal_nodup (sp : Spec) : (internal sp).Nodup := by
  unfold internal
  exact nodup_map_of_inj _ (fun a b h => by simpa using h) _ List.nodup_range

/-- the predecessor pair chosen by a satisfying assignment -/
theorem decode_pred {sp : Spec} {σ} {g : Nat}
    (h : sat σ (exactlyOne ((pairs g).map (fun ab => SVar.s g ab.1 ab.2)))) :
    (decode sp σ).pred g ∈ pairs g ∧ σ (.s g ((decode sp σ).pred g).1 ((decode sp σ).pred g).2) = true ∧
    ∀ ab ∈ pairs g, σ (.s g ab.1 ab.2) = true → ab = (decode sp σ).pred g := by
  obtain ⟨v, hv, hσ, hu⟩ := exactlyOne_sound h
  obtain ⟨ab, hab, rfl⟩ := List.mem_map.mp hv
  have hfil : (pairs g).filter (fun ab => σ (.s g ab.1 ab.2)) = [ab] := by
    apply filter_unique (pairs_nodup g) hab hσ
    intro y hy hpy
    have := hu _ (List.mem_map.mpr ⟨y, hy, rfl⟩) hpy
    simp only [SVar.s.injEq, true_and] at this
    exact Prod.ext this.1 this.2
  have hp : (decode sp σ).pred g = ab := by
    show (((pairs g).filter (fun ab => σ (.s g ab.1 ab.2))).getLast?).getD (0, 0) = ab
    rw [hfil]; rfl
  rw [hp]
  refine ⟨hab, hσ, ?_⟩
  intro y hy hpy
  have := hu _ (List.mem_map.mpr ⟨y, hy, rfl⟩) hpy
  simp only [SVar.s.injEq, true_and] at this
  exact Prod.ext this.1 this.2

/-- the last element of a filtered `range` -/
theorem range_filter_getLast (p : Nat → Bool) (v : Nat) : ∀ (k : Nat), v < k → p v = true → (∀ y, v < y → y < k → p y = false) →
    ((List.range k).filter p).getLast? = some v := by
  intro k
  induction k with
  | zero => intro h; omega
  | succ k ih =>
    intro hv hp hu
    rw [List.range_succ, List.filter_append]
    by_cases hk : v = k
    · subst hk
      simp [List.filter, hp]
    · have hpk : p k = false := hu k (by omega) (by omega)
      simp only [List.filter, hpk, List.append_nil]
      exact ih (by omega) hp (fun y h1 h2 => hu y h1 (by omega))

theorem decode_out {sp : Spec} {σ} {h : Nat}
    (hs : sat σ (exactlyOne ((internal sp).map (fun g => SVar.o h g)))) :
    (decode sp σ).out h ∈ internal sp ∧ σ (.o h ((decode sp σ).out h)) = true := by
  obtain ⟨v, hv, hσ, hu⟩ := exactlyOne_sound hs
  obtain ⟨g, hg, rfl⟩ := List.mem_map.mp hv
  have hgi := mem_internal.mp hg
  have : ((List.range (sp.n + sp.N)).filter (fun g => σ (.o h g))).getLast? = some g := by
    apply range_filter_getLast _ g _ hgi.2 hσ
    intro y h1 h2
    cases hy : σ (.o h y) with
    | false => rfl
    | true =>
      have := hu _ (List.mem_map.mpr ⟨y, mem_internal.mpr ⟨by omega, h2⟩, rfl⟩) hy
      simp only [SVar.o.injEq, true_and] at this
      omega
  have hout : (decode sp σ).out h = g := by
    show (((List.range (sp.n + sp.N)).filter (fun g => σ (.o h g))).getLast?).getD 0 = g
    rw [this]; rfl
  rw [hout]; exact ⟨hg, hσ⟩

theorem mem_bools (b : Bool) : b ∈ bools := by cases b <;> simp [bools]

theorem mem_allOps (a b c d : Bool) : (a, b, c, d) ∈ allOps := by
  cases a <;> cases b <;> cases c <;> cases d <;> decide

/-- **soundness**: a satisfying assignment of the encoding decodes to a circuit with every promised
property -/
theorem encode_sound (sp : Spec) (σ : SVar → Bool) (hwf : ∀ c ∈ sp.cons, WFCon sp c) (h : sat σ (encode sp)) :
    SolOk sp (decode sp σ) := by
  simp only [encode, sat_append] at h
  obtain ⟨⟨⟨⟨⟨⟨⟨h0, h1⟩, h2⟩, h3⟩, h4⟩, h5⟩, h6⟩, h7⟩ := h
  rw [sat_flatMap] at h0 h1 h2 h3 h4 h5 h6
  -- predecessor pairs
  have hpred : ∀ g, g ∈ internal sp → (decode sp σ).pred g ∈ pairs g ∧
      σ (.s g ((decode sp σ).pred g).1 ((decode sp σ).pred g).2) = true ∧
      ∀ ab ∈ pairs g, σ (.s g ab.1 ab.2) = true → ab = (decode sp σ).pred g :=
    fun g hg => decode_pred (h1 g hg)
  have hpl : ∀ g, g ∈ internal sp → ((decode sp σ).pred g).1 < ((decode sp σ).pred g).2 ∧ ((decode sp σ).pred g).2 < g :=
    fun g hg => mem_pairs.mp (hpred g hg).1
  -- value variables equal evaluated values on every row that is not a don't-care row
  have hval : ∀ t ∈ rows sp, ∀ k g, g < k → g < sp.n + sp.N → σ (.x g t) = eval sp (decode sp σ) t g := by
    intro t ht k
    induction k with
    | zero => intro g h; omega
    | succ k ih =>
      intro g hgk hg
      by_cases hin : g < sp.n
      · have := h3 g (List.mem_range.mpr hin)
        rw [sat_map] at this
        obtain ⟨l, hl, hs⟩ := this t ht
        simp only [List.mem_cons, List.mem_nil_iff, or_false] at hl
        subst hl
        rw [eval_input _ _ _ _ hin]; exact hs
      · have hgi : g ∈ internal sp := mem_internal.mpr ⟨by omega, hg⟩
        obtain ⟨hp1, hp2, _⟩ := hpred g hgi
        obtain ⟨hl1, hl2⟩ := hpl g hgi
        have e1 := ih _ (by omega : ((decode sp σ).pred g).1 < k) (by omega)
        have e2 := ih _ (by omega : ((decode sp σ).pred g).2 < k) (by omega)
        rw [eval_eq _ _ _ _ (by omega) hl2, if_neg hin, ← e1, ← e2]
        have hc := h4 g hgi
        rw [sat_flatMap] at hc
        have hc := hc _ hp1
        rw [sat_flatMap] at hc
        have hc := hc (σ (.x g t)) (mem_bools _)
        rw [sat_flatMap] at hc
        have hc := hc (σ (.x ((decode sp σ).pred g).1 t)) (mem_bools _)
        rw [sat_flatMap] at hc
        have hc := hc (σ (.x ((decode sp σ).pred g).2 t)) (mem_bools _)
        rw [sat_map] at hc
        obtain ⟨l, hl, hs⟩ := hc t ht
        simp only [List.mem_cons, List.mem_nil_iff, or_false] at hl
        simp only [satLit] at hs
        rcases hl with rfl | rfl | rfl | rfl | rfl
        · simp only at hs; rw [hp2] at hs; cases hs
        · simp only at hs; cases hb : σ (.x g t) <;> simp [hb] at hs
        · simp only at hs; cases hb : σ (.x ((decode sp σ).pred g).1 t) <;> simp [hb] at hs
        · simp only at hs; cases hb : σ (.x ((decode sp σ).pred g).2 t) <;> simp [hb] at hs
        · exact hs.symm
  refine ⟨?_, ?_, ?_, ?_, ?_, ?_⟩
  · intro g h1' h2'
    exact hpl g (mem_internal.mpr ⟨h1', h2'⟩)
  · intro g h1' h2'
    have hc := h6 g (mem_internal.mpr ⟨h1', h2'⟩)
    rw [sat_map] at hc
    show sp.allowed (σ (.f g false false)) (σ (.f g false true)) (σ (.f g true false)) (σ (.f g true true)) = true
    cases hal : sp.allowed (σ (.f g false false)) (σ (.f g false true)) (σ (.f g true false)) (σ (.f g true true)) with
    | true => rfl
    | false =>
      exfalso
      obtain ⟨l, hl, hs⟩ := hc (σ (.f g false false), σ (.f g false true), σ (.f g true false), σ (.f g true true))
        (List.mem_filter.mpr ⟨mem_allOps _ _ _ _, by simp [hal]⟩)
      simp only [List.mem_cons, List.mem_nil_iff, or_false] at hl
      simp only [satLit] at hs
      rcases hl with rfl | rfl | rfl | rfl
      · simp only at hs; cases hb : σ (.f g false false) <;> simp [hb] at hs
      · simp only at hs; cases hb : σ (.f g false true) <;> simp [hb] at hs
      · simp only at hs; cases hb : σ (.f g true false) <;> simp [hb] at hs
      · simp only at hs; cases hb : σ (.f g true true) <;> simp [hb] at hs
  · intro hn g h1' h2'
    simp only [hn, if_true] at h7
    rw [sat_map] at h7
    obtain ⟨l, hl, hs⟩ := h7 g (mem_internal.mpr ⟨h1', h2'⟩)
    simp only [List.mem_cons, List.mem_nil_iff, or_false] at hl
    subst hl; exact hs
  · intro hh hhm
    exact mem_internal.mp (decode_out (h2 hh (List.mem_range.mpr hhm))).1
  · intro hh hhm t ht v htab
    obtain ⟨ho1, ho2⟩ := decode_out (h2 hh (List.mem_range.mpr hhm))
    have hrow : t ∈ rows sp := by
      simp only [rows, List.mem_filter, List.mem_range, Bool.not_eq_true', dcRow, List.all_eq_false]
      refine ⟨ht, ?_⟩
      simp only [Bool.not_eq_true]
      exact ⟨hh, hhm, by simp [htab]⟩
    have hc := h5 hh (List.mem_range.mpr hhm)
    rw [sat_flatMap] at hc
    have hc := hc t (List.mem_range.mpr ht)
    simp only [htab] at hc
    rw [sat_map] at hc
    obtain ⟨l, hl, hs⟩ := hc _ ho1
    simp only [List.mem_cons, List.mem_nil_iff, or_false] at hl
    simp only [satLit] at hs
    rcases hl with rfl | rfl
    · simp only at hs; rw [ho2] at hs; cases hs
    · rw [← hval t hrow _ _ (Nat.lt_succ_self _) (mem_internal.mp ho1).2]; exact hs
  · intro c hc
    have hsc := h0 c hc
    have hw := hwf c hc
    cases c with
    | fixBoth g a b =>
      obtain ⟨w1, w2, w3, w4⟩ := hw
      simp only [encodeCon, sat] at hsc
      obtain ⟨l, hl, hs⟩ := hsc _ (List.mem_singleton.mpr rfl)
      simp only [List.mem_singleton] at hl; subst hl
      have := (hpred g (mem_internal.mpr ⟨w1, w2⟩)).2.2 (a, b) (mem_pairs.mpr ⟨w3, w4⟩) hs
      simp [conOk, ← this]
    | fixOne g p =>
      obtain ⟨w1, w2, w3⟩ := hw
      obtain ⟨hp1, hp2, _⟩ := hpred g (mem_internal.mpr ⟨w1, w2⟩)
      simp only [conOk, Bool.or_eq_true, beq_iff_eq]
      apply Classical.byContradiction
      intro hno
      simp only [not_or] at hno
      simp only [encodeCon] at hsc
      rw [sat_map] at hsc
      obtain ⟨l, hl, hs⟩ := hsc _ (List.mem_filter.mpr ⟨hp1, by simp [hno.1, hno.2]⟩)
      simp only [List.mem_singleton] at hl; subst hl
      simp only [satLit] at hs; rw [hp2] at hs; cases hs
    | fixType g t00 t01 t10 t11 =>
      simp only [encodeCon, sat] at hsc
      simp only [conOk, decode, Bool.and_eq_true, beq_iff_eq]
      refine ⟨⟨⟨?_, ?_⟩, ?_⟩, ?_⟩
      · obtain ⟨l, hl, hs⟩ := hsc [(.f g false false, t00)] (by simp)
        simp only [List.mem_singleton] at hl; subst hl; exact hs
      · obtain ⟨l, hl, hs⟩ := hsc [(.f g false true, t01)] (by simp)
        simp only [List.mem_singleton] at hl; subst hl; exact hs
      · obtain ⟨l, hl, hs⟩ := hsc [(.f g true false, t10)] (by simp)
        simp only [List.mem_singleton] at hl; subst hl; exact hs
      · obtain ⟨l, hl, hs⟩ := hsc [(.f g true true, t11)] (by simp)
        simp only [List.mem_singleton] at hl; subst hl; exact hs
    | forbidWire src dst =>
      obtain ⟨w1, w2, w3⟩ := hw
      obtain ⟨hp1, hp2, _⟩ := hpred dst (mem_internal.mpr ⟨w1, w2⟩)
      obtain ⟨pa, pb, hab⟩ : ∃ pa pb, (decode sp σ).pred dst = (pa, pb) := ⟨_, _, rfl⟩
      rw [hab] at hp1 hp2
      obtain ⟨hl1, hl2⟩ := mem_pairs.mp hp1
      simp only [conOk, hab, Bool.and_eq_true, bne_iff_ne, ne_eq]
      simp only [encodeCon] at hsc
      rw [sat_map] at hsc
      simp only at hp2
      constructor
      · intro e
        obtain ⟨l, hl, hs⟩ := hsc pb (List.mem_filter.mpr ⟨List.mem_range.mpr (by omega), by
          simp only [Bool.and_eq_true, decide_eq_true_eq, bne_iff_ne, ne_eq]; exact ⟨hl2, by omega⟩⟩)
        simp only [List.mem_singleton] at hl; subst hl
        simp only [satLit] at hs
        have h1 : min pb src = pa := by omega
        have h2 : max pb src = pb := by omega
        rw [h1, h2, hp2] at hs; cases hs
      · intro e
        obtain ⟨l, hl, hs⟩ := hsc pa (List.mem_filter.mpr ⟨List.mem_range.mpr (by omega), by
          simp only [Bool.and_eq_true, decide_eq_true_eq, bne_iff_ne, ne_eq]; exact ⟨by omega, by omega⟩⟩)
        simp only [List.mem_singleton] at hl; subst hl
        simp only [satLit] at hs
        have h1 : min pa src = pa := by omega
        have h2 : max pa src = pb := by omega
        rw [h1, h2, hp2] at hs; cases hs

/-! ## completeness -/

/-- the assignment describing a given solution -/
def assignOf (sp : Spec) (sol : Sol) : SVar → Bool
  | .s g a b => decide (sol.pred g = (a, b))
  | .o h g => decide (sol.out h = g)
  | .x g t => eval sp sol t g
  | .f g p q => sol.op g p q

/-- **completeness**: every circuit with the promised properties is described by a satisfying
assignment of the encoding, and decoding that assignment gives the circuit back -/
theorem encode_complete (sp : Spec) (sol : Sol) (hwf : ∀ c ∈ sp.cons, WFCon sp c) (hok : SolOk sp sol) :
    sat (assignOf sp sol) (encode sp) ∧
    (∀ g ∈ internal sp, (decode sp (assignOf sp sol)).pred g = sol.pred g) ∧
    (∀ g p q, (decode sp (assignOf sp sol)).op g p q = sol.op g p q) ∧
    (∀ h, h < sp.m → (decode sp (assignOf sp sol)).out h = sol.out h) := by
  have hpairs : ∀ g ∈ internal sp, sol.pred g ∈ pairs g := by
    intro g hg
    have := hok.preds g (mem_internal.mp hg).1 (mem_internal.mp hg).2
    exact mem_pairs.mpr this
  refine ⟨?_, ?_, fun _ _ _ => rfl, ?_⟩
  · simp only [encode, sat_append]
    refine ⟨⟨⟨⟨⟨⟨⟨?_, ?_⟩, ?_⟩, ?_⟩, ?_⟩, ?_⟩, ?_⟩, ?_⟩
    · -- user constraints
      rw [sat_flatMap]
      intro c hc
      have hco := hok.cons c hc
      have hw := hwf c hc
      cases c with
      | fixBoth g a b =>
        simp only [conOk, beq_iff_eq] at hco
        intro cl hcl
        simp only [encodeCon, List.mem_singleton] at hcl; subst hcl
        exact ⟨_, List.mem_singleton.mpr rfl, by simp [satLit, assignOf, hco]⟩
      | fixOne g p =>
        simp only [conOk, Bool.or_eq_true, beq_iff_eq] at hco
        simp only [encodeCon]
        rw [sat_map]
        intro ab hab
        obtain ⟨_, hf⟩ := List.mem_filter.mp hab
        simp only [Bool.and_eq_true, bne_iff_ne, ne_eq] at hf
        refine ⟨_, List.mem_singleton.mpr rfl, ?_⟩
        simp only [satLit, assignOf, decide_eq_false_iff_not]
        intro e
        rw [e] at hco
        rcases hco with h | h
        · exact hf.1 h
        · exact hf.2 h
      | fixType g t00 t01 t10 t11 =>
        simp only [conOk, Bool.and_eq_true, beq_iff_eq] at hco
        obtain ⟨⟨⟨e0, e1⟩, e2⟩, e3⟩ := hco
        intro cl hcl
        simp only [encodeCon, List.mem_cons, List.mem_nil_iff, or_false] at hcl
        rcases hcl with rfl | rfl | rfl | rfl
        · exact ⟨_, List.mem_singleton.mpr rfl, e0⟩
        · exact ⟨_, List.mem_singleton.mpr rfl, e1⟩
        · exact ⟨_, List.mem_singleton.mpr rfl, e2⟩
        · exact ⟨_, List.mem_singleton.mpr rfl, e3⟩
      | forbidWire src dst =>
        simp only [conOk, Bool.and_eq_true, bne_iff_ne, ne_eq] at hco
        simp only [encodeCon]
        rw [sat_map]
        intro o ho
        obtain ⟨_, hf⟩ := List.mem_filter.mp ho
        simp only [Bool.and_eq_true, decide_eq_true_eq, bne_iff_ne, ne_eq] at hf
        refine ⟨_, List.mem_singleton.mpr rfl, ?_⟩
        simp only [satLit, assignOf, decide_eq_false_iff_not]
        intro e
        rw [e] at hco
        simp only at hco
        omega
    · -- exactly one predecessor pair
      rw [sat_flatMap]
      intro g hg
      apply exactlyOne_complete (v := .s g (sol.pred g).1 (sol.pred g).2)
      · exact nodup_map_of_inj _ (fun a b h => by
          simp only [SVar.s.injEq, true_and] at h; exact Prod.ext h.1 h.2) _ (pairs_nodup g)
      · exact List.mem_map.mpr ⟨sol.pred g, hpairs g hg, rfl⟩
      · intro w hw
        obtain ⟨ab, _, rfl⟩ := List.mem_map.mp hw
        simp only [assignOf, decide_eq_true_eq, SVar.s.injEq, true_and]
        constructor
        · intro e; rw [e]; exact ⟨rfl, rfl⟩
        · rintro ⟨e1, e2⟩; exact (Prod.ext e1 e2).symm
    · -- exactly one gate per output
      rw [sat_flatMap]
      intro h hh
      have ho := hok.outs h (List.mem_range.mp hh)
      apply exactlyOne_complete (v := .o h (sol.out h))
      · exact nodup_map_of_inj _ (fun a b e => by simpa using e) _ (internal_nodup sp)
      · exact List.mem_map.mpr ⟨sol.out h, mem_internal.mpr ho, rfl⟩
      · intro w hw
        obtain ⟨g, _, rfl⟩ := List.mem_map.mp hw
        simp only [assignOf, decide_eq_true_eq, SVar.o.injEq, true_and]
        exact ⟨fun e => e.symm, fun e => e.symm⟩
    · -- input rows
      rw [sat_flatMap]
      intro i hi
      rw [sat_map]
      intro t _
      exact ⟨_, List.mem_singleton.mpr rfl, by simp [satLit, assignOf, eval_input _ _ _ _ (List.mem_range.mp hi)]⟩
    · -- gate semantics
      rw [sat_flatMap]; intro g hg
      rw [sat_flatMap]; intro ab _
      rw [sat_flatMap]; intro a _
      rw [sat_flatMap]; intro b _
      rw [sat_flatMap]; intro c _
      rw [sat_map]; intro t _
      have hgi := mem_internal.mp hg
      have hp := hok.preds g hgi.1 hgi.2
      by_cases e : sol.pred g = (ab.1, ab.2)
      · by_cases ea : eval sp sol t g = a
        · by_cases eb : eval sp sol t ab.1 = b
          · by_cases ec : eval sp sol t ab.2 = c
            · refine ⟨(.f g b c, a), by simp, ?_⟩
              simp only [satLit, assignOf]
              rw [← ea, eval_eq _ _ _ _ (by omega) hp.2, if_neg (by omega), e]
              simp only [eb, ec]
            · refine ⟨(.x ab.2 t, !c), by simp, ?_⟩
              simp only [satLit, assignOf]
              cases hv : eval sp sol t ab.2 <;> cases c <;> simp_all
          · refine ⟨(.x ab.1 t, !b), by simp, ?_⟩
            simp only [satLit, assignOf]
            cases hv : eval sp sol t ab.1 <;> cases b <;> simp_all
        · refine ⟨(.x g t, !a), by simp, ?_⟩
          simp only [satLit, assignOf]
          cases hv : eval sp sol t g <;> cases a <;> simp_all
      · exact ⟨(.s g ab.1 ab.2, false), by simp, by simp [satLit, assignOf, e]⟩
    · -- outputs agree with the table
      rw [sat_flatMap]; intro h hh
      rw [sat_flatMap]; intro t ht
      cases htab : sp.table h t with
      | none => intro c hc; cases hc
      | some v =>
        simp only
        rw [sat_map]; intro g _
        by_cases e : sol.out h = g
        · refine ⟨(.x g t, v), by simp, ?_⟩
          simp only [satLit, assignOf]
          rw [← e]; exact hok.agrees h (List.mem_range.mp hh) t (List.mem_range.mp ht) v htab
        · exact ⟨(.o h g, false), by simp, by simp [satLit, assignOf, e]⟩
    · -- basis
      rw [sat_flatMap]; intro g hg
      rw [sat_map]; intro op hop
      obtain ⟨_, hna⟩ := List.mem_filter.mp hop
      have hal := hok.basis g (mem_internal.mp hg).1 (mem_internal.mp hg).2
      apply Classical.byContradiction
      intro hno
      have h00 : sol.op g false false = op.1 := by
        apply Classical.byContradiction; intro hne
        exact hno ⟨(.f g false false, !op.1), by simp, by simp only [satLit, assignOf]; cases h1 : sol.op g false false <;> cases h2 : op.1 <;> simp_all⟩
      have h01 : sol.op g false true = op.2.1 := by
        apply Classical.byContradiction; intro hne
        exact hno ⟨(.f g false true, !op.2.1), by simp, by simp only [satLit, assignOf]; cases h1 : sol.op g false true <;> cases h2 : op.2.1 <;> simp_all⟩
      have h10 : sol.op g true false = op.2.2.1 := by
        apply Classical.byContradiction; intro hne
        exact hno ⟨(.f g true false, !op.2.2.1), by simp, by simp only [satLit, assignOf]; cases h1 : sol.op g true false <;> cases h2 : op.2.2.1 <;> simp_all⟩
      have h11 : sol.op g true true = op.2.2.2 := by
        apply Classical.byContradiction; intro hne
        exact hno ⟨(.f g true true, !op.2.2.2), by simp, by simp only [satLit, assignOf]; cases h1 : sol.op g true true <;> cases h2 : op.2.2.2 <;> simp_all⟩
      rw [h00, h01, h10, h11] at hal
      simp [hal] at hna
    · -- normalisation
      cases hn : sp.normalized with
      | false => intro c hc; simp at hc
      | true =>
        simp only [if_true]
        rw [sat_map]; intro g hg
        exact ⟨_, List.mem_singleton.mpr rfl, hok.norm hn g (mem_internal.mp hg).1 (mem_internal.mp hg).2⟩
  · intro g hg
    show (((pairs g).filter (fun ab => assignOf sp sol (.s g ab.1 ab.2))).getLast?).getD (0, 0) = sol.pred g
    rw [filter_unique (pairs_nodup g) (hpairs g hg) (by simp [assignOf])
      (fun y _ hy => by simp only [assignOf, decide_eq_true_eq] at hy; exact hy.symm)]
    rfl
  · intro h hh
    have ho := hok.outs h hh
    show (((List.range (sp.n + sp.N)).filter (fun g => assignOf sp sol (.o h g))).getLast?).getD 0 = sol.out h
    rw [range_filter_getLast _ (sol.out h) _ ho.2 (by simp [assignOf])
      (fun y h1 _ => by simp only [assignOf, decide_eq_false_iff_not]; omega)]
    rfl

/-- **`find_circuit` with any sound and complete solver**: it returns a circuit with all promised
properties whenever one exists, and reports "no solution" exactly when none does -/
def findCircuit (solve : List Clause → Option (SVar → Bool)) (sp : Spec) : Except String Sol :=
  match solve (encode sp) with
  | none => .error "NoSolutionError"
  | some σ => .ok (decode sp σ)

theorem findCircuit_spec (solve : List Clause → Option (SVar → Bool))
    (hsound : ∀ F σ, solve F = some σ → sat σ F) (hcomplete : ∀ F, solve F = none → ∀ σ, ¬ sat σ F)
    (sp : Spec) (hwf : ∀ c ∈ sp.cons, WFCon sp c) :
    (∀ sol, findCircuit solve sp = .ok sol → SolOk sp sol) ∧
    (findCircuit solve sp = .error "NoSolutionError" ↔ ¬ ∃ sol, SolOk sp sol) := by
  unfold findCircuit
  cases hs : solve (encode sp) with
  | none =>
    refine ⟨fun _ h => (by cases h), ⟨fun _ => ?_, fun _ => rfl⟩⟩
    rintro ⟨sol, hok⟩
    exact hcomplete _ hs _ (encode_complete sp sol hwf hok).1
  | some σ =>
    refine ⟨fun sol h => ?_, ⟨fun h => (by cases h), fun hno => ?_⟩⟩
    · simp only [Except.ok.injEq] at h; subst h
      exact encode_sound sp σ hwf (hsound _ _ hs)
    · exact absurd ⟨_, encode_sound sp σ hwf (hsound _ _ hs)⟩ hno

end Synth
end Cirbo
