import Cirbo.Proofs.GenWallace
/-!
# The result width of `add_mul_wallace` (C08): a non-empty column stays non-empty through the rounds
and ends in row 0
-/
namespace Cirbo
open GateType

variable {P Q : Label → Prop}

/-- where the first result bit of a column sum lands -/
theorem wPlace_head {cn : Mat} {W R2 col g2 : Nat} {res : List Label} (hr : Rect cn W R2) (hc : col < W)
    (hg : g2 + 1 < R2) (hres : (∃ r0, res = [r0]) ∨ (∃ r0 r1, res = [r0, r1])) :
    entry (wPlace W col g2 cn res) col g2 = res.headD PH := by
  rcases hres with ⟨r0, rfl⟩ | ⟨r0, r1, rfl⟩
  · simp only [wPlace, List.zipIdx_cons, List.zipIdx_nil, List.foldl_cons, List.foldl_nil, Nat.add_zero, hc, if_true]
    rw [entry_matSet hr hc (by omega)]; simp
  · simp only [wPlace, List.zipIdx_cons, List.zipIdx_nil, List.foldl_cons, List.foldl_nil, Nat.add_zero, hc, if_true,
      Nat.zero_add]
    have hr1 := rect_matSet hr col g2 r0
    by_cases hc1 : col + 1 < W
    · rw [if_pos hc1, entry_matSet hr1 hc1 hg, if_neg (by omega), entry_matSet hr hc (by omega)]; simp
    · rw [if_neg hc1, entry_matSet hr hc (by omega)]; simp

/-- occupancy while the columns of one group are processed -/
def OccCol (c cn : Mat) (row g2 col : Nat) : Prop :=
  ∀ col', col' < col → inp3 (c.getD col' []) row ≠ [] → entry cn col' g2 ≠ PH

theorem occ_wColStep {v : Label → Bool} (hPQ : ∀ l, P l → Q l) (hQ : ∀ l, Q l → l ≠ PH)
    {c cnS : Mat} {W R2 row g2 : Nat} (hqc : QM Q c) (hg2 : g2 = 2 * (row / 3)) (hg : g2 + 1 < R2)
    {col : Nat} {cn cn' : Mat} (hc : col < W) (inv : ColInv v Q c cnS W R2 row g2 col cn)
    (occ : OccCol c cn row g2 col) (h : SemF P (wColStep c W row cn col) v cn') :
    OccCol c cn' row g2 (col + 1) := by
  unfold wColStep at h
  simp only at h
  split at h
  · rename_i hemp
    rw [semF_pure] at h; subst h
    have he : inp3 (c.getD col []) row = [] := by simpa using hemp
    intro col' hc' hne
    by_cases e : col' = col
    · subst e; exact absurd he hne
    · exact occ col' (by omega) hne
  · rename_i hne
    simp only [semF_bind, semF_pure] at h
    obtain ⟨res, hres, rfl⟩ := h
    have hlen1 : 1 ≤ (inp3 (c.getD col []) row).length := by
      cases hi : inp3 (c.getD col []) row with
      | nil => rw [hi] at hne; simp at hne
      | cons _ _ => simp
    have hinq := inp3_q (Q := Q) (qm_getD hqc col) row
    have hshape : (∃ r0, res = [r0] ∧ Q r0) ∨ (∃ r0 r1, res = [r0, r1] ∧ Q r0 ∧ Q r1) := by
      rcases sumSmall_shape hlen1 (inp3_len _ _) (semF_fr hres) with ⟨a, ha, hr⟩ | ⟨r0, r1, hr, p0, p1⟩
      · exact Or.inl ⟨a, hr, hinq a (by rw [ha]; simp)⟩
      · exact Or.inr ⟨r0, r1, hr, hPQ _ p0, hPQ _ p1⟩
    rw [← hg2]
    obtain ⟨_, _, _, w4⟩ := wPlace_spec v hQ inv.rect inv.qm hc hg hshape (inv.p0 col (Nat.le_refl _) hc)
      (fun h1 => inv.p1 col (Nat.le_refl _) h1)
    intro col' hc' hne'
    by_cases e : col' = col
    · subst e
      rw [wPlace_head inv.rect hc hg (by
        rcases hshape with ⟨r0, hr, _⟩ | ⟨r0, r1, hr, _⟩
        · exact Or.inl ⟨r0, hr⟩
        · exact Or.inr ⟨r0, r1, hr⟩)]
      rcases hshape with ⟨r0, hr, q0⟩ | ⟨r0, r1, hr, q0, _⟩
      · rw [hr]; exact hQ _ q0
      · rw [hr]; exact hQ _ q0
    · rw [w4 col' g2 (fun hh => e hh.1) (by omega)]
      exact occ col' (by omega) hne'

theorem occ_colLoop {v : Label → Bool} (hPQ : ∀ l, P l → Q l) (hQ : ∀ l, Q l → l ≠ PH)
    {c cnS cn' : Mat} {W R2 row g2 : Nat} (hqc : QM Q c) (hg2 : g2 = 2 * (row / 3)) (hg : g2 + 1 < R2)
    (h0 : ColInv v Q c cnS W R2 row g2 0 cnS)
    (h : SemF P (progFold (List.range W) cnS (wColStep c W row)) v cn') :
    OccCol c cn' row g2 W := by
  rw [List.range_eq_range'] at h
  have := semF_progFold_range' (P := P) (v := v) (f := wColStep c W row)
    (fun i s => ColInv v Q c cnS W R2 row g2 i s ∧ OccCol c s row g2 i) W 0 cnS cn'
    ⟨h0, fun _ hc' _ => by omega⟩
    (fun i s s' _ hi hp hs => ⟨semF_wColStep hPQ hQ hqc hg2 hg (by omega) hp.1 hs,
      occ_wColStep hPQ hQ hqc hg2 hg (by omega) hp.1 hp.2 hs⟩) h
  simpa using this.2

/-- occupancy after the first `g` groups: a group that holds a bit of column `col` left a bit in row `2·g'` -/
def OccGrp (c cn : Mat) (W g : Nat) : Prop :=
  ∀ g' col', g' < g → col' < W → inp3 (c.getD col' []) (g' * 3) ≠ [] → entry cn col' (2 * g') ≠ PH

theorem occ_grpStep {v : Label → Bool} (hPQ : ∀ l, P l → Q l) (hQ : ∀ l, Q l → l ≠ PH)
    {c : Mat} {W R2 : Nat} (hqc : QM Q c) {g : Nat} (hg : 2 * g + 1 < R2) {cn cn' : Mat}
    (inv : GrpInv v Q c W R2 g cn) (occ : OccGrp c cn W g)
    (h : SemF P (progFold (List.range W) cn (wColStep c W (g * 3))) v cn') : OccGrp c cn' W (g + 1) := by
  have hg2 : 2 * g = 2 * (g * 3 / 3) := by rw [Nat.mul_div_cancel _ (by omega : 0 < 3)]
  have h0 : ColInv v Q c cn W R2 (g * 3) (2 * g) 0 cn :=
    ⟨inv.rect, inv.qm, ⟨0, by simp [sumR_zero]⟩, fun c' _ _ => inv.pend c' _ (Nat.le_refl _),
      fun c' _ _ => inv.pend _ _ (by omega), fun _ _ _ _ => rfl⟩
  have hend := semF_colLoop hPQ hQ hqc hg2 hg h0 h
  have hocc := occ_colLoop hPQ hQ hqc hg2 hg h0 h
  intro g' col' hg' hc' hne
  by_cases e : g' = g
  · subst e; exact hocc col' hc' hne
  · rw [hend.other col' (2 * g') (by omega) (by omega)]
    exact occ g' col' (by omega) hc' hne

/-! ## one round -/

theorem round_cn {v : Label → Bool} (hPQ : ∀ l, P l → Q l) (hQ : ∀ l, Q l → l ≠ PH)
    {c c' : Mat} {W R : Nat} (hW : 1 ≤ W) (hr : Rect c W R) (hq : QM Q c)
    (h : SemF P (wallaceRound W c) v c') :
    ∃ cn, c' = cn.zipIdx.map (fun (ci : List Label × Nat) => ci.1 ++ (c.getD ci.2 []).drop (R - R % 3)) ∧
      GrpInv v Q c W (2 * (R / 3)) (R / 3) cn ∧ OccGrp c cn W (R / 3) := by
  have hrows : (c.headD []).length = R := by
    cases hc : c with
    | nil => have := hr.w; rw [hc] at this; simp at this; omega
    | cons x t => simp only [List.headD_cons]; exact hr.r x (by rw [hc]; simp)
  unfold wallaceRound at h
  simp only [hrows, semF_bind, semF_pure] at h
  obtain ⟨cn, hcn, rfl⟩ := h
  have hfull : (R - R % 3) / 3 = R / 3 := by omega
  rw [hfull, progFold_map] at hcn
  have hcn' : SemF P (progFold (List.range (R / 3)) (List.replicate W (List.replicate (2 * (R / 3)) PH))
      (fun cn g => progFold (List.range W) cn (wColStep c W (g * 3)))) v cn := hcn
  rw [List.range_eq_range'] at hcn'
  have hinit : GrpInv v Q c W (2 * (R / 3)) 0 (List.replicate W (List.replicate (2 * (R / 3)) PH)) := by
    refine ⟨⟨by simp, fun col hcol => by rw [List.eq_of_mem_replicate hcol]; simp⟩, ?_, ⟨0, ?_⟩, fun a b _ => entry_replicate _ _ a b⟩
    · intro col hcol x hx
      rw [List.eq_of_mem_replicate hcol] at hx
      exact Or.inl (List.eq_of_mem_replicate hx)
    · unfold MV
      rw [colsVal_empty_cols]
      · simp [sumR_zero]
      · intro col hcol
        obtain ⟨y, hy, rfl⟩ := List.mem_map.mp hcol
        rw [List.eq_of_mem_replicate hy]; exact nonPH_replicate _
  have hend := semF_progFold_range' (P := P) (v := v)
    (fun g s => GrpInv v Q c W (2 * (R / 3)) g s ∧ OccGrp c s W g) (R / 3) 0 _ cn
    ⟨hinit, fun _ _ hg' _ _ => by omega⟩
    (fun g s s' _ hg hp hs => ⟨semF_grpStep hPQ hQ hq (by omega) hp.1 hs,
      occ_grpStep hPQ hQ hq (by omega) hp.1 hp.2 hs⟩) hcn'
  simp only [Nat.zero_add] at hend
  exact ⟨cn, rfl, hend.1, hend.2⟩

theorem getD_zipIdx_map {β} (f : List Label × Nat → β) (d : β) : ∀ (l : Mat) (s i : Nat), i < l.length →
    ((l.zipIdx s).map f).getD i d = f (l.getD i [], s + i) := by
  intro l
  induction l with
  | nil => intro s i h; simp at h
  | cons x r ih =>
    intro s i h
    cases i with
    | zero => simp
    | succ j =>
      simp only [List.zipIdx_cons, List.map_cons, List.getD_cons_succ]
      rw [ih (s + 1) j (by simpa using h)]
      congr 2; omega

theorem entry_round {c cn : Mat} {W R2 full : Nat} (hcn : Rect cn W R2) (col b : Nat) (hcol : col < W) :
    entry (cn.zipIdx.map (fun (ci : List Label × Nat) => ci.1 ++ (c.getD ci.2 []).drop full)) col b =
      if b < R2 then entry cn col b else entry c col (full + (b - R2)) := by
  unfold entry
  rw [getD_zipIdx_map _ _ cn 0 col (by rw [hcn.w]; exact hcol)]
  simp only [Nat.zero_add]
  have hlen : (cn.getD col []).length = R2 := rect_getD hcn hcol
  rw [List.getD_eq_getElem?_getD, List.getElem?_append]
  split
  · rename_i hb
    rw [if_pos (by omega)]
    simp only [List.getD_eq_getElem?_getD]
  · rename_i hb
    rw [if_neg (by omega), hlen, List.getElem?_drop]
    simp only [List.getD_eq_getElem?_getD]

theorem inp3_ne_nil {column : List Label} {row g : Nat} (hne : column.getD row PH ≠ PH) (h1 : g * 3 ≤ row)
    (h2 : row ≤ g * 3 + 2) : inp3 column (g * 3) ≠ [] := by
  unfold inp3
  intro he
  have hm : column.getD row PH ∈ ([g * 3, g * 3 + 1, g * 3 + 2].map (fun k => column.getD k PH)).filter (fun x => x != PH) := by
    rw [List.mem_filter]
    refine ⟨?_, by simpa using hne⟩
    simp only [List.map_cons, List.map_nil, List.mem_cons, List.not_mem_nil, or_false]
    have : row = g * 3 ∨ row = g * 3 + 1 ∨ row = g * 3 + 2 := by omega
    rcases this with e | e | e <;> rw [e] <;> simp
  rw [he] at hm
  cases hm

/-- **a non-empty column stays non-empty** in a round, and after a round on three rows its bit is in row 0 -/
theorem occ_wallaceRound {v : Label → Bool} (hPQ : ∀ l, P l → Q l) (hQ : ∀ l, Q l → l ≠ PH)
    {c c' : Mat} {W R : Nat} (hW : 1 ≤ W) (hr : Rect c W R) (hq : QM Q c)
    (h : SemF P (wallaceRound W c) v c') {col : Nat} (hcol : col < W)
    (hocc : ∃ row, row < R ∧ entry c col row ≠ PH) :
    (∃ row', row' < 2 * (R / 3) + R % 3 ∧ entry c' col row' ≠ PH) ∧ (R = 3 → entry c' col 0 ≠ PH) := by
  obtain ⟨cn, rfl, ginv, gocc⟩ := round_cn hPQ hQ hW hr hq h
  obtain ⟨row, hrow, hne⟩ := hocc
  have hentry := fun b => entry_round (c := c) (full := R - R % 3) ginv.rect col b hcol
  by_cases hlow : row < R - R % 3
  · -- inside a group of three
    have hg : row / 3 < R / 3 := by omega
    have hin : inp3 (c.getD col []) (row / 3 * 3) ≠ [] := inp3_ne_nil (by unfold entry at hne; exact hne) (by omega) (by omega)
    have := gocc (row / 3) col hg hcol hin
    refine ⟨⟨2 * (row / 3), by omega, ?_⟩, ?_⟩
    · rw [hentry, if_pos (by omega)]; exact this
    · intro hR3
      subst hR3
      have hr0 : row / 3 = 0 := by omega
      rw [hr0] at this
      rw [hentry, if_pos (by omega)]; exact this
  · refine ⟨⟨2 * (R / 3) + (row - (R - R % 3)), by omega, ?_⟩, fun hR3 => by omega⟩
    rw [hentry, if_neg (by omega)]
    have : R - R % 3 + (2 * (R / 3) + (row - (R - R % 3)) - 2 * (R / 3)) = row := by omega
    rw [this]; exact hne

/-- through all the rounds: the bit of a non-empty column ends in row 0, unless there were only two rows -/
theorem occ_wallaceRounds {v : Label → Bool} (hPQ : ∀ l, P l → Q l) (hQ : ∀ l, Q l → l ≠ PH) {W : Nat} (hW : 1 ≤ W) :
    ∀ (fuel : Nat) (c c' : Mat) (R : Nat), Rect c W R → QM Q c → SemF P (wallaceRounds W fuel c) v c' →
    ∀ col, col < W → (∃ row, row < R ∧ entry c col row ≠ PH) →
      (R = 2 → c' = c) ∧ (R ≠ 2 → entry c' col 0 ≠ PH) := by
  intro fuel
  induction fuel with
  | zero => intro c c' R _ _ h; exact absurd h semF_fail
  | succ fuel ih =>
    intro c c' R hr hq h col hcol hocc
    have hrows : (c.headD []).length = R := by
      cases hc : c with
      | nil => have := hr.w; rw [hc] at this; simp at this; omega
      | cons x t => simp only [List.headD_cons]; exact hr.r x (by rw [hc]; simp)
    simp only [wallaceRounds, hrows] at h
    split at h
    · rename_i h2
      rw [semF_pure] at h; subst h
      have : R = 2 := by simpa using h2
      exact ⟨fun _ => rfl, fun hne => absurd this hne⟩
    · rename_i h2
      have hR2 : R ≠ 2 := by simpa using h2
      refine ⟨fun e => absurd e hR2, fun _ => ?_⟩
      simp only [semF_bind] at h
      obtain ⟨c1, h1, hrec⟩ := h
      obtain ⟨r1, q1, _⟩ := semF_wallaceRound hPQ hQ hW hr hq h1
      obtain ⟨o1, o2⟩ := occ_wallaceRound hPQ hQ hW hr hq h1 hcol hocc
      obtain ⟨i1, i2⟩ := ih c1 c' _ r1 q1 hrec col hcol o1
      by_cases hnext : 2 * (R / 3) + R % 3 = 2
      · have hR3 : R = 3 := by omega
        rw [i1 hnext]; exact o2 hR3
      · exact i2 hnext

end Cirbo
