import Cirbo.Proofs.ConnRight
import Cirbo.Proofs.MoreOps
/-!
# `connect_circuit(right_connect=True)` keeps the C02 invariant
-/
namespace Cirbo
open GateType Circuit

def inputsOf (G : List Gate) : List Label := (G.filter (fun g => g.ty = INPUT)).map (·.label)

/-- the circuit with its input list recomputed from the gates (inside the loop of a right connection
the stored list still names the inputs that were already replaced; `set_inputs` repairs it at the end) -/
def fixIn (c : Circuit) : Circuit := { c with inputs := inputsOf c.gates }

theorem inputsOf_append (G H : List Gate) : inputsOf (G ++ H) = inputsOf G ++ inputsOf H := by
  simp [inputsOf, List.filter_append]

theorem mem_inputsOf {G : List Gate} {l : Label} : l ∈ inputsOf G ↔ ∃ g ∈ G, g.label = l ∧ g.ty = INPUT := by
  unfold inputsOf
  simp only [List.mem_map, List.mem_filter, decide_eq_true_eq]
  constructor
  · rintro ⟨g, ⟨h1, h2⟩, h3⟩; exact ⟨g, h1, h3, h2⟩
  · rintro ⟨g, h1, h3, h2⟩; exact ⟨g, ⟨h1, h2⟩, h3⟩

theorem inputsOf_nodup {G : List Gate} (h : (G.map (·.label)).Nodup) : (inputsOf G).Nodup := by
  unfold inputsOf
  exact List.Nodup.sublist (List.Sublist.map _ List.filter_sublist) h

/-- the non-connector step -/
theorem fixIn_addGate_wfs {c c' : Circuit} {g : Gate} (hw : WFS (fixIn c)) (hgi : g.ty = INPUT → g.ops = [])
    (h : c.addGate g = .ok c') : WFS (fixIn c') := by
  obtain ⟨h1, h2, h3, _, h5, h6, h7⟩ := addGate_fields h
  refine wfs_of_addFields hw hgi ⟨h1, h2, h3, ?_, h5, h6, h7⟩
  show inputsOf c'.gates = _
  rw [h3, inputsOf_append]
  by_cases ht : g.ty = INPUT
  · simp [ht, inputsOf, fixIn]
  · simp [ht, inputsOf, fixIn]

theorem count_usersOf_foldl_addUser (w : Label) : ∀ (ops : List Label) (c : Circuit) (l u : Label),
    ((ops.foldl (fun c o => c.addUser o w) c).usersOf l).count u =
      (c.usersOf l).count u + (if u = w then ops.count l else 0) := by
  intro ops
  induction ops with
  | nil => intro c l u; simp
  | cons o r ih =>
    intro c l u
    simp only [List.foldl_cons]
    rw [ih, count_usersOf_addUser, List.count_cons]
    by_cases hu : u = w
    · by_cases hl : l = o
      · subst hl; simp [hu]; omega
      · have : (o == l) = false := by simpa using fun e : o = l => hl e.symm
        simp [hu, hl, this]
    · simp [hu]

/-- the connector step: the base input `lbl` (still `⟨lbl, INPUT, []⟩`) becomes `⟨lbl, ty, ops⟩` and is
registered as a user of its operands -/
theorem fixIn_setGate_wfs {c : Circuit} {lbl : Label} {ty : GateType} {ops : List Label}
    (hw : WFS (fixIn c)) (hold : (⟨lbl, INPUT, []⟩ : Gate) ∈ c.gates) (hops : ∀ o ∈ ops, o ∈ c.labels)
    (hio : ty = INPUT → ops = [])
    (r : Label → Nat) (hr : ∀ g ∈ c.gates, ∀ o ∈ g.ops, r o < r g.label) (hrn : ∀ o ∈ ops, r o < r lbl) :
    WFS (fixIn ((ops.foldl (fun c o => c.addUser o lbl) c).setGate ⟨lbl, ty, ops⟩)) ∧
    (∀ g ∈ ((ops.foldl (fun c o => c.addUser o lbl) c).setGate ⟨lbl, ty, ops⟩).gates, ∀ o ∈ g.ops, r o < r g.label) := by
  have hgates : ((ops.foldl (fun c o => c.addUser o lbl) c).setGate ⟨lbl, ty, ops⟩).gates =
      c.gates.map (replG ⟨lbl, ty, ops⟩) := by
    rw [(setGate_fields _ _).1, (foldl_addUser_gates _ _ _).1]
  have hlab : ((ops.foldl (fun c o => c.addUser o lbl) c).setGate ⟨lbl, ty, ops⟩).labels = c.labels := by
    unfold Circuit.labels; rw [hgates, labels_map_replG]
  have hnd : c.labels.Nodup := hw.nodup
  have hcases : ∀ x ∈ c.gates.map (replG ⟨lbl, ty, ops⟩), x = ⟨lbl, ty, ops⟩ ∨ (x ∈ c.gates ∧ x.label ≠ lbl) := by
    intro x hx
    obtain ⟨y, hy, rfl⟩ := List.mem_map.mp hx
    unfold replG
    by_cases e : y.label = lbl
    · left; simp [e]
    · right; simp only [beq_iff_eq, e, if_false]; exact ⟨hy, e⟩
  have hrank : ∀ g ∈ c.gates.map (replG ⟨lbl, ty, ops⟩), ∀ o ∈ g.ops, r o < r g.label := by
    intro g hg o ho
    rcases hcases g hg with rfl | ⟨h1, _⟩
    · exact hrn o ho
    · exact hr g h1 o ho
  have hcount : ∀ l u, ((fixIn ((ops.foldl (fun c o => c.addUser o lbl) c).setGate ⟨lbl, ty, ops⟩)).usersOf l).count u =
      contrib (fixIn ((ops.foldl (fun c o => c.addUser o lbl) c).setGate ⟨lbl, ty, ops⟩)).gates l u := by
    intro l u
    show (((ops.foldl (fun c o => c.addUser o lbl) c).setGate ⟨lbl, ty, ops⟩).usersOf l).count u =
      contrib ((ops.foldl (fun c o => c.addUser o lbl) c).setGate ⟨lbl, ty, ops⟩).gates l u
    rw [setGate_usersOf, count_usersOf_foldl_addUser, hgates,
      contrib_replG (g := ⟨lbl, INPUT, []⟩) (g' := ⟨lbl, ty, ops⟩) hnd hold rfl]
    have hold' := users_count_of_wfs hw l u
    have hc0 := contrib_of_mem (G := c.gates) hnd hold l
    simp only [List.count_nil] at hc0
    by_cases hu : u = lbl
    · subst hu
      simp only [if_true]
      have : (c.usersOf l).count u = 0 := by
        have := hold'
        rw [show (fixIn c).usersOf l = c.usersOf l from rfl, show (fixIn c).gates = c.gates from rfl, hc0] at this
        exact this
      omega
    · simp only [hu, if_false, Nat.add_zero]
      exact hold'
  have hnd' : (fixIn ((ops.foldl (fun c o => c.addUser o lbl) c).setGate ⟨lbl, ty, ops⟩)).labels.Nodup := by
    show ((ops.foldl (fun c o => c.addUser o lbl) c).setGate ⟨lbl, ty, ops⟩).labels.Nodup
    rw [hlab]; exact hnd
  obtain ⟨uL, uC⟩ := users_of_count hnd' hcount
  refine ⟨⟨hnd', ?_, ⟨r, fun g hg => hrank g (by rw [← hgates]; exact hg)⟩, ?_, ?_, ?_, uL, uC, ?_, ?_⟩, by rw [hgates]; exact hrank⟩
  · intro g hg o ho
    show o ∈ ((ops.foldl (fun c o => c.addUser o lbl) c).setGate ⟨lbl, ty, ops⟩).labels
    rw [hlab]
    have hg' : g ∈ c.gates.map (replG ⟨lbl, ty, ops⟩) := by rw [← hgates]; exact hg
    rcases hcases g hg' with rfl | ⟨h1, _⟩
    · exact hops o ho
    · exact hw.closed g h1 o ho
  · show (inputsOf _).Nodup
    apply inputsOf_nodup
    have := hnd'
    exact this
  · intro l
    show l ∈ inputsOf _ ↔ _
    exact mem_inputsOf
  · intro o ho
    show o ∈ ((ops.foldl (fun c o => c.addUser o lbl) c).setGate ⟨lbl, ty, ops⟩).labels
    rw [hlab]
    have : o ∈ (fixIn c).outputs := by
      show o ∈ c.outputs
      have e : ((ops.foldl (fun c o => c.addUser o lbl) c).setGate ⟨lbl, ty, ops⟩).outputs = c.outputs := by
        rw [(setGate_fields _ _).2.2, (foldl_addUser_gates _ _ _).2.2]
      rw [← e]; exact ho
    exact hw.outputsOK o this
  · intro b hb
    have hbl : ∀ (ops : List Label) (cc : Circuit), (ops.foldl (fun c o => c.addUser o lbl) cc).blocks = cc.blocks := by
      intro ops
      induction ops with
      | nil => intro cc; rfl
      | cons o r ih => intro cc; simp only [List.foldl_cons]; rw [ih, addUser_blocks]
    have hb' : b ∈ (fixIn c).blocks := by
      show b ∈ c.blocks
      have : ((ops.foldl (fun c o => c.addUser o lbl) c).setGate ⟨lbl, ty, ops⟩).blocks = c.blocks := by
        rw [setGate_blocks, hbl]
      rw [← this]; exact hb
    have := hw.blocksOK b hb'
    have hl2 : (fixIn ((ops.foldl (fun c o => c.addUser o lbl) c).setGate ⟨lbl, ty, ops⟩)).labels = c.labels := hlab
    rw [hl2]; exact this
  · intro g hg ht
    have hg' : g ∈ c.gates.map (replG ⟨lbl, ty, ops⟩) := by rw [← hgates]; exact hg
    rcases hcases g hg' with rfl | ⟨h1, _⟩
    · exact hio ht
    · exact hw.inputOps g h1 ht

theorem all2_exists_left {α β} {R : α → β → Prop} : ∀ {l1 : List α} {l2 : List β}, All2 R l1 l2 →
    ∀ y ∈ l2, ∃ x ∈ l1, R x y := by
  intro l1 l2 h
  induction h with
  | nil => intro y hy; cases hy
  | cons h1 _ ih =>
    intro y hy
    rcases List.mem_cons.mp hy with rfl | hy
    · exact ⟨_, by simp, h1⟩
    · obtain ⟨x, hx, hr⟩ := ih y hy
      exact ⟨x, by simp [hx], hr⟩

structure RKInv (other : Circuit) (mapping : Dict Label) (rO : Label → Nat) (done : List Label) (st : ConnSt) : Prop where
  wfs : WFS (fixIn st.c)
  vals : ∀ l x, Dict.get? st.o2n l = some x → x ∈ st.c.labels
  forB : ∀ x ∈ st.forBlock, x ∈ st.c.labels
  mapped : ∀ l x, Dict.get? mapping l = some x → Dict.get? st.o2n l = some x
  rk : ∃ r' : Label → Nat, (∀ g ∈ st.c.gates, ∀ o ∈ g.ops, r' o < r' g.label) ∧
    (∀ x ∈ done, ∀ y, Dict.get? st.o2n x = some y → r' y = rO x) ∧
    (∀ k lbl, Dict.get? mapping k = some lbl → r' lbl = rO k)
  pend : ∀ k lbl, Dict.get? mapping k = some lbl → k ∉ done → (⟨lbl, INPUT, []⟩ : Gate) ∈ st.c.gates

theorem connStepR_kinv {other : Circuit} {mapping : Dict Label} {pre : String} {rO : Label → Nat}
    (hio : ∀ g ∈ other.gates, g.ty = INPUT → g.ops = [])
    (hrO : ∀ g ∈ other.gates, ∀ o ∈ g.ops, rO o < rO g.label)
    (hinj : ∀ k1 k2 x, Dict.get? mapping k1 = some x → Dict.get? mapping k2 = some x → k1 = k2)
    {done : List Label} {st st' : ConnSt} {cur : Label} (hcur : cur ∉ done)
    (hto : ∀ g, other.find? cur = some g → ∀ o ∈ g.ops, o ∈ done)
    (inv : RKInv other mapping rO done st) (hs : connStep other mapping pre true (.ok st) cur = .ok st') :
    RKInv other mapping rO (done ++ [cur]) st' := by
  unfold connStep at hs
  simp only at hs
  cases hf : other.find? cur with
  | none => simp [hf] at hs
  | some g =>
    simp only [hf] at hs
    obtain ⟨hgm, hgl⟩ := find_some_mem hf
    obtain ⟨r', rk1, rk2, rk3⟩ := inv.rk
    split at hs
    · rename_i hnm
      have hnm' : Dict.contains mapping cur = false := by simpa using hnm
      cases hm : mapLabels (Dict.set st.o2n cur (pre ++ cur)) g.ops with
      | error e => simp [hm] at hs
      | ok ops =>
        simp only [hm] at hs
        cases ha : st.c.addGate ⟨pre ++ cur, g.ty, ops⟩ with
        | error e => simp [ha] at hs
        | ok c1 =>
          simp only [ha, Except.ok.injEq] at hs
          subst hs
          have hgi : (⟨pre ++ cur, g.ty, ops⟩ : Gate).ty = INPUT → (⟨pre ++ cur, g.ty, ops⟩ : Gate).ops = [] := by
            intro ht
            have := hio g hgm ht
            have hl := mapLabels_length _ _ _ hm
            rw [this] at hl
            exact List.length_eq_zero_iff.mp hl
          obtain ⟨hfr, _, hg1, _⟩ := addGate_fields ha
          have hlab : ∀ x, x ∈ st.c.labels → x ∈ c1.labels := by
            intro x hx; unfold Circuit.labels at hx ⊢; rw [hg1]; simp [hx]
          have hnew : pre ++ cur ∈ c1.labels := by unfold Circuit.labels; rw [hg1]; simp
          have hne : ∀ x, x ∈ st.c.labels → x ≠ pre ++ cur := fun x hx e => hfr (e ▸ hx)
          refine ⟨fixIn_addGate_wfs inv.wfs hgi ha, ?_, ?_, ?_, ?_, ?_⟩
          · intro l x hl
            simp only at hl
            rw [Dict.get?_set] at hl
            by_cases e : l = cur
            · simp only [e, if_true, Option.some.injEq] at hl; subst hl; exact hnew
            · simp only [e, if_false] at hl; exact hlab x (inv.vals l x hl)
          · intro x hx
            simp only at hx
            split at hx
            · rcases List.mem_append.mp hx with hx | hx
              · exact hlab x (inv.forB x hx)
              · simp only [List.mem_singleton] at hx; subst hx; exact hnew
            · exact hlab x (inv.forB x hx)
          · intro l x hl
            have : l ≠ cur := by
              intro e; subst e
              simp [Dict.contains, hl] at hnm'
            simp [Dict.get?_set, this, inv.mapped l x hl]
          · refine ⟨fun x => if x = pre ++ cur then rO cur else r' x, ?_, ?_, ?_⟩
            · intro y hy o ho
              simp only at hy
              rw [hg1] at hy
              rcases List.mem_append.mp hy with hy | hy
              · have h1 : y.label ≠ pre ++ cur := hne _ (mem_labels_of_mem hy)
                have h2 : o ≠ pre ++ cur := hne _ (inv.wfs.closed y hy o ho)
                simp only [h1, h2, if_false]
                exact rk1 y hy o ho
              · simp only [List.mem_singleton] at hy
                subst hy
                simp only [if_true]
                obtain ⟨oi, hoi, hrel⟩ := all2_exists_left (mapLabels_spec _ _ _ hm) o ho
                have hoid := hto g hf oi hoi
                have hoic : oi ≠ cur := fun e => hcur (e ▸ hoid)
                rw [Dict.get?_set, if_neg hoic] at hrel
                have h2 : o ≠ pre ++ cur := hne _ (inv.vals oi o hrel)
                rw [if_neg h2, rk2 oi hoid o hrel]
                have := hrO g hgm oi hoi
                rw [hgl] at this; exact this
            · intro x hx y hy
              simp only at hy
              rw [Dict.get?_set] at hy
              simp only [List.mem_append, List.mem_singleton] at hx
              rcases hx with hx | rfl
              · have hxc : x ≠ cur := fun e => hcur (e ▸ hx)
                rw [if_neg hxc] at hy
                dsimp only
                rw [if_neg (hne _ (inv.vals x y hy))]
                exact rk2 x hx y hy
              · simp only [if_true, Option.some.injEq] at hy
                subst hy; simp
            · intro k lbl hk
              dsimp only
              rw [if_neg (hne _ (inv.vals k lbl (inv.mapped k lbl hk)))]
              exact rk3 k lbl hk
          · intro k lbl hk hkd
            simp only
            rw [hg1]
            exact List.mem_append_left _ (inv.pend k lbl hk (fun h => hkd (List.mem_append_left _ h)))
    · rename_i hnm
      simp only [if_true] at hs
      have hcm : Dict.contains mapping cur = true := by simpa using hnm
      cases hgo : Dict.get? st.o2n cur with
      | none => simp [hgo] at hs
      | some lbl =>
        simp only [hgo] at hs
        cases hm : mapLabels st.o2n g.ops with
        | error e => simp [hm] at hs
        | ok ops =>
          simp only [hm, Except.ok.injEq] at hs
          obtain ⟨lbl', hl'⟩ : ∃ l, Dict.get? mapping cur = some l := by
            unfold Dict.contains at hcm
            cases hg : Dict.get? mapping cur with
            | none => simp [hg] at hcm
            | some l => exact ⟨l, rfl⟩
          have hll : lbl' = lbl := by
            have := inv.mapped cur lbl' hl'
            rw [hgo] at this; cases this; rfl
          subst hll
          have hold := inv.pend cur lbl' hl' hcur
          have hls : lbl' ∈ st.c.labels := mem_labels_of_mem hold
          have hhas : (ops.foldl (fun c o => c.addUser o lbl') st.c).hasGate lbl' = true := by
            rw [hasGate_iff, foldl_addUser_labels]; exact hls
          rw [if_pos hhas] at hs
          subst hs
          have hopsL : ∀ o ∈ ops, o ∈ st.c.labels := by
            intro o ho
            obtain ⟨l0, h0⟩ := mapLabels_mem hm o ho
            exact inv.vals l0 o h0
          have hgio : g.ty = INPUT → ops = [] := by
            intro ht
            have := hio g hgm ht
            have hl := mapLabels_length _ _ _ hm
            rw [this] at hl
            exact List.length_eq_zero_iff.mp hl
          have hrn : ∀ o ∈ ops, r' o < r' lbl' := by
            intro o ho
            obtain ⟨oi, hoi, hrel⟩ := all2_exists_left (mapLabels_spec _ _ _ hm) o ho
            have hoid := hto g hf oi hoi
            rw [rk2 oi hoid o hrel, rk3 cur lbl' hl']
            have := hrO g hgm oi hoi
            rw [hgl] at this; exact this
          obtain ⟨w2, rk1'⟩ := fixIn_setGate_wfs inv.wfs hold hopsL hgio r' rk1 hrn
          have hgates : ((ops.foldl (fun c o => c.addUser o lbl') st.c).setGate ⟨lbl', g.ty, ops⟩).gates =
              st.c.gates.map (replG ⟨lbl', g.ty, ops⟩) := by
            rw [(setGate_fields _ _).1, (foldl_addUser_gates _ _ _).1]
          have hlab : ((ops.foldl (fun c o => c.addUser o lbl') st.c).setGate ⟨lbl', g.ty, ops⟩).labels = st.c.labels := by
            unfold Circuit.labels; rw [hgates, labels_map_replG]
          refine ⟨w2, ?_, ?_, inv.mapped, ⟨r', rk1', ?_, rk3⟩, ?_⟩
          · intro l x hl; simp only at hl ⊢; rw [hlab]; exact inv.vals l x hl
          · intro x hx
            simp only at hx ⊢
            rw [hlab]
            split at hx
            · rcases List.mem_append.mp hx with hx | hx
              · exact inv.forB x hx
              · simp only [List.mem_singleton] at hx; subst hx; exact hls
            · exact inv.forB x hx
          · intro x hx y hy
            simp only at hy
            simp only [List.mem_append, List.mem_singleton] at hx
            rcases hx with hx | rfl
            · exact rk2 x hx y hy
            · rw [hgo] at hy; cases hy
              exact rk3 _ _ hl'
          · intro k lbl hk hkd
            simp only
            rw [hgates]
            have hkd' : k ∉ done := fun h => hkd (List.mem_append_left _ h)
            have hkc : k ≠ cur := fun e => hkd (by simp [e])
            refine mem_map_replG (inv.pend k lbl hk hkd') (fun e => hkc ?_)
            simp at e
            subst e
            exact hinj k cur lbl hk hl'

theorem connLoopR_kinv {other : Circuit} {mapping : Dict Label} {pre : String} {rO : Label → Nat}
    (hio : ∀ g ∈ other.gates, g.ty = INPUT → g.ops = [])
    (hrO : ∀ g ∈ other.gates, ∀ o ∈ g.ops, rO o < rO g.label)
    (hinj : ∀ k1 k2 x, Dict.get? mapping k1 = some x → Dict.get? mapping k2 = some x → k1 = k2) :
    ∀ (rest done : List Label) (st0 st : ConnSt), (done ++ rest).Nodup →
      (∀ cur ∈ done ++ rest, ∀ g, other.find? cur = some g → ∀ o ∈ g.ops, ∀ p q, done ++ rest = p ++ cur :: q → o ∈ p) →
      RKInv other mapping rO done st0 →
      rest.foldl (connStep other mapping pre true) (.ok st0) = .ok st →
      RKInv other mapping rO (done ++ rest) st := by
  intro rest
  induction rest with
  | nil => intro done st0 st _ _ hi h; simp at h; subst h; simpa using hi
  | cons cur rest ih =>
    intro done st0 st hnd hto hi h
    simp only [List.foldl_cons] at h
    cases hs : connStep other mapping pre true (.ok st0) cur with
    | error e => rw [hs, foldl_connStep_error] at h; cases h
    | ok st1 =>
      rw [hs] at h
      have hcur : cur ∉ done := by
        intro hm
        have := List.nodup_append.mp hnd
        exact this.2.2 cur hm cur (by simp) rfl
      have key := connStepR_kinv hio hrO hinj hcur
        (fun g hf o ho => hto cur (by simp) g hf o ho done rest rfl) hi hs
      have := ih (done ++ [cur]) st1 st (by simpa using hnd) (by simpa using hto) key h
      simpa using this

theorem wfs_fixIn {c : Circuit} (hw : WFS c) : WFS (fixIn c) :=
  ⟨hw.nodup, hw.closed, hw.rank, inputsOf_nodup hw.nodup, fun _ => mem_inputsOf, hw.outputsOK, hw.usersL, hw.usersC,
    hw.blocksOK, hw.inputOps⟩

theorem fixIn_setOutputs {c c1 : Circuit} {o : List Label} (h : c.setOutputs o = .ok c1) :
    (fixIn c).setOutputs o = .ok (fixIn c1) := by
  unfold setOutputs at h ⊢
  have : (fixIn c).checkGatesExist o = c.checkGatesExist o := rfl
  rw [this]
  split at h
  · cases h
  · simp only [Except.ok.injEq] at h; subst h; rfl

theorem fixIn_setInputs (c : Circuit) (ins : List Label) : (fixIn c).setInputs ins = c.setInputs ins := by
  unfold setInputs
  have h1 : (fixIn c).checkGatesExist ins = c.checkGatesExist ins := rfl
  have h2 : setInputs.go (fixIn c) ins [] = setInputs.go c ins [] := by
    have : ∀ (l acc : List Label), setInputs.go (fixIn c) l acc = setInputs.go c l acc := by
      intro l
      induction l with
      | nil => intro acc; rfl
      | cons i r ih =>
        intro acc
        unfold setInputs.go
        have : (fixIn c).find? i = c.find? i := rfl
        rw [this]
        split
        · rfl
        · split
          · rfl
          · exact ih _
    exact this ins []
  rw [h1, h2]
  rfl

/-- the invariant of the state after the loop of a right connection (input list recomputed) -/
theorem connRight_loop_kinv {c other : Circuit} {thisC otherC : List Label} {pre : String} {order : List Label} {st : ConnSt}
    (hw : WFS c) (hwo : WFS other) (hndt : thisC.Nodup)
    (hty : ∀ l ∈ thisC, (c.find? l).map (·.ty) = some INPUT) (hex : ∀ l ∈ thisC, l ∈ c.labels)
    (hexo : ∀ l ∈ otherC, l ∈ other.labels)
    (hts : other.topSort true = .ok order)
    (hfold : order.foldl (connStep other (connMapping thisC otherC) pre true)
      (.ok ⟨c, connMapping thisC otherC, []⟩) = .ok st) :
    ∃ rO, RKInv other (connMapping thisC otherC) rO order st := by
  have hwg : WFG other := hwo.toWFG
  obtain ⟨order', ho1, hperm, hord⟩ := topSort_inv_spec hwg
  rw [hts] at ho1
  cases ho1
  have hndo : order.Nodup := hperm.nodup_iff.mpr hwo.nodup
  have hmz : ∀ k x, Dict.get? (connMapping thisC otherC) k = some x → (k, x) ∈ otherC.zip thisC := by
    intro k x hk
    rcases get?_zipFold_mem_zip _ _ k x hk with h1 | h1
    · exact h1
    · simp [Dict.get?] at h1
  have hinj : ∀ k1 k2 x, Dict.get? (connMapping thisC otherC) k1 = some x →
      Dict.get? (connMapping thisC otherC) k2 = some x → k1 = k2 :=
    fun k1 k2 x h1 h2 => zip_snd_inj otherC thisC k1 k2 x hndt (hmz _ _ h1) (hmz _ _ h2)
  obtain ⟨rO, hrO⟩ := hwo.rank
  obtain ⟨rc, hrc⟩ := hw.rank
  -- the starting state
  have k0 : RKInv other (connMapping thisC otherC) rO [] ⟨c, connMapping thisC otherC, []⟩ := by
    have hval : ∀ k x, Dict.get? (connMapping thisC otherC) k = some x → x ∈ thisC ∧ k ∈ other.labels :=
      fun k x hk => ⟨(List.of_mem_zip (hmz k x hk)).2, hexo k (List.of_mem_zip (hmz k x hk)).1⟩
    have hinp : ∀ x ∈ thisC, (⟨x, INPUT, []⟩ : Gate) ∈ c.gates := by
      intro x hx
      have := hty x hx
      cases hf : c.find? x with
      | none => simp [hf] at this
      | some g =>
        simp only [hf, Option.map_some, Option.some.injEq] at this
        obtain ⟨hgm, hgl⟩ := find_some_mem hf
        have hops := hw.inputOps g hgm this
        cases g with
        | mk l t o =>
          simp only at this hgl hops
          subst this; subst hgl; subst hops
          exact hgm
    refine ⟨wfs_fixIn hw, fun l x hl => hex x (hval l x hl).1, (by intro x hx; cases hx), fun _ _ h => h, ?_,
      fun k lbl hk _ => hinp lbl (hval k lbl hk).1⟩
    let R := (other.labels.map rO).sum + 1
    classical
    refine ⟨fun y => if hh : ∃ k, Dict.get? (connMapping thisC otherC) k = some y then rO (Classical.choose hh) else R + rc y,
      ?_, (by intro x hx; cases hx), ?_⟩
    · intro g hg o ho
      have hgn : ¬ ∃ k, Dict.get? (connMapping thisC otherC) k = some g.label := by
        rintro ⟨k, hk⟩
        have hg0 := hinp g.label (hval k _ hk).1
        have : g = ⟨g.label, INPUT, []⟩ := by
          have h1 := find_of_mem hw.nodup hg
          have h2 := find_of_mem hw.nodup hg0
          simp only at h2
          rw [h1] at h2; exact Option.some.inj h2
        rw [this] at ho; cases ho
      dsimp only
      rw [dif_neg hgn]
      by_cases hon : ∃ k, Dict.get? (connMapping thisC otherC) k = some o
      · rw [dif_pos hon]
        have hk := Classical.choose_spec hon
        have := le_sum_of_mem rO other.labels _ (hval _ _ hk).2
        omega
      · rw [dif_neg hon]
        have := hrc g hg o ho
        omega
    · intro k lbl hk
      dsimp only
      have hh : ∃ k, Dict.get? (connMapping thisC otherC) k = some lbl := ⟨k, hk⟩
      rw [dif_pos hh]
      rw [hinj _ _ _ (Classical.choose_spec hh) hk]
  have kinv := connLoopR_kinv (pre := pre) hwo.inputOps hrO hinj order [] _ st (by simpa using hndo)
    (by
      intro cur hcur g hf o ho p q hpq
      obtain ⟨hgm, hgl⟩ := find_some_mem hf
      exact hord p cur q (by simpa using hpq) g hgm hgl o ho)
    k0 hfold
  exact ⟨rO, by simpa using kinv⟩

/-- **every right connection keeps the invariant**: `connect_circuit(right_connect=True)`, hence
`connect_right`, `connect_inputs` and `extend_circuit(right_connect=True)` -/
theorem connectRight_wfs {c other c' : Circuit} {thisC otherC : List Label} {name : Label} {addP : Bool}
    (hw : WFS c) (hwo : WFS other) (h : c.connectCircuit other thisC otherC true name addP = .ok c') : WFS c' := by
  obtain ⟨order, st, hts, hfold, hfin, _, hnd, hlen, hty, hex, hexo⟩ := connect_right_unfold h
  obtain ⟨rO, kinv⟩ := connRight_loop_kinv hw hwo ((nodupL_iff _).mp hnd) hty hex hexo hts hfold
  -- the tail
  unfold connFinish at hfin
  simp only at hfin
  split at hfin
  · cases hfin
  · split at hfin
    · cases hfin
    · rename_i c1 hso
      have w1 : WFS (fixIn c1) := setOutputs_wfs kinv.wfs (fixIn_setOutputs hso)
      split at hfin
      · cases hfin
      · split at hfin
        · cases hfin
        · split at hfin
          · cases hfin
          · rename_i c2 hsi
            have w2 : WFS c2 := setInputs_wfs w1 (by rw [fixIn_setInputs]; exact hsi)
            have hl2 : c2.labels = st.c.labels := by
              unfold Circuit.labels; rw [setInputs_gates hsi, setOutputs_gates hso]
            split at hfin
            · cases hfin
            · rename_i c3 hb0
              have hb : other.blocks.foldl (bstepFn st.o2n (connPre name addP)) (.ok c2) = .ok c3 := hb0
              obtain ⟨w3, hl3⟩ := bfold_wfs (L := st.c.labels) kinv.vals other.blocks c2 c3 w2 hl2 hb
              split at hfin
              · simp only [Except.ok.injEq] at hfin; subst hfin; exact w3
              · split at hfin
                · rename_i bi bo hmi hmo
                  have hnb : (∀ l ∈ st.forBlock, l ∈ c3.labels) ∧ (∀ l ∈ bi, l ∈ c3.labels) := by
                    constructor
                    · intro l hl; rw [hl3]; exact kinv.forB l hl
                    · intro l hl
                      obtain ⟨l0, h0⟩ := mapLabels_mem hmi l hl
                      rw [hl3]; exact kinv.vals l0 l h0
                  split at hfin
                  · simp only [Except.ok.injEq] at hfin; subst hfin
                    apply wfs_blocks w3
                    intro b hb'
                    obtain ⟨b0, hb0', rfl⟩ := List.mem_map.mp hb'
                    split
                    · exact hnb
                    · exact w3.blocksOK b0 hb0'
                  · simp only [Except.ok.injEq] at hfin; subst hfin
                    apply wfs_blocks w3
                    intro b hb'
                    rcases List.mem_append.mp hb' with hb' | hb'
                    · exact w3.blocksOK b hb'
                    · simp only [List.mem_singleton] at hb'; subst hb'; exact hnb
                · cases hfin

end Cirbo
