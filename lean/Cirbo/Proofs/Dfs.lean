import Cirbo.Proofs.Traverse
/-! # DFS: every entered gate exits exactly once; exits = reachable set (C20, used by C03/C18) -/
namespace Cirbo

theorem exits_append (a b : List Ev) : exits (a ++ b) = exits a ++ exits b := by
  simp [exits, List.filterMap_append]

theorem exits_discover (ch : List Label) (f : Label → TState) :
    exits (ch.map (fun x => Ev.discover x (f x))) = [] := by
  induction ch with
  | nil => rfl
  | cons x r ih => simpa [exits, List.filterMap_cons] using ih

structure DInv (s : TrSt) : Prop where
  entQ : ∀ l, s.st l = .ent → l ∈ s.queue
  exitVis : ∀ l, l ∈ exits s.log ↔ s.st l = .vis
  exitND : (exits s.log).Nodup

theorem trStep_dinv {c : Circuit} {ab : Bool} {next : Label → List Label} {s s' : TrSt}
    (inv : DInv s) (hs : trStep c false ab next s = .next s') : DInv s' := by
  unfold trStep at hs
  simp only [Bool.false_eq_true, if_false] at hs
  cases htop : s.queue.getLast? with
  | none => simp [htop] at hs
  | some cur =>
    have hcurq : cur ∈ s.queue := List.mem_of_getLast? htop
    simp only [htop] at hs
    split at hs
    · cases hs
    · cases hst : s.st cur with
      | unv =>
        simp only [hst] at hs
        split at hs
        · cases hs
        · simp only [StepRes.next.injEq] at hs
          subst hs
          refine ⟨?_, ?_, ?_⟩
          · intro l hl
            simp only [setSt] at hl
            by_cases e : l = cur
            · subst e; simp [hcurq]
            · simp only [e, if_false] at hl; simp [inv.entQ l hl]
          · intro l
            show l ∈ exits (s.log ++ _) ↔ _
            rw [exits_append, exits_append, exits_append, exits_discover]
            have e1 : exits [Ev.enter cur] = [] := rfl
            have e2 : exits [Ev.yield cur] = [] := rfl
            rw [e1, e2]
            simp only [List.append_nil, setSt]
            by_cases e : l = cur
            · subst e; simp [inv.exitVis, hst]
            · simp [e, inv.exitVis]
          · show (exits (s.log ++ _)).Nodup
            rw [exits_append, exits_append, exits_append, exits_discover]
            have e1 : exits [Ev.enter cur] = [] := rfl
            have e2 : exits [Ev.yield cur] = [] := rfl
            rw [e1, e2]
            simpa using inv.exitND
      | ent =>
        simp only [hst, StepRes.next.injEq] at hs
        subst hs
        refine ⟨?_, ?_, ?_⟩
        · intro l hl
          simp only [setSt] at hl
          by_cases e : l = cur
          · subst e; simp at hl
          · simp only [e, if_false] at hl
            exact mem_dropLast_of_ne_last (inv.entQ l hl) htop e
        · intro l
          show l ∈ exits (s.log ++ [Ev.exit cur]) ↔ _
          rw [exits_append]
          have e1 : exits [Ev.exit cur] = [cur] := rfl
          rw [e1]
          simp only [List.mem_append, List.mem_singleton, setSt]
          by_cases e : l = cur
          · subst e; simp
          · simp [e, inv.exitVis]
        · show (exits (s.log ++ [Ev.exit cur])).Nodup
          have e1 : exits [Ev.exit cur] = [cur] := rfl
          rw [exits_append, e1, List.nodup_append]
          refine ⟨inv.exitND, by simp, ?_⟩
          intro a ha b hb hab
          simp at hb; subst hb; subst hab
          have := (inv.exitVis a).mp ha
          rw [hst] at this; cases this
      | vis =>
        simp only [hst, StepRes.next.injEq] at hs
        subst hs
        refine ⟨?_, inv.exitVis, inv.exitND⟩
        intro l hl
        have e : l ≠ cur := by intro e; subst e; rw [hst] at hl; cases hl
        exact mem_dropLast_of_ne_last (inv.entQ l hl) htop e

theorem trLoop_dinv {c : Circuit} {ab : Bool} {next : Label → List Label} :
    ∀ fuel (s s' : TrSt), DInv s → trLoop c false ab next fuel s = .ok s' → DInv s'
  | 0, s, s', _, h => by simp [trLoop] at h
  | fuel+1, s, s', inv, h => by
    unfold trLoop at h
    cases hs : trStep c false ab next s with
    | finished => simp only [hs, Except.ok.injEq] at h; subst h; exact inv
    | error e => simp [hs] at h
    | next s1 => simp only [hs] at h; exact trLoop_dinv fuel s1 s' (trStep_dinv inv hs) h

theorem exits_tail (log : List Ev) (M : List Label) :
    exits (log ++ M.map Ev.unvisited ++ [Ev.done]) = exits log := by
  rw [exits_append, exits_append]
  have : exits (M.map Ev.unvisited) = [] := by
    induction M with
    | nil => rfl
    | cons x r ih => simpa [exits, List.filterMap_cons] using ih
  rw [this]; simp [exits]

/-- **DFS hooks are balanced and exits cover exactly the reachable gates**: whenever the
depth-first traversal returns, the gates handed to the exit hook are exactly the gates reachable
from the start list, each exactly once (so exactly the gates handed to the enter hook / yielded). -/
theorem dfs_exits_exact {c : Circuit} (inverse : Bool) (start : Option (List Label)) (tsu ab : Bool)
    {log : List Ev} (hne : c.gates ≠ []) (h : traverse c false inverse start tsu ab = .ok log) :
    let next := if inverse then c.usersOf else c.opsOf
    let q0 := start.getD (if inverse then c.inputs else c.outputs)
    (exits log).Nodup ∧ (∀ l, l ∈ exits log ↔ Reach next q0 l) ∧ (∀ l, l ∈ exits log ↔ l ∈ yields log) := by
  intro next q0
  obtain ⟨_, hy, _⟩ := traverse_reach_exact false inverse start tsu ab hne h
  unfold traverse at h
  have he : c.gates.isEmpty = false := by cases hg : c.gates with
    | nil => exact absurd hg hne
    | cons a r => rfl
  simp only [he, Bool.false_eq_true, if_false] at h
  have inv0 : TInv next q0 ⟨q0, fun _ => .unv, []⟩ :=
    ⟨by intro l hl; exact absurd rfl hl, fun l hl => .base hl, by intro u hu; exact absurd rfl hu,
      fun l hl => Or.inr hl, by intro l; simp [yields], by simp [yields]⟩
  have dinv0 : DInv ⟨q0, fun _ => .unv, []⟩ :=
    ⟨fun l hl => (by cases hl), fun l => (by simp [exits]), (by simp [exits])⟩
  cases hl : trLoop c false ab next
      (2 * (q0.length + c.gates.length + totalDeg c next) + 2) ⟨q0, fun _ => .unv, []⟩ with
  | error e => simp only [next, q0] at hl; simp [hl] at h
  | ok s =>
    obtain ⟨inv, hq⟩ := trLoop_inv _ _ _ inv0 hl
    have dinv := trLoop_dinv _ _ _ dinv0 hl
    simp only [next, q0] at hl
    simp only [hl] at h
    have hr := reach_iff_of_done inv hq
    have hvis : ∀ l, s.st l = .vis ↔ s.st l ≠ .unv := by
      intro l
      constructor
      · intro e; rw [e]; simp
      · intro hne'
        cases hst : s.st l with
        | unv => exact absurd hst hne'
        | ent => have := dinv.entQ l hst; rw [hq] at this; cases this
        | vis => rfl
    have hfin : ∀ (L : List Label) (lg : List Ev),
        lg = s.log ++ (L.filter (fun l => s.st l = .unv)).map Ev.unvisited ++ [Ev.done] →
        (exits lg).Nodup ∧ (∀ l, l ∈ exits lg ↔ Reach next q0 l) := by
      intro L lg hlg
      subst hlg
      rw [exits_tail]
      exact ⟨dinv.exitND, fun l => by rw [dinv.exitVis, hvis, hr]⟩
    have hmain : (exits log).Nodup ∧ (∀ l, l ∈ exits log ↔ Reach next q0 l) := by
      cases tsu
      · simp only [Bool.false_eq_true, if_false, Except.ok.injEq] at h
        exact hfin c.labels log h.symm
      · simp only [if_true] at h
        cases hts : c.topSort true with
        | cyclic => simp [hts] at h
        | ok order =>
          simp only [hts, Except.ok.injEq] at h
          exact hfin order log h.symm
    exact ⟨hmain.1, hmain.2, fun l => by rw [hmain.2, hy]⟩

end Cirbo
