import Cirbo.Proofs.GenCostSimple
/-!
# Gate counts of the weighted sums in the simple scheme (naive variant, AIG basis)
-/
namespace Cirbo
open GateType

theorem insertBy_length {α} (lt : α → α → Bool) (x : α) : ∀ (l : List α), (insertBy lt x l).length = l.length + 1 := by
  intro l
  induction l with
  | nil => rfl
  | cons y r ih =>
    unfold insertBy
    split
    · simp
    · simp [ih]

theorem sortBy_length {α} (lt : α → α → Bool) (l : List α) : (sortBy lt l).length = l.length := by
  unfold sortBy
  have : ∀ (l acc : List α), (l.foldl (fun acc x => insertBy lt x acc) acc).length = acc.length + l.length := by
    intro l
    induction l with
    | nil => intro acc; simp
    | cons x r ih => intro acc; simp only [List.foldl_cons, ih, insertBy_length, List.length_cons]; omega
  rw [this]; simp

theorem takeLevel_length {α} (lev : α → Nat) (now : Nat) : ∀ (l a b : List α), takeLevel lev now l = (a, b) →
    a.length + b.length = l.length := by
  intro l
  induction l with
  | nil => intro a b h; simp only [takeLevel, Prod.mk.injEq] at h; obtain ⟨rfl, rfl⟩ := h; rfl
  | cons x r ih =>
    intro a b h
    unfold takeLevel at h
    split at h
    · cases hr : takeLevel lev now r with
      | mk a' b' =>
        rw [hr] at h
        simp only [Prod.mk.injEq] at h
        obtain ⟨rfl, rfl⟩ := h
        have := ih a' b' hr
        simp only [List.length_cons]; omega
    · simp only [Prod.mk.injEq] at h
      obtain ⟨rfl, rfl⟩ := h
      simp

theorem cost_wReduce3 {blk3 : List Label → Prog (List Label)} {c3 : Nat} (hb : BlockCost blk3 c3) (lvl : Nat) :
    ∀ (fuel : Nat) (nowR n' : List Label) (single s' : List (Nat × Label)) (k : Nat),
      Cost (wReduce3 blk3 lvl fuel nowR single) (n', s') k →
      ∃ j, k = c3 * j ∧ n'.length + 2 * j = nowR.length ∧ s'.length = single.length + j := by
  intro fuel
  induction fuel with
  | zero =>
    intro nowR n' single s' k h
    unfold wReduce3 at h
    obtain ⟨e, rfl⟩ := cost_pure.mp h
    cases e
    exact ⟨0, by simp, by simp, by simp⟩
  | succ f ih =>
    intro nowR n' single s' k h
    unfold wReduce3 at h
    split at h
    · rename_i fuel' a b c rest sg heq
      cases heq
      simp only [cost_bind] at h
      obtain ⟨r, m1, m2, hblk, ⟨p, m3, m4, hp2, hrec, rfl⟩, rfl⟩ := h
      obtain ⟨hc, _⟩ := hb _ _ _ hblk
      have hp0 := cost_pair2 hp2
      obtain ⟨j, hk, hl, hn⟩ := ih _ _ _ _ _ hrec
      refine ⟨j + 1, ?_, ?_, ?_⟩
      · rw [hk, hc, hp0, Nat.mul_add, Nat.mul_one]; omega
      · simp only [List.length_cons] at hl ⊢; omega
      · rw [insertBy_length] at hn; omega
    · obtain ⟨e, rfl⟩ := cost_pure.mp h
      cases e
      exact ⟨0, by simp, by simp, by simp⟩

theorem cost_wReduce2 {blk2 : List Label → Prog (List Label)} {c2 : Nat} (hb : BlockCost blk2 c2) (lvl : Nat)
    {nowR n' : List Label} {single s' : List (Nat × Label)} {k : Nat}
    (h : Cost (wReduce2 blk2 lvl nowR single) (n', s') k) :
    (k = c2 ∧ nowR.length = 2 ∧ n'.length = 1 ∧ s'.length = single.length + 1) ∨
    (k = 0 ∧ n' = nowR ∧ s' = single) := by
  unfold wReduce2 at h
  split at h
  · simp only [cost_bind, cost_pure] at h
    obtain ⟨r, m1, m2, hblk, ⟨p, m3, m4, hp2, ⟨e, rfl⟩, rfl⟩, rfl⟩ := h
    cases e
    obtain ⟨hc, _⟩ := hb _ _ _ hblk
    left
    exact ⟨by rw [hc, cost_pair2 hp2]; rfl, by simp, by simp, by rw [insertBy_length]⟩
  · obtain ⟨e, rfl⟩ := cost_pure.mp h
    cases e
    exact Or.inr ⟨rfl, rfl, rfl⟩

/-- one level of the simple weighted scheme: `j` full adders and `f ≤ 1` half adders -/
theorem cost_wSimpleLevelWith {blk3 blk2 : List Label → Prog (List Label)} {c3 c2 : Nat}
    (hb3 : BlockCost blk3 c3) (hb2 : BlockCost blk2 c2) {lvl : Nat} {nowS : List Label}
    {single s2 : List (Nat × Label)} {r : Label} {k : Nat}
    (h : Cost (wSimpleLevelWith blk3 blk2 lvl nowS single) (r, s2) k) :
    ∃ j f, k = c3 * j + c2 * f ∧ f ≤ 1 ∧ s2.length = single.length + j + f ∧ 2 * j + 1 + f ≤ nowS.length := by
  unfold wSimpleLevelWith at h
  simp only [cost_bind, cost_pure] at h
  obtain ⟨⟨n1, s1⟩, k1, _, h1, ⟨⟨n2, s2'⟩, k2, _, h2, ⟨x, k3, _, h3, ⟨e, rfl⟩, rfl⟩, rfl⟩, rfl⟩ := h
  simp only at h2 h3 e
  cases e
  obtain ⟨j, hk1, hl1, hs1⟩ := cost_wReduce3 hb3 lvl _ _ _ _ _ _ h1
  obtain ⟨hk3, hne⟩ := cost_firstOfRev h3
  simp only [List.length_reverse] at hl1
  rcases cost_wReduce2 hb2 lvl h2 with ⟨hk2, hl2, hn2, hs2⟩ | ⟨hk2, e1, e2⟩
  · exact ⟨j, 1, by rw [hk1, hk2, hk3, Nat.mul_one]; omega, by omega, by omega, by omega⟩
  · have : 1 ≤ n1.length := by
      rw [e1] at hne
      cases n1 with
      | nil => exact absurd rfl hne
      | cons _ _ => simp
    exact ⟨j, 0, by rw [hk1, hk2, hk3]; omega, by omega, by rw [e2]; omega, by omega⟩

def basisCosts : Basis → Nat × Nat
  | .xaig => (5, 2)
  | .aig => (7, 3)

theorem cost_wSimpleLevel {b : Basis} {lvl : Nat} {nowS : List Label}
    {single s2 : List (Nat × Label)} {r : Label} {k : Nat}
    (h : Cost (wSimpleLevel b lvl nowS single) (r, s2) k) :
    ∃ j f, k = (basisCosts b).1 * j + (basisCosts b).2 * f ∧ f ≤ 1 ∧ s2.length = single.length + j + f ∧
      2 * j + 1 + f ≤ nowS.length := by
  cases b with
  | xaig => exact cost_wSimpleLevelWith blockCost_sum3 blockCost_sum2 h
  | aig => exact cost_wSimpleLevelWith blockCost_sum3Aig blockCost_sum2Aig h

/-- **the naive weighted loop**: over `lv` levels, `J3` full adders and `J2 ≤ lv` half adders, and
every full adder and every level uses up one of the `n` bits -/
theorem cost_weightedNaiveLoop (b : Basis) (inf : Nat) :
    ∀ (fuel : Nat) (single res r : List (Nat × Label)) (k : Nat),
      Cost (weightedNaiveLoop b inf fuel single res) r k →
      ∃ J3 J2 lv, k = (basisCosts b).1 * J3 + (basisCosts b).2 * J2 ∧ r.length = res.length + lv ∧
        J3 + lv ≤ single.length ∧ J2 ≤ lv := by
  intro fuel
  induction fuel with
  | zero => intro single res r k h; unfold weightedNaiveLoop at h; exact absurd h cost_fail
  | succ f ih =>
    intro single res r k h
    unfold weightedNaiveLoop at h
    split at h
    · obtain ⟨rfl, rfl⟩ := cost_pure.mp h
      exact ⟨0, 0, 0, by simp, by simp, by simp, by simp⟩
    · simp only at h
      split at h
      · obtain ⟨rfl, rfl⟩ := cost_pure.mp h
        exact ⟨0, 0, 0, by simp, by simp, by simp, by simp⟩
      · cases htl : takeLevel (fun (x : Nat × Label) => x.1) (minLevel single [] inf) single with
        | mk nowS rest =>
          rw [htl] at h
          simp only [cost_bind] at h
          obtain ⟨⟨x, s'⟩, k1, k2, h1, h2, rfl⟩ := h
          simp only at h2
          obtain ⟨j, fl, hk1, hf, hs', hL⟩ := cost_wSimpleLevel h1
          obtain ⟨J3, J2, lv, hk2, hrl, hJ3, hJ2⟩ := ih _ _ _ _ h2
          have hlen := takeLevel_length _ _ _ _ _ htl
          simp only [List.length_map] at hL
          simp only [List.length_append, List.length_singleton] at hrl
          refine ⟨J3 + j, J2 + fl, lv + 1, ?_, by omega, by omega, by omega⟩
          rw [hk1, hk2, Nat.mul_add, Nat.mul_add]; omega

/-- `add_sum_n_weighted_bits_naive`, XAIG: at most `5n - 3m` gates (documented `5n - 2m`); AIG: at
most `7n - 4m` (documented `7n - 3m`) -/
theorem cost_addSumWeightedNaive {ins r : List (Nat × Label)} {basis : BasisArg} {k : Nat}
    (h : Cost (addSumWeightedNaive ins basis) r k) :
    ∃ b, basis.resolve = .ok b ∧
      (b = .xaig → k + 3 * r.length ≤ 5 * ins.length) ∧ (b = .aig → k + 4 * r.length ≤ 7 * ins.length) := by
  unfold addSumWeightedNaive at h
  split at h
  · exact absurd h cost_fail
  · rename_i b hb
    split at h
    · exact absurd h cost_fail
    · obtain ⟨J3, J2, lv, hk, hl, hJ3, hJ2⟩ := cost_weightedNaiveLoop b _ _ _ _ _ _ h
      rw [sortBy_length] at hJ3
      simp only [List.length_nil, Nat.zero_add] at hl
      refine ⟨b, hb, ?_, ?_⟩
      · intro e; subst e; simp only [basisCosts] at hk; omega
      · intro e; subst e; simp only [basisCosts] at hk; omega

end Cirbo
