import Cirbo.Proofs.GenLevels
import Cirbo.Proofs.GenArith
import Cirbo.Proofs.GenPow2
/-!
# Karatsuba multiplication (`add_mul_karatsuba*`): value and width
-/
namespace Cirbo
open GateType

theorem valLE_take_of_lt (v : Label → Bool) (l : List Label) (L : Nat) (h : valLE v l < 2 ^ L) :
    valLE v (l.take L) = valLE v l := by
  rcases Nat.lt_or_ge l.length L with hl | hl
  · rw [List.take_of_length_le (Nat.le_of_lt hl)]
  · have hs := valLE_append v (l.take L) (l.drop L)
    rw [List.take_append_drop, List.length_take, Nat.min_eq_left hl] at hs
    rw [hs] at h ⊢
    cases hd : valLE v (l.drop L) with
    | zero => simp
    | succ k =>
      exfalso
      rw [hd] at h
      have : 2 ^ L ≤ 2 ^ L * (k + 1) := Nat.le_mul_of_pos_right _ (by omega)
      omega

theorem sem_sumChain_length {v : Label → Bool} : ∀ (xs ys outs : List Label) (carry : Label) (outs' : List Label) (c' : Label),
    Sem (sumChain xs ys outs carry) v (outs', c') → outs'.length = outs.length + xs.length := by
  intro xs
  induction xs with
  | nil =>
    intro ys outs carry outs' c' h
    simp only [sumChain, sem_pure, Prod.mk.injEq] at h
    obtain ⟨rfl, rfl⟩ := h
    simp
  | cons x xs ih =>
    intro ys outs carry outs' c' h
    simp only [sumChain, sem_bind] at h
    obtain ⟨r, hr, ⟨s, c⟩, hp, hrec⟩ := h
    rw [ih _ _ _ _ _ hrec]; simp; omega

theorem sem_sumTwoCore_length {v : Label → Bool} {la lb out : List Label} (h : Sem (sumTwoCore la lb) v out) :
    out.length = la.length + 1 ∧ 1 ≤ lb.length := by
  unfold sumTwoCore at h
  split at h
  · rename_i x xs y ys
    simp only [sem_bind, sem_pure] at h
    obtain ⟨r, hr, ⟨s0, c0⟩, hp, ⟨outs, carry⟩, hc, rfl⟩ := h
    have := sem_sumChain_length _ _ _ _ _ _ hc
    simp [this]; omega
  · exact absurd h sem_fail

theorem length_revIf' (l : List Label) (be : Bool) : (revIf l be).length = l.length := by
  cases be <;> simp [revIf]

theorem sem_addSumTwoNumbers_length {v : Label → Bool} {a b out : List Label} {be : Bool}
    (h : Sem (addSumTwoNumbers a b be) v out) : out.length = max a.length b.length + 1 := by
  unfold addSumTwoNumbers at h
  simp only [sem_bind, sem_pure] at h
  obtain ⟨r, hr, rfl⟩ := h
  rw [length_revIf']
  simp only [length_revIf'] at hr
  split at hr
  · rw [(sem_sumTwoCore_length hr).1, length_revIf']; omega
  · rw [(sem_sumTwoCore_length hr).1, length_revIf']; omega

theorem sem_withShift_length {v : Label → Bool} {a b out : List Label} {be : Bool} {shift : Nat}
    (h : Sem (addSumTwoNumbersWithShift shift a b be) v out) :
    out.length = if shift ≥ a.length then shift + b.length else shift + (max (a.length - shift) b.length + 1) := by
  unfold addSumTwoNumbersWithShift at h
  simp only [sem_bind, sem_pure, length_revIf'] at h
  split at h
  · rename_i hge
    rw [if_pos hge]
    split at h
    · split at h
      · simp only [sem_bind, sem_pure] at h
        obtain ⟨zero, hz, rfl⟩ := h
        simp only [length_revIf', List.length_append, List.length_replicate]; omega
      · exact absurd h sem_fail
    · rename_i heq
      rw [sem_pure] at h; subst h
      have : shift = a.length := by simpa using heq
      simp only [length_revIf', List.length_append]; omega
  · rename_i hlt
    rw [if_neg hlt]
    simp only [sem_bind, sem_pure] at h
    obtain ⟨res, hr, rfl⟩ := h
    have := sem_addSumTwoNumbers_length hr
    simp only [length_revIf', List.length_append, List.length_take, List.length_drop, this]
    omega

theorem sem_padZeros {v : Label → Bool} {a0 : Label} : ∀ (k : Nat) (b out : List Label),
    Sem (padZeros a0 k b) v out → out.length = b.length + k ∧ valLE v out = valLE v b := by
  intro k
  induction k with
  | zero => intro b out h; simp only [padZeros, sem_pure] at h; subst h; simp
  | succ k ih =>
    intro b out h
    simp only [padZeros, sem_bind] at h
    obtain ⟨z, hz, hrec⟩ := h
    obtain ⟨h1, h2⟩ := ih _ _ hrec
    have hzv : v z = false := by rw [sem_emitTT hz]; cases v a0 <;> rfl
    refine ⟨by rw [h1]; simp; omega, ?_⟩
    rw [h2, valLE_append]; simp [valLE, bv, hzv]

/-- what Karatsuba needs from the multiplier used below the recursion threshold: on operands of the
same width `k ≥ 1` it returns their product on `2k` bits (`1` bit for `k = 1`) -/
def BaseSpec (base : List Label → List Label → Prog (List Label)) : Prop :=
  ∀ (v : Label → Bool) (a b out : List Label), a.length = b.length → 1 ≤ a.length → Sem (base a b) v out →
    valLE v out = valLE v a * valLE v b ∧ out.length = if a.length = 1 then 1 else 2 * a.length

theorem valLE_mul_lt (v : Label → Bool) (a b : List Label) : valLE v a * valLE v b < 2 ^ (a.length + b.length) := by
  rw [Nat.pow_add]; exact Nat.mul_lt_mul'' (valLE_lt v a) (valLE_lt v b)

/-- `last_step_sum_with_new_powers_sum` is such a base multiplier -/
theorem baseSpec_lastStep : BaseSpec lastStepCore := by
  intro v a b out hab ha h
  simp only [lastStepCore, sem_bind] at h
  obtain ⟨rows, hr, h⟩ := h
  obtain ⟨rows', e1, e2, e3, e4, e5⟩ := sem_ppRows _ _ _ hr
  simp only [List.nil_append] at e1; subst e1
  by_cases h1 : a.length = 1
  · simp only [h1, beq_self_eq_true, if_true] at h
    rw [if_pos h1]
    have hb1 : b.length = 1 := by omega
    match rows, e2, e3 with
    | [r0], _, e3 =>
      have hr0 := e3 r0 (by simp)
      match r0, hr0 with
      | [x], _ =>
        simp only [List.foldl_cons, List.foldl_nil, sem_bind, sem_pure] at h
        obtain ⟨l, rfl, rfl⟩ := h
        refine ⟨?_, rfl⟩
        rw [← e4]; simp [rowsVal, valLE]
      | [], hr0 => simp [h1] at hr0
      | _ :: _ :: _, hr0 => simp [h1] at hr0
    | [], e2, _ => simp [hb1] at e2
    | _ :: _ :: _, e2, _ => simp [hb1] at e2
  · have hbn : ¬ b.length = 1 := by omega
    have hbeq : (a.length == 1) = false := by simpa using h1
    have hbeq2 : (b.length == 1) = false := by simpa using hbn
    have hne : (a.length != b.length) = false := by simp [hab]
    simp only [hbeq, hbeq2, hne, Bool.false_eq_true, if_false, sem_bind] at h
    obtain ⟨res, hw, h⟩ := h
    split at h
    · exact absurd h sem_fail
    · rename_i hlen
      rw [sem_pure] at h; subst h
      rw [if_neg h1]
      obtain ⟨w1, _⟩ := sem_addSumWeighted hw
      have hlev := sem_addSumWeighted_levels hw (ppWeighted_gapless rows a.length ha e3)
      have hpos := wsum_positional v res 0 (by rw [hlev, List.range_eq_range'])
      simp only [Nat.pow_zero, Nat.one_mul] at hpos
      refine ⟨?_, by rw [List.length_map, List.length_take]; omega⟩
      have := valLE_mul_lt v a b
      have hval : valLE v (res.map (·.2)) = valLE v a * valLE v b := by
        rw [← hpos, w1, wsum_ppWeighted, e4]
      rw [List.map_take, valLE_take_of_lt v _ _ (by rw [hval]; exact this), hval]

theorem kara_arith (hA lA hB lB M R : Nat) (k : Nat) (hk : k ≤ 1) (L : Nat) (hR : R < 2 ^ L)
    (h : (hA + lA) * (hB + lB) + 2 ^ L * k = (hA * hB + lA * lB) + R) :
    lA * lB + 2 ^ M * R + 2 ^ (2 * M) * (hA * hB) = (lA + 2 ^ M * hA) * (lB + 2 ^ M * hB) := by
  have hk0 : k = 0 := by
    rcases Nat.eq_zero_or_pos k with h0 | h0
    · exact h0
    · exfalso
      have hk1 : k = 1 := by omega
      subst hk1
      have : (hA + lA) * (hB + lB) = hA * hB + hA * lB + lA * hB + lA * lB := by
        rw [Nat.add_mul, Nat.mul_add, Nat.mul_add]; omega
      rw [this] at h
      generalize hA * hB = p1 at *
      generalize lA * lB = p2 at *
      generalize hA * lB = p3 at *
      generalize lA * hB = p4 at *
      omega
  subst hk0
  have hR' : R = hA * lB + lA * hB := by
    have : (hA + lA) * (hB + lB) = hA * hB + hA * lB + lA * hB + lA * lB := by
      rw [Nat.add_mul, Nat.mul_add, Nat.mul_add]; omega
    rw [this] at h
    generalize hA * hB = p1 at *
    generalize lA * lB = p2 at *
    generalize hA * lB = p3 at *
    generalize lA * hB = p4 at *
    omega
  subst hR'
  have e2 : 2 ^ (2 * M) = 2 ^ M * 2 ^ M := by rw [Nat.two_mul, Nat.pow_add]
  rw [e2]
  generalize 2 ^ M = T
  rw [Nat.add_mul, Nat.mul_add, Nat.mul_add, Nat.mul_add]
  have a1 : T * hA * lB = T * (hA * lB) := Nat.mul_assoc _ _ _
  have a2 : lA * (T * hB) = T * (lA * hB) := by rw [Nat.mul_left_comm]
  have a3 : T * hA * (T * hB) = T * T * (hA * hB) := by
    rw [Nat.mul_assoc, Nat.mul_left_comm hA, ← Nat.mul_assoc]
  rw [a1, a2, a3]
  omega

theorem not_small {n : Nat} (h : smallSize n = false) : 18 ≤ n := by
  unfold smallSize at h
  simp only [Bool.and_eq_false_iff, decide_eq_false_iff_not, Nat.not_lt, bne_eq_false_iff_eq, beq_iff_eq] at h
  omega

/-- **Karatsuba, both variants**: for any base multiplier meeting `BaseSpec`, whenever the
recursion returns, the result is `a·b` on `|a|+|b|` bits (one less when an operand is a single bit) -/
theorem sem_karaCore {base} (hb : BaseSpec base) {v : Label → Bool} : ∀ (fuel : Nat) (a b out : List Label),
    Sem (karaCore base fuel a b) v out → 1 ≤ max a.length b.length →
    valLE v out = valLE v a * valLE v b ∧
      out.length = a.length + b.length - (if a.length == 1 || b.length == 1 then 1 else 0) := by
  intro fuel
  induction fuel with
  | zero => intro a b out h; exact absurd h sem_fail
  | succ fuel ih =>
    intro a b out h hne
    -- a sub-product on equal widths `k ≥ 2`
    have sub : ∀ (p q r : List Label), p.length = q.length → 2 ≤ p.length →
        Sem (if smallSize p.length then base p q else karaCore base fuel p q) v r →
        valLE v r = valLE v p * valLE v q ∧ r.length = 2 * p.length := by
      intro p q r hpq hp hs
      split at hs
      · obtain ⟨h1, h2⟩ := hb v p q r hpq (by omega) hs
        rw [if_neg (by omega)] at h2
        exact ⟨h1, h2⟩
      · obtain ⟨h1, h2⟩ := ih p q r hs (by omega)
        refine ⟨h1, ?_⟩
        have e1 : (p.length == 1) = false := by simp; omega
        have e2 : (q.length == 1) = false := by simp; omega
        rw [h2, e1, e2]; simp; omega
    unfold karaCore at h
    simp only [sem_bind] at h
    generalize hos : a.length + b.length - (if (a.length == 1 || b.length == 1) = true then 1 else 0) = outSize at h ⊢
    generalize hla : (if a.length < b.length then (b, a) else (a, b)) = lalb at h
    obtain ⟨la, lb⟩ := lalb
    have hswap : valLE v la * valLE v lb = valLE v a * valLE v b ∧ lb.length ≤ la.length ∧
        la.length = max a.length b.length ∧ lb.length = min a.length b.length := by
      split at hla
      · cases hla; exact ⟨Nat.mul_comm _ _, by omega, by omega, by omega⟩
      · cases hla; exact ⟨rfl, by omega, by omega, by omega⟩
    obtain ⟨hval, hle, hlmax, hlmin⟩ := hswap
    simp only [] at h
    obtain ⟨lb', hpad, h⟩ := h
    have hlb' : lb'.length = la.length ∧ valLE v lb' = valLE v lb := by
      split at hpad
      · rename_i he
        rw [sem_pure] at hpad; subst hpad
        exact ⟨(by simpa using he : la.length = lb'.length).symm, rfl⟩
      · split at hpad
        · obtain ⟨h1, h2⟩ := sem_padZeros _ _ _ hpad
          exact ⟨by rw [h1]; omega, h2⟩
        · exact absurd hpad sem_fail
    obtain ⟨hlen', hvb⟩ := hlb'
    have hprod := valLE_mul_lt v a b
    have hprod' : valLE v a * valLE v b < 2 ^ outSize := by
      rw [← hos]
      by_cases hsp : (a.length == 1 || b.length == 1) = true
      · rw [if_pos hsp]
        simp only [Bool.or_eq_true, beq_iff_eq] at hsp
        rcases hsp with h1 | h1
        · have := valLE_lt v a; rw [h1] at this
          have hb' := valLE_lt v b
          rw [h1, Nat.add_comm 1, Nat.add_sub_cancel]
          calc valLE v a * valLE v b ≤ 1 * valLE v b := Nat.mul_le_mul_right _ (by omega)
            _ < _ := by omega
        · have := valLE_lt v b; rw [h1] at this
          have ha' := valLE_lt v a
          rw [h1, Nat.add_sub_cancel]
          calc valLE v a * valLE v b ≤ valLE v a * 1 := Nat.mul_le_mul_left _ (by omega)
            _ < _ := by omega
      · rw [if_neg hsp]; exact hprod
    split at h
    · -- below the threshold: the base multiplier
      simp only [sem_bind, sem_pure] at h
      obtain ⟨r, hr, rfl⟩ := h
      obtain ⟨h1, h2⟩ := hb v la lb' r hlen'.symm (by omega) hr
      rw [hvb, hval] at h1
      refine ⟨by rw [valLE_take_of_lt v r outSize (by rw [h1]; exact hprod'), h1], ?_⟩
      rw [List.length_take, h2]
      have hos' : outSize ≤ a.length + b.length := by rw [← hos]; omega
      by_cases hl1 : la.length = 1
      · rw [if_pos hl1]
        have hsp : (a.length == 1 || b.length == 1) = true := by
          simp only [Bool.or_eq_true, beq_iff_eq]; omega
        rw [if_pos hsp] at hos
        omega
      · rw [if_neg hl1]; omega
    · rename_i hsm
      have hn18 := not_small (by simpa using hsm)
      simp only [sem_bind, sem_pure] at h
      obtain ⟨ac, hac, bd, hbd, aSumB, hsa, cSumD, hsc, big, hbig, acSumBd, hs2, resMid, hsub, res, hres, fin, hfin, rfl⟩ := h
      generalize hmid : la.length / 2 = mid at *
      have hmid1 : 9 ≤ mid := by omega
      have hmid2 : mid ≤ la.length := by omega
      obtain ⟨vac, lac⟩ := sub (la.drop mid) (lb'.drop mid) ac (by simp [hlen']) (by simp; omega) (by
        rw [List.length_drop]; exact hac)
      obtain ⟨vbd, lbd⟩ := sub (la.take mid) (lb'.take mid) bd (by simp [hlen']) (by simp; omega) (by
        have : (la.take mid).length = mid := by simp; omega
        rw [this]; exact hbd)
      have vsa := sem_addSumTwoNumbers hsa
      have lsa := sem_addSumTwoNumbers_length hsa
      have vsc := sem_addSumTwoNumbers hsc
      have lsc := sem_addSumTwoNumbers_length hsc
      simp only [revIf, Bool.false_eq_true, if_false, List.length_drop, List.length_take] at vsa lsa vsc lsc lac lbd
      obtain ⟨vbig, lbig⟩ := sub _ _ _ (by rw [lsa, lsc, hlen']) (by rw [lsa]; omega) hbig
      have vs2 := sem_addSumTwoNumbers hs2
      have ls2 := sem_addSumTwoNumbers_length hs2
      obtain ⟨lrm, k, hk, vrm⟩ := sem_addSubTwoNumbers hsub
      have vres := sem_addSumTwoNumbersWithShift hres
      have lres := sem_withShift_length hres
      have vfin := sem_addSumTwoNumbersWithShift hfin
      have lfin := sem_withShift_length hfin
      simp only [revIf, Bool.false_eq_true, if_false] at vs2 vrm vres vfin
      have htk : acSumBd.take big.length = acSumBd := List.take_of_length_le (by rw [ls2, lbig, lsa, lac, lbd]; omega)
      rw [htk, vs2, vbig, vsa, vsc, vac, vbd] at vrm
      have hsplitA : valLE v la = valLE v (la.take mid) + 2 ^ mid * valLE v (la.drop mid) := by
        conv => lhs; rw [← List.take_append_drop mid la, valLE_append]
        rw [List.length_take, Nat.min_eq_left hmid2]
      have hsplitB : valLE v lb' = valLE v (lb'.take mid) + 2 ^ mid * valLE v (lb'.drop mid) := by
        conv => lhs; rw [← List.take_append_drop mid lb', valLE_append]
        rw [List.length_take, Nat.min_eq_left (by omega)]
      have hRlt : valLE v resMid < 2 ^ big.length := by rw [← lrm]; exact valLE_lt v resMid
      have harith := kara_arith _ _ _ _ mid _ k hk big.length hRlt vrm
      have hfinv : valLE v fin = valLE v a * valLE v b := by
        rw [vfin, vres, vac, vbd, ← hval, ← hvb, hsplitA, hsplitB, ← harith]
      refine ⟨by rw [valLE_take_of_lt v fin outSize (by rw [hfinv]; exact hprod'), hfinv], ?_⟩
      rw [List.length_take]
      have hbdl : bd.length = 2 * mid := by rw [lbd, Nat.min_eq_left hmid2]
      have hbigl : big.length = 2 * (la.length - mid + 1) := by
        rw [lbig, lsa, Nat.min_eq_left hmid2]; omega
      rw [if_neg (by omega), hbdl, lrm, hbigl] at lres
      rw [if_neg (by omega), lac] at lfin
      have hos' : outSize ≤ a.length + b.length := by rw [← hos]; omega
      omega

/-- **`add_mul_karatsuba_with_efficient_sum` (MulMode.KARATSUBA)**: the result is `a·b`, on
`|a|+|b|` bits (one less when an operand is a single bit) -/
theorem sem_addMulKaratsubaEff {v : Label → Bool} {a b out : List Label} {be : Bool}
    (h : Sem (addMulKaratsubaEff a b be) v out) (hne : 1 ≤ max a.length b.length) :
    valLE v (revIf out be) = valLE v (revIf a be) * valLE v (revIf b be) ∧
      out.length = a.length + b.length - (if a.length == 1 || b.length == 1 then 1 else 0) := by
  simp only [addMulKaratsubaEff, sem_bind, sem_pure] at h
  obtain ⟨r, hr, rfl⟩ := h
  obtain ⟨h1, h2⟩ := sem_karaCore baseSpec_lastStep _ _ _ _ hr (by simpa [length_revIf'] using hne)
  simp only [length_revIf'] at h2
  exact ⟨by rw [revIf_revIf, h1], by rw [length_revIf', h2]⟩

theorem baseSpec_mulPow2M1 : BaseSpec mulPow2M1Core := baseSpec_mulPow2M1'

/-- **`add_mul_pow2_m1`**: the result is `a·b` in either endianness -/
theorem sem_addMulPow2M1 {v : Label → Bool} {a b out : List Label} {be : Bool}
    (h : Sem (addMulPow2M1 a b be) v out) :
    valLE v (revIf out be) = valLE v (revIf a be) * valLE v (revIf b be) ∧
      out.length = (if a.length = 1 then b.length else if b.length = 1 then a.length else a.length + b.length) := by
  simp only [addMulPow2M1, sem_bind, sem_pure] at h
  obtain ⟨r, hr, rfl⟩ := h
  obtain ⟨h1, h2⟩ := sem_mulPow2M1Core hr
  simp only [length_revIf'] at h2
  exact ⟨by rw [revIf_revIf, h1], by rw [length_revIf', h2]⟩

/-- `add_mul_karatsuba` relative to its base multiplier `add_mul_pow2_m1` -/
theorem sem_addMulKaratsuba_of_base (hb : BaseSpec mulPow2M1Core) {v : Label → Bool} {a b out : List Label} {be : Bool}
    (h : Sem (addMulKaratsuba a b be) v out) (hne : 1 ≤ max a.length b.length) :
    valLE v (revIf out be) = valLE v (revIf a be) * valLE v (revIf b be) ∧
      out.length = a.length + b.length - (if a.length == 1 || b.length == 1 then 1 else 0) := by
  simp only [addMulKaratsuba, sem_bind, sem_pure] at h
  obtain ⟨r, hr, rfl⟩ := h
  obtain ⟨h1, h2⟩ := sem_karaCore hb _ _ _ _ hr (by simpa [length_revIf'] using hne)
  simp only [length_revIf'] at h2
  exact ⟨by rw [revIf_revIf, h1], by rw [length_revIf', h2]⟩

/-- **`add_mul_karatsuba`** (base multiplier `add_mul_pow2_m1`) -/
theorem sem_addMulKaratsuba {v : Label → Bool} {a b out : List Label} {be : Bool}
    (h : Sem (addMulKaratsuba a b be) v out) (hne : 1 ≤ max a.length b.length) :
    valLE v (revIf out be) = valLE v (revIf a be) * valLE v (revIf b be) ∧
      out.length = a.length + b.length - (if a.length == 1 || b.length == 1 then 1 else 0) :=
  sem_addMulKaratsuba_of_base baseSpec_mulPow2M1 h hne

end Cirbo
