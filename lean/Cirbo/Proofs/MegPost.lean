import Cirbo.Proofs.PassMeg
import Cirbo.Proofs.RrgIdem
import Cirbo.Proofs.MdgPost
import Cirbo.Proofs.Func
/-!
# Postcondition of MergeEquivalentGates (C18): no two live non-input gates with the same truth table
-/
namespace Cirbo
open Circuit GateType V3

/-! ## the grouping is complete: equal rows end in the same group -/

structure GInv (done : List (Label × List V3)) (gs : List (List V3 × List Label)) : Prop where
  rowsND : (gs.map (·.1)).Nodup
  cover : ∀ p ∈ done, ∃ q ∈ gs, q.1 = p.2 ∧ p.1 ∈ q.2

theorem megGroupStep_ginv {done : List (Label × List V3)} {gs : List (List V3 × List Label)}
    (inv : GInv done gs) (p : Label × List V3) : GInv (done ++ [p]) (megGroupStep gs p) := by
  unfold megGroupStep
  by_cases hany : gs.any (fun q => q.1 == p.2) = true
  · simp only [hany, if_true]
    constructor
    · have : (gs.map (fun q => if (q.1 == p.2) = true then (q.1, q.2 ++ [p.1]) else q)).map (·.1) = gs.map (·.1) := by
        rw [List.map_map]
        apply List.map_congr_left
        intro q _
        simp only [Function.comp]
        split <;> rfl
      rw [this]; exact inv.rowsND
    · intro p' hp'
      rcases List.mem_append.mp hp' with hp' | hp'
      · obtain ⟨q, hq, h1, h2⟩ := inv.cover p' hp'
        refine ⟨if (q.1 == p.2) = true then (q.1, q.2 ++ [p.1]) else q, List.mem_map.mpr ⟨q, hq, rfl⟩, ?_, ?_⟩
        · split <;> exact h1
        · split
          · simp [h2]
          · exact h2
      · simp only [List.mem_singleton] at hp'; subst hp'
        obtain ⟨q, hq, hqe⟩ := List.any_eq_true.mp hany
        refine ⟨if (q.1 == p'.2) = true then (q.1, q.2 ++ [p'.1]) else q, List.mem_map.mpr ⟨q, hq, rfl⟩, ?_, ?_⟩
        · simp only [hqe, if_true]; simpa using hqe
        · simp only [hqe, if_true]; simp
  · simp only [hany, Bool.false_eq_true, if_false]
    constructor
    · simp only [List.map_append, List.map_cons, List.map_nil]
      refine List.nodup_append.mpr ⟨inv.rowsND, by simp, ?_⟩
      intro a ha b hb
      simp only [List.mem_singleton] at hb; subst hb
      intro e; subst e
      obtain ⟨q, hq, hqe⟩ := List.mem_map.mp ha
      exact hany (List.any_eq_true.mpr ⟨q, hq, by simpa using hqe⟩)
    · intro p' hp'
      rcases List.mem_append.mp hp' with hp' | hp'
      · obtain ⟨q, hq, h1, h2⟩ := inv.cover p' hp'
        exact ⟨q, List.mem_append_left _ hq, h1, h2⟩
      · simp only [List.mem_singleton] at hp'; subst hp'
        exact ⟨(p'.2, [p'.1]), by simp, rfl, by simp⟩

theorem megGroupFold_ginv : ∀ (ps done : List (Label × List V3)) (gs : List (List V3 × List Label)),
    GInv done gs → GInv (done ++ ps) (ps.foldl megGroupStep gs) := by
  intro ps
  induction ps with
  | nil => intro done gs h; simpa using h
  | cons p r ih =>
    intro done gs h
    simp only [List.foldl_cons]
    have := ih (done ++ [p]) _ (megGroupStep_ginv h p)
    simpa using this

/-- a label listed in some indexed group gets an index -/
theorem megIndex_def : ∀ (qs : List ((List V3 × List Label) × Nat)) (d : Dict Nat) (l : Label),
    ((d.get? l).isSome ∨ ∃ q ∈ qs, l ∈ q.1.2) → ((qs.foldl megIndexStep d).get? l).isSome := by
  intro qs
  induction qs with
  | nil =>
    intro d l h
    rcases h with h | ⟨q, hq, _⟩
    · exact h
    · cases hq
  | cons q r ih =>
    intro d l h
    simp only [List.foldl_cons]
    apply ih
    have inner : ∀ (ls : List Label) (d : Dict Nat), ((d.get? l).isSome ∨ l ∈ ls) →
        ((ls.foldl (fun d l => Dict.set d l q.2) d).get? l).isSome := by
      intro ls
      induction ls with
      | nil => intro d h; rcases h with h | h; exact h; cases h
      | cons x t ih2 =>
        intro d h
        simp only [List.foldl_cons]
        apply ih2
        rw [Dict.get?_set]
        by_cases hx : l = x
        · left; simp [hx]
        · simp only [hx, if_false]
          rcases h with h | h
          · exact Or.inl h
          · rcases List.mem_cons.mp h with h | h
            · exact absurd h hx
            · exact Or.inr h
    rcases h with h | ⟨q', hq', hl⟩
    · left; exact inner _ _ (Or.inl h)
    · rcases List.mem_cons.mp hq' with rfl | hq'
      · left; exact inner _ _ (Or.inr hl)
      · right; exact ⟨q', hq', hl⟩

theorem gtt_nodupKeys {c : Circuit} {gtt : Dict (List V3)} (hg : gatesTruthTable c = .ok gtt) : NodupKeys gtt := by
  unfold gatesTruthTable at hg
  simp only [bind, Except.bind] at hg
  split at hg
  · cases hg
  · simp only [Except.ok.injEq] at hg; subst hg
    exact nodupKeys_gtt_fold _ _ (by simp [NodupKeys])

/-- **two different gates with the same row are in one group** -/
theorem megGroups_complete {c : Circuit} {groups : Dict Nat} {gtt : Dict (List V3)}
    (hg : gatesTruthTable c = .ok gtt) (h : megGroups c = .ok groups) {l1 l2 : Label} {r : List V3}
    (h1 : (l1, r) ∈ gtt) (h2 : (l2, r) ∈ gtt) (hne : l1 ≠ l2) :
    ∃ i, groups.get? l1 = some i ∧ groups.get? l2 = some i := by
  have hnk := gtt_nodupKeys hg
  unfold megGroups at h
  simp only [hg, Except.ok.injEq] at h
  subst h
  have ginv := megGroupFold_ginv gtt [] [] ⟨by simp, by intro p hp; cases hp⟩
  simp only [List.nil_append] at ginv
  have hinv := megGroupStep_inv gtt gtt [] (fun p hp => hp) (by intro q hq; cases hq)
  obtain ⟨q1, hq1, e1, m1⟩ := ginv.cover _ h1
  obtain ⟨q2, hq2, e2, m2⟩ := ginv.cover _ h2
  simp only at e1 e2 m1 m2
  -- the rows of groups are distinct, so it is the same group
  have hqq : q1 = q2 := by
    have key : ∀ (gs : List (List V3 × List Label)), (gs.map (·.1)).Nodup → ∀ a ∈ gs, ∀ b ∈ gs, a.1 = b.1 → a = b := by
      intro gs
      induction gs with
      | nil => intro _ a ha; cases ha
      | cons x t ih =>
        intro hnd a ha b hb hab
        simp only [List.map_cons, List.nodup_cons, List.mem_map, not_exists, not_and] at hnd
        simp only [List.mem_cons] at ha hb
        rcases ha with rfl | ha <;> rcases hb with rfl | hb
        · rfl
        · exact absurd hab.symm (hnd.1 b hb)
        · exact absurd hab (hnd.1 a ha)
        · exact ih hnd.2 a ha b hb hab
    exact key _ ginv.rowsND q1 hq1 q2 hq2 (e1.trans e2.symm)
  subst hqq
  -- it has two members, so it is indexed
  have hlen : q1.2.length > 1 := by
    rcases hq : q1.2 with _ | ⟨a, _ | ⟨b, t⟩⟩
    · rw [hq] at m1; cases m1
    · rw [hq] at m1 m2; simp only [List.mem_singleton] at m1 m2; exact absurd (m1.trans m2.symm) hne
    · simp
  have hbig : q1 ∈ (gtt.foldl megGroupStep []).filter (fun q => q.2.length > 1) :=
    List.mem_filter.mpr ⟨hq1, by simpa using hlen⟩
  obtain ⟨j, hj⟩ : ∃ j, (q1, j) ∈ ((gtt.foldl megGroupStep []).filter (fun q => q.2.length > 1)).zipIdx := by
    obtain ⟨j, hjl, hje⟩ := List.getElem_of_mem hbig
    exact ⟨j, by rw [List.mem_zipIdx_iff_getElem?]; simp [hjl, hje]⟩
  have d1 := megIndex_def _ [] l1 (Or.inr ⟨(q1, j), hj, m1⟩)
  have d2 := megIndex_def _ [] l2 (Or.inr ⟨(q1, j), hj, m2⟩)
  -- whatever index a member has, it is the index of its (only) group
  have idx : ∀ l ∈ q1.2, ∀ i, ((((gtt.foldl megGroupStep []).filter (fun q => q.2.length > 1)).zipIdx).foldl megIndexStep []).get? l = some i → i = j := by
    intro l hl i hi
    rcases megIndex_inv _ _ l i hi with h3 | ⟨q', hq', hqi, hql⟩
    · simp [Dict.get?] at h3
    · have hq'mem : q'.1 ∈ gtt.foldl megGroupStep [] := (List.mem_filter.mp (List.fst_mem_of_mem_zipIdx hq')).1
      -- same label in two groups: same row (keys of the table are distinct), hence the same group
      have r1 := get?_eq_of_mem hnk (hinv q'.1 hq'mem l hql)
      have r2 := get?_eq_of_mem hnk (hinv q1 hq1 l hl)
      rw [r1] at r2
      simp only [Option.some.injEq] at r2
      have key : ∀ (gs : List (List V3 × List Label)), (gs.map (·.1)).Nodup → ∀ a ∈ gs, ∀ b ∈ gs, a.1 = b.1 → a = b := by
        intro gs
        induction gs with
        | nil => intro _ a ha; cases ha
        | cons x t ih =>
          intro hnd a ha b hb hab
          simp only [List.map_cons, List.nodup_cons, List.mem_map, not_exists, not_and] at hnd
          simp only [List.mem_cons] at ha hb
          rcases ha with rfl | ha <;> rcases hb with rfl | hb
          · rfl
          · exact absurd hab.symm (hnd.1 b hb)
          · exact absurd hab (hnd.1 a ha)
          · exact ih hnd.2 a ha b hb hab
      have hsame : q'.1 = q1 := key _ ginv.rowsND _ hq'mem _ hq1 r2
      -- a list without repetitions holds an element at one index only
      have hbnd : ((gtt.foldl megGroupStep []).filter (fun q => q.2.length > 1)).Nodup := by
        have : (gtt.foldl megGroupStep []).Nodup :=
          List.Pairwise.of_map (·.1) (fun a b (hab : a.1 ≠ b.1) => fun e => hab (by rw [e])) ginv.rowsND
        exact this.filter _
      rw [List.mem_zipIdx_iff_getElem?] at hq' hj
      simp only [Nat.zero_add] at hq' hj
      rw [hsame] at hq'
      rw [← hqi]
      have hlt : q'.2 < ((gtt.foldl megGroupStep []).filter (fun q => q.2.length > 1)).length := by
        rcases Nat.lt_or_ge q'.2 ((gtt.foldl megGroupStep []).filter (fun q => q.2.length > 1)).length with h | h
        · exact h
        · rw [List.getElem?_eq_none h] at hq'; cases hq'
      exact (List.getElem?_inj hlt hbnd).mp (hq'.trans hj.symm)
  obtain ⟨i1, hi1⟩ := Option.isSome_iff_exists.mp d1
  obtain ⟨i2, hi2⟩ := Option.isSome_iff_exists.mp d2
  have := idx l1 m1 i1 hi1
  have := idx l2 m2 i2 hi2
  subst_vars
  exact ⟨_, hi1, hi2⟩

/-! ## the lazily chosen representatives -/

/-- `o` is what its group (if it has one) is represented by -/
def Emit (groups : Dict Nat) (keep : Keep) (o : Label) : Prop :=
  ∀ gid, groups.get? o = some gid → keep.lookup gid = some o

/-- representatives belong to the group they stand for -/
def KeepOK (groups : Dict Nat) (keep : Keep) : Prop :=
  ∀ gid r, keep.lookup gid = some r → groups.get? r = some gid

def KeepLE (k1 k2 : Keep) : Prop := ∀ gid r, k1.lookup gid = some r → k2.lookup gid = some r

theorem emit_mono {groups : Dict Nat} {k1 k2 : Keep} (h : KeepLE k1 k2) {o : Label} (he : Emit groups k1 o) :
    Emit groups k2 o := fun gid hg => h gid o (he gid hg)

theorem megName_emit {groups : Dict Nat} {keep : Keep} (hk : KeepOK groups keep) (l : Label) :
    Emit groups (megName groups keep l).2 (megName groups keep l).1 ∧
    KeepOK groups (megName groups keep l).2 ∧ KeepLE keep (megName groups keep l).2 := by
  unfold megName
  cases hg : groups.get? l with
  | none => exact ⟨fun gid h => (by rw [hg] at h; cases h), hk, fun _ _ h => h⟩
  | some gid =>
    simp only
    cases hl : keep.lookup gid with
    | some r =>
      simp only
      refine ⟨?_, hk, fun _ _ h => h⟩
      intro gid' hg'
      have := hk gid r hl
      rw [this] at hg'
      simp only [Option.some.injEq] at hg'
      subst hg'; exact hl
    | none =>
      simp only
      refine ⟨?_, ?_, ?_⟩
      · intro gid' hg'
        rw [hg] at hg'
        simp only [Option.some.injEq] at hg'
        subst hg'
        rw [List.lookup_append, hl]
        simp
      · intro gid' r hr
        rw [List.lookup_append] at hr
        cases hl2 : keep.lookup gid' with
        | some r2 =>
          rw [hl2] at hr
          have : r2 = r := by simpa using hr
          subst this; exact hk gid' r2 hl2
        | none =>
          rw [hl2] at hr
          simp only [Option.none_or, List.lookup_cons, List.lookup_nil] at hr
          split at hr
          · rename_i heq
            simp only [Option.some.injEq] at hr; subst hr
            have : gid' = gid := by simpa using heq
            subst this; exact hg
          · cases hr
      · intro gid' r hr
        exact lookup_append_some hr

theorem megNames_emit {groups : Dict Nat} : ∀ (ls : List Label) (keep : Keep), KeepOK groups keep →
    (∀ x ∈ (megNames groups keep ls).1, Emit groups (megNames groups keep ls).2 x) ∧
    KeepOK groups (megNames groups keep ls).2 ∧ KeepLE keep (megNames groups keep ls).2 := by
  intro ls
  induction ls with
  | nil => intro keep hk; exact ⟨(by intro x hx; cases hx), hk, fun _ _ h => h⟩
  | cons l r ih =>
    intro keep hk
    obtain ⟨e1, k1, le1⟩ := megName_emit hk l
    obtain ⟨e2, k2, le2⟩ := ih (megName groups keep l).2 k1
    simp only [megNames]
    refine ⟨?_, k2, fun g x h => le2 g x (le1 g x h)⟩
    intro x hx
    rcases List.mem_cons.mp hx with rfl | hx
    · exact emit_mono le2 e1
    · exact e2 x hx

/-- invariant of the rebuild: every operand written so far is the representative of its group -/
structure EInv (groups : Dict Nat) (st : Circuit × Keep) : Prop where
  ok : KeepOK groups st.2
  ops : ∀ g ∈ st.1.gates, ∀ o ∈ g.ops, Emit groups st.2 o

theorem megStep_einv {c : Circuit} {groups : Dict Nat} {st st' : Circuit × Keep} {l : Label}
    (hi : EInv groups st) (h : megStep c groups (.ok st) l = .ok st') : EInv groups st' := by
  obtain ⟨n, keep⟩ := st
  unfold megStep at h
  simp only at h
  cases hf : c.find? l with
  | none => simp [hf] at h
  | some g =>
    simp only [hf] at h
    obtain ⟨e, k, le⟩ := megNames_emit g.ops keep hi.ok
    cases hm : megNames groups keep g.ops with
    | mk ops keep' =>
      rw [hm] at h e k le
      simp only at h e k le
      cases ha : n.addGate ⟨g.label, g.ty, ops⟩ with
      | error e => simp [ha] at h
      | ok n' =>
        simp only [ha, Except.ok.injEq] at h; subst h
        obtain ⟨_, _, hg1, _⟩ := addGate_fields ha
        refine ⟨k, ?_⟩
        intro x hx o ho
        simp only at hx
        rw [hg1] at hx
        rcases List.mem_append.mp hx with hx | hx
        · exact emit_mono le (hi.ops x hx o ho)
        · simp only [List.mem_singleton] at hx; subst hx
          exact e o ho

theorem megFold_einv {c : Circuit} {groups : Dict Nat} : ∀ (ls : List Label) (st st' : Circuit × Keep),
    EInv groups st → ls.foldl (megStep c groups) (.ok st) = .ok st' → EInv groups st' := by
  intro ls
  induction ls with
  | nil => intro st st' hi h; simp only [List.foldl_nil, Except.ok.injEq] at h; subst h; exact hi
  | cons l r ih =>
    intro st st' hi h
    simp only [List.foldl_cons] at h
    cases hs : megStep c groups (.ok st) l with
    | error e => rw [hs, megStep_error] at h; cases h
    | ok s1 => rw [hs] at h; exact ih s1 st' (megStep_einv hi hs) h

/-- what `meg` leaves behind: one table of representatives that every operand of the result and every
output obeys -/
theorem meg_emit {c c' : Circuit} (h : meg c = .ok c') :
    ∃ groups keep, megGroups c = .ok groups ∧
      (∀ g ∈ c'.gates, ∀ o ∈ g.ops, Emit groups keep o) ∧ (∀ o ∈ c'.outputs, Emit groups keep o) := by
  unfold meg at h
  cases hgr : megGroups c with
  | error e => simp [hgr] at h
  | ok groups =>
    simp only [hgr] at h
    cases htr : traverse c false false (some c.outputs) true with
    | error e => simp [htr] at h
    | ok log =>
      simp only [htr] at h
      cases hf : (hookLabels log true).foldl (megStep c groups) (.ok (Circuit.empty, [])) with
      | error e => simp [hf] at h
      | ok st =>
        obtain ⟨n1, keep⟩ := st
        simp only [hf] at h
        cases hsi : n1.setInputs c.inputs with
        | error e => simp [hsi] at h
        | ok n2 =>
          simp only [hsi] at h
          have inv := megFold_einv (c := c) (groups := groups) _ (Circuit.empty, []) (n1, keep)
            ⟨(by intro g r h; simp at h), (by intro g hg; simp [Circuit.empty] at hg)⟩ hf
          obtain ⟨e, _, le⟩ := megNames_emit c.outputs keep inv.ok
          obtain ⟨hoc, _⟩ := setOutputs_outputs h
          have hgc : c'.gates = n1.gates := by rw [setOutputs_gates h, setInputs_gates hsi]
          refine ⟨groups, (megNames groups keep c.outputs).2, rfl, ?_, ?_⟩
          · intro g hg o ho
            rw [hgc] at hg
            exact emit_mono le (inv.ops g hg o ho)
          · intro o ho
            rw [hoc] at ho
            exact e o ho

/-! ## equal functions have equal rows -/

/-- the assignment that gives the inputs, in order, the bits `bs` -/
def asgOfBits (ins : List Label) (bs : List Bool) : Label → Bool :=
  fun l => (bs[ins.idxOf l]?).getD false

theorem map_asgOfBits : ∀ (ins : List Label) (bs : List Bool), ins.Nodup → bs.length = ins.length →
    ins.map (asgOfBits ins bs) = bs := by
  intro ins
  induction ins with
  | nil => intro bs _ h; cases bs with
    | nil => rfl
    | cons a t => simp at h
  | cons i r ih =>
    intro bs hnd hl
    cases bs with
    | nil => simp at hl
    | cons b t =>
      have hnd' := List.nodup_cons.mp hnd
      simp only [List.map_cons, List.cons.injEq]
      constructor
      · simp [asgOfBits, List.idxOf_cons_self]
      · have := ih t hnd'.2 (by simpa using hl)
        rw [← this]
        apply List.map_congr_left
        intro x hx
        have hxi : x ≠ i := by intro e; subst e; exact hnd'.1 hx
        have hxi' : (i == x) = false := by simpa using fun e : i = x => hxi e.symm
        simp only [asgOfBits, List.idxOf_cons, hxi', cond_false, List.getElem?_cons_succ]
        rw [this]

/-- two gates with the same value under every valuation have the same row of the per-gate table -/
theorem equal_fun_equal_rows {c : Circuit} (hu : WFU c) {gtt : Dict (List V3)} (hg : gatesTruthTable c = .ok gtt)
    {l1 l2 : Label} (h1 : l1 ∈ c.labels) (h2 : l2 ∈ c.labels)
    (heq : ∀ b v, IsValB c b v → v l1 = v l2) :
    ∃ r, (l1, r) ∈ gtt ∧ (l2, r) ∈ gtt := by
  -- a family of valuations, one per input vector
  have hex : ∀ bs : List Bool, ∃ v, IsValB c (asgOfBits c.inputs bs) v := fun bs => valB_exists hu _
  let V : List Bool → Label → Bool := fun bs => Classical.choose (hex bs)
  have hV : ∀ bs, IsValB c (asgOfBits c.inputs bs) (V bs) := fun bs => Classical.choose_spec (hex bs)
  have hB : ∀ bs ∈ allInputs c.inputs.length,
      c.inputs.map (asgOfBits c.inputs bs) = bs ∧ IsValB c (asgOfBits c.inputs bs) (V bs) := by
    intro bs hbs
    exact ⟨map_asgOfBits _ _ hu.inputsNodup ((mem_allInputs bs _).mp hbs), hV bs⟩
  have r1 := gatesTruthTable_spec hu hg (asgOfBits c.inputs) V hB h1
  have r2 := gatesTruthTable_spec hu hg (asgOfBits c.inputs) V hB h2
  have hrows : (gtt.get? l1).getD [] = (gtt.get? l2).getD [] := by
    rw [r1, r2]
    apply List.map_congr_left
    intro bs _
    rw [heq _ _ (hV bs)]
  -- the rows are not empty, so both labels are keys of the table
  have hne : (allInputs c.inputs.length).map (fun bs => ofBool (V bs l1)) ≠ [] := by
    intro e
    exact allInputs_ne_nil _ (List.map_eq_nil_iff.mp e)
  have mem_of : ∀ l, (gtt.get? l).getD [] ≠ [] → (l, (gtt.get? l).getD []) ∈ gtt := by
    intro l hl
    cases hgl : gtt.get? l with
    | none => rw [hgl] at hl; exact absurd rfl hl
    | some r =>
      simp only [Option.getD_some]
      have : ∀ (d : Dict (List V3)), d.get? l = some r → (l, r) ∈ d := by
        intro d
        induction d with
        | nil => intro h; simp [Dict.get?] at h
        | cons p t ih =>
          obtain ⟨a, b⟩ := p
          intro h
          simp only [Dict.get?] at h
          split at h
          · rename_i hk
            simp only [Option.some.injEq] at h
            have : l = a := by simpa using hk
            subst this; subst h; simp
          · exact List.mem_cons_of_mem _ (ih h)
      exact this gtt hgl
  refine ⟨(gtt.get? l1).getD [], mem_of l1 (by rw [r1]; exact hne), ?_⟩
  rw [hrows]
  exact mem_of l2 (by rw [← hrows, r1]; exact hne)

/-! ## the postcondition -/

/-- among the gates of the result that the outputs depend on, no two different ones compute the same
function -/
theorem meg_no_equivalent {c c' : Circuit} (hw : WFS c) (har : ArOK c) (h : meg c = .ok c') :
    ∀ g1 ∈ c'.gates, ∀ g2 ∈ c'.gates, Reach c'.opsOf c'.outputs g1.label → Reach c'.opsOf c'.outputs g2.label →
      (∀ b v, IsValB c b v → v g1.label = v g2.label) → g1 = g2 := by
  obtain ⟨w', _, _, sh, _⟩ := meg_spec' hw har h
  obtain ⟨groups, keep, hgr, hops, houts⟩ := meg_emit h
  obtain ⟨gtt, hgtt, _⟩ := megGroups_sound hgr
  have hu := WFU.ofWFS hw har
  have hreach : ∀ l, Reach c'.opsOf c'.outputs l → Emit groups keep l := by
    intro l hl
    induction hl with
    | base hm => exact houts _ hm
    | @step u l' hu' hm _ =>
      by_cases hul : u ∈ c'.labels
      · obtain ⟨g', hg', hgl⟩ : ∃ g ∈ c'.gates, g.label = u := by simpa [Circuit.labels] using hul
        rw [← hgl, opsOf_gate w'.nodup hg'] at hm
        exact hops g' hg' l' hm
      · rw [opsOf_not_mem hul] at hm; cases hm
  intro g1 hg1 g2 hg2 hr1 hr2 heq
  have hl : g1.label = g2.label := by
    apply Classical.byContradiction
    intro hne
    obtain ⟨a1, ha1, hal1, _⟩ := sh g1 hg1
    obtain ⟨a2, ha2, hal2, _⟩ := sh g2 hg2
    have m1 : g1.label ∈ c.labels := by rw [hal1]; exact mem_labels_of_mem ha1
    have m2 : g2.label ∈ c.labels := by rw [hal2]; exact mem_labels_of_mem ha2
    obtain ⟨r, hr1', hr2'⟩ := equal_fun_equal_rows hu hgtt m1 m2 heq
    obtain ⟨i, hi1, hi2⟩ := megGroups_complete hgtt hgr hr1' hr2' hne
    have e1 := hreach _ hr1 i hi1
    have e2 := hreach _ hr2 i hi2
    rw [e1] at e2
    exact hne (by simpa using e2)
  exact label_inj w'.nodup hg1 hg2 hl

/-- **MergeEquivalentGates** (the pass with its implied `RemoveRedundantGates()`): no two different
non-input gates of the final circuit have the same truth table — if two of them agree under every
valuation, they are one gate -/
theorem meg_rrg_no_equivalent {c c' c'' : Circuit} {allow : Bool} (hw : WFS c) (har : ArOK c)
    (h : meg c = .ok c') (h2 : rrg allow c' = .ok c'') :
    ∀ g1 ∈ c''.gates, ∀ g2 ∈ c''.gates, g1.ty ≠ INPUT → g2.ty ≠ INPUT →
      (∀ b v, IsValB c'' b v → v g1.label = v g2.label) → g1 = g2 := by
  obtain ⟨w', _, _, _, hval⟩ := meg_spec' hw har h
  obtain ⟨w'', hsub, hval2, _, _, _, _, hlab⟩ := rrg_spec w' h2
  intro g1 hg1 g2 hg2 ht1 ht2 heq
  have hg1' := hsub g1 hg1
  have hne : c'.gates ≠ [] := by intro e; rw [e] at hg1'; cases hg1'
  have reach : ∀ g ∈ c''.gates, g.ty ≠ INPUT → Reach c'.opsOf c'.outputs g.label := by
    intro g hg ht
    rcases (hlab hne g.label).mp (mem_labels_of_mem hg) with hr | ⟨_, hin⟩
    · exact hr
    · obtain ⟨gi, hgi, hgil, hgit⟩ := (w'.inputsOK g.label).mp hin
      have := find_label w'.nodup hgi
      rw [hgil, find_label w'.nodup (hsub g hg)] at this
      simp only [Option.some.injEq] at this
      subst this
      exact absurd hgit ht
  exact meg_no_equivalent hw har h g1 hg1' g2 (hsub g2 hg2) (reach g1 hg1 ht1) (reach g2 hg2 ht2)
    (fun b v hv => heq b v (hval2 b v (hval b v hv).1))

end Cirbo
