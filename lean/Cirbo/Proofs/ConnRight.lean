import Cirbo.Proofs.ConnFull
import Cirbo.Proofs.BenchWfs
/-!
# `connect_circuit(right_connect=True)`: semantics of the right direction
-/
namespace Cirbo
open GateType Circuit

theorem get?_zipFold_mem_zip : ∀ (ps : List (Label × Label)) (m : Dict Label) (k x : Label),
    Dict.get? (ps.foldl (fun m p => Dict.set m p.1 p.2) m) k = some x → (k, x) ∈ ps ∨ Dict.get? m k = some x := by
  intro ps
  induction ps with
  | nil => intro m k x h; exact Or.inr h
  | cons p r ih =>
    intro m k x h
    simp only [List.foldl_cons] at h
    rcases ih _ k x h with h1 | h1
    · exact Or.inl (by simp [h1])
    · by_cases hk : k = p.1
      · subst hk
        rw [Dict.get?_set] at h1
        simp only [if_true] at h1
        left; simp only [List.mem_cons]; left
        cases h1; rfl
      · rw [Dict.get?_set] at h1
        simp only [hk, if_false] at h1
        exact Or.inr h1

/-- what the right-direction loop has established for the gates of `other` processed so far -/
structure CInvR (c other : Circuit) (mapping : Dict Label) (pre : String) (done : List Label) (st : ConnSt) : Prop where
  added : ∀ cur ∈ done, ∀ g, other.find? cur = some g → Dict.contains mapping cur = false →
    Dict.get? st.o2n cur = some (pre ++ cur) ∧ pre ++ cur ∉ c.labels ∧
    ∃ ops', All2 (fun l x => Dict.get? st.o2n l = some x) g.ops ops' ∧ (⟨pre ++ cur, g.ty, ops'⟩ : Gate) ∈ st.c.gates
  conn : ∀ cur ∈ done, ∀ g, other.find? cur = some g → ∀ lbl, Dict.get? mapping cur = some lbl →
    ∃ ops', All2 (fun l x => Dict.get? st.o2n l = some x) g.ops ops' ∧ (⟨lbl, g.ty, ops'⟩ : Gate) ∈ st.c.gates
  mapped : ∀ l x, Dict.get? mapping l = some x → Dict.get? st.o2n l = some x
  lab : ∀ l ∈ c.labels, l ∈ st.c.labels
  base : ∀ g ∈ c.gates, (∀ k, Dict.get? mapping k ≠ some g.label) → g ∈ st.c.gates
  outs : st.c.outputs = c.outputs
  blks : st.c.blocks = c.blocks

theorem mem_map_replG {G : List Gate} {g' y : Gate} (hy : y ∈ G) (hne : y.label ≠ g'.label) : y ∈ G.map (replG g') := by
  refine List.mem_map.mpr ⟨y, hy, ?_⟩
  unfold replG
  rw [if_neg (by simpa using hne)]

theorem mem_replG_self {G : List Gate} {g' : Gate} (h : g'.label ∈ G.map (·.label)) : g' ∈ G.map (replG g') := by
  obtain ⟨x, hx, hxl⟩ := List.mem_map.mp h
  refine List.mem_map.mpr ⟨x, hx, ?_⟩
  unfold replG
  rw [if_pos (by simpa using hxl)]

theorem get?_mem_values : ∀ (m : Dict Label) (k x : Label), Dict.get? m k = some x → x ∈ m.map (·.2) := by
  intro m
  induction m with
  | nil => intro k x h; simp [Dict.get?] at h
  | cons p r ih =>
    intro k x h
    obtain ⟨a, b⟩ := p
    simp only [Dict.get?] at h
    split at h
    · cases h; simp
    · simp only [List.map_cons, List.mem_cons]; right; exact ih k x h

theorem foldl_addUser_labels (ops : List Label) (c : Circuit) (u : Label) :
    (ops.foldl (fun c o => c.addUser o u) c).labels = c.labels := by
  unfold Circuit.labels; rw [(foldl_addUser_gates ops c u).1]

theorem connLoopR_sem {c other : Circuit} {mapping : Dict Label} {pre : String}
    (hinj : ∀ k1 k2 x, Dict.get? mapping k1 = some x → Dict.get? mapping k2 = some x → k1 = k2)
    (hvals : ∀ k x, Dict.get? mapping k = some x → x ∈ c.labels) :
    ∀ (rest done : List Label) (st0 st : ConnSt), (done ++ rest).Nodup →
      (∀ cur ∈ done ++ rest, ∀ g, other.find? cur = some g → ∀ o ∈ g.ops, ∀ p q, done ++ rest = p ++ cur :: q → o ∈ p) →
      CInvR c other mapping pre done st0 →
      rest.foldl (connStep other mapping pre true) (.ok st0) = .ok st →
      CInvR c other mapping pre (done ++ rest) st := by
  intro rest
  induction rest with
  | nil => intro done st0 st _ _ hi h; simp at h; subst h; simpa using hi
  | cons cur rest ih =>
    intro done st0 st hnd hto hi h
    simp only [List.foldl_cons] at h
    cases hs : connStep other mapping pre true (.ok st0) cur with
    | error e => rw [hs, foldl_connStep_error] at h; cases h
    | ok st1 =>
      rw [hs] at h
      have hcur : cur ∉ done := by
        intro hm
        have := List.nodup_append.mp hnd
        exact this.2.2 cur hm cur (by simp) rfl
      -- operands of an earlier gate are earlier themselves, hence not `cur`
      have hops_ne : ∀ x ∈ done, ∀ gx, other.find? x = some gx → ∀ o ∈ gx.ops, o ≠ cur := by
        intro x hx gx hfx o ho e
        subst e
        obtain ⟨p, q, hpq⟩ := List.append_of_mem hx
        have := hto x (by simp [hx]) gx hfx o ho p (q ++ o :: rest) (by rw [hpq]; simp)
        have hd : o ∈ done := by rw [hpq]; simp [this]
        exact hcur hd
      have key : CInvR c other mapping pre (done ++ [cur]) st1 := by
        unfold connStep at hs
        simp only at hs
        cases hf : other.find? cur with
        | none => simp [hf] at hs
        | some g =>
          simp only [hf] at hs
          split at hs
          · rename_i hnm
            have hnm' : Dict.contains mapping cur = false := by simpa using hnm
            cases hm : mapLabels (Dict.set st0.o2n cur (pre ++ cur)) g.ops with
            | error e => simp [hm] at hs
            | ok ops =>
              simp only [hm] at hs
              cases ha : st0.c.addGate ⟨pre ++ cur, g.ty, ops⟩ with
              | error e => simp [ha] at hs
              | ok c1 =>
                simp only [ha, Except.ok.injEq] at hs
                subst hs
                obtain ⟨hfr, _, hg1, _, ho1, hb1, _⟩ := addGate_fields ha
                have hmono : ∀ x ∈ done, ∀ gx, other.find? x = some gx → ∀ ops',
                    All2 (fun l y => Dict.get? st0.o2n l = some y) gx.ops ops' →
                    All2 (fun l y => Dict.get? (Dict.set st0.o2n cur (pre ++ cur)) l = some y) gx.ops ops' := by
                  intro x hx gx hfx ops' e2
                  apply all2_mono e2
                  intro o ho y hy
                  have := hops_ne x hx gx hfx o ho
                  simp [Dict.get?_set, this, hy]
                refine ⟨?_, ?_, ?_, ?_, ?_, ?_, by simp only; rw [hb1]; exact hi.blks⟩
                · intro x hx gx hfx hnx
                  simp only [List.mem_append, List.mem_singleton] at hx
                  rcases hx with hx | rfl
                  · obtain ⟨e1, e0, ops', e2, e3⟩ := hi.added x hx gx hfx hnx
                    have hxc : x ≠ cur := fun e => hcur (e ▸ hx)
                    exact ⟨by simp [Dict.get?_set, hxc, e1], e0, ops', hmono x hx gx hfx ops' e2, by rw [hg1]; simp [e3]⟩
                  · rw [hf] at hfx; cases hfx
                    refine ⟨by simp [Dict.get?_set], fun hc => hfr (hi.lab _ hc), ops, mapLabels_spec _ _ _ hm, by rw [hg1]; simp⟩
                · intro x hx gx hfx lbl hl
                  simp only [List.mem_append, List.mem_singleton] at hx
                  rcases hx with hx | rfl
                  · obtain ⟨ops', e2, e3⟩ := hi.conn x hx gx hfx lbl hl
                    exact ⟨ops', hmono x hx gx hfx ops' e2, by rw [hg1]; simp [e3]⟩
                  · simp [Dict.contains, hl] at hnm'
                · intro l x hl
                  have : l ≠ cur := by
                    intro e; subst e
                    simp [Dict.contains, hl] at hnm'
                  simp [Dict.get?_set, this, hi.mapped l x hl]
                · intro l hl
                  have := hi.lab l hl
                  unfold Circuit.labels at this ⊢
                  rw [hg1]; simp [this]
                · intro gb hgb hgn
                  rw [hg1]; simp [hi.base gb hgb hgn]
                · simp only; rw [ho1]; exact hi.outs
          · rename_i hnm
            simp only [if_true] at hs
            have hcm : Dict.contains mapping cur = true := by simpa using hnm
            cases hgo : Dict.get? st0.o2n cur with
            | none => simp [hgo] at hs
            | some lbl =>
              simp only [hgo] at hs
              cases hm : mapLabels st0.o2n g.ops with
              | error e => simp [hm] at hs
              | ok ops =>
                simp only [hm, Except.ok.injEq] at hs
                -- `lbl` is the base input `cur` was paired with
                obtain ⟨lbl', hl'⟩ : ∃ l, Dict.get? mapping cur = some l := by
                  unfold Dict.contains at hcm
                  cases hg : Dict.get? mapping cur with
                  | none => simp [hg] at hcm
                  | some l => exact ⟨l, rfl⟩
                have hll : lbl' = lbl := by
                  have := hi.mapped cur lbl' hl'
                  rw [hgo] at this; cases this; rfl
                subst hll
                have hlc : lbl' ∈ c.labels := hvals cur _ hl'
                have hls : lbl' ∈ st0.c.labels := hi.lab _ hlc
                have hhas : (g.ops.length = g.ops.length) → (ops.foldl (fun c o => c.addUser o lbl') st0.c).hasGate lbl' = true := by
                  intro _
                  rw [hasGate_iff, foldl_addUser_labels]; exact hls
                rw [if_pos (hhas rfl)] at hs
                subst hs
                have hgates : ((ops.foldl (fun c o => c.addUser o lbl') st0.c).setGate ⟨lbl', g.ty, ops⟩).gates =
                    st0.c.gates.map (replG ⟨lbl', g.ty, ops⟩) := by
                  rw [(setGate_fields _ _).1, (foldl_addUser_gates _ _ _).1]
                have hblk2 : ∀ (ops : List Label) (cc : Circuit), (ops.foldl (fun c o => c.addUser o lbl') cc).blocks = cc.blocks := by
                  intro ops
                  induction ops with
                  | nil => intro cc; rfl
                  | cons o r ih => intro cc; simp only [List.foldl_cons]; rw [ih, addUser_blocks]
                refine ⟨?_, ?_, hi.mapped, ?_, ?_, ?_, by simp only; rw [setGate_blocks, hblk2]; exact hi.blks⟩
                · intro x hx gx hfx hnx
                  simp only [List.mem_append, List.mem_singleton] at hx
                  rcases hx with hx | rfl
                  · obtain ⟨e1, e0, ops', e2, e3⟩ := hi.added x hx gx hfx hnx
                    refine ⟨e1, e0, ops', e2, ?_⟩
                    simp only; rw [hgates]
                    exact mem_map_replG e3 (fun e => e0 (by simp at e; rw [e]; exact hlc))
                  · rw [hcm] at hnx; cases hnx
                · intro x hx gx hfx lbl hl
                  simp only [List.mem_append, List.mem_singleton] at hx
                  rcases hx with hx | rfl
                  · obtain ⟨ops', e2, e3⟩ := hi.conn x hx gx hfx lbl hl
                    refine ⟨ops', e2, ?_⟩
                    simp only; rw [hgates]
                    refine mem_map_replG e3 (fun e => ?_)
                    simp at e
                    subst e
                    exact hcur ((hinj x cur lbl hl hl') ▸ hx)
                  · rw [hf] at hfx; cases hfx
                    rw [hl'] at hl; cases hl
                    refine ⟨ops, mapLabels_spec _ _ _ hm, ?_⟩
                    simp only; rw [hgates]
                    exact mem_replG_self (by simpa [Circuit.labels] using hls)
                · intro l hl
                  have := hi.lab l hl
                  unfold Circuit.labels at this ⊢
                  rw [hgates, labels_map_replG]; exact this
                · intro gb hgb hgn
                  simp only; rw [hgates]
                  refine mem_map_replG (hi.base gb hgb hgn) (fun e => hgn cur ?_)
                  simp at e
                  rw [e]; exact hl'
                · simp only
                  rw [(setGate_fields _ _).2.2, (foldl_addUser_gates _ _ _).2.2]; exact hi.outs
      have := ih (done ++ [cur]) st1 st (by simpa using hnd) (by simpa using hto) key h
      simpa using this

/-- the successful run of a right connection, step by step -/
theorem connect_right_unfold {c other c' : Circuit} {thisC otherC : List Label} {name : Label} {addP : Bool}
    (h : c.connectCircuit other thisC otherC true name addP = .ok c') :
    ∃ order st, other.topSort true = .ok order ∧
      order.foldl (connStep other (connMapping thisC otherC) (connPre name addP) true)
        (.ok ⟨c, connMapping thisC otherC, []⟩) = .ok st ∧
      connFinish c other st thisC otherC name (connPre name addP) = .ok c' ∧
      c.blocks.any (fun b => b.name == name) = false ∧
      nodupL thisC = true ∧ thisC.length = otherC.length ∧
      (∀ l ∈ thisC, (c.find? l).map (·.ty) = some INPUT) ∧
      (∀ l ∈ thisC, l ∈ c.labels) ∧ (∀ l ∈ otherC, l ∈ other.labels) := by
  unfold connectCircuit at h
  simp only [if_true] at h
  split at h
  · cases h
  · rename_i hblk
    cases hc1 : c.checkGatesExist thisC with
    | error e => simp [hc1] at h
    | ok u1 =>
      simp only [hc1] at h
      cases hc2 : other.checkGatesExist otherC with
      | error e => simp [hc2] at h
      | ok u2 =>
        simp only [hc2] at h
        split at h
        · cases h
        · rename_i hnd
          split at h
          · cases h
          · rename_i hlen
            split at h
            · cases h
            · rename_i hty
              cases hts : other.topSort true with
              | cyclic => simp [hts] at h
              | ok order =>
                simp only [hts] at h
                split at h
                · cases h
                · rename_i st hfold
                  refine ⟨order, st, rfl, hfold, h, by simpa using hblk, (by simp at hnd; exact hnd.2), by simpa using hlen, ?_, ?_, ?_⟩
                  · intro l hl
                    simp only [List.any_eq_true, bne_iff_ne, ne_eq, not_exists, not_and, Decidable.not_not] at hty
                    exact hty l hl
                  · intro l hl
                    exact checkGatesExist_ok hc1 l hl
                  · intro l hl
                    exact checkGatesExist_ok hc2 l hl

/-- a right connection that returns had no gate of `other` listed twice -/
theorem connect_right_nodup_other {c other c' : Circuit} {thisC otherC : List Label} {name : Label} {addP : Bool} {right : Bool}
    (h : c.connectCircuit other thisC otherC right name addP = .ok c') : nodupL otherC = true := by
  unfold connectCircuit at h
  split at h
  · cases h
  · cases hc1 : c.checkGatesExist thisC with
    | error e => simp [hc1] at h
    | ok u1 =>
      simp only [hc1] at h
      cases hc2 : other.checkGatesExist otherC with
      | error e => simp [hc2] at h
      | ok u2 =>
        simp only [hc2] at h
        split at h
        · cases h
        · rename_i hnd
          simp at hnd
          exact hnd.1

theorem zip_snd_inj : ∀ (l1 l2 : List Label) (k1 k2 x : Label), l2.Nodup → (k1, x) ∈ l1.zip l2 → (k2, x) ∈ l1.zip l2 → k1 = k2 := by
  intro l1
  induction l1 with
  | nil => intro l2 k1 k2 x _ h; simp at h
  | cons a r ih =>
    intro l2 k1 k2 x hnd h1 h2
    cases l2 with
    | nil => simp at h1
    | cons b t =>
      simp only [List.zip_cons_cons, List.mem_cons, Prod.mk.injEq] at h1 h2
      have hnd' := List.nodup_cons.mp hnd
      rcases h1 with ⟨rfl, rfl⟩ | h1
      · rcases h2 with ⟨rfl, _⟩ | h2
        · rfl
        · exact absurd (List.of_mem_zip h2).2 hnd'.1
      · rcases h2 with ⟨rfl, rfl⟩ | h2
        · exact absurd (List.of_mem_zip h1).2 hnd'.1
        · exact ih t k1 k2 x hnd'.2 h1 h2

/-- **composition, right direction**: after `connect_circuit(other, this_connectors, other_connectors,
right_connect=True, …)` (hence `connect_right`, `connect_inputs`, `extend_circuit(right)`) there is a
renaming `φ` of `other`'s labels — a connector goes to the base input it feeds, every other gate to its
(prefixed) copy — such that every valuation `v` of the result, read through `φ`, is a valuation of
`other`; and `v` itself satisfies every gate equation of the base circuit (its non-input gates are
all kept), the fed inputs now carrying the values of the connectors: the result computes the
composition. -/
theorem connect_right_semantics {c other c' : Circuit} {thisC otherC : List Label} {name : Label} {addP : Bool}
    (hwo : WFG other) (hndc : c.labels.Nodup)
    (h : c.connectCircuit other thisC otherC true name addP = .ok c') :
    ∃ φ : Label → Label,
      (∀ b v, IsValB c' b v → IsValB other (v ∘ φ) (v ∘ φ)) ∧
      (∀ b v, IsValB c' b v → IsValB c v v) ∧
      (∀ l x, Dict.get? (connMapping thisC otherC) l = some x → φ l = x) ∧
      (∀ g ∈ other.gates, Dict.contains (connMapping thisC otherC) g.label = false → φ g.label = connPre name addP ++ g.label) ∧
      (∀ g ∈ c.gates, g.label ∉ thisC → g ∈ c'.gates) ∧
      c'.outputs = c.outputs.filter (fun o => !thisC.contains o) ++ (other.outputs.filter (fun o => !otherC.contains o)).map φ ∧
      c'.inputs = c.inputs.filter (fun i => ((c'.find? i).map (·.ty)) == some INPUT) ++
        (other.inputs.filter (fun i => !otherC.contains i)).map φ ∧
      (name ≠ "" → ∃ fb, c'.getBlock name = .ok ⟨name, other.inputs.map φ, fb, other.outputs.map φ⟩) ∧
      (∀ n b, n ≠ name → c.getBlock n = .ok b → c'.getBlock n = .ok b) := by
  obtain ⟨order, st, hts, hfold, hfin, _, hnd, hlen, hty, hex, _⟩ := connect_right_unfold h
  obtain ⟨order', ho1, hperm, hord⟩ := topSort_inv_spec hwo
  rw [hts] at ho1
  cases ho1
  have hndo : order.Nodup := hperm.nodup_iff.mpr hwo.nodup
  have hndt : thisC.Nodup := (nodupL_iff _).mp hnd
  have hmz : ∀ k x, Dict.get? (connMapping thisC otherC) k = some x → (k, x) ∈ otherC.zip thisC := by
    intro k x hk
    rcases get?_zipFold_mem_zip _ _ k x hk with h1 | h1
    · exact h1
    · simp [Dict.get?] at h1
  have hinv := connLoopR_sem (c := c) (pre := connPre name addP)
    (fun k1 k2 x h1 h2 => zip_snd_inj otherC thisC k1 k2 x hndt (hmz _ _ h1) (hmz _ _ h2))
    (fun k x hk => hex x (List.of_mem_zip (hmz k x hk)).2)
    order [] ⟨c, _, []⟩ st (by simpa using hndo)
    (by
      intro cur hcur g hf o ho p q hpq
      obtain ⟨hgm, hgl⟩ := find_some_mem hf
      exact hord p cur q (by simpa using hpq) g hgm hgl o ho)
    ⟨by intro cur hc; simp at hc, by intro cur hc; simp at hc, fun _ _ h => h, fun _ h => h, fun _ h _ => h, rfl, rfl⟩ hfold
  simp only [List.nil_append] at hinv
  have hg := connFinish_gates hfin
  have hbase : ∀ g ∈ c.gates, g.label ∉ thisC → g ∈ c'.gates := by
    intro g hgm hn
    rw [hg]
    exact hinv.base g hgm (fun k hk => hn (List.of_mem_zip (hmz k _ hk)).2)
  obtain ⟨_, sp2, sp3, mb, fb1, fb2⟩ := connFinish_spec hfin
  have sb := hinv.blks
  have hfind : ∀ i, c'.find? i = st.c.find? i := by
    intro i; unfold Circuit.find?; rw [hg]
  refine ⟨fun l => (Dict.get? st.o2n l).getD l, ?_, ?_, ?_, ?_, hbase, by rw [sp2, hinv.outs], by
    rw [sp3]; congr 1; apply List.filter_congr; intro i _; rw [hfind], ?_, ?_⟩
  · intro b v hv g hgm
    by_cases ht : g.ty = INPUT
    · simp [ht]
    · simp only [ht, if_false]
      have hfg := find_of_mem hwo.nodup hgm
      have hin : g.label ∈ order := hperm.mem_iff.mpr (mem_labels_of_mem hgm)
      cases hcm : Dict.get? (connMapping thisC otherC) g.label with
      | none =>
        have hnm : Dict.contains (connMapping thisC otherC) g.label = false := by simp [Dict.contains, hcm]
        obtain ⟨e1, _, ops', e2, e3⟩ := hinv.added g.label hin g hfg hnm
        have hv' := hv _ (hg ▸ e3)
        simp only [ht, if_false] at hv'
        have hmap : g.ops.map (v ∘ fun l => (Dict.get? st.o2n l).getD l) = ops'.map v :=
          all2_map_eq (fun a b hab => by simp [Function.comp, hab]) e2
        rw [hmap, hv']
        simp [Function.comp, e1]
      | some lbl =>
        obtain ⟨ops', e2, e3⟩ := hinv.conn g.label hin g hfg lbl hcm
        have hv' := hv _ (hg ▸ e3)
        simp only [ht, if_false] at hv'
        have hmap : g.ops.map (v ∘ fun l => (Dict.get? st.o2n l).getD l) = ops'.map v :=
          all2_map_eq (fun a b hab => by simp [Function.comp, hab]) e2
        rw [hmap, hv']
        simp [Function.comp, hinv.mapped _ _ hcm]
  · intro b v hv g hgm
    by_cases ht : g.ty = INPUT
    · simp [ht]
    · simp only [ht, if_false]
      have hn : g.label ∉ thisC := by
        intro hmem
        have := hty g.label hmem
        rw [find_of_mem hndc hgm] at this
        simp at this
        exact ht this
      have := hv g (hbase g hgm hn)
      simpa [ht] using this
  · intro l x hl
    simp [hinv.mapped l x hl]
  · intro g hgm hnm
    have hfg := find_of_mem hwo.nodup hgm
    have hin : g.label ∈ order := hperm.mem_iff.mpr (mem_labels_of_mem hgm)
    simp [(hinv.added g.label hin g hfg hnm).1]
  · intro hn
    refine ⟨st.forBlock, ?_⟩
    unfold Circuit.getBlock
    rw [fb2 hn]
    by_cases hany : (st.c.blocks ++ mb).any (fun x => x.name == name) = true
    · simp only [hany, if_true]
      rw [find_map_replace (fun x : Block => x.name == name) _ (by simp) _ hany]
    · simp only [hany, Bool.false_eq_true, if_false]
      rw [List.find?_append]
      have : (st.c.blocks ++ mb).find? (fun x => x.name == name) = none := by
        apply List.find?_eq_none.mpr
        intro x hx hxe
        exact hany (List.any_eq_true.mpr ⟨x, hx, hxe⟩)
      rw [this]; simp
  · intro n b hne hgb
    unfold Circuit.getBlock at hgb ⊢
    cases hf : c.blocks.find? (fun x => x.name == n) with
    | none => simp [hf] at hgb
    | some b0 =>
      simp only [hf, Except.ok.injEq] at hgb
      subst hgb
      have hpre : (st.c.blocks ++ mb).find? (fun x => x.name == n) = some b0 := by
        rw [sb, List.find?_append, hf]; rfl
      by_cases hn : name = ""
      · rw [fb1 hn, hpre]
      · rw [fb2 hn]
        by_cases hany : (st.c.blocks ++ mb).any (fun x => x.name == name) = true
        · simp only [hany, if_true]
          rw [find_map_other (fun x : Block => x.name == name) (fun x : Block => x.name == n) _
            (by simpa using fun e : name = n => hne e.symm)
            (by intro x hx; simp only [beq_iff_eq] at hx; simpa [hx] using fun e : name = n => hne e.symm), hpre]
        · simp only [hany, Bool.false_eq_true, if_false]
          rw [List.find?_append, hpre]; rfl

end Cirbo
