import Cirbo.Proofs.EnumGates
import Cirbo.Proofs.BitIO
import Std.Data.String.ToNat
/-!
# `decode_circuit(encode_circuit(c))` gives back `c` up to the dependency-order renaming (C16)
-/
namespace Cirbo
open Circuit GateType

theorem rnum_at (pre post : List Bool) (k w : Nat) (h : k < 2 ^ w) :
    rnum (packBytes (pre ++ numBits k w ++ post)) pre.length w = .ok (k, pre.length + w) := by
  unfold rnum
  rw [readNumber_roundtrip pre post k w h]

/-- the bits of a list of `ws`-bit numbers -/
def idsBits (ws : Nat) (is : List Nat) : List Bool := is.flatMap (fun i => numBits i ws)

theorem idsBits_length (ws : Nat) (is : List Nat) : (idsBits ws is).length = is.length * ws := by
  induction is with
  | nil => simp [idsBits]
  | cons i t ih =>
    simp only [idsBits, List.flatMap_cons, List.length_append, numBits_length, List.length_cons] at ih ⊢
    rw [ih, Nat.add_mul]; omega

theorem decodeOperands_spec (ws count : Nat) : ∀ (is : List Nat) (pre post : List Bool),
    (∀ i ∈ is, i < 2 ^ ws ∧ i < count) →
    decodeOperands (packBytes (pre ++ idsBits ws is ++ post)) ws count is.length pre.length
      = .ok (is.map gateLabel, pre.length + (idsBits ws is).length) := by
  intro is
  induction is with
  | nil => intro pre post _; simp [decodeOperands, idsBits]
  | cons i t ih =>
    intro pre post h
    obtain ⟨h1, h2⟩ := h i (by simp)
    have e : pre ++ idsBits ws (i :: t) ++ post = pre ++ numBits i ws ++ (idsBits ws t ++ post) := by
      simp [idsBits]
    simp only [List.length_cons, decodeOperands, bind, Except.bind]
    rw [e, rnum_at pre _ i ws h1]
    simp only [h2, if_true]
    have e2 : pre ++ numBits i ws ++ (idsBits ws t ++ post) = (pre ++ numBits i ws) ++ idsBits ws t ++ post := by simp
    have := ih (pre ++ numBits i ws) post (fun x hx => h x (by simp [hx]))
    rw [List.length_append, numBits_length] at this
    rw [e2, this]
    simp only [List.map_cons, idsBits, List.flatMap_cons, List.length_append, numBits_length]
    congr 2
    omega

theorem gateLabel_inj {i j : Nat} (h : gateLabel i = gateLabel j) : i = j := by
  unfold gateLabel at h
  have h2 := congrArg String.toList h
  simp only [String.toList_append] at h2
  have h3 := List.append_cancel_left h2
  have h4 : toString i = toString j := String.toList_inj.mp h3
  exact Nat.repr_injective h4

/-- the generated type tables are inverse to each other and fit the type field -/
theorem codecType_table {ty : GateType} {tid : Nat} (h : Gen.codecTypeId ty = some tid) :
    tid < 2 ^ Gen.gateTypeBitSize ∧ (Gen.codecTypeOfId[tid]?).join = some ty ∧ ty ≠ INPUT := by
  cases ty <;> simp [Gen.codecTypeId] at h <;> subst h <;> decide

abbrev Rec := GateType × List Nat

def recBits (ws : Nat) (r : Rec) : List Bool :=
  numBits ((Gen.codecTypeId r.1).getD 0) Gen.gateTypeBitSize ++ idsBits ws r.2

def RecOK (ws count : Nat) (r : Rec) : Prop :=
  (∃ tid, Gen.codecTypeId r.1 = some tid) ∧ r.2.length = Gen.codecArity r.1 ∧ ∀ i ∈ r.2, i < 2 ^ ws ∧ i < count

def recGate (count : Nat) (r : Rec) : Gate := ⟨gateLabel count, r.1, r.2.map gateLabel⟩

def recGates : Nat → List Rec → List Gate
  | _, [] => []
  | count, r :: t => recGate count r :: recGates (count + 1) t

def recsBits (ws : Nat) (R : List Rec) : List Bool := R.flatMap (recBits ws)

def RecsOK (ws : Nat) : Nat → List Rec → Prop
  | _, [] => True
  | count, r :: t => RecOK ws count r ∧ RecsOK ws (count + 1) t

theorem decodeGates_spec (ws : Nat) : ∀ (R : List Rec) (pre post : List Bool) (c0 : Circuit) (count0 : Nat),
    c0.labels = (List.range count0).map gateLabel → RecsOK ws count0 R →
    ∃ cN, decodeGates (packBytes (pre ++ recsBits ws R ++ post)) ws R.length ⟨pre.length, c0, count0⟩
        = .ok ⟨pre.length + (recsBits ws R).length, cN, count0 + R.length⟩ ∧
      cN.gates = c0.gates ++ recGates count0 R ∧ cN.inputs = c0.inputs ∧ cN.outputs = c0.outputs ∧
      cN.labels = (List.range (count0 + R.length)).map gateLabel := by
  intro R
  induction R with
  | nil =>
    intro pre post c0 count0 hl _
    exact ⟨c0, by simp [decodeGates, recsBits], by simp [recGates], rfl, rfl, by simpa using hl⟩
  | cons r t ih =>
    intro pre post c0 count0 hl hok
    obtain ⟨⟨⟨tid, htid⟩, hlen, hids⟩, hrest⟩ := hok
    obtain ⟨t1, t2, t3⟩ := codecType_table htid
    have e : pre ++ recsBits ws (r :: t) ++ post
        = pre ++ numBits tid Gen.gateTypeBitSize ++ (idsBits ws r.2 ++ (recsBits ws t ++ post)) := by
      simp [recsBits, recBits, htid]
    have e2 : pre ++ numBits tid Gen.gateTypeBitSize ++ (idsBits ws r.2 ++ (recsBits ws t ++ post))
        = (pre ++ numBits tid Gen.gateTypeBitSize) ++ idsBits ws r.2 ++ (recsBits ws t ++ post) := by simp
    -- the new gate can be added
    have hfresh : c0.hasGate (gateLabel count0) = false := by
      cases hh : c0.hasGate (gateLabel count0) with
      | false => rfl
      | true =>
        exfalso
        have := (hasGate_iff' c0 _).mp hh
        rw [hl] at this
        obtain ⟨j, hj, hje⟩ := List.mem_map.mp this
        have := gateLabel_inj hje
        rw [List.mem_range] at hj; omega
    have hall : (r.2.map gateLabel).all c0.hasGate = true := by
      apply List.all_eq_true.mpr
      intro o ho
      obtain ⟨i, hi, rfl⟩ := List.mem_map.mp ho
      apply (hasGate_iff' c0 _).mpr
      rw [hl]
      exact List.mem_map.mpr ⟨i, List.mem_range.mpr (hids i hi).2, rfl⟩
    have hadd : ∃ c1, c0.addGate ⟨gateLabel count0, r.1, r.2.map gateLabel⟩ = .ok c1 := by
      unfold addGate checkGatesExist
      simp [hfresh, hall]
    obtain ⟨c1, hc1⟩ := hadd
    obtain ⟨_, _, hg1, hi1, ho1, _⟩ := addGate_fields hc1
    have hl1 : c1.labels = (List.range (count0 + 1)).map gateLabel := by
      unfold Circuit.labels at hl ⊢
      rw [hg1, List.map_append, hl, List.range_succ]; simp
    obtain ⟨cN, hN, gN, iN, oN, lN⟩ := ih (pre ++ numBits tid Gen.gateTypeBitSize ++ idsBits ws r.2) post c1 (count0 + 1) hl1 hrest
    refine ⟨cN, ?_, ?_, ?_, ?_, ?_⟩
    · simp only [List.length_cons, decodeGates, bind, Except.bind]
      rw [e, rnum_at pre _ tid _ t1]
      simp only [t2]
      rw [e2]
      have hdo := decodeOperands_spec ws count0 r.2 (pre ++ numBits tid Gen.gateTypeBitSize) (recsBits ws t ++ post) hids
      rw [hlen] at hdo
      rw [List.length_append, numBits_length] at hdo
      rw [hdo]
      simp only [hc1]
      have e3 : (pre ++ numBits tid Gen.gateTypeBitSize) ++ idsBits ws r.2 ++ (recsBits ws t ++ post)
          = (pre ++ numBits tid Gen.gateTypeBitSize ++ idsBits ws r.2) ++ recsBits ws t ++ post := by simp
      rw [e3]
      simp only [List.length_append, numBits_length] at hN
      rw [hN]
      simp only [recsBits, List.flatMap_cons, recBits, htid, Option.getD_some, List.length_append, numBits_length]
      congr 2 <;> omega
    · rw [gN, hg1]; simp [recGates, recGate]
    · rw [iN, hi1]; simp [t3]
    · rw [oN, ho1]
    · rw [lN]; congr 2; simp; omega

theorem codec_addInputs_spec : ∀ (n i : Nat) (c0 : Circuit), c0.labels = (List.range i).map gateLabel →
    ∃ c1, Cirbo.addInputs c0 n i = .ok c1 ∧
      c1.gates = c0.gates ++ (List.range' i n).map (fun j => (⟨gateLabel j, INPUT, []⟩ : Gate)) ∧
      c1.inputs = c0.inputs ++ (List.range' i n).map gateLabel ∧ c1.outputs = c0.outputs ∧
      c1.labels = (List.range (i + n)).map gateLabel := by
  intro n
  induction n with
  | zero => intro i c0 hl; exact ⟨c0, rfl, by simp, by simp, rfl, by simpa using hl⟩
  | succ n ih =>
    intro i c0 hl
    have hfresh : c0.hasGate (gateLabel i) = false := by
      cases hh : c0.hasGate (gateLabel i) with
      | false => rfl
      | true =>
        exfalso
        have := (hasGate_iff' c0 _).mp hh
        rw [hl] at this
        obtain ⟨j, hj, hje⟩ := List.mem_map.mp this
        have := gateLabel_inj hje
        rw [List.mem_range] at hj; omega
    have hadd : ∃ c1, c0.addGate ⟨gateLabel i, INPUT, []⟩ = .ok c1 := by
      unfold addGate checkGatesExist
      simp [hfresh]
    obtain ⟨c1, hc1⟩ := hadd
    obtain ⟨_, _, hg1, hi1, ho1, _⟩ := addGate_fields hc1
    have hl1 : c1.labels = (List.range (i + 1)).map gateLabel := by
      unfold Circuit.labels at hl ⊢
      rw [hg1, List.map_append, hl, List.range_succ]; simp
    obtain ⟨c2, h2, g2, i2, o2, l2⟩ := ih (i + 1) c1 hl1
    refine ⟨c2, ?_, ?_, ?_, ?_, ?_⟩
    · simp only [Cirbo.addInputs, bind, Except.bind, hc1]; exact h2
    · rw [g2, hg1, List.range'_succ]; simp
    · rw [i2, hi1, List.range'_succ]; simp
    · rw [o2, ho1]
    · rw [l2]; congr 2; omega

theorem decodeOutputs_spec (ws total : Nat) : ∀ (os : List Nat) (pre post : List Bool) (c0 : Circuit),
    c0.labels = (List.range total).map gateLabel → (∀ i ∈ os, i < 2 ^ ws ∧ i < total) →
    ∃ c1, decodeOutputs (packBytes (pre ++ idsBits ws os ++ post)) ws os.length pre.length c0 = .ok c1 ∧
      c1.gates = c0.gates ∧ c1.inputs = c0.inputs ∧ c1.outputs = c0.outputs ++ os.map gateLabel := by
  intro os
  induction os with
  | nil => intro pre post c0 _ _; exact ⟨c0, by simp [decodeOutputs], rfl, rfl, by simp⟩
  | cons i t ih =>
    intro pre post c0 hl h
    obtain ⟨h1, h2⟩ := h i (by simp)
    have e : pre ++ idsBits ws (i :: t) ++ post = pre ++ numBits i ws ++ (idsBits ws t ++ post) := by
      simp [idsBits]
    have hhas : c0.hasGate (gateLabel i) = true := by
      apply (hasGate_iff' c0 _).mpr
      rw [hl]; exact List.mem_map.mpr ⟨i, List.mem_range.mpr h2, rfl⟩
    have hmark : c0.markAsOutput (gateLabel i) = .ok { c0 with outputs := c0.outputs ++ [gateLabel i] } := by
      unfold markAsOutput; simp [hhas]
    have e2 : pre ++ numBits i ws ++ (idsBits ws t ++ post) = (pre ++ numBits i ws) ++ idsBits ws t ++ post := by simp
    obtain ⟨c1, hc1, g1, i1, o1⟩ := ih (pre ++ numBits i ws) post { c0 with outputs := c0.outputs ++ [gateLabel i] }
      (by simpa [Circuit.labels] using hl) (fun x hx => h x (by simp [hx]))
    refine ⟨c1, ?_, g1, i1, by rw [o1]; simp⟩
    simp only [List.length_cons, decodeOutputs, bind, Except.bind]
    rw [e, rnum_at pre _ i ws h1]
    simp only [hmark]
    rw [e2]
    rw [List.length_append, numBits_length] at hc1
    exact hc1

/-- decoding a well-formed token stream -/
theorem decode_structured (ws ni : Nat) (R : List Rec) (os : List Nat)
    (hws : ws < 2 ^ 8) (hni : ni < 2 ^ ws) (hno : os.length < 2 ^ ws) (hnm : R.length < 2 ^ ws)
    (hR : RecsOK ws ni R) (hos : ∀ i ∈ os, i < 2 ^ ws ∧ i < ni + R.length) :
    ∃ D, decodeCircuit (packBytes (numBits ws 8 ++ numBits ni ws ++ numBits os.length ws ++ numBits R.length ws
        ++ recsBits ws R ++ idsBits ws os)) = .ok D ∧
      D.gates = (List.range' 0 ni).map (fun j => (⟨gateLabel j, INPUT, []⟩ : Gate)) ++ recGates ni R ∧
      D.inputs = (List.range' 0 ni).map gateLabel ∧ D.outputs = os.map gateLabel := by
  obtain ⟨c0, hc0, g0, i0, o0, l0⟩ := codec_addInputs_spec ni 0 Circuit.empty (by simp [Circuit.labels, Circuit.empty])
  simp only [Nat.zero_add] at l0
  -- positions of the four header fields
  let H0 : List Bool := []
  let H1 := numBits ws 8
  let H2 := H1 ++ numBits ni ws
  let H3 := H2 ++ numBits os.length ws
  let H4 := H3 ++ numBits R.length ws
  have r0 := rnum_at [] (numBits ni ws ++ numBits os.length ws ++ numBits R.length ws ++ recsBits ws R ++ idsBits ws os) ws 8 hws
  have r1 := rnum_at H1 (numBits os.length ws ++ numBits R.length ws ++ recsBits ws R ++ idsBits ws os) ni ws hni
  have r2 := rnum_at H2 (numBits R.length ws ++ recsBits ws R ++ idsBits ws os) os.length ws hno
  have r3 := rnum_at H3 (recsBits ws R ++ idsBits ws os) R.length ws hnm
  obtain ⟨cN, hN, gN, iN, oN, lN⟩ := decodeGates_spec ws R H4 (idsBits ws os) c0 ni l0 hR
  obtain ⟨D, hD, gD, iD, oD⟩ := decodeOutputs_spec ws (ni + R.length) os (H4 ++ recsBits ws R) [] cN lN hos
  refine ⟨D, ?_, ?_, ?_, ?_⟩
  · have eb : numBits ws 8 ++ numBits ni ws ++ numBits os.length ws ++ numBits R.length ws ++ recsBits ws R ++ idsBits ws os
        = [] ++ numBits ws 8 ++ (numBits ni ws ++ numBits os.length ws ++ numBits R.length ws ++ recsBits ws R ++ idsBits ws os) := by
      simp
    have e1 : [] ++ numBits ws 8 ++ (numBits ni ws ++ numBits os.length ws ++ numBits R.length ws ++ recsBits ws R ++ idsBits ws os)
        = H1 ++ numBits ni ws ++ (numBits os.length ws ++ numBits R.length ws ++ recsBits ws R ++ idsBits ws os) := by
      simp [H1]
    have e2 : H1 ++ numBits ni ws ++ (numBits os.length ws ++ numBits R.length ws ++ recsBits ws R ++ idsBits ws os)
        = H2 ++ numBits os.length ws ++ (numBits R.length ws ++ recsBits ws R ++ idsBits ws os) := by
      simp [H2]
    have e3 : H2 ++ numBits os.length ws ++ (numBits R.length ws ++ recsBits ws R ++ idsBits ws os)
        = H3 ++ numBits R.length ws ++ (recsBits ws R ++ idsBits ws os) := by
      simp [H3]
    have e4 : H3 ++ numBits R.length ws ++ (recsBits ws R ++ idsBits ws os) = H4 ++ recsBits ws R ++ idsBits ws os := by
      simp [H4]
    have e5 : H4 ++ recsBits ws R ++ idsBits ws os = (H4 ++ recsBits ws R) ++ idsBits ws os ++ [] := by simp
    have p1 : H1.length = 8 := by simp only [H1, numBits_length]
    have p2 : H2.length = 8 + ws := by simp only [H2, H1, List.length_append, numBits_length]
    have p3 : H3.length = 8 + ws + ws := by simp only [H3, H2, H1, List.length_append, numBits_length]
    have p4 : H4.length = 8 + ws + ws + ws := by simp only [H4, H3, H2, H1, List.length_append, numBits_length]
    simp only [List.length_nil] at r0
    unfold decodeCircuit
    simp only [bind, Except.bind]
    rw [eb, r0]
    simp only [Nat.zero_add]
    rw [e1]; rw [p1] at r1; rw [r1]
    simp only
    rw [e2]; rw [p2] at r2; rw [r2]
    simp only
    rw [e3]; rw [p3] at r3; rw [r3]
    simp only [hc0]
    rw [e4]; rw [p4] at hN; rw [hN]
    simp only
    rw [e5]
    rw [List.length_append, p4] at hD
    exact hD
  · rw [gD, gN, g0]; simp [Circuit.empty]
  · rw [iD, iN, i0]; simp [Circuit.empty]
  · rw [oD, oN, o0]; simp [Circuit.empty]

/-! ## the writer -/

theorem wnum_ok {pre bits : List Bool} {k w : Nat} (h : wnum (.ok pre) k w = .ok bits) :
    k < 2 ^ w ∧ bits = pre ++ numBits k w := by
  unfold wnum at h
  simp only at h
  by_cases hk : k < 2 ^ w
  · rw [writeNumber_some k w hk] at h
    simp only [Except.ok.injEq] at h
    exact ⟨hk, h.symm⟩
  · rw [writeNumber_none k w (Nat.le_of_not_lt hk)] at h
    cases h

theorem wnum_error (e : String) (k w : Nat) : wnum (.error e) k w = .error e := rfl

def recOf (ids : List Label) (g : Gate) : Rec := (g.ty, g.ops.map (fun o => ids.idxOf o))

def opStep (ids : List Label) (ws : Nat) (w : W) (o : Label) : W := match w with
  | .error e => .error e
  | .ok _ => match idOf ids o with
    | none => .error "Py:KeyError"
    | some i => wnum w i ws

theorem opFold_error (ids : List Label) (ws : Nat) (e : String) : ∀ (ops : List Label),
    ops.foldl (opStep ids ws) (.error e) = .error e := by
  intro ops; induction ops with
  | nil => rfl
  | cons a t ih => simpa [opStep] using ih

theorem opFold_spec (ids : List Label) (ws : Nat) : ∀ (ops : List Label) (pre bits : List Bool),
    ops.foldl (opStep ids ws) (.ok pre) = .ok bits →
    (∀ o ∈ ops, o ∈ ids ∧ ids.idxOf o < 2 ^ ws) ∧ bits = pre ++ idsBits ws (ops.map (fun o => ids.idxOf o)) := by
  intro ops
  induction ops with
  | nil => intro pre bits h; simp at h; subst h; simp [idsBits]
  | cons o t ih =>
    intro pre bits h
    simp only [List.foldl_cons] at h
    cases hs : opStep ids ws (.ok pre) o with
    | error e => rw [hs, opFold_error] at h; cases h
    | ok b1 =>
      rw [hs] at h
      unfold opStep idOf at hs
      simp only at hs
      split at hs
      · cases hs
      · rename_i i hi
        split at hi
        · rename_i hlt
          simp only [Option.some.injEq] at hi
          subst hi
          obtain ⟨hfit, hb1⟩ := wnum_ok hs
          obtain ⟨a1, a2⟩ := ih b1 bits h
          refine ⟨?_, ?_⟩
          · intro x hx
            rcases List.mem_cons.mp hx with rfl | hx
            · exact ⟨List.idxOf_lt_length_iff.mp hlt, hfit⟩
            · exact a1 x hx
          · rw [a2, hb1]; simp [idsBits]
        · cases hi

theorem encodeGate_spec {ids : List Label} {ws : Nat} {pre bits : List Bool} {g : Gate}
    (h : encodeGate ids ws (.ok pre) g = .ok bits) :
    (g.ty = INPUT ∧ bits = pre) ∨
    (g.ty ≠ INPUT ∧ (∃ tid, Gen.codecTypeId g.ty = some tid) ∧ g.ops.length = Gen.codecArity g.ty ∧
      (∀ o ∈ g.ops, o ∈ ids ∧ ids.idxOf o < 2 ^ ws) ∧ bits = pre ++ recBits ws (recOf ids g)) := by
  unfold encodeGate at h
  simp only at h
  by_cases ht : g.ty = INPUT
  · simp only [ht, if_true, Except.ok.injEq] at h
    exact Or.inl ⟨ht, h.symm⟩
  · simp only [ht, if_false] at h
    cases htid : Gen.codecTypeId g.ty with
    | none => simp [htid] at h
    | some tid =>
      simp only [htid] at h
      split at h
      · cases h
      · rename_i har
        have har' : g.ops.length = Gen.codecArity g.ty := by simpa using har
        have hf : g.ops.foldl (opStep ids ws) (wnum (.ok pre) tid Gen.gateTypeBitSize) = .ok bits := h
        cases hw : wnum (.ok pre) tid Gen.gateTypeBitSize with
        | error e => rw [hw, opFold_error] at hf; cases hf
        | ok b1 =>
          rw [hw] at hf
          obtain ⟨_, hb1⟩ := wnum_ok hw
          obtain ⟨a1, a2⟩ := opFold_spec ids ws g.ops b1 bits hf
          exact Or.inr ⟨ht, ⟨tid, rfl⟩, har', a1, by rw [a2, hb1]; simp [recBits, recOf, htid]⟩

def gateStep (c : Circuit) (ids : List Label) (ws : Nat) (w : W) (l : Label) : W := match w with
  | .error e => .error e
  | .ok _ => match c.find? l with
    | none => .error "GateDoesntExistError"
    | some g => encodeGate ids ws w g

theorem gateFold_error (c : Circuit) (ids : List Label) (ws : Nat) (e : String) : ∀ (ls : List Label),
    ls.foldl (gateStep c ids ws) (.error e) = .error e := by
  intro ls; induction ls with
  | nil => rfl
  | cons a t ih => simpa [gateStep] using ih

/-- the non-input gates named by a label list, in order -/
def nonInputGates (c : Circuit) (ls : List Label) : List Gate :=
  (ls.filterMap c.find?).filter (fun g => g.ty != INPUT)

theorem gateFold_spec (c : Circuit) (ids : List Label) (ws : Nat) : ∀ (ls : List Label) (pre bits : List Bool),
    ls.foldl (gateStep c ids ws) (.ok pre) = .ok bits →
    bits = pre ++ recsBits ws ((nonInputGates c ls).map (recOf ids)) ∧
    ∀ g ∈ nonInputGates c ls, (∃ tid, Gen.codecTypeId g.ty = some tid) ∧ g.ops.length = Gen.codecArity g.ty ∧
      (∀ o ∈ g.ops, o ∈ ids ∧ ids.idxOf o < 2 ^ ws) := by
  intro ls
  induction ls with
  | nil => intro pre bits h; simp at h; subst h; simp [nonInputGates, recsBits]
  | cons l t ih =>
    intro pre bits h
    simp only [List.foldl_cons] at h
    cases hs : gateStep c ids ws (.ok pre) l with
    | error e => rw [hs, gateFold_error] at h; cases h
    | ok b1 =>
      rw [hs] at h
      obtain ⟨a1, a2⟩ := ih b1 bits h
      unfold gateStep at hs
      simp only at hs
      cases hf : c.find? l with
      | none => simp [hf] at hs
      | some g =>
        simp only [hf] at hs
        rcases encodeGate_spec hs with ⟨hty, hb⟩ | ⟨hty, h1, h2, h3, hb⟩
        · have : nonInputGates c (l :: t) = nonInputGates c t := by
            simp [nonInputGates, List.filterMap_cons, hf, hty]
          rw [this, a1, hb]
          exact ⟨rfl, a2⟩
        · have : nonInputGates c (l :: t) = g :: nonInputGates c t := by
            simp [nonInputGates, List.filterMap_cons, hf, hty]
          rw [this, a1, hb]
          refine ⟨by simp [recsBits], ?_⟩
          intro x hx
          rcases List.mem_cons.mp hx with rfl | hx
          · exact ⟨h1, h2, h3⟩
          · exact a2 x hx

def outStep (ids : List Label) (ws : Nat) (w : W) (o : Label) : W := opStep ids ws w o

theorem encode_unfold {c : Circuit} {bytes : List Nat} (h : encodeCircuit c = .ok bytes) :
    let ws := wordSize c
    let ids := enumerateGates c
    let R := (nonInputGates c ids).map (recOf ids)
    let os := c.outputs.map (fun o => ids.idxOf o)
    bytes = packBytes (numBits ws 8 ++ numBits c.inputs.length ws ++ numBits c.outputs.length ws
      ++ numBits (nonInputCount c) ws ++ recsBits ws R ++ idsBits ws os) ∧
    ws < 2 ^ 8 ∧ c.inputs.length < 2 ^ ws ∧ c.outputs.length < 2 ^ ws ∧ nonInputCount c < 2 ^ ws ∧
    (∀ g ∈ nonInputGates c ids, (∃ tid, Gen.codecTypeId g.ty = some tid) ∧ g.ops.length = Gen.codecArity g.ty ∧
      (∀ o ∈ g.ops, o ∈ ids ∧ ids.idxOf o < 2 ^ ws)) ∧
    (∀ o ∈ c.outputs, o ∈ ids ∧ ids.idxOf o < 2 ^ ws) := by
  intro ws ids R os
  unfold encodeCircuit at h
  simp only at h
  -- name the intermediate writer states
  cases h0 : wnum (.ok []) (wordSize c) 8 with
  | error e =>
    rw [h0] at h
    simp only [wnum_error] at h
    have : ∀ e, (enumerateGates c).foldl (gateStep c (enumerateGates c) (wordSize c)) (.error e) = .error e :=
      fun e => gateFold_error _ _ _ e _
    exfalso
    have h' : (match c.outputs.foldl (opStep (enumerateGates c) (wordSize c))
        ((enumerateGates c).foldl (gateStep c (enumerateGates c) (wordSize c)) (.error e)) with
      | .error e => Except.error e | .ok bits => .ok (packBytes bits)) = .ok bytes := h
    rw [this, opFold_error] at h'
    cases h'
  | ok b0 =>
    rw [h0] at h
    obtain ⟨f0, e0⟩ := wnum_ok h0
    cases h1 : wnum (.ok b0) c.inputs.length (wordSize c) with
    | error e =>
      rw [h1] at h
      simp only [wnum_error] at h
      exfalso
      have h' : (match c.outputs.foldl (opStep (enumerateGates c) (wordSize c))
          ((enumerateGates c).foldl (gateStep c (enumerateGates c) (wordSize c)) (.error e)) with
        | .error e => Except.error e | .ok bits => .ok (packBytes bits)) = .ok bytes := h
      rw [gateFold_error, opFold_error] at h'
      cases h'
    | ok b1 =>
      rw [h1] at h
      obtain ⟨f1, e1⟩ := wnum_ok h1
      cases h2 : wnum (.ok b1) c.outputs.length (wordSize c) with
      | error e =>
        rw [h2] at h
        simp only [wnum_error] at h
        exfalso
        have h' : (match c.outputs.foldl (opStep (enumerateGates c) (wordSize c))
            ((enumerateGates c).foldl (gateStep c (enumerateGates c) (wordSize c)) (.error e)) with
          | .error e => Except.error e | .ok bits => .ok (packBytes bits)) = .ok bytes := h
        rw [gateFold_error, opFold_error] at h'
        cases h'
      | ok b2 =>
        rw [h2] at h
        obtain ⟨f2, e2⟩ := wnum_ok h2
        cases h3 : wnum (.ok b2) (nonInputCount c) (wordSize c) with
        | error e =>
          rw [h3] at h
          exfalso
          have h' : (match c.outputs.foldl (opStep (enumerateGates c) (wordSize c))
              ((enumerateGates c).foldl (gateStep c (enumerateGates c) (wordSize c)) (.error e)) with
            | .error e => Except.error e | .ok bits => .ok (packBytes bits)) = .ok bytes := h
          rw [gateFold_error, opFold_error] at h'
          cases h'
        | ok b3 =>
          rw [h3] at h
          obtain ⟨f3, e3⟩ := wnum_ok h3
          have h' : (match c.outputs.foldl (opStep (enumerateGates c) (wordSize c))
              ((enumerateGates c).foldl (gateStep c (enumerateGates c) (wordSize c)) (.ok b3)) with
            | .error e => Except.error e | .ok bits => .ok (packBytes bits)) = .ok bytes := h
          cases h4 : (enumerateGates c).foldl (gateStep c (enumerateGates c) (wordSize c)) (.ok b3) with
          | error e => rw [h4, opFold_error] at h'; cases h'
          | ok b4 =>
            rw [h4] at h'
            obtain ⟨e4, g4⟩ := gateFold_spec c _ _ _ _ _ h4
            cases h5 : c.outputs.foldl (opStep (enumerateGates c) (wordSize c)) (.ok b4) with
            | error e => rw [h5] at h'; cases h'
            | ok b5 =>
              rw [h5] at h'
              simp only [Except.ok.injEq] at h'
              obtain ⟨g5, e5⟩ := opFold_spec _ _ _ _ _ h5
              refine ⟨?_, f0, f1, f2, f3, g4, g5⟩
              rw [← h', e5, e4, e3, e2, e1, e0]
              simp only [List.nil_append, List.append_assoc]
              rfl

/-! ## assembling the round trip -/

/-- the dependency-order renaming of a gate -/
def renC (ids : List Label) (g : Gate) : Gate :=
  ⟨gateLabel (ids.idxOf g.label), g.ty, g.ops.map (fun o => gateLabel (ids.idxOf o))⟩

theorem idxOf_mid {p q : List Label} {x : Label} (hx : x ∉ p) : (p ++ x :: q).idxOf x = p.length := by
  rw [List.idxOf_append]
  simp [hx]

theorem recGates_eq (c : Circuit) (ids : List Label) : ∀ (q p : List Label), ids = p ++ q → ids.Nodup →
    (∀ l ∈ q, ∃ g, c.find? l = some g ∧ g.ty ≠ INPUT) →
    recGates p.length ((nonInputGates c q).map (recOf ids)) = (q.filterMap c.find?).map (renC ids) ∧
    (nonInputGates c q).length = q.length := by
  intro q
  induction q with
  | nil => intro p _ _ _; simp [nonInputGates, recGates]
  | cons x t ih =>
    intro p hids hnd hq
    obtain ⟨g, hf, hty⟩ := hq x (by simp)
    obtain ⟨_, hgl⟩ := find_some_mem hf
    have hxp : x ∉ p := by
      rw [hids] at hnd
      exact fun hm => (List.nodup_append.mp hnd).2.2 x hm x (by simp) rfl
    have e1 : nonInputGates c (x :: t) = g :: nonInputGates c t := by
      simp [nonInputGates, List.filterMap_cons, hf, hty]
    have hidx : ids.idxOf g.label = p.length := by rw [hgl, hids]; exact idxOf_mid hxp
    obtain ⟨a1, a2⟩ := ih (p ++ [x]) (by rw [hids]; simp) hnd (fun l hl => hq l (by simp [hl]))
    rw [e1]
    refine ⟨?_, by simp [a2]⟩
    simp only [List.map_cons, recGates, List.filterMap_cons, hf]
    rw [List.length_append, List.length_singleton] at a1
    rw [a1]
    congr 1
    simp [recGate, recOf, renC, hidx, List.map_map]

theorem inputGates_eq (c : Circuit) (ids : List Label) : ∀ (q p tail : List Label), ids = p ++ q ++ tail → ids.Nodup →
    (∀ l ∈ q, c.find? l = some ⟨l, INPUT, []⟩) →
    (List.range' p.length q.length).map (fun j => (⟨gateLabel j, INPUT, []⟩ : Gate)) = (q.filterMap c.find?).map (renC ids) ∧
    (List.range' p.length q.length).map gateLabel = q.map (fun l => gateLabel (ids.idxOf l)) := by
  intro q
  induction q with
  | nil => intro p tail _ _ _; simp
  | cons x t ih =>
    intro p tail hids hnd hq
    have hf := hq x (by simp)
    have hxp : x ∉ p := by
      rw [hids] at hnd
      have h1 := (List.nodup_append.mp hnd).1
      exact fun hm => (List.nodup_append.mp h1).2.2 x hm x (by simp) rfl
    have hidx : ids.idxOf x = p.length := by
      rw [hids]
      have : p ++ x :: t ++ tail = p ++ x :: (t ++ tail) := by simp
      rw [this]; exact idxOf_mid hxp
    obtain ⟨a1, a2⟩ := ih (p ++ [x]) tail (by rw [hids]; simp) hnd (fun l hl => hq l (by simp [hl]))
    rw [List.length_append, List.length_singleton] at a1 a2
    constructor
    · simp only [List.length_cons, List.range'_succ, List.map_cons, List.filterMap_cons, hf]
      rw [a1]
      congr 1
      simp [renC, hidx]
    · simp only [List.length_cons, List.range'_succ, List.map_cons]
      rw [a2, hidx]

theorem mem_nonInputGates {c : Circuit} {ls : List Label} {g : Gate} :
    g ∈ nonInputGates c ls ↔ (∃ l ∈ ls, c.find? l = some g) ∧ g.ty ≠ INPUT := by
  simp [nonInputGates, List.mem_filter, List.mem_filterMap]

theorem recsOK_of (c : Circuit) (ids : List Label) (ws : Nat)
    (hbefore : ∀ p x q, ids = p ++ x :: q → ∀ o ∈ c.opsOf x, o ∈ p)
    (hg : ∀ g ∈ nonInputGates c ids, (∃ tid, Gen.codecTypeId g.ty = some tid) ∧ g.ops.length = Gen.codecArity g.ty ∧
      (∀ o ∈ g.ops, o ∈ ids ∧ ids.idxOf o < 2 ^ ws)) :
    ∀ (q p : List Label), ids = p ++ q → ids.Nodup → (∀ l ∈ q, ∃ g, c.find? l = some g ∧ g.ty ≠ INPUT) →
      RecsOK ws p.length ((nonInputGates c q).map (recOf ids)) := by
  intro q
  induction q with
  | nil => intro p _ _ _; simp [nonInputGates, RecsOK]
  | cons x t ih =>
    intro p hids hnd hq
    obtain ⟨g, hf, hty⟩ := hq x (by simp)
    have e1 : nonInputGates c (x :: t) = g :: nonInputGates c t := by
      simp [nonInputGates, List.filterMap_cons, hf, hty]
    rw [e1]
    simp only [List.map_cons, RecsOK]
    have hgm : g ∈ nonInputGates c ids := mem_nonInputGates.mpr ⟨⟨x, by rw [hids]; simp, hf⟩, hty⟩
    obtain ⟨h1, h2, h3⟩ := hg g hgm
    refine ⟨⟨h1, by simp [recOf, h2], ?_⟩, ?_⟩
    · intro i hi
      simp only [recOf, List.mem_map] at hi
      obtain ⟨o, ho, rfl⟩ := hi
      refine ⟨(h3 o ho).2, ?_⟩
      have hop : o ∈ p := hbefore p x t hids o (by simp [Circuit.opsOf, hf, ho])
      rw [hids, List.idxOf_append]
      simp only [hop, if_true]
      exact List.idxOf_lt_length_of_mem hop
    · have := ih (p ++ [x]) (by rw [hids]; simp) hnd (fun l hl => hq l (by simp [hl]))
      simpa using this

/-- **`decode_circuit(encode_circuit(c))` is `c` renamed in dependency order.** For every well-formed circuit
the encoder accepts, the decoder succeeds on the produced bytes and returns the circuit whose gates are
the gates of `c`, listed in the enumeration order (inputs first, each gate after its operands), every
label `l` replaced by `gate_<position of l>`; inputs and outputs are the renamed lists. -/
theorem codec_roundtrip {c : Circuit} (hw : WFS c) {bytes : List Nat} (he : encodeCircuit c = .ok bytes) :
    ∃ D, decodeCircuit bytes = .ok D ∧
      D.gates = ((enumerateGates c).filterMap c.find?).map (renC (enumerateGates c)) ∧
      D.inputs = c.inputs.map (fun l => gateLabel ((enumerateGates c).idxOf l)) ∧
      D.outputs = c.outputs.map (fun l => gateLabel ((enumerateGates c).idxOf l)) ∧
      (enumerateGates c).Nodup ∧ (∀ l, l ∈ enumerateGates c ↔ l ∈ c.labels) := by
  have hok := enumerateGates_ok hw.nodup hw.closed hw.rank hw.inputsNodup (by
    intro l hl
    obtain ⟨g, hg, hgl, hty⟩ := (hw.inputsOK l).mp hl
    exact ⟨g, hg, hgl, hw.inputOps g hg hty⟩)
  obtain ⟨rest, hrest⟩ := hok.inputsFirst
  obtain ⟨hb, f0, f1, f2, f3, g4, g5⟩ := encode_unfold he
  generalize hids : enumerateGates c = ids at hok hrest hb g4 g5 ⊢
  -- the labels after the inputs name non-input gates
  have hrestG : ∀ l ∈ rest, ∃ g, c.find? l = some g ∧ g.ty ≠ INPUT := by
    intro l hl
    have hlab : l ∈ c.labels := (hok.all l).mp (by rw [hrest]; simp [hl])
    obtain ⟨g, hg, hgl⟩ : ∃ g ∈ c.gates, g.label = l := by simpa [Circuit.labels] using hlab
    refine ⟨g, hgl ▸ find_label hw.nodup hg, ?_⟩
    intro hty
    have hin : l ∈ c.inputs := (hw.inputsOK l).mpr ⟨g, hg, hgl, hty⟩
    have hnd := hok.nodup
    rw [hrest] at hnd
    exact (List.nodup_append.mp hnd).2.2 l hin l hl rfl
  have hinG : ∀ l ∈ c.inputs, c.find? l = some ⟨l, INPUT, []⟩ := by
    intro l hl
    obtain ⟨g, hg, hgl, hty⟩ := (hw.inputsOK l).mp hl
    have := hw.inputOps g hg hty
    have hf := find_label hw.nodup hg
    rw [hgl] at hf
    rw [hf]
    cases g with
    | mk a b d => simp only at hgl hty this; simp [hgl, hty, this]
  -- the non-input part of the enumeration
  have hni_split : nonInputGates c ids = nonInputGates c rest := by
    rw [hrest]
    simp only [nonInputGates, List.filterMap_append, List.filter_append]
    have : (c.inputs.filterMap c.find?).filter (fun g => g.ty != INPUT) = [] := by
      apply List.filter_eq_nil_iff.mpr
      intro g hg
      obtain ⟨l, hl, hfl⟩ := List.mem_filterMap.mp hg
      rw [hinG l hl] at hfl
      simp only [Option.some.injEq] at hfl
      subst hfl; simp
    rw [this]; simp
  obtain ⟨eqG, lenG⟩ := recGates_eq c ids rest c.inputs hrest hok.nodup hrestG
  have hRok := recsOK_of c ids (wordSize c) hok.before g4 rest c.inputs hrest hok.nodup hrestG
  -- the count of non-input gates
  have hcount : nonInputCount c = (nonInputGates c ids).length := by
    unfold nonInputCount
    have hperm : (ids.filterMap c.find?).Perm c.gates := by
      apply (List.perm_ext_iff_of_nodup ?_ ?_).mpr
      · intro g
        constructor
        · intro hg
          obtain ⟨l, _, hfl⟩ := List.mem_filterMap.mp hg
          exact (find_some_mem hfl).1
        · intro hg
          exact List.mem_filterMap.mpr ⟨g.label, (hok.all g.label).mpr (mem_labels_of_mem hg), find_label hw.nodup hg⟩
      · have hmap : (ids.filterMap c.find?).map (·.label) = ids := by
          have : ∀ (ls : List Label), (∀ l ∈ ls, l ∈ c.labels) → (ls.filterMap c.find?).map (·.label) = ls := by
            intro ls
            induction ls with
            | nil => intro _; rfl
            | cons l t ih =>
              intro h
              obtain ⟨g, hg, hgl⟩ : ∃ g ∈ c.gates, g.label = l := by simpa [Circuit.labels] using h l (by simp)
              have hf := hgl ▸ find_label hw.nodup hg
              simp only [List.filterMap_cons, hf, List.map_cons, hgl]
              rw [ih (fun x hx => h x (by simp [hx]))]
          exact this ids (fun l hl => (hok.all l).mp hl)
        exact List.Pairwise.of_map (·.label) (fun a b (hab : a.label ≠ b.label) => fun e => hab (by rw [e]))
          (by rw [hmap]; exact hok.nodup)
      · exact List.Pairwise.of_map (·.label) (fun a b (hab : a.label ≠ b.label) => fun e => hab (by rw [e])) hw.nodup
    exact ((hperm.filter _).length_eq).symm
  -- decode the structured stream
  have hlenR : ((nonInputGates c rest).map (recOf ids)).length = nonInputCount c := by
    rw [hcount, hni_split]; simp
  obtain ⟨D, hD, gD, iD, oD⟩ := decode_structured (wordSize c) c.inputs.length ((nonInputGates c rest).map (recOf ids))
    (c.outputs.map (fun o => ids.idxOf o)) f0 f1 (by simpa using f2) (by rw [hlenR]; exact f3) hRok
    (by
      intro i hi
      obtain ⟨o, ho, rfl⟩ := List.mem_map.mp hi
      refine ⟨(g5 o ho).2, ?_⟩
      have := List.idxOf_lt_length_of_mem (g5 o ho).1
      rw [hrest] at this
      rw [List.length_map, lenG]
      simpa [hrest] using this)
  refine ⟨D, ?_, ?_, ?_, ?_, hok.nodup, hok.all⟩
  · rw [hb, hni_split]
    rw [List.length_map] at hD
    rw [hlenR] at hD
    simpa using hD
  · rw [gD, eqG, hrest, List.filterMap_append, List.map_append]
    congr 1
    have := (inputGates_eq c ids c.inputs [] rest (by rw [hrest]; simp) hok.nodup hinG).1
    simpa [hrest] using this
  · rw [iD]
    have := (inputGates_eq c ids c.inputs [] rest (by rw [hrest]; simp) hok.nodup hinG).2
    simpa using this
  · rw [oD, List.map_map]; rfl

/-- hence the decoded circuit computes the same function: every valuation of `c` transports along the
renaming, inputs and outputs position by position -/
theorem codec_roundtrip_function {c : Circuit} (hw : WFS c) {bytes : List Nat} (he : encodeCircuit c = .ok bytes) :
    ∃ D, decodeCircuit bytes = .ok D ∧ D.inputs.length = c.inputs.length ∧ D.outputs.length = c.outputs.length ∧
      ∀ b v, IsValB c b v → ∃ b' v', IsValB D b' v' ∧ D.inputs.map b' = c.inputs.map b ∧ D.outputs.map v' = c.outputs.map v := by
  obtain ⟨D, hD, gD, iD, oD, hnd, hall⟩ := codec_roundtrip hw he
  generalize enumerateGates c = ids at gD iD oD hnd hall
  refine ⟨D, hD, by rw [iD]; simp, by rw [oD]; simp, ?_⟩
  intro b v hv
  -- read a decoded label back
  let un : Label → Label := fun l' => (ids.find? (fun l => gateLabel (ids.idxOf l) == l')).getD ""
  have hun : ∀ l ∈ ids, un (gateLabel (ids.idxOf l)) = l := by
    intro l hl
    simp only [un]
    cases hf : ids.find? (fun x => gateLabel (ids.idxOf x) == gateLabel (ids.idxOf l)) with
    | none =>
      have := List.find?_eq_none.mp hf l hl
      simp at this
    | some y =>
      have hy := List.find?_some hf
      have hym := List.mem_of_find?_eq_some hf
      simp only [beq_iff_eq] at hy
      have hidx := gateLabel_inj hy
      simp only [Option.getD_some]
      have h1 := List.getElem_idxOf (List.idxOf_lt_length_of_mem hym)
      have h2 := List.getElem_idxOf (List.idxOf_lt_length_of_mem hl)
      simp only [hidx] at h1
      rw [← h1, h2]
  have hlab : ∀ l ∈ c.labels, l ∈ ids := fun l hl => (hall l).mpr hl
  refine ⟨b ∘ un, v ∘ un, ?_, ?_, ?_⟩
  · intro g' hg'
    rw [gD] at hg'
    obtain ⟨g, hg, rfl⟩ := List.mem_map.mp hg'
    obtain ⟨l, hl, hfl⟩ := List.mem_filterMap.mp hg
    obtain ⟨hgm, hgl⟩ := find_some_mem hfl
    have := hv g hgm
    simp only [renC, Function.comp]
    rw [hun g.label (hlab _ (mem_labels_of_mem hgm))]
    by_cases ht : g.ty = INPUT
    · simpa [ht] using this
    · simp only [ht, if_false] at this ⊢
      rw [List.map_map]
      have : g.ops.map ((v ∘ un) ∘ fun o => gateLabel (ids.idxOf o)) = g.ops.map v := by
        apply List.map_congr_left
        intro o ho
        simp only [Function.comp]
        rw [hun o (hlab o (hw.closed g hgm o ho))]
      rw [this]; assumption
  · rw [iD, List.map_map]
    apply List.map_congr_left
    intro i hi
    obtain ⟨g, hg, hgl, _⟩ := (hw.inputsOK i).mp hi
    simp only [Function.comp]
    rw [hun i (hlab i (hgl ▸ mem_labels_of_mem hg))]
  · rw [oD, List.map_map]
    apply List.map_congr_left
    intro o ho
    simp only [Function.comp]
    rw [hun o (hlab o (hw.outputsOK o ho))]

end Cirbo
