import Cirbo.Model.Func
/-!
# `define`: completing a partially defined model
-/
namespace Cirbo
namespace FRep

def entryT (t : List (List (Option Bool))) (o i : Nat) : Option Bool := (t.getD o []).getD i none

theorem defineStep_length (t : List (List (Option Bool))) (d : (List Bool × Nat) × Bool) :
    (defineStep t d).length = t.length ∧ ∀ o, ((defineStep t d).getD o []).length = (t.getD o []).length := by
  unfold defineStep
  refine ⟨by simp, ?_⟩
  intro o
  simp only [List.getD_eq_getElem?_getD, List.getElem?_map, List.getElem?_zipIdx]
  cases h : t[o]? with
  | none => simp
  | some r =>
    simp only [Option.map_some, Option.getD_some, Nat.zero_add]
    split <;> simp

theorem entry_defineStep (t : List (List (Option Bool))) (d : (List Bool × Nat) × Bool) (o i : Nat) :
    entryT (defineStep t d) o i =
      if o = d.1.2 ∧ i = canonicalIndex d.1.1 ∧ o < t.length ∧ i < (t.getD o []).length ∧ entryT t o i = none
      then some d.2 else entryT t o i := by
  unfold entryT defineStep
  simp only [List.getD_eq_getElem?_getD, List.getElem?_map, List.getElem?_zipIdx]
  cases h : t[o]? with
  | none =>
    have : ¬ o < t.length := by
      intro hl; rw [List.getElem?_eq_getElem hl] at h; cases h
    simp [this]
  | some r =>
    have hl : o < t.length := by
      rcases Nat.lt_or_ge o t.length with h1 | h1
      · exact h1
      · rw [List.getElem?_eq_none h1] at h; cases h
    simp only [Option.map_some, Option.getD_some, Nat.zero_add, hl, true_and]
    by_cases ho : o = d.1.2
    · subst ho
      simp only [beq_self_eq_true, if_true, true_and, List.getElem?_map, List.getElem?_zipIdx, Nat.zero_add]
      cases hv : r[i]? with
      | none =>
        have : ¬ i < r.length := by
          intro hl'; rw [List.getElem?_eq_getElem hl'] at hv; cases hv
        simp [this]
      | some v =>
        have hil : i < r.length := by
          rcases Nat.lt_or_ge i r.length with h1 | h1
          · exact h1
          · rw [List.getElem?_eq_none h1] at hv; cases hv
        simp only [Option.map_some, Option.getD_some, hil, true_and]
        by_cases hi : i = canonicalIndex d.1.1
        · subst hi
          cases v <;> simp
        · have : (i == canonicalIndex d.1.1) = false := by simpa using hi
          simp [this, hi]
    · have : (o == d.1.2) = false := by simpa using ho
      simp [this, ho]

/-- an entry the model defines keeps its value whatever the definition says about it -/
theorem define_keeps_defined (defn : List ((List Bool × Nat) × Bool)) : ∀ (model : List (List (Option Bool))) (o i : Nat) (b : Bool),
    entryT model o i = some b → entryT (defineTable model defn) o i = some b := by
  induction defn with
  | nil => intro model o i b h; exact h
  | cons d r ih =>
    intro model o i b h
    unfold defineTable
    simp only [List.foldl_cons]
    apply ih
    rw [entry_defineStep, if_neg (by rintro ⟨_, _, _, _, h5⟩; rw [h] at h5; cases h5)]
    exact h

/-- the shape of the table is kept -/
theorem define_shape (defn : List ((List Bool × Nat) × Bool)) : ∀ (model : List (List (Option Bool))),
    (defineTable model defn).length = model.length ∧
      ∀ o, ((defineTable model defn).getD o []).length = (model.getD o []).length := by
  induction defn with
  | nil => intro model; exact ⟨rfl, fun _ => rfl⟩
  | cons d r ih =>
    intro model
    unfold defineTable
    simp only [List.foldl_cons]
    obtain ⟨h1, h2⟩ := ih (defineStep model d)
    obtain ⟨s1, s2⟩ := defineStep_length model d
    exact ⟨h1.trans s1, fun o => (h2 o).trans (s2 o)⟩

/-- a don't-care entry (inside the table) gets the value the definition gives it: if every item of the
definition for that position carries the value `b` and there is at least one, the result is `b`;
if there is none it stays a don't-care -/
theorem define_fills (defn : List ((List Bool × Nat) × Bool)) : ∀ (model : List (List (Option Bool))) (o i : Nat),
    o < model.length → i < (model.getD o []).length → entryT model o i = none →
    (∀ b, (∀ d ∈ defn, d.1.2 = o → canonicalIndex d.1.1 = i → d.2 = b) →
      (∃ d ∈ defn, d.1.2 = o ∧ canonicalIndex d.1.1 = i) → entryT (defineTable model defn) o i = some b) ∧
    ((∀ d ∈ defn, ¬ (d.1.2 = o ∧ canonicalIndex d.1.1 = i)) → entryT (defineTable model defn) o i = none) := by
  induction defn with
  | nil =>
    intro model o i _ _ h
    exact ⟨fun b _ ⟨d, hd, _⟩ => (by cases hd), fun _ => h⟩
  | cons d r ih =>
    intro model o i ho hi h
    obtain ⟨s1, s2⟩ := defineStep_length model d
    unfold defineTable
    simp only [List.foldl_cons]
    by_cases hm : d.1.2 = o ∧ canonicalIndex d.1.1 = i
    · have he : entryT (defineStep model d) o i = some d.2 := by
        rw [entry_defineStep, if_pos ⟨hm.1.symm, hm.2.symm, ho, hi, h⟩]
      refine ⟨fun b hall _ => ?_, fun hnone => absurd hm (hnone d (by simp))⟩
      have := define_keeps_defined r (defineStep model d) o i d.2 he
      rw [hall d (by simp) hm.1 hm.2] at this
      exact this
    · have he : entryT (defineStep model d) o i = none := by
        rw [entry_defineStep, if_neg (by rintro ⟨h1, h2, _⟩; exact hm ⟨h1.symm, h2.symm⟩)]
        exact h
      obtain ⟨i1, i2⟩ := ih (defineStep model d) o i (by rw [s1]; exact ho) (by rw [s2]; exact hi) he
      refine ⟨fun b hall ⟨d', hd', hm'⟩ => ?_, fun hnone => ?_⟩
      · apply i1 b (fun d'' hd'' => hall d'' (by simp [hd'']))
        rcases List.mem_cons.mp hd' with rfl | hd'
        · exact absurd hm' hm
        · exact ⟨d', hd', hm'⟩
      · exact i2 (fun d' hd' => hnone d' (by simp [hd']))

end FRep
end Cirbo
