import Cirbo.Proofs.Passes
/-!
# MergeUnaryOperators preserves the function and the interface
-/
namespace Cirbo
open GateType Circuit

/-- arities accepted by every gate (the part of well-formedness the C02 invariant leaves open) -/
def ArOK (c : Circuit) : Prop := ∀ g ∈ c.gates, if g.ty = INPUT then g.ops = [] else arityOk g.ty g.ops.length = true

/-- gates of `c'` have the type and operand count of gates of `c` -/
def SameShape (c c' : Circuit) : Prop :=
  ∀ g' ∈ c'.gates, ∃ g ∈ c.gates, g'.label = g.label ∧ g'.ty = g.ty ∧ g'.ops.length = g.ops.length

theorem arOK_of_shape {c c' : Circuit} (hs : SameShape c c') (h : ArOK c) : ArOK c' := by
  intro g' hg'
  obtain ⟨g, hg, _, ht, hl⟩ := hs g' hg'
  have := h g hg
  rw [ht]
  by_cases hty : g.ty = INPUT
  · simp only [hty, if_true] at this ⊢
    rw [this] at hl; exact List.eq_nil_of_length_eq_zero hl
  · simp only [hty, if_false] at this ⊢; rw [hl]; exact this

/-- emplacing gates of `c` with remapped operands -/
theorem emplaceAll_spec (c : Circuit) (f : Label → Label) : ∀ (ls : List Label) (init n : Circuit),
    emplaceAll c ls f init = .ok n →
    ∃ gs : List Gate, n.gates = init.gates ++ gs ∧ gs.map (·.label) = ls ∧
      (∀ g' ∈ gs, ∃ g ∈ c.gates, g' = ⟨g.label, g.ty, g.ops.map f⟩) ∧
      n.outputs = init.outputs ∧ n.blocks = init.blocks ∧
      (WFS init → (∀ g ∈ c.gates, g.ty = INPUT → g.ops = []) → WFS n) := by
  intro ls
  induction ls with
  | nil =>
    intro init n h
    simp [emplaceAll] at h; subst h
    exact ⟨[], by simp, rfl, by simp, rfl, rfl, fun h _ => h⟩
  | cons l r ih =>
    intro init n h
    rw [emplaceAll_eq] at h
    simp only [List.foldl_cons] at h
    cases hs : emplaceStep c f (.ok init) l with
    | error e => rw [hs, foldl_emplaceStep_error] at h; cases h
    | ok n1 =>
      rw [hs] at h
      unfold emplaceStep at hs
      simp only at hs
      cases hf : c.find? l with
      | none => simp [hf] at hs
      | some g =>
        simp only [hf] at hs
        obtain ⟨hgm, hgl⟩ := find_some_mem hf
        obtain ⟨_, _, hg1, _, ho1, hb1, _⟩ := addGate_fields hs
        obtain ⟨gs, a1, a2, a3, a4, a5, a6⟩ := ih n1 n (by rw [emplaceAll_eq]; exact h)
        refine ⟨⟨g.label, g.ty, g.ops.map f⟩ :: gs, ?_, by simp [a2, hgl], ?_, a4.trans ho1, a5.trans hb1, ?_⟩
        · rw [a1, hg1]; simp
        · intro x hx; simp only [List.mem_cons] at hx
          rcases hx with rfl | hx
          · exact ⟨g, hgm, rfl⟩
          · exact a3 x hx
        · intro hw hio
          exact a6 (addGate_wfs hw (fun ht => by simp [hio g hgm ht]) hs) hio

/-! ### the parity bookkeeping -/

/-- what the three maps mean under a valuation of the circuit -/
structure MInv (v : Label → Bool) (m : MuoMaps) : Prop where
  even : ∀ l p, Dict.get? m.even l = some p → v l = v p
  odd : ∀ l p, Dict.get? m.odd l = some p → v l = !v p
  iff : ∀ l p, Dict.get? m.iff l = some p → v l = v p

theorem notLike_val {c : Circuit} {b v : Label → Bool} (hv : IsValB c b v) {g : Gate} (hg : g ∈ c.gates)
    (hn : isNotLike g.ty = true) {o : Label} (ho : unaryOperand g = some o) : v g.label = !v o := by
  have h := hv g hg
  have hne : g.ty ≠ INPUT := by intro e; simp [isNotLike, e] at hn
  simp only [hne, if_false] at h
  obtain ⟨l, ty, ops⟩ := g
  simp only [isNotLike, Bool.or_eq_true, beq_iff_eq] at hn
  simp only [unaryOperand] at ho
  simp only at h hn ho
  rcases hn with (rfl | rfl) | rfl
  · rcases ops with _ | ⟨a, _ | ⟨b, r⟩⟩ <;> simp [bfun] at h
    simp at ho; subst ho; show v l = _; rw [h]; simp
  · rcases ops with _ | ⟨a, _ | ⟨b, _ | ⟨cc, r⟩⟩⟩ <;> simp [bfun] at h
    simp at ho; subst ho; show v l = _; rw [h]; simp
  · rcases ops with _ | ⟨a, _ | ⟨b, _ | ⟨cc, r⟩⟩⟩ <;> simp [bfun] at h
    simp at ho; subst ho; show v l = _; rw [h]; simp

theorem iffLike_val {c : Circuit} {b v : Label → Bool} (hv : IsValB c b v) {g : Gate} (hg : g ∈ c.gates)
    (hn : isIffLike g.ty = true) {o : Label} (ho : unaryOperand g = some o) : v g.label = v o := by
  have h := hv g hg
  have hne : g.ty ≠ INPUT := by intro e; simp [isIffLike, e] at hn
  simp only [hne, if_false] at h
  obtain ⟨l, ty, ops⟩ := g
  simp only [isIffLike, Bool.or_eq_true, beq_iff_eq] at hn
  simp only [unaryOperand] at ho
  simp only at h hn ho
  rcases hn with (rfl | rfl) | rfl
  · rcases ops with _ | ⟨a, _ | ⟨b, r⟩⟩ <;> simp [bfun] at h
    simp at ho; subst ho; exact h.symm
  · rcases ops with _ | ⟨a, _ | ⟨b, _ | ⟨cc, r⟩⟩⟩ <;> simp [bfun] at h
    simp at ho; subst ho; exact h.symm
  · rcases ops with _ | ⟨a, _ | ⟨b, _ | ⟨cc, r⟩⟩⟩ <;> simp [bfun] at h
    simp at ho; subst ho; exact h.symm

def muoStep (c : Circuit) (acc : R MuoMaps) (l : Label) : R MuoMaps :=
  match acc with
  | .error e => .error e
  | .ok m => match c.find? l with
    | none => .error "GateDoesntExistError"
    | some g =>
      if isNotLike g.ty then
        match unaryOperand g with
        | none => .error "Py:IndexError"
        | some o =>
          let even' := match Dict.get? m.odd o with
            | some p => Dict.set m.even l p
            | none => m.even
          .ok ⟨even', Dict.set m.odd l ((Dict.get? m.even o).getD o), m.iff⟩
      else if isIffLike g.ty then
        match unaryOperand g with
        | none => .error "Py:IndexError"
        | some o => .ok ⟨m.even, m.odd, Dict.set m.iff l ((Dict.get? m.iff o).getD o)⟩
      else .ok m

theorem muoMaps_eq (c : Circuit) (order : List Label) : muoMaps c order = order.foldl (muoStep c) (.ok ⟨[], [], []⟩) := rfl

theorem muoStep_inv {c : Circuit} {b v : Label → Bool} (hv : IsValB c b v) {m m' : MuoMaps} {l : Label}
    (hm : MInv v m) (h : muoStep c (.ok m) l = .ok m') : MInv v m' := by
  unfold muoStep at h
  simp only at h
  cases hf : c.find? l with
  | none => simp [hf] at h
  | some g =>
    simp only [hf] at h
    obtain ⟨hgm, hgl⟩ := find_some_mem hf
    by_cases hn : isNotLike g.ty = true
    · simp only [hn, if_true] at h
      cases ho : unaryOperand g with
      | none => simp [ho] at h
      | some o =>
        simp only [ho, Except.ok.injEq] at h
        subst h
        have hval : v l = !v o := by rw [← hgl]; exact notLike_val hv hgm hn ho
        refine ⟨?_, ?_, hm.iff⟩
        · intro x p hx
          cases hod : Dict.get? m.odd o with
          | none => simp only [hod] at hx; exact hm.even x p hx
          | some q =>
            simp only [hod, Dict.get?_set] at hx
            by_cases hxl : x = l
            · subst hxl
              simp only [if_true, Option.some.injEq] at hx; subst hx
              rw [hval, hm.odd o _ hod]; simp
            · simp only [hxl, if_false] at hx; exact hm.even x p hx
        · intro x p hx
          simp only [Dict.get?_set] at hx
          by_cases hxl : x = l
          · subst hxl
            simp only [if_true, Option.some.injEq] at hx; subst hx
            cases hev : Dict.get? m.even o with
            | none => simpa using hval
            | some q => simp only [Option.getD_some]; rw [hval, hm.even o q hev]
          · simp only [hxl, if_false] at hx; exact hm.odd x p hx
    · simp only [hn, Bool.false_eq_true, if_false] at h
      by_cases hi : isIffLike g.ty = true
      · simp only [hi, if_true] at h
        cases ho : unaryOperand g with
        | none => simp [ho] at h
        | some o =>
          simp only [ho, Except.ok.injEq] at h
          subst h
          have hval : v l = v o := by rw [← hgl]; exact iffLike_val hv hgm hi ho
          refine ⟨hm.even, hm.odd, ?_⟩
          intro x p hx
          simp only [Dict.get?_set] at hx
          by_cases hxl : x = l
          · subst hxl
            simp only [if_true, Option.some.injEq] at hx; subst hx
            cases hev : Dict.get? m.iff o with
            | none => simpa using hval
            | some q => simp only [Option.getD_some]; rw [hval, hm.iff o q hev]
          · simp only [hxl, if_false] at hx; exact hm.iff x p hx
      · simp only [hi, Bool.false_eq_true, if_false, Except.ok.injEq] at h
        subst h; exact hm

theorem muoStep_error (c : Circuit) (e : String) : ∀ (xs : List Label), xs.foldl (muoStep c) (.error e) = .error e := by
  intro xs; induction xs with
  | nil => rfl
  | cons a b ih => simpa [muoStep] using ih

theorem muoMaps_inv {c : Circuit} {b v : Label → Bool} (hv : IsValB c b v) : ∀ (order : List Label) (m m' : MuoMaps),
    MInv v m → order.foldl (muoStep c) (.ok m) = .ok m' → MInv v m' := by
  intro order
  induction order with
  | nil => intro m m' hm h; simp only [List.foldl_nil, Except.ok.injEq] at h; subst h; exact hm
  | cons l r ih =>
    intro m m' hm h
    simp only [List.foldl_cons] at h
    cases hs : muoStep c (.ok m) l with
    | error e => rw [hs, muoStep_error] at h; cases h
    | ok m1 => rw [hs] at h; exact ih m1 m' (muoStep_inv hv hm hs) h

/-- remapping through the maps never changes the value -/
theorem muoRemap_val {c : Circuit} {v : Label → Bool} {m : MuoMaps} (hm : MInv v m) (l : Label) :
    v (muoRemap c m l) = v l := by
  unfold muoRemap
  cases hf : c.find? l with
  | none => rfl
  | some g =>
    simp only
    split
    · cases he : Dict.get? m.even l with
      | none => rfl
      | some p => simp only [Option.getD_some]; exact (hm.even l p he).symm
    · split
      · cases he : Dict.get? m.iff l with
        | none => rfl
        | some p => simp only [Option.getD_some]; exact (hm.iff l p he).symm
      · rfl

/-- **MergeUnaryOperators**: same gate labels and types, operands redirected along NOT-NOT and IFF
chains; every valuation of the argument is a valuation of the result; inputs kept, outputs
redirected to signals of equal value -/
theorem muo_spec {c c' : Circuit} (hw : WFS c) (h : muo c = .ok c') :
    WFS c' ∧ c'.inputs = c.inputs ∧ c'.outputs.length = c.outputs.length ∧ SameShape c c' ∧
    (∀ b v, IsValB c b v → IsValB c' b v ∧ c'.outputs.map v = c.outputs.map v) := by
  unfold muo at h
  cases hts : c.topSort true with
  | cyclic => simp [hts] at h
  | ok order =>
    simp only [hts] at h
    cases hmm : muoMaps c order with
    | error e => simp [hmm] at h
    | ok m =>
      simp only [hmm] at h
      cases htr : traverse c false false (some c.outputs) true with
      | error e => simp [htr] at h
      | ok log =>
        simp only [htr] at h
        cases hem : emplaceAll c (hookLabels log true) (muoRemap c m) Circuit.empty with
        | error e => simp [hem] at h
        | ok n1 =>
          simp only [hem] at h
          cases hsi : n1.setInputs c.inputs with
          | error e => simp [hsi] at h
          | ok n2 =>
            simp only [hsi] at h
            obtain ⟨gs, g1, g2, g3, _, _, g6⟩ := emplaceAll_spec c _ _ _ _ hem
            have w1 : WFS n1 := g6 wfs_empty hw.inputOps
            have w3 : WFS c' := setOutputs_wfs (setInputs_wfs w1 hsi) h
            have hgc : c'.gates = gs := by
              rw [setOutputs_gates h, setInputs_gates hsi, g1]; simp [Circuit.empty]
            obtain ⟨hoc, hic⟩ := setOutputs_outputs h
            obtain ⟨hi3, _⟩ := setInputs_inputs hsi
            refine ⟨w3, by rw [hic, hi3], by rw [hoc]; simp, ?_, ?_⟩
            · intro g' hg'
              rw [hgc] at hg'
              obtain ⟨g, hg, rfl⟩ := g3 g' hg'
              exact ⟨g, hg, rfl, rfl, by simp⟩
            intro b v hv
            have hm : MInv v m := by
              rw [muoMaps_eq] at hmm
              exact muoMaps_inv hv order _ m ⟨by simp [Dict.get?], by simp [Dict.get?], by simp [Dict.get?]⟩ hmm
            constructor
            · intro g' hg'
              rw [hgc] at hg'
              obtain ⟨g, hg, rfl⟩ := g3 g' hg'
              have := hv g hg
              simp only
              by_cases ht : g.ty = INPUT
              · simp only [ht, if_true] at this ⊢; exact this
              · simp only [ht, if_false] at this ⊢
                rw [List.map_map]
                have : (v ∘ muoRemap c m) = v := by funext l; exact muoRemap_val hm l
                rw [this]; assumption
            · rw [hoc, List.map_map]
              have : (v ∘ muoRemap c m) = v := by funext l; exact muoRemap_val hm l
              rw [this]

end Cirbo
