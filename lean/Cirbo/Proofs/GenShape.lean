import Cirbo.Proofs.GenCostX
import Cirbo.Proofs.GenWeighted
import Cirbo.Proofs.Norm
/-!
# The shape of the XAIG weighted sum: which levels are output (C08: result width of `add_mul`)
-/
namespace Cirbo
open GateType

/-- how many items of a list sit at level `k` -/
def cntL {α} (lev : α → Nat) (l : List α) (k : Nat) : Nat := (l.filter (fun x => lev x == k)).length

theorem cntL_nil {α} (lev : α → Nat) (k : Nat) : cntL lev [] k = 0 := rfl

theorem cntL_cons {α} (lev : α → Nat) (x : α) (l : List α) (k : Nat) :
    cntL lev (x :: l) k = (if lev x = k then 1 else 0) + cntL lev l k := by
  unfold cntL
  by_cases h : lev x = k
  · simp [List.filter_cons, h]; omega
  · have : (lev x == k) = false := by simp [h]
    simp [List.filter_cons, h, this]

theorem cntL_append {α} (lev : α → Nat) (a b : List α) (k : Nat) : cntL lev (a ++ b) k = cntL lev a k + cntL lev b k := by
  unfold cntL; simp [List.filter_append]

theorem cntL_perm {α} (lev : α → Nat) {a b : List α} (h : a.Perm b) (k : Nat) : cntL lev a k = cntL lev b k := by
  unfold cntL; exact (h.filter _).length_eq

theorem cntL_insertBy {α} (lev : α → Nat) (lt : α → α → Bool) (x : α) (l : List α) (k : Nat) :
    cntL lev (insertBy lt x l) k = (if lev x = k then 1 else 0) + cntL lev l k := by
  rw [cntL_perm lev (Norm.insertBy_perm lt x l) k, cntL_cons]

theorem cntL_foldl_insert {α β} (lev : α → Nat) (lt : α → α → Bool) (f : β → α) (k : Nat) :
    ∀ (xs : List β) (acc : List α),
      cntL lev (xs.foldl (fun acc x => insertBy lt (f x) acc) acc) k = cntL lev acc k + cntL (fun x => lev (f x)) xs k := by
  intro xs
  induction xs with
  | nil => intro acc; simp [cntL_nil]
  | cons x r ih => intro acc; simp only [List.foldl_cons, ih, cntL_insertBy, cntL_cons]; omega

theorem cntL_const {β} (c : Nat) (xs : List β) (k : Nat) : cntL (fun _ : β => c) xs k = if c = k then xs.length else 0 := by
  unfold cntL
  by_cases h : c = k
  · simp [h]
  · have : (c == k) = false := by simp [h]
    simp [h, this]

theorem cntL_zero_of_all {α} (lev : α → Nat) (l : List α) (k : Nat) (h : ∀ x ∈ l, lev x ≠ k) : cntL lev l k = 0 := by
  unfold cntL
  rw [List.length_eq_zero_iff, List.filter_eq_nil_iff]
  intro x hx
  simpa using h x hx

theorem nil_of_cntL_zero {α} (lev : α → Nat) (l : List α) (h : ∀ k, cntL lev l k = 0) : l = [] := by
  cases l with
  | nil => rfl
  | cons x r =>
    have := h (lev x)
    rw [cntL_cons] at this
    simp at this

theorem cntL_all {α} (lev : α → Nat) (l : List α) (k : Nat) (h : ∀ x ∈ l, lev x = k) : cntL lev l k = l.length := by
  unfold cntL
  rw [List.filter_eq_self.mpr (fun x hx => by simpa using h x hx)]

/-- on a sorted list whose items are all at or above `now`, `takeLevel` takes exactly the items at `now` -/
theorem takeLevel_counts {α} (lev : α → Nat) (now : Nat) (l : List α) (hs : LSorted lev l)
    (hmin : ∀ x ∈ l, now ≤ lev x) :
    (takeLevel lev now l).1.length = cntL lev l now ∧
    (∀ k, cntL lev (takeLevel lev now l).2 k = if k = now then 0 else cntL lev l k) := by
  obtain ⟨hsplit, hall⟩ := takeLevel_spec lev now l
  obtain ⟨hgt, _, _, _⟩ := takeLevel_rest lev now l hs hmin
  have hz : cntL lev (takeLevel lev now l).2 now = 0 :=
    cntL_zero_of_all _ _ _ (fun x hx => Nat.ne_of_gt (hgt x hx))
  constructor
  · have := cntL_append lev (takeLevel lev now l).1 (takeLevel lev now l).2 now
    rw [← hsplit, hz, cntL_all lev _ now hall] at this
    omega
  · intro k
    by_cases hk : k = now
    · subst hk; simp [hz]
    · simp only [hk, if_false]
      have := cntL_append lev (takeLevel lev now l).1 (takeLevel lev now l).2 k
      rw [← hsplit] at this
      rw [this, cntL_zero_of_all lev (takeLevel lev now l).1 k (fun x hx => by rw [hall x hx]; exact Ne.symm hk)]
      omega

/-- the number of levels the loop outputs, from the level profile: `c l` own bits at level `l`, and
`cs` single / `cp` paired carries arriving at the current level -/
def levelsCount (c : Nat → Nat) : Nat → Nat → Nat → Nat → Nat
  | 0, _, _, _ => 0
  | f + 1, L, cs, cp =>
    if c L + cs + 2 * cp = 0 then 0
    else 1 + levelsCount c f (L + 1) ((cp + (c L + cs) / 2) % 2) ((cp + (c L + cs) / 2) / 2)

theorem levelsCount_succ (c : Nat → Nat) (f L cs cp : Nat) :
    levelsCount c (f + 1) L cs cp = if c L + cs + 2 * cp = 0 then 0
      else 1 + levelsCount c f (L + 1) ((cp + (c L + cs) / 2) % 2) ((cp + (c L + cs) / 2) / 2) := rfl

/-- the state of the weighted loop when it is about to process level `L` -/
structure Shape (c : Nat → Nat) (L cs cp : Nat) (single : List (Nat × Label)) (pairs : List (Nat × Label × Label)) : Prop where
  sS : LSorted (fun (x : Nat × Label) => x.1) single
  sP : LSorted (fun (x : Nat × Label × Label) => x.1) pairs
  geS : ∀ x ∈ single, L ≤ x.1
  atP : ∀ p ∈ pairs, p.1 = L
  cur : cntL (fun (x : Nat × Label) => x.1) single L = c L + cs
  above : ∀ k, L < k → cntL (fun (x : Nat × Label) => x.1) single k = c k
  np : pairs.length = cp

theorem minLevel_eq (single : List (Nat × Label)) (pairs : List (Nat × Label × Label)) (inf L : Nat)
    (hS : ∀ x ∈ single, L ≤ x.1) (hP : ∀ p ∈ pairs, L ≤ p.1)
    (hex : (∃ x r, single = x :: r ∧ x.1 = L) ∨ (∃ p r, pairs = p :: r ∧ p.1 = L)) (hinf : L < inf) :
    minLevel single pairs inf = L := by
  unfold minLevel
  cases single with
  | nil =>
    cases pairs with
    | nil => rcases hex with ⟨x, r, e, _⟩ | ⟨p, r, e, _⟩ <;> cases e
    | cons p r =>
      rcases hex with ⟨x, r', e, _⟩ | ⟨p', r', e, hp⟩
      · cases e
      · cases e; simp only; omega
  | cons x r =>
    have hx := hS x (by simp)
    cases pairs with
    | nil =>
      rcases hex with ⟨x', r', e, hx'⟩ | ⟨p, r', e, _⟩
      · cases e; simp only; omega
      · cases e
    | cons p r2 =>
      have hp := hP p (by simp)
      simp only
      rcases hex with ⟨x', r', e, hx'⟩ | ⟨p', r', e, hp'⟩
      · cases e; omega
      · cases e; omega

theorem shape_head {c : Nat → Nat} {L cs cp : Nat} {single : List (Nat × Label)}
    {pairs : List (Nat × Label × Label)} (sh : Shape c L cs cp single pairs) (hT : c L + cs + 2 * cp ≠ 0) :
    (∃ x r, single = x :: r ∧ x.1 = L) ∨ (∃ p r, pairs = p :: r ∧ p.1 = L) := by
  by_cases hcp : cp = 0
  · left
    have hc : 0 < cntL (fun (x : Nat × Label) => x.1) single L := by rw [sh.cur]; omega
    cases hsg : single with
    | nil => rw [hsg, cntL_nil] at hc; omega
    | cons x r =>
      refine ⟨x, r, rfl, ?_⟩
      have hge := sh.geS x (by rw [hsg]; simp)
      unfold cntL at hc
      have hne : (single.filter (fun y => y.1 == L)) ≠ [] := by
        intro e; rw [e] at hc; simp at hc
      obtain ⟨y, hy⟩ := List.exists_mem_of_ne_nil _ hne
      obtain ⟨hym, hyl⟩ := List.mem_filter.mp hy
      have hyl' : y.1 = L := by simpa using hyl
      rw [hsg] at hym
      rcases List.mem_cons.mp hym with e | hym
      · rw [← e]; exact hyl'
      · have hs := sh.sS
        rw [hsg] at hs
        have := (List.pairwise_cons.mp hs).1 y hym
        simp only at this
        omega
  · right
    cases hpg : pairs with
    | nil => have := sh.np; rw [hpg] at this; simp at this; omega
    | cons p r => exact ⟨p, r, rfl, sh.atP p (by rw [hpg]; simp)⟩

theorem minLevel_of_shape {c : Nat → Nat} {L cs cp : Nat} {single : List (Nat × Label)}
    {pairs : List (Nat × Label × Label)} (sh : Shape c L cs cp single pairs) (hT : c L + cs + 2 * cp ≠ 0)
    {inf : Nat} (hinf : L < inf) : minLevel single pairs inf = L :=
  minLevel_eq single pairs inf L sh.geS (fun p hp => Nat.le_of_eq (sh.atP p hp).symm) (shape_head sh hT) hinf

/-- **the XAIG weighted loop outputs exactly the levels the profile predicts**: with `c l` own bits at
level `l` (a profile without holes: once it is 0 it stays 0), starting at level `L` with `cs` single and
`cp` paired carries, the result gets `levelsCount c fuel L cs cp` more entries -/
theorem shape_weightedLoop {c : Nat → Nat} (hc : ∀ l, c l = 0 → ∀ k, l ≤ k → c k = 0) (inf : Nat) :
    ∀ (fuel : Nat) (single : List (Nat × Label)) (pairs : List (Nat × Label × Label)) (res r : List (Nat × Label))
      (k L cs cp : Nat), Cost (weightedLoop .xaig inf fuel single pairs res) r k → Shape c L cs cp single pairs →
      L + levelsCount c fuel L cs cp ≤ inf → r.length = res.length + levelsCount c fuel L cs cp := by
  intro fuel
  induction fuel with
  | zero => intro single pairs res r k L cs cp h; unfold weightedLoop at h; exact absurd h cost_fail
  | succ f ih =>
    intro single pairs res r k L cs cp h sh hb
    by_cases hT : c L + cs + 2 * cp = 0
    · -- nothing left at all
      have hcl : c L = 0 := by omega
      have hs0 : single = [] := by
        apply nil_of_cntL_zero (fun (x : Nat × Label) => x.1)
        intro k'
        by_cases hk : k' < L
        · exact cntL_zero_of_all _ _ _ (fun x hx => by have := sh.geS x hx; omega)
        · by_cases hk2 : k' = L
          · subst hk2; rw [sh.cur]; omega
          · rw [sh.above k' (by omega)]; exact hc L hcl k' (by omega)
      have hp0 : pairs = [] := by
        have := sh.np
        cases pairs with
        | nil => rfl
        | cons _ _ => simp at this; omega
      subst hs0 hp0
      unfold weightedLoop at h
      simp only [List.isEmpty_nil, Bool.and_self, if_true] at h
      obtain ⟨rfl, _⟩ := cost_pure.mp h
      rw [levelsCount_succ, if_pos hT]; rfl
    · have hlc : levelsCount c (f + 1) L cs cp = 1 + levelsCount c f (L + 1) ((cp + (c L + cs) / 2) % 2) ((cp + (c L + cs) / 2) / 2) := by
        rw [levelsCount_succ, if_neg hT]
      rw [hlc] at hb ⊢
      have hLinf : L < inf := by omega
      have hmin := minLevel_of_shape sh hT hLinf
      unfold weightedLoop at h
      have hne : (single.isEmpty && pairs.isEmpty) = false := by
        cases hsg : single with
        | nil =>
          cases hpg : pairs with
          | nil =>
            exfalso
            have h1 := sh.cur; have h2 := sh.np
            rw [hsg, cntL_nil] at h1; rw [hpg] at h2; simp at h2; omega
          | cons _ _ => simp
        | cons _ _ => simp
      simp only [hne, Bool.false_eq_true, if_false, hmin] at h
      have hnot : ¬ (L ≥ inf) := by omega
      simp only [hnot, if_false] at h
      cases htl : takeLevel (fun (x : Nat × Label) => x.1) L single with
      | mk nowS restS =>
        cases htp : takeLevel (fun (x : Nat × Label × Label) => x.1) L pairs with
        | mk nowP restP =>
          rw [htl, htp] at h
          simp only [cost_bind] at h
          obtain ⟨⟨soloR, pairsR⟩, k1, _, h1, ⟨⟨x, nextS, nextP⟩, k2, k3, h2, h3, rfl⟩, rfl⟩ := h
          simp only at h2 h3
          -- what was taken
          obtain ⟨tS1, tS2⟩ := takeLevel_counts (fun (x : Nat × Label) => x.1) L single sh.sS sh.geS
          obtain ⟨tP1, tP2⟩ := takeLevel_counts (fun (x : Nat × Label × Label) => x.1) L pairs sh.sP
            (fun p hp => Nat.le_of_eq (sh.atP p hp).symm)
          rw [htl] at tS1 tS2; rw [htp] at tP1 tP2
          simp only at tS1 tS2 tP1 tP2
          have hnowS : nowS.length = c L + cs := by rw [tS1, sh.cur]
          have hnowP : nowP.length = cp := by rw [tP1, cntL_all _ _ _ sh.atP, sh.np]
          have hrestP : restP = [] := by
            apply nil_of_cntL_zero (fun (x : Nat × Label × Label) => x.1)
            intro k'
            rw [tP2 k']
            split
            · rfl
            · rename_i hk
              exact cntL_zero_of_all _ _ _ (fun p hp => by rw [sh.atP p hp]; exact Ne.symm hk)
          obtain ⟨rS_gt, rS_sorted, rS_mem, _⟩ := takeLevel_rest (fun (x : Nat × Label) => x.1) L single sh.sS sh.geS
          rw [htl] at rS_gt rS_sorted rS_mem
          simp only at rS_gt rS_sorted rS_mem
          -- the blocks
          obtain ⟨a1, a2, a3⟩ := cost_pairUp _ _ _ _ _ _ (by simp only [List.length_reverse, List.length_map]; omega) h1
          simp only [List.length_reverse, List.length_map] at a1 a2 a3
          obtain ⟨b1, b2, b3, b4⟩ := cost_xaigLevel (by omega) h2
          -- the next state
          obtain ⟨_, fl, fmem, fsorted⟩ := foldInsertS_facts (fun _ => false) (L + 1) nextS restS
          obtain ⟨_, gl, gmem, gsorted⟩ := foldInsertP_facts (fun _ => false) (L + 1) nextP restP
          have hp : pairsR.length = cp + (c L + cs) / 2 := by omega
          have sh' : Shape c (L + 1) ((cp + (c L + cs) / 2) % 2) ((cp + (c L + cs) / 2) / 2)
              (nextS.foldl (fun acc l => insertBy ltSingle (L + 1, l) acc) restS)
              (nextP.foldl (fun acc (l : Label × Label) => insertBy ltPair (L + 1, l.1, l.2) acc) restP) := by
            refine ⟨fsorted rS_sorted, gsorted (by rw [hrestP]; simp [LSorted]), ?_, ?_, ?_, ?_, ?_⟩
            · intro y hy
              rcases fmem y hy with h5 | h5
              · have := rS_gt y h5; omega
              · omega
            · intro q hq
              rcases gmem q hq with h5 | h5
              · rw [hrestP] at h5; cases h5
              · exact h5
            · rw [cntL_foldl_insert (fun (x : Nat × Label) => x.1) ltSingle (fun l => (L + 1, l)) (L + 1) nextS restS,
                cntL_const, tS2 (L + 1)]
              have : ¬ (L + 1 = L) := by omega
              simp only [this, if_false, if_true]
              rw [sh.above (L + 1) (by omega), b2, hp]
            · intro k' hk'
              rw [cntL_foldl_insert (fun (x : Nat × Label) => x.1) ltSingle (fun l => (L + 1, l)) k' nextS restS,
                cntL_const, tS2 k']
              have h6 : ¬ (k' = L) := by omega
              have h7 : ¬ (L + 1 = k') := by omega
              simp only [h6, h7, if_false]
              rw [sh.above k' (by omega)]; omega
            · rw [gl, hrestP, b1, hp]; simp
          have := ih _ _ _ _ _ _ _ _ h3 sh' (by omega)
          rw [this]
          simp only [List.length_append, List.length_singleton]
          omega

end Cirbo
