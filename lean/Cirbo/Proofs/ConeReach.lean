import Cirbo.Proofs.ConeTable
import Cirbo.Proofs.MegPost
import Cirbo.Proofs.FuncIdx
import Cirbo.Proofs.SynthCircuit
/-!
# C04: `_eval_dont_cares` collects every leaf vector that occurs
-/
namespace Cirbo
namespace Cone
open GateType V3

theorem mem_inputsTT {n : Nat} {occ : List (List Bool)} {s : List Bool} (hs : s ∈ occ) (hl : s.length = n) :
    s ∈ inputsTT n occ := by
  unfold inputsTT
  rw [List.mem_filter]
  refine ⟨?_, by simpa using hs⟩
  rw [List.mem_map]
  refine ⟨lsbRow s.reverse, ?_, ?_⟩
  · rw [List.mem_range]; have := lsbRow_lt s.reverse; simpa [hl] using this
  · have := msbBits_lsbRow s.reverse
    simpa [hl] using this

theorem mem_inputsTT_iff {n : Nat} {occ : List (List Bool)} {s : List Bool} (hocc : ∀ t ∈ occ, t.length = n) :
    s ∈ inputsTT n occ ↔ s ∈ occ := by
  constructor
  · intro h
    unfold inputsTT at h
    rw [List.mem_filter] at h
    simpa using h.2
  · intro h; exact mem_inputsTT h (hocc s h)

/-- **`_eval_dont_cares` is complete**: on a well-formed circuit, the set of assignment strings it stores for a
cone with leaves `ins` contains the leaf vector of every valuation of the circuit -/
theorem inputsTT_complete {c : Circuit} (h : WFU c) {gtt : Dict (List V3)} (hg : gatesTruthTable c = .ok gtt)
    {ins : List Label} (hins : ∀ l ∈ ins, l ∈ c.labels) :
    ReachComplete c ins (inputsTT ins.length (occOf gtt (2 ^ c.inputs.length) ins)) := by
  intro b v hv
  have hex : ∀ bs : List Bool, ∃ v, IsValB c (asgOfBits c.inputs bs) v := fun bs => valB_exists h _
  let V : List Bool → Label → Bool := fun bs => Classical.choose (hex bs)
  have hV : ∀ bs, IsValB c (asgOfBits c.inputs bs) (V bs) := fun bs => Classical.choose_spec (hex bs)
  have hB : ∀ bs ∈ allInputs c.inputs.length,
      c.inputs.map (asgOfBits c.inputs bs) = bs ∧ IsValB c (asgOfBits c.inputs bs) (V bs) := by
    intro bs hbs
    exact ⟨map_asgOfBits _ _ h.inputsNodup ((mem_allInputs bs _).mp hbs), hV bs⟩
  -- the input vector of `b`
  obtain ⟨bs, hbsdef⟩ : ∃ bs, bs = c.inputs.map b := ⟨_, rfl⟩
  have hlen : bs.length = c.inputs.length := by rw [hbsdef]; simp
  have hmem : bs ∈ allInputs c.inputs.length := (mem_allInputs bs _).mpr hlen
  obtain ⟨i, hi, hget⟩ := List.getElem_of_mem hmem
  have hi' : i < 2 ^ c.inputs.length := by simpa [FRep.allInputs_length] using hi
  -- `v` agrees with `V bs` on every gate
  have hagree : ∀ l ∈ c.labels, V bs l = v l := by
    have hv' : IsValB c (asgOfBits c.inputs bs) v := by
      refine isValB_congr ?_ hv
      intro g hgm hgt
      have hgin : g.label ∈ c.inputs := (h.inputsOK g.label).mpr ⟨g, hgm, rfl, hgt⟩
      have hm := (hB bs hmem).1
      obtain ⟨k, hk, hkl⟩ := List.getElem_of_mem hgin
      have h1 : (c.inputs.map (asgOfBits c.inputs bs))[k]'(by simpa using hk) = bs[k]'(by omega) := by
        simp only [hm]
      simp only [List.getElem_map, hkl] at h1
      rw [h1]; subst hbsdef; simp [hkl]
    intro l hl
    obtain ⟨g, hgm, rfl⟩ := List.mem_map.mp hl
    exact valB_unique h.toWF (hV bs) hv' g hgm
  apply mem_inputsTT _ (by simp)
  unfold occOf
  rw [List.mem_map]
  refine ⟨i, List.mem_range.mpr hi', ?_⟩
  apply List.map_congr_left
  intro l hl
  have hrow := gatesTruthTable_spec h hg (asgOfBits c.inputs) V hB (hins l hl)
  rw [hrow]
  have : ((allInputs c.inputs.length).map (fun bs => ofBool (V bs l))).getD i V3.U = ofBool (V bs l) := by
    simp [List.getD, hi, hget]
  rw [this, hagree l (hins l hl)]
  cases v l <;> rfl


open Synth in
theorem inputBit_eq_testBit (sp : Spec) (i t : Nat) : inputBit sp i t = t.testBit (sp.n - 1 - i) := by
  unfold inputBit
  rw [Nat.testBit_eq_decide_div_mod_eq, Nat.shiftRight_eq_div_pow]
  by_cases h : t / 2 ^ (sp.n - 1 - i) % 2 = 1 <;> simp [h]

open Synth in
/-- **what exact synthesis returns implements the table it was given** (C06 restated in the form the
cone theorem needs): the circuit built from a solution with `SolOk` for a specification whose table is
`tab` has `n` inputs, one output per row of `tab` and the table's value at every defined entry -/
theorem synthesised_implements {sp : Spec} {sol : Sol} {sub : Circuit} (hok : SolOk sp sol)
    (h : solToCircuit sp sol = .ok sub) (tab : List (List (Option Bool))) (hm : tab.length = sp.m)
    (htab : ∀ j t, j < sp.m → t < 2 ^ sp.n → sp.table j t = entry tab j t) : Implements sub sp.n tab := by
  obtain ⟨h1, h2, h3⟩ := solToCircuit_spec hok.preds h
  refine ⟨by rw [h1]; simp, by rw [h2, hm]; simp, ?_⟩
  intro bs vs t ht hvs hrow j hj x hx
  have hj' : j < sp.m := by rw [h2] at hj; simpa using hj
  obtain ⟨o1, o2⟩ := hok.outs j hj'
  have hb : ∀ i, i < sp.n → bs (toString i) = inputBit sp i t := by
    intro i hi
    have hi' : i < sub.inputs.length := by rw [h1]; simpa using hi
    have := hrow i hi'
    rw [inputBit_eq_testBit, ← this]
    congr 1
    simp [h1]
  have hval := h3 bs vs t hvs hb (sol.out j) o2
  unfold synthLabel at hval
  rw [if_neg (by omega)] at hval
  have hlab : sub.outputs[j] = "s" ++ toString (sol.out j) := by simp [h2]
  rw [hlab, hval]
  exact hok.agrees j hj' t ht x (by rw [htab j t hj' ht]; exact hx)

end Cone
end Cirbo
