import Cirbo.Proofs.GenSum
import Cirbo.Model.Gen2
/-!
# Value theorems for subtraction, comparison and the gadgets (over `Sem`)
-/
namespace Cirbo
open GateType

theorem valLE_lt (v : Label → Bool) (l : List Label) : valLE v l < 2 ^ l.length := by
  induction l with
  | nil => simp [valLE]
  | cons x r ih =>
    simp only [valLE, List.length_cons, Nat.pow_succ]
    have : bv v x ≤ 1 := by unfold bv; cases v x <;> simp
    omega

theorem sem_addSub2 {ins : List Label} {v : Label → Bool} {r : List Label} (h : Sem (addSub2 ins false) v r) :
    ∃ x y d bo, ins = [x, y] ∧ r = [d, bo] ∧ bv v x + 2 * bv v bo = bv v y + bv v d := by
  rcases ins with _ | ⟨x, _ | ⟨y, _ | ⟨z, rest⟩⟩⟩
  · simp only [addSub2, revIf, Bool.false_eq_true, if_false] at h; exact absurd h sem_fail
  · simp only [addSub2, revIf, Bool.false_eq_true, if_false] at h; exact absurd h sem_fail
  · simp only [addSub2, revIf, Bool.false_eq_true, if_false, sem_bind, sem_pure] at h
    obtain ⟨g1, h1, g2, h2, rfl⟩ := h
    refine ⟨x, y, g1, g2, rfl, rfl, ?_⟩
    simp only [bv, sem_emitTT h1, sem_emitTT h2]
    cases v x <;> cases v y <;> rfl
  · simp only [addSub2, revIf, Bool.false_eq_true, if_false] at h; exact absurd h sem_fail

theorem sem_addSub3 {ins : List Label} {v : Label → Bool} {r : List Label} (h : Sem (addSub3 ins false) v r) :
    ∃ x y bi d bo, ins = [x, y, bi] ∧ r = [d, bo] ∧ bv v x + 2 * bv v bo = bv v y + bv v bi + bv v d := by
  rcases ins with _ | ⟨x, _ | ⟨y, _ | ⟨z, _ | ⟨w, rest⟩⟩⟩⟩
  · simp only [addSub3, revIf, Bool.false_eq_true, if_false] at h; exact absurd h sem_fail
  · simp only [addSub3, revIf, Bool.false_eq_true, if_false] at h; exact absurd h sem_fail
  · simp only [addSub3, revIf, Bool.false_eq_true, if_false] at h; exact absurd h sem_fail
  · simp only [addSub3, revIf, Bool.false_eq_true, if_false, sem_bind, sem_pure] at h
    obtain ⟨g3, h3, g4, h4, g5, h5, g6, h6, g7, h7, rfl⟩ := h
    refine ⟨x, y, z, g6, g7, rfl, rfl, ?_⟩
    simp only [bv, sem_emitTT h7, sem_emitTT h6, sem_emitTT h5, sem_emitTT h4, sem_emitTT h3]
    cases v x <;> cases v y <;> cases v z <;> rfl
  · simp only [addSub3, revIf, Bool.false_eq_true, if_false] at h; exact absurd h sem_fail

theorem valLE_take_succ (v : Label → Bool) (y : Label) (ys : List Label) (n : Nat) :
    valLE v ((y :: ys).take (n + 1)) = bv v y + 2 * valLE v (ys.take n) := by
  simp [List.take, valLE]

/-- the borrow chain: `X + 2^n·borrow_out = (Y mod 2^n) + borrow_in + D` -/
theorem sem_subChain {v : Label → Bool} : ∀ (xs ys res : List Label) (bal : Label) (res' : List Label) (bal' : Label),
    Sem (subChain xs ys res bal) v (res', bal') →
      ∃ ds, res' = res ++ ds ∧ ds.length = xs.length ∧
        valLE v xs + 2 ^ xs.length * bv v bal' = valLE v (ys.take xs.length) + bv v bal + valLE v ds := by
  intro xs
  induction xs with
  | nil =>
    intro ys res bal res' bal' h
    simp only [subChain, sem_pure, Prod.mk.injEq] at h
    obtain ⟨rfl, rfl⟩ := h
    exact ⟨[], by simp, rfl, by simp [valLE]⟩
  | cons x xs ih =>
    intro ys res bal res' bal' h
    simp only [subChain, sem_bind] at h
    obtain ⟨r, hr, ⟨d, b1⟩, hp, hrec⟩ := h
    have := sem_pair2 hp; subst this
    obtain ⟨ds, hds, hlen, hval⟩ := ih _ _ _ _ _ hrec
    refine ⟨d :: ds, by rw [hds]; simp, by simp [hlen], ?_⟩
    simp only [valLE, List.length_cons, pow_succ_mul]
    cases ys with
    | nil =>
      obtain ⟨x', y', d', bo, hin, hout, hv⟩ := sem_addSub2 hr
      cases hin; cases hout
      simp only [List.tail_nil, List.take_nil, valLE] at hval ⊢
      omega
    | cons y yr =>
      obtain ⟨x', y', bi, d', bo, hin, hout, hv⟩ := sem_addSub3 hr
      cases hin; cases hout
      simp only [List.tail_cons, List.take_succ_cons, valLE] at hval ⊢
      omega

theorem sem_subCore {v : Label → Bool} {a b res : List Label} {bal : Label} (h : Sem (subCore a b) v (res, bal)) :
    res.length = a.length ∧ b ≠ [] ∧
    valLE v a + 2 ^ a.length * bv v bal = valLE v (b.take a.length) + valLE v res := by
  unfold subCore at h
  split at h
  · rename_i x xs y ys
    simp only [sem_bind] at h
    obtain ⟨r, hr, ⟨d, b0⟩, hp, hc⟩ := h
    have := sem_pair2 hp; subst this
    obtain ⟨x', y', d', bo, hin, hout, hv⟩ := sem_addSub2 hr
    cases hin; cases hout
    obtain ⟨ds, hds, hlen, hval⟩ := sem_subChain _ _ _ _ _ _ hc
    subst hds
    refine ⟨by simp [hlen], by simp, ?_⟩
    simp only [valLE, List.length_cons, pow_succ_mul, List.take_succ_cons, List.cons_append, List.nil_append] at hval ⊢
    omega
  · exact absurd h sem_fail

/-- **`add_sub_two_numbers`**: `|res| = |a|` and `res = (a − b) mod 2^|a|` -/
theorem sem_addSubTwoNumbers {v : Label → Bool} {a b out : List Label} {be : Bool}
    (h : Sem (addSubTwoNumbers a b be) v out) :
    out.length = a.length ∧
    ∃ k, k ≤ 1 ∧ valLE v (revIf a be) + 2 ^ a.length * k =
      valLE v ((revIf b be).take a.length) + valLE v (revIf out be) := by
  simp only [addSubTwoNumbers, sem_bind, sem_pure] at h
  obtain ⟨⟨res, bal⟩, hc, rfl⟩ := h
  obtain ⟨h1, _, h3⟩ := sem_subCore hc
  have hl : (revIf a be).length = a.length := by cases be <;> simp [revIf]
  rw [hl] at h1 h3
  refine ⟨by cases be <;> simp [revIf, h1], bv v bal, by unfold bv; cases v bal <;> simp, ?_⟩
  rw [revIf_revIf]; exact h3

theorem valLE_pad {v : Label → Bool} {z : Label} (hz : v z = false) (l : List Label) (k : Nat) :
    valLE v (l ++ List.replicate k z) = valLE v l := by
  rw [valLE_append, valLE_replicate_false hz]; simp

/-- **`add_subtract_with_compare`** (both endiannesses, unequal widths): with `w = max(|a|,|b|)`,
`|res| = w`, `a + 2^w·borrow = b + res` — hence `res = (a − b) mod 2^w` and `borrow ↔ a < b` -/
theorem sem_addSubtractWithCompare {v : Label → Bool} {a b out : List Label} {bal : Label} {be : Bool}
    (h : Sem (addSubtractWithCompare a b be) v (out, bal)) :
    out.length = max a.length b.length ∧
    valLE v (revIf a be) + 2 ^ (max a.length b.length) * bv v bal = valLE v (revIf b be) + valLE v (revIf out be) ∧
    (v bal = true ↔ valLE v (revIf a be) < valLE v (revIf b be)) := by
  unfold addSubtractWithCompare at h
  split at h
  · rename_i x xr y yr
    simp only [sem_bind, sem_pure, Prod.mk.injEq] at h
    obtain ⟨af, haf, ⟨res, bal'⟩, hc, rfl, rfl⟩ := h
    have hz : v af = false := by rw [sem_emitTT haf]; cases v x <;> cases v y <;> rfl
    obtain ⟨h1, _, h3⟩ := sem_subCore hc
    have hla : (revIf (x :: xr) be).length = (x :: xr).length := by cases be <;> simp [revIf]
    have hlb : (revIf (y :: yr) be).length = (y :: yr).length := by cases be <;> simp [revIf]
    simp only [List.length_append, List.length_replicate, hla, hlb] at h1 h3
    have hn : (x :: xr).length + (max (x :: xr).length (y :: yr).length - (x :: xr).length) =
        max (x :: xr).length (y :: yr).length := by omega
    have hm : (y :: yr).length + (max (x :: xr).length (y :: yr).length - (y :: yr).length) =
        max (x :: xr).length (y :: yr).length := by omega
    rw [hn] at h1 h3
    rw [List.take_of_length_le (by simp only [List.length_append, List.length_replicate, hlb]; omega),
      valLE_pad hz, valLE_pad hz] at h3
    have hout : (revIf res be).length = max (x :: xr).length (y :: yr).length := by cases be <;> simp [revIf, h1]
    refine ⟨hout, ?_, ?_⟩
    · rw [revIf_revIf]; exact h3
    · have ra := valLE_lt v (revIf (x :: xr) be)
      have rb := valLE_lt v (revIf (y :: yr) be)
      have rr := valLE_lt v res
      rw [hla] at ra; rw [hlb] at rb; rw [h1] at rr
      have pa : 2 ^ (x :: xr).length ≤ 2 ^ max (x :: xr).length (y :: yr).length := Nat.pow_le_pow_right (by omega) (by omega)
      have pb : 2 ^ (y :: yr).length ≤ 2 ^ max (x :: xr).length (y :: yr).length := Nat.pow_le_pow_right (by omega) (by omega)
      generalize 2 ^ max (x :: xr).length (y :: yr).length = P at *
      cases hb : v bal <;> simp only [bv, hb, Bool.toNat_false, Bool.toNat_true, Nat.mul_zero, Nat.mul_one] at h3 ⊢
      · simp; omega
      · simp; omega
  · exact absurd h sem_fail

/-! ## gadgets -/

theorem sem_freshLabels {v : Label → Bool} : ∀ (n : Nat) (restr acc out : List Label),
    Sem (freshLabels n restr acc) v out → ∃ ls, out = acc ++ ls ∧ ls.length = n := by
  intro n
  induction n with
  | zero => intro restr acc out h; simp only [freshLabels, sem_pure] at h; subst h; exact ⟨[], by simp, rfl⟩
  | succ n ih =>
    intro restr acc out h
    unfold freshLabels at h
    cases h with
    | fresh l hl =>
      obtain ⟨ls, h1, h2⟩ := ih _ _ _ hl
      exact ⟨l :: ls, by rw [h1]; simp, by simp [h2]⟩

/-- **`add_if_then_else`**: the result is `then` where `if` holds and `else` elsewhere -/
theorem sem_addIfThenElse {v : Label → Bool} {i t e : Label} {rl : Option Label} {ao : Bool} {out : Label}
    (h : Sem (addIfThenElse i t e rl ao) v out) : v out = if v i then v t else v e := by
  simp only [addIfThenElse, sem_bind] at h
  obtain ⟨res, _, tmp, htmp, hbody⟩ := h
  obtain ⟨ls, h1, h2⟩ := sem_freshLabels _ _ _ _ htmp
  simp only [List.nil_append] at h1; subst h1
  rcases tmp with _ | ⟨t0, _ | ⟨t1, _ | ⟨t2, _ | ⟨t3, r⟩⟩⟩⟩
  · simp at h2
  · simp at h2
  · simp at h2
  · simp only at hbody
    cases hbody with
    | add hb0 hk0 =>
      cases hk0 with
      | add hb1 hk1 =>
        cases hk1 with
        | add hb2 hk2 =>
          cases hk2 with
          | add hb3 hk3 =>
            have hout : out = res := by
              cases ao
              · simp only [Bool.false_eq_true, if_false] at hk3; cases hk3; rfl
              · simp only [if_true] at hk3
                cases hk3 with
                | mark hm => cases hm; rfl
            subst hout
            simp only [List.map_cons, List.map_nil] at hb0 hb1 hb2 hb3
            revert hb0 hb1 hb2 hb3
            cases v i <;> cases v t <;> cases v e <;> cases v t0 <;> cases v t1 <;> cases v t2 <;> cases v out <;> decide
  · simp at h2

/-! ### pairwise gadgets -/

theorem sem_markAll {v : Label → Bool} {ls : List Label} {u : Unit} : Sem (markAll ls) v u := by
  induction ls with
  | nil => exact .pure
  | cons l r ih => exact .mark ih

theorem sem_xorLoop {v : Label → Bool} {ao : Bool} : ∀ (xs ys rs : List Label) (u : Unit),
    Sem (xorLoop ao xs ys rs) v u → xs.length = ys.length → rs.length = xs.length →
      rs.map v = List.zipWith xor (xs.map v) (ys.map v) := by
  intro xs
  induction xs with
  | nil =>
    intro ys rs u _ h1 h2
    cases rs with
    | nil => simp
    | cons a b => simp at h2
  | cons x xs ih =>
    intro ys rs u h h1 h2
    rcases ys with _ | ⟨y, ys⟩
    · simp at h1
    rcases rs with _ | ⟨r, rs⟩
    · simp at h2
    simp only [xorLoop] at h
    cases h with
    | add hb hk =>
      have hrec : Sem (xorLoop ao xs ys rs) v u := by
        cases ao
        · simpa using hk
        · simp only [if_true] at hk
          cases hk with
          | mark hm => exact hm
      have := ih ys rs u hrec (by simpa using h1) (by simpa using h2)
      simp only [List.map_cons, List.zipWith_cons_cons, this, List.cons.injEq, and_true]
      simp only [List.map_cons, List.map_nil] at hb
      revert hb
      cases v x <;> cases v y <;> cases v r <;> decide

/-- **`add_pairwise_xor`**: position by position, `result[i] = x[i] ⊕ y[i]` -/
theorem sem_addPairwiseXor {v : Label → Bool} {xs ys out : List Label} {rl : Option (List Label)} {ao : Bool}
    (h : Sem (addPairwiseXor xs ys rl ao) v out) :
    out.length = xs.length ∧ out.map v = List.zipWith xor (xs.map v) (ys.map v) := by
  unfold addPairwiseXor at h
  split at h
  · exact absurd h sem_fail
  · rename_i hl
    simp only [sem_bind] at h
    obtain ⟨res, _, h2⟩ := h
    split at h2
    · exact absurd h2 sem_fail
    · rename_i hl2
      simp only [sem_bind, sem_pure] at h2
      obtain ⟨u, hloop, rfl⟩ := h2
      have e1 : xs.length = ys.length := by simpa using hl
      have e2 : out.length = xs.length := by simpa using hl2
      exact ⟨e2, sem_xorLoop _ _ _ _ hloop e1 e2⟩

def iteSpec : List Bool → List Bool → List Bool → List Bool
  | i :: is, t :: ts, e :: es => (if i then t else e) :: iteSpec is ts es
  | _, _, _ => []

theorem sem_iteLoop {v : Label → Bool} {ao : Bool} : ∀ (is ts es rs : List Label) (u : Unit),
    Sem (iteLoop ao is ts es rs) v u → is.length = ts.length → ts.length = es.length → rs.length = is.length →
      rs.map v = iteSpec (is.map v) (ts.map v) (es.map v) := by
  intro is
  induction is with
  | nil =>
    intro ts es rs u _ _ _ h3
    cases rs with
    | nil => simp [iteSpec]
    | cons a b => simp at h3
  | cons i is ih =>
    intro ts es rs u h h1 h2 h3
    rcases ts with _ | ⟨t, ts⟩
    · simp at h1
    rcases es with _ | ⟨e, es⟩
    · simp at h2
    rcases rs with _ | ⟨r, rs⟩
    · simp at h3
    simp only [iteLoop, sem_bind] at h
    obtain ⟨o, ho, hrec⟩ := h
    have hv := sem_addIfThenElse ho
    have ho' : o = r := by
      simp only [addIfThenElse, sem_bind, sem_pure] at ho
      obtain ⟨res, hres, tmp, htmp, hbody⟩ := ho
      subst hres
      obtain ⟨ls, h1', h2'⟩ := sem_freshLabels _ _ _ _ htmp
      simp only [List.nil_append] at h1'; subst h1'
      rcases tmp with _ | ⟨t0, _ | ⟨t1, _ | ⟨t2, _ | ⟨t3, rr⟩⟩⟩⟩ <;> try (simp at h2')
      simp only at hbody
      cases hbody with
      | add _ hk0 => cases hk0 with
        | add _ hk1 => cases hk1 with
          | add _ hk2 => cases hk2 with
            | add _ hk3 =>
              cases ao
              · simp only [Bool.false_eq_true, if_false] at hk3; cases hk3; rfl
              · simp only [if_true] at hk3
                cases hk3 with
                | mark hm => cases hm; rfl
    subst ho'
    have := ih ts es rs u hrec (by simpa using h1) (by simpa using h2) (by simpa using h3)
    simp only [List.map_cons, iteSpec, this, hv]

/-- **`add_pairwise_if_then_else`** -/
theorem sem_addPairwiseIfThenElse {v : Label → Bool} {is ts es out : List Label} {rl : Option (List Label)} {ao : Bool}
    (h : Sem (addPairwiseIfThenElse is ts es rl ao) v out) :
    out.length = is.length ∧ out.map v = iteSpec (is.map v) (ts.map v) (es.map v) := by
  unfold addPairwiseIfThenElse at h
  split at h
  · exact absurd h sem_fail
  · rename_i hl
    simp only [sem_bind] at h
    obtain ⟨res, _, h2⟩ := h
    split at h2
    · exact absurd h2 sem_fail
    · rename_i hl2
      simp only [sem_bind, sem_pure] at h2
      obtain ⟨u, hloop, rfl⟩ := h2
      simp only [Bool.or_eq_true, bne_iff_ne, ne_eq, not_or, Decidable.not_not] at hl
      have e2 : out.length = is.length := by simpa using hl2
      exact ⟨e2, sem_iteLoop _ _ _ _ _ hloop hl.1 hl.2 e2⟩

/-! ### plus one -/

theorem sem_plusOneLoop {v : Label → Bool} : ∀ (zs xs cs : List Label) (cprev : Label) (ended : Bool) (u : Unit),
    Sem (plusOneLoop xs zs cs cprev ended) v u → (ended = true → xs = []) →
      ∃ k, valLE v xs + (if ended then 0 else bv v cprev) = valLE v zs + 2 ^ zs.length * k := by
  intro zs
  induction zs with
  | nil =>
    intro xs cs cprev ended u _ _
    exact ⟨valLE v xs + (if ended then 0 else bv v cprev), by simp [valLE]⟩
  | cons z zs ih =>
    intro xs cs cprev ended u h hend
    rcases xs with _ | ⟨x, xs⟩
    · cases ended
      · simp only [plusOneLoop] at h
        cases h with
        | add hb hk =>
          obtain ⟨k, hk'⟩ := ih _ _ _ _ _ hk (fun _ => rfl)
          refine ⟨k, ?_⟩
          simp only [List.map_cons, List.map_nil, bfun] at hb
          simp only [valLE, List.length_cons, pow_succ_mul, if_true, Bool.false_eq_true, if_false] at hk' ⊢
          have : bv v z = bv v cprev := by
            unfold bv; revert hb; cases v cprev <;> cases v z <;> decide
          omega
      · simp only [plusOneLoop] at h
        cases h with
        | add hb hk =>
          obtain ⟨k, hk'⟩ := ih _ _ _ _ _ hk (fun _ => rfl)
          refine ⟨k, ?_⟩
          simp only [List.map_nil, bfun] at hb
          simp only [valLE, List.length_cons, pow_succ_mul, if_true] at hk' ⊢
          have : bv v z = 0 := by
            unfold bv; revert hb; cases v z <;> decide
          omega
    · have he : ended = false := by
        cases ended
        · rfl
        · exact absurd (hend rfl) (by simp)
      subst he
      rcases cs with _ | ⟨ci, cr⟩
      · simp only [plusOneLoop] at h; exact absurd h sem_fail
      · simp only [plusOneLoop] at h
        by_cases hz : zs.isEmpty = true
        · simp only [hz, if_true] at h
          cases h with
          | add hb hk =>
            have : zs = [] := by simpa using hz
            subst this
            simp only [List.map_cons, List.map_nil] at hb
            refine ⟨valLE v xs + (bv v x + bv v cprev) / 2, ?_⟩
            simp only [valLE, List.length_cons, List.length_nil, Bool.false_eq_true, if_false]
            have : bv v z = (bv v x + bv v cprev) % 2 := by
              unfold bv; revert hb; cases v x <;> cases v cprev <;> cases v z <;> decide
            omega
        · simp only [hz, Bool.false_eq_true, if_false] at h
          cases h with
          | add hb1 hk1 =>
            cases hk1 with
            | add hb2 hk2 =>
              obtain ⟨k, hk'⟩ := ih _ _ _ _ _ hk2 (by simp)
              refine ⟨k, ?_⟩
              simp only [List.map_cons, List.map_nil] at hb1 hb2
              simp only [valLE, List.length_cons, pow_succ_mul, Bool.false_eq_true, if_false] at hk' ⊢
              have : bv v x + bv v cprev = bv v z + 2 * bv v ci := by
                unfold bv; revert hb1 hb2; cases v x <;> cases v cprev <;> cases v z <;> cases v ci <;> decide
              omega

theorem sem_freshPlain {v : Label → Bool} : ∀ (n : Nat) (acc out : List Label),
    Sem (freshPlain n acc) v out → ∃ ls, out = acc ++ ls ∧ ls.length = n := by
  intro n
  induction n with
  | zero => intro acc out h; simp only [freshPlain, sem_pure] at h; subst h; exact ⟨[], by simp, rfl⟩
  | succ n ih =>
    intro acc out h
    unfold freshPlain at h
    cases h with
    | fresh l hl =>
      obtain ⟨ls, h1, h2⟩ := ih _ _ hl
      exact ⟨l :: ls, by rw [h1]; simp, by simp [h2]⟩

/-- **`add_plus_one`**: the returned bits, read in the requested endianness, are
`(x + 1) mod 2^out_len` — for every `out_len`, shorter or longer than the operand -/
theorem sem_addPlusOne {v : Label → Bool} {ins out : List Label} {rl : Option (List Label)} {ao be : Bool}
    (h : Sem (addPlusOne ins rl ao be) v out) :
    (∀ l, rl = some l → out = l) ∧ (rl = none → out.length = ins.length + 1) ∧
    valLE v (revIf out be) = (valLE v (revIf ins be) + 1) % 2 ^ out.length := by
  simp only [addPlusOne, sem_bind] at h
  obtain ⟨given, hg, carries, hc, hbody⟩ := h
  have hgiven : (∀ l, rl = some l → given = l) ∧ (rl = none → given.length = ins.length + 1) := by
    cases rl with
    | some l => simp only [sem_pure] at hg; subst hg; exact ⟨fun _ h => (by cases h; rfl), fun h => (by cases h)⟩
    | none =>
      obtain ⟨ls, h1, h2⟩ := sem_freshPlain _ _ _ hg
      simp only [List.nil_append] at h1; subst h1
      exact ⟨fun _ h => (by cases h), fun _ => h2⟩
  rcases carries with _ | ⟨c0, cr⟩
  · exact absurd hbody sem_fail
  rcases hxs : revIf ins be with _ | ⟨x0, xs⟩
  · rw [hxs] at hbody; exact absurd hbody sem_fail
  rcases hzs : revIf given be with _ | ⟨z0, zs⟩
  · rw [hxs, hzs] at hbody; exact absurd hbody sem_fail
  rw [hxs, hzs] at hbody
  simp only at hbody
  cases hbody with
  | add hb0 hk0 =>
    cases hk0 with
    | add hb1 hk1 =>
      simp only [sem_bind] at hk1
      obtain ⟨u, hloop, hfin⟩ := hk1
      have hout : out = given := by
        cases ao
        · simp only [Bool.false_eq_true, if_false, sem_pure] at hfin; exact hfin
        · simp only [if_true, sem_bind, sem_pure] at hfin
          obtain ⟨_, _, e⟩ := hfin; exact e
      subst hout
      obtain ⟨k, hk⟩ := sem_plusOneLoop _ _ _ _ _ _ hloop (by simp)
      refine ⟨hgiven.1, hgiven.2, ?_⟩
      rw [hzs]
      have hlen : out.length = (z0 :: zs).length := by rw [← hzs]; cases be <;> simp [revIf]
      rw [hlen]
      simp only [List.map_cons, List.map_nil] at hb0 hb1
      simp only [valLE, List.length_cons, pow_succ_mul, Bool.false_eq_true, if_false] at hk ⊢
      have e0 : bv v c0 = bv v x0 := by unfold bv; revert hb0; cases v x0 <;> cases v c0 <;> decide
      have e1 : bv v z0 + bv v x0 = 1 := by unfold bv; revert hb1; cases v x0 <;> cases v z0 <;> decide
      have hlt := valLE_lt v zs
      have hz0 : bv v z0 ≤ 1 := by omega
      have hp : 2 ^ (zs.length + 1) = 2 * 2 ^ zs.length := by rw [Nat.pow_succ]; omega
      rw [hp]
      generalize 2 ^ zs.length = P at *
      have hx : bv v x0 + 2 * valLE v xs + 1 = (bv v z0 + 2 * valLE v zs) + 2 * P * k := by
        rw [Nat.mul_assoc]; omega
      rw [hx, Nat.add_mul_mod_self_left]
      exact (Nat.mod_eq_of_lt (by omega)).symm

/-! ### equality with a constant -/

def bitsValLE : List Bool → Nat
  | [] => 0
  | b :: r => b.toNat + 2 * bitsValLE r

theorem bitsValLE_binDigits : ∀ (fuel n : Nat), n < fuel → bitsValLE (binDigitsLE fuel n) = n := by
  intro fuel
  induction fuel with
  | zero => intro n h; omega
  | succ fuel ih =>
    intro n h
    unfold binDigitsLE
    split
    · rename_i h2
      have : n = 0 ∨ n = 1 := by omega
      rcases this with rfl | rfl <;> rfl
    · rename_i h2
      simp only [bitsValLE]
      rw [ih (n / 2) (by omega)]
      have : (n % 2 == 1).toNat = n % 2 := by
        have : n % 2 = 0 ∨ n % 2 = 1 := by omega
        rcases this with h | h <;> simp [h]
      omega

theorem binDigits_len : ∀ (fuel n : Nat), n < fuel → 1 ≤ n → 2 ^ ((binDigitsLE fuel n).length - 1) ≤ n := by
  intro fuel
  induction fuel with
  | zero => intro n h; omega
  | succ fuel ih =>
    intro n h h1
    unfold binDigitsLE
    split
    · simp; omega
    · rename_i h2
      have := ih (n / 2) (by omega) (by omega)
      have hl : 1 ≤ (binDigitsLE fuel (n / 2)).length := by
        cases fuel with
        | zero => omega
        | succ f => unfold binDigitsLE; split <;> simp
      simp only [List.length_cons, Nat.add_sub_cancel]
      have : (binDigitsLE fuel (n / 2)).length = ((binDigitsLE fuel (n / 2)).length - 1) + 1 := by omega
      rw [this, Nat.pow_succ]
      omega

theorem bitsValLE_pad (bs : List Bool) (k : Nat) : bitsValLE (bs ++ List.replicate k false) = bitsValLE bs := by
  induction bs with
  | nil =>
    induction k with
    | zero => rfl
    | succ k ih => simp only [List.nil_append] at ih ⊢; simp [List.replicate_succ, bitsValLE, ih]
  | cons b r ih => simp [bitsValLE, ih]

/-- equal-length bit lists: pointwise equal iff equal as numbers -/
theorem bits_eq_iff {v : Label → Bool} : ∀ (ins : List Label) (bits : List Bool), bits.length = ins.length →
    (ins.map v = bits ↔ valLE v ins = bitsValLE bits) := by
  intro ins
  induction ins with
  | nil => intro bits h; cases bits <;> simp_all [valLE, bitsValLE]
  | cons x r ih =>
    intro bits h
    rcases bits with _ | ⟨b, bs⟩
    · simp at h
    have := ih bs (by simpa using h)
    simp only [List.map_cons, List.cons.injEq, valLE, bitsValLE, this, bv]
    constructor
    · rintro ⟨h1, h2⟩; rw [h1, h2]
    · intro h3
      have hb : (v x).toNat ≤ 1 := by cases v x <;> simp
      have hb' : b.toNat ≤ 1 := by cases b <;> simp
      refine ⟨?_, by omega⟩
      have : (v x).toNat = b.toNat := by omega
      revert this; cases v x <;> cases b <;> simp

theorem sem_eqLiterals {v : Label → Bool} : ∀ (bits : List Bool) (ins acc lits : List Label),
    Sem (eqLiterals bits ins acc) v lits → bits.length = ins.length →
      ∃ ls, lits = acc ++ ls ∧ ls.length = ins.length ∧ ((∀ x ∈ ls, v x = true) ↔ ins.map v = bits) := by
  intro bits
  induction bits with
  | nil =>
    intro ins acc lits h hl
    have : ins = [] := by cases ins <;> simp_all
    subst this
    simp only [eqLiterals, sem_pure] at h; subst h
    exact ⟨[], by simp, rfl, by simp⟩
  | cons b bs ih =>
    intro ins acc lits h hl
    rcases ins with _ | ⟨x, xs⟩
    · simp at hl
    unfold eqLiterals at h
    split at h
    · rename_i hb
      obtain ⟨ls, h1, h2, h3⟩ := ih _ _ _ h (by simpa using hl)
      refine ⟨x :: ls, by rw [h1]; simp, by simp [h2], ?_⟩
      simp only [List.mem_cons, forall_eq_or_imp, h3, List.map_cons, List.cons.injEq, hb]
    · rename_i hb
      simp only [sem_bind] at h
      obtain ⟨l, hl', hrec⟩ := h
      obtain ⟨ls, h1, h2, h3⟩ := ih _ _ _ hrec (by simpa using hl)
      have hv : v l = !v x := by
        unfold emit at hl'
        cases hl' with
        | fresh l0 h0 =>
          cases h0 with
          | add hb0 hp =>
            cases hp
            simp only [List.map_cons, List.map_nil] at hb0
            revert hb0; cases v x <;> cases v l <;> decide
      refine ⟨l :: ls, by rw [h1]; simp, by simp [h2], ?_⟩
      have hbf : b = false := by simpa using hb
      simp only [List.mem_cons, forall_eq_or_imp, h3, List.map_cons, List.cons.injEq, hbf, hv]
      cases v x <;> simp

theorem sem_andChain {v : Label → Bool} : ∀ (rest : List Label) (last out : Label),
    Sem (andChain rest last) v out → (v out = true ↔ v last = true ∧ ∀ x ∈ rest, v x = true) := by
  intro rest
  induction rest with
  | nil => intro last out h; simp only [andChain, sem_pure] at h; subst h; simp
  | cons o r ih =>
    intro last out h
    simp only [andChain, sem_bind] at h
    obtain ⟨l, hl, hrec⟩ := h
    have hv : v l = (v last && v o) := by
      unfold emit at hl
      cases hl with
      | fresh l0 h0 =>
        cases h0 with
        | add hb0 hp =>
          cases hp
          simp only [List.map_cons, List.map_nil] at hb0
          revert hb0; cases v last <;> cases v o <;> cases v l <;> decide
    rw [ih _ _ hrec, hv]
    simp only [Bool.and_eq_true, List.mem_cons, forall_eq_or_imp]
    constructor
    · rintro ⟨⟨a, b⟩, c⟩; exact ⟨a, b, c⟩
    · rintro ⟨a, b, c⟩; exact ⟨⟨a, b⟩, c⟩

/-- **`add_equal`** on at least one bit: the gadget is true exactly when the little-endian
operand equals the constant — in particular never when the constant does not fit -/
theorem sem_addEqual {v : Label → Bool} {ins : List Label} {num : Nat} {out : Label}
    (h : Sem (addEqual ins num) v out) (hn : 1 ≤ ins.length) : (v out = true ↔ valLE v ins = num) := by
  unfold addEqual at h
  have hd := bitsValLE_binDigits (num + 1) num (by omega)
  simp only at h
  split at h
  · -- the constant does not fit
    rename_i hgt
    have hf : v out = false := by
      unfold emit at h
      cases h with
      | fresh l0 h0 =>
        cases h0 with
        | add hb0 hp =>
          cases hp
          simp only [List.map_nil] at hb0
          revert hb0; cases v out <;> decide
    have hlt := valLE_lt v ins
    have hbig : 2 ^ ins.length ≤ num := by
      simp only [eqBits, List.length_append, List.length_replicate] at hgt
      have hlen : ins.length < (binDigitsLE (num + 1) num).length := by omega
      have h1 : 1 ≤ num := by
        rcases Nat.eq_zero_or_pos num with h0 | h0
        · subst h0; have : (binDigitsLE (0 + 1) 0).length = 1 := rfl; omega
        · exact h0
      have := binDigits_len (num + 1) num (by omega) h1
      have : 2 ^ ins.length ≤ 2 ^ ((binDigitsLE (num + 1) num).length - 1) := Nat.pow_le_pow_right (by omega) (by omega)
      omega
    rw [hf]; simp; omega
  · rename_i hle
    have hlen : (eqBits num ins.length).length = ins.length := by
      simp only [eqBits, List.length_append, List.length_replicate] at hle ⊢; omega
    have hval : bitsValLE (eqBits num ins.length) = num := by simp only [eqBits]; rw [bitsValLE_pad, hd]
    simp only [sem_bind] at h
    obtain ⟨lits, hl, hbody⟩ := h
    obtain ⟨ls, h1, h2, h3⟩ := sem_eqLiterals _ _ _ _ hl hlen
    simp only [List.nil_append] at h1; subst h1
    rw [← hval, ← bits_eq_iff ins _ hlen, ← h3]
    cases hbody with
    | fresh last hk =>
      rcases lits with _ | ⟨g0, _ | ⟨g1, rest⟩⟩
      · simp at h2; omega
      · simp only [sem_pure] at hk; subst hk; simp
      · simp only at hk
        cases hk with
        | add hb0 hchain =>
          rw [sem_andChain _ _ _ hchain]
          simp only [List.map_cons, List.map_nil] at hb0
          simp only [List.mem_cons, forall_eq_or_imp]
          have : v last = (v g0 && v g1) := by revert hb0; cases v g0 <;> cases v g1 <;> cases v last <;> decide
          rw [this]; simp only [Bool.and_eq_true]
          constructor
          · rintro ⟨⟨a, b⟩, c⟩; exact ⟨a, b, c⟩
          · rintro ⟨a, b, c⟩; exact ⟨⟨a, b⟩, c⟩

/-- **`add_equal`, any integer constant**: a negative constant is never equal to the (unsigned) operand -/
theorem sem_addEqualZ {v : Label → Bool} {ins : List Label} {num : Int} {out : Label}
    (h : Sem (addEqualZ ins num) v out) (hn : 1 ≤ ins.length) : (v out = true ↔ (valLE v ins : Int) = num) := by
  cases num with
  | ofNat n =>
    have := sem_addEqual (num := n) h hn
    rw [this]
    exact ⟨fun e => by rw [e]; rfl, fun e => Int.ofNat.inj e⟩
  | negSucc k =>
    have hf : v out = false := by
      have h' : Sem (emit ALWAYS_FALSE [] rfl) v out := h
      unfold emit at h'
      cases h' with
      | fresh l0 h0 =>
        cases h0 with
        | add hb0 hp =>
          cases hp
          simp only [List.map_nil] at hb0
          revert hb0; cases v out <;> decide
    rw [hf]
    constructor
    · intro e; cases e
    · intro e; exact absurd e (by omega)

end Cirbo
