import Cirbo.Proofs.GenMul
import Cirbo.Proofs.GenArith
/-!
# The Dadda multiplier computes the product (C08)
-/
namespace Cirbo
open GateType

/-- value of a column matrix: column `i` has weight `2^i` -/
def colsVal (v : Label → Bool) : List (List Label) → Nat
  | [] => 0
  | col :: rest => cnt v col + 2 * colsVal v rest

theorem colsVal_replicate_nil (v : Label → Bool) (n : Nat) : colsVal v (List.replicate n []) = 0 := by
  induction n with
  | zero => rfl
  | succ n ih => simp [List.replicate_succ, colsVal, ih, cnt]

def colApp : List (List Label) → Nat → Label → List (List Label)
  | [], _, _ => []
  | col :: rest, 0, x => (col ++ [x]) :: rest
  | col :: rest, i + 1, x => col :: colApp rest i x

theorem zipIdx_map_untouched (x : Label) : ∀ (rest : List (List Label)) (j k : Nat), k < j →
    (rest.zipIdx j).map (fun (ci : List Label × Nat) => if ci.2 == k then ci.1 ++ [x] else ci.1) = rest := by
  intro rest
  induction rest with
  | nil => intro j k _; rfl
  | cons a t ih =>
    intro j k h
    simp only [List.zipIdx_cons, List.map_cons]
    have hne : (j == k) = false := by simpa using (by omega : j ≠ k)
    simp only [hne, Bool.false_eq_true, if_false]
    rw [ih (j + 1) k (by omega)]

/-- the list operation behind `c[i].append(x)` -/
theorem colAppend_colApp (c : List (List Label)) (i : Nat) (x : Label) : colAppend c i x = colApp c i x := by
  unfold colAppend
  have : ∀ (c : List (List Label)) (i k : Nat),
      (c.zipIdx k).map (fun (ci : List Label × Nat) => if ci.2 == i + k then ci.1 ++ [x] else ci.1) = colApp c i x := by
    intro c
    induction c with
    | nil => intro i k; rfl
    | cons col rest ih =>
      intro i k
      simp only [List.zipIdx_cons, List.map_cons]
      cases i with
      | zero =>
        simp only [Nat.zero_add, beq_self_eq_true, if_true, colApp]
        rw [zipIdx_map_untouched x rest (k + 1) k (by omega)]
      | succ i =>
        have hne : (k == i + 1 + k) = false := by simpa using (by omega : k ≠ i + 1 + k)
        simp only [hne, Bool.false_eq_true, if_false, colApp]
        have e : i + 1 + k = i + (k + 1) := by omega
        rw [e, ih i (k + 1)]
  simpa using this c i 0

theorem colApp_length (c : List (List Label)) (i : Nat) (x : Label) : (colApp c i x).length = c.length := by
  induction c generalizing i with
  | nil => rfl
  | cons col rest ih => cases i <;> simp [colApp, ih]

theorem colsVal_colApp (v : Label → Bool) : ∀ (c : List (List Label)) (i : Nat) (x : Label), i < c.length →
    colsVal v (colApp c i x) = colsVal v c + 2 ^ i * bv v x := by
  intro c
  induction c with
  | nil => intro i x h; simp at h
  | cons col rest ih =>
    intro i x h
    cases i with
    | zero => simp [colApp, colsVal, cnt_append, cnt, bv]; omega
    | succ i =>
      simp only [colApp, colsVal, List.length_cons] at h ⊢
      rw [ih i x (by omega), Nat.pow_succ, Nat.mul_add]
      have : 2 * (2 ^ i * bv v x) = 2 ^ i * 2 * bv v x := by
        rw [Nat.mul_assoc, Nat.mul_left_comm]
      omega

theorem colApp_getD_length (c : List (List Label)) (i : Nat) (x : Label) (k : Nat) (hi : i < c.length) :
    ((colApp c i x).getD k []).length = (c.getD k []).length + (if k = i then 1 else 0) := by
  induction c generalizing i k with
  | nil => simp at hi
  | cons col rest ih =>
    cases i with
    | zero =>
      cases k with
      | zero => simp [colApp]
      | succ k => simp [colApp]
    | succ i =>
      cases k with
      | zero => simp [colApp]
      | succ k =>
        simp only [colApp, List.getD_cons_succ]
        have := ih i k (by simpa using hi)
        simp only [this, Nat.add_right_cancel_iff]

def rowStep (bi : Label) (i : Nat) (acc : Prog (List (List Label))) (aj : Label × Nat) : Prog (List (List Label)) := do
  let cc ← acc
  let g ← emitTT aj.1 bi t0001
  pure (colAppend cc (i + aj.2) g)

/-- one row of partial products dropped into the columns -/
theorem sem_rowFold {v : Label → Bool} {bi : Label} {i : Nat} : ∀ (a : List Label) (s : Nat) (acc : Prog (List (List Label)))
    (out : List (List Label)), Sem ((a.zipIdx s).foldl (rowStep bi i) acc) v out →
    ∃ c0, Sem acc v c0 ∧ (i + s + a.length ≤ c0.length →
      out.length = c0.length ∧ colsVal v out = colsVal v c0 + 2 ^ (i + s) * (bv v bi * valLE v a) ∧
      ∀ k, (out.getD k []).length = (c0.getD k []).length + (if i + s ≤ k ∧ k < i + s + a.length then 1 else 0)) := by
  intro a
  induction a with
  | nil =>
    intro s acc out h
    exact ⟨out, h, fun _ => ⟨rfl, by simp [valLE], fun k => by simp⟩⟩
  | cons x t ih =>
    intro s acc out h
    simp only [List.zipIdx_cons, List.foldl_cons] at h
    obtain ⟨c1, h1, hrel⟩ := ih (s + 1) _ out h
    simp only [rowStep, sem_bind, sem_pure] at h1
    obtain ⟨cc, hcc, g, hg, rfl⟩ := h1
    refine ⟨cc, hcc, ?_⟩
    intro hlen
    simp only [List.length_cons] at hlen
    rw [colAppend_colApp] at hrel
    have hlt : i + s < cc.length := by omega
    obtain ⟨r1, r2, r3⟩ := hrel (by rw [colApp_length]; omega)
    rw [colApp_length] at r1
    have hgv : bv v g = bv v bi * bv v x := by
      simp only [bv, sem_emitTT hg]; cases v x <;> cases v bi <;> rfl
    refine ⟨r1, ?_, ?_⟩
    · rw [r2, colsVal_colApp v cc (i + s) g hlt, hgv]
      simp only [valLE]
      have e : i + (s + 1) = i + s + 1 := by omega
      rw [e, Nat.pow_succ]
      generalize 2 ^ (i + s) = P
      generalize bv v bi = B
      generalize bv v x = X
      generalize valLE v t = T
      rw [Nat.mul_add, Nat.mul_add]
      have : P * 2 * (B * T) = P * (B * (2 * T)) := by
        rw [Nat.mul_assoc, Nat.mul_left_comm 2 B T]
      omega
    · intro k
      rw [r3 k, colApp_getD_length cc (i + s) g k hlt]
      by_cases hk : k = i + s
      · subst hk
        have : ¬ (i + (s + 1) ≤ i + s ∧ i + s < i + (s + 1) + t.length) := by omega
        simp only [this, if_false, if_true, List.length_cons]
        have : i + s ≤ i + s ∧ i + s < i + s + (t.length + 1) := by omega
        simp [this]
      · simp only [hk, if_false, Nat.add_zero, List.length_cons]
        congr 1
        by_cases h2 : i + (s + 1) ≤ k ∧ k < i + (s + 1) + t.length
        · have : i + s ≤ k ∧ k < i + s + (t.length + 1) := by omega
          simp [h2, this]
        · have : ¬ (i + s ≤ k ∧ k < i + s + (t.length + 1)) := by omega
          simp [h2, this]

/-- how many rows `i ∈ [s, s + mb)` of width `n` cover column `k` -/
def rowsCover (s mb n k : Nat) : Nat := ((List.range' s mb).filter (fun i => decide (i ≤ k ∧ k < i + n))).length

theorem rowsCover_succ (s mb n k : Nat) :
    rowsCover s (mb + 1) n k = (if s ≤ k ∧ k < s + n then 1 else 0) + rowsCover (s + 1) mb n k := by
  unfold rowsCover
  rw [List.range'_succ, List.filter_cons]
  by_cases h : s ≤ k ∧ k < s + n
  · simp [h]; omega
  · simp [h]

theorem sem_ppColumns {v : Label → Bool} {a : List Label} : ∀ (b : List Label) (s : Nat) (c out : List (List Label)),
    Sem (ppColumns a (b.zipIdx s) c) v out → (b ≠ [] → s + b.length + a.length ≤ c.length + 1) →
    out.length = c.length ∧ colsVal v out = colsVal v c + 2 ^ s * (valLE v a * valLE v b) ∧
    ∀ k, (out.getD k []).length = (c.getD k []).length + rowsCover s b.length a.length k := by
  intro b
  induction b with
  | nil =>
    intro s c out h _
    simp only [List.zipIdx_nil, ppColumns, sem_pure] at h
    subst h
    exact ⟨rfl, by simp [valLE], fun k => by simp [rowsCover]⟩
  | cons bi t ih =>
    intro s c out h hlen
    simp only [List.zipIdx_cons, ppColumns, sem_bind] at h
    obtain ⟨c1, h1, hrec⟩ := h
    have h1' : Sem ((a.zipIdx 0).foldl (rowStep bi s) (pure c)) v c1 := h1
    obtain ⟨c0, hc0, hrow⟩ := sem_rowFold a 0 _ c1 h1'
    rw [sem_pure] at hc0
    subst hc0
    have hl := hlen (by simp)
    simp only [List.length_cons] at hl
    obtain ⟨r1, r2, r3⟩ := hrow (by omega)
    obtain ⟨q1, q2, q3⟩ := ih (s + 1) c1 out hrec (by intro _; rw [r1]; omega)
    refine ⟨q1.trans r1, ?_, ?_⟩
    · rw [q2, r2]
      simp only [valLE, Nat.add_zero, Nat.pow_succ]
      generalize 2 ^ s = P
      generalize bv v bi = B
      generalize valLE v a = A
      generalize valLE v t = T
      rw [Nat.mul_add A, Nat.mul_add P]
      have e1 : P * (B * A) = P * (A * B) := by rw [Nat.mul_comm B A]
      have e2 : P * 2 * (A * T) = P * (A * (2 * T)) := by rw [Nat.mul_assoc, Nat.mul_left_comm 2 A T]
      omega
    · intro k
      rw [q3 k, r3 k, List.length_cons, rowsCover_succ]
      simp only [Nat.add_zero]
      omega

theorem colsVal_set (v : Label → Bool) : ∀ (c : List (List Label)) (i : Nat) (col' : List Label), i < c.length →
    colsVal v (c.set i col') + 2 ^ i * cnt v (c.getD i []) = colsVal v c + 2 ^ i * cnt v col' := by
  intro c
  induction c with
  | nil => intro i col' h; simp at h
  | cons col rest ih =>
    intro i col' h
    cases i with
    | zero => simp [colsVal]; omega
    | succ i =>
      simp only [List.set_cons_succ, colsVal, List.getD_cons_succ, List.length_cons] at h ⊢
      have := ih i col' (by omega)
      rw [Nat.pow_succ]
      generalize 2 ^ i = P at this ⊢
      generalize cnt v (rest.getD i []) = A at this ⊢
      generalize cnt v col' = B at this ⊢
      have e1 : P * 2 * A = 2 * (P * A) := by rw [Nat.mul_assoc, Nat.mul_left_comm]
      have e2 : P * 2 * B = 2 * (P * B) := by rw [Nat.mul_assoc, Nat.mul_left_comm]
      omega

theorem getD_set_self (c : List (List Label)) (i : Nat) (x : List Label) (h : i < c.length) :
    (c.set i x).getD i [] = x := by
  simp [List.getD_eq_getElem?_getD, List.getElem?_set, h]

theorem getD_set_ne (c : List (List Label)) (i k : Nat) (x : List Label) (h : k ≠ i) :
    (c.set i x).getD k [] = c.getD k [] := by
  simp [List.getD_eq_getElem?_getD, List.getElem?_set, Ne.symm h]

theorem colApp_getD_ne (c : List (List Label)) (i k : Nat) (x : Label) (h : k ≠ i) :
    (colApp c i x).getD k [] = c.getD k [] := by
  induction c generalizing i k with
  | nil => rfl
  | cons col rest ih =>
    cases i with
    | zero =>
      cases k with
      | zero => exact absurd rfl h
      | succ k => simp [colApp]
    | succ i =>
      cases k with
      | zero => simp [colApp]
      | succ k => simp only [colApp, List.getD_cons_succ]; exact ih i k (by omega)

/-- what one reduction step of a column does to the matrix -/
theorem reduce_step (v : Label → Bool) (c : List (List Label)) (i width : Nat) (hi : i < c.length) (hw : c.length = width)
    (taken rest : List Label) (g1 g2 : Label) (hcol : c.getD i [] = taken ++ rest)
    (hsum : bv v g1 + 2 * bv v g2 = cnt v taken) :
    let c1 := c.set i (rest ++ [g1])
    let c2 := if i + 1 < width then colAppend c1 (i + 1) g2 else c1
    c2.length = c.length ∧ (∃ K, colsVal v c = colsVal v c2 + 2 ^ width * K) ∧
    c2.getD i [] = rest ++ [g1] ∧ (∀ k, k ≠ i → k ≠ i + 1 → c2.getD k [] = c.getD k []) ∧
    (∀ k, k < i → c2.getD k [] = c.getD k []) := by
  intro c1 c2
  have hset := colsVal_set v c i (rest ++ [g1]) hi
  rw [hcol, cnt_append, cnt_append] at hset
  have hc1len : c1.length = c.length := by simp [c1]
  by_cases hlt : i + 1 < width
  · have hc2 : c2 = colApp c1 (i + 1) g2 := by simp only [c2, hlt, if_true]; exact colAppend_colApp _ _ _
    rw [hc2]
    refine ⟨by rw [colApp_length, hc1len], ⟨0, ?_⟩, ?_, ?_, ?_⟩
    · rw [colsVal_colApp v c1 (i + 1) g2 (by rw [hc1len]; omega), Nat.pow_succ]
      simp only [cnt_cons, cnt_nil] at hset
      generalize 2 ^ i = P at hset ⊢
      generalize colsVal v c = C at hset ⊢
      generalize colsVal v (c.set i (rest ++ [g1])) = C1 at hset ⊢
      show C = C1 + P * 2 * bv v g2 + 2 ^ width * 0
      rw [Nat.mul_add, Nat.mul_add, Nat.mul_add] at hset
      have e : P * 2 * bv v g2 = P * (2 * bv v g2) := by rw [Nat.mul_assoc]
      have e2 : P * cnt v taken = P * bv v g1 + P * (2 * bv v g2) := by rw [← hsum, Nat.mul_add]
      omega
    · rw [colApp_getD_ne _ _ _ _ (by omega)]; exact getD_set_self c i _ hi
    · intro k h1 h2
      rw [colApp_getD_ne _ _ _ _ h2]; exact getD_set_ne c i k _ h1
    · intro k hk
      rw [colApp_getD_ne _ _ _ _ (by omega)]; exact getD_set_ne c i k _ (by omega)
  · have hc2 : c2 = c1 := by simp only [c2, hlt, if_false]
    rw [hc2]
    have hiw : i + 1 = width := by omega
    refine ⟨hc1len, ⟨bv v g2, ?_⟩, getD_set_self c i _ hi, fun k h1 _ => getD_set_ne c i k _ h1,
      fun k hk => getD_set_ne c i k _ (by omega)⟩
    rw [← hiw, Nat.pow_succ]
    simp only [cnt_cons, cnt_nil] at hset
    generalize 2 ^ i = P at hset ⊢
    generalize colsVal v c = C at hset ⊢
    show C = colsVal v (c.set i (rest ++ [g1])) + P * 2 * bv v g2
    generalize colsVal v (c.set i (rest ++ [g1])) = C1 at hset ⊢
    rw [Nat.mul_add, Nat.mul_add, Nat.mul_add] at hset
    have e : P * 2 * bv v g2 = P * (2 * bv v g2) := by rw [Nat.mul_assoc]
    have e2 : P * cnt v taken = P * bv v g1 + P * (2 * bv v g2) := by rw [← hsum, Nat.mul_add]
    omega

theorem sem_daddaColumn {v : Label → Bool} {di i width : Nat} (hdi : 2 ≤ di) : ∀ (fuel : Nat) (c out : List (List Label)),
    Sem (daddaColumn di i width fuel c) v out → i < c.length → c.length = width →
    out.length = c.length ∧ (∃ K, colsVal v c = colsVal v out + 2 ^ width * K) ∧
    (∀ k, k < i → out.getD k [] = c.getD k []) ∧ (∀ k, i + 1 < k → out.getD k [] = c.getD k []) ∧
    ((c.getD i []).length < fuel → (out.getD i []).length < di) := by
  intro fuel
  induction fuel with
  | zero =>
    intro c out h _ _
    simp only [daddaColumn, sem_pure] at h
    subst h
    exact ⟨rfl, ⟨0, by simp⟩, fun _ _ => rfl, fun _ _ => rfl, fun h => by omega⟩
  | succ fuel ih =>
    intro c out h hi hw
    unfold daddaColumn at h
    simp only at h
    by_cases hge : (c.getD i []).length ≥ di
    · simp only [hge, if_true] at h
      by_cases heq : ((c.getD i []).length == di) = true
      · simp only [heq, if_true] at h
        cases hcol : c.getD i [] with
        | nil => rw [hcol] at hge; simp at hge; omega
        | cons x t =>
          cases t with
          | nil => rw [hcol] at hge; simp at hge; omega
          | cons y rest =>
            rw [hcol] at h
            simp only [sem_bind] at h
            obtain ⟨r, hr, p, hp, hrec⟩ := h
            obtain ⟨g1, g2⟩ := p
            obtain ⟨x', y', s', c', e1, e2, hsum⟩ := sem_addSum2 hr
            have := sem_pair2 hp
            rw [e2] at this
            simp only [List.cons.injEq, and_true] at this e1
            obtain ⟨rfl, rfl⟩ := this
            obtain ⟨rfl, rfl⟩ := e1
            obtain ⟨l2, ⟨K2, k2⟩, u1, u2, u3⟩ := reduce_step v c i width hi hw [x, y] rest s' c'
              (by rw [hcol]; rfl) (by simp only [cnt_cons, cnt_nil]; omega)
            obtain ⟨a1, ⟨K, a2⟩, a3, a4, a5⟩ := ih _ out hrec (by rw [l2]; exact hi) (by rw [l2]; exact hw)
            refine ⟨a1.trans l2, ⟨K2 + K, by rw [k2, a2, Nat.mul_add]; omega⟩, ?_, ?_, ?_⟩
            · intro k hk; rw [a3 k hk]; exact u3 k hk
            · intro k hk; rw [a4 k hk]; exact u2 k (by omega) (by omega)
            · intro hf
              apply a5
              rw [u1, List.length_append, List.length_singleton]
              simp only [List.length_cons] at hf
              omega
      · simp only [heq, Bool.false_eq_true, if_false] at h
        have hgt : di < (c.getD i []).length := by
          have : (c.getD i []).length ≠ di := by simpa using heq
          omega
        cases hcol : c.getD i [] with
        | nil => rw [hcol] at hgt; simp at hgt
        | cons x t =>
          cases t with
          | nil => rw [hcol] at hgt; simp at hgt; omega
          | cons y t2 =>
            cases t2 with
            | nil => rw [hcol] at hgt; simp at hgt; omega
            | cons z rest =>
              rw [hcol] at h
              simp only [sem_bind] at h
              obtain ⟨r, hr, p, hp, hrec⟩ := h
              obtain ⟨g1, g2⟩ := p
              obtain ⟨x', y', z', s', c', e1, e2, hsum⟩ := sem_addSum3 hr
              have := sem_pair2 hp
              rw [e2] at this
              simp only [List.cons.injEq, and_true] at this e1
              obtain ⟨rfl, rfl⟩ := this
              obtain ⟨rfl, rfl, rfl⟩ := e1
              obtain ⟨l2, ⟨K2, k2⟩, u1, u2, u3⟩ := reduce_step v c i width hi hw [x, y, z] rest s' c'
                (by rw [hcol]; rfl) (by simp only [cnt_cons, cnt_nil]; omega)
              obtain ⟨a1, ⟨K, a2⟩, a3, a4, a5⟩ := ih _ out hrec (by rw [l2]; exact hi) (by rw [l2]; exact hw)
              refine ⟨a1.trans l2, ⟨K2 + K, by rw [k2, a2, Nat.mul_add]; omega⟩, ?_, ?_, ?_⟩
              · intro k hk; rw [a3 k hk]; exact u3 k hk
              · intro k hk; rw [a4 k hk]; exact u2 k (by omega) (by omega)
              · intro hf
                apply a5
                rw [u1, List.length_append, List.length_singleton]
                simp only [List.length_cons] at hf
                omega
    · simp only [hge, if_false, sem_pure] at h
      subst h
      exact ⟨rfl, ⟨0, by simp⟩, fun _ _ => rfl, fun _ _ => rfl, fun _ => by omega⟩

theorem sem_daddaCols {v : Label → Bool} {di width : Nat} (hdi : 2 ≤ di) : ∀ (n s : Nat) (c out : List (List Label)),
    Sem (progFold (List.range' s n) c (fun cc i => daddaColumn di i width ((cc.getD i []).length + 1) cc)) v out →
    c.length = width → s + n ≤ width →
    out.length = width ∧ (∃ K, colsVal v c = colsVal v out + 2 ^ width * K) ∧
    (∀ k, k < s → out.getD k [] = c.getD k []) ∧ (∀ k, s ≤ k → k < s + n → (out.getD k []).length < di) := by
  intro n
  induction n with
  | zero =>
    intro s c out h hw _
    simp only [List.range'_zero, progFold, sem_pure] at h
    subst h
    exact ⟨hw, ⟨0, by simp⟩, fun _ _ => rfl, fun k h1 h2 => by omega⟩
  | succ n ih =>
    intro s c out h hw hs
    simp only [List.range'_succ, progFold, sem_bind] at h
    obtain ⟨c1, h1, hrec⟩ := h
    obtain ⟨l1, ⟨K1, k1⟩, u1, u2, u3⟩ := sem_daddaColumn hdi _ c c1 h1 (by omega) hw
    obtain ⟨l2, ⟨K2, k2⟩, w1, w2⟩ := ih (s + 1) c1 out hrec (l1.trans hw) (by omega)
    refine ⟨l2, ⟨K1 + K2, by rw [k1, k2, Nat.mul_add]; omega⟩, ?_, ?_⟩
    · intro k hk; rw [w1 k (by omega)]; exact u1 k hk
    · intro k hk1 hk2
      by_cases e : k = s
      · subst e
        rw [w1 k (by omega)]
        exact u3 (by omega)
      · exact w2 k (by omega) (by omega)

theorem range_drop_one (w : Nat) : (List.range w).drop 1 = List.range' 1 (w - 1) := by
  rw [List.range_eq_range', List.drop_range']

theorem sem_daddaStage {v : Label → Bool} {di width : Nat} (hdi : 2 ≤ di) {c out : List (List Label)}
    (h : Sem (daddaStage di width c) v out) (hw : c.length = width) :
    out.length = width ∧ (∃ K, colsVal v c = colsVal v out + 2 ^ width * K) ∧
    out.getD 0 [] = c.getD 0 [] ∧ (∀ k, 1 ≤ k → k < width → (out.getD k []).length < di) := by
  unfold daddaStage at h
  rw [range_drop_one] at h
  by_cases hw0 : width = 0
  · subst hw0
    simp only [Nat.zero_sub, List.range'_zero, progFold, sem_pure] at h
    subst h
    exact ⟨hw, ⟨0, by simp⟩, rfl, fun k h1 h2 => by omega⟩
  · obtain ⟨a1, a2, a3, a4⟩ := sem_daddaCols hdi (width - 1) 1 c out h hw (by omega)
    exact ⟨a1, a2, a3 0 (by omega), fun k h1 h2 => a4 k h1 (by omega)⟩

theorem sem_daddaStages {v : Label → Bool} {width : Nat} : ∀ (fuel di : Nat) (c out : List (List Label)),
    Sem (daddaStages width fuel di c) v out → c.length = width → 1 ≤ di →
    (di = 1 → ∀ k, 1 ≤ k → k < width → (c.getD k []).length < 2) →
    out.length = width ∧ (∃ K, colsVal v c = colsVal v out + 2 ^ width * K) ∧
    out.getD 0 [] = c.getD 0 [] ∧ (∀ k, 1 ≤ k → k < width → (out.getD k []).length < 2) := by
  intro fuel
  induction fuel with
  | zero => intro di c out h; exact absurd h sem_fail
  | succ fuel ih =>
    intro di c out h hw hdi hone
    unfold daddaStages at h
    by_cases h1 : (di == 1) = true
    · simp only [h1, if_true, sem_pure] at h
      subst h
      exact ⟨hw, ⟨0, by simp⟩, rfl, hone (by simpa using h1)⟩
    · simp only [h1, Bool.false_eq_true, if_false, sem_bind] at h
      obtain ⟨c1, hs, hrec⟩ := h
      have hd2 : 2 ≤ di := by
        have : di ≠ 1 := by simpa using h1
        omega
      obtain ⟨l1, ⟨K1, k1⟩, z1, p1⟩ := sem_daddaStage hd2 hs hw
      have hnext : 1 ≤ (if (di == 2) = true then 1 else (2 * di + 2) / 3) := by
        split
        · omega
        · have : di ≠ 2 := by simpa using ‹¬(di == 2) = true›
          omega
      obtain ⟨l2, ⟨K2, k2⟩, z2, p2⟩ := ih _ c1 out hrec l1 hnext (by
        intro hd k hk1 hk2
        -- the next threshold is 1 only after the stage with threshold 2
        have hdi2 : di = 2 := by
          split at hd
          · rename_i h2; simpa using h2
          · rename_i h2
            have : di ≠ 2 := by simpa using h2
            omega
        have := p1 k hk1 hk2
        omega)
      exact ⟨l2, ⟨K1 + K2, by rw [k1, k2, Nat.mul_add]; omega⟩, z2.trans z1, p2⟩

def headStep (acc : Prog (List Label)) (col : List Label) : Prog (List Label) := do
  let l ← acc
  match col with
  | x :: _ => pure (l ++ [x])
  | [] => .fail "Py:IndexError"

theorem sem_headsFold {v : Label → Bool} : ∀ (c : List (List Label)) (acc : Prog (List Label)) (out : List Label),
    Sem (c.foldl headStep acc) v out →
    ∃ l0 hs, Sem acc v l0 ∧ out = l0 ++ hs ∧ All2 (fun col x => ∃ rest, col = x :: rest) c hs := by
  intro c
  induction c with
  | nil => intro acc out h; exact ⟨out, [], h, by simp, .nil⟩
  | cons col t ih =>
    intro acc out h
    simp only [List.foldl_cons] at h
    obtain ⟨l1, hs, h1, e, hall⟩ := ih _ out h
    simp only [headStep, sem_bind] at h1
    obtain ⟨l0, hl0, hm⟩ := h1
    cases col with
    | nil => exact absurd hm sem_fail
    | cons x rest =>
      simp only [sem_pure] at hm
      subst hm
      exact ⟨l0, x :: hs, hl0, by rw [e]; simp, .cons ⟨rest, rfl⟩ hall⟩

theorem sem_heads {v : Label → Bool} {c : List (List Label)} {out : List Label} (h : Sem (heads c) v out) :
    All2 (fun col x => ∃ rest, col = x :: rest) c out := by
  have h' : Sem (c.foldl headStep (pure [])) v out := h
  obtain ⟨l0, hs, h0, e, hall⟩ := sem_headsFold c _ out h'
  rw [sem_pure] at h0
  subst h0
  simpa [e] using hall

theorem all2_length {α β} {R : α → β → Prop} : ∀ {l1 : List α} {l2 : List β}, All2 R l1 l2 → l1.length = l2.length := by
  intro l1 l2 h
  induction h with
  | nil => rfl
  | cons _ _ ih => simp [ih]

/-- a matrix whose columns are singletons is the number formed by its heads -/
theorem colsVal_heads (v : Label → Bool) : ∀ {c : List (List Label)} {hs : List Label},
    All2 (fun col x => ∃ rest, col = x :: rest) c hs → (∀ k, (c.getD k []).length ≤ 1) → colsVal v c = valLE v hs := by
  intro c hs h
  induction h with
  | nil => intro _; rfl
  | @cons col x t ts hx _ ih =>
    intro hlen
    obtain ⟨rest, rfl⟩ := hx
    have h0 := hlen 0
    simp only [List.getD_cons_zero, List.length_cons] at h0
    have : rest = [] := List.eq_nil_of_length_eq_zero (by omega)
    subst this
    simp only [colsVal, valLE, cnt_cons, cnt_nil, Nat.add_zero]
    rw [ih (fun k => by simpa using hlen (k + 1))]

theorem colsVal_append (v : Label → Bool) (a b : List (List Label)) :
    colsVal v (a ++ b) = colsVal v a + 2 ^ a.length * colsVal v b := by
  induction a with
  | nil => simp [colsVal]
  | cons col t ih =>
    simp only [List.cons_append, colsVal, ih, List.length_cons, Nat.pow_succ]
    rw [Nat.mul_add]
    have : 2 * (2 ^ t.length * colsVal v b) = 2 ^ t.length * 2 * colsVal v b := by
      rw [Nat.mul_assoc, Nat.mul_left_comm]
    omega

theorem colsVal_empty_cols (v : Label → Bool) : ∀ (c : List (List Label)), (∀ col ∈ c, col = []) → colsVal v c = 0 := by
  intro c
  induction c with
  | nil => intro _; rfl
  | cons col t ih =>
    intro h
    have := h col (by simp)
    subst this
    simp [colsVal, cnt_nil, ih (fun x hx => h x (by simp [hx]))]

theorem rowsCover_zero_rows (s n k : Nat) : rowsCover s 0 n k = 0 := by simp [rowsCover]

theorem rowsCover_lt (n k : Nat) : ∀ (mb s : Nat), k < s → rowsCover s mb n k = 0 := by
  intro mb
  induction mb with
  | zero => intro s _; exact rowsCover_zero_rows s n k
  | succ mb ih =>
    intro s h
    rw [rowsCover_succ, ih (s + 1) (by omega)]
    have : ¬ (s ≤ k ∧ k < s + n) := by omega
    simp [this]

theorem rowsCover_past (n k : Nat) : ∀ (mb s : Nat), s + mb + n ≤ k + 1 → rowsCover s mb n k = 0 := by
  intro mb
  induction mb with
  | zero => intro s _; exact rowsCover_zero_rows s n k
  | succ mb ih =>
    intro s h
    rw [rowsCover_succ, ih (s + 1) (by omega)]
    have : ¬ (s ≤ k ∧ k < s + n) := by omega
    simp [this]

theorem rowsCover_col0 (m n : Nat) : rowsCover 0 m n 0 ≤ 1 := by
  cases m with
  | zero => simp [rowsCover_zero_rows]
  | succ m =>
    rw [rowsCover_succ, rowsCover_lt n 0 m 1 (by omega)]
    split <;> omega

theorem rowsCover_width_one (k : Nat) : ∀ (mb s : Nat), rowsCover s mb 1 k = if s ≤ k ∧ k < s + mb then 1 else 0 := by
  intro mb
  induction mb with
  | zero => intro s; rw [rowsCover_zero_rows]; have : ¬ (s ≤ k ∧ k < s + 0) := by omega
            simp [this]
  | succ mb ih =>
    intro s
    rw [rowsCover_succ, ih (s + 1)]
    by_cases h1 : s ≤ k ∧ k < s + 1
    · have h2 : ¬ (s + 1 ≤ k ∧ k < s + 1 + mb) := by omega
      have h3 : s ≤ k ∧ k < s + (mb + 1) := by omega
      simp [h1, h2, h3]
    · by_cases h2 : s + 1 ≤ k ∧ k < s + 1 + mb
      · have h3 : s ≤ k ∧ k < s + (mb + 1) := by omega
        simp [h1, h2, h3]
      · have h3 : ¬ (s ≤ k ∧ k < s + (mb + 1)) := by omega
        simp [h1, h2, h3]

theorem rowsCover_one_row (n k : Nat) : rowsCover 0 1 n k = if k < n then 1 else 0 := by
  rw [rowsCover_succ, rowsCover_zero_rows]
  by_cases h : k < n
  · have : 0 ≤ k ∧ k < 0 + n := by omega
    simp [h, this]
  · have : ¬ (0 ≤ k ∧ k < 0 + n) := by omega
    simp [h, this]

theorem getD_take_lt (c : List (List Label)) (t k : Nat) (h : k < t) : (c.take t).getD k [] = c.getD k [] := by
  simp [List.getD_eq_getElem?_getD, List.getElem?_take, h]

theorem getD_ge_length (c : List (List Label)) (k : Nat) (h : c.length ≤ k) : c.getD k [] = [] := by
  simp [List.getD_eq_getElem?_getD, List.getElem?_eq_none h]

/-- **the Dadda multiplier computes the product**: whenever `add_mul_dadda` returns (either endianness),
the returned bits are exactly `a·b` -/
theorem sem_addMulDadda {v : Label → Bool} {a b : List Label} {be : Bool} {out : List Label}
    (h : Sem (addMulDadda a b be) v out) :
    valLE v (revIf out be) = valLE v (revIf a be) * valLE v (revIf b be) := by
  unfold addMulDadda at h
  simp only [sem_bind] at h
  obtain ⟨c, hc, hbody⟩ := h
  generalize revIf a be = A at hc hbody ⊢
  generalize revIf b be = B at hc hbody ⊢
  obtain ⟨cl, cv, ch⟩ := sem_ppColumns B 0 _ c hc (by intro _; simp; omega)
  simp only [List.length_replicate, colsVal_replicate_nil, Nat.zero_add, Nat.pow_zero, Nat.one_mul] at cl cv ch
  have chk : ∀ k, (c.getD k []).length = rowsCover 0 B.length A.length k := by
    intro k
    rw [ch k]
    have : (List.replicate (A.length + B.length) ([] : List Label)).getD k [] = [] := by
      simp only [List.getD_eq_getElem?_getD]
      rcases Nat.lt_or_ge k (A.length + B.length) with h1 | h1
      · rw [List.getElem?_replicate]; simp [h1]
      · rw [List.getElem?_eq_none (by rw [List.length_replicate]; exact h1)]; rfl
    rw [this]; simp
  have hAB : valLE v A * valLE v B < 2 ^ (A.length + B.length) := by
    have h1 := valLE_lt v A
    have h2 := valLE_lt v B
    rw [Nat.pow_add]
    exact Nat.mul_lt_mul'' h1 h2
  by_cases hsp : (A.length == 1 || B.length == 1) = true
  · -- one of the operands is a single bit: the columns are already the answer
    simp only [hsp, if_true, sem_bind, sem_pure] at hbody
    obtain ⟨hd, hh, rfl⟩ := hbody
    rw [revIf_revIf]
    have hall := sem_heads hh
    have hsingle : ∀ k, ((c.take (B.length + A.length - 1)).getD k []).length ≤ 1 := by
      intro k
      rcases Nat.lt_or_ge k (B.length + A.length - 1) with hk | hk
      · rw [getD_take_lt c _ k hk, chk k]
        simp only [Bool.or_eq_true, beq_iff_eq] at hsp
        rcases hsp with h1 | h1
        · rw [h1, rowsCover_width_one]; split <;> omega
        · rw [h1, rowsCover_one_row]; split <;> omega
      · rw [getD_ge_length _ _ (by rw [List.length_take]; omega)]; simp
    rw [← colsVal_heads v hall hsingle]
    -- the dropped last column is empty
    have hsplit : c = c.take (B.length + A.length - 1) ++ c.drop (B.length + A.length - 1) := (List.take_append_drop _ _).symm
    have hdrop : ∀ col ∈ c.drop (B.length + A.length - 1), col = [] := by
      intro col hcol
      obtain ⟨j, hj, hje⟩ := List.getElem_of_mem hcol
      rw [List.getElem_drop] at hje
      have hlen : (c.getD (B.length + A.length - 1 + j) []).length = 0 := by
        rw [chk]
        exact rowsCover_past _ _ _ _ (by omega)
      have : c.getD (B.length + A.length - 1 + j) [] = col := by
        rw [List.getD_eq_getElem?_getD, List.getElem?_eq_getElem (by rw [List.length_drop] at hj; omega)]
        simpa using hje
      rw [this] at hlen
      exact List.eq_nil_of_length_eq_zero hlen
    have := colsVal_append v (c.take (B.length + A.length - 1)) (c.drop (B.length + A.length - 1))
    rw [← hsplit, colsVal_empty_cols v _ hdrop] at this
    rw [cv] at this
    omega
  · simp only [hsp, Bool.false_eq_true, if_false, sem_bind, sem_pure] at hbody
    obtain ⟨c', hst, hd, hh, rfl⟩ := hbody
    rw [revIf_revIf]
    have hstart : 1 ≤ daddaStart (A.length + B.length) 2 (min A.length B.length) := by
      have : ∀ fuel di k, 1 ≤ di → 1 ≤ daddaStart fuel di k := by
        intro fuel
        induction fuel with
        | zero => intro di k h; simpa [daddaStart] using h
        | succ fuel ih =>
          intro di k h
          unfold daddaStart
          split
          · exact ih _ _ (by omega)
          · exact h
      exact this _ _ _ (by omega)
    have hstart2 : daddaStart (A.length + B.length) 2 (min A.length B.length) ≠ 1 := by
      have : ∀ fuel di k, 2 ≤ di → 2 ≤ daddaStart fuel di k := by
        intro fuel
        induction fuel with
        | zero => intro di k h; simpa [daddaStart] using h
        | succ fuel ih =>
          intro di k h
          unfold daddaStart
          split
          · exact ih _ _ (by omega)
          · exact h
      have := this (A.length + B.length) 2 (min A.length B.length) (by omega)
      omega
    obtain ⟨l2, ⟨K, k2⟩, z0, p2⟩ := sem_daddaStages _ _ c c' hst cl hstart (fun e => absurd e hstart2)
    have hall := sem_heads hh
    have hsingle : ∀ k, (c'.getD k []).length ≤ 1 := by
      intro k
      cases k with
      | zero => rw [z0, chk 0]; exact rowsCover_col0 _ _
      | succ k =>
        rcases Nat.lt_or_ge (k + 1) (A.length + B.length) with hk | hk
        · have := p2 (k + 1) (by omega) hk; omega
        · rw [getD_ge_length _ _ (by rw [l2]; exact hk)]; simp
    have hval := colsVal_heads v hall hsingle
    have hlen : hd.length = A.length + B.length := by rw [← all2_length hall, l2]
    have hlt := valLE_lt v hd
    rw [hlen] at hlt
    rw [cv, hval] at k2
    -- no overflow: the product fits the width
    have hK : K = 0 := by
      cases K with
      | zero => rfl
      | succ K =>
        exfalso
        have : 2 ^ (A.length + B.length) ≤ 2 ^ (A.length + B.length) * (K + 1) := Nat.le_mul_of_pos_right _ (by omega)
        omega
    subst hK
    omega

theorem length_revIf (l : List Label) (be : Bool) : (revIf l be).length = l.length := by
  cases be <;> simp [revIf]

/-- result width of the Dadda multiplier: `n+m` bits, or `n+m-1` when one operand is a single bit -/
theorem sem_addMulDadda_length {v : Label → Bool} {a b : List Label} {be : Bool} {out : List Label}
    (h : Sem (addMulDadda a b be) v out) :
    out.length = if (a.length == 1 || b.length == 1) then a.length + b.length - 1 else a.length + b.length := by
  unfold addMulDadda at h
  simp only [sem_bind] at h
  obtain ⟨c, hc, hbody⟩ := h
  rw [← length_revIf a be, ← length_revIf b be]
  generalize revIf a be = A at hc hbody ⊢
  generalize revIf b be = B at hc hbody ⊢
  obtain ⟨cl, cv, ch⟩ := sem_ppColumns B 0 _ c hc (by intro _; simp; omega)
  simp only [List.length_replicate] at cl
  by_cases hsp : (A.length == 1 || B.length == 1) = true
  · simp only [hsp, if_true, sem_bind, sem_pure] at hbody ⊢
    obtain ⟨hd, hh, rfl⟩ := hbody
    rw [length_revIf, ← all2_length (sem_heads hh), List.length_take, cl]
    omega
  · simp only [hsp, Bool.false_eq_true, if_false, sem_bind, sem_pure] at hbody ⊢
    obtain ⟨c', hst, hd, hh, rfl⟩ := hbody
    have hstart : ∀ fuel di k, 1 ≤ di → 1 ≤ daddaStart fuel di k := by
      intro fuel
      induction fuel with
      | zero => intro di k h; simpa [daddaStart] using h
      | succ fuel ih =>
        intro di k h
        unfold daddaStart
        split
        · exact ih _ _ (by omega)
        · exact h
    have hstart2 : ∀ fuel di k, 2 ≤ di → 2 ≤ daddaStart fuel di k := by
      intro fuel
      induction fuel with
      | zero => intro di k h; simpa [daddaStart] using h
      | succ fuel ih =>
        intro di k h
        unfold daddaStart
        split
        · exact ih _ _ (by omega)
        · exact h
    have h2 := hstart2 (A.length + B.length) 2 (min A.length B.length) (by omega)
    obtain ⟨l2, _, _, _⟩ := sem_daddaStages _ _ c c' hst cl (hstart _ _ _ (by omega)) (fun e => by omega)
    rw [length_revIf, ← all2_length (sem_heads hh), l2]

end Cirbo
