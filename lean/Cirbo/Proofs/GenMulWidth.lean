import Cirbo.Proofs.GenShape
import Cirbo.Proofs.GenMul
/-!
# The width of `add_mul` (DEFAULT): profile of the partial products and the carries' arithmetic
-/
namespace Cirbo
open GateType

/-! ## shape of the partial products -/

theorem cost_ppRow {bi : Label} : ∀ (a acc out : List Label) (k : Nat), Cost (ppRow bi a acc) out k →
    out.length = acc.length + a.length := by
  intro a
  induction a with
  | nil => intro acc out k h; simp only [ppRow] at h; obtain ⟨rfl, _⟩ := cost_pure.mp h; simp
  | cons aj r ih =>
    intro acc out k h
    simp only [ppRow, cost_bind] at h
    obtain ⟨g, k1, k2, _, hrec, _⟩ := h
    have := ih _ _ _ hrec
    simp only [List.length_append, List.length_cons, List.length_nil] at this ⊢; omega

theorem cost_ppRows {a : List Label} : ∀ (b : List Label) (acc out : List (List Label)) (k : Nat),
    Cost (ppRows a b acc) out k →
    ∃ rows, out = acc ++ rows ∧ rows.length = b.length ∧ ∀ r ∈ rows, r.length = a.length := by
  intro b
  induction b with
  | nil => intro acc out k h; simp only [ppRows] at h; obtain ⟨rfl, _⟩ := cost_pure.mp h; exact ⟨[], by simp, rfl, by simp⟩
  | cons bi r ih =>
    intro acc out k h
    simp only [ppRows, cost_bind] at h
    obtain ⟨row, k1, k2, hrow, hrec, _⟩ := h
    have hl := cost_ppRow _ _ _ _ hrow
    simp only [List.length_nil, Nat.zero_add] at hl
    obtain ⟨rows, e, hn, hall⟩ := ih _ _ _ hrec
    refine ⟨row :: rows, by rw [e]; simp, by simp [hn], ?_⟩
    intro x hx
    rcases List.mem_cons.mp hx with rfl | hx
    · exact hl
    · exact hall x hx

/-- bits of one row at level `l`: row `i` of width `C` occupies levels `i … i+C-1` -/
theorem cntL_row (i : Nat) : ∀ (row : List Label) (s l : Nat),
    cntL (fun (x : Nat × Label) => x.1) ((row.zipIdx s).map (fun (lj : Label × Nat) => (i + lj.2, lj.1))) l =
      if i + s ≤ l ∧ l < i + s + row.length then 1 else 0 := by
  intro row
  induction row with
  | nil => intro s l; simp [cntL_nil]
  | cons x r ih =>
    intro s l
    simp only [List.zipIdx_cons, List.map_cons, cntL_cons, ih (s + 1) l, List.length_cons]
    by_cases h1 : i + s = l
    · have : ¬ (i + (s + 1) ≤ l ∧ l < i + (s + 1) + r.length) := by omega
      have h2 : (i + s ≤ l ∧ l < i + s + (r.length + 1)) := by omega
      simp [h1, this, h2]
    · by_cases h2 : (i + (s + 1) ≤ l ∧ l < i + (s + 1) + r.length)
      · have : (i + s ≤ l ∧ l < i + s + (r.length + 1)) := by omega
        simp [h1, h2, this]
      · have : ¬ (i + s ≤ l ∧ l < i + s + (r.length + 1)) := by omega
        simp [h1, h2, this]

/-- the profile of the partial products: `R` rows of width `C` -/
def ppProf (R C l : Nat) : Nat := min R (l + 1) - (l + 1 - C)

theorem cntL_ppRows (C : Nat) : ∀ (rows : List (List Label)) (s l : Nat), (∀ r ∈ rows, r.length = C) →
    cntL (fun (x : Nat × Label) => x.1)
      (((rows.zipIdx s).map (fun (ri : List Label × Nat) => ri.1.zipIdx.map (fun (lj : Label × Nat) => (ri.2 + lj.2, lj.1)))).flatten) l =
      min (s + rows.length) (l + 1) - max s (l + 1 - C) := by
  intro rows
  induction rows with
  | nil => intro s l _; simp [cntL_nil]; omega
  | cons row r ih =>
    intro s l hall
    simp only [List.zipIdx_cons, List.map_cons, List.flatten_cons, cntL_append, List.length_cons]
    rw [ih (s + 1) l (fun x hx => hall x (by simp [hx]))]
    have hr := cntL_row s row 0 l
    simp only [Nat.add_zero] at hr
    rw [hr, hall row (by simp)]
    by_cases h : s ≤ l ∧ l < s + C
    · simp only [h, and_self, if_true]; omega
    · simp only [h, if_false]; omega

theorem cntL_ppWeighted {rows : List (List Label)} {C : Nat} (hall : ∀ r ∈ rows, r.length = C) (l : Nat) :
    cntL (fun (x : Nat × Label) => x.1) (ppWeighted rows) l = ppProf rows.length C l := by
  unfold ppWeighted ppProf
  have := cntL_ppRows C rows 0 l hall
  simp only [Nat.zero_add] at this
  rw [this]; omega

/-! ## the carries -/

theorem levelsCount_top (R C : Nat) (hR : 2 ≤ R) (hC : 2 ≤ C) :
    ∀ (d L cs cp f : Nat), L + d = R + C - 1 → 2 ≤ L → 1 ≤ cs + 2 * cp → cs + 2 * cp ≤ ppProf R C (L - 1) → cs ≤ 1 →
      d + 2 ≤ f → levelsCount (ppProf R C) f L cs cp = d + 1 := by
  intro d
  induction d with
  | zero =>
    intro L cs cp f hL h2 h1 hle hcs hf
    obtain ⟨f1, rfl⟩ : ∃ f1, f = f1 + 1 := ⟨f - 1, by omega⟩
    obtain ⟨f2, rfl⟩ : ∃ f2, f1 = f2 + 1 := ⟨f1 - 1, by omega⟩
    have hcL : ppProf R C L = 0 := by unfold ppProf; omega
    have hcL1 : ppProf R C (L + 1) = 0 := by unfold ppProf; omega
    have hprev : ppProf R C (L - 1) = 1 := by unfold ppProf; omega
    have hcs1 : cs = 1 := by omega
    have hcp0 : cp = 0 := by omega
    subst hcs1 hcp0
    rw [levelsCount_succ, hcL]
    simp only [Nat.zero_add, Nat.mul_zero, Nat.add_zero]
    rw [if_neg (by omega), levelsCount_succ, hcL1]
    simp
  | succ d ih =>
    intro L cs cp f hL h2 h1 hle hcs hf
    obtain ⟨f1, rfl⟩ : ∃ f1, f = f1 + 1 := ⟨f - 1, by omega⟩
    have hcL : 1 ≤ ppProf R C L := by unfold ppProf; omega
    have hP6 : ppProf R C (L - 1) ≤ ppProf R C L + 1 := by unfold ppProf; omega
    rw [levelsCount_succ, if_neg (by omega)]
    have hLL : L + 1 - 1 = L := by omega
    rw [ih (L + 1) ((cp + (ppProf R C L + cs) / 2) % 2) ((cp + (ppProf R C L + cs) / 2) / 2) f1 (by omega) (by omega)
      (by omega) (by rw [hLL]; omega) (by omega) (by omega)]
    omega

/-- **both widths at least 2**: the loop outputs exactly `R + C` levels -/
theorem levelsCount_pp (R C f : Nat) (hR : 2 ≤ R) (hC : 2 ≤ C) (hf : R + C + 1 ≤ f) :
    levelsCount (ppProf R C) f 0 0 0 = R + C := by
  obtain ⟨f1, rfl⟩ : ∃ f1, f = f1 + 1 := ⟨f - 1, by omega⟩
  obtain ⟨f2, rfl⟩ : ∃ f2, f1 = f2 + 1 := ⟨f1 - 1, by omega⟩
  have h0 : ppProf R C 0 = 1 := by unfold ppProf; omega
  have h1 : ppProf R C 1 = 2 := by unfold ppProf; omega
  rw [levelsCount_succ, h0]
  simp only [Nat.add_zero, Nat.mul_zero]
  rw [if_neg (by omega), levelsCount_succ, h1]
  simp only [Nat.reduceDiv, Nat.zero_add, Nat.reduceMod, Nat.add_zero, Nat.mul_zero]
  rw [if_neg (by omega)]
  simp only [Nat.reduceAdd, Nat.reduceDiv, Nat.reduceMod]
  rw [levelsCount_top R C hR hC (R + C - 3) 2 1 0 f2 (by omega) (by omega) (by omega) (by rw [show 2 - 1 = 1 from rfl, h1]; omega)
    (by omega) (by omega)]
  omega

/-- **one width is 1**: every level holds one bit, nothing is carried, `R + C - 1` levels -/
theorem levelsCount_pp_one (R C : Nat) (h1 : R = 1 ∨ C = 1) (hR : 1 ≤ R) (hC : 1 ≤ C) :
    ∀ (d L f : Nat), L + d = R + C - 1 → d + 1 ≤ f → levelsCount (ppProf R C) f L 0 0 = d := by
  intro d
  induction d with
  | zero =>
    intro L f hL hf
    obtain ⟨f1, rfl⟩ : ∃ f1, f = f1 + 1 := ⟨f - 1, by omega⟩
    have : ppProf R C L = 0 := by unfold ppProf; omega
    rw [levelsCount_succ, this]; simp
  | succ d ih =>
    intro L f hL hf
    obtain ⟨f1, rfl⟩ : ∃ f1, f = f1 + 1 := ⟨f - 1, by omega⟩
    have : ppProf R C L = 1 := by unfold ppProf; omega
    rw [levelsCount_succ, this]
    simp only [Nat.add_zero, Nat.mul_zero]
    rw [if_neg (by omega)]
    simp only [Nat.reduceDiv, Nat.zero_add, Nat.reduceMod]
    rw [ih (L + 1) f1 (by omega) (by omega)]; omega

/-! ## the width -/

theorem exists_mem_of_cntL_pos {α} (lev : α → Nat) (l : List α) (k : Nat) (h : 0 < cntL lev l k) :
    ∃ x ∈ l, lev x = k := by
  unfold cntL at h
  have hne : l.filter (fun x => lev x == k) ≠ [] := by intro e; rw [e] at h; simp at h
  obtain ⟨y, hy⟩ := List.exists_mem_of_ne_nil _ hne
  obtain ⟨hym, hyl⟩ := List.mem_filter.mp hy
  exact ⟨y, hym, by simpa using hyl⟩

/-- the number of result bits of the XAIG weighted sum is the number of levels its profile predicts -/
theorem cost_addSumWeighted_length {ins r : List (Nat × Label)} {k : Nat}
    (h : Cost (addSumWeighted ins (.enum .xaig)) r k)
    (hc : ∀ l, cntL (fun (x : Nat × Label) => x.1) ins l = 0 → ∀ k', l ≤ k' → cntL (fun (x : Nat × Label) => x.1) ins k' = 0)
    (hb : levelsCount (cntL (fun (x : Nat × Label) => x.1) ins) (maxLevel ins + ins.length + 1 + 1) 0 0 0
            ≤ maxLevel ins + ins.length + 1) :
    r.length = levelsCount (cntL (fun (x : Nat × Label) => x.1) ins) (maxLevel ins + ins.length + 1 + 1) 0 0 0 := by
  unfold addSumWeighted at h
  simp only [BasisArg.resolve] at h
  split at h
  · exact absurd h cost_fail
  · obtain ⟨s1, _, _⟩ := sortBy_facts ins
    have hperm := Norm.sortBy_perm ltSingle ins
    have sh : Shape (cntL (fun (x : Nat × Label) => x.1) ins) 0 0 0 (sortBy ltSingle ins) [] :=
      ⟨s1, (by simp [LSorted]), (fun _ _ => Nat.zero_le _), (fun _ hp => by cases hp),
       (by rw [cntL_perm _ hperm]; rfl), (fun k' _ => cntL_perm _ hperm k'), rfl⟩
    have := shape_weightedLoop hc _ _ _ _ _ _ _ _ _ _ h sh (by omega)
    simpa using this

theorem ppProf_no_holes (R C : Nat) (hR : 1 ≤ R) (hC : 1 ≤ C) :
    ∀ l, ppProf R C l = 0 → ∀ k, l ≤ k → ppProf R C k = 0 := by
  intro l h k hk
  unfold ppProf at h ⊢
  omega

/-- **`add_mul` (DEFAULT) returns `n + m` bits, `n + m − 1` when one operand has a single bit** -/
theorem cost_addMul_length {a b out : List Label} {be : Bool} {k : Nat} (h : Cost (addMul a b be) out k)
    (ha : 1 ≤ a.length) (hb : 1 ≤ b.length) :
    out.length = if a.length = 1 ∨ b.length = 1 then a.length + b.length - 1 else a.length + b.length := by
  unfold addMul at h
  simp only [cost_bind, cost_pure] at h
  obtain ⟨rows0, k1, _, hrows, ⟨o, k2, _, hsum, ⟨rfl, rfl⟩, rfl⟩, rfl⟩ := h
  obtain ⟨rows, e, hR, hall⟩ := cost_ppRows _ _ _ _ hrows
  simp only [List.nil_append] at e
  rw [e] at hsum
  rw [length_revIf_c, List.length_map]
  rw [length_revIf_c] at hR hall
  have hprof : cntL (fun (x : Nat × Label) => x.1) (ppWeighted rows) = ppProf b.length a.length := by
    funext l; rw [cntL_ppWeighted hall l, hR]
  -- the top level is present, so the sentinel is far enough
  have htop : 0 < cntL (fun (x : Nat × Label) => x.1) (ppWeighted rows) (a.length + b.length - 2) := by
    rw [hprof]; unfold ppProf; omega
  obtain ⟨x, hxm, hxl⟩ := exists_mem_of_cntL_pos _ _ _ htop
  have hmax := maxLevel_ge (ppWeighted rows) x hxm
  have hlen : 1 ≤ (ppWeighted rows).length := by
    cases hpw : ppWeighted rows with
    | nil => rw [hpw] at hxm; cases hxm
    | cons _ _ => simp
  have hlenEq := cost_addSumWeighted_length hsum (by rw [hprof]; exact ppProf_no_holes _ _ hb ha)
  by_cases h1 : a.length = 1 ∨ b.length = 1
  · rw [if_pos h1]
    have hcount := levelsCount_pp_one b.length a.length (by rcases h1 with h1 | h1; exact Or.inr h1; exact Or.inl h1) hb ha (a.length + b.length - 1) 0
      (maxLevel (ppWeighted rows) + (ppWeighted rows).length + 1 + 1) (by omega) (by omega)
    rw [hprof] at hlenEq
    rw [hlenEq (by rw [hcount]; omega), hcount]
  · rw [if_neg h1]
    have h2a : 2 ≤ a.length := by omega
    have h2b : 2 ≤ b.length := by omega
    have hcount := levelsCount_pp b.length a.length (maxLevel (ppWeighted rows) + (ppWeighted rows).length + 1 + 1)
      h2b h2a (by omega)
    rw [hprof] at hlenEq
    rw [hlenEq (by rw [hcount]; omega), hcount]; omega

end Cirbo
