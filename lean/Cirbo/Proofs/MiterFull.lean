import Cirbo.Proofs.ConnFull
/-!
# The miter, end to end (C13)
-/
namespace Cirbo
open GateType Circuit

def xorStep (acc : R Circuit) (p : (Label × Label) × Label) : R Circuit := match acc with
  | .error e => .error e
  | .ok c => match c.addGate ⟨p.2, XOR, [p.1.1, p.1.2]⟩ with
    | .error e => .error e
    | .ok c' => c'.markAsOutput p.2

theorem xorFold_error (e : String) : ∀ (ps : List ((Label × Label) × Label)), ps.foldl xorStep (.error e) = .error e := by
  intro ps; induction ps with
  | nil => rfl
  | cons a t ih => simpa [xorStep] using ih

theorem xorFold_spec : ∀ (ps : List ((Label × Label) × Label)) (cc c3 : Circuit), WFS cc →
    ps.foldl xorStep (.ok cc) = .ok c3 →
    WFS c3 ∧ c3.inputs = cc.inputs ∧ c3.outputs = cc.outputs ++ ps.map (·.2) ∧
    (∀ g ∈ cc.gates, g ∈ c3.gates) ∧ ∀ p ∈ ps, (⟨p.2, XOR, [p.1.1, p.1.2]⟩ : Gate) ∈ c3.gates := by
  intro ps
  induction ps with
  | nil => intro cc c3 hw h; simp at h; subst h; exact ⟨hw, rfl, by simp, fun g hg => hg, by intro p hp; cases hp⟩
  | cons p r ih =>
    intro cc c3 hw h
    simp only [List.foldl_cons] at h
    cases hs : xorStep (.ok cc) p with
    | error e => rw [hs, xorFold_error] at h; cases h
    | ok c1 =>
      rw [hs] at h
      unfold xorStep at hs
      simp only at hs
      cases ha : cc.addGate ⟨p.2, XOR, [p.1.1, p.1.2]⟩ with
      | error e => simp [ha] at hs
      | ok ca =>
        simp only [ha] at hs
        obtain ⟨_, _, hg1, hi1, ho1, _⟩ := addGate_fields ha
        have hwa : WFS ca := addGate_wfs hw (by intro e; cases e) ha
        have hw1 : WFS c1 := markAsOutput_wfs hwa hs
        have hm : c1.gates = ca.gates ∧ c1.inputs = ca.inputs ∧ c1.outputs = ca.outputs ++ [p.2] := by
          unfold markAsOutput at hs
          split at hs
          · simp only [Except.ok.injEq] at hs; subst hs; exact ⟨rfl, rfl, rfl⟩
          · cases hs
        obtain ⟨w3, i3, o3, g3, x3⟩ := ih c1 c3 hw1 h
        refine ⟨w3, ?_, ?_, ?_, ?_⟩
        · rw [i3, hm.2.1, hi1]; simp
        · rw [o3, hm.2.2, ho1]; simp
        · intro g hg; apply g3; rw [hm.1, hg1]; simp [hg]
        · intro q hq
          rcases List.mem_cons.mp hq with rfl | hq
          · apply g3; rw [hm.1, hg1]; simp
          · exact x3 q hq

/-- what `generate_pairwise_xor(n)` builds -/
theorem pairwiseXor_spec {n : Nat} {px : Circuit} (h : pairwiseXorCircuit n = .ok px) :
    WFS px ∧ px.inputs = genLabels "x" n ++ genLabels "y" n ∧ px.outputs = genLabels "xor" n ∧
    ∀ p ∈ ((genLabels "x" n).zip (genLabels "y" n)).zip (genLabels "xor" n),
      (⟨p.2, XOR, [p.1.1, p.1.2]⟩ : Gate) ∈ px.gates := by
  unfold pairwiseXorCircuit at h
  simp only [bind, Except.bind] at h
  cases h1 : Circuit.empty.addInputs (genLabels "x" n) with
  | error e => simp [h1] at h
  | ok c1 =>
    simp only [h1] at h
    cases h2 : c1.addInputs (genLabels "y" n) with
    | error e => simp [h2] at h
    | ok c2 =>
      simp only [h2] at h
      have hw1 := addInputs_wfs _ wfs_empty h1
      have hw2 := addInputs_wfs _ hw1 h2
      obtain ⟨_, i1, o1⟩ := addInputs_spec _ _ _ h1
      obtain ⟨_, i2, o2⟩ := addInputs_spec _ _ _ h2
      have hfold : (((genLabels "x" n).zip (genLabels "y" n)).zip (genLabels "xor" n)).foldl xorStep (.ok c2) = .ok px := h
      obtain ⟨w3, i3, o3, _, x3⟩ := xorFold_spec _ _ _ hw2 hfold
      refine ⟨w3, ?_, ?_, x3⟩
      · rw [i3, i2, i1]; simp [Circuit.empty]
      · rw [o3, o2, o1]
        simp only [Circuit.empty, List.nil_append]
        rw [List.map_snd_zip]
        simp [genLabels]

theorem buildMiter_unfold {left right m : Circuit} {ln rn : Label} (h : buildMiter left right ln rn = .ok m) :
    left.inputs.length = right.inputs.length ∧ left.outputs.length = right.outputs.length ∧
    ∃ m0 bl m1 px bl1 br1 m2 bx m3,
      Circuit.empty.connectCircuit left [] [] false ln true = .ok m0 ∧
      m0.getBlock ln = .ok bl ∧
      m0.connectCircuit right bl.inputs right.inputs false rn true = .ok m1 ∧
      pairwiseXorCircuit left.outputs.length = .ok px ∧
      m1.getBlock ln = .ok bl1 ∧ m1.getBlock rn = .ok br1 ∧
      m1.connectCircuit px (bl1.outputs ++ br1.outputs) px.inputs false "pairwise_xor" true = .ok m2 ∧
      m2.getBlock "pairwise_xor" = .ok bx ∧
      m2.addGate ⟨"big_or", if bx.outputs.length = 1 then IFF else OR, bx.outputs⟩ = .ok m3 ∧
      m3.setOutputs ["big_or"] = .ok m := by
  unfold buildMiter at h
  split at h
  · cases h
  · rename_i hshape
    simp only [Bool.or_eq_true, bne_iff_ne, ne_eq, not_or, Decidable.not_not] at hshape
    simp only [bind, Except.bind] at h
    cases e0 : Circuit.empty.connectCircuit left [] [] false ln true with
    | error e => simp [e0] at h
    | ok m0 =>
      simp only [e0] at h
      cases e1 : m0.getBlock ln with
      | error e => simp [e1] at h
      | ok bl =>
        simp only [e1] at h
        cases e2 : m0.connectCircuit right bl.inputs right.inputs false rn true with
        | error e => simp [e2] at h
        | ok m1 =>
          simp only [e2] at h
          cases e3 : pairwiseXorCircuit left.outputs.length with
          | error e => simp [e3] at h
          | ok px =>
            simp only [e3] at h
            cases e4 : m1.getBlock ln with
            | error e => simp [e4] at h
            | ok bl1 =>
              simp only [e4] at h
              cases e5 : m1.getBlock rn with
              | error e => simp [e5] at h
              | ok br1 =>
                simp only [e5] at h
                cases e6 : m1.connectCircuit px (bl1.outputs ++ br1.outputs) px.inputs false "pairwise_xor" true with
                | error e => simp [e6] at h
                | ok m2 =>
                  simp only [e6] at h
                  cases e7 : m2.getBlock "pairwise_xor" with
                  | error e => simp [e7] at h
                  | ok bx =>
                    simp only [e7] at h
                    have hty : (if bx.outputs.length != 1 then OR else IFF) = (if bx.outputs.length = 1 then IFF else OR) := by
                      by_cases hh : bx.outputs.length = 1 <;> simp [hh]
                    rw [hty] at h
                    cases e8 : m2.addGate ⟨"big_or", if bx.outputs.length = 1 then IFF else OR, bx.outputs⟩ with
                    | error e => rw [e8] at h; cases h
                    | ok m3 =>
                      rw [e8] at h
                      exact ⟨hshape.1, hshape.2, m0, bl, m1, px, bl1, br1, m2, bx, m3, rfl, e1, e2, rfl, e4, e5, e6, e7, e8, h⟩

theorem genLabels_length (s : String) (n : Nat) : (genLabels s n).length = n := by simp [genLabels]

theorem filter_not_self (l : List Label) : l.filter (fun i => !l.contains i) = [] := by
  apply List.filter_eq_nil_iff.mpr
  intro a ha
  simp [ha]

theorem exists_zip_ne_iff {α} [DecidableEq α] : ∀ (as bs : List α), as.length = bs.length →
    ((∃ p ∈ as.zip bs, p.1 ≠ p.2) ↔ as ≠ bs) := by
  intro as
  induction as with
  | nil => intro bs h; cases bs with
    | nil => simp
    | cons b t => simp at h
  | cons a r ih =>
    intro bs h
    cases bs with
    | nil => simp at h
    | cons b t =>
      simp only [List.length_cons, Nat.add_right_cancel_iff] at h
      simp only [List.zip_cons_cons, List.mem_cons, exists_eq_or_imp, ne_eq, List.cons.injEq, not_and]
      rw [ih t h]
      by_cases e : a = b
      · simp [e]
      · simp [e]

/-- an XOR gate of the comparison circuit is not one of its inputs -/
theorem gate_not_input {c : Circuit} (hw : WFS c) {g : Gate} (hg : g ∈ c.gates) (ht : g.ty ≠ INPUT) :
    g.label ∉ c.inputs := by
  intro hin
  obtain ⟨g', hg', hgl', hty'⟩ := (hw.inputsOK g.label).mp hin
  have := find_label hw.nodup hg'
  rw [hgl', find_label hw.nodup hg] at this
  simp only [Option.some.injEq] at this
  subst this
  exact ht hty'

theorem getBlock_name {c : Circuit} {n : Label} {b : Block} (h : c.getBlock n = .ok b) :
    b ∈ c.blocks ∧ b.name = n := by
  unfold Circuit.getBlock at h
  cases hf : c.blocks.find? (fun x => x.name == n) with
  | none => simp [hf] at h
  | some b0 =>
    simp only [hf, Except.ok.injEq] at h
    subst h
    exact ⟨List.mem_of_find?_eq_some hf, by simpa using List.find?_some hf⟩

theorem isValB_of_gates_sub {c c' : Circuit} {b v : Label → Bool} (hv : IsValB c' b v)
    (hs : ∀ g ∈ c.gates, g ∈ c'.gates) : IsValB c b v := fun g hg => hv g (hs g hg)

/-- the "still an input" filter keeps every label that names an INPUT gate -/
theorem filter_inputs_id {c : Circuit} (hnd : c.labels.Nodup) {ls : List Label}
    (h : ∀ i ∈ ls, ∃ g ∈ c.gates, g.label = i ∧ g.ty = INPUT) :
    ls.filter (fun i => ((c.find? i).map (·.ty)) == some INPUT) = ls := by
  apply List.filter_eq_self.mpr
  intro i hi
  obtain ⟨g, hg, hgl, hty⟩ := h i hi
  rw [← hgl, find_label hnd hg]
  simp [hty]

/-- **the miter, end to end.**  For well-formed operands of equal shape, `build_miter` yields a circuit
whose inputs are the (renamed) inputs of the left operand in its order, with the single output
`big_or`; every valuation of the miter contains a valuation of the left operand and one of the right
operand fed with the same input values position by position, and `big_or` is True exactly when their
output vectors differ. -/
theorem miter_correct {left right m : Circuit} {ln rn : Label} (hwl : WFG left) (hwr : WFG right)
    (hli : ∀ i ∈ left.inputs, ∃ g ∈ left.gates, g.label = i ∧ g.ty = INPUT)
    (hln : ln ≠ "") (hrn : rn ≠ "") (h : buildMiter left right ln rn = .ok m) :
    ∃ φ0 φ1 : Label → Label,
      m.inputs = left.inputs.map φ0 ∧ m.outputs = ["big_or"] ∧
      ∀ b v, IsValB m b v →
        IsValB left (v ∘ φ0) (v ∘ φ0) ∧ IsValB right (v ∘ φ1) (v ∘ φ1) ∧
        right.inputs.map (v ∘ φ1) = left.inputs.map (v ∘ φ0) ∧
        (1 ≤ left.outputs.length →
          (v "big_or" = true ↔ left.outputs.map (v ∘ φ0) ≠ right.outputs.map (v ∘ φ1))) := by
  obtain ⟨hni, hno, m0, bl, m1, px, bl1, br1, m2, bx, m3, e0, e1, e2, e3, e4, e5, e6, e7, e8, e9⟩ := buildMiter_unfold h
  obtain ⟨hwx, hxi, hxo, hxg⟩ := pairwiseXor_spec e3
  -- first connection: the left operand into the empty circuit
  obtain ⟨φ0, s0, _, p0, ⟨x0, g0⟩, a0, n0, o0, i0, k0, _⟩ := connect_left_full hwl e0
  obtain ⟨fb0, hb0⟩ := k0 hln
  have hbl : bl = ⟨ln, left.inputs.map φ0, fb0, left.outputs.map φ0⟩ := by
    rw [hb0] at e1; exact (Except.ok.inj e1).symm
  have hnd0 : m0.labels.Nodup := n0 (by simp [Circuit.labels, Circuit.empty])
  have hi0 : m0.inputs = left.inputs.map φ0 := by
    rw [i0]
    have : left.inputs.filter (fun i => !([] : List Label).contains i) = left.inputs :=
      List.filter_eq_self.mpr (fun a _ => by simp)
    rw [this]; simp [Circuit.empty]
  -- second connection: the right operand on the left operand's inputs
  obtain ⟨φ1, s1, c1, p1, ⟨x1, g1⟩, a1, n1, o1, i1, k1, v1⟩ := connect_left_full hwr e2
  obtain ⟨fb1, hb1⟩ := k1 hrn
  have hnd1 : m1.labels.Nodup := n1 hnd0
  have hlr : ln ≠ rn := by
    intro e
    obtain ⟨_, _, _, _, _, hblk, _⟩ := connect_left_unfold e2
    obtain ⟨hm, hn⟩ := getBlock_name e1
    have : m0.blocks.any (fun b => b.name == rn) = true :=
      List.any_eq_true.mpr ⟨bl, hm, by simp [hn, e]⟩
    rw [this] at hblk; cases hblk
  have hbl1 : bl1 = bl := by
    have := v1 ln bl hlr e1
    rw [this] at e4; exact (Except.ok.inj e4).symm
  have hbr1 : br1 = ⟨rn, right.inputs.map φ1, fb1, right.outputs.map φ1⟩ := by
    rw [hb1] at e5; exact (Except.ok.inj e5).symm
  -- third connection: the comparison stage
  obtain ⟨φ2, _, c2, _, ⟨x2, g2⟩, a2, n2, _, i2, k2, _⟩ := connect_left_full hwx.toWFG e6
  obtain ⟨fb2, hb2⟩ := k2 (by decide)
  have hnd2 : m2.labels.Nodup := n2 hnd1
  have hbx : bx = ⟨"pairwise_xor", px.inputs.map φ2, fb2, px.outputs.map φ2⟩ := by
    rw [hb2] at e7; exact (Except.ok.inj e7).symm
  -- the final gate
  obtain ⟨_, _, g3, i3, _⟩ := addGate_fields e8
  have g4 := setOutputs_gates e9
  obtain ⟨o4, i4⟩ := setOutputs_outputs e9
  -- gates accumulate
  have sub0 : ∀ g ∈ m0.gates, g ∈ m1.gates := fun g hg => by rw [g1]; simp [hg]
  have sub1 : ∀ g ∈ m1.gates, g ∈ m2.gates := fun g hg => by rw [g2]; simp [hg]
  have sub2 : ∀ g ∈ m2.gates, g ∈ m.gates := fun g hg => by rw [g4, g3]; simp [hg]
  -- the left inputs stay inputs all the way
  have hin0 : ∀ i ∈ left.inputs.map φ0, ∃ g ∈ m0.gates, g.label = i ∧ g.ty = INPUT := by
    intro i hi
    obtain ⟨i', hi', rfl⟩ := List.mem_map.mp hi
    obtain ⟨g, hg, hgl, hty⟩ := hli i' hi'
    have := a0 g hg (by simp)
    exact ⟨_, this, by simp [hgl], hty⟩
  have hi1 : m1.inputs = left.inputs.map φ0 := by
    rw [i1, filter_not_self, hi0]
    simp only [List.map_nil, List.append_nil]
    exact filter_inputs_id hnd1 (fun i hi => by
      obtain ⟨g, hg, r⟩ := hin0 i hi; exact ⟨g, sub0 g hg, r⟩)
  have hi2 : m2.inputs = left.inputs.map φ0 := by
    rw [i2, filter_not_self, hi1]
    simp only [List.map_nil, List.append_nil]
    exact filter_inputs_id hnd2 (fun i hi => by
      obtain ⟨g, hg, r⟩ := hin0 i hi; exact ⟨g, sub1 g (sub0 g hg), r⟩)
  have hty3 : (if bx.outputs.length = 1 then IFF else OR) ≠ INPUT := by split <;> decide
  have him : m.inputs = left.inputs.map φ0 := by
    rw [i4, i3]; simp only [hty3, if_false]; exact hi2
  refine ⟨φ0, φ1, him, o4, ?_⟩
  intro b v hv
  have hv2 : IsValB m2 b v := isValB_of_gates_sub hv sub2
  have hv1 : IsValB m1 b v := isValB_of_gates_sub hv2 sub1
  have hv0 : IsValB m0 b v := isValB_of_gates_sub hv1 sub0
  have hconn : right.inputs.map φ1 = left.inputs.map φ0 := by rw [c1, hbl]
  refine ⟨s0 b v hv0, s1 b v hv1, ?_, ?_⟩
  · have := congrArg (List.map v) hconn
    simpa [List.map_map] using this
  · intro hn1
    -- the comparison stage, read through φ2
    have hxy : (genLabels "x" left.outputs.length ++ genLabels "y" left.outputs.length).map φ2
        = left.outputs.map φ0 ++ right.outputs.map φ1 := by
      rw [← hxi, c2, hbl1, hbr1, hbl]
    rw [List.map_append] at hxy
    obtain ⟨hx, hy⟩ := List.append_inj hxy (by simp [genLabels_length])
    let T := ((genLabels "x" left.outputs.length).zip (genLabels "y" left.outputs.length)).zip (genLabels "xor" left.outputs.length)
    let ps : List (Label × Label × Label) := T.map (fun p => (φ2 p.2, φ2 p.1.1, φ2 p.1.2))
    have hTz : T.map (·.2) = genLabels "xor" left.outputs.length := by
      simp only [T]; rw [List.map_snd_zip]; simp [genLabels_length]
    have hTx : T.map (·.1.1) = genLabels "x" left.outputs.length := by
      have : T.map (·.1) = (genLabels "x" left.outputs.length).zip (genLabels "y" left.outputs.length) := by
        simp only [T]; rw [List.map_fst_zip]; simp [genLabels_length]
      have h2 : T.map (·.1.1) = (T.map (·.1)).map (·.1) := by rw [List.map_map]; rfl
      rw [h2, this, List.map_fst_zip]; simp [genLabels_length]
    have hTy : T.map (·.1.2) = genLabels "y" left.outputs.length := by
      have : T.map (·.1) = (genLabels "x" left.outputs.length).zip (genLabels "y" left.outputs.length) := by
        simp only [T]; rw [List.map_fst_zip]; simp [genLabels_length]
      have h2 : T.map (·.1.2) = (T.map (·.1)).map (·.2) := by rw [List.map_map]; rfl
      rw [h2, this, List.map_snd_zip]; simp [genLabels_length]
    have hps1 : ps.map (·.1) = bx.outputs := by
      rw [hbx]
      simp only [ps, List.map_map, hxo]
      rw [← hTz, List.map_map]; rfl
    have hpsl : ps.length = left.outputs.length := by
      simp [ps, T, genLabels_length]
    have hxg' : ∀ p ∈ ps, (⟨p.1, XOR, [p.2.1, p.2.2]⟩ : Gate) ∈ m.gates := by
      intro p hp
      obtain ⟨t, ht, rfl⟩ := List.mem_map.mp hp
      have hg := hxg t ht
      have hni' : (⟨t.2, XOR, [t.1.1, t.1.2]⟩ : Gate).label ∉ px.inputs :=
        gate_not_input hwx hg (by simp)
      have := a2 _ hg hni'
      exact sub2 _ (by simpa using this)
    have hout : (⟨"big_or", if ps.length = 1 then IFF else OR, ps.map (·.1)⟩ : Gate) ∈ m.gates := by
      rw [g4, g3, hps1]
      have : ps.length = bx.outputs.length := by rw [← hps1]; simp
      rw [this]; simp
    have key := miter_stage hv ps "big_or" hxg' hout (by omega)
    rw [key]
    -- pairs differ ⇔ the two output vectors differ
    have hA : ps.map (fun p => v p.2.1) = left.outputs.map (v ∘ φ0) := by
      simp only [ps, List.map_map]
      have : (fun p => v p.2.1) ∘ (fun p : (Label × Label) × Label => (φ2 p.2, φ2 p.1.1, φ2 p.1.2)) = (v ∘ φ2) ∘ (·.1.1) := rfl
      rw [this, ← List.map_map, hTx, ← List.map_map, hx, List.map_map]
    have hB : ps.map (fun p => v p.2.2) = right.outputs.map (v ∘ φ1) := by
      simp only [ps, List.map_map]
      have : (fun p => v p.2.2) ∘ (fun p : (Label × Label) × Label => (φ2 p.2, φ2 p.1.1, φ2 p.1.2)) = (v ∘ φ2) ∘ (·.1.2) := rfl
      rw [this, ← List.map_map, hTy, ← List.map_map, hy, List.map_map]
    rw [← hA, ← hB]
    rw [← exists_zip_ne_iff _ _ (by simp)]
    constructor
    · rintro ⟨p, hp, hne⟩
      refine ⟨(v p.2.1, v p.2.2), ?_, hne⟩
      rw [List.zip_map']
      exact List.mem_map.mpr ⟨p, hp, rfl⟩
    · rintro ⟨q, hq, hne⟩
      rw [List.zip_map'] at hq
      obtain ⟨p, hp, rfl⟩ := List.mem_map.mp hq
      exact ⟨p, hp, hne⟩

end Cirbo
