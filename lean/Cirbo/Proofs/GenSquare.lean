import Cirbo.Proofs.GenKara
/-!
# Squarers (`add_square_pow2_m1`, `add_square`)
-/
namespace Cirbo
open GateType

theorem sem_progFold_range' {σ : Type} {v : Label → Bool} {f : σ → Nat → Prog σ} (P : Nat → σ → Prop) :
    ∀ (len a : Nat) (s out : σ), P a s →
    (∀ i s s', a ≤ i → i < a + len → P i s → Sem (f s i) v s' → P (i + 1) s') →
    Sem (progFold (List.range' a len) s f) v out → P (a + len) out := by
  intro len
  induction len with
  | zero => intro a s out h0 _ h; simp only [List.range'_zero, progFold, sem_pure] at h; subst h; exact h0
  | succ len ih =>
    intro a s out h0 hstep h
    simp only [List.range'_succ, progFold, sem_bind] at h
    obtain ⟨s1, h1, h2⟩ := h
    have := ih (a + 1) s1 out (hstep a s s1 (Nat.le_refl _) (by omega) h0 h1)
      (fun i s s' hi1 hi2 hp hs => hstep i s s' (by omega) (by omega) hp hs) h2
    rw [show a + (len + 1) = a + 1 + len by omega]; exact this

def entry (c : List (List Label)) (a b : Nat) : Label := (c.getD a []).getD b PH

theorem entry_set (c : List (List Label)) (i j : Nat) (g : Label) (hi : i < c.length) (hj : j < (c.getD i []).length) (a b : Nat) :
    entry (c.set i ((c.getD i []).set j g)) a b = if a = i ∧ b = j then g else entry c a b := by
  unfold entry
  simp only [List.getD_eq_getElem?_getD, List.getElem?_set]
  by_cases ha : i = a
  · subst ha
    simp only [hi, if_true, Option.getD_some, true_and, List.getElem?_set]
    by_cases hb : j = b
    · subst hb
      simp only [List.getD_eq_getElem?_getD] at hj
      simp [hj]
    · rw [if_neg hb, if_neg (fun h => hb h.symm)]
  · rw [if_neg ha, if_neg (fun h => ha h.1.symm)]

structure MatOK (v : Label → Bool) (x : List Label) (c : List (List Label)) (S : Nat → Nat → Prop) : Prop where
  len : c.length = x.length
  rows : ∀ r ∈ c, r.length = x.length
  ok : ∀ a b, S a b → bv v (entry c a b) = bv v (x.getD a PH) * bv v (x.getD b PH)

theorem getD_mem_len {c : List (List Label)} {n : Nat} (h : ∀ r ∈ c, r.length = n) {i : Nat} (hi : i < c.length) :
    (c.getD i []).length = n := by
  apply h
  rw [List.getD_eq_getElem?_getD, List.getElem?_eq_getElem hi]
  exact List.getElem_mem _

theorem matOK_step {v : Label → Bool} {x : List Label} {c c' : List (List Label)} {S : Nat → Nat → Prop} {i j : Nat}
    (hm : MatOK v x c S) (hi : i < x.length) (hj : j < x.length)
    (h : Sem (do let g ← emitTT (x.getD i PH) (x.getD j PH) t0001; pure (c.set i ((c.getD i []).set j g))) v c') :
    MatOK v x c' (fun a b => S a b ∨ (a = i ∧ b = j)) := by
  simp only [sem_bind, sem_pure] at h
  obtain ⟨g, hg, rfl⟩ := h
  have hil : i < c.length := by rw [hm.len]; exact hi
  have hrl := getD_mem_len hm.rows hil
  refine ⟨by simp [hm.len], ?_, ?_⟩
  · intro r hr
    rcases List.mem_or_eq_of_mem_set hr with h1 | h1
    · exact hm.rows r h1
    · rw [h1, List.length_set, hrl]
  · intro a b hab
    rw [entry_set c i j g hil (by rw [hrl]; exact hj)]
    by_cases he : a = i ∧ b = j
    · rw [if_pos he, he.1, he.2]
      simp only [bv, sem_emitTT hg]
      cases v (x.getD i PH) <;> cases v (x.getD j PH) <;> rfl
    · rw [if_neg he]
      rcases hab with h1 | h1
      · exact hm.ok a b h1
      · exact absurd h1 he

/-- the upper triangle `c[i][j] = AND(x[i], x[j])`, `i < j`, after the two nested loops -/
theorem sem_triangle {v : Label → Bool} {x : List Label} {c : List (List Label)}
    (h : Sem (progFold (List.range x.length) (List.replicate x.length (List.replicate x.length PH)) (fun c i =>
      progFold ((List.range x.length).drop (i + 1)) c (fun c j => do
        let g ← emitTT (x.getD i PH) (x.getD j PH) t0001
        pure (c.set i ((c.getD i []).set j g))))) v c) :
    MatOK v x c (fun a b => a < b ∧ b < x.length) := by
  rw [List.range_eq_range'] at h
  have := sem_progFold_range' (v := v) (fun i c => MatOK v x c (fun a b => a < b ∧ b < x.length ∧ a < i)) x.length 0 _ c
    ⟨by simp, by intro r hr; rw [List.eq_of_mem_replicate hr]; simp, by intro a b hab; omega⟩ ?_ h
  · refine ⟨this.len, this.rows, fun a b hab => this.ok a b ⟨hab.1, hab.2, by omega⟩⟩
  · intro i c1 c2 _ hi hP hs
    rw [← List.range_eq_range', List.range_eq_range', List.drop_range'] at hs
    simp only [Nat.zero_add, Nat.one_mul, Nat.mul_one] at hs hi
    have := sem_progFold_range' (v := v)
      (fun j c => MatOK v x c (fun a b => a < b ∧ b < x.length ∧ (a < i ∨ (a = i ∧ b < j)))) (x.length - (i + 1)) (i + 1) c1 c2
      ⟨hP.len, hP.rows, fun a b hab => hP.ok a b ⟨hab.1, hab.2.1, by omega⟩⟩ ?_ hs
    · refine ⟨this.len, this.rows, fun a b hab => this.ok a b ⟨hab.1, hab.2.1, by omega⟩⟩
    · intro j c3 c4 hj1 hj2 hP2 hs2
      have := matOK_step hP2 hi (by omega) hs2
      refine ⟨this.len, this.rows, fun a b hab => this.ok a b ?_⟩
      by_cases he : a = i ∧ b = j
      · exact Or.inr he
      · exact Or.inl ⟨hab.1, hab.2.1, by omega⟩

/-- putting `x[i]` on the diagonal -/
theorem entry_diag (x : List Label) (c : List (List Label)) (hl : c.length = x.length) (hr : ∀ r ∈ c, r.length = x.length)
    (a b : Nat) (ha : a < x.length) (hb : b < x.length) :
    entry (c.zipIdx.map (fun (ri : List Label × Nat) => ri.1.set ri.2 (x.getD ri.2 PH))) a b =
      if a = b then x.getD a PH else entry c a b := by
  unfold entry
  have hrow : (c.zipIdx.map (fun (ri : List Label × Nat) => ri.1.set ri.2 (x.getD ri.2 PH))).getD a [] =
      (c.getD a []).set a (x.getD a PH) := by
    simp only [List.getD_eq_getElem?_getD, List.getElem?_map, List.getElem?_zipIdx]
    rw [List.getElem?_eq_getElem (by omega)]
    simp
  rw [hrow]
  have hlen := getD_mem_len hr (show a < c.length by omega)
  simp only [List.getD_eq_getElem?_getD, List.getElem?_set] at hlen ⊢
  by_cases hab : a = b
  · subst hab; simp [hlen, ha]
  · rw [if_neg hab, if_neg hab]

/-! ## the square as a sum over anti-diagonals -/

theorem sumR_even (n : Nat) (F : Nat → Nat) :
    sumR (2 * n) (fun w => if w % 2 = 0 then F (w / 2) else 0) = sumR n F := by
  induction n with
  | zero => rfl
  | succ n ih =>
    rw [show 2 * (n + 1) = 2 * n + 1 + 1 by omega, sumR_succ, sumR_succ, ih, sumR_succ]
    rw [if_pos (by omega), if_neg (by omega), show 2 * n / 2 = n by omega]; rfl

theorem sumR_single (N i : Nat) (hi : i < N) (F : Nat → Nat) : sumR N (fun k => if i = k then F k else 0) = F i := by
  induction N with
  | zero => omega
  | succ N ih =>
    rw [sumR_succ]
    by_cases h : i = N
    · subst h
      rw [if_pos rfl]
      have : sumR i (fun k => if i = k then F k else 0) = sumR i (fun _ => 0) :=
        sumR_congr (fun k hk => by rw [if_neg (by omega)])
      rw [this, sumR_const_zero]; omega
    · rw [ih (by omega), if_neg h]; rfl

theorem sumR_mul_right (N : Nat) (c : Nat) (f : Nat → Nat) : sumR N (fun i => f i * c) = sumR N f * c := by
  rw [Nat.mul_comm, ← sumR_mul]; exact sumR_congr (fun i _ => Nat.mul_comm _ _)

theorem sumR_restrict (n m : Nat) (h : m ≤ n) (F : Nat → Nat) :
    sumR m F = sumR n (fun j => if j < m then F j else 0) := by
  obtain ⟨d, rfl⟩ := Nat.exists_eq_add_of_le h
  rw [sumR_zero_ext (fun j hj => by rw [if_neg (by omega)]) d]
  exact sumR_congr (fun j hj => by rw [if_pos hj])

theorem square_sum (b : Nat → Nat) (hb : ∀ i, b i * b i = b i) (n : Nat) :
    sumR (2 * n) (fun w => 2 ^ w * (sumR (w / 2) (fun j => if j < n ∧ w - j - 1 < n then b j * b (w - j - 1) else 0) +
      (if w % 2 = 0 then b (w / 2) else 0))) = sumR n (fun i => 2 ^ i * b i) * sumR n (fun i => 2 ^ i * b i) := by
  let s : Nat → Nat → Nat := fun i k => 2 ^ i * b i * (2 ^ k * b k)
  -- the right-hand side as a double sum, split by the order of the indices
  have hR : sumR n (fun i => 2 ^ i * b i) * sumR n (fun i => 2 ^ i * b i) =
      2 * sumR n (fun i => sumR n (fun k => if i < k then s i k else 0)) + sumR n (fun i => s i i) := by
    rw [← sumR_mul_right]
    have e1 : ∀ i, 2 ^ i * b i * sumR n (fun k => 2 ^ k * b k) = sumR n (fun k => s i k) := fun i => (sumR_mul _ _ _).symm
    rw [sumR_congr (fun i _ => e1 i)]
    have e2 : ∀ i, i < n → sumR n (fun k => s i k) =
        sumR n (fun k => if i < k then s i k else 0) + (sumR n (fun k => if i = k then s i k else 0) + sumR n (fun k => if k < i then s i k else 0)) := by
      intro i _
      rw [← sumR_add, ← sumR_add]
      apply sumR_congr; intro k _
      rcases Nat.lt_trichotomy i k with h | h | h
      · rw [if_pos h, if_neg (by omega), if_neg (by omega)]; omega
      · rw [if_neg (by omega), if_pos h, if_neg (by omega)]; omega
      · rw [if_neg (by omega), if_neg (by omega), if_pos h]; omega
    rw [sumR_congr e2, sumR_add, sumR_add]
    have e3 : sumR n (fun i => sumR n (fun k => if k < i then s i k else 0)) =
        sumR n (fun i => sumR n (fun k => if i < k then s i k else 0)) := by
      rw [sumR_swap n n (fun k i => if k < i then s i k else 0)]
      apply sumR_congr; intro i _
      apply sumR_congr; intro k _
      split
      · simp only [s]; rw [Nat.mul_comm]
      · rfl
    have e4 : sumR n (fun i => sumR n (fun k => if i = k then s i k else 0)) = sumR n (fun i => s i i) :=
      sumR_congr (fun i hi => sumR_single n i hi (fun k => s i k))
    rw [e3, e4]; omega
  rw [hR]
  -- the left-hand side
  have hL : ∀ w, w < 2 * n → 2 ^ w * (sumR (w / 2) (fun j => if j < n ∧ w - j - 1 < n then b j * b (w - j - 1) else 0) +
      (if w % 2 = 0 then b (w / 2) else 0)) =
      sumR n (fun j => if j + 1 ≤ w then (if j < w - (j + 1) ∧ w - (j + 1) < n then 2 * s j (w - (j + 1)) else 0) else 0) +
        (if w % 2 = 0 then 2 ^ w * b (w / 2) else 0) := by
    intro w hw
    rw [Nat.mul_add]
    congr 1
    · rw [sumR_restrict n (w / 2) (by omega), ← sumR_mul]
      apply sumR_congr; intro j hj
      by_cases h1 : j < w / 2
      · have h3 : j + 1 ≤ w := by omega
        rw [if_pos h1, if_pos h3]
        by_cases h2 : w - j - 1 < n
        · rw [if_pos ⟨hj, h2⟩, if_pos (⟨by omega, by omega⟩ : j < w - (j + 1) ∧ w - (j + 1) < n)]
          simp only [s]
          rw [show w - (j + 1) = w - j - 1 by omega]
          have : 2 ^ w = 2 * (2 ^ j * 2 ^ (w - j - 1)) := by
            rw [← Nat.pow_add, ← Nat.pow_succ']; congr 1; omega
          rw [this]
          generalize b j = p; generalize b (w - j - 1) = q; generalize 2 ^ j = A; generalize 2 ^ (w - j - 1) = B
          rw [Nat.mul_assoc 2 (A * B) (p * q)]
          congr 1
          rw [Nat.mul_assoc, Nat.mul_assoc, Nat.mul_left_comm B p q]
        · rw [if_neg (fun h => h2 h.2), if_neg (fun h => h2 (by omega)), Nat.mul_zero]
      · rw [if_neg h1, Nat.mul_zero]
        by_cases h3 : j + 1 ≤ w
        · rw [if_pos h3, if_neg (by omega)]
        · rw [if_neg h3]
    · split <;> simp
  rw [sumR_congr hL, sumR_add]
  congr 1
  · rw [sumR_swap (2 * n) n (fun j w => if j + 1 ≤ w then (if j < w - (j + 1) ∧ w - (j + 1) < n then 2 * s j (w - (j + 1)) else 0) else 0)]
    rw [← sumR_mul]
    apply sumR_congr; intro j hj
    rw [show 2 * n = (j + 1) + (2 * n - (j + 1)) by omega,
      sumR_shift (j + 1) (2 * n - (j + 1)) (fun k => if j < k ∧ k < n then 2 * s j k else 0)]
    obtain ⟨d, hd⟩ := Nat.exists_eq_add_of_le (show n ≤ 2 * n - (j + 1) by omega)
    rw [hd, sumR_zero_ext (fun k hk => by rw [if_neg (by omega)]) d, ← sumR_mul]
    apply sumR_congr; intro k hk
    by_cases h : j < k
    · rw [if_pos ⟨h, hk⟩, if_pos h]
    · rw [if_neg (fun h' => h h'.1), if_neg h]
  · rw [← sumR_even n (fun k => s k k)]
    apply sumR_congr; intro w _
    split
    · rename_i he
      simp only [s]
      have : 2 ^ w = 2 ^ (w / 2) * 2 ^ (w / 2) := by rw [← Nat.pow_add]; congr 1; omega
      rw [this]
      have hbb := hb (w / 2)
      generalize b (w / 2) = p at *
      generalize 2 ^ (w / 2) = A
      rw [Nat.mul_assoc A p, Nat.mul_left_comm p A p, hbb, Nat.mul_assoc]
    · rfl

def sqOwn (c : List (List Label)) (n : Nat) (i : Nat) : List Label :=
  (((List.range (i / 2)).filter (fun j => j < n && i - j - 1 < n)).map (fun j => (c.getD j []).getD (i - j - 1) PH)) ++
    (if i % 2 == 0 then [(c.getD (i / 2) []).getD (i / 2) PH] else [])

theorem cnt_sqOwn (v : Label → Bool) (x : List Label) (c : List (List Label))
    (hE : ∀ a b, a < x.length → b < x.length → a ≤ b →
      bv v (entry c a b) = if a = b then bv v (x.getD a PH) else bv v (x.getD a PH) * bv v (x.getD b PH))
    (w : Nat) (hw : w < 2 * x.length) :
    cnt v (sqOwn c x.length w) =
      sumR (w / 2) (fun j => if j < x.length ∧ w - j - 1 < x.length then bv v (x.getD j PH) * bv v (x.getD (w - j - 1) PH) else 0) +
        (if w % 2 = 0 then bv v (x.getD (w / 2) PH) else 0) := by
  unfold sqOwn
  rw [cnt_append, cnt_filter_map]
  congr 1
  · change sumR (w / 2) _ = _
    apply sumR_congr; intro j hj
    simp only [Bool.and_eq_true, decide_eq_true_eq]
    by_cases h : j < x.length ∧ w - j - 1 < x.length
    · rw [if_pos h, if_pos h]
      have := hE j (w - j - 1) h.1 h.2 (by omega)
      rw [if_neg (by omega)] at this
      exact this
    · rw [if_neg h, if_neg h]
  · by_cases h : w % 2 = 0
    · have hb : (w % 2 == 0) = true := by simpa using h
      rw [hb, if_pos rfl, if_pos h, cnt_cons, cnt_nil, Nat.add_zero]
      have := hE (w / 2) (w / 2) (by omega) (by omega) (Nat.le_refl _)
      rw [if_pos rfl] at this
      exact this
    · have hb : (w % 2 == 0) = false := by simpa using h
      rw [hb, if_neg h]; rfl

theorem sumR_split (s N : Nat) (F : Nat → Nat) : sumR (s + N) F = sumR s F + sumR N (fun w => F (s + w)) := by
  induction N with
  | zero => simp [sumR_zero]
  | succ N ih => rw [← Nat.add_assoc, sumR_succ, ih, sumR_succ]; omega

theorem wcnt_range'_gen (v : Label → Bool) (own : Nat → List Label) (s N : Nat) :
    wcnt v own (List.range' s N) = sumR N (fun w => 2 ^ (s + w) * cnt v (own (s + w))) := by
  simp only [wcnt, sumR, List.range'_eq_map_range, List.map_map, Function.comp_def]

theorem bv_sq (v : Label → Bool) (l : Label) : bv v l * bv v l = bv v l := by
  unfold bv; cases v l <;> rfl

/-- **`add_square_pow2_m1`** on a little-endian operand: the result is `x²` on `2n` bits -/
theorem sem_squarePow2M1Core {v : Label → Bool} {x out : List Label} (h : Sem (squarePow2M1Core x) v out) :
    valLE v out = valLE v x * valLE v x ∧ out.length = (if x.length = 1 then 1 else 2 * x.length) := by
  unfold squarePow2M1Core at h
  split at h
  · exact absurd h sem_fail
  · rename_i x0
    rw [sem_pure] at h; subst h
    simp [valLE, bv_sq]
  · rename_i x0 xr hns
    have hn2 : 2 ≤ (x0 :: xr).length := by
      cases xr with
      | nil => exact absurd rfl hns
      | cons _ _ => simp
    generalize hx : x0 :: xr = x at *
    simp only [sem_bind] at h
    obtain ⟨c, hc, zero, hz, cols, hcols, hf⟩ := h
    have hM := sem_triangle hc
    have hzv : v zero = false := by rw [sem_emitTT hz]; cases v x0 <;> rfl
    generalize hc' : c.zipIdx.map (fun (ri : List Label × Nat) => ri.1.set ri.2 (x.getD ri.2 PH)) = c' at *
    have hE : ∀ a b, a < x.length → b < x.length → a ≤ b →
        bv v (entry c' a b) = if a = b then bv v (x.getD a PH) else bv v (x.getD a PH) * bv v (x.getD b PH) := by
      intro a b ha hb hab
      rw [← hc', entry_diag x c hM.len hM.rows a b ha hb]
      by_cases he : a = b
      · rw [if_pos he, if_pos he]
      · rw [if_neg he, if_neg he]; exact hM.ok a b ⟨by omega, hb⟩
    have hcols' : Sem (pow2Columns (sqOwn c' x.length) (.enum .xaig) ((List.range (2 * x.length)).drop 2) [[[x0]], [[zero]]]) v cols := hcols
    have hidx : (List.range (2 * x.length)).drop 2 = List.range' 2 (2 * x.length - 2) := by
      rw [List.range_eq_range', List.drop_range']
    rw [hidx] at hcols'
    obtain ⟨l1, _, l3⟩ := sem_pow2Columns _ _ _ 2 (by simp) (by simp) (by
      intro o ho
      simp only [List.mem_cons, List.not_mem_nil, or_false] at ho
      rcases ho with rfl | rfl
      · exact ⟨x0, [], rfl⟩
      · exact ⟨zero, [], rfl⟩) hcols'
    obtain ⟨f1, f2⟩ := sem_firstBits hf
    simp only [List.length_range'] at l1 l3
    have hN1 : 2 + (2 * x.length - 2) = 2 * x.length := by omega
    rw [hN1] at l1 l3
    -- the whole sum of the operand columns is the square
    have htot : sumR (2 * x.length) (fun w => 2 ^ w * cnt v (sqOwn c' x.length w)) = valLE v x * valLE v x := by
      rw [sumR_congr (fun w hw => by rw [cnt_sqOwn v x c' hE w hw]), square_sum _ (fun i => bv_sq v _), ← valLE_sumR]
    rw [← hN1, sumR_split, ← wcnt_range'_gen] at htot
    have h0 := cnt_sqOwn v x c' hE 0 (by omega)
    have h1 := cnt_sqOwn v x c' hE 1 (by omega)
    rw [show 1 / 2 = 0 from rfl, show 1 % 2 = 1 from rfl, sumR_zero, if_neg (by omega)] at h1
    have hx0 : x.getD 0 PH = x0 := by rw [← hx]; rfl
    simp only [sumR_succ, sumR_zero, Nat.zero_div, Nat.zero_mod, if_true, hx0, Nat.zero_add, Nat.pow_zero, Nat.one_mul,
      Nat.pow_one] at htot h0 h1
    rw [h0, h1] at htot
    simp only [headsVal, headBit, hiSum, List.zipIdx_cons, List.zipIdx_nil, List.map_cons, List.map_nil, List.sum_cons,
      List.sum_nil, Nat.sub_zero, List.drop_one, List.tail_cons, colsVal, Nat.mul_zero, Nat.add_zero, Nat.zero_add,
      List.drop_succ_cons, List.drop_nil, bv, hzv, Bool.toNat_false] at l3
    have hlt := valLE_lt v out
    rw [f1, l1] at hlt
    have hprod := valLE_mul_lt v x x
    rw [show x.length + x.length = 2 * x.length by omega] at hprod
    refine ⟨?_, by rw [f1, l1, if_neg (by omega)]⟩
    rw [← f2] at l3
    generalize (List.map (fun p => colsVal v (List.drop (2 * x.length - p.2) p.1)) cols.zipIdx).sum = K at l3
    simp only [bv] at htot
    cases K with
    | zero => omega
    | succ K =>
      exfalso
      have : 2 ^ (2 * x.length) ≤ 2 ^ (2 * x.length) * (K + 1) := Nat.le_mul_of_pos_right _ (by omega)
      omega

theorem square_split (A B M : Nat) : A * A + 2 ^ (M + 1) * (A * B) + 2 ^ (2 * M) * (B * B) = (A + 2 ^ M * B) * (A + 2 ^ M * B) := by
  have e2 : 2 ^ (2 * M) = 2 ^ M * 2 ^ M := by rw [Nat.two_mul, Nat.pow_add]
  rw [e2, Nat.pow_succ]
  generalize 2 ^ M = T
  rw [Nat.add_mul, Nat.mul_add, Nat.mul_add]
  have a1 : A * (T * B) = T * (A * B) := Nat.mul_left_comm _ _ _
  have a2 : T * B * A = T * (A * B) := by rw [Nat.mul_assoc, Nat.mul_comm B A]
  have a3 : T * B * (T * B) = T * T * (B * B) := by
    rw [Nat.mul_assoc, Nat.mul_left_comm B, ← Nat.mul_assoc]
  have a4 : T * 2 * (A * B) = 2 * (T * (A * B)) := by rw [Nat.mul_comm T 2, Nat.mul_assoc]
  rw [a1, a2, a3, a4]
  omega

/-- **`add_square`** (recursive splitting above 48 bits, `add_square_pow2_m1` below): `x²` on `2n` bits -/
theorem sem_squareCore {v : Label → Bool} : ∀ (fuel : Nat) (x out : List Label), Sem (squareCore fuel x) v out →
    valLE v out = valLE v x * valLE v x ∧ out.length = (if x.length = 1 then 1 else 2 * x.length) := by
  intro fuel
  induction fuel with
  | zero => intro x out h; exact absurd h sem_fail
  | succ fuel ih =>
    intro x out h
    unfold squareCore at h
    simp only [] at h
    split at h
    · exact sem_squarePow2M1Core h
    · rename_i hbig
      simp only [Bool.or_eq_true, decide_eq_true_eq, beq_iff_eq, not_or] at hbig
      have hn : 48 ≤ x.length := by omega
      simp only [sem_bind, sem_pure] at h
      obtain ⟨aa, haa, bb, hbb, ab, hab, res, hres, fin, hfin, rfl⟩ := h
      generalize hmid : x.length / 2 = mid at *
      obtain ⟨vaa, laa⟩ := ih _ _ haa
      obtain ⟨vbb, lbb⟩ := ih _ _ hbb
      obtain ⟨vab, lab⟩ := sem_addMulKaratsuba hab (by simp; omega)
      have vres := sem_addSumTwoNumbersWithShift hres
      have lres := sem_withShift_length hres
      have vfin := sem_addSumTwoNumbersWithShift hfin
      have lfin := sem_withShift_length hfin
      simp only [revIf, Bool.false_eq_true, if_false, List.length_take, List.length_drop] at vab lab vres vfin laa lbb
      have hmin : min mid x.length = mid := by omega
      rw [hmin] at laa lab
      rw [if_neg (by omega)] at laa lbb
      have hsp : (mid == 1 || x.length - mid == 1) = false := by
        simp only [Bool.or_eq_false_iff, beq_eq_false_iff_ne]; omega
      rw [hsp] at lab
      simp only [Bool.false_eq_true, if_false, Nat.sub_zero] at lab
      have hsplit : valLE v x = valLE v (x.take mid) + 2 ^ mid * valLE v (x.drop mid) := by
        conv => lhs; rw [← List.take_append_drop mid x, valLE_append]
        rw [List.length_take, hmin]
      have hfinv : valLE v fin = valLE v x * valLE v x := by
        rw [vfin, vres, vaa, vab, vbb, hsplit, square_split]
      have hprod := valLE_mul_lt v x x
      rw [show x.length + x.length = 2 * x.length by omega] at hprod
      refine ⟨by rw [valLE_take_of_lt v fin _ (by rw [hfinv]; exact hprod), hfinv], ?_⟩
      rw [List.length_take, if_neg (by omega)]
      rw [if_neg (by omega), laa, lab] at lres
      rw [if_neg (by omega), lbb] at lfin
      omega

theorem sem_addSquare {v : Label → Bool} {x out : List Label} {be : Bool} (h : Sem (addSquare x be) v out) :
    valLE v (revIf out be) = valLE v (revIf x be) * valLE v (revIf x be) ∧
      out.length = (if x.length = 1 then 1 else 2 * x.length) := by
  simp only [addSquare, sem_bind, sem_pure] at h
  obtain ⟨r, hr, rfl⟩ := h
  obtain ⟨h1, h2⟩ := sem_squareCore _ _ _ hr
  simp only [length_revIf'] at h2
  exact ⟨by rw [revIf_revIf, h1], by rw [length_revIf', h2]⟩

theorem sem_addSquarePow2M1 {v : Label → Bool} {x out : List Label} {be : Bool} (h : Sem (addSquarePow2M1 x be) v out) :
    valLE v (revIf out be) = valLE v (revIf x be) * valLE v (revIf x be) ∧
      out.length = (if x.length = 1 then 1 else 2 * x.length) := by
  simp only [addSquarePow2M1, sem_bind, sem_pure] at h
  obtain ⟨r, hr, rfl⟩ := h
  obtain ⟨h1, h2⟩ := sem_squarePow2M1Core hr
  simp only [length_revIf'] at h2
  exact ⟨by rw [revIf_revIf, h1], by rw [length_revIf', h2]⟩

end Cirbo
