import Cirbo.Proofs.ReplaceA
/-!
# `replace_subcircuit` keeps the C02 invariant — part B: re-insertion and the final state
-/
namespace Cirbo
open GateType Circuit

def addStepR (sub : Circuit) (imV : List Label) : R Circuit → Label → R Circuit := fun acc l => match acc with
  | .error e => .error e
  | .ok cc => if imV.contains l then .ok cc else
    match sub.find? l with
    | none => .error "GateDoesntExistError"
    | some g => cc.addGate g

theorem addStepR_error (sub : Circuit) (imV : List Label) (e : String) : ∀ (ls : List Label),
    ls.foldl (addStepR sub imV) (.error e) = .error e := by
  intro ls; induction ls with
  | nil => rfl
  | cons a t ih => simpa [addStepR] using ih

/-- the state while the replacement's gates are added to what is left of the circuit -/
structure AInv (c3 cc sub : Circuit) (imV : List Label) (added : List Gate) (seen : List Label) : Prop where
  gates : cc.gates = c3.gates ++ added
  inputs : cc.inputs = c3.inputs
  outputs : cc.outputs = c3.outputs
  blocks : cc.blocks = c3.blocks
  users : ∀ l u, (cc.usersOf l).count u = (c3.usersOf l).count u + contrib added l u
  nodup : cc.labels.Nodup
  closed : ∀ g ∈ added, ∀ o ∈ g.ops, o ∈ cc.labels
  noInput : ∀ g ∈ added, g.ty ≠ INPUT
  fromSub : ∀ g ∈ added, g ∈ sub.gates ∧ imV.contains g.label = false
  cover : ∀ l ∈ seen, imV.contains l = false → l ∈ added.map (·.label)

theorem ainv_init {c3 : Circuit} (sub : Circuit) (imV : List Label) (hnd : c3.labels.Nodup) : AInv c3 c3 sub imV [] [] :=
  ⟨(by simp), rfl, rfl, rfl, (by intro l u; simp [contrib_nil]), hnd, (by intro g hg; cases hg),
   (by intro g hg; cases hg), (by intro g hg; cases hg), (by intro l hl; cases hl)⟩

theorem labels_append_gates {c c' : Circuit} {G : List Gate} (h : c'.gates = c.gates ++ G) :
    c'.labels = c.labels ++ G.map (·.label) := by
  unfold Circuit.labels; rw [h, List.map_append]

theorem addStepR_inv {c3 sub : Circuit} {imV : List Label}
    (hsubI : ∀ g ∈ sub.gates, g.ty = INPUT → imV.contains g.label = true) :
    ∀ (ls seen : List Label) (cc c4 : Circuit) (added : List Gate), AInv c3 cc sub imV added seen →
      ls.foldl (addStepR sub imV) (.ok cc) = .ok c4 → ∃ added', AInv c3 c4 sub imV added' (seen ++ ls) := by
  intro ls
  induction ls with
  | nil => intro seen cc c4 added inv h; simp at h; subst h; exact ⟨added, by simpa using inv⟩
  | cons l t ih =>
    intro seen cc c4 added inv h
    simp only [List.foldl_cons] at h
    cases hs : addStepR sub imV (.ok cc) l with
    | error e => rw [hs, addStepR_error] at h; cases h
    | ok c1 =>
      rw [hs] at h
      have hassoc : seen ++ l :: t = (seen ++ [l]) ++ t := by simp
      rw [hassoc]
      unfold addStepR at hs
      simp only at hs
      by_cases him : imV.contains l = true
      · simp only [him, if_true, Except.ok.injEq] at hs
        subst hs
        refine ih (seen ++ [l]) cc c4 added ⟨inv.gates, inv.inputs, inv.outputs, inv.blocks, inv.users, inv.nodup,
          inv.closed, inv.noInput, inv.fromSub, ?_⟩ h
        intro x hx hxi
        rcases List.mem_append.mp hx with hx | hx
        · exact inv.cover x hx hxi
        · simp only [List.mem_singleton] at hx; subst hx; rw [him] at hxi; cases hxi
      · simp only [him, Bool.false_eq_true, if_false] at hs
        cases hf : sub.find? l with
        | none => simp [hf] at hs
        | some g =>
          simp only [hf] at hs
          obtain ⟨hgm, hgl⟩ := find_some_mem hf
          obtain ⟨hfresh, hops, fg, fi, fo, fb, fu⟩ := addGate_fields hs
          have hni : g.ty ≠ INPUT := by
            intro hty
            have := hsubI g hgm hty
            rw [hgl] at this; exact him this
          have hlab1 : c1.labels = cc.labels ++ [g.label] := by
            rw [labels_append_gates fg]; rfl
          refine ih (seen ++ [l]) c1 c4 (added ++ [g]) ⟨?_, ?_, ?_, ?_, ?_, ?_, ?_, ?_, ?_, ?_⟩ h
          · rw [fg, inv.gates, List.append_assoc]
          · rw [fi, inv.inputs]; simp [hni]
          · rw [fo, inv.outputs]
          · rw [fb, inv.blocks]
          · intro x u
            rw [fu x, List.count_append, inv.users x u, contrib_append, contrib_single, List.count_replicate]
            by_cases hu : g.label = u
            · simp [hu]; omega
            · have : (g.label == u) = false := by simp [hu]
              simp [hu, this]
          · rw [hlab1, List.nodup_append]
            exact ⟨inv.nodup, by simp, by
              intro a ha b hb; simp at hb; subst hb; exact fun e => hfresh (e ▸ ha)⟩
          · intro g' hg' o ho
            rw [hlab1]
            rcases List.mem_append.mp hg' with hg' | hg'
            · exact List.mem_append_left _ (inv.closed g' hg' o ho)
            · simp only [List.mem_singleton] at hg'; subst hg'
              exact List.mem_append_left _ (hops o ho)
          · intro g' hg'
            rcases List.mem_append.mp hg' with hg' | hg'
            · exact inv.noInput g' hg'
            · simp only [List.mem_singleton] at hg'; subst hg'; exact hni
          · intro g' hg'
            rcases List.mem_append.mp hg' with hg' | hg'
            · exact inv.fromSub g' hg'
            · simp only [List.mem_singleton] at hg'; subst hg'
              exact ⟨hgm, by rw [hgl]; simpa using him⟩
          · intro x hx hxi
            rw [List.map_append]
            rcases List.mem_append.mp hx with hx | hx
            · exact List.mem_append_left _ (inv.cover x hx hxi)
            · simp only [List.mem_singleton] at hx; subst hx
              rw [← hgl]; simp

theorem count_filter_notin (S : List Label) (us : List Label) (u : Label) :
    (us.filter (fun x => !S.contains x)).count u = if S.contains u then 0 else us.count u := by
  induction us with
  | nil => simp
  | cons a r ih =>
    simp only [List.filter_cons]
    by_cases ha : a ∈ S
    · have hac : S.contains a = true := by simpa using ha
      simp only [hac, Bool.not_true, Bool.false_eq_true, if_false, ih, List.count_cons]
      by_cases hu : u ∈ S
      · simp [hu]
      · have : (a == u) = false := by
          cases hau : (a == u) with
          | false => rfl
          | true => exfalso; have e : a = u := by simpa using hau
                    exact hu (e ▸ ha)
        simp [hu, this]
    · have hac : S.contains a = false := by simpa using ha
      simp only [hac, Bool.not_false, if_true, List.count_cons, ih]
      by_cases hu : u ∈ S
      · have : (a == u) = false := by
          cases hau : (a == u) with
          | false => rfl
          | true => exfalso; have e : a = u := by simpa using hau
                    exact ha (e ▸ hu)
        simp [hu, this]
      · simp [hu]

/-- **the heart of `replace_subcircuit`**: after the slice `S` has been removed (`RBInv`), the
replacement's gates added, the outputs restored and the outside users of the slice outputs written
back, a silent whole-graph cycle check leaves a well-formed circuit -/
theorem replace_core {c2 c3 c4 c6 sub : Circuit} {S imV omV order : List Label}
    (hw : WFS c2) (inv : RBInv c2 c3 S)
    (homvND : omV.Nodup) (hSout : ∀ o ∈ omV, o ∈ S) (homvI : ∀ o ∈ omV, imV.contains o = false)
    (hno : ∀ g ∈ S, g ∈ omV ∨ ∀ u ∈ c2.usersOf g, u ∈ S)
    (houts : ∀ o ∈ c2.outputs, o ∈ S → o ∈ omV)
    (hsubO : ∀ o ∈ omV, o ∈ order)
    (hsubI : ∀ g ∈ sub.gates, g.ty = INPUT → imV.contains g.label = true)
    (hadd : order.foldl (addStepR sub imV) (.ok c3) = .ok c4)
    (hc6 : c6 = (omV.foldl (collectOuter c2 S) []).foldl addUsersStep { c4 with outputs := c2.outputs })
    (hcyc : hasCycleCheckFrom c6 (some c6.labels) = .ok false) : WFS c6 := by
  have hgm : ∀ g, g ∈ c3.gates ↔ g ∈ c2.gates ∧ g.label ∉ S := by
    intro g; rw [inv.gates, List.mem_filter]; simp
  have hlab : ∀ l, l ∈ c3.labels ↔ l ∈ c2.labels ∧ l ∉ S := by
    intro l
    unfold Circuit.labels
    simp only [List.mem_map]
    constructor
    · rintro ⟨g, hg, rfl⟩; exact ⟨⟨g, ((hgm g).mp hg).1, rfl⟩, ((hgm g).mp hg).2⟩
    · rintro ⟨⟨g, hg, rfl⟩, hn⟩; exact ⟨g, (hgm g).mpr ⟨hg, hn⟩, rfl⟩
  have hnd3 : c3.labels.Nodup := by
    unfold Circuit.labels; rw [inv.gates]
    exact (List.Nodup.sublist ((List.filter_sublist).map _) hw.nodup)
  obtain ⟨added, ainv⟩ := addStepR_inv hsubI order [] c3 c4 [] (ainv_init sub imV hnd3) hadd
  simp only [List.nil_append] at ainv
  obtain ⟨f1, f2, f3, f4, f5⟩ := addUsersFold_fields (omV.foldl (collectOuter c2 S) []) { c4 with outputs := c2.outputs }
  rw [← hc6] at f1 f2 f3 f4 f5
  simp only at f1 f2 f3 f4
  have hlab6 : c6.labels = c4.labels := by unfold Circuit.labels; rw [f1]
  have hlab4 : ∀ l, l ∈ c4.labels ↔ l ∈ c3.labels ∨ l ∈ added.map (·.label) := by
    intro l; rw [labels_append_gates ainv.gates, List.mem_append]
  -- the users written back
  obtain ⟨dnd, dget⟩ := collectOuter_spec c2 S omV [] (by simp)
  have hext : ∀ l, dictExt (omV.foldl (collectOuter c2 S) []) l =
      if l ∈ omV then (c2.usersOf l).filter (fun u => !S.contains u) else [] := by
    intro l
    rw [dictExt_of_nodup _ l dnd, dget l]
    simp only [Dict.get?, Option.getD_none, List.nil_append]
    exact flatMap_single (fun ol => (c2.usersOf ol).filter (fun u => !S.contains u)) l omV homvND
  have hu6 : ∀ l, c6.usersOf l = c4.usersOf l ++
      (if l ∈ omV then (c2.usersOf l).filter (fun u => !S.contains u) else []) := by
    intro l
    rw [f5 l, hext l]
    rfl
  -- slice outputs come back
  have hback : ∀ o ∈ omV, o ∈ c4.labels := fun o ho =>
    (hlab4 o).mpr (Or.inr (ainv.cover o (hsubO o ho) (homvI o ho)))
  have husers : ∀ l u, (c6.usersOf l).count u = contrib c6.gates l u := by
    intro l u
    rw [hu6 l, List.count_append, ainv.users l u, f1, ainv.gates, contrib_append, inv.users l u, inv.gates,
      contrib_filter_labels, ← users_count_of_wfs hw]
    by_cases hu : S.contains u = true
    · simp only [hu, Bool.or_true, if_true]
      split
      · rw [count_filter_notin]; simp only [hu, if_true]; omega
      · simp
    · have hu' : S.contains u = false := by simpa using hu
      simp only [hu', Bool.or_false, Bool.false_eq_true, if_false]
      by_cases hl : S.contains l = true
      · simp only [hl, if_true]
        have hlS : l ∈ S := by simpa using hl
        by_cases hlo : l ∈ omV
        · simp only [hlo, if_true, count_filter_notin, hu', Bool.false_eq_true, if_false]
          omega
        · simp only [hlo, if_false, List.count_nil]
          have : (c2.usersOf l).count u = 0 := by
            apply List.count_eq_zero.mpr
            intro hm
            rcases hno l hlS with h1 | h1
            · exact hlo h1
            · exact hu (by simpa using h1 u hm)
          omega
      · have hl' : S.contains l = false := by simpa using hl
        have hlo : l ∉ omV := fun hm => hl (by simpa using hSout l hm)
        simp only [hl', Bool.false_eq_true, if_false, hlo, List.count_nil]
        omega
  have hnd6 : c6.labels.Nodup := by rw [hlab6]; exact ainv.nodup
  obtain ⟨uL, uC⟩ := users_of_count hnd6 husers
  obtain ⟨r, hrk⟩ := cycleCheckAll_false hcyc
  have hold : ∀ l, l ∈ c2.labels → l ∉ S → l ∈ c6.labels := by
    intro l h1 h2; rw [hlab6, hlab4]; exact Or.inl ((hlab l).mpr ⟨h1, h2⟩)
  refine ⟨hnd6, ?_, ⟨r, ?_⟩, ?_, ?_, ?_, uL, uC, ?_, ?_⟩
  · -- closed
    intro g hg o ho
    rw [f1, ainv.gates] at hg
    rcases List.mem_append.mp hg with hg | hg
    · obtain ⟨h1, h2⟩ := (hgm g).mp hg
      by_cases hoS : o ∈ S
      · have huse : g.label ∈ c2.usersOf o := by
          have := hw.usersC o g h1
          have hpos : 0 < g.ops.count o := List.count_pos_iff.mpr ho
          exact List.count_pos_iff.mp (by omega)
        rcases hno o hoS with h3 | h3
        · rw [hlab6]; exact hback o h3
        · exact absurd (h3 _ huse) h2
      · exact hold o (hw.closed g h1 o ho) hoS
    · rw [hlab6]; exact ainv.closed g hg o ho
  · -- rank
    intro g hg o ho
    have := hrk g.label (mem_labels_of_mem hg) o (by rw [opsOf_gate hnd6 hg]; exact ho)
    exact this
  · rw [f2, ainv.inputs, inv.inputs]; exact hw.inputsNodup.filter _
  · intro l
    rw [f2, ainv.inputs, inv.inputs, List.mem_filter, f1, ainv.gates]
    constructor
    · rintro ⟨hl, hs⟩
      obtain ⟨g, hg, hgl, hty⟩ := (hw.inputsOK l).mp hl
      exact ⟨g, List.mem_append_left _ ((hgm g).mpr ⟨hg, by rw [hgl]; simpa using hs⟩), hgl, hty⟩
    · rintro ⟨g, hg, hgl, hty⟩
      rcases List.mem_append.mp hg with hg | hg
      · obtain ⟨h1, h2⟩ := (hgm g).mp hg
        exact ⟨(hw.inputsOK l).mpr ⟨g, h1, hgl, hty⟩, by rw [← hgl]; simpa using h2⟩
      · exact absurd hty (ainv.noInput g hg)
  · intro o ho
    rw [f3] at ho
    by_cases hoS : o ∈ S
    · rw [hlab6]; exact hback o (houts o ho hoS)
    · exact hold o (hw.outputsOK o ho) hoS
  · intro b hb
    rw [f4, ainv.blocks, inv.blocks, List.mem_filter] at hb
    obtain ⟨hb1, hb2⟩ := hb
    obtain ⟨h1, h2⟩ := hw.blocksOK b hb1
    have hnm : ∀ l ∈ S, ¬ (b.gates.contains l || b.inputs.contains l || b.outputs.contains l) = true := by
      intro l hl hm
      simp only [mentions, Bool.not_eq_true', List.any_eq_false] at hb2
      exact hb2 l hl hm
    constructor
    · intro l hl
      exact hold l (h1 l hl) (fun hs => hnm l hs (by simp [hl]))
    · intro l hl
      exact hold l (h2 l hl) (fun hs => hnm l hs (by simp [hl]))
  · intro g hg hty
    rw [f1, ainv.gates] at hg
    rcases List.mem_append.mp hg with hg | hg
    · exact hw.inputOps g ((hgm g).mp hg).1 hty
    · exact absurd hty (ainv.noInput g hg)

end Cirbo
