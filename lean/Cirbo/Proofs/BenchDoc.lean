import Cirbo.Proofs.Bench
import Cirbo.Proofs.Mutate
import Cirbo.Spec.WF
import Cirbo.Proofs.Graph
/-!
# Whole documents: `from_bench_string(format_circuit(c))` gives back `c` (C11)
-/
namespace Cirbo
open GateType Circuit

theorem splitLines_eq_go (s : Str) : splitLines s = splitLines.go [] s := by
  cases s with
  | nil => simp [splitLines, splitLines.go]
  | cons a r => simp [splitLines]

theorem go_line (a : Str) (h : '\n' ∉ a) : ∀ (cur rest : Str),
    splitLines.go cur (a ++ '\n' :: rest) = (cur.reverse ++ a ++ ['\n']) :: splitLines.go [] rest := by
  induction a with
  | nil => intro cur rest; simp [splitLines.go]
  | cons ch t ih =>
    intro cur rest
    simp only [List.mem_cons, not_or] at h
    have hne : ch ≠ '\n' := fun e => h.1 e.symm
    simp only [List.cons_append, splitLines.go, hne, if_false]
    rw [ih h.2]
    simp

theorem go_last (a : Str) (h : '\n' ∉ a) : ∀ (cur : Str),
    splitLines.go cur a = if (cur.reverse ++ a).isEmpty then [] else [cur.reverse ++ a] := by
  induction a with
  | nil => intro cur; simp [splitLines.go]
  | cons ch t ih =>
    intro cur
    simp only [List.mem_cons, not_or] at h
    have hne : ch ≠ '\n' := fun e => h.1 e.symm
    simp only [splitLines.go, hne, if_false]
    rw [ih h.2]
    simp

/-- a line followed by a newline is the first line of the document -/
theorem splitLines_line {a rest : Str} (h : '\n' ∉ a) :
    splitLines (a ++ '\n' :: rest) = (a ++ ['\n']) :: splitLines rest := by
  rw [splitLines_eq_go, go_line a h, splitLines_eq_go]; simp

theorem splitLines_last {a : Str} (h : '\n' ∉ a) (hne : a ≠ []) : splitLines a = [a] := by
  rw [splitLines_eq_go, go_last a h]
  cases a with
  | nil => exact absurd rfl hne
  | cons x t => simp

/-- the lines of a document, each with its terminating newline -/
def unl (ls : List Str) : Str := ls.flatMap (· ++ ['\n'])

theorem splitLines_unl : ∀ (ls : List Str) (rest : Str), (∀ l ∈ ls, '\n' ∉ l) →
    splitLines (unl ls ++ rest) = ls.map (· ++ ['\n']) ++ splitLines rest := by
  intro ls
  induction ls with
  | nil => intro rest _; simp [unl]
  | cons l t ih =>
    intro rest h
    have : unl (l :: t) ++ rest = l ++ '\n' :: (unl t ++ rest) := by simp [unl]
    rw [this, splitLines_line (h l (by simp)), ih rest (fun x hx => h x (by simp [hx]))]
    simp

theorem joinWith_nl_eq : ∀ (ls : List Str), ls ≠ [] → joinWith ['\n'] ls ++ ['\n'] = unl ls := by
  intro ls
  induction ls with
  | nil => intro h; exact absurd rfl h
  | cons l t ih =>
    intro _
    cases t with
    | nil => simp [joinWith, unl]
    | cons l2 t2 =>
      have := ih (by simp)
      simp only [joinWith] at this ⊢
      simp only [unl, List.flatMap_cons] at this ⊢
      rw [List.append_assoc, List.append_assoc, this]
      simp

/-! ## folding the parser over lines -/

def parseStep (acc : Except String Circuit) (line : Str) : Except String Circuit := match acc with
  | .error e => .error e
  | .ok c => parseLine c line

def parseFold (lines : List Str) (acc : Except String Circuit) : Except String Circuit := lines.foldl parseStep acc

theorem parseBench_eq (s : Str) : parseBench s =
    match parseFold (splitLines s) (.ok Circuit.empty) with
    | .error e => .error e
    | .ok c => if c.gates.all (fun g => g.ops.all c.hasGate) then .ok c else .error "CircuitValidationError" := rfl

/-- a printed line: without newline characters, parsed the same with or without its terminator -/
structure LineSem (line : Str) (f : Circuit → Circuit) : Prop where
  nlfree : '\n' ∉ line
  sem : ∀ c nl, (nl = [] ∨ nl = ['\n']) → parseLine c (line ++ nl) = .ok (f c)

abbrev SemLines := List (Str × (Circuit → Circuit))
def applyAll (ps : SemLines) (c : Circuit) : Circuit := ps.foldl (fun c p => p.2 c) c

theorem blank_sem : LineSem [] id := by
  refine ⟨by simp, ?_⟩
  intro c nl hnl
  rcases hnl with rfl | rfl <;> simp [parseLine]

theorem parseFold_terminated : ∀ (ps : SemLines) (c : Circuit) (rest : List Str),
    (∀ p ∈ ps, LineSem p.1 p.2) →
    parseFold ((ps.map (fun p => p.1 ++ ['\n'])) ++ rest) (.ok c) = parseFold rest (.ok (applyAll ps c)) := by
  intro ps
  induction ps with
  | nil => intro c rest _; rfl
  | cons p t ih =>
    intro c rest h
    simp only [List.map_cons, List.cons_append, parseFold, List.foldl_cons, applyAll]
    have := (h p (by simp)).sem c ['\n'] (Or.inr rfl)
    simp only [parseStep, this]
    exact ih (p.2 c) rest (fun q hq => h q (by simp [hq]))

theorem parseFold_joined : ∀ (ps : SemLines) (c : Circuit),
    (∀ p ∈ ps, LineSem p.1 p.2 ∧ p.1 ≠ []) →
    parseFold (splitLines (joinWith ['\n'] (ps.map (·.1)))) (.ok c) = .ok (applyAll ps c) := by
  intro ps
  induction ps with
  | nil => intro c _; simp [joinWith, splitLines, parseFold, applyAll]
  | cons p t ih =>
    intro c h
    obtain ⟨hp, hpne⟩ := h p (by simp)
    cases t with
    | nil =>
      simp only [List.map_cons, List.map_nil, joinWith]
      rw [splitLines_last hp.nlfree hpne]
      have := hp.sem c [] (Or.inl rfl)
      simp only [List.append_nil] at this
      simp [parseFold, parseStep, this, applyAll]
    | cons q r =>
      have hj : joinWith ['\n'] ((p :: q :: r).map (·.1)) = p.1 ++ '\n' :: joinWith ['\n'] ((q :: r).map (·.1)) := by
        simp [joinWith]
      rw [hj, splitLines_line hp.nlfree]
      have := hp.sem c ['\n'] (Or.inr rfl)
      simp only [parseFold, List.foldl_cons, parseStep, this]
      have := ih (p.2 c) (fun x hx => h x (by simp [hx]))
      simpa [parseFold, applyAll] using this

/-- a (possibly empty) section followed by the blank separator line -/
def padLines (ps : SemLines) : SemLines := if ps = [] then [([], id)] else ps

theorem padLines_sem {ps : SemLines} (h : ∀ p ∈ ps, LineSem p.1 p.2) : ∀ p ∈ padLines ps, LineSem p.1 p.2 := by
  intro p hp
  unfold padLines at hp
  split at hp
  · simp only [List.mem_singleton] at hp; subst hp; exact blank_sem
  · exact h p hp

theorem applyAll_pad (ps : SemLines) (c : Circuit) : applyAll (padLines ps) c = applyAll ps c := by
  unfold padLines
  split
  · rename_i h; subst h; rfl
  · rfl

theorem joinWith_pad (ps : SemLines) :
    joinWith ['\n'] (ps.map (·.1)) ++ ['\n'] = unl ((padLines ps).map (·.1)) := by
  unfold padLines
  split
  · rename_i h; subst h; simp [joinWith, unl]
  · rename_i h
    exact joinWith_nl_eq _ (by simpa using h)

theorem applyAll_append (a b : SemLines) (c : Circuit) : applyAll (a ++ b) c = applyAll b (applyAll a c) := by
  simp [applyAll, List.foldl_append]

/-- **a three-section document parses section by section** -/
theorem parseFold_document (s1 s2 s3 : SemLines) (c : Circuit)
    (h1 : ∀ p ∈ s1, LineSem p.1 p.2) (h2 : ∀ p ∈ s2, LineSem p.1 p.2)
    (h3 : ∀ p ∈ s3, LineSem p.1 p.2 ∧ p.1 ≠ []) :
    parseFold (splitLines (joinWith ['\n'] (s1.map (·.1)) ++ ['\n', '\n'] ++ joinWith ['\n'] (s2.map (·.1))
        ++ ['\n', '\n'] ++ joinWith ['\n'] (s3.map (·.1)))) (.ok c)
      = .ok (applyAll s3 (applyAll s2 (applyAll s1 c))) := by
  have blankL : ∀ p ∈ ([([], id)] : SemLines), LineSem p.1 p.2 := by
    intro p hp; simp only [List.mem_singleton] at hp; subst hp; exact blank_sem
  have hall : ∀ p ∈ padLines s1 ++ ([([], id)] : SemLines) ++ padLines s2 ++ ([([], id)] : SemLines), LineSem p.1 p.2 := by
    intro p hp
    simp only [List.mem_append] at hp
    rcases hp with ((hp | hp) | hp) | hp
    · exact padLines_sem h1 p hp
    · exact blankL p hp
    · exact padLines_sem h2 p hp
    · exact blankL p hp
  have hdoc : joinWith ['\n'] (s1.map (·.1)) ++ ['\n', '\n'] ++ joinWith ['\n'] (s2.map (·.1))
        ++ ['\n', '\n'] ++ joinWith ['\n'] (s3.map (·.1))
      = unl ((padLines s1 ++ ([([], id)] : SemLines) ++ padLines s2 ++ ([([], id)] : SemLines)).map (·.1)) ++ joinWith ['\n'] (s3.map (·.1)) := by
    have e1 := joinWith_pad s1
    have e2 := joinWith_pad s2
    simp only [List.map_append, unl, List.flatMap_append] at e1 e2 ⊢
    have b : List.flatMap (fun x => x ++ ['\n']) (List.map (fun x => x.fst) ([([], id)] : SemLines)) = ['\n'] := by
      simp
    rw [b, ← e1, ← e2]
    simp
  rw [hdoc, splitLines_unl _ _ (by
    intro l hl
    obtain ⟨p, hp, rfl⟩ := List.mem_map.mp hl
    exact (hall p hp).nlfree)]
  rw [List.map_map]
  have := parseFold_terminated (padLines s1 ++ ([([], id)] : SemLines) ++ padLines s2 ++ ([([], id)] : SemLines)) c
    (splitLines (joinWith ['\n'] (s3.map (·.1)))) hall
  have hfun : ((fun x : Str => x ++ ['\n']) ∘ fun x : Str × (Circuit → Circuit) => x.fst) = (fun p => p.1 ++ ['\n']) := rfl
  rw [hfun, this, parseFold_joined s3 _ h3]
  simp only [applyAll_append, applyAll_pad]
  rfl

/-! ## the printed sections of a circuit -/

def mkInput (l : Label) : Gate := ⟨l, INPUT, []⟩

def secInputs (c : Circuit) : SemLines :=
  c.inputs.map (fun l => (strOf "INPUT(" ++ l.toList ++ [')'], fun n => n.rawAddGate (mkInput l)))
def secGates (c : Circuit) : SemLines :=
  (c.gates.filter (fun g => g.ty != INPUT)).map (fun g => (formatGate g, fun n => n.rawAddGate g))
def secOutputs (c : Circuit) : SemLines :=
  c.outputs.map (fun l => (strOf "OUTPUT(" ++ l.toList ++ [')'], fun n => { n with outputs := n.outputs ++ [l] }))

theorem formatCircuit_eq (c : Circuit) : formatCircuit c =
    joinWith ['\n'] ((secInputs c).map (·.1)) ++ ['\n', '\n'] ++ joinWith ['\n'] ((secGates c).map (·.1))
      ++ ['\n', '\n'] ++ joinWith ['\n'] ((secOutputs c).map (·.1)) := by
  unfold formatCircuit secInputs secGates secOutputs
  simp only [List.map_map, Function.comp]
  rfl

/-- what can be printed and read back: identifier labels and arities the reader accepts -/
structure Printable (c : Circuit) : Prop where
  labels : ∀ g ∈ c.gates, IsIdent g.label.toList
  ops : ∀ g ∈ c.gates, ∀ o ∈ g.ops, IsIdent o.toList
  arity : ∀ g ∈ c.gates, g.ty ≠ INPUT → parserArityOk g.ty g.ops.length = true
  outs : ∀ l ∈ c.outputs, IsIdent l.toList

theorem ident_no_nl {s : Str} (h : IsIdent s) : '\n' ∉ s := h.not_mem (by decide)

theorem keyword_no_nl (ty : GateType) : '\n' ∉ printedKeyword ty := by
  cases ty <;> decide

theorem formatGate_no_nl {g : Gate} (hty : g.ty ≠ INPUT) (hl : IsIdent g.label.toList)
    (hops : ∀ o ∈ g.ops, IsIdent o.toList) : '\n' ∉ formatGate g := by
  unfold formatGate
  simp only [hty, if_false]
  intro hm
  simp only [List.mem_append] at hm
  rcases hm with ((((hm | hm) | hm) | hm) | hm) | hm
  · exact ident_no_nl hl hm
  · simp at hm
  · exact keyword_no_nl g.ty hm
  · simp at hm
  · rcases join_chars (g.ops.map String.toList) '\n' hm with ⟨x, hx, h2⟩ | h1 | h1
    · obtain ⟨o, ho, rfl⟩ := List.mem_map.mp hx
      exact ident_no_nl (hops o ho) h2
    · cases h1
    · cases h1
  · simp at hm

theorem formatGate_ne_nil (g : Gate) : formatGate g ≠ [] := by
  unfold formatGate
  split <;> simp

theorem secInputs_sem {c : Circuit} (hi : ∀ l ∈ c.inputs, IsIdent l.toList) :
    ∀ p ∈ secInputs c, LineSem p.1 p.2 := by
  intro p hp
  obtain ⟨l, hl, rfl⟩ := List.mem_map.mp hp
  have hid := hi l hl
  refine ⟨?_, ?_⟩
  · simp only [strOf]
    intro hm
    simp only [List.mem_append] at hm
    rcases hm with (hm | hm) | hm
    · revert hm; decide
    · exact ident_no_nl hid hm
    · simp at hm
  · intro n nl hnl
    have := parseLine_input n l hid nl hnl
    have e : (strOf "INPUT(" ++ l.toList ++ [')']) ++ nl = ['I', 'N', 'P', 'U', 'T', '('] ++ l.toList ++ ')' :: nl := by
      simp [strOf]
    simp only [e, this, mkInput]

theorem secOutputs_sem {c : Circuit} (ho : ∀ l ∈ c.outputs, IsIdent l.toList) :
    ∀ p ∈ secOutputs c, LineSem p.1 p.2 ∧ p.1 ≠ [] := by
  intro p hp
  obtain ⟨l, hl, rfl⟩ := List.mem_map.mp hp
  have hid := ho l hl
  refine ⟨⟨?_, ?_⟩, by simp [strOf]⟩
  · simp only [strOf]
    intro hm
    simp only [List.mem_append] at hm
    rcases hm with (hm | hm) | hm
    · revert hm; decide
    · exact ident_no_nl hid hm
    · simp at hm
  · intro n nl hnl
    have := parseLine_output n l hid nl hnl
    have e : (strOf "OUTPUT(" ++ l.toList ++ [')']) ++ nl = ['O', 'U', 'T', 'P', 'U', 'T', '('] ++ l.toList ++ ')' :: nl := by
      simp [strOf]
    simp only [e, this]

theorem secGates_sem {c : Circuit} (hp : Printable c) : ∀ p ∈ secGates c, LineSem p.1 p.2 := by
  intro p hpm
  obtain ⟨g, hg, rfl⟩ := List.mem_map.mp hpm
  obtain ⟨hgm, hty⟩ := List.mem_filter.mp hg
  have hty' : g.ty ≠ INPUT := by simpa using hty
  refine ⟨formatGate_no_nl hty' (hp.labels g hgm) (hp.ops g hgm), ?_⟩
  intro n nl hnl
  exact parseLine_formatGate n g hty' (hp.labels g hgm) (hp.ops g hgm) (hp.arity g hgm hty') nl hnl

/-! ## the circuit that is read back -/

theorem rawAddGate_fresh {n : Circuit} {g : Gate} (h : g.label ∉ n.labels) :
    (n.rawAddGate g).gates = n.gates ++ [g] ∧
    (n.rawAddGate g).inputs = (if g.ty = INPUT then n.inputs ++ [g.label] else n.inputs) ∧
    (n.rawAddGate g).outputs = n.outputs := by
  obtain ⟨a, b, d, _⟩ := foldl_addUser_fields g.ops n g.label
  have hh : (List.foldl (fun c o => c.addUser o g.label) n g.ops).hasGate g.label = false := by
    cases hx : (List.foldl (fun c o => c.addUser o g.label) n g.ops).hasGate g.label with
    | false => rfl
    | true =>
      exfalso; apply h
      have := (hasGate_iff' _ _).mp hx
      unfold Circuit.labels at this ⊢
      rw [a] at this; exact this
  refine ⟨?_, ?_, ?_⟩
  · unfold rawAddGate; simp [hh, a]
  · unfold rawAddGate; by_cases ht : g.ty = INPUT <;> simp [ht, b]
  · unfold rawAddGate; simp [d]

theorem rawFold_fields : ∀ (gs : List Gate) (n : Circuit), (n.labels ++ gs.map (·.label)).Nodup →
    (gs.foldl (fun n g => n.rawAddGate g) n).gates = n.gates ++ gs ∧
    (gs.foldl (fun n g => n.rawAddGate g) n).inputs = n.inputs ++ (gs.filter (fun g => g.ty = INPUT)).map (·.label) ∧
    (gs.foldl (fun n g => n.rawAddGate g) n).outputs = n.outputs := by
  intro gs
  induction gs with
  | nil => intro n _; simp
  | cons g t ih =>
    intro n hnd
    simp only [List.foldl_cons]
    have hfresh : g.label ∉ n.labels := by
      intro hm
      have := (List.nodup_append.mp hnd).2.2 g.label hm g.label (by simp)
      exact this rfl
    obtain ⟨a, b, d⟩ := rawAddGate_fresh hfresh
    have hnd' : ((n.rawAddGate g).labels ++ t.map (·.label)).Nodup := by
      unfold Circuit.labels; rw [a]
      simpa [Circuit.labels] using hnd
    obtain ⟨a2, b2, d2⟩ := ih _ hnd'
    refine ⟨by rw [a2, a]; simp, ?_, by rw [d2, d]⟩
    rw [b2, b]
    by_cases ht : g.ty = INPUT <;> simp [ht, List.filter_cons]

theorem outFold_fields : ∀ (ls : List Label) (n : Circuit),
    (ls.foldl (fun (n : Circuit) l => { n with outputs := n.outputs ++ [l] }) n).gates = n.gates ∧
    (ls.foldl (fun (n : Circuit) l => { n with outputs := n.outputs ++ [l] }) n).inputs = n.inputs ∧
    (ls.foldl (fun (n : Circuit) l => { n with outputs := n.outputs ++ [l] }) n).outputs = n.outputs ++ ls := by
  intro ls
  induction ls with
  | nil => intro n; simp
  | cons l t ih =>
    intro n
    simp only [List.foldl_cons]
    obtain ⟨a, b, d⟩ := ih { n with outputs := n.outputs ++ [l] }
    exact ⟨a, b, by rw [d]; simp⟩

theorem applyAll_map {α} (xs : List α) (line : α → Str) (f : α → Circuit → Circuit) (n : Circuit) :
    applyAll (xs.map (fun x => (line x, f x))) n = xs.foldl (fun n x => f x n) n := by
  induction xs generalizing n with
  | nil => rfl
  | cons x t ih => simp only [List.map_cons, applyAll, List.foldl_cons] at ih ⊢; exact ih _

theorem map_label_mkInput (ls : List Label) : (ls.map mkInput).map (·.label) = ls := by
  induction ls with
  | nil => rfl
  | cons l t ih => simp [mkInput, ih]

/-- **the round trip, for whole circuits.**  For every well-formed circuit whose labels are
identifiers and whose gate arities the reader accepts, `from_bench_string(format_circuit(c))`
succeeds and returns a circuit with the same inputs in the same order, the same outputs in the same
order (repetitions included) and the same gates (as a set of `label = TYPE(operands)` definitions:
the reader stores the inputs first). -/
theorem bench_roundtrip {c : Circuit} (hw : WF c) (hp : Printable c) :
    ∃ c', parseBench (formatCircuit c) = .ok c' ∧ c'.inputs = c.inputs ∧ c'.outputs = c.outputs ∧
      c'.gates.Perm c.gates := by
  have hinId : ∀ l ∈ c.inputs, IsIdent l.toList := by
    intro l hl
    obtain ⟨g, hg, hgl, _⟩ := (hw.inputsOK l).mp hl
    rw [← hgl]; exact hp.labels g hg
  rw [parseBench_eq, formatCircuit_eq,
    parseFold_document _ _ _ _ (secInputs_sem hinId) (secGates_sem hp) (secOutputs_sem hp.outs)]
  simp only
  -- the three folds
  have e1 : applyAll (secInputs c) Circuit.empty = (c.inputs.map mkInput).foldl (fun n g => n.rawAddGate g) Circuit.empty := by
    unfold secInputs
    rw [applyAll_map c.inputs _ (fun l n => n.rawAddGate (mkInput l)), List.foldl_map]
  have e2 : ∀ n, applyAll (secGates c) n = (c.gates.filter (fun g => g.ty != INPUT)).foldl (fun n g => n.rawAddGate g) n := by
    intro n; unfold secGates
    rw [applyAll_map _ _ (fun g n => n.rawAddGate g)]
  have e3 : ∀ n, applyAll (secOutputs c) n = c.outputs.foldl (fun (n : Circuit) l => { n with outputs := n.outputs ++ [l] }) n := by
    intro n; unfold secOutputs
    rw [applyAll_map _ _ (fun l (n : Circuit) => { n with outputs := n.outputs ++ [l] })]
  rw [e1, e2, e3]
  -- labels of the printed gates are distinct: inputs first, then the other gates
  have hnonIn : ∀ g ∈ c.gates.filter (fun g => g.ty != INPUT), g.label ∉ c.inputs := by
    intro g hg hin
    obtain ⟨hgm, hty⟩ := List.mem_filter.mp hg
    obtain ⟨g', hg', hgl', hty'⟩ := (hw.inputsOK g.label).mp hin
    have := find_label hw.nodup hg'
    rw [hgl', find_label hw.nodup hgm] at this
    simp only [Option.some.injEq] at this
    subst this
    simp [hty'] at hty
  have hndF : ((c.gates.filter (fun g => g.ty != INPUT)).map (·.label)).Nodup :=
    (List.Nodup.sublist ((List.filter_sublist).map _) hw.nodup)
  have f1 := rawFold_fields (c.inputs.map mkInput) Circuit.empty (by
    simp only [Circuit.labels, Circuit.empty, List.map_nil, List.nil_append]
    rw [map_label_mkInput]; exact hw.inputsNodup)
  obtain ⟨g1, i1, o1⟩ := f1
  have hlab1 : ((c.inputs.map mkInput).foldl (fun n g => n.rawAddGate g) Circuit.empty).labels = c.inputs := by
    unfold Circuit.labels; rw [g1]
    simp only [Circuit.empty, List.nil_append]
    exact map_label_mkInput _
  have f2 := rawFold_fields (c.gates.filter (fun g => g.ty != INPUT))
    ((c.inputs.map mkInput).foldl (fun n g => n.rawAddGate g) Circuit.empty) (by
      rw [hlab1]
      refine List.nodup_append.mpr ⟨hw.inputsNodup, hndF, ?_⟩
      intro a ha b hb e
      subst e
      obtain ⟨g, hg, rfl⟩ := List.mem_map.mp hb
      exact hnonIn g hg ha)
  obtain ⟨g2, i2, o2⟩ := f2
  obtain ⟨g3, i3, o3⟩ := outFold_fields c.outputs
    ((c.gates.filter (fun g => g.ty != INPUT)).foldl (fun n g => n.rawAddGate g)
      ((c.inputs.map mkInput).foldl (fun n g => n.rawAddGate g) Circuit.empty))
  -- the gates read back
  have hgates : (c.outputs.foldl (fun (n : Circuit) l => { n with outputs := n.outputs ++ [l] })
      ((c.gates.filter (fun g => g.ty != INPUT)).foldl (fun n g => n.rawAddGate g)
        ((c.inputs.map mkInput).foldl (fun n g => n.rawAddGate g) Circuit.empty))).gates
      = c.inputs.map mkInput ++ c.gates.filter (fun g => g.ty != INPUT) := by
    rw [g3, g2, g1]; simp [Circuit.empty]
  -- the INPUT gates of `c` are exactly the `mkInput`s of its input list
  have hperm1 : (c.inputs.map mkInput).Perm (c.gates.filter (fun g => g.ty == INPUT)) := by
    apply (List.perm_ext_iff_of_nodup ?_ ?_).mpr
    · intro g
      constructor
      · intro hg
        obtain ⟨l, hl, rfl⟩ := List.mem_map.mp hg
        obtain ⟨g', hg', hgl', hty'⟩ := (hw.inputsOK l).mp hl
        have har := hw.arity g' hg'
        simp only [hty', if_true] at har
        have : g' = mkInput l := by
          cases g' with
          | mk a b d => simp only at hgl' hty' har; simp [mkInput, hgl', hty', har]
        rw [← this]
        exact List.mem_filter.mpr ⟨hg', by simp [hty']⟩
      · intro hg
        obtain ⟨hgm, hty⟩ := List.mem_filter.mp hg
        have hty' : g.ty = INPUT := by simpa using hty
        have har := hw.arity g hgm
        simp only [hty', if_true] at har
        have hin : g.label ∈ c.inputs := (hw.inputsOK g.label).mpr ⟨g, hgm, rfl, hty'⟩
        refine List.mem_map.mpr ⟨g.label, hin, ?_⟩
        cases g with
        | mk a b d => simp only at hty' har; simp [mkInput, hty', har]
    · exact List.Pairwise.of_map (·.label) (fun a b (hab : a.label ≠ b.label) => fun e => hab (by rw [e]))
        (by rw [map_label_mkInput]; exact hw.inputsNodup)
    · have : c.gates.Nodup :=
        List.Pairwise.of_map (·.label) (fun a b (hab : a.label ≠ b.label) => fun e => hab (by rw [e])) hw.nodup
      exact this.filter _
  generalize hR : (c.outputs.foldl (fun (n : Circuit) l => { n with outputs := n.outputs ++ [l] })
      ((c.gates.filter (fun g => g.ty != INPUT)).foldl (fun n g => n.rawAddGate g)
        ((c.inputs.map mkInput).foldl (fun n g => n.rawAddGate g) Circuit.empty))) = R at hgates g3 i3 o3
  have hRi : R.inputs = c.inputs := by
    rw [i3, i2, i1]
    simp only [Circuit.empty, List.nil_append]
    have h1 : ((c.inputs.map mkInput).filter (fun g => g.ty = INPUT)).map (·.label) = c.inputs := by
      have : (c.inputs.map mkInput).filter (fun g => g.ty = INPUT) = c.inputs.map mkInput :=
        List.filter_eq_self.mpr (by intro g hg; obtain ⟨l, _, rfl⟩ := List.mem_map.mp hg; simp [mkInput])
      rw [this, map_label_mkInput]
    have h2 : ((c.gates.filter (fun g => g.ty != INPUT)).filter (fun g => g.ty = INPUT)) = [] := by
      apply List.filter_eq_nil_iff.mpr
      intro g hg
      have := (List.mem_filter.mp hg).2
      simpa using this
    rw [h1, h2]; simp
  have hRo : R.outputs = c.outputs := by
    rw [o3, o2, o1]; simp [Circuit.empty]
  have hlabR : ∀ l, l ∈ c.labels → l ∈ R.labels := by
    intro l hl
    obtain ⟨g, hg, hgl⟩ : ∃ g ∈ c.gates, g.label = l := by simpa [Circuit.labels] using hl
    unfold Circuit.labels
    rw [hgates]
    simp only [List.map_append, List.mem_append]
    by_cases hty : g.ty = INPUT
    · left
      rw [map_label_mkInput]
      exact (hw.inputsOK l).mpr ⟨g, hg, hgl, hty⟩
    · right
      exact List.mem_map.mpr ⟨g, List.mem_filter.mpr ⟨hg, by simpa using hty⟩, hgl⟩
  have hcheck : R.gates.all (fun g => g.ops.all R.hasGate) = true := by
    apply List.all_eq_true.mpr
    intro g hg
    apply List.all_eq_true.mpr
    intro o ho
    rw [hgates] at hg
    rcases List.mem_append.mp hg with hg | hg
    · obtain ⟨l, _, rfl⟩ := List.mem_map.mp hg
      simp [mkInput] at ho
    · have hgm := (List.mem_filter.mp hg).1
      exact (hasGate_iff' R o).mpr (hlabR o (hw.closed g hgm o ho))
  refine ⟨R, by simp [hcheck], hRi, hRo, ?_⟩
  rw [hgates]
  have hsplit : (c.gates.filter (fun g => g.ty == INPUT) ++ c.gates.filter (fun g => !(g.ty == INPUT))).Perm c.gates :=
    List.filter_append_perm _ _
  have hf : c.gates.filter (fun g => !(g.ty == INPUT)) = c.gates.filter (fun g => g.ty != INPUT) := by
    apply List.filter_congr; intro g _; rfl
  rw [hf] at hsplit
  exact (List.Perm.append_right _ hperm1).trans hsplit

end Cirbo
