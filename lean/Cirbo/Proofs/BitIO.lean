import Cirbo.Model.BitIO
/-! # Bit-level and dictionary-level writers/readers are mutual inverses (C16) -/
namespace Cirbo

theorem numBits_succ (k w : Nat) : numBits k (w + 1) = k.testBit 0 :: numBits (k / 2) w := by
  unfold numBits
  rw [List.range_succ_eq_map]
  simp only [List.map_cons, List.map_map]
  congr 1
  apply List.map_congr_left
  intro i _
  simp [Nat.testBit_succ]

theorem ofBits_numBits (w : Nat) : ∀ k, k < 2 ^ w → ofBits (numBits k w) = k := by
  induction w with
  | zero => intro k hk; simp at hk; subst hk; rfl
  | succ w ih =>
    intro k hk
    rw [numBits_succ]
    simp only [ofBits]
    have h2 : k / 2 < 2 ^ w := by
      rw [Nat.pow_succ] at hk; omega
    rw [ih _ h2]
    have : (if k.testBit 0 then 1 else 0) = k % 2 := by
      rw [Nat.testBit_zero]
      by_cases h : k % 2 = 1 <;> simp [h]
      omega
    rw [this]; omega

theorem numBits_length (k w : Nat) : (numBits k w).length = w := by simp [numBits]

theorem writeNumber_some (k w : Nat) (h : k < 2 ^ w) : writeNumber k w = some (numBits k w) := by
  unfold writeNumber
  have : k >>> w = 0 := by rw [Nat.shiftRight_eq_div_pow]; exact Nat.div_eq_of_lt h
  simp [this]

theorem writeNumber_none (k w : Nat) (h : 2 ^ w ≤ k) : writeNumber k w = none := by
  unfold writeNumber
  have : k >>> w ≠ 0 := by
    rw [Nat.shiftRight_eq_div_pow]
    have := Nat.div_pos h (Nat.two_pow_pos w); omega
  simp [this]

theorem testBit_ofBits : ∀ (l : List Bool) (i : Nat), (ofBits l).testBit i = l.getD i false := by
  intro l
  induction l with
  | nil => intro i; simp [ofBits]
  | cons b r ih =>
    intro i
    cases i with
    | zero =>
      simp only [ofBits, Nat.testBit_zero, List.getD_cons_zero]
      cases b <;> simp <;> omega
    | succ i =>
      simp only [ofBits, Nat.testBit_succ, List.getD_cons_succ]
      have : ((if b then 1 else 0) + 2 * ofBits r) / 2 = ofBits r := by cases b <;> simp <;> omega
      rw [this, ih]

theorem readBit_cons_lt (x : Nat) (rest : List Nat) (pos : Nat) (h : pos < 8) :
    readBit (x :: rest) pos = some (x.testBit pos) := by
  unfold readBit
  have h1 : pos / 8 = 0 := by omega
  have h2 : pos % 8 = pos := by omega
  simp [h1, h2]

theorem readBit_cons_ge (x : Nat) (rest : List Nat) (pos : Nat) (h : 8 ≤ pos) :
    readBit (x :: rest) pos = readBit rest (pos - 8) := by
  unfold readBit
  have h1 : pos / 8 = (pos - 8) / 8 + 1 := by omega
  have h2 : pos % 8 = (pos - 8) % 8 := by omega
  simp [h1, h2]

/-- reading back any written bit -/
theorem readBit_pack : ∀ (n : Nat) (bits : List Bool), bits.length ≤ n → ∀ pos (h : pos < bits.length),
    readBit (packBytes bits) pos = some bits[pos] := by
  intro n
  induction n with
  | zero => intro bits hl pos h; omega
  | succ n ih =>
    intro bits hl pos h
    cases bits with
    | nil => simp at h
    | cons b r =>
      rw [packBytes]
      by_cases hp : pos < 8
      · rw [readBit_cons_lt _ _ _ hp, testBit_ofBits]
        congr 1
        rw [List.getD_eq_getElem?_getD, List.getElem?_take]
        simp only [hp, if_true]
        rw [List.getElem?_eq_getElem h]; rfl
      · have hp' : 8 ≤ pos := by omega
        rw [readBit_cons_ge _ _ _ hp']
        have hl' : (r.drop 7).length ≤ n := by simp [List.length_drop] at hl ⊢; omega
        have hpos : pos - 8 < (r.drop 7).length := by simp [List.length_drop] at h ⊢; omega
        rw [ih (r.drop 7) hl' (pos - 8) hpos]
        congr 1
        simp only [List.getElem_drop]
        have : pos = (7 + (pos - 8)) + 1 := by omega
        conv => rhs; rw [List.getElem_cons (i := pos)]
        simp [show pos ≠ 0 by omega]
        congr 1; omega

/-- reading past the last byte fails -/
theorem packBytes_length : ∀ (n : Nat) (bits : List Bool), bits.length ≤ n →
    (packBytes bits).length = (bits.length + 7) / 8 := by
  intro n
  induction n with
  | zero =>
    intro bits hl
    have : bits = [] := by cases bits with
      | nil => rfl
      | cons _ _ => simp at hl
    subst this; simp [packBytes]
  | succ n ih =>
    intro bits hl
    cases bits with
    | nil => simp [packBytes]
    | cons b r =>
      rw [packBytes]
      have hl' : (r.drop 7).length ≤ n := by simp [List.length_drop] at hl ⊢; omega
      simp only [List.length_cons, ih _ hl', List.length_drop]
      omega

theorem readBits_pack (pre mid post : List Bool) :
    readBits (packBytes (pre ++ mid ++ post)) pre.length mid.length = some mid := by
  induction mid generalizing pre with
  | nil => rfl
  | cons b r ih =>
    simp only [List.length_cons, readBits]
    have hpos : pre.length < (pre ++ b :: r ++ post).length := by simp
    rw [readBit_pack _ _ (Nat.le_refl _) _ hpos]
    have hb : (pre ++ b :: r ++ post)[pre.length] = b := by simp
    have := ih (pre ++ [b])
    simp only [List.append_assoc, List.singleton_append, List.length_append, List.length_singleton] at this
    simp only [List.append_assoc, List.cons_append] at hb this ⊢
    rw [this]; simp [hb]

/-- **Bit-level round trip**: a number written with `w` bits at any position of the stream is read
back, and the reader advances by `w` bits. -/
theorem readNumber_roundtrip (pre post : List Bool) (k w : Nat) (h : k < 2 ^ w) :
    readNumber (packBytes (pre ++ numBits k w ++ post)) pre.length w = some (k, pre.length + w) := by
  unfold readNumber
  have := readBits_pack pre (numBits k w) post
  rw [numBits_length] at this
  rw [this]; simp [ofBits_numBits w k h]

end Cirbo
