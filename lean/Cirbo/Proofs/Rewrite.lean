import Cirbo.Proofs.Mutate
import Cirbo.Proofs.Convert
/-! # Local rewrites (C19): replace_inputs = cofactor, remove_gate specification -/
namespace Cirbo
open GateType Circuit

/-! ### replace_inputs -/

theorem constStep_fields {ty : GateType} {c c' : Circuit} {l : Label} (h : constStep ty (.ok c) l = .ok c') :
    ∃ g, c.find? l = some g ∧ g.ty = INPUT ∧ l ∈ c.inputs ∧
      c'.gates = c.gates.map (fun x => if x.label == l then (⟨l, ty, []⟩ : Gate) else x) ∧
      c'.inputs = c.inputs.erase l ∧ c'.outputs = c.outputs := by
  unfold constStep at h
  simp only at h
  cases hf : c.find? l with
  | none => simp [hf] at h
  | some g =>
    simp only [hf] at h
    split at h
    · cases h
    · rename_i hgt
      split at h
      · cases h
      · rename_i hin
        simp only [Except.ok.injEq] at h; subst h
        exact ⟨g, rfl, by simpa using hgt, by simpa using hin, rfl, rfl, rfl⟩

/-- one input fixed to a constant: a valuation under an assignment that gives the input that
constant is still a valuation, whatever the assignment now says about the removed input -/
theorem constStep_val {ty : GateType} {val : Bool} (hconst : ∀ xs, bfun ty xs = some val) (hty : ty ≠ INPUT)
    {c c' : Circuit} {l : Label} (hnd : c.labels.Nodup) (h : constStep ty (.ok c) l = .ok c')
    {b b' v : Label → Bool} (hv : IsValB c b v) (hbl : b l = val) (hbb : ∀ x, x ≠ l → b' x = b x) :
    IsValB c' b' v := by
  obtain ⟨g, hf, hgI, _, hg, _, _⟩ := constStep_fields h
  obtain ⟨hgm, hgl⟩ := find_some_mem hf
  intro y hy
  rw [hg] at hy
  obtain ⟨x, hx, rfl⟩ := List.mem_map.mp hy
  by_cases e : (x.label == l) = true
  · simp only [e, if_true, hty, if_false, hconst]
    have hxg : x = g := gate_unique hnd hx hgm ((by simpa using e : x.label = l).trans hgl.symm)
    have := hv g hgm
    simp only [hgI, if_true] at this
    rw [← hgl, this, hgl, hbl]
  · simp only [e, Bool.false_eq_true, if_false]
    have hne : x.label ≠ l := by simpa using e
    have := hv x hx
    by_cases ht : x.ty = INPUT
    · simp only [ht, if_true] at this ⊢; rw [this, hbb _ hne]
    · simpa [ht] using this

theorem foldl_constStep_val {ty : GateType} {val : Bool} (hconst : ∀ xs, bfun ty xs = some val) (hty : ty ≠ INPUT)
    {b v : Label → Bool} : ∀ (ls : List Label) {c c' : Circuit}, WFS c →
    ls.foldl (constStep ty) (.ok c) = .ok c' → IsValB c b v → (∀ l ∈ ls, b l = val) →
    IsValB c' b v ∧ c'.outputs = c.outputs ∧ (∀ x, x ∈ c'.inputs ↔ x ∈ c.inputs ∧ x ∉ ls) ∧
    c'.inputs.Sublist c.inputs := by
  intro ls
  induction ls with
  | nil => intro c c' hw h hv _; simp at h; subst h; exact ⟨hv, rfl, by simp, List.Sublist.refl _⟩
  | cons l r ih =>
    intro c c' hw h hv hb
    simp only [List.foldl_cons] at h
    cases hs : constStep ty (.ok c) l with
    | error e =>
      rw [hs] at h
      have : ∀ (xs : List Label), xs.foldl (constStep ty) (.error e) = .error e := by
        intro xs; induction xs with
        | nil => rfl
        | cons a t ih2 => simpa [constStep_error] using ih2
      rw [this] at h; cases h
    | ok c1 =>
      rw [hs] at h
      have hv1 := constStep_val hconst hty hw.nodup hs hv (hb l (by simp)) (fun _ _ => rfl)
      obtain ⟨_, _, _, _, _, hi1, ho1⟩ := constStep_fields hs
      obtain ⟨a1, a2, a3, a4⟩ := ih (constStep_wfs hty hw hs) h hv1 (fun x hx => hb x (by simp [hx]))
      refine ⟨a1, a2.trans ho1, ?_, a4.trans (by rw [hi1]; exact List.erase_sublist)⟩
      intro x
      rw [a3, hi1, List.Nodup.mem_erase_iff hw.inputsNodup]
      simp only [List.mem_cons, not_or]
      constructor
      · rintro ⟨⟨h1, h2⟩, h3⟩; exact ⟨h2, h1, h3⟩
      · rintro ⟨h2, h1, h3⟩; exact ⟨⟨h1, h2⟩, h3⟩

/-- the denotation reads the assignment only at INPUT gates -/
theorem isValB_congr {c : Circuit} {b b' v : Label → Bool}
    (h : ∀ g ∈ c.gates, g.ty = INPUT → b g.label = b' g.label) (hv : IsValB c b v) : IsValB c b' v := by
  intro g hg
  have := hv g hg
  by_cases ht : g.ty = INPUT
  · simp only [ht, if_true] at this ⊢; rw [this, h g hg ht]
  · simpa [ht] using this

/-- **`replace_inputs` is the cofactor**: fixing the inputs `t` to True and `f` to False yields a
well-formed circuit over the remaining inputs (same relative order) with the same outputs, whose
valuation under ANY assignment `b'` of the remaining inputs is the original circuit's valuation
under `b'` extended with t ↦ True, f ↦ False. -/
theorem replaceInputs_cofactor {c c' : Circuit} {t f : List Label} (hw : WFS c)
    (h : c.replaceInputs t f = .ok c') {b v : Label → Bool} (hv : IsValB c b v)
    (ht : ∀ l ∈ t, b l = true) (hf : ∀ l ∈ f, b l = false) :
    WFS c' ∧ c'.outputs = c.outputs ∧ (∀ x, x ∈ c'.inputs ↔ x ∈ c.inputs ∧ x ∉ t ∧ x ∉ f) ∧
    c'.inputs.Sublist c.inputs ∧
    ∀ b', (∀ x ∈ c'.inputs, b' x = b x) → IsValB c' b' v := by
  have hw' := replaceInputs_wfs hw h
  rw [replaceInputs_eq] at h
  cases h1 : t.foldl (constStep ALWAYS_TRUE) (.ok c) with
  | error e =>
    rw [h1] at h
    have : ∀ (xs : List Label), xs.foldl (constStep ALWAYS_FALSE) (.error e) = .error e := by
      intro xs; induction xs with
      | nil => rfl
      | cons a t ih2 => simpa [constStep_error] using ih2
    rw [this] at h; cases h
  | ok c1 =>
    rw [h1] at h
    have hw1 := foldl_constStep_wfs (ty := ALWAYS_TRUE) (by decide) t hw h1
    obtain ⟨a1, a2, a3, a4⟩ := foldl_constStep_val (ty := ALWAYS_TRUE) (val := true) (fun _ => rfl) (by decide) t hw h1 hv ht
    obtain ⟨b1, b2, b3, b4⟩ := foldl_constStep_val (ty := ALWAYS_FALSE) (val := false) (fun _ => rfl) (by decide) f hw1 h a1 hf
    refine ⟨hw', b2.trans a2, ?_, b4.trans a4, ?_⟩
    · intro x; rw [b3, a3]; constructor
      · rintro ⟨⟨p, q⟩, r⟩; exact ⟨p, q, r⟩
      · rintro ⟨p, q, r⟩; exact ⟨⟨p, q⟩, r⟩
    · intro b' hb'
      apply isValB_congr _ b1
      intro g hg hgt
      exact (hb' g.label ((hw'.inputsOK g.label).mpr ⟨g, hg, rfl, hgt⟩)).symm

/-! ### remove_gate -/

theorem foldl_removeUser_fields (ops : List Label) (c : Circuit) (u : Label) :
    let c' := ops.foldl (fun c o => c.removeUser o u) c
    c'.gates = c.gates ∧ c'.inputs = c.inputs ∧ c'.outputs = c.outputs ∧ c'.blocks = c.blocks := by
  induction ops generalizing c with
  | nil => simp
  | cons o r ih =>
    simp only [List.foldl_cons]
    obtain ⟨a, b, d, e⟩ := ih (c.removeUser o u)
    have h1 : (c.removeUser o u).gates = c.gates ∧ (c.removeUser o u).inputs = c.inputs ∧
        (c.removeUser o u).outputs = c.outputs ∧ (c.removeUser o u).blocks = c.blocks := by
      unfold removeUser; split
      · simp
      · split <;> simp
    exact ⟨a.trans h1.1, b.trans h1.2.1, d.trans h1.2.2.1, e.trans h1.2.2.2⟩

/-- **`remove_gate` succeeds only for an existing gate nobody uses**, and then the gate is gone
from the gate map, from the outputs (every occurrence), from the inputs, and every block that
named it is dropped. -/
theorem removeGate_spec {c c' : Circuit} {l : Label} (h : c.removeGate l = .ok c') :
    l ∈ c.labels ∧ c.usersOf l = [] ∧
    c'.gates = c.gates.filter (fun x => !(x.label == l)) ∧
    c'.outputs = c.outputs.filter (fun o => !(o == l)) ∧
    c'.blocks = c.blocks.filter (fun b => !(b.gates.contains l || b.inputs.contains l || b.outputs.contains l)) ∧
    (∀ x ∈ c'.inputs, x ∈ c.inputs) := by
  unfold removeGate at h
  split at h
  · cases h
  · rename_i hex
    split at h
    · cases h
    · rename_i hus
      have hL : l ∈ c.labels := (hasGate_iff' c l).mp (by simpa using hex)
      have hU : c.usersOf l = [] := by simpa using hus
      unfold rawRemoveGate at h
      cases hf : c.find? l with
      | none => simp [hf] at h
      | some g =>
        simp only [hf] at h
        obtain ⟨a, b, d, e⟩ := foldl_removeUser_fields g.ops c l
        split at h
        · cases h
        · simp only [Except.ok.injEq] at h; subst h
          refine ⟨hL, hU, ?_, ?_, ?_, ?_⟩
          · by_cases ht : g.ty = INPUT <;> simp [ht, a]
          · by_cases ht : g.ty = INPUT <;> simp [ht, d]
          · by_cases ht : g.ty = INPUT <;> simp [ht, e]
          · intro x hx
            by_cases ht : g.ty = INPUT
            · simp only [ht, if_true, b] at hx; exact List.mem_of_mem_erase hx
            · simpa [ht, b] using hx

theorem removeGate_rejects {c : Circuit} {l : Label} :
    (l ∉ c.labels → c.removeGate l = .error "CircuitValidationError") ∧
    (l ∈ c.labels → c.usersOf l ≠ [] → c.removeGate l = .error "GateHasUsersError") := by
  constructor
  · intro hl
    have : c.hasGate l = false := by
      cases hh : c.hasGate l with
      | false => rfl
      | true => exact absurd ((hasGate_iff' c l).mp hh) hl
    simp [removeGate, this]
  · intro hl hu
    have : c.hasGate l = true := (hasGate_iff' c l).mpr hl
    have hu' : (c.usersOf l).isEmpty = false := by
      cases hx : c.usersOf l with
      | nil => exact absurd hx hu
      | cons a b => rfl
    simp [removeGate, this, hu']

end Cirbo
