import Cirbo.Proofs.CodecRT
import Cirbo.Proofs.EnumGates
import Cirbo.Proofs.Mutate
import Cirbo.Model.Codec
/-!
# Totality and error range of `encode_circuit` (and `decode_circuit` of its result)

* `ct_encode_ok_iff`  : on a well-formed circuit, `encodeCircuit c` succeeds **iff** every non-input
  gate has a type with an identifier and exactly `_get_arity` operands, and the word size fits in
  the one-byte header (`wordSize c < 256`).
* `ct_encode_total`   : the `←` direction (the requested totality statement).
* `ct_roundtrip_total`: under the same hypotheses `decodeCircuit (encode c)` succeeds as well.
* `ct_encode_error_range` : on a well-formed circuit the only errors are `CircuitEncodingError`
  and `BitIOError` (never `Py:KeyError`, never `GateDoesntExistError`; there is no fuel error, an
  exhausted budget would surface as one of those two and is excluded by `enumerateGates_ok`).
* `ct_encode_error_conf` : with conforming gates the only error is `BitIOError`, and only when the
  word size does not fit in the header byte.
* `ct_encode_error_cee` : if the word size fits and the circuit has an INPUT gate (or no gate at
  all), the only error is `CircuitEncodingError`.
-/
namespace Cirbo
open GateType

/-! ## numbers that fit -/

theorem ct_fit {k m : Nat} (h : k ≤ m) : k < 2 ^ bitLength m := by
  unfold bitLength
  by_cases hm : m = 0
  · subst hm
    have : k = 0 := by omega
    subst this
    simp
  · simp only [hm, if_false]
    exact Nat.lt_of_le_of_lt h Nat.lt_log2_self

theorem ct_bitLength_lt {m k : Nat} (h : m < 2 ^ k) : bitLength m < k + 1 := by
  unfold bitLength
  by_cases hm : m = 0
  · simp [hm]
  · simp only [hm, if_false]
    have := (Nat.log2_lt hm).mpr h
    omega

theorem ct_bitLength_ge {m k : Nat} (h : 2 ^ k ≤ m) : k + 1 ≤ bitLength m := by
  unfold bitLength
  have hm : m ≠ 0 := by
    intro h0; subst h0
    have := Nat.two_pow_pos k
    omega
  simp only [hm, if_false]
  have : ¬ Nat.log2 m < k := fun hl => by
    have := (Nat.log2_lt hm).mp hl
    omega
  omega

theorem ct_wordSize_nil {c : Circuit} (h : c.gates = []) : wordSize c = 1 := by
  simp [wordSize, h]

theorem ct_wordSize_ne {c : Circuit} (h : c.gates ≠ []) :
    wordSize c = bitLength (max (max c.inputs.length c.outputs.length) (c.gates.length - 1)) := by
  unfold wordSize
  cases hg : c.gates with
  | nil => exact absurd hg h
  | cons g t => simp

/-! ## the enumeration on a well-formed circuit -/

theorem ct_enumOK {c : Circuit} (hw : WFS c) : EnumOK c (enumerateGates c) :=
  enumerateGates_ok hw.nodup hw.closed hw.rank hw.inputsNodup (by
    intro l hl
    obtain ⟨g, hg, hgl, hty⟩ := (hw.inputsOK l).mp hl
    exact ⟨g, hg, hgl, hw.inputOps g hg hty⟩)

theorem ct_ids_length {c : Circuit} (hw : WFS c) : (enumerateGates c).length = c.gates.length := by
  have e := ct_enumOK hw
  have hp : (enumerateGates c).Perm c.labels := (List.perm_ext_iff_of_nodup e.nodup hw.nodup).mpr e.all
  rw [hp.length_eq]
  simp [Circuit.labels]

theorem ct_inputs_le {c : Circuit} (hw : WFS c) : c.inputs.length ≤ c.gates.length := by
  obtain ⟨rest, hr⟩ := (ct_enumOK hw).inputsFirst
  have := ct_ids_length hw
  rw [hr, List.length_append] at this
  omega

/-- every identifier fits in a word -/
theorem ct_idx_fit {c : Circuit} (hw : WFS c) : ∀ o ∈ enumerateGates c,
    (enumerateGates c).idxOf o < 2 ^ wordSize c := by
  intro o ho
  have hlt : (enumerateGates c).idxOf o < (enumerateGates c).length := List.idxOf_lt_length_iff.mpr ho
  rw [ct_ids_length hw] at hlt
  have hne : c.gates ≠ [] := by
    intro h; rw [h] at hlt; simp at hlt
  rw [ct_wordSize_ne hne]
  apply ct_fit
  omega

theorem ct_inputs_fit {c : Circuit} (hw : WFS c) : c.inputs.length < 2 ^ wordSize c := by
  by_cases hne : c.gates = []
  · have := ct_inputs_le hw
    rw [hne] at this
    rw [ct_wordSize_nil hne]
    simp at this
    simp [this]
  · rw [ct_wordSize_ne hne]; apply ct_fit; omega

theorem ct_outputs_fit {c : Circuit} (hw : WFS c) : c.outputs.length < 2 ^ wordSize c := by
  by_cases hne : c.gates = []
  · have : c.outputs = [] := by
      cases ho : c.outputs with
      | nil => rfl
      | cons o t =>
        have := hw.outputsOK o (by simp [ho])
        simp [Circuit.labels, hne] at this
    rw [ct_wordSize_nil hne, this]; simp
  · rw [ct_wordSize_ne hne]; apply ct_fit; omega

/-- a well-formed non-empty circuit all of whose non-input gates have an operand has an input -/
theorem ct_exists_input {c : Circuit} (hw : WFS c) (hpos : ∀ g ∈ c.gates, g.ty ≠ INPUT → g.ops ≠ [])
    (hne : c.gates ≠ []) : ∃ g ∈ c.gates, g.ty = INPUT := by
  obtain ⟨r, hr⟩ := hw.rank
  have key : ∀ n, ∀ g ∈ c.gates, r g.label ≤ n → ∃ g' ∈ c.gates, g'.ty = INPUT := by
    intro n
    induction n with
    | zero =>
      intro g hg hn
      by_cases ht : g.ty = INPUT
      · exact ⟨g, hg, ht⟩
      · cases hops : g.ops with
        | nil => exact absurd hops (hpos g hg ht)
        | cons o t =>
          have := hr g hg o (by simp [hops])
          omega
    | succ n ih =>
      intro g hg hn
      by_cases ht : g.ty = INPUT
      · exact ⟨g, hg, ht⟩
      · cases hops : g.ops with
        | nil => exact absurd hops (hpos g hg ht)
        | cons o t =>
          have ho : o ∈ g.ops := by simp [hops]
          have := hr g hg o ho
          obtain ⟨g', hg', hl⟩ := gate_of_label (hw.closed g hg o ho)
          exact ih g' hg' (by rw [hl]; omega)
  cases hgs : c.gates with
  | nil => exact absurd hgs hne
  | cons g t =>
    obtain ⟨g', hg', ht⟩ := key _ g (by simp [hgs]) (Nat.le_refl _)
    exact ⟨g', by simpa [hgs] using hg', ht⟩

theorem ct_arity_pos (ty : GateType) : 0 < Gen.codecArity ty := by
  cases ty <;> decide

/-- the number of non-input gates fits as soon as there is an input gate (or no gate at all) -/
theorem ct_count_fit {c : Circuit} (hin : c.gates = [] ∨ ∃ g ∈ c.gates, g.ty = INPUT) :
    nonInputCount c < 2 ^ wordSize c := by
  rcases hin with hnil | ⟨g, hg, ht⟩
  · rw [ct_wordSize_nil hnil]; simp [nonInputCount, hnil]
  · have hne : c.gates ≠ [] := by intro h; rw [h] at hg; cases hg
    have hlt : (c.gates.filter (fun g => g.ty != INPUT)).length < c.gates.length :=
      List.length_filter_lt_length_iff_exists.mpr ⟨g, hg, by simp [ht]⟩
    rw [ct_wordSize_ne hne]
    apply ct_fit
    unfold nonInputCount
    omega

/-! ## writer states: `.ok`, or an error satisfying `D` -/

def ct_WG (D : String → Prop) : W → Prop
  | .ok _ => True
  | .error e => D e

theorem ct_wnum_ok (pre : List Bool) {k w : Nat} (h : k < 2 ^ w) :
    wnum (.ok pre) k w = .ok (pre ++ numBits k w) := by
  unfold wnum
  simp only [writeNumber_some k w h]

theorem ct_wnum_err (pre : List Bool) {k w : Nat} (h : 2 ^ w ≤ k) :
    wnum (.ok pre) k w = .error "BitIOError" := by
  unfold wnum
  simp only [writeNumber_none k w h]

theorem ct_wnum_wg {D : String → Prop} {w : W} {k width : Nat} (hB : D "BitIOError" ∨ k < 2 ^ width)
    (hw : ct_WG D w) : ct_WG D (wnum w k width) := by
  cases w with
  | error e => exact hw
  | ok pre =>
    by_cases hk : k < 2 ^ width
    · rw [ct_wnum_ok pre hk]; trivial
    · rw [ct_wnum_err pre (Nat.le_of_not_lt hk)]
      rcases hB with hB | hB
      · exact hB
      · exact absurd hB hk

theorem ct_idOf {ids : List Label} {o : Label} (hm : o ∈ ids) : idOf ids o = some (ids.idxOf o) := by
  unfold idOf
  simp [List.idxOf_lt_length_iff.mpr hm]

theorem ct_opStep_wg {D : String → Prop} {ids : List Label} {ws : Nat} {w : W} {o : Label} (hm : o ∈ ids)
    (hB : D "BitIOError" ∨ ids.idxOf o < 2 ^ ws) (hw : ct_WG D w) : ct_WG D (opStep ids ws w o) := by
  cases w with
  | error e => exact hw
  | ok pre =>
    unfold opStep
    simp only [ct_idOf hm]
    exact ct_wnum_wg hB hw

theorem ct_opFold_wg {D : String → Prop} {ids : List Label} {ws : Nat} : ∀ (ops : List Label) (w : W),
    (∀ o ∈ ops, o ∈ ids ∧ (D "BitIOError" ∨ ids.idxOf o < 2 ^ ws)) → ct_WG D w →
    ct_WG D (ops.foldl (opStep ids ws) w) := by
  intro ops
  induction ops with
  | nil => intro w _ hw; exact hw
  | cons o t ih =>
    intro w h hw
    simp only [List.foldl_cons]
    exact ih _ (fun x hx => h x (by simp [hx]))
      (ct_opStep_wg (h o (by simp)).1 (h o (by simp)).2 hw)

/-- `encodeGate` on an `.ok` state as a fold of `opStep` (definitional) -/
theorem ct_encodeGate_eq (ids : List Label) (ws : Nat) (pre : List Bool) (g : Gate) :
    encodeGate ids ws (.ok pre) g =
      if g.ty = INPUT then .ok pre else
      match Gen.codecTypeId g.ty with
      | none => .error "CircuitEncodingError"
      | some tid =>
        if g.ops.length ≠ Gen.codecArity g.ty then .error "CircuitEncodingError" else
        g.ops.foldl (opStep ids ws) (wnum (.ok pre) tid Gen.gateTypeBitSize) := rfl

theorem ct_encodeGate_wg {D : String → Prop} {ids : List Label} {ws : Nat} {pre : List Bool} {g : Gate}
    (hC : D "CircuitEncodingError" ∨ (g.ty ≠ INPUT →
      (Gen.codecTypeId g.ty).isSome ∧ g.ops.length = Gen.codecArity g.ty))
    (ho : ∀ o ∈ g.ops, o ∈ ids ∧ (D "BitIOError" ∨ ids.idxOf o < 2 ^ ws)) :
    ct_WG D (encodeGate ids ws (.ok pre) g) := by
  rw [ct_encodeGate_eq]
  by_cases ht : g.ty = INPUT
  · simp only [ht, if_true]; trivial
  · simp only [ht, if_false]
    cases htid : Gen.codecTypeId g.ty with
    | none =>
      simp only
      rcases hC with hC | hC
      · exact hC
      · have := (hC ht).1; rw [htid] at this; cases this
    | some tid =>
      simp only
      by_cases har : g.ops.length = Gen.codecArity g.ty
      · simp only [ne_eq, har, not_true, if_false]
        exact ct_opFold_wg g.ops _ ho (ct_wnum_wg (Or.inr (codecType_table htid).1) trivial)
      · simp only [ne_eq, har, not_false_eq_true, if_true]
        rcases hC with hC | hC
        · exact hC
        · exact absurd (hC ht).2 har

theorem ct_gateStep_wg {D : String → Prop} {c : Circuit} (hw : WFS c) {ids : List Label} {ws : Nat}
    (hall : ∀ l, l ∈ ids ↔ l ∈ c.labels)
    (hC : D "CircuitEncodingError" ∨ (∀ g ∈ c.gates, g.ty ≠ INPUT →
      (Gen.codecTypeId g.ty).isSome ∧ g.ops.length = Gen.codecArity g.ty))
    (hB : D "BitIOError" ∨ ∀ o ∈ ids, ids.idxOf o < 2 ^ ws)
    {w : W} {l : Label} (hl : l ∈ ids) (hwg : ct_WG D w) : ct_WG D (gateStep c ids ws w l) := by
  cases w with
  | error e => exact hwg
  | ok pre =>
    obtain ⟨g, hg, hgl⟩ := gate_of_label ((hall l).mp hl)
    have hf : c.find? l = some g := by rw [← hgl]; exact find_label hw.nodup hg
    unfold gateStep
    simp only [hf]
    apply ct_encodeGate_wg
    · rcases hC with hC | hC
      · exact Or.inl hC
      · exact Or.inr (hC g hg)
    · intro o ho
      have hm : o ∈ ids := (hall o).mpr (hw.closed g hg o ho)
      refine ⟨hm, ?_⟩
      rcases hB with hB | hB
      · exact Or.inl hB
      · exact Or.inr (hB o hm)

theorem ct_gateFold_wg {D : String → Prop} {c : Circuit} (hw : WFS c) {ids : List Label} {ws : Nat}
    (hall : ∀ l, l ∈ ids ↔ l ∈ c.labels)
    (hC : D "CircuitEncodingError" ∨ (∀ g ∈ c.gates, g.ty ≠ INPUT →
      (Gen.codecTypeId g.ty).isSome ∧ g.ops.length = Gen.codecArity g.ty))
    (hB : D "BitIOError" ∨ ∀ o ∈ ids, ids.idxOf o < 2 ^ ws) :
    ∀ (ls : List Label) (w : W), (∀ l ∈ ls, l ∈ ids) → ct_WG D w →
      ct_WG D (ls.foldl (gateStep c ids ws) w) := by
  intro ls
  induction ls with
  | nil => intro w _ h; exact h
  | cons l t ih =>
    intro w hls h
    simp only [List.foldl_cons]
    exact ih _ (fun x hx => hls x (by simp [hx])) (ct_gateStep_wg hw hall hC hB (hls l (by simp)) h)

/-- `encodeCircuit` as the two named folds (definitional) -/
theorem ct_encode_eq (c : Circuit) : encodeCircuit c =
    (match c.outputs.foldl (opStep (enumerateGates c) (wordSize c))
        ((enumerateGates c).foldl (gateStep c (enumerateGates c) (wordSize c))
          (wnum (wnum (wnum (wnum (.ok []) (wordSize c) 8) c.inputs.length (wordSize c))
            c.outputs.length (wordSize c)) (nonInputCount c) (wordSize c))) with
      | .error e => Except.error e
      | .ok bits => .ok (packBytes bits)) := rfl

/-- the master statement: the final writer state is `.ok` or an error in `D`, where `D` has to contain
an error only if the corresponding failure is not excluded -/
theorem ct_encode_wg {D : String → Prop} {c : Circuit} (hw : WFS c)
    (hC : D "CircuitEncodingError" ∨ (∀ g ∈ c.gates, g.ty ≠ INPUT →
      (Gen.codecTypeId g.ty).isSome ∧ g.ops.length = Gen.codecArity g.ty))
    (hS : D "BitIOError" ∨ wordSize c < 256)
    (hN : D "BitIOError" ∨ nonInputCount c < 2 ^ wordSize c) :
    ct_WG D (c.outputs.foldl (opStep (enumerateGates c) (wordSize c))
        ((enumerateGates c).foldl (gateStep c (enumerateGates c) (wordSize c))
          (wnum (wnum (wnum (wnum (.ok []) (wordSize c) 8) c.inputs.length (wordSize c))
            c.outputs.length (wordSize c)) (nonInputCount c) (wordSize c)))) := by
  have e := ct_enumOK hw
  have hfit := ct_idx_fit hw
  apply ct_opFold_wg
  · intro o ho
    have hm : o ∈ enumerateGates c := (e.all o).mpr (hw.outputsOK o ho)
    exact ⟨hm, Or.inr (hfit o hm)⟩
  · apply ct_gateFold_wg hw e.all hC (Or.inr hfit) _ _ (fun l hl => hl)
    apply ct_wnum_wg hN
    apply ct_wnum_wg (Or.inr (ct_outputs_fit hw))
    apply ct_wnum_wg (Or.inr (ct_inputs_fit hw))
    apply ct_wnum_wg _ (show ct_WG D (.ok []) from trivial)
    rcases hS with hS | hS
    · exact Or.inl hS
    · exact Or.inr (by simpa using hS)

/-- the last step of `encodeCircuit` -/
theorem ct_final {D : String → Prop} {w3 : W} (hg : ct_WG D w3) {e : String}
    (h : (match w3 with
      | .error e => Except.error e
      | .ok bits => Except.ok (packBytes bits)) = .error e) : D e := by
  cases w3 with
  | ok bits => cases h
  | error e' =>
    simp only [Except.error.injEq] at h
    subst h
    exact hg

theorem ct_final_ok {w3 : W} (hg : ct_WG (fun _ => False) w3) :
    ∃ bytes, (match w3 with
      | .error e => Except.error e
      | .ok bits => Except.ok (packBytes bits)) = .ok bytes := by
  cases w3 with
  | ok bits => exact ⟨_, rfl⟩
  | error e' => exact hg.elim

/-! ## the theorems -/

/-- `encode_circuit` raises only `CircuitEncodingError` or `BitIOError` on a well-formed circuit -/
theorem ct_encode_error_range {c : Circuit} (hw : WFS c) {e : String} (h : encodeCircuit c = .error e) :
    e = "CircuitEncodingError" ∨ e = "BitIOError" := by
  have hg := ct_encode_wg (D := fun e => e = "CircuitEncodingError" ∨ e = "BitIOError") hw
    (Or.inl (Or.inl rfl)) (Or.inl (Or.inr rfl)) (Or.inl (Or.inr rfl))
  exact ct_final hg h

/-- **Totality.**  A well-formed circuit that uses only the gate types and arities the format
defines is encoded, whatever the order of its gates and the number of its inputs; the only size
condition is that the word size fits in the one-byte header. -/
theorem ct_encode_total {c : Circuit} (hw : WFS c)
    (hconf : ∀ g ∈ c.gates, g.ty ≠ INPUT →
      (Gen.codecTypeId g.ty).isSome ∧ g.ops.length = Gen.codecArity g.ty)
    (hws : wordSize c < 256) : ∃ bytes, encodeCircuit c = .ok bytes := by
  have hin : c.gates = [] ∨ ∃ g ∈ c.gates, g.ty = INPUT := by
    by_cases hne : c.gates = []
    · exact Or.inl hne
    · refine Or.inr (ct_exists_input hw ?_ hne)
      intro g hg ht hops
      have := (hconf g hg ht).2
      rw [hops] at this
      have := ct_arity_pos g.ty
      simp at *
      omega
  have hg := ct_encode_wg (D := fun _ => False) hw (Or.inr hconf) (Or.inr hws) (Or.inr (ct_count_fit hin))
  exact ct_final_ok hg

/-- a word size that does not fit in the header byte is refused with `BitIOError` -/
theorem ct_encode_wordsize_error {c : Circuit} (h : 256 ≤ wordSize c) :
    encodeCircuit c = .error "BitIOError" := by
  rw [ct_encode_eq, ct_wnum_err [] (by simpa using h)]
  simp only [wnum_error, gateFold_error, opFold_error]

/-- **Exactly which well-formed circuits are encoded.** -/
theorem ct_encode_ok_iff {c : Circuit} (hw : WFS c) :
    (∃ bytes, encodeCircuit c = .ok bytes) ↔
      ((∀ g ∈ c.gates, g.ty ≠ INPUT →
        (Gen.codecTypeId g.ty).isSome ∧ g.ops.length = Gen.codecArity g.ty) ∧ wordSize c < 256) := by
  constructor
  · rintro ⟨bytes, h⟩
    obtain ⟨_, hws, _, _, _, hgates, _⟩ := encode_unfold h
    refine ⟨?_, by simpa using hws⟩
    intro g hg ht
    have hm : g ∈ nonInputGates c (enumerateGates c) :=
      mem_nonInputGates.mpr ⟨⟨g.label, ((ct_enumOK hw).all _).mpr (mem_labels_of_mem hg),
        find_label hw.nodup hg⟩, ht⟩
    obtain ⟨⟨tid, htid⟩, har, _⟩ := hgates g hm
    exact ⟨by simp [htid], har⟩
  · rintro ⟨hconf, hws⟩
    exact ct_encode_total hw hconf hws

/-- with conforming gates the only possible error is the header overflow -/
theorem ct_encode_error_conf {c : Circuit} (hw : WFS c)
    (hconf : ∀ g ∈ c.gates, g.ty ≠ INPUT →
      (Gen.codecTypeId g.ty).isSome ∧ g.ops.length = Gen.codecArity g.ty)
    {e : String} (h : encodeCircuit c = .error e) : e = "BitIOError" ∧ 256 ≤ wordSize c := by
  by_cases hws : wordSize c < 256
  · obtain ⟨b, hb⟩ := ct_encode_total hw hconf hws
    rw [hb] at h; cases h
  · have h256 : 256 ≤ wordSize c := Nat.le_of_not_lt hws
    rw [ct_encode_wordsize_error h256] at h
    simp only [Except.error.injEq] at h
    exact ⟨h.symm, h256⟩

/-- if the header fits and the circuit has an input gate (or no gate), the only error is
`CircuitEncodingError` (an unsupported gate type or operand count) -/
theorem ct_encode_error_cee {c : Circuit} (hw : WFS c) (hws : wordSize c < 256)
    (hin : c.gates = [] ∨ ∃ g ∈ c.gates, g.ty = INPUT)
    {e : String} (h : encodeCircuit c = .error e) : e = "CircuitEncodingError" := by
  have hg := ct_encode_wg (D := fun e => e = "CircuitEncodingError") hw
    (Or.inl rfl) (Or.inr hws) (Or.inr (ct_count_fit hin))
  exact ct_final hg h

/-- the size condition in natural terms: the header overflows exactly when the number of inputs, the
number of outputs or the number of gates minus one reaches `2^255` -/
theorem ct_wordSize_lt_iff {c : Circuit} (hne : c.gates ≠ []) :
    wordSize c < 256 ↔ max (max c.inputs.length c.outputs.length) (c.gates.length - 1) < 2 ^ 255 := by
  rw [ct_wordSize_ne hne]
  constructor
  · intro h
    apply Nat.lt_of_not_le
    intro hge
    have := ct_bitLength_ge hge
    omega
  · intro h
    exact ct_bitLength_lt h

theorem ct_wordSize_small {c : Circuit} (hi : c.inputs.length < 2 ^ 255) (ho : c.outputs.length < 2 ^ 255)
    (hg : c.gates.length ≤ 2 ^ 255) : wordSize c < 256 := by
  by_cases hne : c.gates = []
  · rw [ct_wordSize_nil hne]; decide
  · rw [ct_wordSize_lt_iff hne]
    have hpos : 0 < c.gates.length := List.length_pos_iff.mpr hne
    have h1 : c.gates.length - 1 < 2 ^ 255 := Nat.lt_of_lt_of_le (Nat.sub_lt hpos (by decide)) hg
    exact Nat.max_lt.mpr ⟨Nat.max_lt.mpr ⟨hi, ho⟩, h1⟩

/-- **Encode then decode succeeds** under the same hypotheses, and the decoded circuit is the one
described by `codec_roundtrip` -/
theorem ct_roundtrip_total {c : Circuit} (hw : WFS c)
    (hconf : ∀ g ∈ c.gates, g.ty ≠ INPUT →
      (Gen.codecTypeId g.ty).isSome ∧ g.ops.length = Gen.codecArity g.ty)
    (hws : wordSize c < 256) :
    ∃ bytes D, encodeCircuit c = .ok bytes ∧ decodeCircuit bytes = .ok D ∧
      D.gates = ((enumerateGates c).filterMap c.find?).map (renC (enumerateGates c)) ∧
      D.inputs = c.inputs.map (fun l => gateLabel ((enumerateGates c).idxOf l)) ∧
      D.outputs = c.outputs.map (fun l => gateLabel ((enumerateGates c).idxOf l)) := by
  obtain ⟨bytes, he⟩ := ct_encode_total hw hconf hws
  obtain ⟨D, hd, g1, g2, g3, _⟩ := codec_roundtrip hw he
  exact ⟨bytes, D, he, hd, g1, g2, g3⟩

end Cirbo

#print axioms Cirbo.ct_encode_total
#print axioms Cirbo.ct_encode_ok_iff
#print axioms Cirbo.ct_encode_error_range
#print axioms Cirbo.ct_encode_error_conf
#print axioms Cirbo.ct_encode_error_cee
#print axioms Cirbo.ct_roundtrip_total
#print axioms Cirbo.ct_wordSize_small
