import Cirbo.Proofs.BenchStmts
/-!
# Bench lines in any layout — part A: spaces, keywords in any letter case, operand lists
-/
namespace Cirbo
open GateType

/-- a run of spaces -/
def Sp (s : Str) : Prop := ∀ ch ∈ s, ch = ' '

theorem Sp.contains {s : Str} (h : Sp s) : ∀ ch ∈ s, ([' '] : Str).contains ch = true := by
  intro ch hch; rw [h ch hch]; decide

theorem sp_nil : Sp [] := by intro ch h; cases h

/-! ## `strip` -/

theorem dropWhile_all_nil {p : Char → Bool} : ∀ (l : Str), (∀ ch ∈ l, p ch = true) → l.dropWhile p = [] := by
  intro l
  induction l with
  | nil => intro _; rfl
  | cons a r ih =>
    intro h
    simp only [List.dropWhile_cons, h a (by simp), if_true]
    exact ih (fun ch hch => h ch (by simp [hch]))

theorem mem_takeWhile_true {p : Char → Bool} {l : Str} {x : Char} (h : x ∈ l.takeWhile p) : p x = true := by
  have := List.all_takeWhile (p := p) (l := l)
  exact List.all_eq_true.mp this x h

theorem dropWhile_append_stop {p : Char → Bool} : ∀ (Z Y : Str), (∀ y0 r, Y = y0 :: r → p y0 = false) →
    (Z ++ Y).dropWhile p = Z.dropWhile p ++ Y := by
  intro Z
  induction Z with
  | nil =>
    intro Y hY
    cases Y with
    | nil => rfl
    | cons y0 r => simp [List.dropWhile_cons, hY y0 r rfl]
  | cons z Z' ih =>
    intro Y hY
    simp only [List.cons_append, List.dropWhile_cons]
    split
    · exact ih Y hY
    · rfl

/-- stripping keeps a word that starts and ends with a character outside the set, whatever
follows it, and removes the padding in front -/
theorem stripSet_keep {set pre X T : Str} (hne : X ≠ []) (hpre : ∀ ch ∈ pre, set.contains ch = true)
    (hhead : ∀ c0 r, X = c0 :: r → set.contains c0 = false)
    (hlast : ∀ c0 r, X.reverse = c0 :: r → set.contains c0 = false) :
    ∃ T', stripSet set (pre ++ X ++ T) = X ++ T' := by
  unfold stripSet
  have h1 : (pre ++ X ++ T).dropWhile (fun ch => set.contains ch) = X ++ T := by
    rw [List.append_assoc]
    apply dropWhile_pad hpre
    intro c0 r e
    cases X with
    | nil => exact absurd rfl hne
    | cons a t => simp only [List.cons_append, List.cons.injEq] at e; exact e.1 ▸ hhead a t rfl
  rw [h1, List.reverse_append, dropWhile_append_stop _ _ hlast, List.reverse_append, List.reverse_reverse]
  exact ⟨_, rfl⟩

theorem stripSet_cons_space (x : Str) : stripSet [' '] (' ' :: x) = stripSet [' '] x := by
  unfold stripSet
  have : ([' '] : Str).contains ' ' = true := by decide
  simp only [List.dropWhile_cons, this, if_true]

theorem stripSet_snoc_space (x : Str) : stripSet [' '] (x ++ [' ']) = stripSet [' '] x := by
  unfold stripSet
  have hc : ([' '] : Str).contains ' ' = true := by decide
  -- left: dropWhile over x ++ [' ']
  by_cases hall : ∀ ch ∈ x, ([' '] : Str).contains ch = true
  · have e1 : (x ++ [' ']).dropWhile (fun ch => ([' '] : Str).contains ch) = [] := by
      apply dropWhile_all_nil
      intro ch hch
      rcases List.mem_append.mp hch with h | h
      · exact hall ch h
      · simp only [List.mem_singleton] at h; subst h; exact hc
    have e2 : x.dropWhile (fun ch => ([' '] : Str).contains ch) = [] :=
      dropWhile_all_nil _ hall
    rw [e1, e2]
  · have hstop : ∀ (x : Str), (¬ ∀ ch ∈ x, ([' '] : Str).contains ch = true) →
        (x ++ [' ']).dropWhile (fun ch => ([' '] : Str).contains ch) =
          x.dropWhile (fun ch => ([' '] : Str).contains ch) ++ [' '] := by
      intro x
      induction x with
      | nil => intro h; exact absurd (by intro ch h; cases h) h
      | cons a r ih =>
        intro h
        simp only [List.cons_append, List.dropWhile_cons]
        split
        · rename_i ha
          apply ih
          intro hr; apply h
          intro ch hch
          rcases List.mem_cons.mp hch with rfl | hch
          · exact ha
          · exact hr ch hch
        · rfl
    rw [hstop x hall, List.reverse_append]
    simp only [List.reverse_cons, List.reverse_nil, List.nil_append, List.singleton_append,
      List.dropWhile_cons, hc, if_true]

theorem stripSet_sp {s : Str} (h : Sp s) : stripSet [' '] s = [] := by
  induction s with
  | nil => rfl
  | cons a r ih =>
    have : a = ' ' := h a (by simp)
    subst this
    rw [stripSet_cons_space]
    exact ih (fun ch hch => h ch (by simp [hch]))

/-! ## `split(',')` then `strip` does not care about outer padding -/

theorem splitOn_ne_nil (sep : Char) (a : Str) : splitOn sep a ≠ [] := by
  cases a with
  | nil => simp [splitOn]
  | cons ch r =>
    unfold splitOn
    split
    · simp
    · split <;> simp

theorem splitOn_cons_space {a : Str} : ∃ x xs, splitOn ',' a = x :: xs ∧ splitOn ',' (' ' :: a) = (' ' :: x) :: xs := by
  cases hs : splitOn ',' a with
  | nil => exact absurd hs (splitOn_ne_nil _ _)
  | cons x xs =>
    refine ⟨x, xs, rfl, ?_⟩
    have hne : (' ' : Char) ≠ ',' := by decide
    simp [splitOn, hne, hs]

theorem splitOn_snoc_space : ∀ (a : Str), ∃ init last, splitOn ',' a = init ++ [last] ∧
    splitOn ',' (a ++ [' ']) = init ++ [last ++ [' ']] := by
  intro a
  induction a with
  | nil => exact ⟨[], [], by simp [splitOn], by simp [splitOn]⟩
  | cons ch r ih =>
    obtain ⟨init, last, h1, h2⟩ := ih
    by_cases hc : ch = ','
    · subst hc
      exact ⟨[] :: init, last, by simp [splitOn, h1], by simp [splitOn, h2]⟩
    · cases init with
      | nil =>
        refine ⟨[], ch :: last, ?_, ?_⟩
        · simp only [splitOn, hc, if_false, h1, List.nil_append]
        · simp only [List.cons_append, splitOn, hc, if_false, h2, List.nil_append]
      | cons x xs =>
        refine ⟨(ch :: x) :: xs, last, ?_, ?_⟩
        · simp only [splitOn, hc, if_false, h1, List.cons_append]
        · simp only [List.cons_append, splitOn, hc, if_false, h2]

theorem split_strip_left : ∀ (a : Str),
    (splitOn ',' (a.dropWhile (fun ch => ([' '] : Str).contains ch))).map (stripSet [' ']) =
      (splitOn ',' a).map (stripSet [' ']) := by
  intro a
  induction a with
  | nil => rfl
  | cons ch r ih =>
    by_cases hc : ch = ' '
    · subst hc
      have : ([' '] : Str).contains ' ' = true := by decide
      simp only [List.dropWhile_cons, this, if_true]
      rw [ih]
      obtain ⟨x, xs, h1, h2⟩ := splitOn_cons_space (a := r)
      rw [h1, h2]
      simp only [List.map_cons, stripSet_cons_space]
    · have : ([' '] : Str).contains ch = false := by simp [hc]
      simp only [List.dropWhile_cons, this, Bool.false_eq_true, if_false]

theorem split_strip_right_sp : ∀ (S a : Str), Sp S →
    (splitOn ',' (a ++ S)).map (stripSet [' ']) = (splitOn ',' a).map (stripSet [' ']) := by
  intro S
  induction S with
  | nil => intro a _; simp
  | cons s S' ih =>
    intro a hS
    have hs : s = ' ' := hS s (by simp)
    subst hs
    have : a ++ ' ' :: S' = (a ++ [' ']) ++ S' := by simp
    rw [this, ih (a ++ [' ']) (fun ch hch => hS ch (by simp [hch]))]
    obtain ⟨init, last, h1, h2⟩ := splitOn_snoc_space a
    rw [h1, h2]
    simp only [List.map_append, List.map_cons, List.map_nil, stripSet_snoc_space]

/-- **outer padding is irrelevant**: splitting the stripped operand string and stripping the pieces
is the same as splitting the raw one and stripping the pieces -/
theorem split_strip_irrelevant (a : Str) :
    (splitOn ',' (stripSet [' '] a)).map (stripSet [' ']) = (splitOn ',' a).map (stripSet [' ']) := by
  rw [← split_strip_left a]
  unfold stripSet
  generalize a.dropWhile (fun ch => ([' '] : Str).contains ch) = b
  have hdecomp : (b.reverse.dropWhile (fun ch => ([' '] : Str).contains ch)).reverse ++
      (b.reverse.takeWhile (fun ch => ([' '] : Str).contains ch)).reverse = b := by
    rw [← List.reverse_append, List.takeWhile_append_dropWhile, List.reverse_reverse]
  have hS : Sp (b.reverse.takeWhile (fun ch => ([' '] : Str).contains ch)).reverse := by
    intro ch hch
    have := mem_takeWhile_true (List.mem_reverse.mp hch)
    simpa using this
  have h1 := split_strip_right_sp _ ((b.reverse.dropWhile (fun ch => ([' '] : Str).contains ch)).reverse) hS
  rw [hdecomp] at h1
  unfold stripSet at h1
  exact h1.symm

/-! ## operand lists in any layout -/

theorem splitOn_join : ∀ (xs : List Str), xs ≠ [] → (∀ x ∈ xs, ',' ∉ x) → splitOn ',' (joinWith [','] xs) = xs := by
  intro xs
  induction xs with
  | nil => intro h; exact absurd rfl h
  | cons x r ih =>
    intro _ h
    cases r with
    | nil => simp only [joinWith]; exact splitOn_no_sep (h x (by simp))
    | cons y r' =>
      have e : joinWith [','] (x :: y :: r') = x ++ ',' :: joinWith [','] (y :: r') := by simp [joinWith]
      rw [e, splitOn_append_sep (h x (by simp)), ih (by simp) (fun z hz => h z (by simp [hz]))]

def padOp (o : Label) (p : Str × Str) : Str := p.1 ++ o.toList ++ p.2

theorem strip_padOp {o : Label} {p : Str × Str} (ho : IsIdent o.toList) (h1 : Sp p.1) (h2 : Sp p.2) :
    stripSet [' '] (padOp o p) = o.toList := by
  unfold padOp
  exact stripSet_pad ho.1 h1.contains h2.contains
    (fun c0 r e => contains_space_false (ident_no_space ho c0 (by rw [e]; simp)))
    (fun c0 r e => contains_space_false (ident_no_space ho c0 (by
      have : c0 ∈ o.toList.reverse := by rw [e]; simp
      simpa using this)))

/-- the text between the parentheses: operands separated by commas, each with any spaces around it
(only spaces when there is no operand) -/
def ArgsLayout (ops : List Label) (A : Str) : Prop :=
  (ops = [] ∧ Sp A) ∨
  (ops ≠ [] ∧ ∃ pads : List (Str × Str), pads.length = ops.length ∧ (∀ p ∈ pads, Sp p.1 ∧ Sp p.2) ∧
    A = joinWith [','] (List.zipWith padOp ops pads))

theorem joinWith_chars (sep : Str) : ∀ (xs : List Str) (ch : Char), ch ∈ joinWith sep xs →
    (∃ x ∈ xs, ch ∈ x) ∨ ch ∈ sep := by
  intro xs
  induction xs with
  | nil => intro ch h; cases h
  | cons x r ih =>
    intro ch h
    cases r with
    | nil => simp only [joinWith] at h; exact Or.inl ⟨x, by simp, h⟩
    | cons y r' =>
      have e : joinWith sep (x :: y :: r') = x ++ sep ++ joinWith sep (y :: r') := by simp [joinWith]
      rw [e] at h
      simp only [List.mem_append] at h
      rcases h with (h | h) | h
      · exact Or.inl ⟨x, by simp, h⟩
      · exact Or.inr h
      · rcases ih ch h with ⟨z, hz, hc⟩ | hc
        · exact Or.inl ⟨z, by simp [hz], hc⟩
        · exact Or.inr hc

theorem mem_zipWith_padOp {ops : List Label} {pads : List (Str × Str)} {x : Str}
    (h : x ∈ List.zipWith padOp ops pads) : ∃ o ∈ ops, ∃ p ∈ pads, x = padOp o p := by
  induction ops generalizing pads with
  | nil => simp at h
  | cons o r ih =>
    cases pads with
    | nil => simp at h
    | cons p ps =>
      simp only [List.zipWith_cons_cons, List.mem_cons] at h
      rcases h with rfl | h
      · exact ⟨o, by simp, p, by simp, rfl⟩
      · obtain ⟨o', ho', p', hp', e⟩ := ih h
        exact ⟨o', by simp [ho'], p', by simp [hp'], e⟩

theorem argsLayout_chars {ops : List Label} {A : Str} (h : ArgsLayout ops A)
    (hops : ∀ o ∈ ops, IsIdent o.toList) : ∀ ch ∈ A, ch ≠ '(' ∧ ch ≠ ')' ∧ ch ≠ '\n' := by
  intro ch hch
  rcases h with ⟨_, hsp⟩ | ⟨_, pads, _, hp, rfl⟩
  · rw [hsp ch hch]; decide
  · rcases joinWith_chars _ _ ch hch with ⟨x, hx, hc⟩ | hc
    · obtain ⟨o, ho, p, hpm, rfl⟩ := mem_zipWith_padOp hx
      unfold padOp at hc
      simp only [List.mem_append] at hc
      rcases hc with (hc | hc) | hc
      · rw [(hp p hpm).1 ch hc]; decide
      · have := (hops o ho).2 ch hc
        refine ⟨?_, ?_, ?_⟩ <;> (intro e; rw [e] at this; revert this; decide)
      · rw [(hp p hpm).2 ch hc]; decide
    · simp only [List.mem_singleton] at hc; rw [hc]; decide

theorem zipWith_padOp_strip : ∀ (ops : List Label) (pads : List (Str × Str)), pads.length = ops.length →
    (∀ o ∈ ops, IsIdent o.toList) → (∀ p ∈ pads, Sp p.1 ∧ Sp p.2) →
    (List.zipWith padOp ops pads).map (fun a => String.ofList (stripSet [' '] a)) = ops := by
  intro ops
  induction ops with
  | nil => intro pads _ _ _; simp
  | cons o r ih =>
    intro pads hl hops hp
    cases pads with
    | nil => simp at hl
    | cons p ps =>
      simp only [List.zipWith_cons_cons, List.map_cons]
      rw [strip_padOp (hops o (by simp)) (hp p (by simp)).1 (hp p (by simp)).2, String.ofList_toList]
      rw [ih ps (by simpa using hl) (fun x hx => hops x (by simp [hx])) (fun q hq => hp q (by simp [hq]))]

/-- **the operand list is read back** from any such layout: `split(',')` of the stripped text, each
piece stripped (one empty piece when there is no operand) -/
theorem argsLayout_parse {ops : List Label} {A : Str} (h : ArgsLayout ops A)
    (hops : ∀ o ∈ ops, IsIdent o.toList) :
    (splitOn ',' (stripSet [' '] A)).map (fun a => String.ofList (stripSet [' '] a)) =
      if ops = [] then [""] else ops := by
  rcases h with ⟨h0, hsp⟩ | ⟨hne, pads, hl, hp, rfl⟩
  · rw [if_pos h0, stripSet_sp hsp]
    simp [splitOn, stripSet]
  · rw [if_neg hne]
    have hmm : (splitOn ',' (stripSet [' '] (joinWith [','] (List.zipWith padOp ops pads)))).map
          (fun a => String.ofList (stripSet [' '] a))
        = ((splitOn ',' (stripSet [' '] (joinWith [','] (List.zipWith padOp ops pads)))).map (stripSet [' '])).map String.ofList := by
      rw [List.map_map]; rfl
    rw [hmm, split_strip_irrelevant]
    have hzne : List.zipWith padOp ops pads ≠ [] := by
      cases ops with
      | nil => exact absurd rfl hne
      | cons o r =>
        cases pads with
        | nil => simp at hl
        | cons p ps => simp
    rw [splitOn_join _ hzne (by
      intro x hx
      obtain ⟨o, ho, p, hpm, rfl⟩ := mem_zipWith_padOp hx
      unfold padOp
      simp only [List.mem_append, not_or]
      refine ⟨⟨?_, ident_no_comma (hops o ho)⟩, ?_⟩
      · intro hm; have := (hp p hpm).1 _ hm; revert this; decide
      · intro hm; have := (hp p hpm).2 _ hm; revert this; decide)]
    rw [List.map_map]
    exact zipWith_padOp_strip ops pads hl hops hp

/-! ## keywords in any letter case -/

theorem gateType_name_chars (ty : GateType) : ∀ ch ∈ ty.name.toList, ch ≠ '(' ∧ ch ≠ ')' ∧ ch ≠ ' ' ∧ ch ≠ 'V' ∧ ch ≠ '\n' := by
  cases ty <;> decide

theorem toUpper_fix {ch : Char} (h : ch = '(' ∨ ch = ')' ∨ ch = ' ' ∨ ch = '\n') : ch.toUpper = ch := by
  rcases h with rfl | rfl | rfl | rfl <;> decide

/-- a keyword the parser accepts, in any letter case: no parenthesis, space or newline in it, it is
not empty and does not begin with `V`/`v` (so it is never taken for `vdd`) -/
theorem keyword_accept {kw : Str} {ty : GateType} (h : gateTypeOfKeyword (upperS kw) = some ty) :
    kw ≠ [] ∧ (∀ ch ∈ kw, ch ≠ '(' ∧ ch ≠ ')' ∧ ch ≠ ' ' ∧ ch ≠ '\n') ∧
    (∀ c0 r, upperS kw = c0 :: r → c0 ≠ 'V') := by
  -- the upper-cased keyword is `BUFF` or a gate type's name
  have hN : ∃ N : Str, upperS kw = N ∧ N ≠ [] ∧ ∀ ch ∈ N, ch ≠ '(' ∧ ch ≠ ')' ∧ ch ≠ ' ' ∧ ch ≠ 'V' ∧ ch ≠ '\n' := by
    unfold gateTypeOfKeyword at h
    simp only at h
    split at h
    · rename_i hb
      have : upperS kw = "BUFF".toList := by
        have := congrArg String.toList (beq_iff_eq.mp hb)
        simpa using this
      exact ⟨_, this, by decide, by decide⟩
    · split at h
      · cases h
      · unfold GateType.ofName? at h
        have hf := List.find?_some h
        have hn : ty.name = String.ofList (upperS kw) := beq_iff_eq.mp hf
        have : upperS kw = ty.name.toList := by rw [hn]; simp
        refine ⟨_, this, ?_, gateType_name_chars ty⟩
        cases ty <;> decide
  obtain ⟨N, hN1, hN2, hN3⟩ := hN
  refine ⟨?_, ?_, ?_⟩
  · intro e; rw [e] at hN1; exact hN2 (by simpa [upperS] using hN1.symm)
  · intro ch hch
    have hup : ch.toUpper ∈ N := by rw [← hN1]; exact List.mem_map_of_mem hch
    obtain ⟨a, b, c, _, e⟩ := hN3 _ hup
    refine ⟨?_, ?_, ?_, ?_⟩
    · intro e1; rw [e1] at hup; exact (hN3 _ hup).1 (by decide)
    · intro e1; rw [e1] at hup; exact (hN3 _ hup).2.1 (by decide)
    · intro e1; rw [e1] at hup; exact (hN3 _ hup).2.2.1 (by decide)
    · intro e1; rw [e1] at hup; exact (hN3 _ hup).2.2.2.2 (by decide)
  · intro c0 r e
    rw [hN1] at e
    exact (hN3 c0 (by rw [e]; simp)).2.2.2.1

end Cirbo
