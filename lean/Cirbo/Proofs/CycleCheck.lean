import Cirbo.Proofs.DfsOrder
/-!
# `check_circuit_has_no_cycles` raises exactly when a cycle is reachable from the outputs (C20)
-/
namespace Cirbo

theorem childProblem_cve {c : Circuit} {ab : Bool} {st : Label → TState} :
    ∀ {ls : List Label}, childProblem c ab st ls = some "CircuitValidationError" →
      ab = true ∧ ∃ x ∈ ls, st x = .ent := by
  intro ls
  induction ls with
  | nil => intro h; simp [childProblem] at h
  | cons x r ih =>
    intro h
    unfold childProblem at h
    split at h
    · simp at h
    · split at h
      · rename_i hx
        simp only [Bool.and_eq_true, decide_eq_true_eq] at hx
        exact ⟨hx.1, x, by simp, hx.2⟩
      · obtain ⟨h1, y, hy, h2⟩ := ih h
        exact ⟨h1, y, by simp [hy], h2⟩

theorem childProblem_none_ab {c : Circuit} {st : Label → TState} :
    ∀ {ls : List Label}, childProblem c true st ls = none → ∀ x ∈ ls, st x ≠ .ent := by
  intro ls
  induction ls with
  | nil => intro _ x hx; cases hx
  | cons y r ih =>
    intro h x hx
    unfold childProblem at h
    split at h
    · cases h
    · split at h
      · cases h
      · rename_i hy
        simp only [Bool.true_and, decide_eq_true_eq] at hy
        rcases List.mem_cons.mp hx with rfl | hx
        · exact hy
        · exact ih h x hx

/-! ## acyclic ⇒ the check does not raise -/

/-- with a rank on what the queue holds, a step never reports an entered successor -/
theorem trStep_no_cve {c : Circuit} {ab : Bool} {next : Label → List Label} {r : Label → Nat} {s : TrSt}
    (hr : ∀ l ∈ s.queue, ∀ x ∈ next l, r x < r l) (dinv : DInv s) (inv : PInv next r s) :
    trStep c false ab next s ≠ .error "CircuitValidationError" := by
  intro hs
  unfold trStep at hs
  simp only [Bool.false_eq_true, if_false] at hs
  cases htop : s.queue.getLast? with
  | none => simp [htop] at hs
  | some cur =>
    have hr := hr cur (List.mem_of_getLast? htop)
    simp only [htop] at hs
    split at hs
    · simp at hs
    · cases hst : s.st cur with
      | unv =>
        simp only [hst] at hs
        cases hcp : childProblem c ab (setSt s.st cur .ent) (next cur) with
        | none => simp [hcp] at hs
        | some e =>
          simp only [hcp, StepRes.error.injEq] at hs
          subst hs
          obtain ⟨_, x, hx, hxe⟩ := childProblem_cve hcp
          by_cases hxc : x = cur
          · subst hxc; exact Nat.lt_irrefl _ (hr x hx)
          · have hxe' : s.st x = .ent := by simpa [setSt, hxc] using hxe
            obtain ⟨a, b, eab, hxb⟩ := last_split (dinv.entQ x hxe')
            have hcb : cur ∈ b := mem_after_of_last (by rw [← eab]; exact htop) hxc
            have := inv.above a x b eab hxb hxe' cur hcb
            exact Nat.lt_irrefl _ (Nat.lt_trans this (hr x hx))
      | ent => simp [hst] at hs
      | vis => simp [hst] at hs

theorem trLoop_no_cve {c : Circuit} {ab : Bool} {next : Label → List Label} {start : List Label} {r : Label → Nat}
    (hr : ∀ l, Reach next start l → ∀ x ∈ next l, r x < r l) :
    ∀ fuel (s : TrSt), TInv next start s → DInv s → PInv next r s →
      trLoop c false ab next fuel s ≠ .error "CircuitValidationError"
  | 0, s, _, _, _ => by simp [trLoop]
  | fuel+1, s, tinv, dinv, inv => by
    unfold trLoop
    cases hs : trStep c false ab next s with
    | finished => simp
    | error e =>
      simp only [ne_eq, Except.error.injEq]
      intro he; subst he
      exact trStep_no_cve (fun l hl => hr l (tinv.reachQ l hl)) dinv inv hs
    | next s1 =>
      simp only
      exact trLoop_no_cve hr fuel s1 (trStep_inv tinv hs) (trStep_dinv dinv hs)
        (trStep_pinv (fun l hl => hr l (tinv.reachQ l hl)) dinv inv hs)

/-! ## the check does not raise ⇒ acyclic -/

/-- invariant of the aborting traversal: successors of an entered gate that are not finished wait above it -/
structure CycInv (next : Label → List Label) (s : TrSt) : Prop where
  pending : ∀ u, s.st u = .ent → ∀ x ∈ next u, s.st x ≠ .vis →
    ∃ pre post, s.queue = pre ++ u :: post ∧ u ∉ post ∧ x ∈ post
  post : ∀ e1 l e2, exits s.log = e1 ++ l :: e2 → ∀ x ∈ next l, x ∈ e1

theorem trStep_cycinv {c : Circuit} {next : Label → List Label} {s s' : TrSt}
    (dinv : DInv s) (inv : CycInv next s) (hs : trStep c false true next s = .next s') : CycInv next s' := by
  unfold trStep at hs
  simp only [Bool.false_eq_true, if_false] at hs
  cases htop : s.queue.getLast? with
  | none => simp [htop] at hs
  | some cur =>
    have hq : s.queue = s.queue.dropLast ++ [cur] := getLast?_split htop
    simp only [htop] at hs
    split at hs
    · cases hs
    · cases hst : s.st cur with
      | unv =>
        simp only [hst] at hs
        cases hcp : childProblem c true (setSt s.st cur .ent) (next cur) with
        | some e => simp [hcp] at hs
        | none =>
          simp only [hcp, StepRes.next.injEq] at hs
          subst hs
          have hnoent := childProblem_none_ab hcp
          constructor
          · intro u hu x hx hxv
            simp only at hu hxv ⊢
            by_cases huc : u = cur
            · subst huc
              have hxu : setSt s.st u .ent x = .unv := by
                cases hh : setSt s.st u .ent x with
                | unv => rfl
                | ent => exact absurd hh (hnoent x hx)
                | vis => exact absurd hh hxv
              refine ⟨s.queue.dropLast, (next u).filter (fun x => setSt s.st u .ent x = .unv), ?_, ?_, ?_⟩
              · conv => lhs; rw [hq]
                simp
              · intro h
                have := (List.mem_filter.mp h).2
                simp [setSt] at this
              · exact List.mem_filter.mpr ⟨hx, by simpa using hxu⟩
            · have hu' : s.st u = .ent := by simpa [setSt, huc] using hu
              have hxv' : s.st x ≠ .vis := by
                by_cases hxc : x = cur
                · subst hxc; rw [hst]; simp
                · simpa [setSt, hxc] using hxv
              obtain ⟨pre, post, e, hup, hxp⟩ := inv.pending u hu' x hx hxv'
              refine ⟨pre, post ++ (next cur).filter (fun x => setSt s.st cur .ent x = .unv), by rw [e]; simp, ?_, by simp [hxp]⟩
              intro h; rcases List.mem_append.mp h with h | h
              · exact hup h
              · have := (List.mem_filter.mp h).2
                simp [setSt, huc, hu'] at this
          · intro e1 l e2 he
            simp only at he
            rw [exits_append, exits_enter_evs, List.append_nil] at he
            exact inv.post e1 l e2 he
      | ent =>
        simp only [hst, StepRes.next.injEq] at hs
        subst hs
        have hch : ∀ x ∈ next cur, s.st x = .vis := by
          intro x hx
          cases hsx : s.st x with
          | vis => rfl
          | unv =>
            exfalso
            obtain ⟨pre, post, e, hup, hxp⟩ := inv.pending cur hst x hx (by rw [hsx]; simp)
            have e' : s.queue.dropLast ++ cur :: [] = pre ++ cur :: post := by rw [← e]; exact hq.symm
            obtain ⟨_, e2⟩ := last_occ_unique e' (by simp) hup
            rw [← e2] at hxp; cases hxp
          | ent =>
            exfalso
            obtain ⟨pre, post, e, hup, hxp⟩ := inv.pending cur hst x hx (by rw [hsx]; simp)
            have e' : s.queue.dropLast ++ cur :: [] = pre ++ cur :: post := by rw [← e]; exact hq.symm
            obtain ⟨_, e2⟩ := last_occ_unique e' (by simp) hup
            rw [← e2] at hxp; cases hxp
        constructor
        · intro u hu x hx hxv
          simp only at hu hxv ⊢
          have huc : u ≠ cur := by intro e; subst e; simp [setSt] at hu
          have hu' : s.st u = .ent := by simpa [setSt, huc] using hu
          have hxc : x ≠ cur := by intro e; subst e; simp [setSt] at hxv
          have hxv' : s.st x ≠ .vis := by simpa [setSt, hxc] using hxv
          obtain ⟨pre, post, e, hup, hxp⟩ := inv.pending u hu' x hx hxv'
          have hpost : post = post.dropLast ++ [cur] := by
            cases hp : post with
            | nil => rw [hp] at hxp; cases hxp
            | cons y t =>
              have : (pre ++ u :: y :: t).getLast? = some cur := by rw [← hp, ← e]; exact htop
              rw [getLast?_after (by simp)] at this
              exact getLast?_split this
          refine ⟨pre, post.dropLast, split_dropLast e hpost, fun h => hup (List.dropLast_subset _ h), ?_⟩
          rw [hpost] at hxp
          rcases List.mem_append.mp hxp with h | h
          · exact h
          · simp only [List.mem_singleton] at h; exact absurd h hxc
        · intro e1 l e2 he
          simp only at he
          rw [exits_append] at he
          have e1' : exits [Ev.exit cur] = [cur] := rfl
          rw [e1'] at he
          by_cases hl2 : e2 = []
          · subst hl2
            have : exits s.log = e1 ∧ cur = l := by
              have := List.append_inj' he (by simp)
              exact ⟨this.1, by simpa using this.2⟩
            obtain ⟨h1, rfl⟩ := this
            intro x hx
            rw [← h1]
            exact (dinv.exitVis x).mpr (hch x hx)
          · obtain ⟨e2', rfl⟩ : ∃ e2', e2 = e2' ++ [cur] := by
              have hlast : e2.getLast? = some cur := by
                have : (e1 ++ l :: e2).getLast? = some cur := by rw [← he]; simp
                rw [getLast?_after hl2] at this
                exact this
              exact ⟨e2.dropLast, getLast?_split hlast⟩
            have : exits s.log = e1 ++ l :: e2' := by
              have h' : exits s.log ++ [cur] = (e1 ++ l :: e2') ++ [cur] := by rw [he]; simp
              exact List.append_cancel_right h'
            exact inv.post e1 l e2' this
      | vis =>
        simp only [hst, StepRes.next.injEq] at hs
        subst hs
        refine ⟨?_, inv.post⟩
        intro u hu x hx hxv
        simp only at hu hxv ⊢
        have hxc : x ≠ cur := by intro e; subst e; exact hxv hst
        obtain ⟨pre, post, e, hup, hxp⟩ := inv.pending u hu x hx hxv
        have hpost : post = post.dropLast ++ [cur] := by
          cases hp : post with
          | nil => rw [hp] at hxp; cases hxp
          | cons y t =>
            have : (pre ++ u :: y :: t).getLast? = some cur := by rw [← hp, ← e]; exact htop
            rw [getLast?_after (by simp)] at this
            exact getLast?_split this
        refine ⟨pre, post.dropLast, split_dropLast e hpost, fun h => hup (List.dropLast_subset _ h), ?_⟩
        rw [hpost] at hxp
        rcases List.mem_append.mp hxp with h | h
        · exact h
        · simp only [List.mem_singleton] at h; exact absurd h hxc

theorem trLoop_cycinv {c : Circuit} {next : Label → List Label} :
    ∀ fuel (s s' : TrSt), DInv s → CycInv next s → trLoop c false true next fuel s = .ok s' → CycInv next s'
  | 0, s, s', _, _, h => by simp [trLoop] at h
  | fuel+1, s, s', dinv, inv, h => by
    unfold trLoop at h
    cases hs : trStep c false true next s with
    | finished => simp only [hs, Except.ok.injEq] at h; subst h; exact inv
    | error e => simp [hs] at h
    | next s1 =>
      simp only [hs] at h
      exact trLoop_cycinv fuel s1 s' (trStep_dinv dinv hs) (trStep_cycinv dinv inv hs) h

/-! ## the check itself -/

/-- a rank on the part of the circuit the outputs depend on: no cycle is reachable from the outputs -/
def AcyclicFrom (c : Circuit) (q : List Label) : Prop :=
  ∃ r : Label → Nat, ∀ l, Reach c.opsOf q l → ∀ x ∈ c.opsOf l, r x < r l

/-- a rank on the part of the circuit the outputs depend on: no cycle is reachable from the outputs -/
abbrev AcyclicFromOutputs (c : Circuit) : Prop := AcyclicFrom c c.outputs

theorem isEmpty_false_of_ne' {α} {l : List α} (h : l ≠ []) : l.isEmpty = false := by
  cases l with
  | nil => exact absurd rfl h
  | cons a r => rfl

/-- no reachable cycle ⇒ the check does not raise `CircuitValidationError` -/
theorem cycleCheckFrom_acyclic {c : Circuit} (start : Option (List Label)) (h : AcyclicFrom c (start.getD c.outputs)) : hasCycleCheckFrom c start ≠ .ok true := by
  obtain ⟨r, hr⟩ := h
  unfold hasCycleCheckFrom
  have : traverse c false false start false true ≠ .error "CircuitValidationError" := by
    unfold traverse
    split
    · simp
    · simp only [Bool.false_eq_true, if_false]
      have hl := trLoop_no_cve (c := c) (ab := true) hr
        (2 * ((start.getD c.outputs).length + c.gates.length + totalDeg c c.opsOf) + 2) ⟨start.getD c.outputs, fun _ => .unv, []⟩
        (tinv_init _ _)
        ⟨fun l hl => (by cases hl), fun l => (by simp [exits]), (by simp [exits])⟩
        ⟨fun _ u _ _ _ hu => (by cases hu), fun u hu => (by cases hu), fun e1 l e2 he => (by simp [exits] at he)⟩
      split
      · rename_i e he
        intro h
        simp only [Except.error.injEq] at h
        subst h
        exact hl he
      · simp
  split
  · rename_i he; exact absurd he this
  · simp
  · simp

/-- the check returns without raising ⇒ no cycle is reachable from the outputs -/
theorem cycleCheckFrom_false {c : Circuit} (start : Option (List Label)) (h : hasCycleCheckFrom c start = .ok false) : AcyclicFrom c (start.getD c.outputs) := by
  unfold hasCycleCheckFrom at h
  cases ht : traverse c false false start false true with
  | error e =>
    rw [ht] at h
    split at h
    · cases h
    · cases h
    · rename_i h1 _ h2
      cases h2
  | ok log =>
    by_cases hne : c.gates = []
    · -- no gates: nothing has operands
      refine ⟨fun _ => 0, ?_⟩
      intro l _ x hx
      have : c.opsOf l = [] := by
        apply opsOf_not_mem
        simp [Circuit.labels, hne]
      rw [this] at hx; cases hx
    · obtain ⟨hnd, hreach, _⟩ := dfs_exits_exact false start false true hne ht
      simp only [Bool.false_eq_true, if_false] at hreach
      -- post-order of the exits
      have hpost : ∀ e1 l e2, exits log = e1 ++ l :: e2 → ∀ x ∈ c.opsOf l, x ∈ e1 := by
        unfold traverse at ht
        simp only [isEmpty_false_of_ne' hne, Bool.false_eq_true, if_false] at ht
        cases hl : trLoop c false true c.opsOf (2 * ((start.getD c.outputs).length + c.gates.length + totalDeg c c.opsOf) + 2)
            ⟨start.getD c.outputs, fun _ => .unv, []⟩ with
        | error e => simp [hl] at ht
        | ok s =>
          simp only [hl, Except.ok.injEq] at ht
          have cinv := trLoop_cycinv _ _ _
            ⟨fun l hl => (by cases hl), fun l => (by simp [exits]), (by simp [exits])⟩
            ⟨fun u hu => (by cases hu), fun e1 l e2 he => (by simp [exits] at he)⟩ hl
          intro e1 l e2 he
          rw [← ht, exits_tail] at he
          exact cinv.post e1 l e2 he
      refine ⟨fun l => (exits log).idxOf l, ?_⟩
      intro l hl x hx
      have hle : l ∈ exits log := (hreach l).mpr hl
      obtain ⟨e1, e2, he⟩ := List.append_of_mem hle
      have hxe1 := hpost e1 l e2 he x hx
      have hl1 : l ∉ e1 := by
        rw [he] at hnd
        have := (List.nodup_append.mp hnd).2.2
        intro hm; exact this l hm l (by simp) rfl
      simp only [he]
      rw [List.idxOf_append, List.idxOf_append]
      simp only [hl1, hxe1, if_false, if_true, List.idxOf_cons_self]
      have := List.idxOf_lt_length_of_mem hxe1
      omega

theorem childProblem_gde {c : Circuit} {ab : Bool} {st : Label → TState} :
    ∀ {ls : List Label}, childProblem c ab st ls = some "GateDoesntExistError" → ∃ x ∈ ls, c.hasGate x = false := by
  intro ls
  induction ls with
  | nil => intro h; simp [childProblem] at h
  | cons x r ih =>
    intro h
    unfold childProblem at h
    split at h
    · rename_i hx
      exact ⟨x, by simp, by simpa using hx⟩
    · split at h
      · simp at h
      · obtain ⟨y, hy, h2⟩ := ih h
        exact ⟨y, by simp [hy], h2⟩

theorem trStep_no_gde {c : Circuit} {bfs ab : Bool} {next : Label → List Label} {s : TrSt}
    (hq : ∀ l ∈ s.queue, c.hasGate l = true ∧ ∀ x ∈ next l, c.hasGate x = true) :
    trStep c bfs ab next s ≠ .error "GateDoesntExistError" := by
  intro hs
  unfold trStep at hs
  cases hh : (if bfs then s.queue.head? else s.queue.getLast?) with
  | none => simp [hh] at hs
  | some cur =>
    have hcq : cur ∈ s.queue := by
      cases bfs
      · simp only [Bool.false_eq_true, if_false] at hh; exact List.mem_of_getLast? hh
      · simp only [if_true] at hh; exact List.mem_of_head? hh
    obtain ⟨h1, h2⟩ := hq cur hcq
    simp only [hh, h1, Bool.not_true, Bool.false_eq_true, if_false] at hs
    cases hst : s.st cur with
    | unv =>
      simp only [hst] at hs
      cases hcp : childProblem c ab (setSt s.st cur .ent) (next cur) with
      | none => simp only [hcp] at hs; cases bfs <;> simp at hs
      | some e =>
        simp only [hcp, StepRes.error.injEq] at hs
        subst hs
        obtain ⟨x, hx, hxe⟩ := childProblem_gde hcp
        rw [h2 x hx] at hxe; cases hxe
    | ent => simp [hst] at hs
    | vis => simp [hst] at hs

theorem trLoop_no_gde {c : Circuit} {bfs ab : Bool} {next : Label → List Label} {start : List Label}
    (hcl : ∀ l, Reach next start l → c.hasGate l = true) :
    ∀ fuel (s : TrSt), TInv next start s → trLoop c bfs ab next fuel s ≠ .error "GateDoesntExistError"
  | 0, s, _ => by simp [trLoop]
  | fuel+1, s, tinv => by
    unfold trLoop
    cases hs : trStep c bfs ab next s with
    | finished => simp
    | error e =>
      simp only [ne_eq, Except.error.injEq]
      intro he; subst he
      exact trStep_no_gde (fun l hl => ⟨hcl l (tinv.reachQ l hl), fun x hx => hcl x (.step (tinv.reachQ l hl) hx)⟩) hs
    | next s1 =>
      simp only
      exact trLoop_no_gde hcl fuel s1 (trStep_inv tinv hs)

theorem trLoop_error {c : Circuit} {bfs ab : Bool} {next : Label → List Label} :
    ∀ fuel (s : TrSt) (e : String), trLoop c bfs ab next fuel s = .error e →
      e = "fuel" ∨ e = "GateDoesntExistError" ∨ e = "CircuitValidationError"
  | 0, s, e, h => by simp [trLoop] at h; exact Or.inl h.symm
  | fuel+1, s, e, h => by
    unfold trLoop at h
    cases hs : trStep c bfs ab next s with
    | finished => simp [hs] at h
    | error e' =>
      simp only [hs, Except.error.injEq] at h
      subst h
      exact Or.inr (trStep_error hs)
    | next s1 => simp only [hs] at h; exact trLoop_error fuel s1 e h

/-- **a reachable cycle makes the check raise**: on a circuit with distinct labels whose outputs and
operands all exist, if no rank exists on the part reachable from the outputs (i.e. there is a cycle
there), `check_circuit_has_no_cycles` raises `CircuitValidationError` -/
theorem cycleCheckFrom_cyclic {c : Circuit} (start : Option (List Label)) (hnd : c.labels.Nodup)
    (hcl : ∀ l, Reach c.opsOf (start.getD c.outputs) l → c.hasGate l = true)
    (hcyc : ¬ AcyclicFrom c (start.getD c.outputs)) : hasCycleCheckFrom c start = .ok true := by
  cases hres : hasCycleCheckFrom c start with
  | ok b =>
    cases b with
    | true => rfl
    | false => exact absurd (cycleCheckFrom_false start hres) hcyc
  | error e =>
    exfalso
    unfold hasCycleCheckFrom at hres
    cases ht : traverse c false false start false true with
    | ok log => rw [ht] at hres; cases hres
    | error e' =>
      -- the only possible error is the validation error
      have : e' = "CircuitValidationError" := by
        unfold traverse at ht
        split at ht
        · cases ht
        · simp only [Bool.false_eq_true, if_false] at ht
          cases hl : trLoop c false true c.opsOf (2 * ((start.getD c.outputs).length + c.gates.length + totalDeg c c.opsOf) + 2)
              ⟨start.getD c.outputs, fun _ => .unv, []⟩ with
          | ok s => simp [hl] at ht
          | error e2 =>
            simp only [hl, Except.error.injEq] at ht
            subst ht
            rcases trLoop_error _ _ _ hl with h | h | h
            · subst h
              exact absurd hl (trLoop_terminates hnd _ _ (by
                simp only [potential, unvWeight_init, totalDeg, foldl_add_eq_sum]
                have : c.labels.length = c.gates.length := by simp [Circuit.labels]
                omega))
            · subst h
              exact absurd hl (trLoop_no_gde hcl _ _ (tinv_init _ _))
            · exact h
      subst this
      rw [ht] at hres
      simp at hres

theorem cycleCheck_acyclic {c : Circuit} (h : AcyclicFromOutputs c) : hasCycleCheck c ≠ .ok true :=
  cycleCheckFrom_acyclic none h

theorem cycleCheck_false {c : Circuit} (h : hasCycleCheck c = .ok false) : AcyclicFromOutputs c :=
  cycleCheckFrom_false none h

theorem cycleCheck_cyclic {c : Circuit} (hnd : c.labels.Nodup)
    (hcl : ∀ l, Reach c.opsOf c.outputs l → c.hasGate l = true)
    (hcyc : ¬ AcyclicFromOutputs c) : hasCycleCheck c = .ok true :=
  cycleCheckFrom_cyclic none hnd hcl hcyc

/-- the whole-graph check (`start_gates = list(gates)`): silent only if the whole graph has a rank -/
theorem cycleCheckAll_false {c : Circuit} (h : hasCycleCheckFrom c (some c.labels) = .ok false) :
    ∃ r : Label → Nat, ∀ l ∈ c.labels, ∀ x ∈ c.opsOf l, r x < r l := by
  obtain ⟨r, hr⟩ := cycleCheckFrom_false (some c.labels) h
  exact ⟨r, fun l hl => hr l (.base hl)⟩

end Cirbo
