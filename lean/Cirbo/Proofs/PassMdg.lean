import Cirbo.Proofs.PassMuo
/-!
# MergeDuplicateGates preserves the function and the interface
-/
namespace Cirbo
open GateType Circuit

/-! ### symmetric gate types do not depend on the operand order -/

theorem all_id_perm {l1 l2 : List Bool} (h : l1.Perm l2) : l1.all id = l2.all id := by
  induction h with
  | nil => rfl
  | cons x _ ih => simp [ih]
  | swap x y l => simp [Bool.and_left_comm]
  | trans _ _ ih1 ih2 => exact ih1.trans ih2

theorem any_id_perm {l1 l2 : List Bool} (h : l1.Perm l2) : l1.any id = l2.any id := by
  induction h with
  | nil => rfl
  | cons x _ ih => simp [ih]
  | swap x y l => simp [Bool.or_left_comm]
  | trans _ _ ih1 ih2 => exact ih1.trans ih2

theorem xorAll_perm {l1 l2 : List Bool} (h : l1.Perm l2) : xorAll l1 = xorAll l2 := by
  induction h with
  | nil => rfl
  | cons x _ ih => simp [xorAll, ih]
  | swap x y l => simp only [xorAll]; cases x <;> cases y <;> simp
  | trans _ _ ih1 ih2 => exact ih1.trans ih2

theorem bfun_and (l : List Bool) : bfun AND l = if 2 ≤ l.length then some (l.all id) else none := by
  rcases l with _ | ⟨a, _ | ⟨b, r⟩⟩ <;> simp [bfun]
theorem bfun_or (l : List Bool) : bfun OR l = if 2 ≤ l.length then some (l.any id) else none := by
  rcases l with _ | ⟨a, _ | ⟨b, r⟩⟩ <;> simp [bfun]
theorem bfun_xor (l : List Bool) : bfun XOR l = if 2 ≤ l.length then some (xorAll l) else none := by
  rcases l with _ | ⟨a, _ | ⟨b, r⟩⟩ <;> simp [bfun]
theorem bfun_nand (l : List Bool) : bfun NAND l = if 2 ≤ l.length then some (!l.all id) else none := by
  rcases l with _ | ⟨a, _ | ⟨b, r⟩⟩ <;> simp [bfun]
theorem bfun_nor (l : List Bool) : bfun NOR l = if 2 ≤ l.length then some (!l.any id) else none := by
  rcases l with _ | ⟨a, _ | ⟨b, r⟩⟩ <;> simp [bfun]
theorem bfun_nxor (l : List Bool) : bfun NXOR l = if 2 ≤ l.length then some (!xorAll l) else none := by
  rcases l with _ | ⟨a, _ | ⟨b, r⟩⟩ <;> simp [bfun]

theorem perm_singleton_eq {α} {a : α} {l : List α} (h : [a].Perm l) : l = [a] := by
  have hl := h.length_eq
  rcases l with _ | ⟨b, _ | ⟨c, r⟩⟩
  · simp at hl
  · have := h.mem_iff.mpr (List.mem_singleton.mpr rfl : b ∈ [b]); simp at this; subst this; rfl
  · simp at hl

/-- every type the code flags `is_symmetric` computes the same value on any reordering of its operands -/
theorem bfun_perm (ty : GateType) (hs : Gen.isSymmetric ty = true) {l1 l2 : List Bool} (h : l1.Perm l2) :
    bfun ty l1 = bfun ty l2 := by
  have hl := h.length_eq
  cases ty <;> simp [Gen.isSymmetric] at hs
  case INPUT => simp [bfun]
  case ALWAYS_TRUE => simp [bfun]
  case ALWAYS_FALSE => simp [bfun]
  case AND => rw [bfun_and, bfun_and, hl, all_id_perm h]
  case OR => rw [bfun_or, bfun_or, hl, any_id_perm h]
  case XOR => rw [bfun_xor, bfun_xor, hl, xorAll_perm h]
  case NAND => rw [bfun_nand, bfun_nand, hl, all_id_perm h]
  case NOR => rw [bfun_nor, bfun_nor, hl, any_id_perm h]
  case NXOR => rw [bfun_nxor, bfun_nxor, hl, xorAll_perm h]
  case IFF =>
    rcases l1 with _ | ⟨a, _ | ⟨b, r⟩⟩
    · have : l2 = [] := by simpa using hl.symm
      subst this; rfl
    · rw [perm_singleton_eq h]
    · rcases l2 with _ | ⟨a', _ | ⟨b', r'⟩⟩ <;> simp at hl <;> simp [bfun]
  case NOT =>
    rcases l1 with _ | ⟨a, _ | ⟨b, r⟩⟩
    · have : l2 = [] := by simpa using hl.symm
      subst this; rfl
    · rw [perm_singleton_eq h]
    · rcases l2 with _ | ⟨a', _ | ⟨b', r'⟩⟩ <;> simp at hl <;> simp [bfun]

theorem insertSorted_perm (x : Label) (l : List Label) : (insertSorted x l).Perm (x :: l) := by
  induction l with
  | nil => exact List.Perm.refl _
  | cons y r ih =>
    unfold insertSorted
    split
    · exact List.Perm.refl _
    · exact (List.Perm.cons y ih).trans (List.Perm.swap x y r)

theorem sortLabels_perm (l : List Label) : (sortLabels l).Perm l := by
  induction l with
  | nil => exact List.Perm.refl _
  | cons x r ih =>
    simp only [sortLabels, List.foldr_cons]
    exact (insertSorted_perm x _).trans (List.Perm.cons x ih)

/-- equal signatures: same type, and the same operand values up to the order a symmetric type ignores -/
theorem signature_sem {ty1 ty2 : GateType} {o1 o2 : List Label} (h : signature ty1 o1 = signature ty2 o2)
    (v : Label → Bool) : ty1 = ty2 ∧ bfun ty1 (o1.map v) = bfun ty2 (o2.map v) := by
  simp only [signature, Prod.mk.injEq] at h
  obtain ⟨rfl, h2⟩ := h
  refine ⟨rfl, ?_⟩
  by_cases hs : Gen.isSymmetric ty1 = true
  · simp only [hs, if_true] at h2
    have hp : o1.Perm o2 := (sortLabels_perm o1).symm.trans (h2 ▸ sortLabels_perm o2)
    exact bfun_perm ty1 hs (hp.map v)
  · simp only [hs, Bool.false_eq_true, if_false] at h2
    rw [h2]

/-! ### the rebuild loop -/

theorem mdgStep_error (c : Circuit) (e : String) : ∀ (xs : List Label), xs.foldl (mdgStep c) (.error e) = .error e := by
  intro xs; induction xs with
  | nil => rfl
  | cons a b ih => simpa [mdgStep] using ih

/-- invariant of the rebuild: the partial result is valued by the argument's valuation, and every
recorded signature belongs to a non-input gate already present -/
structure MdgInv (b v : Label → Bool) (st : MdgSt) : Prop where
  wfs : WFS st.n
  val : IsValB st.n b v
  sigs : ∀ p ∈ st.sigs, p.1.1 ≠ INPUT ∧ ∃ gd ∈ st.n.gates, gd.label = p.2 ∧ signature gd.ty gd.ops = p.1

theorem lookup_mem {α β} [BEq α] [LawfulBEq α] {l : List (α × β)} {k : α} {x : β} (h : l.lookup k = some x) : (k, x) ∈ l := by
  induction l with
  | nil => simp at h
  | cons p r ih =>
    obtain ⟨a, b⟩ := p
    simp only [List.lookup_cons] at h
    by_cases hk : k == a
    · simp only [hk] at h
      have : k = a := by simpa using hk
      simp at h; subst h; subst this; simp
    · simp only [hk] at h
      exact List.mem_cons_of_mem _ (ih h)

/-- the representative chosen for a gate of the partial result has the same value -/
theorem mdgNewName_val {b v : Label → Bool} {st : MdgSt} (hi : MdgInv b v st) {l d : Label}
    (h : mdgNewName st l = .ok d) : v d = v l := by
  unfold mdgNewName at h
  cases hf : st.n.find? l with
  | none => simp [hf] at h
  | some g =>
    simp only [hf] at h
    obtain ⟨hgm, hgl⟩ := find_some_mem hf
    cases hl : st.sigs.lookup (signature g.ty g.ops) with
    | none => simp only [hl, Except.ok.injEq] at h; rw [h]
    | some d' =>
      simp only [hl, Except.ok.injEq] at h; subst h
      obtain ⟨hne, gd, hgd, hdl, hsig⟩ := hi.sigs _ (lookup_mem hl)
      simp only at hne hdl hsig
      obtain ⟨hty, hb⟩ := signature_sem hsig v
      have h1 := hi.val gd hgd
      have h2 := hi.val g hgm
      have hne1 : gd.ty ≠ INPUT := by rw [hty]; simpa [signature] using hne
      have hne2 : g.ty ≠ INPUT := by simpa [signature] using hne
      simp only [hne1, if_false] at h1
      simp only [hne2, if_false] at h2
      rw [hb, h2] at h1
      rw [← hdl, ← hgl]
      exact (Option.some.inj h1).symm

theorem mapR_val {b v : Label → Bool} {st : MdgSt} (hi : MdgInv b v st) : ∀ (ls ds : List Label),
    mapR (mdgNewName st) ls = .ok ds → ds.map v = ls.map v := by
  intro ls
  induction ls with
  | nil => intro ds h; simp only [mapR, Except.ok.injEq] at h; subst h; rfl
  | cons l r ih =>
    intro ds h
    unfold mapR at h
    cases h1 : mdgNewName st l with
    | error e => simp [h1] at h
    | ok d =>
      simp only [h1] at h
      cases h2 : mapR (mdgNewName st) r with
      | error e => simp [h2] at h
      | ok ds' =>
        simp only [h2, Except.ok.injEq] at h; subst h
        simp [mdgNewName_val hi h1, ih ds' h2]

theorem mdgStep_inv {c : Circuit} {b v : Label → Bool} (hwc : WFS c) (hv : IsValB c b v) {st st' : MdgSt} {l : Label}
    (hi : MdgInv b v st) (h : mdgStep c (.ok st) l = .ok st') : MdgInv b v st' := by
  unfold mdgStep at h
  simp only at h
  cases hf : c.find? l with
  | none => simp [hf] at h
  | some g =>
    simp only [hf] at h
    obtain ⟨hgm, hgl⟩ := find_some_mem hf
    have hg := hv g hgm
    by_cases ht : g.ty = INPUT
    · simp only [ht, if_true] at h hg
      cases ha : st.n.addInputs [g.label] with
      | error e => simp [ha] at h
      | ok n' =>
        simp only [ha, Except.ok.injEq] at h; subst h
        obtain ⟨a1, _, _⟩ := addInputs_spec _ _ _ ha
        refine ⟨addInputs_wfs _ hi.wfs ha, ?_, ?_⟩
        · intro x hx
          simp only at hx
          rw [a1] at hx
          simp only [List.map_cons, List.map_nil, List.mem_append, List.mem_singleton] at hx
          rcases hx with hx | rfl
          · exact hi.val x hx
          · simpa using hg
        · intro p hp
          obtain ⟨h1, gd, hgd, h2, h3⟩ := hi.sigs p hp
          exact ⟨h1, gd, by simp only; rw [a1]; simp [hgd], h2, h3⟩
    · simp only [ht, if_false] at h hg
      cases hm : mapR (mdgNewName st) g.ops with
      | error e => simp [hm] at h
      | ok ops =>
        simp only [hm] at h
        cases ha : st.n.addGate ⟨g.label, g.ty, ops⟩ with
        | error e => simp [ha] at h
        | ok n' =>
          simp only [ha, Except.ok.injEq] at h; subst h
          obtain ⟨_, _, hg1, _⟩ := addGate_fields ha
          refine ⟨addGate_wfs (g := ⟨g.label, g.ty, ops⟩) hi.wfs (fun e => absurd e ht) ha, ?_, ?_⟩
          · intro x hx
            simp only at hx
            rw [hg1] at hx
            simp only [List.mem_append, List.mem_singleton] at hx
            rcases hx with hx | rfl
            · exact hi.val x hx
            · simp only [ht, if_false]
              rw [mapR_val hi _ _ hm]; exact hg
          · intro p hp
            simp only at hp
            have hold : ∀ p ∈ st.sigs, p.1.1 ≠ INPUT ∧ ∃ gd ∈ n'.gates, gd.label = p.2 ∧ signature gd.ty gd.ops = p.1 := by
              intro p hp
              obtain ⟨h1, gd, hgd, h2, h3⟩ := hi.sigs p hp
              exact ⟨h1, gd, by rw [hg1]; simp [hgd], h2, h3⟩
            split at hp
            · exact hold p hp
            · rcases List.mem_append.mp hp with hp | hp
              · exact hold p hp
              · simp only [List.mem_singleton] at hp; subst hp
                exact ⟨by simpa [signature] using ht, ⟨g.label, g.ty, ops⟩, by rw [hg1]; simp, rfl, rfl⟩

theorem mdgFold_inv {c : Circuit} {b v : Label → Bool} (hwc : WFS c) (hv : IsValB c b v) : ∀ (ls : List Label) (st st' : MdgSt),
    MdgInv b v st → ls.foldl (mdgStep c) (.ok st) = .ok st' → MdgInv b v st' := by
  intro ls
  induction ls with
  | nil => intro st st' hi h; simp only [List.foldl_nil, Except.ok.injEq] at h; subst h; exact hi
  | cons l r ih =>
    intro st st' hi h
    simp only [List.foldl_cons] at h
    cases hs : mdgStep c (.ok st) l with
    | error e => rw [hs, mdgStep_error] at h; cases h
    | ok s1 => rw [hs] at h; exact ih s1 st' (mdgStep_inv hwc hv hi hs) h

theorem mapR_length {α β} (f : α → R β) : ∀ (l : List α) (ys : List β), mapR f l = .ok ys → ys.length = l.length := by
  intro l
  induction l with
  | nil => intro ys h; simp only [mapR, Except.ok.injEq] at h; subst h; rfl
  | cons x r ih =>
    intro ys h
    unfold mapR at h
    cases h1 : f x with
    | error e => simp [h1] at h
    | ok y =>
      simp only [h1] at h
      cases h2 : mapR f r with
      | error e => simp [h2] at h
      | ok ys' => simp only [h2, Except.ok.injEq] at h; subst h; simp [ih ys' h2]

/-- the structural part (no valuation needed): the rebuilt circuit satisfies the invariant and has
gates shaped like the argument's -/
theorem mdgFold_wfs {c : Circuit} (hio : ∀ g ∈ c.gates, g.ty = INPUT → g.ops = []) : ∀ (ls : List Label) (st st' : MdgSt),
    WFS st.n ∧ SameShape c st.n → ls.foldl (mdgStep c) (.ok st) = .ok st' → WFS st'.n ∧ SameShape c st'.n := by
  intro ls
  induction ls with
  | nil => intro st st' hi h; simp only [List.foldl_nil, Except.ok.injEq] at h; subst h; exact hi
  | cons l r ih =>
    intro st st' hi h
    simp only [List.foldl_cons] at h
    cases hs : mdgStep c (.ok st) l with
    | error e => rw [hs, mdgStep_error] at h; cases h
    | ok s1 =>
      rw [hs] at h
      refine ih s1 st' ?_ h
      unfold mdgStep at hs
      simp only at hs
      cases hf : c.find? l with
      | none => simp [hf] at hs
      | some g =>
        simp only [hf] at hs
        obtain ⟨hgm, _⟩ := find_some_mem hf
        by_cases ht : g.ty = INPUT
        · simp only [ht, if_true] at hs
          cases ha : st.n.addInputs [g.label] with
          | error e => simp [ha] at hs
          | ok n' =>
            simp only [ha, Except.ok.injEq] at hs; subst hs
            obtain ⟨a1, _, _⟩ := addInputs_spec _ _ _ ha
            refine ⟨addInputs_wfs _ hi.1 ha, ?_⟩
            intro g' hg'
            simp only at hg'
            rw [a1] at hg'
            simp only [List.map_cons, List.map_nil, List.mem_append, List.mem_singleton] at hg'
            rcases hg' with hg' | rfl
            · exact hi.2 g' hg'
            · exact ⟨g, hgm, rfl, ht.symm, by simp [hio g hgm ht]⟩
        · simp only [ht, if_false] at hs
          cases hm : mapR (mdgNewName st) g.ops with
          | error e => simp [hm] at hs
          | ok ops =>
            simp only [hm] at hs
            cases ha : st.n.addGate ⟨g.label, g.ty, ops⟩ with
            | error e => simp [ha] at hs
            | ok n' =>
              simp only [ha, Except.ok.injEq] at hs; subst hs
              obtain ⟨_, _, hg1, _⟩ := addGate_fields ha
              refine ⟨addGate_wfs (g := ⟨g.label, g.ty, ops⟩) hi.1 (fun e => absurd e ht) ha, ?_⟩
              intro g' hg'
              simp only at hg'
              rw [hg1] at hg'
              simp only [List.mem_append, List.mem_singleton] at hg'
              rcases hg' with hg' | rfl
              · exact hi.2 g' hg'
              · exact ⟨g, hgm, rfl, rfl, mapR_length _ _ _ hm⟩

/-- **MergeDuplicateGates**: every valuation of the argument is a valuation of the result; inputs
kept; outputs redirected to gates of equal value -/
theorem mdg_spec {c c' : Circuit} (hw : WFS c) (h : mdg c = .ok c') :
    WFS c' ∧ c'.inputs = c.inputs ∧ c'.outputs.length = c.outputs.length ∧ SameShape c c' ∧
    (∀ b v, IsValB c b v → IsValB c' b v ∧ c'.outputs.map v = c.outputs.map v) := by
  unfold mdg at h
  cases htr : traverse c false false (some c.outputs) true with
  | error e => simp [htr] at h
  | ok log =>
    simp only [htr] at h
    cases hf : (hookLabels log true).foldl (mdgStep c) (.ok ⟨Circuit.empty, []⟩) with
    | error e => simp [hf] at h
    | ok st =>
      simp only [hf] at h
      cases hsi : st.n.setInputs c.inputs with
      | error e => simp [hsi] at h
      | ok n2 =>
        simp only [hsi] at h
        cases hmo : mapR (mdgNewName ⟨n2, st.sigs⟩) c.outputs with
        | error e => simp [hmo] at h
        | ok outs =>
          simp only [hmo] at h
          obtain ⟨w0, sh0⟩ := mdgFold_wfs hw.inputOps _ _ _ ⟨wfs_empty, by intro g hg; simp [Circuit.empty] at hg⟩ hf
          have w2 : WFS n2 := setInputs_wfs w0 hsi
          have w3 : WFS c' := setOutputs_wfs w2 h
          obtain ⟨hoc, hic⟩ := setOutputs_outputs h
          obtain ⟨hi3, _⟩ := setInputs_inputs hsi
          have hg2 : n2.gates = st.n.gates := setInputs_gates hsi
          refine ⟨w3, by rw [hic, hi3], by rw [hoc, mapR_length _ _ _ hmo], ?_, ?_⟩
          · intro g' hg'
            rw [setOutputs_gates h, hg2] at hg'
            exact sh0 g' hg'
          intro b v hv
          have hi0 : MdgInv b v ⟨Circuit.empty, []⟩ :=
            ⟨wfs_empty, by intro g hg; simp [Circuit.empty] at hg, by intro p hp; simp at hp⟩
          have hi := mdgFold_inv hw hv _ _ _ hi0 hf
          have hi2 : MdgInv b v ⟨n2, st.sigs⟩ :=
            ⟨w2, by intro g hg; exact hi.val g (hg2 ▸ hg), by
              intro p hp
              obtain ⟨h1, gd, hgd, h2, h3⟩ := hi.sigs p hp
              exact ⟨h1, gd, by simp only; rw [hg2]; exact hgd, h2, h3⟩⟩
          constructor
          · intro g hg
            rw [setOutputs_gates h] at hg
            exact hi2.val g hg
          · rw [hoc]; exact mapR_val hi2 _ _ hmo

end Cirbo
