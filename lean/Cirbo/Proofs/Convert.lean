import Cirbo.Model.Mutate2
import Cirbo.Spec.WF
import Cirbo.Proofs.Val
import Cirbo.Proofs.Graph
/-! # Bench conversion preserves the denotation (C14) -/
namespace Cirbo
open GateType Circuit

/-- `IsValB` on a bare gate list -/
def ValG (gs : List Gate) (b v : Label → Bool) : Prop :=
  ∀ g ∈ gs, if g.ty = INPUT then v g.label = b g.label else bfun g.ty (g.ops.map v) = some (v g.label)

theorem isValB_iff_valG (c : Circuit) (b v : Label → Bool) : IsValB c b v ↔ ValG c.gates b v := Iff.rfl

def updV (v : Label → Bool) (k : Label) (x : Bool) : Label → Bool := fun l => if l = k then x else v l

def replG (g' : Gate) (x : Gate) : Gate := if x.label == g'.label then g' else x

/-! ### effect of the primitives on the gate list / interface -/

theorem addUser_gates (c : Circuit) (l u : Label) : (c.addUser l u).gates = c.gates ∧
    (c.addUser l u).inputs = c.inputs ∧ (c.addUser l u).outputs = c.outputs := by
  unfold addUser; split <;> simp

theorem removeUser_gates (c : Circuit) (l u : Label) : (c.removeUser l u).gates = c.gates ∧
    (c.removeUser l u).inputs = c.inputs ∧ (c.removeUser l u).outputs = c.outputs := by
  unfold removeUser; split
  · simp
  · split <;> simp

theorem foldl_addUser_gates (ops : List Label) (c : Circuit) (u : Label) :
    (ops.foldl (fun c o => c.addUser o u) c).gates = c.gates ∧
    (ops.foldl (fun c o => c.addUser o u) c).inputs = c.inputs ∧
    (ops.foldl (fun c o => c.addUser o u) c).outputs = c.outputs := by
  induction ops generalizing c with
  | nil => simp
  | cons o r ih =>
    simp only [List.foldl_cons]
    obtain ⟨a, b, d⟩ := ih (c.addUser o u)
    obtain ⟨a', b', d'⟩ := addUser_gates c o u
    exact ⟨a.trans a', b.trans b', d.trans d'⟩

theorem foldl_removeUser_gates (ops : List Label) (c : Circuit) (u : Label) :
    (ops.foldl (fun cc o => cc.removeUser o u) c).gates = c.gates ∧
    (ops.foldl (fun cc o => cc.removeUser o u) c).inputs = c.inputs ∧
    (ops.foldl (fun cc o => cc.removeUser o u) c).outputs = c.outputs := by
  induction ops generalizing c with
  | nil => simp
  | cons o r ih =>
    simp only [List.foldl_cons]
    obtain ⟨a, b, d⟩ := ih (c.removeUser o u)
    obtain ⟨a', b', d'⟩ := removeUser_gates c o u
    exact ⟨a.trans a', b.trans b', d.trans d'⟩

/-- adding a fresh non-INPUT gate appends it and leaves the interface alone -/
theorem addGate_fresh {c c1 : Circuit} {g : Gate} (h : c.addGate g = .ok c1) (hty : g.ty ≠ INPUT) :
    c.hasGate g.label = false ∧ (∀ o ∈ g.ops, c.hasGate o = true) ∧
    c1.gates = c.gates ++ [g] ∧ c1.inputs = c.inputs ∧ c1.outputs = c.outputs := by
  unfold addGate at h
  split at h
  · cases h
  · rename_i hfresh
    split at h
    · cases h
    · rename_i hex
      simp only [Except.ok.injEq] at h
      subst h
      have hfr : c.hasGate g.label = false := by simpa using hfresh
      have hops : ∀ o ∈ g.ops, c.hasGate o = true := by
        unfold checkGatesExist at hex
        split at hex
        · rename_i hall; exact List.all_eq_true.mp hall
        · cases hex
      obtain ⟨a, b, d⟩ := foldl_addUser_gates g.ops c g.label
      refine ⟨hfr, hops, ?_, ?_, ?_⟩
      · unfold rawAddGate
        simp only
        have hh : (List.foldl (fun c o => c.addUser o g.label) c g.ops).hasGate g.label = false := by
          unfold hasGate at hfr ⊢; rw [a]; exact hfr
        simp [hh, a]
      · unfold rawAddGate; simp [hty, b]
      · unfold rawAddGate; simp [d]

theorem setGate_fields (c : Circuit) (g' : Gate) : (c.setGate g').gates = c.gates.map (replG g') ∧
    (c.setGate g').inputs = c.inputs ∧ (c.setGate g').outputs = c.outputs := by
  unfold setGate replG; simp

theorem addToBlocks_fields (c : Circuit) (a b : Label) : (c.addToBlocks a b).gates = c.gates ∧
    (c.addToBlocks a b).inputs = c.inputs ∧ (c.addToBlocks a b).outputs = c.outputs := by
  unfold addToBlocks; simp

/-! ### semantic effect of one rewrite on valuations -/

theorem valG_replace {G : List Gate} {b v : Label → Bool} (hv : ValG G b v) {g g' : Gate} (hg : g ∈ G)
    (hgl : g'.label = g.label) (hgty : g.ty ≠ INPUT) (hg'ty : g'.ty ≠ INPUT)
    (hsem : bfun g'.ty (g'.ops.map v) = bfun g.ty (g.ops.map v)) :
    ValG (G.map (replG g')) b v := by
  intro h hh
  obtain ⟨h0, hh0, rfl⟩ := List.mem_map.mp hh
  unfold replG
  by_cases e : (h0.label == g'.label) = true
  · simp only [e, if_true, hg'ty, if_false]
    have := hv g hg
    simp only [hgty, if_false] at this
    rw [hsem, this, hgl]
  · simp only [e, Bool.false_eq_true, if_false]
    exact hv h0 hh0

theorem valG_replace_with_helper {G : List Gate} {b v : Label → Bool} (hv : ValG G b v) {g g' : Gate}
    (hg : g ∈ G) (hgl : g'.label = g.label) (new target : Label)
    (hfresh : ∀ h ∈ G, h.label ≠ new ∧ new ∉ h.ops) (htm : target ≠ new)
    (hgty : g.ty ≠ INPUT) (hg'ty : g'.ty ≠ INPUT)
    (hsem : bfun g'.ty (g'.ops.map (updV v new (!v target))) = bfun g.ty (g.ops.map v)) :
    ValG ((G ++ [(⟨new, NOT, [target]⟩ : Gate)]).map (replG g')) b (updV v new (!v target)) := by
  have hupd : ∀ l, l ≠ new → updV v new (!v target) l = v l := by intro l hl; simp [updV, hl]
  have hmapops : ∀ h ∈ G, h.ops.map (updV v new (!v target)) = h.ops.map v := by
    intro h hh
    apply List.map_congr_left
    intro o ho
    exact hupd o (fun e => (hfresh h hh).2 (e ▸ ho))
  intro h hh
  obtain ⟨h0, hh0, rfl⟩ := List.mem_map.mp hh
  unfold replG
  by_cases e : (h0.label == g'.label) = true
  · simp only [e, if_true, hg'ty, if_false]
    have := hv g hg
    simp only [hgty, if_false] at this
    rw [hsem, this, hgl, hupd g.label (hfresh g hg).1]
  · simp only [e, Bool.false_eq_true, if_false]
    simp only [List.mem_append, List.mem_singleton] at hh0
    rcases hh0 with hh0 | rfl
    · have := hv h0 hh0
      by_cases ht : h0.ty = INPUT
      · simp only [ht, if_true] at this ⊢
        rw [hupd _ (hfresh h0 hh0).1, this]
      · simp only [ht, if_false] at this ⊢
        rw [hmapops h0 hh0, this, hupd _ (hfresh h0 hh0).1]
    · simp only [show (NOT : GateType) ≠ INPUT by decide, if_false, List.map_cons, List.map_nil, bfun]
      rw [hupd target htm]
      simp [updV]

theorem hasGate_iff (c : Circuit) (l : Label) : c.hasGate l = true ↔ l ∈ c.labels := by
  unfold hasGate labels
  simp only [List.any_eq_true, beq_iff_eq, List.mem_map]

theorem hasGate_false_iff (c : Circuit) (l : Label) : c.hasGate l = false ↔ l ∉ c.labels := by
  rw [← hasGate_iff]; cases c.hasGate l <;> simp

theorem convNeg_gates {c c1 : Circuit} {g : Gate} {k k1 : Nat} {tag : String} {idx : Nat} {ty : GateType}
    (h : convNeg c g k tag idx ty = .ok (c1, k1)) :
    ∃ x y, g.ops[0]? = some x ∧ g.ops[1]? = some y ∧
      c.hasGate (convLabel tag g k) = false ∧ c.hasGate (if idx = 0 then x else y) = true ∧
      c1.gates = (c.gates ++ [(⟨convLabel tag g k, NOT, [if idx = 0 then x else y]⟩ : Gate)]).map
        (replG ⟨g.label, ty, if idx = 0 then [convLabel tag g k, y] else [x, convLabel tag g k]⟩) ∧
      c1.inputs = c.inputs ∧ c1.outputs = c.outputs := by
  unfold convNeg at h
  cases h0 : g.ops[0]? with
  | none => simp [h0] at h
  | some x =>
    cases h1 : g.ops[1]? with
    | none => simp [h0, h1] at h
    | some y =>
      simp only [h0, h1] at h
      cases ha : c.addGate ⟨convLabel tag g k, NOT, [if idx = 0 then x else y]⟩ with
      | error e => simp [ha] at h
      | ok c2 =>
        simp only [ha, Except.ok.injEq, Prod.mk.injEq] at h
        obtain ⟨rfl, _⟩ := h
        obtain ⟨f1, f2, f3, f4, f5⟩ := addGate_fresh ha (by simp)
        refine ⟨x, y, rfl, rfl, f1, f2 _ (by simp), ?_, ?_, ?_⟩
        · rw [(addToBlocks_fields _ _ _).1, (setGate_fields _ _).1, (addUser_gates _ _ _).1,
            (removeUser_gates _ _ _).1, f3]
        · rw [(addToBlocks_fields _ _ _).2.1, (setGate_fields _ _).2.1, (addUser_gates _ _ _).2.1,
            (removeUser_gates _ _ _).2.1, f4]
        · rw [(addToBlocks_fields _ _ _).2.2, (setGate_fields _ _).2.2, (addUser_gates _ _ _).2.2,
            (removeUser_gates _ _ _).2.2, f5]

theorem convDrop_gates {c c1 : Circuit} {g : Gate} {k k1 : Nat} {idx : Nat} {ty : GateType}
    (h : convDrop c g k idx ty = .ok (c1, k1)) :
    ∃ x y, g.ops[0]? = some x ∧ g.ops[1]? = some y ∧
      c1.gates = c.gates.map (replG ⟨g.label, ty, [if idx = 0 then y else x]⟩) ∧
      c1.inputs = c.inputs ∧ c1.outputs = c.outputs := by
  unfold convDrop at h
  cases h0 : g.ops[0]? with
  | none => simp [h0] at h
  | some x =>
    cases h1 : g.ops[1]? with
    | none => simp [h0, h1] at h
    | some y =>
      simp only [h0, h1, Except.ok.injEq, Prod.mk.injEq] at h
      obtain ⟨rfl, _⟩ := h
      refine ⟨x, y, rfl, rfl, ?_, ?_, ?_⟩
      · rw [(setGate_fields _ _).1, (removeUser_gates _ _ _).1]
      · rw [(setGate_fields _ _).2.1, (removeUser_gates _ _ _).2.1]
      · rw [(setGate_fields _ _).2.2, (removeUser_gates _ _ _).2.2]

theorem convConst_gates {c c1 : Circuit} {g : Gate} {k k1 : Nat} {tag : String} {ty : GateType}
    (h : convConst c g k tag ty = .ok (c1, k1)) :
    ∃ first, c.inputs[0]? = some first ∧
      c.hasGate (convLabel tag g k) = false ∧ c.hasGate first = true ∧
      c1.gates = (c.gates ++ [(⟨convLabel tag g k, NOT, [first]⟩ : Gate)]).map
        (replG ⟨g.label, ty, [first, convLabel tag g k]⟩) ∧
      c1.inputs = c.inputs ∧ c1.outputs = c.outputs := by
  unfold convConst at h
  cases h0 : c.inputs[0]? with
  | none => simp [h0] at h
  | some first =>
    simp only [h0] at h
    cases ha : c.addGate ⟨convLabel tag g k, NOT, [first]⟩ with
    | error e => simp [ha] at h
    | ok c2 =>
      simp only [ha, Except.ok.injEq, Prod.mk.injEq] at h
      obtain ⟨rfl, _⟩ := h
      obtain ⟨f1, f2, f3, f4, f5⟩ := addGate_fresh ha (by simp)
      refine ⟨first, rfl, f1, f2 _ (by simp), ?_, ?_, ?_⟩
      · rw [(addToBlocks_fields _ _ _).1, (setGate_fields _ _).1, (addUser_gates _ _ _).1,
          (addUser_gates _ _ _).1, (foldl_removeUser_gates _ _ _).1, f3]
      · rw [(addToBlocks_fields _ _ _).2.1, (setGate_fields _ _).2.1, (addUser_gates _ _ _).2.1,
          (addUser_gates _ _ _).2.1, (foldl_removeUser_gates _ _ _).2.1, f4]
      · rw [(addToBlocks_fields _ _ _).2.2, (setGate_fields _ _).2.2, (addUser_gates _ _ _).2.2,
          (addUser_gates _ _ _).2.2, (foldl_removeUser_gates _ _ _).2.2, f5]

/-! ### one conversion step -/

structure NL (c : Circuit) : Prop where
  nodup : c.labels.Nodup
  closed : ∀ g ∈ c.gates, ∀ o ∈ g.ops, o ∈ c.labels
  arity : ∀ g ∈ c.gates, if g.ty = INPUT then g.ops = [] else arityOk g.ty g.ops.length = true

def benchTy : GateType → Bool
  | INPUT | NOT | AND | OR | NAND | NOR | XOR | NXOR | IFF => true
  | _ => false

structure ConvRes (c c1 : Circuit) (g : Gate) (b v v1 : Label → Bool) : Prop where
  val : ValG c1.gates b v1
  agree : ∀ l ∈ c.labels, v1 l = v l
  ins : c1.inputs = c.inputs
  outs : c1.outputs = c.outputs
  nl : NL c1
  stay : ∀ h ∈ c.gates, h.label ≠ g.label → h ∈ c1.gates
  sub : ∀ l ∈ c.labels, l ∈ c1.labels
  typesNew : ∀ h ∈ c1.gates, h ∉ c.gates → benchTy h.ty = true
  typesG : ∀ h ∈ c1.gates, h.label = g.label → benchTy h.ty = true

theorem ops_two {g : Gate} {x y : Label} (h0 : g.ops[0]? = some x) (h1 : g.ops[1]? = some y)
    (hl : g.ops.length = 2) : g.ops = [x, y] := by
  rcases hg : g.ops with _ | ⟨a, _ | ⟨b, _ | ⟨c, r⟩⟩⟩ <;> rw [hg] at h0 h1 hl <;> simp at h0 h1 hl
  rw [h0, h1]

theorem labels_map_replG (G : List Gate) (g' : Gate) : (G.map (replG g')).map (·.label) = G.map (·.label) := by
  rw [List.map_map]
  apply List.map_congr_left
  intro x _
  simp only [Function.comp, replG]
  by_cases e : (x.label == g'.label) = true
  · simp only [e, if_true]; exact (by simpa using e : x.label = g'.label).symm
  · simp [e]

/-- common part of the two "helper gate" rewrites -/
theorem helper_res {c c1 : Circuit} (hnl : NL c) {g g' : Gate} (hg : g ∈ c.gates) {b v : Label → Bool}
    (hv : ValG c.gates b v) (new target : Label) (hnew : c.hasGate new = false)
    (htarget : c.hasGate target = true) (hgl : g'.label = g.label)
    (hgty : g.ty ≠ INPUT) (hg'b : benchTy g'.ty = true) (hg'ty : g'.ty ≠ INPUT)
    (hg'ar : arityOk g'.ty g'.ops.length = true)
    (hg'ops : ∀ o ∈ g'.ops, o = new ∨ o ∈ c.labels)
    (hgnb : benchTy g.ty = false)
    (hgates : c1.gates = (c.gates ++ [(⟨new, NOT, [target]⟩ : Gate)]).map (replG g'))
    (hins : c1.inputs = c.inputs) (houts : c1.outputs = c.outputs)
    (hsem : bfun g'.ty (g'.ops.map (updV v new (!v target))) = bfun g.ty (g.ops.map v)) :
    ConvRes c c1 g b v (updV v new (!v target)) := by
  have hnewL : new ∉ c.labels := (hasGate_false_iff c new).mp hnew
  have htL : target ∈ c.labels := (hasGate_iff c target).mp htarget
  have hfresh : ∀ h ∈ c.gates, h.label ≠ new ∧ new ∉ h.ops := by
    intro h hh
    exact ⟨fun e => hnewL (e ▸ mem_labels_of_mem hh), fun hm => hnewL (hnl.closed h hh new hm)⟩
  have htm : target ≠ new := fun e => hnewL (e ▸ htL)
  have hlabels : c1.labels = c.labels ++ [new] := by
    unfold labels; rw [hgates, labels_map_replG]; simp
  have hmem1 : ∀ h, h ∈ c1.gates ↔ ∃ h0, (h0 ∈ c.gates ∨ h0 = ⟨new, NOT, [target]⟩) ∧ replG g' h0 = h := by
    intro h; rw [hgates]
    simp only [List.mem_map, List.mem_append, List.mem_singleton]
  refine ⟨by rw [hgates]; exact valG_replace_with_helper hv hg hgl new target hfresh htm hgty hg'ty hsem,
    ?_, hins, houts, ⟨?_, ?_, ?_⟩, ?_, ?_, ?_, ?_⟩
  · intro l hl
    have : l ≠ new := fun e => hnewL (e ▸ hl)
    simp [updV, this]
  · rw [hlabels, List.nodup_append]
    exact ⟨hnl.nodup, by simp, by intro a ha b' hb; simp at hb; subst hb; exact fun e => hnewL (e ▸ ha)⟩
  · intro h hh o ho
    rw [hlabels]
    obtain ⟨h0, hh0, rfl⟩ := (hmem1 h).mp hh
    unfold replG at ho
    by_cases e : (h0.label == g'.label) = true
    · simp only [e, if_true] at ho
      rcases hg'ops o ho with rfl | h'
      · simp
      · simp [h']
    · simp only [e, Bool.false_eq_true, if_false] at ho
      rcases hh0 with hh0 | rfl
      · simp [hnl.closed h0 hh0 o ho]
      · simp at ho; subst ho; simp [htL]
  · intro h hh
    obtain ⟨h0, hh0, rfl⟩ := (hmem1 h).mp hh
    unfold replG
    by_cases e : (h0.label == g'.label) = true
    · simp only [e, if_true, hg'ty, if_false]; exact hg'ar
    · simp only [e, Bool.false_eq_true, if_false]
      rcases hh0 with hh0 | rfl
      · exact hnl.arity h0 hh0
      · simp [arityOk]
  · intro h hh hne
    apply (hmem1 h).mpr
    refine ⟨h, Or.inl hh, ?_⟩
    unfold replG
    have : (h.label == g'.label) = false := by rw [hgl]; simpa using hne
    simp [this]
  · intro l hl; rw [hlabels]; simp [hl]
  · intro h hh hnin
    obtain ⟨h0, hh0, rfl⟩ := (hmem1 h).mp hh
    unfold replG at hnin ⊢
    by_cases e : (h0.label == g'.label) = true
    · simp only [e, if_true]; exact hg'b
    · simp only [e, Bool.false_eq_true, if_false] at hnin ⊢
      rcases hh0 with hh0 | rfl
      · exact absurd hh0 hnin
      · rfl
  · intro h hh hl
    obtain ⟨h0, hh0, rfl⟩ := (hmem1 h).mp hh
    unfold replG at hl ⊢
    by_cases e : (h0.label == g'.label) = true
    · simp only [e, if_true]; exact hg'b
    · exfalso
      simp only [e, Bool.false_eq_true, if_false] at hl
      rw [hgl] at e
      exact e (by simpa using hl)

theorem drop_res {c c1 : Circuit} (hnl : NL c) {g g' : Gate} (hg : g ∈ c.gates) {b v : Label → Bool}
    (hv : ValG c.gates b v) (hgl : g'.label = g.label)
    (hgty : g.ty ≠ INPUT) (hg'b : benchTy g'.ty = true) (hg'ty : g'.ty ≠ INPUT)
    (hg'ar : arityOk g'.ty g'.ops.length = true) (hg'ops : ∀ o ∈ g'.ops, o ∈ c.labels)
    (hgates : c1.gates = c.gates.map (replG g'))
    (hins : c1.inputs = c.inputs) (houts : c1.outputs = c.outputs)
    (hsem : bfun g'.ty (g'.ops.map v) = bfun g.ty (g.ops.map v)) :
    ConvRes c c1 g b v v := by
  have hlabels : c1.labels = c.labels := by unfold labels; rw [hgates, labels_map_replG]
  have hmem1 : ∀ h, h ∈ c1.gates ↔ ∃ h0, h0 ∈ c.gates ∧ replG g' h0 = h := by
    intro h; rw [hgates]; simp only [List.mem_map]
  refine ⟨by rw [hgates]; exact valG_replace hv hg hgl hgty hg'ty hsem, fun _ _ => rfl, hins, houts,
    ⟨by rw [hlabels]; exact hnl.nodup, ?_, ?_⟩, ?_, by rw [hlabels]; exact fun l hl => hl, ?_, ?_⟩
  · intro h hh o ho
    rw [hlabels]
    obtain ⟨h0, hh0, rfl⟩ := (hmem1 h).mp hh
    unfold replG at ho
    by_cases e : (h0.label == g'.label) = true
    · simp only [e, if_true] at ho; exact hg'ops o ho
    · simp only [e, Bool.false_eq_true, if_false] at ho; exact hnl.closed h0 hh0 o ho
  · intro h hh
    obtain ⟨h0, hh0, rfl⟩ := (hmem1 h).mp hh
    unfold replG
    by_cases e : (h0.label == g'.label) = true
    · simp only [e, if_true, hg'ty, if_false]; exact hg'ar
    · simp only [e, Bool.false_eq_true, if_false]; exact hnl.arity h0 hh0
  · intro h hh hne
    apply (hmem1 h).mpr
    refine ⟨h, hh, ?_⟩
    unfold replG
    have : (h.label == g'.label) = false := by rw [hgl]; simpa using hne
    simp [this]
  · intro h hh hnin
    obtain ⟨h0, hh0, rfl⟩ := (hmem1 h).mp hh
    unfold replG at hnin ⊢
    by_cases e : (h0.label == g'.label) = true
    · simp only [e, if_true]; exact hg'b
    · simp only [e, Bool.false_eq_true, if_false] at hnin; exact absurd hh0 hnin
  · intro h hh hl
    obtain ⟨h0, hh0, rfl⟩ := (hmem1 h).mp hh
    unfold replG at hl ⊢
    by_cases e : (h0.label == g'.label) = true
    · simp only [e, if_true]; exact hg'b
    · exfalso
      simp only [e, Bool.false_eq_true, if_false] at hl
      rw [hgl] at e
      exact e (by simpa using hl)

/-- **One conversion step** (any of the ten rewrites, or no rewrite for a gate already in the
bench basis) preserves the denotation of every pre-existing gate, the interface and netlist
well-formedness; everything it creates is in the bench basis. -/
theorem convertGate_sem {c c1 : Circuit} (hnl : NL c) {g : Gate} (hg : g ∈ c.gates) {k k1 : Nat}
    {b v : Label → Bool} (hv : ValG c.gates b v) (h : c.convertGate g k = .ok (c1, k1)) :
    ∃ v1, ConvRes c c1 g b v v1 := by
  have har := hnl.arity g hg
  have hcl := hnl.closed g hg
  unfold convertGate at h
  -- the four "negate one operand" rewrites
  have negCase : ∀ (tag : String) (idx : Nat) (ty : GateType), (idx = 0 ∨ idx = 1) →
      convNeg c g k tag idx ty = .ok (c1, k1) → g.ty ≠ INPUT → benchTy g.ty = false →
      arityOk g.ty g.ops.length = true → g.ops.length = 2 → benchTy ty = true → ty ≠ INPUT →
      arityOk ty 2 = true →
      (∀ a b', bfun ty (if idx = 0 then [!a, b'] else [a, !b']) = bfun g.ty [a, b']) →
      ∃ v1, ConvRes c c1 g b v v1 := by
    intro tag idx ty hidx hc hgty hgnb _ hlen hb hni har2 hsemT
    obtain ⟨x, y, h0, h1, hnew, htgt, hgates, hins, houts⟩ := convNeg_gates hc
    have hops := ops_two h0 h1 hlen
    have hxL : x ∈ c.labels := hcl x (by rw [hops]; simp)
    have hyL : y ∈ c.labels := hcl y (by rw [hops]; simp)
    have hnewL : convLabel tag g k ∉ c.labels := (hasGate_false_iff _ _).mp hnew
    have hxn : x ≠ convLabel tag g k := fun e => hnewL (e ▸ hxL)
    have hyn : y ≠ convLabel tag g k := fun e => hnewL (e ▸ hyL)
    refine ⟨_, helper_res (g' := ⟨g.label, ty, if idx = 0 then [convLabel tag g k, y] else [x, convLabel tag g k]⟩) hnl hg hv (convLabel tag g k) (if idx = 0 then x else y) hnew htgt rfl hgty hb hni
      (by rcases hidx with rfl | rfl <;> simpa using har2) ?_ hgnb hgates hins houts ?_⟩
    · intro o ho
      rcases hidx with rfl | rfl <;> simp at ho <;> rcases ho with rfl | rfl <;> simp [hxL, hyL]
    · rw [hops]
      have := hsemT (v x) (v y)
      rcases hidx with rfl | rfl
      · simpa [updV, hyn] using this
      · simpa [updV, hxn] using this
  have dropCase : ∀ (idx : Nat) (ty : GateType), (idx = 0 ∨ idx = 1) →
      convDrop c g k idx ty = .ok (c1, k1) → g.ty ≠ INPUT → g.ops.length = 2 → benchTy ty = true → ty ≠ INPUT →
      arityOk ty 1 = true →
      (∀ a b', bfun ty [if idx = 0 then b' else a] = bfun g.ty [a, b']) →
      ∃ v1, ConvRes c c1 g b v v1 := by
    intro idx ty hidx hc hgty hlen hb hni har1 hsemT
    obtain ⟨x, y, h0, h1, hgates, hins, houts⟩ := convDrop_gates hc
    have hops := ops_two h0 h1 hlen
    have hxL : x ∈ c.labels := hcl x (by rw [hops]; simp)
    have hyL : y ∈ c.labels := hcl y (by rw [hops]; simp)
    refine ⟨v, drop_res (g' := ⟨g.label, ty, [if idx = 0 then y else x]⟩) hnl hg hv rfl hgty hb hni (by simpa using har1) ?_ hgates hins houts ?_⟩
    · intro o ho
      rcases hidx with rfl | rfl <;> simp at ho <;> subst ho <;> assumption
    · rw [hops]
      have := hsemT (v x) (v y)
      rcases hidx with rfl | rfl <;> simpa using this
  have constCase : ∀ (tag : String) (ty : GateType) (val : Bool),
      convConst c g k tag ty = .ok (c1, k1) → g.ty ≠ INPUT → benchTy g.ty = false →
      (∀ xs, bfun g.ty xs = some val) → benchTy ty = true → ty ≠ INPUT → arityOk ty 2 = true →
      (∀ a, bfun ty [a, !a] = some val) →
      ∃ v1, ConvRes c c1 g b v v1 := by
    intro tag ty val hc hgty hgnb hconst hb hni har2 hsemT
    obtain ⟨first, _, hnew, hfst, hgates, hins, houts⟩ := convConst_gates hc
    have hfL : first ∈ c.labels := (hasGate_iff _ _).mp hfst
    have hnewL : convLabel tag g k ∉ c.labels := (hasGate_false_iff _ _).mp hnew
    have hfn : first ≠ convLabel tag g k := fun e => hnewL (e ▸ hfL)
    refine ⟨_, helper_res (g' := ⟨g.label, ty, [first, convLabel tag g k]⟩) hnl hg hv (convLabel tag g k) first hnew hfst rfl hgty hb hni
      (by simpa using har2) ?_ hgnb hgates hins houts ?_⟩
    · intro o ho; simp at ho; rcases ho with rfl | rfl <;> simp [hfL]
    · rw [hconst]
      have := hsemT (v first)
      simpa [updV, hfn] using this
  cases hty : g.ty <;> simp only [hty] at h har
  case INPUT | AND | IFF | NAND | NOR | NOT | NXOR | OR | XOR =>
    simp only [Except.ok.injEq, Prod.mk.injEq] at h
    obtain ⟨rfl, _⟩ := h
    exact ⟨v, hv, fun _ _ => rfl, rfl, rfl, hnl, fun h hh _ => hh, fun l hl => hl,
      fun h hh hn => absurd hh hn, fun h hh hl => by
        have : h = g := gate_unique hnl.nodup hh hg hl
        subst this; simp [hty, benchTy]⟩
  case LT =>
    have har' : arityOk GateType.LT g.ops.length = true := by simpa using har
    refine negCase "LT" 0 AND (Or.inl rfl) h (by simp [hty]) (by simp [hty, benchTy]) (by rw [hty]; exact har') (by simpa [arityOk] using har') rfl (by decide) rfl ?_
    intro a b'; rw [hty]; cases a <;> cases b' <;> rfl
  case LEQ =>
    have har' : arityOk LEQ g.ops.length = true := by simpa using har
    refine negCase "LEQ" 0 OR (Or.inl rfl) h (by simp [hty]) (by simp [hty, benchTy]) (by rw [hty]; exact har') (by simpa [arityOk] using har') rfl (by decide) rfl ?_
    intro a b'; rw [hty]; cases a <;> cases b' <;> rfl
  case GT =>
    have har' : arityOk GT g.ops.length = true := by simpa using har
    refine negCase "GT" 1 AND (Or.inr rfl) h (by simp [hty]) (by simp [hty, benchTy]) (by rw [hty]; exact har') (by simpa [arityOk] using har') rfl (by decide) rfl ?_
    intro a b'; rw [hty]; cases a <;> cases b' <;> rfl
  case GEQ =>
    have har' : arityOk GEQ g.ops.length = true := by simpa using har
    refine negCase "GEQ" 1 OR (Or.inr rfl) h (by simp [hty]) (by simp [hty, benchTy]) (by rw [hty]; exact har') (by simpa [arityOk] using har') rfl (by decide) rfl ?_
    intro a b'; rw [hty]; cases a <;> cases b' <;> rfl
  case LIFF =>
    have har' : arityOk LIFF g.ops.length = true := by simpa using har
    refine dropCase 1 IFF (Or.inr rfl) h (by simp [hty]) (by simpa [arityOk] using har') rfl (by decide) rfl ?_
    intro a b'; rw [hty]; rfl
  case RIFF =>
    have har' : arityOk RIFF g.ops.length = true := by simpa using har
    refine dropCase 0 IFF (Or.inl rfl) h (by simp [hty]) (by simpa [arityOk] using har') rfl (by decide) rfl ?_
    intro a b'; rw [hty]; rfl
  case LNOT =>
    have har' : arityOk LNOT g.ops.length = true := by simpa using har
    refine dropCase 1 NOT (Or.inr rfl) h (by simp [hty]) (by simpa [arityOk] using har') rfl (by decide) rfl ?_
    intro a b'; rw [hty]; rfl
  case RNOT =>
    have har' : arityOk RNOT g.ops.length = true := by simpa using har
    refine dropCase 0 NOT (Or.inl rfl) h (by simp [hty]) (by simpa [arityOk] using har') rfl (by decide) rfl ?_
    intro a b'; rw [hty]; rfl
  case ALWAYS_TRUE =>
    refine constCase "ALWAYS_TRUE" OR true h (by simp [hty]) (by simp [hty, benchTy]) ?_ rfl (by decide) rfl ?_
    · intro xs; rw [hty]; rfl
    · intro a; cases a <;> rfl
  case ALWAYS_FALSE =>
    refine constCase "ALWAYS_FALSE" AND false h (by simp [hty]) (by simp [hty, benchTy]) ?_ rfl (by decide) rfl ?_
    · intro xs; rw [hty]; rfl
    · intro a; cases a <;> rfl

/-! ### the whole conversion -/

theorem intoBench_fold {b : Label → Bool} : ∀ (todo : List Gate) (cur : Circuit) (k : Nat) (v : Label → Bool)
    (c' : Circuit) (k' : Nat), NL cur → ValG cur.gates b v → (todo.map (·.label)).Nodup →
    (∀ g ∈ todo, g ∈ cur.gates) → (∀ h ∈ cur.gates, benchTy h.ty = true ∨ h ∈ todo) →
    todo.foldl convStep (.ok (cur, k)) = .ok (c', k') →
    ∃ v', ValG c'.gates b v' ∧ (∀ l ∈ cur.labels, v' l = v l) ∧ c'.inputs = cur.inputs ∧
      c'.outputs = cur.outputs ∧ NL c' ∧ (∀ h ∈ c'.gates, benchTy h.ty = true) ∧
      (∀ l ∈ cur.labels, l ∈ c'.labels) := by
  intro todo
  induction todo with
  | nil =>
    intro cur k v c' k' hnl hv _ _ hb h
    simp only [List.foldl_nil, Except.ok.injEq, Prod.mk.injEq] at h
    obtain ⟨rfl, _⟩ := h
    exact ⟨v, hv, fun _ _ => rfl, rfl, rfl, hnl, fun h hh => (hb h hh).elim id (fun x => by cases x),
      fun l hl => hl⟩
  | cons g rest ih =>
    intro cur k v c' k' hnl hv hnd hin hb h
    simp only [List.foldl_cons] at h
    have hstep : convStep (.ok (cur, k)) g = cur.convertGate g k := rfl
    rw [hstep] at h
    cases hc : cur.convertGate g k with
    | error e =>
      rw [hc] at h
      -- an error is sticky through the fold
      exfalso
      have : ∀ (l : List Gate), l.foldl convStep (.error e) = .error e := by
        intro l; induction l with
        | nil => rfl
        | cons a r ih2 => simpa [convStep] using ih2
      rw [this] at h; cases h
    | ok p =>
      obtain ⟨c1, k1⟩ := p
      rw [hc] at h
      have hg := hin g (by simp)
      obtain ⟨v1, res⟩ := convertGate_sem hnl hg hv hc
      simp only [List.map_cons, List.nodup_cons] at hnd
      have hin1 : ∀ g2 ∈ rest, g2 ∈ c1.gates := by
        intro g2 hg2
        apply res.stay g2 (hin g2 (by simp [hg2]))
        intro e
        exact hnd.1 (List.mem_map.mpr ⟨g2, hg2, e⟩)
      have hb1 : ∀ h ∈ c1.gates, benchTy h.ty = true ∨ h ∈ rest := by
        intro h hh
        by_cases hcur : h ∈ cur.gates
        · rcases hb h hcur with hbt | hm
          · exact Or.inl hbt
          · simp only [List.mem_cons] at hm
            rcases hm with rfl | hm
            · exact Or.inl (res.typesG h hh rfl)
            · exact Or.inr hm
        · exact Or.inl (res.typesNew h hh hcur)
      obtain ⟨v', a1, a2, a3, a4, a5, a6, a7⟩ := ih c1 k1 v1 c' k' res.nl res.val hnd.2 hin1 hb1 h
      refine ⟨v', a1, ?_, a3.trans res.ins, a4.trans res.outs, a5, a6, fun l hl => a7 l (res.sub l hl)⟩
      intro l hl
      rw [a2 l (res.sub l hl), res.agree l hl]

/-- **`into_bench` preserves the function**: for every circuit with distinct labels, closed
operands and accepted arities, if the conversion returns then every valuation of the original
extends to a valuation of the result that agrees on all original gates (hence on all outputs,
which are unchanged, under the unchanged inputs), the result is again a closed netlist with
distinct labels and accepted arities, and only bench-basis gate types remain. -/
theorem intoBench_sem {c c' : Circuit} {k k' : Nat} (hnl : NL c) {b v : Label → Bool}
    (hv : IsValB c b v) (h : c.intoBench k = .ok (c', k')) :
    ∃ v', IsValB c' b v' ∧ (∀ l ∈ c.labels, v' l = v l) ∧ c'.inputs = c.inputs ∧
      c'.outputs = c.outputs ∧ NL c' ∧ (∀ g ∈ c'.gates, benchTy g.ty = true) := by
  unfold intoBench at h
  obtain ⟨v', a1, a2, a3, a4, a5, a6, _⟩ := intoBench_fold (b := b) c.gates c k v c' k' hnl hv
    (by simpa [labels] using hnl.nodup) (fun g hg => hg) (fun h hh => Or.inr hh) h
  exact ⟨v', a1, a2, a3, a4, a5, a6⟩

end Cirbo
