import Cirbo.Proofs.GenSum
/-!
# Gate counts of generator programs (C07): a cost semantics and the blocks' exact costs
-/
namespace Cirbo
open GateType

/-- `Cost p a k`: `p` can return `a` along a path on which exactly `k` gates are added -/
inductive Cost {α : Type} : Prog α → α → Nat → Prop
  | pure {a : α} : Cost (.pure a) a 0
  | fresh {r k} {a : α} {n : Nat} (l : Label) : Cost (k l) a n → Cost (.fresh r k) a n
  | add {g ok k} {a : α} {n : Nat} : Cost k a n → Cost (.add g ok k) a (n + 1)
  | mark {l k} {a : α} {n : Nat} : Cost k a n → Cost (.mark l k) a n

theorem cost_pure {α} {a a' : α} {n : Nat} : Cost (Pure.pure a : Prog α) a' n ↔ a' = a ∧ n = 0 := by
  constructor
  · intro h; cases h; exact ⟨rfl, rfl⟩
  · rintro ⟨rfl, rfl⟩; exact .pure

theorem cost_fail {α} {e : String} {a : α} {n : Nat} : ¬ Cost (.fail e : Prog α) a n := by
  intro h; cases h

theorem cost_bind {α β} (p : Prog α) (f : α → Prog β) (b : β) (n : Nat) :
    Cost (p >>= f) b n ↔ ∃ a n1 n2, Cost p a n1 ∧ Cost (f a) b n2 ∧ n = n1 + n2 := by
  show Cost (p.bind f) b n ↔ _
  induction p generalizing n with
  | pure a =>
    simp only [Prog.bind]
    constructor
    · intro h; exact ⟨a, 0, n, .pure, h, by omega⟩
    · rintro ⟨a', n1, n2, h1, h2, rfl⟩; cases h1; simpa using h2
  | fresh r k ih =>
    simp only [Prog.bind]
    constructor
    · intro h
      cases h with
      | fresh l hl =>
        obtain ⟨a, n1, n2, h1, h2, e⟩ := (ih l n).mp hl
        exact ⟨a, n1, n2, .fresh l h1, h2, e⟩
    · rintro ⟨a, n1, n2, h1, h2, e⟩
      cases h1 with
      | fresh l hl => exact .fresh l ((ih l n).mpr ⟨a, n1, n2, hl, h2, e⟩)
  | add g ok k ih =>
    simp only [Prog.bind]
    constructor
    · intro h
      cases h with
      | add hk =>
        obtain ⟨a, n1, n2, h1, h2, e⟩ := (ih _).mp hk
        exact ⟨a, n1 + 1, n2, .add h1, h2, by omega⟩
    · rintro ⟨a, n1, n2, h1, h2, e⟩
      cases h1 with
      | add hk =>
        subst e
        rw [Nat.add_right_comm]
        exact .add ((ih _).mpr ⟨a, _, n2, hk, h2, rfl⟩)
  | mark l k ih =>
    simp only [Prog.bind]
    constructor
    · intro h
      cases h with
      | mark hk =>
        obtain ⟨a, n1, n2, h1, h2, e⟩ := (ih n).mp hk
        exact ⟨a, n1, n2, .mark h1, h2, e⟩
    · rintro ⟨a, n1, n2, h1, h2, e⟩
      cases h1 with
      | mark hk => exact .mark ((ih n).mpr ⟨a, n1, n2, hk, h2, e⟩)
  | fail e =>
    simp only [Prog.bind]
    constructor
    · intro h; cases h
    · rintro ⟨a, n1, n2, h1, _, _⟩; cases h1

/-- **running a program adds exactly the gates its path counts** -/
theorem run_cost {α} (p : Prog α) : ∀ {st : GSt} {a : α} {st' : GSt}, p.run st = .ok (a, st') →
    ∃ n, Cost p a n ∧ st'.c.gates.length = st.c.gates.length + n := by
  induction p with
  | pure a =>
    intro st a' st' h
    simp only [Prog.run, Except.ok.injEq, Prod.mk.injEq] at h
    obtain ⟨rfl, rfl⟩ := h
    exact ⟨0, .pure, rfl⟩
  | fresh r k ih =>
    intro st a st' h
    simp only [Prog.run] at h
    split at h
    · cases h
    · rename_i l ctr' _
      obtain ⟨n, h1, h2⟩ := ih l h
      exact ⟨n, .fresh l h1, h2⟩
  | add g ok k ih =>
    intro st a st' h
    simp only [Prog.run] at h
    split at h
    · cases h
    · rename_i c' hc
      obtain ⟨_, _, hg, _⟩ := addGate_fields hc
      obtain ⟨n, h1, h2⟩ := ih h
      refine ⟨n + 1, .add h1, ?_⟩
      rw [h2]; simp only [hg, List.length_append, List.length_singleton]; omega
  | mark l k ih =>
    intro st a st' h
    simp only [Prog.run] at h
    split at h
    · cases h
    · rename_i c' hc
      obtain ⟨hg, _⟩ := markAsOutput_fields hc
      obtain ⟨n, h1, h2⟩ := ih h
      refine ⟨n, .mark h1, ?_⟩
      rw [h2]; simp only [hg]
  | fail e => intro st a st' h; simp [Prog.run] at h

/-! ## primitives and blocks -/

theorem cost_emitTT {x y : Label} {t : TT} {l : Label} {n : Nat} (h : Cost (emitTT x y t) l n) : n = 1 := by
  unfold emitTT at h
  split at h
  · cases h with
    | fresh l0 h0 => cases h0
  · unfold emit at h
    cases h with
    | fresh l0 h0 =>
      cases h0 with
      | add hp => cases hp; rfl

theorem cost_addSum2 {ins r : List Label} {n : Nat} (h : Cost (addSum2 ins) r n) : n = 2 ∧ r.length = 2 := by
  unfold addSum2 at h
  split at h
  · simp only [cost_bind, cost_pure] at h
    obtain ⟨g1, n1, m1, h1, ⟨g2, n2, m2, h2, ⟨rfl, rfl⟩, rfl⟩, rfl⟩ := h
    rw [cost_emitTT h1, cost_emitTT h2]; exact ⟨rfl, rfl⟩
  · exact absurd h cost_fail

theorem cost_addSum3 {ins r : List Label} {n : Nat} (h : Cost (addSum3 ins) r n) : n = 5 ∧ r.length = 2 := by
  unfold addSum3 at h
  split at h
  · simp only [cost_bind, cost_pure] at h
    obtain ⟨_, _, _, h1, ⟨_, _, _, h2, ⟨_, _, _, h3, ⟨_, _, _, h4, ⟨_, _, _, h5, ⟨rfl, rfl⟩, rfl⟩, rfl⟩, rfl⟩, rfl⟩, rfl⟩ := h
    rw [cost_emitTT h1, cost_emitTT h2, cost_emitTT h3, cost_emitTT h4, cost_emitTT h5]; exact ⟨rfl, rfl⟩
  · exact absurd h cost_fail

theorem cost_addStockmeyer {ins r : List Label} {n : Nat} (h : Cost (addStockmeyer ins) r n) : n = 4 ∧ r.length = 2 := by
  unfold addStockmeyer at h
  split at h
  · simp only [cost_bind, cost_pure] at h
    obtain ⟨_, _, _, h1, ⟨_, _, _, h2, ⟨_, _, _, h3, ⟨_, _, _, h4, ⟨rfl, rfl⟩, rfl⟩, rfl⟩, rfl⟩, rfl⟩ := h
    rw [cost_emitTT h1, cost_emitTT h2, cost_emitTT h3, cost_emitTT h4]; exact ⟨rfl, rfl⟩
  · exact absurd h cost_fail

theorem cost_addMdfa {ins r : List Label} {n : Nat} (h : Cost (addMdfa ins) r n) : n = 8 ∧ r.length = 3 := by
  unfold addMdfa at h
  split at h
  · simp only [cost_bind, cost_pure] at h
    obtain ⟨_, _, _, h1, ⟨_, _, _, h2, ⟨_, _, _, h3, ⟨_, _, _, h4, ⟨_, _, _, h5, ⟨_, _, _, h6, ⟨_, _, _, h7,
      ⟨_, _, _, h8, ⟨rfl, rfl⟩, rfl⟩, rfl⟩, rfl⟩, rfl⟩, rfl⟩, rfl⟩, rfl⟩, rfl⟩ := h
    rw [cost_emitTT h1, cost_emitTT h2, cost_emitTT h3, cost_emitTT h4, cost_emitTT h5, cost_emitTT h6,
      cost_emitTT h7, cost_emitTT h8]; exact ⟨rfl, rfl⟩
  · exact absurd h cost_fail

theorem cost_addSimplifiedMdfa {ins r : List Label} {n : Nat} (h : Cost (addSimplifiedMdfa ins) r n) :
    n = 6 ∧ r.length = 3 := by
  unfold addSimplifiedMdfa at h
  split at h
  · simp only [cost_bind, cost_pure] at h
    obtain ⟨_, _, _, h1, ⟨_, _, _, h2, ⟨_, _, _, h3, ⟨_, _, _, h4, ⟨_, _, _, h5, ⟨_, _, _, h6,
      ⟨rfl, rfl⟩, rfl⟩, rfl⟩, rfl⟩, rfl⟩, rfl⟩, rfl⟩ := h
    rw [cost_emitTT h1, cost_emitTT h2, cost_emitTT h3, cost_emitTT h4, cost_emitTT h5, cost_emitTT h6]; exact ⟨rfl, rfl⟩
  · exact absurd h cost_fail

theorem cost_addSum2Aig {ins r : List Label} {n : Nat} (h : Cost (addSum2Aig ins) r n) : n = 3 ∧ r.length = 2 := by
  unfold addSum2Aig at h
  split at h
  · simp only [cost_bind, cost_pure] at h
    obtain ⟨_, _, _, h1, ⟨_, _, _, h2, ⟨_, _, _, h3, ⟨rfl, rfl⟩, rfl⟩, rfl⟩, rfl⟩ := h
    rw [cost_emitTT h1, cost_emitTT h2, cost_emitTT h3]; exact ⟨rfl, rfl⟩
  · exact absurd h cost_fail

theorem cost_addSum3Aig {ins r : List Label} {n : Nat} (h : Cost (addSum3Aig ins) r n) : n = 7 ∧ r.length = 2 := by
  unfold addSum3Aig at h
  split at h
  · simp only [cost_bind, cost_pure] at h
    obtain ⟨_, _, _, h1, ⟨_, _, _, h2, ⟨_, _, _, h3, ⟨_, _, _, h4, ⟨_, _, _, h5, ⟨_, _, _, h6, ⟨_, _, _, h7,
      ⟨rfl, rfl⟩, rfl⟩, rfl⟩, rfl⟩, rfl⟩, rfl⟩, rfl⟩, rfl⟩ := h
    rw [cost_emitTT h1, cost_emitTT h2, cost_emitTT h3, cost_emitTT h4, cost_emitTT h5, cost_emitTT h6,
      cost_emitTT h7]; exact ⟨rfl, rfl⟩
  · exact absurd h cost_fail

theorem cost_pair2 {r : List Label} {p : Label × Label} {n : Nat} (h : Cost (pair2 r) p n) : n = 0 := by
  unfold pair2 at h
  split at h
  · exact (cost_pure.mp h).2
  · exact absurd h cost_fail

theorem cost_triple3 {r : List Label} {p : Label × Label × Label} {n : Nat} (h : Cost (triple3 r) p n) : n = 0 := by
  unfold triple3 at h
  split at h
  · exact (cost_pure.mp h).2
  · exact absurd h cost_fail

theorem cost_firstOfRev {l : List Label} {x : Label} {n : Nat} (h : Cost (firstOfRev l) x n) : n = 0 ∧ l ≠ [] := by
  unfold firstOfRev at h
  split at h
  · rename_i y hy
    refine ⟨(cost_pure.mp h).2, ?_⟩
    intro e; rw [e] at hy; cases hy
  · exact absurd h cost_fail

end Cirbo
